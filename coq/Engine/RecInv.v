(** * Engine.RecInv — invariants of the fixed-point engine model (definitions and basic lemmas).

    [WF]: shape of stack / search graph.  [SI]: what the values stored in cache and search
    graph mean.  Values are read through the two two-valued projections [tv th] ([th = false]:
    pessimistic, [Amb] counts as false; [th = true]: optimistic).  A projected value [b] of a
    node of kind [coind = b] (coinductive-true, inductive-false) is *relative*: justified one
    step at a time from other graph nodes of the same kind and projected value ([GL] leaves,
    possibly through a ghost set of discarded nodes, [Rel]); a projected value [b <> coind] is
    *absolute* ([Abs]).  Claims about pairs [(th, b)] that an interruption can spoil
    ([(opt, true)], [(pess, false)]: the ones an injected [Amb] would have to justify) are only
    kept while the current root solve has not been interrupted ([trusted]). *)

From Chalk Require Export Engine.RecEngine Engine.AndOrFacts.

(** ** lists *)
Lemma upd_length {A} (l : list A) i f : length (upd l i f) = length l.
Proof. revert i; induction l; intros [|i]; simpl; auto. Qed.

Lemma upd_nth_same {A} (l : list A) i f x : nth_error l i = Some x -> nth_error (upd l i f) i = Some (f x).
Proof. revert i; induction l; intros [|i]; simpl; intros H; try discriminate; auto. congruence. Qed.

Lemma upd_nth_other {A} (l : list A) i j f : i <> j -> nth_error (upd l i f) j = nth_error l j.
Proof.
  revert i j; induction l; intros [|i] [|j] H; simpl; auto; try congruence.
Qed.

Lemma nth_error_app_l {A} (l r : list A) i x : nth_error l i = Some x -> nth_error (l ++ r) i = Some x.
Proof. intros H. rewrite nth_error_app1; auto. apply nth_error_Some. congruence. Qed.

Lemma nth_error_snoc {A} (l : list A) x : nth_error (l ++ [x]) (length l) = Some x.
Proof. rewrite nth_error_app2; auto. rewrite Nat.sub_diag. reflexivity. Qed.

Lemma nth_error_firstn {A} (l : list A) n i : i < n -> nth_error (firstn n l) i = nth_error l i.
Proof.
  revert n i; induction l; intros [|n] [|i] H; simpl; auto; try lia. apply IHl. lia.
Qed.

Lemma nth_error_firstn_ge {A} (l : list A) n i : n <= i -> nth_error (firstn n l) i = None.
Proof. intros H. apply nth_error_None. rewrite firstn_length. lia. Qed.

Lemma removelast_snoc {A} (l : list A) x : removelast (l ++ [x]) = l.
Proof. apply removelast_last. Qed.

Lemma removelast_length {A} (l : list A) : length (removelast l) = length l - 1.
Proof.
  induction l as [|a l IH]; simpl; auto. destruct l; simpl in *; auto. lia.
Qed.

Lemma nth_error_removelast {A} (l : list A) i : i < length l - 1 -> nth_error (removelast l) i = nth_error l i.
Proof.
  revert i; induction l as [|a l IH]; intros i H; simpl in *; try lia.
  destruct l as [|b l]; simpl in *; try lia.
  destruct i; auto. apply IH. simpl. lia.
Qed.

(** ** minimums *)
Definition mn_le (a b : mn) : Prop :=
  match a, b with
  | _, None => True
  | None, Some _ => False
  | Some x, Some y => x <= y
  end.

Lemma mn_le_refl a : mn_le a a.
Proof. destruct a; simpl; auto. Qed.

Lemma mn_le_trans a b c : mn_le a b -> mn_le b c -> mn_le a c.
Proof. destruct a, b, c; simpl; try tauto; lia. Qed.

Lemma mn_min_le_l a b : mn_le (mn_min a b) a.
Proof. destruct a, b; simpl; auto; lia. Qed.

Lemma mn_min_le_r a b : mn_le (mn_min a b) b.
Proof. destruct a, b; simpl; auto; lia. Qed.

Lemma mn_min_glb a b c : mn_le c a -> mn_le c b -> mn_le c (mn_min a b).
Proof. destruct a, b, c; simpl; try tauto; lia. Qed.

Lemma mn_geb_spec a d : mn_geb a d = true <-> mn_le (Some d) a.
Proof. destruct a; simpl; [rewrite Nat.leb_le|]; tauto. Qed.

Lemma mn_min_cases a b : mn_min a b = a \/ mn_min a b = b.
Proof. destruct a as [x|], b as [y|]; simpl; auto. destruct (Nat.min_spec x y) as [[_ ->]|[_ ->]]; auto. Qed.

(** ** projections *)
Lemma tv_yes th : tv th Yes = true. Proof. reflexivity. Qed.
Lemma tv_no th : tv th No = false. Proof. reflexivity. Qed.
Lemma tv_amb th : tv th Amb = th. Proof. reflexivity. Qed.

Definition trusted (th b : bool) (s : state) : Prop := th = negb b \/ interrupted s = false.

Section Inv.
  Variable G : graph.

  Definition nodeat (s : state) (d : nat) (nd : gnode) : Prop := nth_error (sgraph s) d = Some nd.

  (** the stack entry of an on-stack node has its cycle flag set *)
  Definition flagged (s : state) (nd : gnode) : Prop :=
    forall i e, gn_depth nd = Some i -> nth_error (stack s) i = Some e -> se_cycle e = true.

  (** a graph node as a leaf of a relative justification *)
  Definition GL (th b : bool) (s : state) (l : mn) (z : nat) : Prop :=
    exists d nd, nodeat s d nd /\ gn_goal nd = z /\ tv th (gn_sol nd) = b /\ coind (get G z) = b /\
                 mn_le l (Some d) /\ flagged s nd.

  Definition NJ1 (th b : bool) (L : nat -> Prop) (g : nat) : Prop :=
    if b then exists c, In c (clauses (get G g)) /\ usable th c = true /\ forall m, In m (fst c) -> L m
    else forall c, In c (clauses (get G g)) -> usable th c = true -> exists m, In m (fst c) /\ L m.

  Definition Rel (th b : bool) (s : state) (l : mn) (g : nat) : Prop :=
    exists X : nat -> Prop, X g /\
      forall x, X x -> coind (get G x) = b /\ NJ1 th b (fun m => Abs G th b m \/ X m \/ GL th b s l m) x.

  Lemma NJ1_mono th b (L L' : nat -> Prop) g : (forall m, L m -> L' m) -> NJ1 th b L g -> NJ1 th b L' g.
  Proof.
    intros HL. destruct b; simpl.
    - intros [c [Hin [Hus Hs]]]. exists c. repeat split; auto.
    - intros H c Hin Hus. destruct (H c Hin Hus) as [m [Hm HLm]]. exists m. auto.
  Qed.

  (** one step from absolute leaves is absolute *)
  Lemma NJ1_abs th b g : NJ1 th b (Abs G th b) g -> Abs G th b g.
  Proof.
    destruct b; simpl.
    - intros [c [Hin [Hus Hs]]]. eapply holds_step; eauto.
    - intros H Hh. apply holds_inv in Hh. destruct Hh as [c [Hin [Hus Hs]]].
      destruct (H c Hin Hus) as [m [Hm Hn]]. apply Hn. auto.
  Qed.

  (** a closed relative justification is absolute (coinduction / unfounded sets) *)
  Lemma closed_abs th b (X : nat -> Prop) :
    (forall x, X x -> coind (get G x) = b /\ NJ1 th b (fun m => Abs G th b m \/ X m) x) ->
    forall x, X x -> Abs G th b x.
  Proof.
    intros HX. destruct b; simpl in *.
    - apply coinduction_rel. intros x Hx. destruct (HX x Hx) as [Hco [c [Hin [Hus Hs]]]].
      split; auto. exists c. repeat split; auto.
    - apply unfounded_rel. intros x Hx. destruct (HX x Hx) as [Hco H].
      split; auto.
  Qed.

  (** ** shape of stack and search graph *)
  Record WF (s : state) : Prop := {
    wf_goal : forall d nd, nodeat s d nd -> gn_goal nd < length G;
    wf_nodup : forall d d' nd nd', nodeat s d nd -> nodeat s d' nd' -> gn_goal nd = gn_goal nd' -> d = d';
    wf_dep : forall d nd i, nodeat s d nd -> gn_depth nd = Some i ->
               gn_links nd = Some d /\
               exists e, nth_error (stack s) i = Some e /\ se_coind e = coind (get G (gn_goal nd));
    wf_surj : forall i, i < length (stack s) -> exists d nd, nodeat s d nd /\ gn_depth nd = Some i;
    wf_mono : forall d d' nd nd' i i', nodeat s d nd -> nodeat s d' nd' ->
               gn_depth nd = Some i -> gn_depth nd' = Some i' -> (d < d' <-> i < i');
    wf_pend : forall d nd, nodeat s d nd -> gn_depth nd = None ->
               exists l ndl, gn_links nd = Some l /\ l < d /\ nodeat s l ndl /\ path G (gn_goal nd) (gn_goal ndl);
    (** every graph node reaches the node on top of the stack; lower stack nodes reach higher ones *)
    wf_top : forall d nd dt ndt, nodeat s d nd -> nodeat s dt ndt ->
               gn_depth ndt = Some (length (stack s) - 1) -> path G (gn_goal nd) (gn_goal ndt);
    wf_chain : forall d nd d' nd' i i', nodeat s d nd -> nodeat s d' nd' ->
               gn_depth nd = Some i -> gn_depth nd' = Some i' -> i <= i' -> path G (gn_goal nd) (gn_goal nd');
  }.

  Definition cache_exact (s : state) : Prop := forall g v, cache_get (cache s) g = Some v -> sem G g v.

  Record SI (s : state) : Prop := {
    si_cache : cache_exact s;
    si_node : forall th d nd, nodeat s d nd -> trusted th (tv th (gn_sol nd)) s ->
       (coind (get G (gn_goal nd)) <> tv th (gn_sol nd) -> Abs G th (tv th (gn_sol nd)) (gn_goal nd)) /\
       (coind (get G (gn_goal nd)) = tv th (gn_sol nd) -> gn_depth nd = None ->
          Rel th (tv th (gn_sol nd)) s (gn_links nd) (gn_goal nd));
  }.

  (** [s'] keeps the nodes and stack entries of [s] (flags may have been set) *)
  Record sub (s s' : state) : Prop := {
    sub_stack : forall i e, nth_error (stack s) i = Some e ->
                 exists e', nth_error (stack s') i = Some e' /\ se_coind e' = se_coind e /\
                            (se_cycle e = true -> se_cycle e' = true);
    sub_graph : forall d nd, nodeat s d nd -> nodeat s' d nd;
    sub_int : interrupted s = true -> interrupted s' = true;
  }.

  (** what a sub-computation may do to the state it started from *)
  Record ext (s s' : state) : Prop := {
    ext_len : length (stack s') = length (stack s);
    ext_stack : forall i e, nth_error (stack s) i = Some e ->
                 exists e', nth_error (stack s') i = Some e' /\ se_coind e' = se_coind e /\
                            (se_cycle e = true -> se_cycle e' = true);
    ext_graph : forall d nd, nodeat s d nd -> nodeat s' d nd;
    ext_new : forall d nd, nodeat s' d nd -> length (sgraph s) <= d -> gn_depth nd = None;
    ext_int : interrupted s = true -> interrupted s' = true;
  }.

  Lemma ext_refl s : ext s s.
  Proof.
    constructor; auto.
    - intros i e H. exists e. auto.
    - intros d nd H Hd. unfold nodeat in H.
      assert (d < length (sgraph s)) by (apply nth_error_Some; congruence). lia.
  Qed.

  Lemma ext_graph_len s s' : ext s s' -> length (sgraph s) <= length (sgraph s').
  Proof.
    intros E. destruct (le_lt_dec (length (sgraph s)) (length (sgraph s'))) as [H|H]; auto.
    destruct (nth_error (sgraph s) (length (sgraph s'))) as [nd|] eqn:Hn.
    - apply (ext_graph _ _ E) in Hn. unfold nodeat in Hn.
      assert (length (sgraph s') < length (sgraph s')) by (apply nth_error_Some; congruence). lia.
    - apply nth_error_None in Hn. lia.
  Qed.

  Lemma ext_trans s1 s2 s3 : ext s1 s2 -> ext s2 s3 -> ext s1 s3.
  Proof.
    intros A B. constructor.
    - rewrite (ext_len _ _ B). apply (ext_len _ _ A).
    - intros i e H. destruct (ext_stack _ _ A i e H) as [e' [H1 [H2 H3]]].
      destruct (ext_stack _ _ B i e' H1) as [e'' [H4 [H5 H6]]].
      exists e''. repeat split; auto; congruence.
    - intros d nd H. apply (ext_graph _ _ B). apply (ext_graph _ _ A). auto.
    - intros d nd H Hd. destruct (le_lt_dec (length (sgraph s2)) d) as [Hge|Hlt].
      + eapply (ext_new _ _ B); eauto.
      + assert (exists nd2, nodeat s2 d nd2) as [nd2 H2].
        { unfold nodeat. destruct (nth_error (sgraph s2) d) eqn:E; eauto.
          apply nth_error_None in E. lia. }
        pose proof (ext_graph _ _ B d nd2 H2) as H3. unfold nodeat in *.
        assert (nd2 = nd) by congruence. subst. eapply (ext_new _ _ A); eauto.
    - intros H. apply (ext_int _ _ B). apply (ext_int _ _ A). auto.
  Qed.

  Lemma ext_sub s s' : ext s s' -> sub s s'.
  Proof. intros E. constructor; [apply (ext_stack _ _ E)|apply (ext_graph _ _ E)|apply (ext_int _ _ E)]. Qed.

  Lemma sub_refl s : sub s s.
  Proof. constructor; auto. intros i e H. exists e. auto. Qed.

  Lemma sub_trans s1 s2 s3 : sub s1 s2 -> sub s2 s3 -> sub s1 s3.
  Proof.
    intros A B. constructor.
    - intros i e H. destruct (sub_stack _ _ A i e H) as [e' [H1 [H2 H3]]].
      destruct (sub_stack _ _ B i e' H1) as [e'' [H4 [H5 H6]]].
      exists e''. repeat split; auto; congruence.
    - intros d nd H. apply (sub_graph _ _ B). apply (sub_graph _ _ A). auto.
    - intros H. apply (sub_int _ _ B). apply (sub_int _ _ A). auto.
  Qed.

  Lemma trusted_sub th b s s' : sub s s' -> trusted th b s' -> trusted th b s.
  Proof.
    intros E [H|H]; [left; auto|]. right.
    destruct (interrupted s) eqn:Hi; auto. rewrite (sub_int _ _ E Hi) in H. discriminate.
  Qed.

  Lemma trusted_ext th b s s' : ext s s' -> trusted th b s' -> trusted th b s.
  Proof. intros E. apply trusted_sub. apply ext_sub; auto. Qed.

  Lemma flagged_sub s s' nd : sub s s' -> flagged s nd -> (forall i, gn_depth nd = Some i -> i < length (stack s)) -> flagged s' nd.
  Proof.
    intros E F Hlt i e' Hd He'.
    specialize (Hlt i Hd).
    destruct (nth_error (stack s) i) as [e|] eqn:He; [|apply nth_error_None in He; lia].
    destruct (sub_stack _ _ E i e He) as [e2 [H1 [_ H3]]].
    assert (e2 = e') by congruence. subst. apply H3. eapply F; eauto.
  Qed.

  Lemma GL_sub th b s s' l l' z :
    WF s -> sub s s' -> mn_le l' l -> GL th b s l z -> GL th b s' l' z.
  Proof.
    intros W E Hl [d [nd [Hn [Hg [Ht [Hc [Hd Hf]]]]]]].
    exists d, nd. repeat split; auto.
    - apply (sub_graph _ _ E); auto.
    - eapply mn_le_trans; eauto.
    - eapply flagged_sub; eauto. intros i Hi.
      destruct (wf_dep _ W d nd i Hn Hi) as [_ [e [He _]]].
      apply nth_error_Some. congruence.
  Qed.

  Lemma Rel_sub th b s s' l l' g :
    WF s -> sub s s' -> mn_le l' l -> Rel th b s l g -> Rel th b s' l' g.
  Proof.
    intros W E Hl [X [Hg HX]]. exists X. split; auto.
    intros x Hx. destruct (HX x Hx) as [Hc HN]. split; auto.
    eapply NJ1_mono; [|exact HN]. intros m [H|[H|H]]; auto.
    right; right. eapply GL_sub; eauto.
  Qed.

  Lemma GL_mono th b s s' l l' z :
    WF s -> ext s s' -> mn_le l' l -> GL th b s l z -> GL th b s' l' z.
  Proof. intros W E. apply GL_sub; auto. apply ext_sub; auto. Qed.

  Lemma Rel_mono th b s s' l l' g :
    WF s -> ext s s' -> mn_le l' l -> Rel th b s l g -> Rel th b s' l' g.
  Proof. intros W E. apply Rel_sub; auto. apply ext_sub; auto. Qed.

  (** a variant of [NJ1_mono] that may use where the leaf sits *)
  Lemma NJ1_mono_in th b (L L' : nat -> Prop) g :
    (forall c m, In c (clauses (get G g)) -> In m (fst c) -> L m -> L' m) -> NJ1 th b L g -> NJ1 th b L' g.
  Proof.
    intros HL. destruct b; simpl.
    - intros [c [Hin [Hus Hs]]]. exists c. repeat split; auto. intros m Hm. eapply HL; eauto.
    - intros H c Hin Hus. destruct (H c Hin Hus) as [m [Hm HLm]]. exists m. split; auto. eapply HL; eauto.
  Qed.
End Inv.
