(** * Engine.AndOr — ground and-or graphs with coinductive marks and their meaning.

    A node stands for a ground goal; it has a list of clauses (alternatives); a clause is a
    list of subgoal nodes (in the order the solver evaluates them) plus a flag [amb] that
    stands for "this clause can at best be ambiguous" (truncation / floundering /
    [cannot_prove] in [Fulfill]).  A node whose only clause is [([], true)] is a three-valued
    leaf.  Node ids are positions in the graph (a [nat]).

    Meaning.  [holds G opt n] is the two-valued reading: the greatest consistent set of
    coinductive nodes with inductive derivations in between (nu-mu); [opt = true] lets
    flagged clauses count (optimistic reading), [opt = false] ignores them (pessimistic).
    The three-valued (Kleene) value of a node is [Yes] if it holds pessimistically, [No] if
    it does not even hold optimistically, [Amb] otherwise. *)

From Coq Require Export List Arith Bool Lia.
Export ListNotations.

Inductive val := Yes | No | Amb.

Definition val_eqb (a b : val) : bool :=
  match a, b with Yes, Yes | No, No | Amb, Amb => true | _, _ => false end.

Lemma val_eqb_spec a b : reflect (a = b) (val_eqb a b).
Proof. destruct a, b; constructor; congruence. Qed.

Lemma val_eqb_refl a : val_eqb a a = true.
Proof. destruct a; reflexivity. Qed.

(** [a ⊑ b]: the interrupted answer [a] is the full answer [b] or a weaker ambiguous one. *)
Definition weaker (a b : val) : Prop := a = b \/ a = Amb.
Definition weakerb (a b : val) : bool := val_eqb a b || val_eqb a Amb.

Definition clause := (list nat * bool)%type.
Record node := mkNode { coind : bool; clauses : list clause }.
Definition graph := list node.

Definition dnode : node := mkNode false [].
Definition get (G : graph) (n : nat) : node := nth n G dnode.

(** every subgoal id is a node of the graph *)
Definition wf (G : graph) : Prop :=
  forall n c m, In c (clauses (get G n)) -> In m (fst c) -> m < length G.

Definition wfb (G : graph) : bool :=
  forallb (fun nd => forallb (fun c : clause => forallb (fun m => m <? length G) (fst c)) (clauses nd)) G.

Definition two_valued (G : graph) : Prop :=
  forall n c, In c (clauses (get G n)) -> snd c = false.

Definition two_valuedb (G : graph) : bool :=
  forallb (fun nd => forallb (fun c : clause => negb (snd c)) (clauses nd)) G.

(** ** Declarative meaning *)
Section Sem.
  Variable G : graph.
  Variable opt : bool.

  Definition usable (c : clause) : bool := opt || negb (snd c).

  (** inductive derivations relative to a set [C] of assumed coinductive nodes *)
  Inductive holdsI (C : nat -> Prop) : nat -> Prop :=
  | HI_co n : coind (get G n) = true -> C n -> holdsI C n
  | HI_in n c : coind (get G n) = false -> In c (clauses (get G n)) -> usable c = true ->
                (forall m, In m (fst c) -> holdsI C m) -> holdsI C n.

  Definition consistent (C : nat -> Prop) : Prop :=
    forall n, C n -> coind (get G n) = true /\
      exists c, In c (clauses (get G n)) /\ usable c = true /\ forall m, In m (fst c) -> holdsI C m.

  Definition holds (n : nat) : Prop := exists C, consistent C /\ holdsI C n.
End Sem.

(** three-valued value as a relation *)
Definition sem (G : graph) (n : nat) (v : val) : Prop :=
  match v with
  | Yes => holds G false n
  | No => ~ holds G true n
  | Amb => holds G true n /\ ~ holds G false n
  end.

(** ** Edges, paths, mixed cycles *)
Definition succs (G : graph) (n : nat) : list nat := flat_map (fun c : clause => fst c) (clauses (get G n)).
Definition edge (G : graph) (a b : nat) : Prop := In b (succs G a).

Inductive path (G : graph) : nat -> nat -> Prop :=
| path_refl a : path G a a
| path_step a b c : edge G a b -> path G b c -> path G a c.

(** a mixed cycle: an inductive and a coinductive node on a common cycle *)
Definition mixed_cycle (G : graph) : Prop :=
  exists a b, coind (get G a) = true /\ coind (get G b) = false /\ path G a b /\ path G b a.

(** ** Executable evaluator (used by the checks as the oracle on and-or graphs and to
    state exactness of the engine).  [lfpI C] closes a candidate set [C] of coinductive
    nodes under inductive clauses; [gfp] shrinks the candidate set. *)
Section Eval.
  Variable G : graph.
  Variable opt : bool.

  Definition memb (n : nat) (l : list nat) : bool := existsb (Nat.eqb n) l.

  (** one round: inductive nodes derivable from the set [T] (all nodes of [T] count as true) *)
  Definition clause_ok (T : list nat) (c : clause) : bool :=
    usable opt c && forallb (fun m => memb m T) (fst c).
  Definition node_ok (T : list nat) (n : nat) : bool := existsb (clause_ok T) (clauses (get G n)).

  Definition stepI (T : list nat) : list nat :=
    T ++ filter (fun n => negb (memb n T) && negb (coind (get G n)) && node_ok T n) (seq 0 (length G)).

  Fixpoint iter {A} (f : A -> A) (k : nat) (x : A) : A :=
    match k with 0 => x | S k => iter f k (f x) end.

  (** inductive closure of an assumed set of coinductive nodes *)
  Definition lfpI (C : list nat) : list nat := iter stepI (length G) C.

  Definition stepC (C : list nat) : list nat :=
    let T := lfpI C in filter (fun n => node_ok T n) C.

  Definition conodes : list nat := filter (fun n => coind (get G n)) (seq 0 (length G)).
  Definition gfpC : list nat := iter stepC (length G) conodes.
  Definition true_set : list nat := lfpI gfpC.
  Definition holdsb (n : nat) : bool := memb n true_set.
End Eval.

Definition eval (G : graph) (n : nat) : val :=
  if holdsb G false n then Yes else if holdsb G true n then Amb else No.

(** reachability (executable), mixed-cycle test *)
Definition reach_step (G : graph) (R : list nat) : list nat :=
  R ++ filter (fun n => negb (memb n R) && existsb (fun a => memb n (succs G a)) R) (seq 0 (length G)).
Definition reach (G : graph) (a : nat) : list nat := iter (reach_step G) (length G) [a].
Definition mixed_cycleb (G : graph) : bool :=
  existsb (fun a => coind (get G a) &&
     existsb (fun b => negb (coind (get G b)) && memb b (reach G a) && memb a (reach G b)) (seq 0 (length G)))
    (seq 0 (length G)).

(** sanity tests (tests, not proofs of anything general) *)
Example eval_chain : map (eval [mkNode false [([1], false)]; mkNode false [([2], false)]; mkNode false [([], false)]]) [0; 1; 2] = [Yes; Yes; Yes].
Proof. reflexivity. Qed.
Example eval_ind_cycle : map (eval [mkNode false [([1], false)]; mkNode false [([0], false)]]) [0; 1] = [No; No].
Proof. reflexivity. Qed.
Example eval_co_cycle : map (eval [mkNode true [([1], false)]; mkNode true [([0], false)]]) [0; 1] = [Yes; Yes].
Proof. reflexivity. Qed.
Example eval_amb : map (eval [mkNode false [([1], false); ([2], false)]; mkNode false [([0], false)]; mkNode false [([], true)]]) [0; 1; 2] = [Amb; Amb; Amb].
Proof. reflexivity. Qed.
