(** * Engine.RecTheorems — what the invariants of Engine.RecSolve give at the level of root
    solves and histories of root solves, for the REPAIRED engine on and-or graphs without
    mixed inductive/coinductive cycles. *)

From Chalk Require Export Engine.RecSolve Engine.RecWitness.

(** no [should_continue] call between the two states answered [false] *)
Definition quiet (cf : config) (s s' : state) : Prop :=
  forall i, sci s <= i -> i < sci s' -> sc cf i = true.

Definition in_graph (G : graph) (h : list nat) : Prop := forall g, In g h -> g < length G.

Section Root.
  Variable G : graph.
  Variable cf : config.
  Hypothesis Hwf : wf G.
  Hypothesis Hnomix : ~ mixed_cycle G.
  Hypothesis Hvr : vr cf = repaired.

  Lemma WF_empty s : stack s = [] -> sgraph s = [] -> WF G s.
  Proof.
    intros H1 H2. constructor; unfold nodeat; rewrite ?H1, ?H2; simpl;
      try (intros d; destruct d; discriminate); try (intros; lia).
    all: intros d; intros; destruct d; discriminate.
  Qed.

  Lemma SI_empty s : sgraph s = [] -> cache_exact G s -> SI G s.
  Proof.
    intros H2 Hc. constructor; auto. intros th d nd H. unfold nodeat in H. rewrite H2 in H.
    destruct d; discriminate.
  Qed.

  (** the specification of one root solve *)
  Theorem root_spec fuel g s :
    cache_exact G s -> g < length G ->
    match solve_root G cf fuel g s with
    | Done v s' =>
        cache_exact G s' /\ stack s' = [] /\ sgraph s' = [] /\ sci s <= sci s' /\
        (v = Yes -> holds G false g) /\ (v = No -> ~ holds G true g) /\
        (quiet cf s s' -> sem G g v)
    | Panic p s' => cache_exact G s' /\ (p = Injected \/ p = OverflowDepth)
    | OutOfFuel => True
    end.
  Proof.
    intros Hc Hg. unfold solve_root. rewrite Hvr. simpl fix_f4. cbv iota. simpl bind.
    set (s1 := set_interrupted (set_graph (set_stack s []) []) false).
    assert (W1 : WF G s1) by (apply WF_empty; reflexivity).
    assert (S1 : SI G s1) by (apply SI_empty; [reflexivity|exact Hc]).
    assert (C1 : Ctx G s1 0 g) by (left; split; reflexivity).
    pose proof (proj1 (specs G cf Hwf Hnomix Hvr fuel) g None s1 0 W1 S1 Hg C1) as H.
    destruct (solve_goal G cf fuel g None s1) as [[v m'] s'|p s'|]; simpl in *; auto.
    - destruct H as [F HJ].
      pose proof (fr_wf _ _ _ _ _ _ _ F) as W'. pose proof (fr_si _ _ _ _ _ _ _ F) as S'.
      pose proof (fr_ext _ _ _ _ _ _ _ F) as E'. destruct (fr_int _ _ _ _ _ _ _ F) as [I1 I2].
      assert (Hst : stack s' = []).
      { pose proof (ext_len _ _ E') as Hl. simpl in Hl. destruct (stack s'); [reflexivity|discriminate]. }
      assert (Hgr : sgraph s' = []).
      { destruct (sgraph s') as [|n r] eqn:Eg; [reflexivity|exfalso].
        assert (Hn : nodeat s' 0 n) by (unfold nodeat; rewrite Eg; reflexivity).
        pose proof (ext_new _ _ E' 0 n Hn (Nat.le_0_l _)) as Hp.
        destruct (wf_pend _ _ W' 0 n Hn Hp) as [l [ndl [_ [Hl _]]]]. lia. }
      assert (Habs : forall th, trusted th (tv th v) s' -> Abs G th (tv th v) g).
      { intros th Ht. destruct (HJ th Ht) as [A|[[d [nd [Hn _]]] _]]; auto.
        unfold nodeat in Hn. rewrite Hgr in Hn. destruct d; discriminate. }
      split; [apply (si_cache _ _ S')|]. split; auto. split; auto. split; [exact I1|].
      split; [|split].
      + intros ->. apply (Habs false). left. reflexivity.
      + intros ->. apply (Habs true). left. reflexivity.
      + intros Hq. apply sem_of_abs. intros th. apply Habs. right.
        destruct (interrupted s') eqn:Ei; auto.
        destruct (I2 eq_refl) as [Hf|[i [A [B C]]]]; [discriminate|].
        rewrite (Hq i A B) in C. discriminate.
    - destruct H as [Hp Hc']. split; auto.
  Qed.
End Root.

(** ** histories *)
Section Histories.
  Variable G : graph.
  Hypothesis Hwf : wf G.
  Hypothesis Hnomix : ~ mixed_cycle G.

  Lemma cache_exact_init : cache_exact G init_state.
  Proof. intros g v H. discriminate. Qed.

  (** [rec_cache_exact]: every cache entry is the declarative value, after any history of
      root solves (interrupted, panicking or not), for any configuration of the repaired
      engine *)
  Lemma run_cache_exact cf fuel h : vr cf = repaired -> in_graph G h ->
    forall s, cache_exact G s -> cache_exact G (snd (run G cf fuel h s)).
  Proof.
    intros Hvr. induction h as [|g r IH]; intros Hin s Hc; simpl; auto.
    unfold step_root.
    pose proof (root_spec G cf Hwf Hnomix Hvr fuel g s Hc (Hin g (or_introl eq_refl))) as H.
    assert (Hr : in_graph G r) by (intros x Hx; apply Hin; right; auto).
    destruct (solve_root G cf fuel g s) as [v s'|p s'|]; simpl.
    - destruct H as [Hc' _]. specialize (IH Hr s' Hc'). destruct (run G cf fuel r s'); simpl in *; exact IH.
    - destruct H as [Hc' _]. specialize (IH Hr s' Hc'). destruct (run G cf fuel r s'); simpl in *; exact IH.
    - specialize (IH Hr s Hc). destruct (run G cf fuel r s); simpl in *; exact IH.
  Qed.

  Lemma rec_cache_exact_lemma cf fuel h : vr cf = repaired -> in_graph G h ->
    forall g v, cache_get (cache (snd (run G cf fuel h init_state))) g = Some v -> sem G g v.
  Proof. intros Hvr Hin. apply (run_cache_exact cf fuel h Hvr Hin init_state cache_exact_init). Qed.

  (** a root solve from any state reached by a history *)
  Definition after (cf : config) (fuel : nat) (h : list nat) : state := snd (run G cf fuel h init_state).

  (** [rec_history_independent]: whatever history (with interruptions and panics) a context
      has seen, an uninterrupted root solve answers the declarative value, hence the same as
      an uninterrupted solve on a fresh context -- for any two configurations of the repaired
      engine (cache on or off, different overflow depths / schedules: [rec_cache_off_same]) *)
  Lemma rec_exact_after cf fuel h fuel' g v s' : vr cf = repaired -> in_graph G h -> g < length G ->
    solve_root G cf fuel' g (after cf fuel h) = Done v s' -> quiet cf (after cf fuel h) s' -> sem G g v.
  Proof.
    intros Hvr Hin Hg Hrun Hq.
    pose proof (root_spec G cf Hwf Hnomix Hvr fuel' g (after cf fuel h)
                  (run_cache_exact cf fuel h Hvr Hin init_state cache_exact_init) Hg) as H.
    rewrite Hrun in H. apply H. exact Hq.
  Qed.

  Lemma rec_history_independent_lemma cf1 cf2 fuel1 h1 fuel2 h2 f1 f2 g v1 v2 s1 s2 :
    vr cf1 = repaired -> vr cf2 = repaired -> in_graph G h1 -> in_graph G h2 -> g < length G ->
    solve_root G cf1 f1 g (after cf1 fuel1 h1) = Done v1 s1 -> quiet cf1 (after cf1 fuel1 h1) s1 ->
    solve_root G cf2 f2 g (after cf2 fuel2 h2) = Done v2 s2 -> quiet cf2 (after cf2 fuel2 h2) s2 ->
    v1 = v2.
  Proof.
    intros V1 V2 I1 I2 Hg R1 Q1 R2 Q2. apply (sem_fun G g v1 v2).
    - exact (rec_exact_after cf1 fuel1 h1 f1 g v1 s1 V1 I1 Hg R1 Q1).
    - exact (rec_exact_after cf2 fuel2 h2 f2 g v2 s2 V2 I2 Hg R2 Q2).
  Qed.

  (** [rec_ground_exact]: on two-valued graphs the answer is never [Amb] *)
  Lemma rec_ground_exact_lemma cf fuel h fuel' g v s' : two_valued G ->
    vr cf = repaired -> in_graph G h -> g < length G ->
    solve_root G cf fuel' g (after cf fuel h) = Done v s' -> quiet cf (after cf fuel h) s' ->
    sem G g v /\ v <> Amb.
  Proof.
    intros H2 Hvr Hin Hg Hrun Hq. pose proof (rec_exact_after cf fuel h fuel' g v s' Hvr Hin Hg Hrun Hq) as Hs.
    split; auto. intros ->. eapply sem_two_valued; eauto.
  Qed.

  (** [rec_interrupt_weaker]: an interrupted root solve answers the full answer or [Amb] *)
  Lemma rec_interrupt_weaker_lemma cf fuel h fuel' g v s' v0 : vr cf = repaired -> in_graph G h -> g < length G ->
    solve_root G cf fuel' g (after cf fuel h) = Done v s' -> sem G g v0 -> weaker v v0.
  Proof.
    intros Hvr Hin Hg Hrun Hs.
    pose proof (root_spec G cf Hwf Hnomix Hvr fuel' g (after cf fuel h)
                  (run_cache_exact cf fuel h Hvr Hin init_state cache_exact_init) Hg) as H.
    rewrite Hrun in H. destruct H as [_ [_ [_ [_ [Hy [Hn _]]]]]].
    destruct v.
    - left. apply (sem_fun G g Yes v0); auto. simpl. auto.
    - left. apply (sem_fun G g No v0); auto. simpl. auto.
    - right. reflexivity.
  Qed.

  (** [rec_panic_restores]: a panic at any callback point leaves a context from which root
      solves behave as from any other reachable context: no [StackNotEmpty], and the cache is
      still exact *)
  Lemma rec_panic_restores_lemma cf fuel g s p s' : vr cf = repaired -> g < length G ->
    cache_exact G s -> solve_root G cf fuel g s = Panic p s' ->
    (p = Injected \/ p = OverflowDepth) /\ cache_exact G s' /\
    forall fuel2 g2, g2 < length G ->
      match solve_root G cf fuel2 g2 s' with
      | Done v s'' => cache_exact G s'' /\ stack s'' = [] /\ sgraph s'' = [] /\ (quiet cf s' s'' -> sem G g2 v)
      | Panic p2 s'' => cache_exact G s'' /\ (p2 = Injected \/ p2 = OverflowDepth)
      | OutOfFuel => True
      end.
  Proof.
    intros Hvr Hg Hc Hrun.
    pose proof (root_spec G cf Hwf Hnomix Hvr fuel g s Hc Hg) as H. rewrite Hrun in H. destruct H as [Hc' Hp].
    split; auto. split; auto. intros fuel2 g2 Hg2.
    pose proof (root_spec G cf Hwf Hnomix Hvr fuel2 g2 s' Hc' Hg2) as H2.
    destruct (solve_root G cf fuel2 g2 s') as [v s''|p2 s''|]; auto.
    destruct H2 as [A [B [C [_ [_ [_ D]]]]]]. auto.
  Qed.
End Histories.

(** ** non-vacuity: the hypotheses of the theorems hold on the F15 graph (three-valued, an
    inductive cycle through an ambiguous head), with a history, and on the F3 / F4 inputs *)
Lemma no_mixed_all_inductive G : (forall n, coind (get G n) = false) -> ~ mixed_cycle G.
Proof. intros H [a [b [Ha _]]]. rewrite H in Ha. discriminate. Qed.

Lemma wfb_wf G : wfb G = true -> wf G.
Proof.
  unfold wfb, wf. intros H n c m Hc Hm. rewrite forallb_forall in H.
  unfold get in Hc. destruct (nth_error G n) as [nd|] eqn:E.
  - rewrite (nth_error_nth _ _ _ E) in Hc. apply nth_error_In in E. specialize (H nd E).
    rewrite forallb_forall in H. specialize (H c Hc). rewrite forallb_forall in H. specialize (H m Hm).
    apply Nat.ltb_lt. exact H.
  - apply nth_error_None in E. rewrite nth_overflow in Hc by exact E. destruct Hc.
Qed.

Lemma amb_cycle_ok : wf RecWitness.amb_cycle /\ ~ mixed_cycle RecWitness.amb_cycle.
Proof.
  split; [apply wfb_wf; reflexivity|]. apply no_mixed_all_inductive.
  intros [|[|[|[|n]]]]; reflexivity.
Qed.

Lemma chain3_ok : wf RecWitness.chain3 /\ ~ mixed_cycle RecWitness.chain3 /\ two_valued RecWitness.chain3.
Proof.
  split; [apply wfb_wf; reflexivity|]. split.
  - apply no_mixed_all_inductive. intros [|[|[|[|n]]]]; reflexivity.
  - intros n c Hc. destruct n as [|[|[|[|n]]]]; simpl in Hc;
      repeat (destruct Hc as [<-|Hc]; [reflexivity|]); destruct Hc.
Qed.

Lemma quiet_cfg v ov ca pan s s' : quiet (mk_config v ov ca [] pan) s s'.
Proof. intros i _ _. reflexivity. Qed.

(** history [0] then goal [1] on the F15 graph: both the history run and the fresh run are
    complete, uninterrupted root solves, and (by the theorem) agree *)
Example rec_history_independent_nonvacuous :
  exists s1 s2,
    solve_root RecWitness.amb_cycle (RecWitness.cfg repaired [] []) 100 1
      (after RecWitness.amb_cycle (RecWitness.cfg repaired [] []) 100 [0]) = Done Amb s1 /\
    solve_root RecWitness.amb_cycle (RecWitness.cfg repaired [] []) 100 1
      (after RecWitness.amb_cycle (RecWitness.cfg repaired [] []) 100 []) = Done Amb s2.
Proof. eexists. eexists. split; vm_compute; reflexivity. Qed.

(** an interrupted solve followed by a complete one (the F3 input) *)
Example rec_interrupt_nonvacuous :
  exists s1, solve_root RecWitness.chain3 (RecWitness.cfg repaired [0] []) 100 0 init_state = Done Amb s1 /\
  exists s2, solve_root RecWitness.chain3 (RecWitness.cfg repaired [0] []) 100 0 s1 = Done Yes s2 /\
             quiet (RecWitness.cfg repaired [0] []) s1 s2.
Proof.
  eexists. split; [vm_compute; reflexivity|]. eexists. split; [vm_compute; reflexivity|].
  intros i Hi _. simpl in Hi. destruct i; [lia|reflexivity].
Qed.

(** a panic at callback point 2 (the F4 input) followed by a complete solve *)
Example rec_panic_nonvacuous :
  exists s1, solve_root RecWitness.chain3 (RecWitness.cfg repaired [] [2]) 100 0 init_state = Panic Injected s1 /\
  exists s2, solve_root RecWitness.chain3 (RecWitness.cfg repaired [] [2]) 100 0 s1 = Done Yes s2.
Proof. eexists. split; [vm_compute; reflexivity|]. eexists. vm_compute. reflexivity. Qed.
