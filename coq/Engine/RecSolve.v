(** * Engine.RecSolve — [solve_goal] / [solve_new_subgoal] of the repaired engine preserve
    the invariants of Engine.RecInv (graphs without mixed cycles). *)

From Chalk Require Export Engine.RecEval.

Section Solve.
  Variable G : graph.
  Variable cf : config.
  Hypothesis Hwf : wf G.
  Hypothesis Hnomix : ~ mixed_cycle G.
  Hypothesis Hvr : vr cf = repaired.

  Notation WF := (WF G).
  Notation SI := (SI G).
  Notation GL := (GL G).
  Notation Rel := (Rel G).
  Notation J := (J G).
  Notation frame := (frame G cf).
  Notation int_ok := (int_ok cf).

  (** ** states that differ only in counters (and possibly a raised [interrupted]) *)
  Definition same_core (s s' : state) : Prop :=
    stack s' = stack s /\ sgraph s' = sgraph s /\ cache s' = cache s /\
    (interrupted s = true -> interrupted s' = true).

  Lemma WF_eq s s' : stack s' = stack s -> sgraph s' = sgraph s -> WF s -> WF s'.
  Proof.
    intros H1 H2 W. destruct W. constructor; unfold nodeat in *; rewrite ?H1, ?H2; auto.
  Qed.

  Lemma GL_eq th b s s' l z : stack s' = stack s -> sgraph s' = sgraph s -> GL th b s l z -> GL th b s' l z.
  Proof.
    intros H1 H2 [d [nd [Hn H]]]. exists d, nd. unfold nodeat, flagged in *. rewrite H1, H2. split; auto.
  Qed.

  Lemma sub_core s s' : same_core s s' -> sub s s'.
  Proof.
    intros [H1 [H2 [H3 H4]]]. constructor; unfold nodeat; rewrite ?H1, ?H2; auto.
    intros i e H. exists e. auto.
  Qed.

  Lemma ext_core s s' : same_core s s' -> ext s s'.
  Proof.
    intros [H1 [H2 [H3 H4]]]. constructor; unfold nodeat; rewrite ?H1, ?H2; auto.
    - intros i e H. exists e. auto.
    - intros d nd H Hd. assert (d < length (sgraph s)) by (apply nth_error_Some; congruence). lia.
  Qed.

  Lemma SI_core s s' : WF s -> same_core s s' -> SI s -> SI s'.
  Proof.
    intros W C S. pose proof (sub_core _ _ C) as Hs. destruct C as [H1 [H2 [H3 H4]]].
    constructor.
    - unfold cache_exact. rewrite H3. apply (si_cache _ _ S).
    - intros th d nd Hn Ht. unfold nodeat in Hn. rewrite H2 in Hn.
      destruct (si_node _ _ S th d nd Hn) as [A B]; [eapply trusted_sub; eauto|].
      split; auto. intros Hc Hp. eapply Rel_sub; eauto. apply mn_le_refl.
  Qed.

  Lemma frame_core s s' t m : WF s -> SI s -> same_core s s' -> int_ok s s' -> frame s s' t m m.
  Proof.
    intros W S C Hint. destruct (C) as [H1 [H2 [H3 H4]]]. constructor; [| | | | | |exact Hint].
    - eapply WF_eq; eauto.
    - eapply SI_core; eauto.
    - apply ext_core; auto.
    - apply mn_le_refl.
    - intros d nd H Hd. unfold nodeat in H. rewrite H2 in H.
      assert (d < length (sgraph s)) by (apply nth_error_Some; congruence). lia.
    - intros l Hl. left; auto.
  Qed.

  Lemma same_core_refl s : same_core s s.
  Proof. repeat split; auto. Qed.

  Lemma same_core_trans s1 s2 s3 : same_core s1 s2 -> same_core s2 s3 -> same_core s1 s3.
  Proof.
    intros [A1 [A2 [A3 A4]]] [B1 [B2 [B3 B4]]]. repeat split; try congruence. auto.
  Qed.

  Lemma cache_exact_core s s' : cache s' = cache s -> cache_exact G s -> cache_exact G s'.
  Proof. intros H C. unfold cache_exact. rewrite H. auto. Qed.

  (** ** cycles and kinds *)
  Lemma same_kind a b : path G a b -> path G b a -> coind (get G a) = coind (get G b).
  Proof.
    intros P1 P2. destruct (coind (get G a)) eqn:Ea, (coind (get G b)) eqn:Eb; auto; exfalso; apply Hnomix.
    - exists a, b. auto.
    - exists b, a. auto.
  Qed.

  Lemma path_trans a b c : path G a b -> path G b c -> path G a c.
  Proof. induction 1; auto. intros. eapply path_step; eauto. Qed.

  Lemma edge_clause g c x : In c (clauses (get G g)) -> In x (fst c) -> edge G g x.
  Proof. intros Hc Hx. unfold edge, succs. apply in_flat_map. exists c. auto. Qed.

  (** ** [solve_iteration] *)
  Section WithSg.
    Variable sg : nat -> mn -> state -> res (val * mn).
    Hypothesis Hsg : forall g m s t, WF s -> SI s -> g < length G -> topgoal s t -> edge G t g ->
                                     sg_post G cf t g m s (sg g m s).

    Definition it_post (g : nat) (s : state) (r : res (val * mn)) : Prop :=
      match r with
      | OutOfFuel => True
      | Panic p s' => (p = Injected \/ p = OverflowDepth) /\ cache_exact G s'
      | Done (v, m') s' =>
          frame s s' g None m' /\
          forall th, trusted th (tv th v) s' -> NJ1 G th (tv th v) (J th (tv th v) s' m' g) g
      end.

    Lemma solve_iteration_spec g s :
      WF s -> SI s -> g < length G -> topgoal s g -> it_post g s (solve_iteration G cf sg g s).
    Proof.
      intros W S Hg T. unfold it_post, solve_iteration, tick.
      assert (C1 : same_core s (bump_ticks (bump_iters s))) by (repeat split; auto).
      destruct (pn cf (ticks (bump_iters s))); simpl.
      - split; auto. eapply cache_exact_core; [|apply (si_cache _ _ S)]. reflexivity.
      - set (s1 := bump_ticks (bump_iters s)) in *.
        unfold ask_continue. simpl. destruct (sc cf (sci s)) eqn:Esc; simpl.
        + (* continue *)
          set (s2 := bump_sci s1).
          assert (C2 : same_core s s2) by (repeat split; auto).
          assert (I2 : int_ok s s2) by (apply int_ok_eq; [simpl; lia|reflexivity]).
          pose proof (frame_core s s2 g None W S C2 I2) as F0.
          assert (T2 : topgoal s2 g) by (eapply topgoal_ext; eauto; apply (fr_ext _ _ _ _ _ _ _ F0)).
          assert (Hcs : forall c x, In c (clauses (get G g)) -> In x (fst c) -> edge G g x /\ x < length G).
          { intros c x Hc Hx. split; [eapply edge_clause; eauto|]. eapply Hwf; eauto. }
          pose proof (eval_clauses_spec G cf sg Hsg g (clauses (get G g)) [] None None s2
                        (fr_wf _ _ _ _ _ _ _ F0) (fr_si _ _ _ _ _ _ _ F0) T2 Hcs) as HE.
          simpl in HE. specialize (HE (fun th c H => match H with end)).
          destruct (eval_clauses sg (clauses (get G g)) None None s2) as [[v m'] s'| |]; simpl in *; auto.
          destruct HE as [F HE]. split; [eapply frame_trans; eauto|].
          intros th Ht. specialize (HE th Ht). destruct (tv th v); simpl.
          * destruct HE as [c [Hc [Hus Hall]]]. exists c. repeat split; auto.
          * intros c Hc Hus. destruct (HE c Hc) as [Hf|Hex]; auto. congruence.
        + (* interrupted *)
          set (s2 := set_interrupted (bump_sci s1) true).
          assert (C2 : same_core s s2) by (repeat split; auto).
          split; [apply frame_core; auto|].
          { split; [simpl; lia|]. intros _. right. exists (sci s). simpl. repeat split; auto. }
          intros th [Ht|Ht]; simpl in *; [destruct th; discriminate|discriminate].
    Qed.
  End WithSg.

  (** ** lookups *)
  Lemma nth_error_snoc_inv {A} (l : list A) x d y :
    nth_error (l ++ [x]) d = Some y -> (d < length l /\ nth_error l d = Some y) \/ (d = length l /\ y = x).
  Proof.
    intros H. destruct (lt_dec d (length l)) as [Hlt|Hge].
    - left. split; auto. rewrite nth_error_app1 in H; auto.
    - right. rewrite nth_error_app2 in H by lia.
      destruct (d - length l) as [|k] eqn:E; simpl in H.
      + split; [lia|congruence].
      + destruct k; discriminate.
  Qed.

  Lemma glookup_from_some l : forall i g d, glookup_from l i g = Some d ->
    i <= d /\ exists nd, nth_error l (d - i) = Some nd /\ gn_goal nd = g.
  Proof.
    induction l as [|n r IH]; intros i g d H; simpl in H; [discriminate|].
    destruct (Nat.eqb (gn_goal n) g) eqn:E.
    - inversion H; subst. split; auto. rewrite Nat.sub_diag. exists n. split; auto. apply Nat.eqb_eq; auto.
    - destruct (IH (S i) g d H) as [Hle [nd [Hn Hg]]]. split; [lia|]. exists nd. split; auto.
      replace (d - i) with (S (d - S i)) by lia. simpl. auto.
  Qed.

  Lemma glookup_from_none l : forall i g, glookup_from l i g = None ->
    forall d nd, nth_error l d = Some nd -> gn_goal nd <> g.
  Proof.
    induction l as [|n r IH]; intros i g H d nd Hn; [destruct d; discriminate|].
    simpl in H. destruct (Nat.eqb (gn_goal n) g) eqn:E; [discriminate|].
    destruct d; simpl in Hn.
    - inversion Hn; subst. apply Nat.eqb_neq; auto.
    - eapply IH; eauto.
  Qed.

  Lemma glookup_some s g d : glookup (sgraph s) g = Some d -> exists nd, nodeat s d nd /\ gn_goal nd = g.
  Proof.
    intros H. apply glookup_from_some in H. destruct H as [_ [nd [Hn Hg]]].
    rewrite Nat.sub_0_r in Hn. exists nd. auto.
  Qed.

  Lemma glookup_none s g : glookup (sgraph s) g = None -> forall d nd, nodeat s d nd -> gn_goal nd <> g.
  Proof. intros H d nd Hn. eapply glookup_from_none; eauto. Qed.

  Lemma wf_depth_lt s d nd i : WF s -> nodeat s d nd -> gn_depth nd = Some i -> i < length (stack s).
  Proof.
    intros W Hn Hd. destruct (wf_dep _ _ W d nd i Hn Hd) as [_ [e [He _]]].
    apply nth_error_Some. congruence.
  Qed.

  (** the node on top of the stack is unique *)
  Lemma wf_inj s d d' nd nd' i : WF s -> nodeat s d nd -> nodeat s d' nd' ->
    gn_depth nd = Some i -> gn_depth nd' = Some i -> d = d'.
  Proof.
    intros W H1 H2 D1 D2.
    pose proof (wf_mono _ _ W d d' nd nd' i i H1 H2 D1 D2) as A.
    pose proof (wf_mono _ _ W d' d nd' nd i i H2 H1 D2 D1) as B.
    lia.
  Qed.

  (** ** no mixed cycle is ever seen *)
  Lemma existsb_all_same (l : list sentry) b :
    (forall e, In e l -> se_coind e = b) ->
    existsb se_coind l && existsb (fun e => negb (se_coind e)) l = false.
  Proof.
    intros H. destruct b.
    - replace (existsb (fun e => negb (se_coind e)) l) with false; [apply andb_false_r|].
      symmetry. apply not_true_is_false. intros E. apply existsb_exists in E. destruct E as [e [He Hn]].
      rewrite (H e He) in Hn. discriminate.
    - replace (existsb se_coind l) with false; auto.
      symmetry. apply not_true_is_false. intros E. apply existsb_exists in E. destruct E as [e [He Hn]].
      rewrite (H e He) in Hn. discriminate.
  Qed.

  Lemma In_skipn_nth {A} (l : list A) d x : In x (skipn d l) -> exists i, d <= i /\ nth_error l i = Some x.
  Proof.
    revert d. induction l as [|a l IH]; intros d H.
    - destruct d; simpl in H; destruct H.
    - destruct d; simpl in H.
      + change (In x (a :: l)) in H. apply In_nth_error in H. destruct H as [i Hi]. exists i. split; [lia|auto].
      + destruct (IH d H) as [i [Hi Hn]]. exists (S i). split; [lia|auto].
  Qed.

  Lemma no_mixed_from s t g dfn nd d :
    WF s -> topgoal s t -> edge G t g -> nodeat s dfn nd -> gn_goal nd = g -> gn_depth nd = Some d ->
    forall st', length st' = length (stack s) ->
      (forall i e', nth_error st' i = Some e' -> exists e, nth_error (stack s) i = Some e /\ se_coind e' = se_coind e) ->
      mixed_from st' d = false.
  Proof.
    intros W [dt [ndt [Ht [Hdt [Hgt Hpos]]]]] He Hn Hg Hd st' Hlen Hst.
    unfold mixed_from. apply existsb_all_same with (b := coind (get G g)).
    intros e' Hin. apply In_skipn_nth in Hin. destruct Hin as [i [Hi Hn']].
    destruct (Hst i e' Hn') as [e [Hne Hco]]. rewrite Hco.
    assert (Hil : i < length (stack s)) by (apply nth_error_Some; congruence).
    destruct (wf_surj _ _ W i Hil) as [di [ndi [Hni Hdi]]].
    destruct (wf_dep _ _ W di ndi i Hni Hdi) as [_ [e2 [He2 Hc2]]].
    assert (e2 = e) by congruence. subst e2. rewrite Hc2.
    (* ndi is on a cycle with g *)
    symmetry. subst g. apply same_kind.
    - eapply (wf_chain _ _ W dfn nd di ndi d i); eauto.
    - eapply path_trans; [eapply (wf_top _ _ W di ndi dt ndt); eauto|].
      subst t. eapply path_step; [exact He|apply path_refl].
  Qed.

  (** ** the pieces of [solve_goal] / [solve_new_subgoal] and their unfolding equations *)
  Definition popnode (s : state) (dfn : nat) (sub : mn) : state :=
    let s := set_graph s (upd (sgraph s) dfn (fun n => mkGnode (gn_goal n) (gn_sol n) None sub)) in
    set_stack s (removelast (stack s)).

  Definition finish_node (m : mn) (depth dfn : nat) (sub : mn) (s : state) : res (val * mn) :=
    let s := set_graph s (upd (sgraph s) dfn (fun n => mkGnode (gn_goal n) (gn_sol n) None sub)) in
    if negb (S depth =? length (stack s)) then Panic MismatchedPop s
    else
      let s := set_stack s (removelast (stack s)) in
      let m := mn_min m sub in
      match nth_error (sgraph s) dfn with
      | None => Panic BadIndex s
      | Some nd =>
        let result := gn_sol nd in
        if mn_geb sub dfn then
          if caching cf && negb (fix_f3 (vr cf) && interrupted s)
          then bind (move_to_cache s dfn) (fun _ s => Done (result, m) s)
          else Done (result, m) (rollback_to s dfn)
        else Done (result, m) s
      end.

  Definition push_node (s : state) (g : nat) : state :=
    let co := coind (get G g) in
    let s1 := set_stack s (stack s ++ [mkSentry co false]) in
    set_graph s1 (sgraph s1 ++ [mkGnode g (if co then Yes else No) (Some (length (stack s))) (Some (length (sgraph s)))]).

  Definition new_node (f : nat) (g : nat) (m : mn) (s : state) : res (val * mn) :=
    bind (tick cf s) (fun _ s =>
    bind (tick cf s) (fun _ s =>
      if overflow cf <=? length (stack s) then Panic OverflowDepth s
      else bind (solve_new_subgoal G cf f g (length (stack s)) (length (sgraph s)) (push_node s g))
                (fun sub s1 => finish_node m (length (stack s)) (length (sgraph s)) sub s1))).

  Definition found_node (dfn : nat) (m : mn) (s : state) : res (val * mn) :=
    match nth_error (sgraph s) dfn with
    | None => Panic BadIndex s
    | Some nd =>
      match gn_depth nd with
      | Some d =>
          if d <? length (stack s) then
            let s := set_stack s (upd (stack s) d (fun e => mkSentry (se_coind e) true)) in
            if mixed_from (stack s) d
            then bind (tick cf s) (fun _ s => Done (No, m) s)
            else Done (gn_sol nd, mn_min m (gn_links nd)) s
          else Panic BadIndex s
      | None => Done (gn_sol nd, mn_min m (gn_links nd)) s
      end
    end.

  Lemma solve_goal_S f g m s :
    solve_goal G cf (S f) g m s =
    let s := bump_work s in
    match (if caching cf then cache_get (cache s) g else None) with
    | Some v => Done (v, m) s
    | None => match glookup (sgraph s) g with
              | Some dfn => found_node dfn m s
              | None => new_node f g m s
              end
    end.
  Proof. reflexivity. Qed.

  Definition loop_step (f : nat) (g depth dfn : nat) (vm : val * mn) (s : state) : res mn :=
    let (v, m) := vm in
    match nth_error (stack s) depth, nth_error (sgraph s) dfn with
    | Some e, Some nd =>
      let s := set_stack s (upd (stack s) depth (fun e => mkSentry (se_coind e) false)) in
      if negb (se_cycle e) then Done m (set_sol s dfn v)
      else
        let old := gn_sol nd in
        let s := set_sol s dfn v in
        bind (tick cf s) (fun _ s =>
          if val_eqb old v then Done m s
          else if val_eqb v Amb then
            Done m (if fix_f15 (vr cf) then rollback_to s (S dfn) else s)
          else solve_new_subgoal G cf f g depth dfn (rollback_to s (S dfn)))
    | _, _ => Panic BadIndex s
    end.

  (** ** general transfer lemmas *)
  Lemma upd_nth_inv {A} (l : list A) i f j y :
    nth_error (upd l i f) j = Some y ->
    exists x, nth_error l j = Some x /\ ((j <> i /\ y = x) \/ (j = i /\ y = f x)).
  Proof.
    intros H. destruct (Nat.eq_dec j i) as [->|Hne].
    - destruct (nth_error l i) as [x|] eqn:E.
      + rewrite (upd_nth_same _ _ _ _ E) in H. exists x. split; auto. right. split; congruence.
      + assert (Hlen : length (upd l i f) <= i) by (rewrite upd_length; apply nth_error_None; auto).
        apply nth_error_None in Hlen. congruence.
    - rewrite upd_nth_other in H by auto. exists y. auto.
  Qed.

  Lemma WF_restack s s' :
    WF s -> sgraph s' = sgraph s -> length (stack s') = length (stack s) ->
    (forall i e, nth_error (stack s) i = Some e -> exists e', nth_error (stack s') i = Some e' /\ se_coind e' = se_coind e) ->
    WF s'.
  Proof.
    intros W Hg Hl Hst. pose proof (wf_dep _ _ W) as Hdep.
    destruct W. constructor; unfold nodeat in *; rewrite ?Hg, ?Hl; auto.
    intros d nd i Hn Hd. destruct (Hdep d nd i Hn Hd) as [A [e [He Hc]]]. split; auto.
    destruct (Hst i e He) as [e' [He' Hc']]. exists e'. split; auto. congruence.
  Qed.

  Lemma SI_sub_graph s s' :
    WF s -> SI s -> sub s s' -> sgraph s' = sgraph s -> cache_exact G s' -> SI s'.
  Proof.
    intros W S Hs Hg Hc. constructor; auto.
    intros th d nd Hn Ht. unfold nodeat in Hn. rewrite Hg in Hn.
    destruct (si_node _ _ S th d nd Hn) as [A B]; [eapply trusted_sub; eauto|].
    split; auto. intros Hco Hp. eapply Rel_sub; eauto. apply mn_le_refl.
  Qed.

  Definition Ctx (s : state) (t g : nat) : Prop :=
    (stack s = [] /\ sgraph s = []) \/ (topgoal s t /\ edge G t g).

  Lemma found_node_spec dfn nd g m s t :
    WF s -> SI s -> Ctx s t g -> nodeat s dfn nd -> gn_goal nd = g ->
    sg_post G cf t g m s (found_node dfn m s).
  Proof.
    intros W S C Hn Hg. unfold found_node. unfold nodeat in Hn. rewrite Hn.
    destruct C as [[_ C]|[T He]]; [rewrite C in Hn; destruct dfn; discriminate|].
    destruct (gn_depth nd) as [d|] eqn:Hd.
    - (* on the stack: a cycle *)
      pose proof (wf_depth_lt _ _ _ _ W Hn Hd) as Hlt.
      destruct (d <? length (stack s)) eqn:E; [|apply Nat.ltb_ge in E; lia].
      set (s1 := set_stack s (upd (stack s) d (fun e => mkSentry (se_coind e) true))).
      assert (Hst : forall i e, nth_error (stack s) i = Some e ->
                exists e', nth_error (stack s1) i = Some e' /\ se_coind e' = se_coind e /\ (se_cycle e = true -> se_cycle e' = true)).
      { intros i e Hi. simpl. destruct (Nat.eq_dec d i) as [->|Hne].
        - rewrite (upd_nth_same _ _ _ _ Hi). eexists. split; eauto.
        - rewrite upd_nth_other by auto. exists e. auto. }
      assert (Hmix : mixed_from (stack s1) d = false).
      { eapply (no_mixed_from s t g dfn nd d W T He Hn Hg Hd).
        - simpl. apply upd_length.
        - intros i e' Hi. simpl in Hi. apply upd_nth_inv in Hi. destruct Hi as [x [Hx [[_ ->]|[_ ->]]]]; exists x; auto. }
      simpl. simpl in Hmix. rewrite Hmix.
      assert (Hsub : sub s s1) by (constructor; auto).
      assert (W1 : WF s1).
      { eapply WF_restack; eauto; [simpl; apply upd_length|].
        intros i e Hi. destruct (Hst i e Hi) as [e' [A [B _]]]. eauto. }
      assert (S1 : SI s1) by (apply (SI_sub_graph s s1 W S Hsub eq_refl); exact (si_cache _ _ S)).
      destruct (wf_dep _ _ W dfn nd d Hn Hd) as [Hlinks [e [Hed Hec]]].
      split.
      + constructor; auto.
        * constructor; auto. simpl. apply upd_length.
          intros d0 nd0 H0 Hge. unfold nodeat in H0. simpl in H0.
          assert (d0 < length (sgraph s)) by (apply nth_error_Some; congruence). lia.
        * apply mn_min_le_l.
        * intros d0 nd0 H0 Hge. unfold nodeat in H0. simpl in H0.
          assert (d0 < length (sgraph s)) by (apply nth_error_Some; congruence). lia.
        * intros l Hl. rewrite Hlinks in Hl. destruct (mn_min_cases m (Some dfn)) as [E1|E1]; rewrite E1 in Hl.
          -- left; auto.
          -- inversion Hl; subst l. right; right. split; [apply nth_error_Some; congruence|].
             exists nd. split; auto. rewrite Hg. apply path_refl.
        * apply int_ok_eq; [apply le_n|reflexivity].
      + intros th Ht.
        destruct (si_node _ _ S1 th dfn nd Hn Ht) as [A _].
        destruct (Bool.bool_dec (coind (get G (gn_goal nd))) (tv th (gn_sol nd))) as [Eq|Ne].
        * right. split.
          -- exists dfn, nd. split; [exact Hn|]. split; [exact Hg|]. split; [reflexivity|].
             split; [congruence|]. split.
             ++ rewrite Hlinks. apply mn_min_le_r.
             ++ intros i e0 Hi He0. assert (i = d) by congruence. subst i.
                simpl in He0. rewrite (upd_nth_same _ _ _ _ Hed) in He0. inversion He0. reflexivity.
          -- destruct T as [dt [ndt [Ht1 [Ht2 [Ht3 _]]]]]. subst t g.
             eapply (wf_top _ _ W dfn nd dt ndt); eauto.
        * left. rewrite <- Hg. apply A. auto.
    - (* pending *)
      destruct (wf_pend _ _ W dfn nd Hn Hd) as [l [ndl [Hlinks [Hlt [Hnl Hpath]]]]].
      split.
      + constructor; auto.
        * apply ext_refl.
        * apply mn_min_le_l.
        * intros d0 nd0 H0 Hge. unfold nodeat in H0.
          assert (d0 < length (sgraph s)) by (apply nth_error_Some; congruence). lia.
        * intros l0 Hl. rewrite Hlinks in Hl. destruct (mn_min_cases m (Some l)) as [E1|E1]; rewrite E1 in Hl.
          -- left; auto.
          -- inversion Hl; subst l0. right; right. split; [apply nth_error_Some; unfold nodeat in Hnl; congruence|].
             exists ndl. split; auto. rewrite <- Hg. auto.
        * apply int_ok_refl.
      + intros th Ht.
        destruct (si_node _ _ S th dfn nd Hn Ht) as [A _].
        destruct (Bool.bool_dec (coind (get G (gn_goal nd))) (tv th (gn_sol nd))) as [Eq|Ne].
        * right. split.
          -- exists dfn, nd. split; [exact Hn|]. split; [exact Hg|]. split; [reflexivity|].
             split; [congruence|]. split.
             ++ rewrite Hlinks. eapply mn_le_trans; [apply mn_min_le_r|]. simpl. lia.
             ++ intros i e0 Hi. congruence.
          -- destruct T as [dt [ndt [Ht1 [Ht2 [Ht3 _]]]]]. subst t g.
             eapply (wf_top _ _ W dfn nd dt ndt); eauto.
        * left. rewrite <- Hg. apply A. auto.
  Qed.

  (** ** pushing a new node *)
  Lemma nodeat_push s g d nd :
    nodeat (push_node s g) d nd ->
    (d < length (sgraph s) /\ nodeat s d nd) \/
    (d = length (sgraph s) /\
     nd = mkGnode g (if coind (get G g) then Yes else No) (Some (length (stack s))) (Some (length (sgraph s)))).
  Proof. unfold nodeat, push_node. simpl. apply nth_error_snoc_inv. Qed.

  Lemma nodeat_push_old s g d nd : nodeat s d nd -> nodeat (push_node s g) d nd.
  Proof. unfold nodeat, push_node. simpl. apply nth_error_app_l. Qed.

  Lemma nodeat_push_new s g :
    nodeat (push_node s g) (length (sgraph s))
      (mkGnode g (if coind (get G g) then Yes else No) (Some (length (stack s))) (Some (length (sgraph s)))).
  Proof. unfold nodeat, push_node. simpl. apply nth_error_snoc. Qed.

  Lemma stack_push s g : stack (push_node s g) = stack s ++ [mkSentry (coind (get G g)) false].
  Proof. reflexivity. Qed.

  Lemma nodeat_lt s d nd : nodeat s d nd -> d < length (sgraph s).
  Proof. intros H. apply nth_error_Some. unfold nodeat in H. congruence. Qed.

  Lemma WF_push s g t :
    WF s -> g < length G -> glookup (sgraph s) g = None -> Ctx s t g -> WF (push_node s g).
  Proof.
    intros W Hg Hnone C.
    assert (Hreach : forall d nd, nodeat s d nd -> path G (gn_goal nd) g).
    { intros d nd Hn. destruct C as [[_ C]|[[dt [ndt [T1 [T2 [T3 T4]]]]] He]].
      - unfold nodeat in Hn. rewrite C in Hn. destruct d; discriminate.
      - eapply path_trans; [eapply (wf_top _ _ W d nd dt ndt); eauto|].
        subst t. eapply path_step; [exact He|apply path_refl]. }
    constructor.
    - intros d nd H. destruct (nodeat_push _ _ _ _ H) as [[_ H1]|[_ ->]]; [eapply wf_goal; eauto|auto].
    - intros d d' nd nd' H H' E.
      destruct (nodeat_push _ _ _ _ H) as [[L1 H1]|[-> ->]], (nodeat_push _ _ _ _ H') as [[L2 H2]|[-> ->]]; auto.
      + eapply wf_nodup; eauto.
      + exfalso. eapply glookup_none; eauto.
      + exfalso. eapply glookup_none; eauto.
    - intros d nd i H Hd. rewrite stack_push.
      destruct (nodeat_push _ _ _ _ H) as [[L1 H1]|[-> ->]].
      + destruct (wf_dep _ _ W d nd i H1 Hd) as [A [e [He Hc]]]. split; auto.
        exists e. split; auto. apply nth_error_app_l; auto.
      + simpl in Hd. inversion Hd; subst i. split; auto. eexists. split; [apply nth_error_snoc|reflexivity].
    - intros i Hi. rewrite stack_push, app_length in Hi. simpl in Hi.
      destruct (lt_dec i (length (stack s))) as [Hlt|Hge].
      + destruct (wf_surj _ _ W i Hlt) as [d [nd [Hn Hd]]]. exists d, nd. split; auto. apply nodeat_push_old; auto.
      + assert (i = length (stack s)) by lia. subst i. eexists _, _. split; [apply nodeat_push_new|reflexivity].
    - intros d d' nd nd' i i' H H' Hd Hd'.
      destruct (nodeat_push _ _ _ _ H) as [[L1 H1]|[-> ->]], (nodeat_push _ _ _ _ H') as [[L2 H2]|[-> ->]].
      + eapply wf_mono; eauto.
      + simpl in Hd'. inversion Hd'; subst i'. pose proof (wf_depth_lt _ _ _ _ W H1 Hd). lia.
      + simpl in Hd. inversion Hd; subst i. pose proof (wf_depth_lt _ _ _ _ W H2 Hd'). lia.
      + simpl in Hd, Hd'. inversion Hd; inversion Hd'; subst. lia.
    - intros d nd H Hd. destruct (nodeat_push _ _ _ _ H) as [[L1 H1]|[-> ->]]; [|discriminate].
      destruct (wf_pend _ _ W d nd H1 Hd) as [l [ndl [A [B [C' D]]]]].
      exists l, ndl. repeat split; auto. apply nodeat_push_old; auto.
    - intros d nd dt ndt H Ht Hdt. rewrite stack_push, app_length in Hdt. simpl in Hdt.
      replace (length (stack s) + 1 - 1) with (length (stack s)) in Hdt by lia.
      assert (gn_goal ndt = g).
      { destruct (nodeat_push _ _ _ _ Ht) as [[L2 H2]|[-> ->]]; auto.
        pose proof (wf_depth_lt _ _ _ _ W H2 Hdt). lia. }
      rewrite H0. destruct (nodeat_push _ _ _ _ H) as [[L1 H1]|[-> ->]]; [eauto|apply path_refl].
    - intros d nd d' nd' i i' H H' Hd Hd' Hle.
      destruct (nodeat_push _ _ _ _ H) as [[L1 H1]|[-> ->]], (nodeat_push _ _ _ _ H') as [[L2 H2]|[-> ->]].
      + eapply wf_chain; eauto.
      + simpl. eauto.
      + simpl in Hd. inversion Hd; subst i. pose proof (wf_depth_lt _ _ _ _ W H2 Hd'). lia.
      + apply path_refl.
  Qed.

  Lemma sub_push s g : sub s (push_node s g).
  Proof.
    constructor; auto.
    - intros i e H. exists e. rewrite stack_push. split; auto. apply nth_error_app_l; auto.
    - intros d nd H. apply nodeat_push_old; auto.
  Qed.

  Lemma SI_push s g : WF s -> SI s -> SI (push_node s g).
  Proof.
    intros W S. constructor.
    - exact (si_cache _ _ S).
    - intros th d nd H Ht. destruct (nodeat_push _ _ _ _ H) as [[L1 H1]|[-> ->]].
      + destruct (si_node _ _ S th d nd H1) as [A B]; [eapply trusted_sub; [apply (sub_push s g)|auto]|].
        split; auto. intros Hc Hp. eapply Rel_sub; eauto; [apply sub_push|apply mn_le_refl].
      + simpl. split; [|discriminate]. intros Hne. exfalso. apply Hne.
        destruct (coind (get G g)); reflexivity.
  Qed.

  (** ** closing a strongly connected component *)
  Definition NewSI (s : state) (dfn : nat) : Prop :=
    forall th d nd, nodeat s d nd -> dfn <= d -> trusted th (tv th (gn_sol nd)) s ->
      (coind (get G (gn_goal nd)) <> tv th (gn_sol nd) -> Abs G th (tv th (gn_sol nd)) (gn_goal nd)) /\
      (coind (get G (gn_goal nd)) = tv th (gn_sol nd) -> gn_depth nd = None ->
         Rel th (tv th (gn_sol nd)) s (gn_links nd) (gn_goal nd)).

  Lemma closure s dfn :
    (forall d nd, nodeat s d nd -> dfn <= d -> gn_depth nd = None /\ mn_le (Some dfn) (gn_links nd)) ->
    NewSI s dfn ->
    forall th d nd, nodeat s d nd -> dfn <= d -> trusted th (tv th (gn_sol nd)) s ->
      Abs G th (tv th (gn_sol nd)) (gn_goal nd).
  Proof.
    intros Hseg HN th d nd Hn Hd Ht.
    destruct (HN th d nd Hn Hd Ht) as [A B].
    destruct (Bool.bool_dec (coind (get G (gn_goal nd))) (tv th (gn_sol nd))) as [Eq|Ne]; [|auto].
    set (b := tv th (gn_sol nd)) in *.
    set (X := fun x => exists d' nd' (Xp : nat -> Prop),
                nodeat s d' nd' /\ dfn <= d' /\ tv th (gn_sol nd') = b /\ Xp (gn_goal nd') /\
                (forall y, Xp y -> coind (get G y) = b /\
                    NJ1 G th b (fun m => Abs G th b m \/ Xp m \/ GL th b s (gn_links nd') m) y) /\ Xp x).
    assert (HX : forall x, X x -> coind (get G x) = b /\ NJ1 G th b (fun m => Abs G th b m \/ X m) x).
    { intros x [d' [nd' [Xp [Hn' [Hd' [Htv [Hg' [HXp Hx]]]]]]]].
      destruct (HXp x Hx) as [Hc HNJ]. split; auto.
      eapply NJ1_mono; [|exact HNJ]. intros z [Hz|[Hz|Hz]]; auto.
      - right. exists d', nd', Xp. do 5 (split; [assumption|]). assumption.
      - right. destruct Hz as [dz [ndz [Hnz [Hgz [Htz [Hcz [Hlz _]]]]]]].
        destruct (Hseg d' nd' Hn' Hd') as [_ Hl'].
        assert (Hdz : dfn <= dz).
        { destruct (gn_links nd') as [l'|]; simpl in *; [lia|tauto]. }
        destruct (Hseg dz ndz Hnz Hdz) as [Hpz _].
        assert (Htz' : trusted th (tv th (gn_sol ndz)) s) by (rewrite Htz; exact Ht).
        destruct (HN th dz ndz Hnz Hdz Htz') as [_ Bz].
        rewrite Htz in Bz. rewrite Hgz in Bz. destruct (Bz Hcz Hpz) as [Xz [Hgz' HXz]].
        exists dz, ndz, Xz. rewrite Hgz. do 5 (split; [assumption|]). assumption. }
    destruct (Hseg d nd Hn Hd) as [Hp _].
    destruct (B Eq Hp) as [Xp [Hg HXp]].
    apply (closed_abs G th b X HX). exists d, nd, Xp. split; [assumption|]. split; [assumption|].
    split; [reflexivity|]. split; [assumption|]. split; assumption.
  Qed.

  Lemma nth_error_ext {A} (l l' : list A) : (forall i, nth_error l i = nth_error l' i) -> l = l'.
  Proof.
    revert l'. induction l as [|a l IH]; intros [|b l'] H; auto.
    - specialize (H 0). discriminate.
    - specialize (H 0). discriminate.
    - pose proof (H 0) as H0. simpl in H0. inversion H0; subst. f_equal. apply IH.
      intros i. apply (H (S i)).
  Qed.

  Lemma cache_fold_get (moved : list gnode) : forall c0 x v,
    cache_get (fold_left (fun c n => (gn_goal n, gn_sol n) :: c) moved c0) x = Some v ->
    (exists n, In n moved /\ gn_goal n = x /\ gn_sol n = v) \/ cache_get c0 x = Some v.
  Proof.
    induction moved as [|n r IH]; intros c0 x v H; simpl in H; auto.
    destruct (IH _ _ _ H) as [[n' [Hin [Hg Hs]]]|H'].
    - left. exists n'. split; [right; auto|auto].
    - simpl in H'. destruct (Nat.eqb (gn_goal n) x) eqn:E; auto.
      left. exists n. split; [left; auto|]. split; [apply Nat.eqb_eq; auto|congruence].
  Qed.

  Lemma In_skipn_nodeat s dfn n : In n (skipn dfn (sgraph s)) -> exists d, dfn <= d /\ nodeat s d n.
  Proof. intros H. apply In_skipn_nth in H. exact H. Qed.

  (** ** popping a node *)
  Record loop_out (s0 s1 : state) (g depth dfn : nat) (sm : mn) : Prop := {
    lo_sub : sub s0 s1;
    lo_wf : WF s1;
    lo_cache : cache_exact G s1;
    lo_len : S depth = length (stack s1);
    lo_node : exists nd1, nodeat s1 dfn nd1 /\ gn_goal nd1 = g /\ gn_depth nd1 = Some depth;
    lo_new : forall d nd, nodeat s1 d nd -> dfn < d -> gn_depth nd = None /\ mn_le sm (gn_links nd);
    lo_path : forall l, sm = Some l ->
                S dfn <= l \/ (l <= dfn /\ exists nd, nodeat s1 l nd /\ path G g (gn_goal nd));
    lo_si : NewSI (popnode s1 dfn sm) dfn;
    lo_int : int_ok s0 s1;
  }.

  Lemma nodeat_pop s dfn sm nd1 d nd :
    nodeat s dfn nd1 ->
    (nodeat (popnode s dfn sm) d nd <->
     (d <> dfn /\ nodeat s d nd) \/ (d = dfn /\ nd = mkGnode (gn_goal nd1) (gn_sol nd1) None sm)).
  Proof.
    intros H1. unfold nodeat, popnode. simpl. split.
    - intros H. destruct (Nat.eq_dec d dfn) as [->|Hne].
      + right. split; auto. rewrite (upd_nth_same _ _ _ _ H1) in H. congruence.
      + left. split; auto. rewrite upd_nth_other in H; auto.
    - intros [[Hne H]|[-> ->]].
      + rewrite upd_nth_other; auto.
      + rewrite (upd_nth_same _ _ _ _ H1). reflexivity.
  Qed.

  Lemma stack_pop s dfn sm : stack (popnode s dfn sm) = removelast (stack s).
  Proof. reflexivity. Qed.

  Lemma prefix_back s0 s1 d nd : sub s0 s1 -> nodeat s1 d nd -> d < length (sgraph s0) -> nodeat s0 d nd.
  Proof.
    intros E H Hd. destruct (nth_error (sgraph s0) d) as [nd0|] eqn:E0.
    - pose proof (sub_graph _ _ E d nd0 E0) as H1. unfold nodeat in *. congruence.
    - apply nth_error_None in E0. lia.
  Qed.

  Lemma WF_pop s0 s1 g t depth dfn l :
    WF s0 -> Ctx s0 t g -> length (sgraph s0) = dfn -> length (stack s0) = depth ->
    loop_out s0 s1 g depth dfn (Some l) -> l < dfn -> WF (popnode s1 dfn (Some l)).
  Proof.
    intros W0 C Hdfn Hdepth L Hl.
    destruct (lo_node _ _ _ _ _ _ L) as [nd1 [Hn1 [Hg1 Hd1]]].
    pose proof (lo_wf _ _ _ _ _ _ L) as W1. pose proof (lo_len _ _ _ _ _ _ L) as Hlen.
    pose proof (lo_sub _ _ _ _ _ _ L) as Hsub.
    (* the node the popped one links to *)
    destruct (lo_path _ _ _ _ _ _ L l eq_refl) as [Hbad|[_ [ndl [Hnl Hpl]]]]; [lia|].
    assert (Hnl0 : nodeat s0 l ndl) by (eapply prefix_back; eauto; lia).
    (* other stack nodes lie below *)
    assert (Hbelow : forall d nd i, nodeat s1 d nd -> gn_depth nd = Some i -> d <> dfn -> i < depth /\ d < dfn).
    { intros d nd i Hn Hd Hne.
      pose proof (wf_depth_lt _ _ _ _ W1 Hn Hd) as Hi.
      assert (i <> depth) by (intros ->; apply Hne; eapply wf_inj; eauto).
      assert (Hi' : i < depth) by lia. split; auto.
      apply (wf_mono _ _ W1 d dfn nd nd1 i depth Hn Hn1 Hd Hd1). auto. }
    set (nd2 := mkGnode (gn_goal nd1) (gn_sol nd1) None (Some l)).
    assert (Hcase : forall d nd, nodeat (popnode s1 dfn (Some l)) d nd ->
              (d <> dfn /\ nodeat s1 d nd) \/ (d = dfn /\ nd = nd2)) by (intros d nd H; apply (nodeat_pop _ _ _ _ _ _ Hn1); auto).
    assert (Hold : forall d nd, d <> dfn -> nodeat s1 d nd -> nodeat (popnode s1 dfn (Some l)) d nd)
      by (intros d nd Hne H; apply (nodeat_pop _ _ _ _ _ _ Hn1); auto).
    assert (Hnew : nodeat (popnode s1 dfn (Some l)) dfn nd2) by (apply (nodeat_pop _ _ _ _ _ _ Hn1); auto).
    (* every node of the popped state reaches the new top *)
    assert (Hreach : forall d nd, nodeat (popnode s1 dfn (Some l)) d nd -> d < dfn -> nodeat s0 d nd).
    { intros d nd H Hd. destruct (Hcase d nd H) as [[_ H1]|[-> _]]; [|lia]. eapply prefix_back; eauto. lia. }
    constructor.
    - intros d nd H. destruct (Hcase d nd H) as [[_ H1]|[-> ->]]; simpl.
      + eapply wf_goal; eauto.
      + eapply (wf_goal _ _ W1); eauto.
    - intros d d' nd nd' H H' E.
      destruct (Hcase d nd H) as [[N1 H1]|[-> ->]], (Hcase d' nd' H') as [[N2 H2]|[-> ->]]; auto.
      + eapply wf_nodup; eauto.
      + simpl in E. eapply (wf_nodup _ _ W1 d dfn nd nd1); eauto.
      + simpl in E. eapply (wf_nodup _ _ W1 dfn d' nd1 nd'); eauto.
    - intros d nd i H Hd. destruct (Hcase d nd H) as [[N1 H1]|[-> ->]]; [|discriminate].
      destruct (wf_dep _ _ W1 d nd i H1 Hd) as [A [e [He Hc]]]. split; auto. exists e. split; auto.
      rewrite stack_pop. rewrite nth_error_removelast; auto.
      destruct (Hbelow d nd i H1 Hd N1). lia.
    - intros i Hi. rewrite stack_pop, removelast_length in Hi.
      destruct (wf_surj _ _ W1 i) as [d [nd [Hn Hd]]]; [lia|].
      exists d, nd. split; auto. apply Hold; auto. intros ->.
      assert (i = depth) by congruence. lia.
    - intros d d' nd nd' i i' H H' Hd Hd'.
      destruct (Hcase d nd H) as [[N1 H1]|[-> ->]]; [|discriminate].
      destruct (Hcase d' nd' H') as [[N2 H2]|[-> ->]]; [|discriminate].
      eapply wf_mono; eauto.
    - intros d nd H Hd. destruct (Hcase d nd H) as [[N1 H1]|[-> ->]].
      + destruct (wf_pend _ _ W1 d nd H1 Hd) as [l' [ndl' [A [B [C' D]]]]].
        destruct (Nat.eq_dec l' dfn) as [->|Hne].
        * exists dfn, nd2. split; [exact A|]. split; [exact B|]. split; [exact Hnew|].
          unfold nodeat in C', Hn1. assert (ndl' = nd1) by congruence. subst ndl'. exact D.
        * exists l', ndl'. split; [exact A|]. split; [exact B|]. split; [apply Hold; auto|exact D].
      + exists l, ndl. split; [reflexivity|]. split; [exact Hl|]. split; [apply Hold; [lia|exact Hnl]|].
        simpl. rewrite Hg1. exact Hpl.
    - intros d nd dt ndt H Ht Hdt. rewrite stack_pop, removelast_length in Hdt.
      destruct (Hcase dt ndt Ht) as [[N2 H2]|[-> ->]]; [|discriminate].
      destruct (Hbelow dt ndt _ H2 Hdt N2) as [Hi Hdtlt].
      assert (Ht0 : nodeat s0 dt ndt) by (eapply prefix_back; eauto; lia).
      assert (Htop0 : gn_depth ndt = Some (length (stack s0) - 1)) by (rewrite Hdt; f_equal; lia).
      assert (Hlow : forall d' nd', nodeat s0 d' nd' -> path G (gn_goal nd') (gn_goal ndt))
        by (intros d' nd' H'; eapply (wf_top _ _ W0 d' nd' dt ndt); eauto).
      destruct (lt_dec d dfn) as [Hlt|Hge].
      + apply (Hlow d nd). apply Hreach; auto.
      + (* a node of the popped component: through the popped node and its link *)
        assert (Hg : path G (gn_goal nd) g).
        { destruct (Hcase d nd H) as [[N1 H1]|[-> ->]].
          - eapply (wf_top _ _ W1 d nd dfn nd1) in H1; eauto; [congruence|]. rewrite Hd1. f_equal. lia.
          - simpl. rewrite Hg1. apply path_refl. }
        eapply path_trans; [exact Hg|]. eapply path_trans; [exact Hpl|]. apply (Hlow l ndl). auto.
    - intros d nd d' nd' i i' H H' Hd Hd' Hle.
      destruct (Hcase d nd H) as [[N1 H1]|[-> ->]]; [|discriminate].
      destruct (Hcase d' nd' H') as [[N2 H2]|[-> ->]]; [|discriminate].
      eapply wf_chain; eauto.
  Qed.

  Lemma finish_node_eq m depth dfn sm s1 :
    finish_node m depth dfn sm s1 =
    if negb (S depth =? length (stack s1)) then
      Panic MismatchedPop (set_graph s1 (upd (sgraph s1) dfn (fun n => mkGnode (gn_goal n) (gn_sol n) None sm)))
    else
      let s2 := popnode s1 dfn sm in
      match nth_error (sgraph s2) dfn with
      | None => Panic BadIndex s2
      | Some nd =>
        if mn_geb sm dfn then
          if caching cf && negb (fix_f3 (vr cf) && interrupted s2)
          then bind (move_to_cache s2 dfn) (fun _ s => Done (gn_sol nd, mn_min m sm) s)
          else Done (gn_sol nd, mn_min m sm) (rollback_to s2 dfn)
        else Done (gn_sol nd, mn_min m sm) s2
      end.
  Proof. reflexivity. Qed.

  Lemma finish_node_spec s0 s1 g t m depth dfn sm :
    WF s0 -> SI s0 -> g < length G -> Ctx s0 t g ->
    length (sgraph s0) = dfn -> length (stack s0) = depth ->
    loop_out s0 s1 g depth dfn sm ->
    sg_post G cf t g m s0 (finish_node m depth dfn sm s1).
  Proof.
    intros W0 S0 Hg C Hdfn Hdepth L.
    destruct (lo_node _ _ _ _ _ _ L) as [nd1 [Hn1 [Hg1 Hd1]]].
    pose proof (lo_wf _ _ _ _ _ _ L) as W1. pose proof (lo_len _ _ _ _ _ _ L) as Hlen.
    pose proof (lo_sub _ _ _ _ _ _ L) as Hsub.
    rewrite finish_node_eq. rewrite <- Hlen, Nat.eqb_refl. simpl negb. cbv iota.
    set (s2 := popnode s1 dfn sm).
    set (nd2 := mkGnode (gn_goal nd1) (gn_sol nd1) None sm).
    assert (Hcase : forall d nd, nodeat s2 d nd -> (d <> dfn /\ nodeat s1 d nd) \/ (d = dfn /\ nd = nd2))
      by (intros d nd H; apply (nodeat_pop _ _ _ _ _ _ Hn1); auto).
    assert (Hold : forall d nd, d <> dfn -> nodeat s1 d nd -> nodeat s2 d nd)
      by (intros d nd Hne H; apply (nodeat_pop _ _ _ _ _ _ Hn1); auto).
    assert (Hnew : nodeat s2 dfn nd2) by (apply (nodeat_pop _ _ _ _ _ _ Hn1); auto).
    cbv zeta. unfold nodeat in Hnew. fold s2. rewrite Hnew.
    (* stack of the popped state versus the state before the push *)
    assert (Hst2 : forall i e, nth_error (stack s0) i = Some e ->
              exists e', nth_error (stack s2) i = Some e' /\ se_coind e' = se_coind e /\ (se_cycle e = true -> se_cycle e' = true)).
    { intros i e Hi. destruct (sub_stack _ _ Hsub i e Hi) as [e' [A B]]. exists e'. split; auto.
      unfold s2. rewrite stack_pop. rewrite nth_error_removelast; auto.
      assert (i < length (stack s0)) by (apply nth_error_Some; congruence). lia. }
    assert (Hlen2 : length (stack s2) = length (stack s0)).
    { unfold s2. rewrite stack_pop, removelast_length. lia. }
    assert (Hpre : forall d nd, nodeat s0 d nd -> nodeat s2 d nd).
    { intros d nd H. apply Hold; [pose proof (nodeat_lt _ _ _ H); lia|]. apply (sub_graph _ _ Hsub); auto. }
    assert (Hint2 : interrupted s0 = true -> interrupted s2 = true) by (intros H; apply (sub_int _ _ Hsub H)).
    destruct (mn_geb sm dfn) eqn:Egeb.
    - (* the component is complete *)
      apply mn_geb_spec in Egeb.
      assert (Hseg : forall d nd, nodeat s2 d nd -> dfn <= d -> gn_depth nd = None /\ mn_le (Some dfn) (gn_links nd)).
      { intros d nd H Hd. destruct (Hcase d nd H) as [[N1 H1]|[-> ->]]; [|split; auto].
        destruct (lo_new _ _ _ _ _ _ L d nd H1) as [A B]; [lia|]. split; auto. eapply mn_le_trans; eauto. }
      pose proof (closure s2 dfn Hseg (lo_si _ _ _ _ _ _ L)) as Hcl.
      assert (Hgraph : firstn dfn (sgraph s2) = sgraph s0).
      { apply nth_error_ext. intros i. destruct (lt_dec i dfn) as [Hlt|Hge].
        - rewrite nth_error_firstn by auto.
          destruct (nth_error (sgraph s0) i) as [nd|] eqn:E.
          + apply Hpre in E. exact E.
          + apply nth_error_None in E. lia.
        - rewrite nth_error_firstn_ge by lia. symmetry. apply nth_error_None. lia. }
      (* whatever happens to the cache, the resulting state extends [s0] *)
      assert (Hres : forall s3, stack s3 = stack s2 -> sgraph s3 = firstn dfn (sgraph s2) ->
                interrupted s3 = interrupted s2 -> sci s3 = sci s2 -> cache_exact G s3 ->
                sg_post G cf t g m s0 (Done (gn_sol nd2, mn_min m sm) s3)).
      { intros s3 E1 E2 E3 E4 Hc3.
        assert (Hsub3 : sub s0 s3).
        { constructor.
          - intros i e Hi. rewrite E1. apply Hst2; auto.
          - intros d nd H. unfold nodeat. rewrite E2, Hgraph. exact H.
          - intros H. rewrite E3. auto. }
        assert (Hg3 : sgraph s3 = sgraph s0) by congruence.
        assert (W3 : WF s3).
        { apply (WF_restack s0 s3 W0 Hg3); [rewrite E1; exact Hlen2|].
          intros i e Hi. rewrite E1. destruct (Hst2 i e Hi) as [e' [A [B _]]]. eauto. }
        split.
        - constructor; auto.
          + exact (SI_sub_graph s0 s3 W0 S0 Hsub3 Hg3 Hc3).
          + constructor; try (apply Hsub3).
            * congruence.
            * intros d nd H Hd. unfold nodeat in H. rewrite Hg3 in H.
              pose proof (nodeat_lt _ _ _ H). lia.
          + apply mn_min_le_l.
          + intros d nd H Hd. unfold nodeat in H. rewrite Hg3 in H. pose proof (nodeat_lt _ _ _ H). lia.
          + intros l Hl. destruct (mn_min_cases m sm) as [E|E]; rewrite E in Hl; [left; auto|].
            right; left. rewrite Hl in Egeb. simpl in Egeb. lia.
          + destruct (lo_int _ _ _ _ _ _ L) as [I1 I2]. split.
            * rewrite E4. exact I1.
            * rewrite E3, E4. exact I2.
        - intros th Ht. left. simpl.
          assert (Ht2 : trusted th (tv th (gn_sol nd2)) s2).
          { destruct Ht as [Ht|Ht]; [left; auto|right; congruence]. }
          pose proof (Hcl th dfn nd2 Hnew (le_n _) Ht2) as A. simpl in A. rewrite Hg1 in A. exact A. }
      rewrite Hvr. change (fix_f3 repaired) with true. rewrite andb_true_l.
      change (interrupted s2) with (interrupted s1).
      destruct (caching cf && negb (interrupted s1)) eqn:Ecache.
      + (* promotion to the cache *)
        apply andb_prop in Ecache. destruct Ecache as [_ Eint]. apply negb_true_iff in Eint.
        change (interrupted s1) with (interrupted s2) in Eint.
        unfold move_to_cache.
        assert (Hmv : forallb (move_ok dfn) (skipn dfn (sgraph s2)) = true).
        { apply forallb_forall. intros n Hin. apply (In_skipn_nodeat s2 dfn n) in Hin. destruct Hin as [d [Hd Hn]].
          destruct (Hseg d n Hn Hd) as [A B]. unfold move_ok. rewrite A. apply mn_geb_spec. exact B. }
        rewrite Hmv. simpl bind. apply Hres; auto.
        intros x v Hx. simpl in Hx. apply cache_fold_get in Hx. destruct Hx as [[n [Hin [Hgn Hsn]]]|Hx].
        * apply (In_skipn_nodeat s2 dfn n) in Hin. destruct Hin as [d [Hd Hn]]. subst x v.
          apply sem_of_abs. intros th. apply (Hcl th d n Hn Hd). right. exact Eint.
        * apply (lo_cache _ _ _ _ _ _ L). exact Hx.
      + apply Hres; auto. exact (lo_cache _ _ _ _ _ _ L).
    - (* the node stays in the search graph *)
      assert (Hlt : exists l, sm = Some l /\ l < dfn).
      { destruct sm as [l|]; simpl in Egeb; [|discriminate]. exists l. split; auto. apply Nat.leb_gt. exact Egeb. }
      destruct Hlt as [l [-> Hl]].
      destruct (lo_path _ _ _ _ _ _ L l eq_refl) as [Hbad|[_ [ndl [Hnl Hpl]]]]; [lia|].
      assert (Hnl0 : nodeat s0 l ndl) by (eapply prefix_back; eauto; lia).
      assert (W2 : WF s2) by (exact (WF_pop s0 s1 g t depth dfn l W0 C Hdfn Hdepth L Hl)).
      assert (Hsub2 : sub s0 s2) by (constructor; auto).
      assert (S2 : SI s2).
      { constructor.
        - exact (lo_cache _ _ _ _ _ _ L).
        - intros th d nd H Ht. destruct (lt_dec d dfn) as [Hlt|Hge].
          + assert (H0 : nodeat s0 d nd).
            { destruct (Hcase d nd H) as [[_ H1]|[-> _]]; [|lia]. eapply prefix_back; eauto. lia. }
            destruct (si_node _ _ S0 th d nd H0) as [A B]; [eapply trusted_sub; eauto|].
            split; auto. intros Hc Hp.
            eapply (Rel_sub G th _ s0 s2); [exact W0|exact Hsub2|apply mn_le_refl|]. apply B; auto.
          + apply (lo_si _ _ _ _ _ _ L th d nd H); [lia|auto]. }
      split.
      + constructor; auto.
        * constructor; auto.
          intros d nd H Hd. destruct (Hcase d nd H) as [[N1 H1]|[-> ->]]; [|reflexivity].
          apply (lo_new _ _ _ _ _ _ L d nd H1). lia.
        * apply mn_min_le_l.
        * intros d nd H Hd. destruct (Hcase d nd H) as [[N1 H1]|[-> ->]].
          -- eapply mn_le_trans; [apply mn_min_le_r|]. apply (lo_new _ _ _ _ _ _ L d nd H1). lia.
          -- apply mn_min_le_r.
        * intros l0 Hl0. destruct (mn_min_cases m (Some l)) as [E|E]; rewrite E in Hl0; [left; auto|].
          inversion Hl0; subst l0. right; right. split; [lia|]. exists ndl. split; auto.
        * exact (lo_int _ _ _ _ _ _ L).
      + intros th Ht.
        destruct (si_node _ _ S2 th dfn nd2 Hnew Ht) as [A _]. simpl in A.
        destruct (Bool.bool_dec (coind (get G (gn_goal nd1))) (tv th (gn_sol nd1))) as [Eq|Ne].
        * right. split.
          -- exists dfn, nd2. split; [exact Hnew|]. split; [exact Hg1|]. split; [reflexivity|].
             split; [simpl; rewrite <- Hg1; exact Eq|]. split.
             ++ eapply mn_le_trans; [apply mn_min_le_r|]. simpl. lia.
             ++ intros i e Hi. discriminate.
          -- destruct C as [[_ C]|[[dt [ndt [T1 [T2 [T3 T4]]]]] He]].
             ++ rewrite C in Hdfn. simpl in Hdfn. lia.
             ++ eapply path_trans; [exact Hpl|]. subst t. eapply (wf_top _ _ W0 l ndl dt ndt); eauto.
        * left. rewrite <- Hg1. apply A. auto.
  Qed.

  (** ** the state at the end of a loop iteration, relative to the state [sa] right after
      [solve_iteration]: the cycle flag of the top entry is reset, the node [dfn] has the new
      value, later nodes are kept ([keep = true]) or rolled back *)
  Record exit_state (sa s1 : state) (depth dfn : nat) (v : val) (keep : bool) : Prop := {
    es_len : length (stack s1) = length (stack sa);
    es_stack : forall i, i <> depth -> nth_error (stack s1) i = nth_error (stack sa) i;
    es_top : exists e, nth_error (stack sa) depth = Some e /\
                       nth_error (stack s1) depth = Some (mkSentry (se_coind e) false);
    es_graph : forall d, d <> dfn ->
                 nth_error (sgraph s1) d = if keep || (d <? dfn) then nth_error (sgraph sa) d else None;
    es_node : exists nd, nodeat sa dfn nd /\
                         nodeat s1 dfn (mkGnode (gn_goal nd) v (gn_depth nd) (gn_links nd));
    es_cache : cache s1 = cache sa;
    es_int : interrupted s1 = interrupted sa;
    es_sci : sci s1 = sci sa;
  }.

  Definition reset_flag (s : state) (depth : nat) : state :=
    set_stack s (upd (stack s) depth (fun e => mkSentry (se_coind e) false)).

  Lemma exit_state_keep sa depth dfn v e nd :
    nth_error (stack sa) depth = Some e -> nodeat sa dfn nd ->
    exit_state sa (set_sol (reset_flag sa depth) dfn v) depth dfn v true.
  Proof.
    intros He Hn. constructor; simpl; auto.
    - apply upd_length.
    - intros i Hi. apply upd_nth_other; auto.
    - exists e. split; auto. rewrite (upd_nth_same _ _ _ _ He). reflexivity.
    - intros d Hd. apply upd_nth_other; auto.
    - exists nd. split; auto. unfold nodeat. simpl. rewrite (upd_nth_same _ _ _ _ Hn). reflexivity.
  Qed.

  Lemma exit_state_ticks sa s1 depth dfn v keep :
    exit_state sa s1 depth dfn v keep -> exit_state sa (bump_ticks s1) depth dfn v keep.
  Proof. intros E. destruct E. constructor; auto. Qed.

  Lemma exit_state_rollback sa s1 depth dfn v :
    exit_state sa s1 depth dfn v true -> exit_state sa (rollback_to s1 (S dfn)) depth dfn v false.
  Proof.
    intros E. destruct E as [E1 E2 E3 E4 [nd [E5 E6]] E7 E8 E9]. constructor; auto.
    - intros d Hd. change (sgraph (rollback_to s1 (S dfn))) with (firstn (S dfn) (sgraph s1)).
      rewrite orb_false_l. destruct (d <? dfn) eqn:El.
      + apply Nat.ltb_lt in El. rewrite nth_error_firstn by lia. rewrite (E4 d Hd). rewrite orb_true_l. reflexivity.
      + apply Nat.ltb_ge in El. apply nth_error_firstn_ge. lia.
    - exists nd. split; auto. unfold nodeat.
      change (sgraph (rollback_to s1 (S dfn))) with (firstn (S dfn) (sgraph s1)).
      rewrite nth_error_firstn by lia. exact E6.
  Qed.

  (** ** one iteration of the loop of [solve_new_subgoal] *)
  Record loop_in (s0 s : state) (g depth dfn : nat) : Prop := {
    li_wf0 : WF s0;
    li_si0 : SI s0;
    li_dfn : length (sgraph s0) = dfn;
    li_depth : length (stack s0) = depth;
    li_sub : sub s0 s;
    li_wf : WF s;
    li_si : SI s;
    li_g : g < length G;
    li_node : exists nd0, nodeat s dfn nd0 /\ gn_goal nd0 = g /\ gn_depth nd0 = Some depth;
    li_slen : S depth = length (stack s);
    li_glen : S dfn = length (sgraph s);
    li_flag : exists e, nth_error (stack s) depth = Some e /\ se_cycle e = false;
    li_int : int_ok s0 s;
  }.

  Lemma loop_in_top s0 s g depth dfn : loop_in s0 s g depth dfn -> topgoal s g.
  Proof.
    intros L. destruct (li_node _ _ _ _ _ L) as [nd0 [A [B C]]].
    exists dfn, nd0. pose proof (li_slen _ _ _ _ _ L). repeat split; auto; [|lia].
    rewrite C. f_equal. lia.
  Qed.

  Section Iter.
    Variables (s0 s : state) (g depth dfn : nat) (sa : state) (m : mn) (v : val).
    Hypothesis LI : loop_in s0 s g depth dfn.
    Hypothesis F : frame s sa g None m.
    Hypothesis NC : forall th, trusted th (tv th v) sa -> NJ1 G th (tv th v) (J th (tv th v) sa m g) g.

    Let Wa : WF sa := fr_wf _ _ _ _ _ _ _ F.
    Let Sa : SI sa := fr_si _ _ _ _ _ _ _ F.
    Let Ea : ext s sa := fr_ext _ _ _ _ _ _ _ F.

    Lemma iter_node : exists nda, nodeat sa dfn nda /\ gn_goal nda = g /\ gn_depth nda = Some depth /\
                                  gn_links nda = Some dfn.
    Proof.
      destruct (li_node _ _ _ _ _ LI) as [nd0 [A [B C]]]. exists nd0.
      pose proof (ext_graph _ _ Ea dfn nd0 A) as A'. repeat split; auto.
      apply (wf_dep _ _ Wa dfn nd0 depth A' C).
    Qed.

    Lemma iter_slen : S depth = length (stack sa).
    Proof. rewrite (ext_len _ _ Ea). apply (li_slen _ _ _ _ _ LI). Qed.

    (** the new value of the node is absolute when it differs from the kind of the node *)
    Lemma abs_new th : trusted th (tv th v) sa -> coind (get G g) <> tv th v -> Abs G th (tv th v) g.
    Proof.
      intros Ht Hne. apply NJ1_abs. eapply NJ1_mono_in; [|apply (NC th Ht)].
      intros c x Hc Hx [HA|[HG HP]]; auto. exfalso. apply Hne.
      destruct HG as [d [nd [_ [_ [_ [Hco _]]]]]]. rewrite <- Hco.
      apply same_kind; auto. eapply path_step; [eapply edge_clause; eauto|apply path_refl].
    Qed.

    Section Exit.
      Variables (s1 : state) (keep : bool).
      Hypothesis E : exit_state sa s1 depth dfn v keep.

      Let nd1 := mkGnode g v (Some depth) (Some dfn).

      Lemma exit_node : nodeat s1 dfn nd1.
      Proof.
        destruct iter_node as [nda [A [B [C D]]]]. destruct (es_node _ _ _ _ _ _ E) as [nd [H1 H2]].
        unfold nodeat in *. assert (nd = nda) by congruence. subst nd. rewrite B, C, D in H2. exact H2.
      Qed.

      Lemma exit_case d nd : nodeat s1 d nd ->
        (d <> dfn /\ nodeat sa d nd /\ (keep = true \/ d < dfn)) \/ (d = dfn /\ nd = nd1).
      Proof.
        intros H. destruct (Nat.eq_dec d dfn) as [->|Hne].
        - right. split; auto. pose proof exit_node. unfold nodeat in *. congruence.
        - left. split; auto. unfold nodeat in H. rewrite (es_graph _ _ _ _ _ _ E d Hne) in H.
          destruct keep; simpl in H.
          + split; auto.
          + destruct (d <? dfn) eqn:El; [|discriminate]. apply Nat.ltb_lt in El. split; auto.
      Qed.

      Lemma exit_old d nd : d <> dfn -> nodeat sa d nd -> (keep = true \/ d < dfn) -> nodeat s1 d nd.
      Proof.
        intros Hne H K. unfold nodeat. rewrite (es_graph _ _ _ _ _ _ E d Hne).
        destruct K as [->|K]; [exact H|]. apply Nat.ltb_lt in K. rewrite K, orb_true_r. exact H.
      Qed.

      (** stack nodes other than the top one lie below [dfn] *)
      Lemma iter_below d nd i : nodeat sa d nd -> gn_depth nd = Some i -> d <> dfn -> i < depth /\ d < dfn.
      Proof.
        intros Hn Hd Hne. destruct iter_node as [nda [A [B [C D]]]].
        pose proof (wf_depth_lt _ _ _ _ Wa Hn Hd) as Hi. pose proof iter_slen.
        assert (i <> depth) by (intros ->; apply Hne; eapply wf_inj; eauto).
        assert (Hi' : i < depth) by lia. split; auto.
        apply (wf_mono _ _ Wa d dfn nd nda i depth Hn A Hd C). auto.
      Qed.

      Lemma WF_exit : WF s1.
      Proof.
        destruct iter_node as [nda [A [B [C D]]]]. pose proof iter_slen as Hsl.
        pose proof exit_node as Hn1.
        destruct (es_top _ _ _ _ _ _ E) as [e [He He1]].
        destruct (wf_dep _ _ Wa dfn nda depth A C) as [_ [e' [He' Hce]]].
        assert (e' = e) by congruence. subst e'.
        constructor.
        - intros d nd H. destruct (exit_case d nd H) as [[_ [H1 _]]|[-> ->]]; simpl.
          + eapply wf_goal; eauto.
          + apply (li_g _ _ _ _ _ LI).
        - intros d d' nd nd' H H' Eg.
          destruct (exit_case d nd H) as [[N1 [H1 _]]|[-> ->]], (exit_case d' nd' H') as [[N2 [H2 _]]|[-> ->]]; auto.
          + eapply wf_nodup; eauto.
          + simpl in Eg. eapply (wf_nodup _ _ Wa d dfn nd nda); eauto. congruence.
          + simpl in Eg. eapply (wf_nodup _ _ Wa dfn d' nda nd'); eauto. congruence.
        - intros d nd i H Hd. destruct (exit_case d nd H) as [[N1 [H1 _]]|[-> ->]].
          + destruct (wf_dep _ _ Wa d nd i H1 Hd) as [A' [e2 [He2 Hc2]]]. split; auto. exists e2. split; auto.
            rewrite (es_stack _ _ _ _ _ _ E); auto. destruct (iter_below d nd i H1 Hd N1). lia.
          + simpl in Hd. inversion Hd; subst i. split; auto. eexists. split; [exact He1|]. simpl. rewrite <- B. exact Hce.
        - intros i Hi. rewrite (es_len _ _ _ _ _ _ E) in Hi.
          destruct (Nat.eq_dec i depth) as [->|Hne].
          + exists dfn, nd1. split; auto.
          + destruct (wf_surj _ _ Wa i Hi) as [d [nd [Hn Hd]]]. exists d, nd. split; auto.
            assert (d <> dfn) by (intros ->; unfold nodeat in *; congruence).
            apply exit_old; auto. right. destruct (iter_below d nd i Hn Hd H). auto.
        - intros d d' nd nd' i i' H H' Hd Hd'.
          destruct (exit_case d nd H) as [[N1 [H1 _]]|[-> ->]], (exit_case d' nd' H') as [[N2 [H2 _]]|[-> ->]].
          + eapply wf_mono; eauto.
          + simpl in Hd'. inversion Hd'; subst i'. destruct (iter_below d nd i H1 Hd N1). lia.
          + simpl in Hd. inversion Hd; subst i. destruct (iter_below d' nd' i' H2 Hd' N2). lia.
          + simpl in Hd, Hd'. inversion Hd; inversion Hd'; subst. lia.
        - intros d nd H Hd. destruct (exit_case d nd H) as [[N1 [H1 K]]|[-> ->]]; [|discriminate].
          destruct (wf_pend _ _ Wa d nd H1 Hd) as [l [ndl [A1 [A2 [A3 A4]]]]].
          destruct (Nat.eq_dec l dfn) as [->|Hne].
          + exists dfn, nd1. split; [exact A1|]. split; [exact A2|]. split; [exact Hn1|].
            simpl. unfold nodeat in *. assert (ndl = nda) by congruence. subst ndl. rewrite <- B. exact A4.
          + exists l, ndl. split; [exact A1|]. split; [exact A2|]. split; [|exact A4].
            apply exit_old; auto. destruct K as [K|K]; [left; auto|right; lia].
        - intros d nd dt ndt H Ht Hdt. rewrite (es_len _ _ _ _ _ _ E), <- Hsl in Hdt. simpl in Hdt.
          rewrite Nat.sub_0_r in Hdt.
          assert (Hgt : gn_goal ndt = g).
          { destruct (exit_case dt ndt Ht) as [[N2 [H2 _]]|[-> ->]]; [|reflexivity].
            exfalso. apply N2. eapply wf_inj; eauto. }
          rewrite Hgt. destruct (exit_case d nd H) as [[N1 [H1 _]]|[-> ->]]; [|apply path_refl].
          rewrite <- B. eapply (wf_top _ _ Wa d nd dfn nda); eauto. rewrite C. f_equal. lia.
        - intros d nd d' nd' i i' H H' Hd Hd' Hle.
          assert (Hs : forall d nd, nodeat s1 d nd -> exists nd', nodeat sa d nd' /\ gn_goal nd' = gn_goal nd /\ gn_depth nd' = gn_depth nd).
          { intros d2 nd2 H2. destruct (exit_case d2 nd2 H2) as [[_ [H3 _]]|[-> ->]]; [eauto|].
            exists nda. simpl. auto. }
          destruct (Hs d nd H) as [x [X1 [X2 X3]]], (Hs d' nd' H') as [y [Y1 [Y2 Y3]]].
          rewrite <- X2, <- Y2. eapply (wf_chain _ _ Wa d x d' y i i'); eauto; congruence.
      Qed.

      Lemma sub0_exit : sub s0 s1.
      Proof.
        pose proof (li_sub _ _ _ _ _ LI) as H0. pose proof (ext_sub _ _ Ea) as H1.
        pose proof (sub_trans _ _ _ H0 H1) as H2.
        constructor.
        - intros i e Hi. destruct (sub_stack _ _ H2 i e Hi) as [e' [A B]]. exists e'. split; auto.
          rewrite (es_stack _ _ _ _ _ _ E); auto.
          assert (i < length (stack s0)) by (apply nth_error_Some; congruence).
          pose proof (li_depth _ _ _ _ _ LI). lia.
        - intros d nd H. pose proof (nodeat_lt _ _ _ H) as Hlt. pose proof (li_dfn _ _ _ _ _ LI).
          apply exit_old; [lia|apply (sub_graph _ _ H2); auto|right; lia].
        - intros H. rewrite (es_int _ _ _ _ _ _ E). apply (sub_int _ _ H2 H).
      Qed.

      (** *** the popped state *)
      Variable sm : mn.
      Let s2 := popnode s1 dfn sm.
      Let nd2 := mkGnode g v None sm.

      Lemma pop_case d nd : nodeat s2 d nd ->
        (d <> dfn /\ nodeat sa d nd /\ (keep = true \/ d < dfn)) \/ (d = dfn /\ nd = nd2).
      Proof.
        intros H. apply (nodeat_pop _ _ _ _ _ _ exit_node) in H. destruct H as [[Hne H]|[-> ->]].
        - destruct (exit_case d nd H) as [A|[A _]]; [left; auto|contradiction].
        - right. split; reflexivity.
      Qed.

      Lemma pop_new : nodeat s2 dfn nd2.
      Proof. apply (nodeat_pop _ _ _ _ _ _ exit_node). right. split; reflexivity. Qed.

      Lemma pop_old d nd : d <> dfn -> nodeat sa d nd -> (keep = true \/ d < dfn) -> nodeat s2 d nd.
      Proof. intros Hne H K. apply (nodeat_pop _ _ _ _ _ _ exit_node). left. split; auto. apply exit_old; auto. Qed.

      Lemma trusted_pop th b : trusted th b s2 <-> trusted th b sa.
      Proof.
        unfold trusted. change (interrupted s2) with (interrupted s1). rewrite (es_int _ _ _ _ _ _ E). tauto.
      Qed.

      Lemma flagged_pop d nd : nodeat sa d nd -> d <> dfn -> flagged sa nd -> flagged s2 nd.
      Proof.
        intros Hn Hne Hf i e Hd He. destruct (iter_below d nd i Hn Hd Hne) as [Hi _].
        apply (Hf i e Hd). unfold s2 in He. rewrite stack_pop in He.
        pose proof iter_slen. rewrite nth_error_removelast in He by (rewrite (es_len _ _ _ _ _ _ E); lia).
        rewrite (es_stack _ _ _ _ _ _ E) in He by lia. exact He.
      Qed.

      (** a leaf that is not the node [dfn] itself and survives *)
      Lemma GL_pop_other th b l z d nd :
        nodeat sa d nd -> gn_goal nd = z -> tv th (gn_sol nd) = b -> coind (get G z) = b ->
        mn_le l (Some d) -> flagged sa nd -> d <> dfn -> (keep = true \/ d < dfn) -> GL th b s2 l z.
      Proof.
        intros Hn Hg Ht Hc Hl Hf Hne K. exists d, nd. repeat split; auto.
        - apply pop_old; auto.
        - eapply flagged_pop; eauto.
      Qed.

      (** the node [dfn] in the popped state as a leaf *)
      Lemma GL_pop_self th b l : tv th v = b -> coind (get G g) = b -> mn_le l (Some dfn) -> GL th b s2 l g.
      Proof.
        intros Ht Hc Hl. exists dfn, nd2. repeat split; auto.
        - apply pop_new.
        - intros i e Hd. discriminate.
      Qed.

      (** the claim of the popped node, given where the leaves of the last iteration went *)
      Lemma NewSI_node (Lf : bool -> bool -> nat -> Prop) :
        (forall th b x, b = tv th v -> trusted th b sa -> coind (get G g) = b ->
            J th b sa m g x -> Abs G th b x \/ Lf th b x \/ GL th b s2 sm x) ->
        (forall th b, b = tv th v -> trusted th b sa -> coind (get G g) = b ->
            forall x, Lf th b x -> x = g \/ (coind (get G x) = b /\
               NJ1 G th b (fun y => Abs G th b y \/ (y = g \/ Lf th b y) \/ GL th b s2 sm y) x)) ->
        forall th, trusted th (tv th (gn_sol nd2)) s2 ->
          (coind (get G (gn_goal nd2)) <> tv th (gn_sol nd2) -> Abs G th (tv th (gn_sol nd2)) (gn_goal nd2)) /\
          (coind (get G (gn_goal nd2)) = tv th (gn_sol nd2) -> gn_depth nd2 = None ->
             Rel th (tv th (gn_sol nd2)) s2 (gn_links nd2) (gn_goal nd2)).
      Proof.
        intros HL HX th Ht. simpl in *. apply trusted_pop in Ht. split.
        - intros Hne. apply abs_new; auto.
        - intros Hc _. exists (fun x => x = g \/ Lf th (tv th v) x). split; [left; auto|].
          assert (Hg : NJ1 G th (tv th v) (fun y => Abs G th (tv th v) y \/ (y = g \/ Lf th (tv th v) y) \/ GL th (tv th v) s2 sm y) g).
          { eapply NJ1_mono; [|apply (NC th Ht)]. intros x Hx.
            destruct (HL th (tv th v) x eq_refl Ht Hc Hx) as [A|[A|A]]; auto. }
          intros x [->|Hx]; [split; auto|].
          destruct (HX th (tv th v) eq_refl Ht Hc x Hx) as [->|[A B]]; [split; auto|split; auto].
      Qed.
    End Exit.
  End Iter.

  (** a leaf of the state after the iteration, seen from the popped state *)
  Lemma GL_transfer s0 s g depth dfn sa m v s1 keep sm th b l z
        (LI : loop_in s0 s g depth dfn) (F : frame s sa g None m)
        (E : exit_state sa s1 depth dfn v keep) :
    GL th b sa l z ->
    (* the node [dfn] itself: allowed as a leaf when its projected value is unchanged *)
    (forall nda, nodeat sa dfn nda -> flagged sa nda -> tv th (gn_sol nda) = b -> tv th v = b) ->
    (exists d nd, nodeat sa d nd /\ gn_goal nd = z /\ dfn < d /\ keep = false /\ tv th (gn_sol nd) = b /\ coind (get G z) = b) \/
    GL th b (popnode s1 dfn sm) l z.
  Proof.
    intros [d [nd [Hn [Hg [Ht [Hc [Hl Hf]]]]]]] Hself.
    destruct (Nat.eq_dec d dfn) as [->|Hne].
    - right. destruct (iter_node s0 s g depth dfn sa m LI F) as [nda [A [B _]]].
      unfold nodeat in *. assert (nd = nda) by congruence. subst nd.
      rewrite <- Hg, B. eapply (GL_pop_self s0 s g depth dfn sa m v LI F s1 keep E); eauto.
      + rewrite <- B, Hg. exact Hc.
    - destruct keep eqn:Ek.
      + right. eapply (GL_pop_other s0 s g depth dfn sa m v LI F s1 true E); eauto.
      + destruct (lt_dec d dfn) as [Hlt|Hge].
        * right. eapply (GL_pop_other s0 s g depth dfn sa m v LI F s1 false E); eauto.
        * left. exists d, nd. repeat split; auto. lia.
  Qed.

  Lemma loop_out_keep s0 s g depth dfn sa m v s1
        (LI : loop_in s0 s g depth dfn) (F : frame s sa g None m)
        (NC : forall th, trusted th (tv th v) sa -> NJ1 G th (tv th v) (J th (tv th v) sa m g) g)
        (E : exit_state sa s1 depth dfn v true) :
    (forall nda e, nodeat sa dfn nda -> nth_error (stack sa) depth = Some e -> se_cycle e = true -> gn_sol nda = v) ->
    loop_out s0 s1 g depth dfn m.
  Proof.
    intros Hflag.
    pose proof (fr_wf _ _ _ _ _ _ _ F) as Wa. pose proof (fr_si _ _ _ _ _ _ _ F) as Sa.
    pose proof (fr_ext _ _ _ _ _ _ _ F) as Ea.
    destruct (iter_node s0 s g depth dfn sa m LI F) as [nda [A [B [C D]]]].
    assert (Hself : forall th b nda', nodeat sa dfn nda' -> flagged sa nda' -> tv th (gn_sol nda') = b -> tv th v = b).
    { intros th b nda' H1 H2 H3. unfold nodeat in *. assert (nda' = nda) by congruence. subst nda'.
      destruct (wf_dep _ _ Wa dfn nda depth A C) as [_ [e [He _]]].
      rewrite <- (Hflag nda e A He); auto. apply (H2 depth e C He). }
    assert (HGL : forall th b l z sm, GL th b sa l z -> GL th b (popnode s1 dfn sm) l z).
    { intros th b l z sm H.
      destruct (GL_transfer s0 s g depth dfn sa m v s1 true sm th b l z LI F E H (Hself th b)) as [[d [nd [_ [_ [_ [K _]]]]]]|H']; [discriminate|auto]. }
    constructor.
    - eapply sub0_exit; eauto.
    - eapply WF_exit; eauto.
    - unfold cache_exact. rewrite (es_cache _ _ _ _ _ _ E). apply (si_cache _ _ Sa).
    - rewrite (es_len _ _ _ _ _ _ E). eapply iter_slen; eauto.
    - eexists. split; [eapply exit_node; eauto|]. split; reflexivity.
    - intros d nd H Hd. destruct (exit_case s0 s g depth dfn sa m v LI F s1 true E d nd H) as [[_ [H1 _]]|[-> _]]; [|lia].
      pose proof (li_glen _ _ _ _ _ LI). split.
      + apply (ext_new _ _ Ea d nd H1). lia.
      + apply (fr_new _ _ _ _ _ _ _ F d nd H1). lia.
    - intros l Hl. destruct (fr_path _ _ _ _ _ _ _ F l Hl) as [H|[H|[H1 [nd [H2 H3]]]]]; [discriminate| |].
      + left. pose proof (li_glen _ _ _ _ _ LI). lia.
      + right. pose proof (li_glen _ _ _ _ _ LI). split; [lia|].
        destruct (Nat.eq_dec l dfn) as [->|Hne].
        * eexists. split; [eapply exit_node; eauto|]. simpl.
          destruct (li_node _ _ _ _ _ LI) as [nd0 [X [Y _]]]. unfold nodeat in *.
          assert (nd = nd0) by congruence. subst nd. rewrite Y in H3. exact H3.
        * exists nd. split; auto. eapply exit_old; eauto. apply (ext_graph _ _ Ea); auto.
    - intros th d nd H Hd Ht.
      destruct (pop_case s0 s g depth dfn sa m v LI F s1 true E m d nd H) as [[Hne [H1 _]]|[-> ->]].
      + apply (proj1 (trusted_pop _ _ _ _ _ _ E _ _ _)) in Ht.
        destruct (si_node _ _ Sa th d nd H1 Ht) as [P Q]. split; auto.
        intros Hc Hp. destruct (Q Hc Hp) as [X [Xg HX]]. exists X. split; auto.
        intros x Hx. destruct (HX x Hx) as [Hcx HN]. split; auto.
        eapply NJ1_mono; [|exact HN]. intros y [Hy|[Hy|Hy]]; auto.
      + apply (NewSI_node g depth dfn sa m v NC s1 true E m (fun _ _ _ => False)); auto.
        * intros th' b x Hb Ht' Hc [HA|[HG _]]; auto.
        * intros th' b _ _ _ x [].
    - eapply int_ok_trans; [apply (li_int _ _ _ _ _ LI)|]. eapply int_ok_trans; [apply (fr_int _ _ _ _ _ _ _ F)|].
      apply int_ok_eq; [rewrite (es_sci _ _ _ _ _ _ E); apply le_n|apply (es_int _ _ _ _ _ _ E)].
  Qed.

  Lemma exit_drop_no_later s0 s g depth dfn sa m v s1
        (LI : loop_in s0 s g depth dfn) (F : frame s sa g None m)
        (E : exit_state sa s1 depth dfn v false) d nd : nodeat s1 d nd -> d <= dfn.
  Proof.
    intros H. destruct (exit_case s0 s g depth dfn sa m v LI F s1 false E d nd H) as [[_ [_ [K|K]]]|[-> _]];
      [discriminate|lia|lia].
  Qed.

  (** the loop ends by the ambiguity shortcut: the later nodes are dropped, their
      justifications survive as a ghost set *)
  Lemma loop_out_drop s0 s g depth dfn sa m v s1
        (LI : loop_in s0 s g depth dfn) (F : frame s sa g None m)
        (NC : forall th, trusted th (tv th v) sa -> NJ1 G th (tv th v) (J th (tv th v) sa m g) g)
        (E : exit_state sa s1 depth dfn v false) :
    loop_out s0 s1 g depth dfn m.
  Proof.
    pose proof (fr_wf _ _ _ _ _ _ _ F) as Wa. pose proof (fr_si _ _ _ _ _ _ _ F) as Sa.
    pose proof (fr_ext _ _ _ _ _ _ _ F) as Ea. pose proof (li_glen _ _ _ _ _ LI) as Hgl.
    destruct (iter_node s0 s g depth dfn sa m LI F) as [nda [A [B [C D]]]].
    constructor.
    - eapply sub0_exit; eauto.
    - eapply WF_exit; eauto.
    - unfold cache_exact. rewrite (es_cache _ _ _ _ _ _ E). apply (si_cache _ _ Sa).
    - rewrite (es_len _ _ _ _ _ _ E). eapply iter_slen; eauto.
    - eexists. split; [eapply exit_node; eauto|]. split; reflexivity.
    - intros d nd H Hd. pose proof (exit_drop_no_later s0 s g depth dfn sa m v s1 LI F E d nd H). lia.
    - intros l Hl. destruct (fr_path _ _ _ _ _ _ _ F l Hl) as [H|[H|[H1 [nd [H2 H3]]]]]; [discriminate| |].
      + left. lia.
      + right. split; [lia|].
        destruct (Nat.eq_dec l dfn) as [->|Hne].
        * eexists. split; [eapply exit_node; eauto|]. simpl.
          destruct (li_node _ _ _ _ _ LI) as [nd0 [X [Y _]]]. unfold nodeat in *.
          assert (nd = nd0) by congruence. subst nd. rewrite Y in H3. exact H3.
        * exists nd. split; auto. eapply exit_old; eauto. apply (ext_graph _ _ Ea); auto. right. lia.
    - intros th d nd H Hd Ht.
      destruct (pop_case s0 s g depth dfn sa m v LI F s1 false E m d nd H) as [[Hne [_ [K|K]]]|[-> ->]];
        [discriminate|lia|].
      (* the ghost set: the dropped nodes with the same projected value and kind *)
      set (Lf := fun (th b : bool) (x : nat) =>
             exists d nd (Xp : nat -> Prop), nodeat sa d nd /\ dfn < d /\ Xp (gn_goal nd) /\
               (forall y, Xp y -> coind (get G y) = b /\
                   NJ1 G th b (fun z => Abs G th b z \/ Xp z \/ GL th b sa (gn_links nd) z) y) /\ Xp x).
      assert (Hdropped : forall th b d nd, trusted th b sa -> nodeat sa d nd -> dfn < d ->
                tv th (gn_sol nd) = b -> coind (get G (gn_goal nd)) = b -> Lf th b (gn_goal nd)).
      { intros th' b d' nd' Ht' Hn' Hd' Htv Hco.
        assert (Hp : gn_depth nd' = None) by (apply (ext_new _ _ Ea d' nd' Hn'); lia).
        destruct (si_node _ _ Sa th' d' nd' Hn') as [_ Q]; [rewrite Htv; exact Ht'|].
        rewrite Htv in Q. destruct (Q Hco Hp) as [Xp [Xg HX]].
        exists d', nd', Xp. repeat split; auto; apply HX; auto. }
      assert (Hleaf : forall th b l z, trusted th b sa -> b = tv th v -> coind (get G g) = b -> mn_le m l ->
                GL th b sa l z -> Lf th b z \/ z = g \/ GL th b (popnode s1 dfn m) m z).
      { intros th' b l z Ht' Hb Hcg Hml HG.
        destruct (GL_transfer s0 s g depth dfn sa m v s1 false m th' b m z LI F E) as [[d' [nd' [X1 [X2 [X3 [_ [X5 X6]]]]]]]|H'].
        - destruct HG as [d' [nd' HG']]. exists d', nd'. intuition. eapply mn_le_trans; eauto.
        - intros _ _ _ _. symmetry. exact Hb.
        - left. rewrite <- X2. apply (Hdropped th' b d' nd'); auto. rewrite X2. exact X6.
        - right; right. exact H'. }
      apply (NewSI_node g depth dfn sa m v NC s1 false E m Lf); auto.
      + intros th' b x Hb Ht' Hc [HA|[HG _]]; auto.
        destruct (Hleaf th' b m x Ht' Hb Hc (mn_le_refl _) HG) as [H1|[->|H1]]; auto.
        right; right. eapply (GL_pop_self s0 s g depth dfn sa m v LI F s1 false E); eauto.
        destruct HG as [dx [ndx [Y1 [Y2 [_ [_ [Y5 _]]]]]]].
        assert (dx = dfn) by (eapply (wf_nodup _ _ Wa dx dfn ndx nda); eauto; congruence). subst dx. exact Y5.
      + intros th' b Hb Ht' Hc x [d' [nd' [Xp [Hn' [Hd' [Xg [HX Hx]]]]]]].
        right. destruct (HX x Hx) as [Hcx HN]. split; auto.
        eapply NJ1_mono; [|exact HN]. intros y [Hy|[Hy|Hy]]; auto.
        * right; left; right. exists d', nd', Xp. repeat split; auto; apply HX; auto.
        * assert (Hml : mn_le m (gn_links nd')) by (apply (fr_new _ _ _ _ _ _ _ F d' nd' Hn'); lia).
          destruct (Hleaf th' b (gn_links nd') y Ht' Hb Hc Hml Hy) as [H1|[->|H1]]; auto.
    - eapply int_ok_trans; [apply (li_int _ _ _ _ _ LI)|]. eapply int_ok_trans; [apply (fr_int _ _ _ _ _ _ _ F)|].
      apply int_ok_eq; [rewrite (es_sci _ _ _ _ _ _ E); apply le_n|apply (es_int _ _ _ _ _ _ E)].
  Qed.

  (** the loop goes round again *)
  Lemma loop_in_again s0 s g depth dfn sa m v s1
        (LI : loop_in s0 s g depth dfn) (F : frame s sa g None m)
        (NC : forall th, trusted th (tv th v) sa -> NJ1 G th (tv th v) (J th (tv th v) sa m g) g)
        (E : exit_state sa s1 depth dfn v false) :
    loop_in s0 s1 g depth dfn.
  Proof.
    pose proof (fr_wf _ _ _ _ _ _ _ F) as Wa. pose proof (fr_si _ _ _ _ _ _ _ F) as Sa.
    assert (Hsub : sub s0 s1) by (eapply sub0_exit; eauto).
    assert (Hn1 : nodeat s1 dfn (mkGnode g v (Some depth) (Some dfn))) by (eapply exit_node; eauto).
    constructor.
    - apply (li_wf0 _ _ _ _ _ LI).
    - apply (li_si0 _ _ _ _ _ LI).
    - apply (li_dfn _ _ _ _ _ LI).
    - apply (li_depth _ _ _ _ _ LI).
    - exact Hsub.
    - eapply WF_exit; eauto.
    - constructor.
      + unfold cache_exact. rewrite (es_cache _ _ _ _ _ _ E). apply (si_cache _ _ Sa).
      + intros th d nd H Ht.
        destruct (exit_case s0 s g depth dfn sa m v LI F s1 false E d nd H) as [[Hne [H1 [K|K]]]|[-> ->]]; [discriminate| |].
        * assert (H0 : nodeat s0 d nd) by (eapply prefix_back; eauto; rewrite (li_dfn _ _ _ _ _ LI); exact K).
          destruct (si_node _ _ (li_si0 _ _ _ _ _ LI) th d nd H0) as [P Q]; [eapply trusted_sub; eauto|].
          split; auto. intros Hc Hp.
          eapply (Rel_sub G th _ s0 s1); [apply (li_wf0 _ _ _ _ _ LI)|exact Hsub|apply mn_le_refl|]. apply Q; auto.
        * simpl. split; [|discriminate]. intros Hne. eapply abs_new; eauto.
          destruct Ht as [Ht|Ht]; [left; auto|right]. rewrite <- (es_int _ _ _ _ _ _ E). exact Ht.
    - apply (li_g _ _ _ _ _ LI).
    - eexists. split; [exact Hn1|]. split; reflexivity.
    - rewrite (es_len _ _ _ _ _ _ E). eapply iter_slen; eauto.
    - (* exactly the nodes 0..dfn are left *)
      destruct (le_lt_dec (length (sgraph s1)) dfn) as [Hle|Hlt].
      + apply nth_error_None in Hle. unfold nodeat in Hn1. congruence.
      + destruct (le_lt_dec (length (sgraph s1)) (S dfn)) as [Hle2|Hlt2]; [lia|].
        destruct (nth_error (sgraph s1) (S dfn)) as [nd|] eqn:En.
        * pose proof (exit_drop_no_later s0 s g depth dfn sa m v s1 LI F E (S dfn) nd En). lia.
        * apply nth_error_None in En. lia.
    - destruct (es_top _ _ _ _ _ _ E) as [e [_ He1]]. eexists. split; [exact He1|reflexivity].
    - eapply int_ok_trans; [apply (li_int _ _ _ _ _ LI)|]. eapply int_ok_trans; [apply (fr_int _ _ _ _ _ _ _ F)|].
      apply int_ok_eq; [rewrite (es_sci _ _ _ _ _ _ E); apply le_n|apply (es_int _ _ _ _ _ _ E)].
  Qed.

  Lemma snsg_S f g depth dfn s :
    solve_new_subgoal G cf (S f) g depth dfn s =
    bind (solve_iteration G cf (solve_goal G cf f) g s) (loop_step f g depth dfn).
  Proof. reflexivity. Qed.

  (** ** the two specifications, by induction on the fuel *)
  Definition lp_post (s0 : state) (g depth dfn : nat) (r : res mn) : Prop :=
    match r with
    | OutOfFuel => True
    | Panic p s' => (p = Injected \/ p = OverflowDepth) /\ cache_exact G s'
    | Done sm s1 => loop_out s0 s1 g depth dfn sm
    end.

  Definition SGspec (f : nat) : Prop := forall g m s t,
    WF s -> SI s -> g < length G -> Ctx s t g -> sg_post G cf t g m s (solve_goal G cf f g m s).

  Definition LPspec (f : nat) : Prop := forall s0 s g depth dfn,
    loop_in s0 s g depth dfn -> lp_post s0 g depth dfn (solve_new_subgoal G cf f g depth dfn s).

  Lemma tick_cases s : tick cf s = Panic Injected (bump_ticks s) \/ tick cf s = Done tt (bump_ticks s).
  Proof. unfold tick. destruct (pn cf (ticks s)); auto. Qed.

  Lemma loop_step_spec f : LPspec f -> forall s0 s g depth dfn sa m v,
    loop_in s0 s g depth dfn -> frame s sa g None m ->
    (forall th, trusted th (tv th v) sa -> NJ1 G th (tv th v) (J th (tv th v) sa m g) g) ->
    lp_post s0 g depth dfn (loop_step f g depth dfn (v, m) sa).
  Proof.
    intros HLP s0 s g depth dfn sa m v LI F NC.
    pose proof (fr_si _ _ _ _ _ _ _ F) as Sa.
    destruct (iter_node s0 s g depth dfn sa m LI F) as [nda [A [B [C D]]]].
    pose proof (iter_slen s0 s g depth dfn sa m LI F) as Hsl.
    destruct (nth_error (stack sa) depth) as [e|] eqn:He; [|apply nth_error_None in He; lia].
    unfold loop_step. rewrite He. unfold nodeat in A. rewrite A.
    fold (reset_flag sa depth).
    pose proof (exit_state_keep sa depth dfn v e nda He A) as E0.
    destruct (se_cycle e) eqn:Ecyc; simpl negb; cbv iota.
    - (* some subgoal depended on this node *)
      match goal with |- context [tick cf ?x] => destruct (tick_cases x) as [Et|Et]; rewrite Et end; simpl bind.
      + split; auto. unfold cache_exact. simpl. apply (si_cache _ _ Sa).
      + pose proof (exit_state_ticks _ _ _ _ _ _ E0) as E1.
        destruct (val_eqb (gn_sol nda) v) eqn:Eold.
        * (* fixed point *)
          simpl. eapply loop_out_keep; eauto.
          intros nda' e' H1 H2 H3. unfold nodeat in H1. assert (nda' = nda) by congruence. subst.
          destruct (val_eqb_spec (gn_sol nda) v); [auto|discriminate].
        * destruct (val_eqb v Amb) eqn:Eamb.
          -- (* the ambiguity shortcut: drop what was computed against the old value *)
             rewrite Hvr. simpl. eapply loop_out_drop; eauto. apply exit_state_rollback. exact E1.
          -- (* once more *)
             apply HLP. eapply loop_in_again; eauto. apply exit_state_rollback. exact E1.
    - (* nobody looked at the provisional value *)
      simpl. eapply loop_out_keep; eauto.
      intros nda' e' H1 H2 H3. assert (e' = e) by congruence. subst. congruence.
  Qed.

  Lemma sg_post_core s s' t g m r :
    WF s -> SI s -> same_core s s' -> int_ok s s' -> sg_post G cf t g m s' r -> sg_post G cf t g m s r.
  Proof.
    intros W S C I H. destruct r as [[v m'] s''|p s''|]; simpl in *; auto.
    destruct H as [F HJ]. split; auto.
    eapply frame_trans; [apply (frame_core s s' g m W S C I)|exact F].
  Qed.

  Lemma Ctx_core s s' t g : same_core s s' -> Ctx s t g -> Ctx s' t g.
  Proof.
    intros [H1 [H2 _]] [[A B]|[[dt [ndt [T1 [T2 [T3 T4]]]]] He]].
    - left. split; congruence.
    - right. split; auto. exists dt, ndt. unfold nodeat. rewrite H1, H2. auto.
  Qed.

  Theorem specs f : SGspec f /\ LPspec f.
  Proof.
    induction f as [|f [IHsg IHlp]].
    - split; intros; intro; intros; simpl; auto.
    - assert (Hsg : forall g m s t, WF s -> SI s -> g < length G -> topgoal s t -> edge G t g ->
                sg_post G cf t g m s (solve_goal G cf f g m s)).
      { intros g m s t W S Hg T He. apply IHsg; auto. right. auto. }
      split.
      + (* solve_goal *)
        intros g m s t W S Hg C. rewrite solve_goal_S. cbv zeta.
        assert (C1 : same_core s (bump_work s)) by (repeat split; auto).
        apply (sg_post_core s (bump_work s) t g m _ W S C1 (int_ok_refl cf _)).
        pose proof (WF_eq s (bump_work s) eq_refl eq_refl W) as W1.
        pose proof (SI_core s (bump_work s) W C1 S) as S1.
        pose proof (Ctx_core _ _ _ _ C1 C) as Cx.
        set (s1 := bump_work s) in *.
        destruct (if caching cf then cache_get (cache s1) g else None) as [v|] eqn:Ecache.
        * (* cache hit *)
          split; [apply frame_refl; auto|]. intros th _. left.
          apply abs_of_sem. apply (si_cache _ _ S1). destruct (caching cf); [exact Ecache|discriminate].
        * destruct (glookup (sgraph s1) g) as [dfn|] eqn:Elook.
          -- destruct (glookup_some _ _ _ Elook) as [nd [Hn Hgn]].
             eapply found_node_spec; eauto.
          -- (* a new node *)
             unfold new_node.
             destruct (tick_cases s1) as [Et|Et]; rewrite Et; simpl bind; [split; auto; exact (si_cache _ _ S1)|].
             set (s2 := bump_ticks s1).
             destruct (tick_cases s2) as [Et2|Et2]; rewrite Et2; simpl bind; [split; auto; exact (si_cache _ _ S1)|].
             set (s3 := bump_ticks s2).
             assert (C3 : same_core s1 s3) by (repeat split; auto).
             apply (sg_post_core s1 s3 t g m _ W1 S1 C3 (int_ok_refl cf _)).
             pose proof (WF_eq s1 s3 eq_refl eq_refl W1) as W3.
             pose proof (SI_core s1 s3 W1 C3 S1) as S3.
             pose proof (Ctx_core _ _ _ _ C3 Cx) as C3x.
             change (stack s) with (stack s3). change (sgraph s) with (sgraph s3).
             destruct (overflow cf <=? length (stack s3)); [split; auto; exact (si_cache _ _ S3)|].
             assert (LI : loop_in s3 (push_node s3 g) g (length (stack s3)) (length (sgraph s3))).
             { constructor; auto.
               - apply sub_push.
               - eapply WF_push; eauto.
               - apply SI_push; auto.
               - eexists. split; [apply nodeat_push_new|]. split; reflexivity.
               - rewrite stack_push, app_length. simpl. lia.
               - unfold push_node. simpl. rewrite app_length. simpl. lia.
               - eexists. rewrite stack_push. split; [apply nth_error_snoc|reflexivity].
               - apply int_ok_eq; [apply le_n|reflexivity]. }
             pose proof (IHlp _ _ _ _ _ LI) as HL.
             destruct (solve_new_subgoal G cf f g (length (stack s3)) (length (sgraph s3)) (push_node s3 g))
               as [sm sL|p sL|]; simpl bind; simpl in HL; auto.
             eapply finish_node_spec; eauto.
      + (* solve_new_subgoal *)
        intros s0 s g depth dfn LI. rewrite snsg_S.
        pose proof (solve_iteration_spec (solve_goal G cf f) Hsg g s (li_wf _ _ _ _ _ LI) (li_si _ _ _ _ _ LI)
                      (li_g _ _ _ _ _ LI) (loop_in_top _ _ _ _ _ LI)) as HI.
        destruct (solve_iteration G cf (solve_goal G cf f) g s) as [[v m] sa|p sa|]; simpl bind; simpl in HI; auto.
        destruct HI as [F NC]. eapply loop_step_spec; eauto.
  Qed.
End Solve.
