(** * Engine.RecSolve — [solve_goal] / [solve_new_subgoal] of the repaired engine preserve
    the invariants of Engine.RecInv (graphs without mixed cycles). *)

From Chalk Require Export Engine.RecEval.

Section Solve.
  Variable G : graph.
  Variable cf : config.
  Hypothesis Hwf : wf G.
  Hypothesis Hnomix : ~ mixed_cycle G.
  Hypothesis Hvr : vr cf = repaired.

  Notation WF := (WF G).
  Notation SI := (SI G).
  Notation GL := (GL G).
  Notation Rel := (Rel G).
  Notation J := (J G).
  Notation frame := (frame G).

  (** ** states that differ only in counters (and possibly a raised [interrupted]) *)
  Definition same_core (s s' : state) : Prop :=
    stack s' = stack s /\ sgraph s' = sgraph s /\ cache s' = cache s /\
    (interrupted s = true -> interrupted s' = true).

  Lemma WF_eq s s' : stack s' = stack s -> sgraph s' = sgraph s -> WF s -> WF s'.
  Proof.
    intros H1 H2 W. destruct W. constructor; unfold nodeat in *; rewrite ?H1, ?H2; auto.
  Qed.

  Lemma GL_eq th b s s' l z : stack s' = stack s -> sgraph s' = sgraph s -> GL th b s l z -> GL th b s' l z.
  Proof.
    intros H1 H2 [d [nd [Hn H]]]. exists d, nd. unfold nodeat, flagged in *. rewrite H1, H2. split; auto.
  Qed.

  Lemma sub_core s s' : same_core s s' -> sub s s'.
  Proof.
    intros [H1 [H2 [H3 H4]]]. constructor; unfold nodeat; rewrite ?H1, ?H2; auto.
    intros i e H. exists e. auto.
  Qed.

  Lemma ext_core s s' : same_core s s' -> ext s s'.
  Proof.
    intros [H1 [H2 [H3 H4]]]. constructor; unfold nodeat; rewrite ?H1, ?H2; auto.
    - intros i e H. exists e. auto.
    - intros d nd H Hd. assert (d < length (sgraph s)) by (apply nth_error_Some; congruence). lia.
  Qed.

  Lemma SI_core s s' : WF s -> same_core s s' -> SI s -> SI s'.
  Proof.
    intros W C S. pose proof (sub_core _ _ C) as Hs. destruct C as [H1 [H2 [H3 H4]]].
    constructor.
    - unfold cache_exact. rewrite H3. apply (si_cache _ _ S).
    - intros th d nd Hn Ht. unfold nodeat in Hn. rewrite H2 in Hn.
      destruct (si_node _ _ S th d nd Hn) as [A B]; [eapply trusted_sub; eauto|].
      split; auto. intros Hc Hp. eapply Rel_sub; eauto. apply mn_le_refl.
  Qed.

  Lemma frame_core s s' t m : WF s -> SI s -> same_core s s' -> frame s s' t m m.
  Proof.
    intros W S C. destruct (C) as [H1 [H2 [H3 H4]]]. constructor.
    - eapply WF_eq; eauto.
    - eapply SI_core; eauto.
    - apply ext_core; auto.
    - apply mn_le_refl.
    - intros d nd H Hd. unfold nodeat in H. rewrite H2 in H.
      assert (d < length (sgraph s)) by (apply nth_error_Some; congruence). lia.
    - intros l Hl. left; auto.
  Qed.

  Lemma same_core_refl s : same_core s s.
  Proof. repeat split; auto. Qed.

  Lemma same_core_trans s1 s2 s3 : same_core s1 s2 -> same_core s2 s3 -> same_core s1 s3.
  Proof.
    intros [A1 [A2 [A3 A4]]] [B1 [B2 [B3 B4]]]. repeat split; try congruence. auto.
  Qed.

  Lemma cache_exact_core s s' : cache s' = cache s -> cache_exact G s -> cache_exact G s'.
  Proof. intros H C. unfold cache_exact. rewrite H. auto. Qed.

  (** ** cycles and kinds *)
  Lemma same_kind a b : path G a b -> path G b a -> coind (get G a) = coind (get G b).
  Proof.
    intros P1 P2. destruct (coind (get G a)) eqn:Ea, (coind (get G b)) eqn:Eb; auto; exfalso; apply Hnomix.
    - exists a, b. auto.
    - exists b, a. auto.
  Qed.

  Lemma path_trans a b c : path G a b -> path G b c -> path G a c.
  Proof. induction 1; auto. intros. eapply path_step; eauto. Qed.

  Lemma edge_clause g c x : In c (clauses (get G g)) -> In x (fst c) -> edge G g x.
  Proof. intros Hc Hx. unfold edge, succs. apply in_flat_map. exists c. auto. Qed.

  (** ** [solve_iteration] *)
  Section WithSg.
    Variable sg : nat -> mn -> state -> res (val * mn).
    Hypothesis Hsg : forall g m s t, WF s -> SI s -> g < length G -> topgoal s t -> edge G t g ->
                                     sg_post G t g m s (sg g m s).

    Definition it_post (g : nat) (s : state) (r : res (val * mn)) : Prop :=
      match r with
      | OutOfFuel => True
      | Panic p s' => (p = Injected \/ p = OverflowDepth) /\ cache_exact G s'
      | Done (v, m') s' =>
          frame s s' g None m' /\
          forall th, trusted th (tv th v) s' -> NJ1 G th (tv th v) (J th (tv th v) s' m' g) g
      end.

    Lemma solve_iteration_spec g s :
      WF s -> SI s -> g < length G -> topgoal s g -> it_post g s (solve_iteration G cf sg g s).
    Proof.
      intros W S Hg T. unfold it_post, solve_iteration, tick.
      assert (C1 : same_core s (bump_ticks (bump_iters s))) by (repeat split; auto).
      destruct (pn cf (ticks (bump_iters s))); simpl.
      - split; auto. eapply cache_exact_core; [|apply (si_cache _ _ S)]. reflexivity.
      - set (s1 := bump_ticks (bump_iters s)) in *.
        unfold ask_continue. simpl. destruct (sc cf (sci s)) eqn:Esc; simpl.
        + (* continue *)
          set (s2 := bump_sci s1).
          assert (C2 : same_core s s2) by (repeat split; auto).
          pose proof (frame_core s s2 g None W S C2) as F0.
          assert (T2 : topgoal s2 g) by (eapply topgoal_ext; eauto; apply (fr_ext _ _ _ _ _ _ F0)).
          assert (Hcs : forall c x, In c (clauses (get G g)) -> In x (fst c) -> edge G g x /\ x < length G).
          { intros c x Hc Hx. split; [eapply edge_clause; eauto|]. eapply Hwf; eauto. }
          pose proof (eval_clauses_spec G sg Hsg g (clauses (get G g)) [] None None s2
                        (fr_wf _ _ _ _ _ _ F0) (fr_si _ _ _ _ _ _ F0) T2 Hcs) as HE.
          simpl in HE. specialize (HE (fun th c H => match H with end)).
          destruct (eval_clauses sg (clauses (get G g)) None None s2) as [[v m'] s'| |]; simpl in *; auto.
          destruct HE as [F HE]. split; [eapply frame_trans; eauto|].
          intros th Ht. specialize (HE th Ht). destruct (tv th v); simpl.
          * destruct HE as [c [Hc [Hus Hall]]]. exists c. repeat split; auto.
          * intros c Hc Hus. destruct (HE c Hc) as [Hf|Hex]; auto. congruence.
        + (* interrupted *)
          set (s2 := set_interrupted (bump_sci s1) true).
          assert (C2 : same_core s s2) by (repeat split; auto).
          split; [apply frame_core; auto|].
          intros th [Ht|Ht]; simpl in *; [destruct th; discriminate|discriminate].
    Qed.
  End WithSg.

  (** ** lookups *)
  Lemma nth_error_snoc_inv {A} (l : list A) x d y :
    nth_error (l ++ [x]) d = Some y -> (d < length l /\ nth_error l d = Some y) \/ (d = length l /\ y = x).
  Proof.
    intros H. destruct (lt_dec d (length l)) as [Hlt|Hge].
    - left. split; auto. rewrite nth_error_app1 in H; auto.
    - right. rewrite nth_error_app2 in H by lia.
      destruct (d - length l) as [|k] eqn:E; simpl in H.
      + split; [lia|congruence].
      + destruct k; discriminate.
  Qed.

  Lemma glookup_from_some l : forall i g d, glookup_from l i g = Some d ->
    i <= d /\ exists nd, nth_error l (d - i) = Some nd /\ gn_goal nd = g.
  Proof.
    induction l as [|n r IH]; intros i g d H; simpl in H; [discriminate|].
    destruct (Nat.eqb (gn_goal n) g) eqn:E.
    - inversion H; subst. split; auto. rewrite Nat.sub_diag. exists n. split; auto. apply Nat.eqb_eq; auto.
    - destruct (IH (S i) g d H) as [Hle [nd [Hn Hg]]]. split; [lia|]. exists nd. split; auto.
      replace (d - i) with (S (d - S i)) by lia. simpl. auto.
  Qed.

  Lemma glookup_from_none l : forall i g, glookup_from l i g = None ->
    forall d nd, nth_error l d = Some nd -> gn_goal nd <> g.
  Proof.
    induction l as [|n r IH]; intros i g H d nd Hn; [destruct d; discriminate|].
    simpl in H. destruct (Nat.eqb (gn_goal n) g) eqn:E; [discriminate|].
    destruct d; simpl in Hn.
    - inversion Hn; subst. apply Nat.eqb_neq; auto.
    - eapply IH; eauto.
  Qed.

  Lemma glookup_some s g d : glookup (sgraph s) g = Some d -> exists nd, nodeat s d nd /\ gn_goal nd = g.
  Proof.
    intros H. apply glookup_from_some in H. destruct H as [_ [nd [Hn Hg]]].
    rewrite Nat.sub_0_r in Hn. exists nd. auto.
  Qed.

  Lemma glookup_none s g : glookup (sgraph s) g = None -> forall d nd, nodeat s d nd -> gn_goal nd <> g.
  Proof. intros H d nd Hn. eapply glookup_from_none; eauto. Qed.

  Lemma wf_depth_lt s d nd i : WF s -> nodeat s d nd -> gn_depth nd = Some i -> i < length (stack s).
  Proof.
    intros W Hn Hd. destruct (wf_dep _ _ W d nd i Hn Hd) as [_ [e [He _]]].
    apply nth_error_Some. congruence.
  Qed.

  (** the node on top of the stack is unique *)
  Lemma wf_inj s d d' nd nd' i : WF s -> nodeat s d nd -> nodeat s d' nd' ->
    gn_depth nd = Some i -> gn_depth nd' = Some i -> d = d'.
  Proof.
    intros W H1 H2 D1 D2.
    pose proof (wf_mono _ _ W d d' nd nd' i i H1 H2 D1 D2) as A.
    pose proof (wf_mono _ _ W d' d nd' nd i i H2 H1 D2 D1) as B.
    lia.
  Qed.

  (** ** no mixed cycle is ever seen *)
  Lemma existsb_all_same (l : list sentry) b :
    (forall e, In e l -> se_coind e = b) ->
    existsb se_coind l && existsb (fun e => negb (se_coind e)) l = false.
  Proof.
    intros H. destruct b.
    - replace (existsb (fun e => negb (se_coind e)) l) with false; [apply andb_false_r|].
      symmetry. apply not_true_is_false. intros E. apply existsb_exists in E. destruct E as [e [He Hn]].
      rewrite (H e He) in Hn. discriminate.
    - replace (existsb se_coind l) with false; auto.
      symmetry. apply not_true_is_false. intros E. apply existsb_exists in E. destruct E as [e [He Hn]].
      rewrite (H e He) in Hn. discriminate.
  Qed.

  Lemma In_skipn_nth {A} (l : list A) d x : In x (skipn d l) -> exists i, d <= i /\ nth_error l i = Some x.
  Proof.
    revert d. induction l as [|a l IH]; intros d H.
    - destruct d; simpl in H; destruct H.
    - destruct d; simpl in H.
      + change (In x (a :: l)) in H. apply In_nth_error in H. destruct H as [i Hi]. exists i. split; [lia|auto].
      + destruct (IH d H) as [i [Hi Hn]]. exists (S i). split; [lia|auto].
  Qed.

  Lemma no_mixed_from s t g dfn nd d :
    WF s -> topgoal s t -> edge G t g -> nodeat s dfn nd -> gn_goal nd = g -> gn_depth nd = Some d ->
    forall st', length st' = length (stack s) ->
      (forall i e', nth_error st' i = Some e' -> exists e, nth_error (stack s) i = Some e /\ se_coind e' = se_coind e) ->
      mixed_from st' d = false.
  Proof.
    intros W [dt [ndt [Ht [Hdt [Hgt Hpos]]]]] He Hn Hg Hd st' Hlen Hst.
    unfold mixed_from. apply existsb_all_same with (b := coind (get G g)).
    intros e' Hin. apply In_skipn_nth in Hin. destruct Hin as [i [Hi Hn']].
    destruct (Hst i e' Hn') as [e [Hne Hco]]. rewrite Hco.
    assert (Hil : i < length (stack s)) by (apply nth_error_Some; congruence).
    destruct (wf_surj _ _ W i Hil) as [di [ndi [Hni Hdi]]].
    destruct (wf_dep _ _ W di ndi i Hni Hdi) as [_ [e2 [He2 Hc2]]].
    assert (e2 = e) by congruence. subst e2. rewrite Hc2.
    (* ndi is on a cycle with g *)
    symmetry. subst g. apply same_kind.
    - eapply (wf_chain _ _ W dfn nd di ndi d i); eauto.
    - eapply path_trans; [eapply (wf_top _ _ W di ndi dt ndt); eauto|].
      subst t. eapply path_step; [exact He|apply path_refl].
  Qed.

  (** ** the pieces of [solve_goal] / [solve_new_subgoal] and their unfolding equations *)
  Definition popnode (s : state) (dfn : nat) (sub : mn) : state :=
    let s := set_graph s (upd (sgraph s) dfn (fun n => mkGnode (gn_goal n) (gn_sol n) None sub)) in
    set_stack s (removelast (stack s)).

  Definition finish_node (m : mn) (depth dfn : nat) (sub : mn) (s : state) : res (val * mn) :=
    let s := set_graph s (upd (sgraph s) dfn (fun n => mkGnode (gn_goal n) (gn_sol n) None sub)) in
    if negb (S depth =? length (stack s)) then Panic MismatchedPop s
    else
      let s := set_stack s (removelast (stack s)) in
      let m := mn_min m sub in
      match nth_error (sgraph s) dfn with
      | None => Panic BadIndex s
      | Some nd =>
        let result := gn_sol nd in
        if mn_geb sub dfn then
          if caching cf && negb (fix_f3 (vr cf) && interrupted s)
          then bind (move_to_cache s dfn) (fun _ s => Done (result, m) s)
          else Done (result, m) (rollback_to s dfn)
        else Done (result, m) s
      end.

  Definition push_node (s : state) (g : nat) : state :=
    let co := coind (get G g) in
    let s1 := set_stack s (stack s ++ [mkSentry co false]) in
    set_graph s1 (sgraph s1 ++ [mkGnode g (if co then Yes else No) (Some (length (stack s))) (Some (length (sgraph s)))]).

  Definition new_node (f : nat) (g : nat) (m : mn) (s : state) : res (val * mn) :=
    bind (tick cf s) (fun _ s =>
    bind (tick cf s) (fun _ s =>
      if overflow cf <=? length (stack s) then Panic OverflowDepth s
      else bind (solve_new_subgoal G cf f g (length (stack s)) (length (sgraph s)) (push_node s g))
                (fun sub s1 => finish_node m (length (stack s)) (length (sgraph s)) sub s1))).

  Definition found_node (dfn : nat) (m : mn) (s : state) : res (val * mn) :=
    match nth_error (sgraph s) dfn with
    | None => Panic BadIndex s
    | Some nd =>
      match gn_depth nd with
      | Some d =>
          if d <? length (stack s) then
            let s := set_stack s (upd (stack s) d (fun e => mkSentry (se_coind e) true)) in
            if mixed_from (stack s) d
            then bind (tick cf s) (fun _ s => Done (No, m) s)
            else Done (gn_sol nd, mn_min m (gn_links nd)) s
          else Panic BadIndex s
      | None => Done (gn_sol nd, mn_min m (gn_links nd)) s
      end
    end.

  Lemma solve_goal_S f g m s :
    solve_goal G cf (S f) g m s =
    let s := bump_work s in
    match (if caching cf then cache_get (cache s) g else None) with
    | Some v => Done (v, m) s
    | None => match glookup (sgraph s) g with
              | Some dfn => found_node dfn m s
              | None => new_node f g m s
              end
    end.
  Proof. reflexivity. Qed.

  Definition loop_step (f : nat) (g depth dfn : nat) (vm : val * mn) (s : state) : res mn :=
    let (v, m) := vm in
    match nth_error (stack s) depth, nth_error (sgraph s) dfn with
    | Some e, Some nd =>
      let s := set_stack s (upd (stack s) depth (fun e => mkSentry (se_coind e) false)) in
      if negb (se_cycle e) then Done m (set_sol s dfn v)
      else
        let old := gn_sol nd in
        let s := set_sol s dfn v in
        bind (tick cf s) (fun _ s =>
          if val_eqb old v then Done m s
          else if val_eqb v Amb then
            Done m (if fix_f15 (vr cf) then rollback_to s (S dfn) else s)
          else solve_new_subgoal G cf f g depth dfn (rollback_to s (S dfn)))
    | _, _ => Panic BadIndex s
    end.

  (** ** general transfer lemmas *)
  Lemma upd_nth_inv {A} (l : list A) i f j y :
    nth_error (upd l i f) j = Some y ->
    exists x, nth_error l j = Some x /\ ((j <> i /\ y = x) \/ (j = i /\ y = f x)).
  Proof.
    intros H. destruct (Nat.eq_dec j i) as [->|Hne].
    - destruct (nth_error l i) as [x|] eqn:E.
      + rewrite (upd_nth_same _ _ _ _ E) in H. exists x. split; auto. right. split; congruence.
      + assert (Hlen : length (upd l i f) <= i) by (rewrite upd_length; apply nth_error_None; auto).
        apply nth_error_None in Hlen. congruence.
    - rewrite upd_nth_other in H by auto. exists y. auto.
  Qed.

  Lemma WF_restack s s' :
    WF s -> sgraph s' = sgraph s -> length (stack s') = length (stack s) ->
    (forall i e, nth_error (stack s) i = Some e -> exists e', nth_error (stack s') i = Some e' /\ se_coind e' = se_coind e) ->
    WF s'.
  Proof.
    intros W Hg Hl Hst. pose proof (wf_dep _ _ W) as Hdep.
    destruct W. constructor; unfold nodeat in *; rewrite ?Hg, ?Hl; auto.
    intros d nd i Hn Hd. destruct (Hdep d nd i Hn Hd) as [A [e [He Hc]]]. split; auto.
    destruct (Hst i e He) as [e' [He' Hc']]. exists e'. split; auto. congruence.
  Qed.

  Lemma SI_sub_graph s s' :
    WF s -> SI s -> sub s s' -> sgraph s' = sgraph s -> cache_exact G s' -> SI s'.
  Proof.
    intros W S Hs Hg Hc. constructor; auto.
    intros th d nd Hn Ht. unfold nodeat in Hn. rewrite Hg in Hn.
    destruct (si_node _ _ S th d nd Hn) as [A B]; [eapply trusted_sub; eauto|].
    split; auto. intros Hco Hp. eapply Rel_sub; eauto. apply mn_le_refl.
  Qed.

  Definition Ctx (s : state) (t g : nat) : Prop :=
    (stack s = [] /\ sgraph s = []) \/ (topgoal s t /\ edge G t g).

  Lemma found_node_spec dfn nd g m s t :
    WF s -> SI s -> Ctx s t g -> nodeat s dfn nd -> gn_goal nd = g ->
    sg_post G t g m s (found_node dfn m s).
  Proof.
    intros W S C Hn Hg. unfold found_node. unfold nodeat in Hn. rewrite Hn.
    destruct C as [[_ C]|[T He]]; [rewrite C in Hn; destruct dfn; discriminate|].
    destruct (gn_depth nd) as [d|] eqn:Hd.
    - (* on the stack: a cycle *)
      pose proof (wf_depth_lt _ _ _ _ W Hn Hd) as Hlt.
      destruct (d <? length (stack s)) eqn:E; [|apply Nat.ltb_ge in E; lia].
      set (s1 := set_stack s (upd (stack s) d (fun e => mkSentry (se_coind e) true))).
      assert (Hst : forall i e, nth_error (stack s) i = Some e ->
                exists e', nth_error (stack s1) i = Some e' /\ se_coind e' = se_coind e /\ (se_cycle e = true -> se_cycle e' = true)).
      { intros i e Hi. simpl. destruct (Nat.eq_dec d i) as [->|Hne].
        - rewrite (upd_nth_same _ _ _ _ Hi). eexists. split; eauto.
        - rewrite upd_nth_other by auto. exists e. auto. }
      assert (Hmix : mixed_from (stack s1) d = false).
      { eapply (no_mixed_from s t g dfn nd d W T He Hn Hg Hd).
        - simpl. apply upd_length.
        - intros i e' Hi. simpl in Hi. apply upd_nth_inv in Hi. destruct Hi as [x [Hx [[_ ->]|[_ ->]]]]; exists x; auto. }
      simpl. simpl in Hmix. rewrite Hmix.
      assert (Hsub : sub s s1) by (constructor; auto).
      assert (W1 : WF s1).
      { eapply WF_restack; eauto; [simpl; apply upd_length|].
        intros i e Hi. destruct (Hst i e Hi) as [e' [A [B _]]]. eauto. }
      assert (S1 : SI s1) by (apply (SI_sub_graph s s1 W S Hsub eq_refl); exact (si_cache _ _ S)).
      destruct (wf_dep _ _ W dfn nd d Hn Hd) as [Hlinks [e [Hed Hec]]].
      split.
      + constructor; auto.
        * constructor; auto. simpl. apply upd_length.
          intros d0 nd0 H0 Hge. unfold nodeat in H0. simpl in H0.
          assert (d0 < length (sgraph s)) by (apply nth_error_Some; congruence). lia.
        * apply mn_min_le_l.
        * intros d0 nd0 H0 Hge. unfold nodeat in H0. simpl in H0.
          assert (d0 < length (sgraph s)) by (apply nth_error_Some; congruence). lia.
        * intros l Hl. rewrite Hlinks in Hl. destruct (mn_min_cases m (Some dfn)) as [E1|E1]; rewrite E1 in Hl.
          -- left; auto.
          -- inversion Hl; subst l. right; right. split; [apply nth_error_Some; congruence|].
             exists nd. split; auto. rewrite Hg. apply path_refl.
      + intros th Ht.
        destruct (si_node _ _ S1 th dfn nd Hn Ht) as [A _].
        destruct (Bool.bool_dec (coind (get G (gn_goal nd))) (tv th (gn_sol nd))) as [Eq|Ne].
        * right. split.
          -- exists dfn, nd. split; [exact Hn|]. split; [exact Hg|]. split; [reflexivity|].
             split; [congruence|]. split.
             ++ rewrite Hlinks. apply mn_min_le_r.
             ++ intros i e0 Hi He0. assert (i = d) by congruence. subst i.
                simpl in He0. rewrite (upd_nth_same _ _ _ _ Hed) in He0. inversion He0. reflexivity.
          -- destruct T as [dt [ndt [Ht1 [Ht2 [Ht3 _]]]]]. subst t g.
             eapply (wf_top _ _ W dfn nd dt ndt); eauto.
        * left. rewrite <- Hg. apply A. auto.
    - (* pending *)
      destruct (wf_pend _ _ W dfn nd Hn Hd) as [l [ndl [Hlinks [Hlt [Hnl Hpath]]]]].
      split.
      + constructor; auto.
        * apply ext_refl.
        * apply mn_min_le_l.
        * intros d0 nd0 H0 Hge. unfold nodeat in H0.
          assert (d0 < length (sgraph s)) by (apply nth_error_Some; congruence). lia.
        * intros l0 Hl. rewrite Hlinks in Hl. destruct (mn_min_cases m (Some l)) as [E1|E1]; rewrite E1 in Hl.
          -- left; auto.
          -- inversion Hl; subst l0. right; right. split; [apply nth_error_Some; unfold nodeat in Hnl; congruence|].
             exists ndl. split; auto. rewrite <- Hg. auto.
      + intros th Ht.
        destruct (si_node _ _ S th dfn nd Hn Ht) as [A _].
        destruct (Bool.bool_dec (coind (get G (gn_goal nd))) (tv th (gn_sol nd))) as [Eq|Ne].
        * right. split.
          -- exists dfn, nd. split; [exact Hn|]. split; [exact Hg|]. split; [reflexivity|].
             split; [congruence|]. split.
             ++ rewrite Hlinks. eapply mn_le_trans; [apply mn_min_le_r|]. simpl. lia.
             ++ intros i e0 Hi. congruence.
          -- destruct T as [dt [ndt [Ht1 [Ht2 [Ht3 _]]]]]. subst t g.
             eapply (wf_top _ _ W dfn nd dt ndt); eauto.
        * left. rewrite <- Hg. apply A. auto.
  Qed.

  (** ** pushing a new node *)
  Lemma nodeat_push s g d nd :
    nodeat (push_node s g) d nd ->
    (d < length (sgraph s) /\ nodeat s d nd) \/
    (d = length (sgraph s) /\
     nd = mkGnode g (if coind (get G g) then Yes else No) (Some (length (stack s))) (Some (length (sgraph s)))).
  Proof. unfold nodeat, push_node. simpl. apply nth_error_snoc_inv. Qed.

  Lemma nodeat_push_old s g d nd : nodeat s d nd -> nodeat (push_node s g) d nd.
  Proof. unfold nodeat, push_node. simpl. apply nth_error_app_l. Qed.

  Lemma nodeat_push_new s g :
    nodeat (push_node s g) (length (sgraph s))
      (mkGnode g (if coind (get G g) then Yes else No) (Some (length (stack s))) (Some (length (sgraph s)))).
  Proof. unfold nodeat, push_node. simpl. apply nth_error_snoc. Qed.

  Lemma stack_push s g : stack (push_node s g) = stack s ++ [mkSentry (coind (get G g)) false].
  Proof. reflexivity. Qed.

  Lemma nodeat_lt s d nd : nodeat s d nd -> d < length (sgraph s).
  Proof. intros H. apply nth_error_Some. unfold nodeat in H. congruence. Qed.

  Lemma WF_push s g t :
    WF s -> g < length G -> glookup (sgraph s) g = None -> Ctx s t g -> WF (push_node s g).
  Proof.
    intros W Hg Hnone C.
    assert (Hreach : forall d nd, nodeat s d nd -> path G (gn_goal nd) g).
    { intros d nd Hn. destruct C as [[_ C]|[[dt [ndt [T1 [T2 [T3 T4]]]]] He]].
      - unfold nodeat in Hn. rewrite C in Hn. destruct d; discriminate.
      - eapply path_trans; [eapply (wf_top _ _ W d nd dt ndt); eauto|].
        subst t. eapply path_step; [exact He|apply path_refl]. }
    constructor.
    - intros d nd H. destruct (nodeat_push _ _ _ _ H) as [[_ H1]|[_ ->]]; [eapply wf_goal; eauto|auto].
    - intros d d' nd nd' H H' E.
      destruct (nodeat_push _ _ _ _ H) as [[L1 H1]|[-> ->]], (nodeat_push _ _ _ _ H') as [[L2 H2]|[-> ->]]; auto.
      + eapply wf_nodup; eauto.
      + exfalso. eapply glookup_none; eauto.
      + exfalso. eapply glookup_none; eauto.
    - intros d nd i H Hd. rewrite stack_push.
      destruct (nodeat_push _ _ _ _ H) as [[L1 H1]|[-> ->]].
      + destruct (wf_dep _ _ W d nd i H1 Hd) as [A [e [He Hc]]]. split; auto.
        exists e. split; auto. apply nth_error_app_l; auto.
      + simpl in Hd. inversion Hd; subst i. split; auto. eexists. split; [apply nth_error_snoc|reflexivity].
    - intros i Hi. rewrite stack_push, app_length in Hi. simpl in Hi.
      destruct (lt_dec i (length (stack s))) as [Hlt|Hge].
      + destruct (wf_surj _ _ W i Hlt) as [d [nd [Hn Hd]]]. exists d, nd. split; auto. apply nodeat_push_old; auto.
      + assert (i = length (stack s)) by lia. subst i. eexists _, _. split; [apply nodeat_push_new|reflexivity].
    - intros d d' nd nd' i i' H H' Hd Hd'.
      destruct (nodeat_push _ _ _ _ H) as [[L1 H1]|[-> ->]], (nodeat_push _ _ _ _ H') as [[L2 H2]|[-> ->]].
      + eapply wf_mono; eauto.
      + simpl in Hd'. inversion Hd'; subst i'. pose proof (wf_depth_lt _ _ _ _ W H1 Hd). lia.
      + simpl in Hd. inversion Hd; subst i. pose proof (wf_depth_lt _ _ _ _ W H2 Hd'). lia.
      + simpl in Hd, Hd'. inversion Hd; inversion Hd'; subst. lia.
    - intros d nd H Hd. destruct (nodeat_push _ _ _ _ H) as [[L1 H1]|[-> ->]]; [|discriminate].
      destruct (wf_pend _ _ W d nd H1 Hd) as [l [ndl [A [B [C' D]]]]].
      exists l, ndl. repeat split; auto. apply nodeat_push_old; auto.
    - intros d nd dt ndt H Ht Hdt. rewrite stack_push, app_length in Hdt. simpl in Hdt.
      replace (length (stack s) + 1 - 1) with (length (stack s)) in Hdt by lia.
      assert (gn_goal ndt = g).
      { destruct (nodeat_push _ _ _ _ Ht) as [[L2 H2]|[-> ->]]; auto.
        pose proof (wf_depth_lt _ _ _ _ W H2 Hdt). lia. }
      rewrite H0. destruct (nodeat_push _ _ _ _ H) as [[L1 H1]|[-> ->]]; [eauto|apply path_refl].
    - intros d nd d' nd' i i' H H' Hd Hd' Hle.
      destruct (nodeat_push _ _ _ _ H) as [[L1 H1]|[-> ->]], (nodeat_push _ _ _ _ H') as [[L2 H2]|[-> ->]].
      + eapply wf_chain; eauto.
      + simpl. eauto.
      + simpl in Hd. inversion Hd; subst i. pose proof (wf_depth_lt _ _ _ _ W H2 Hd'). lia.
      + apply path_refl.
  Qed.

  Lemma sub_push s g : sub s (push_node s g).
  Proof.
    constructor; auto.
    - intros i e H. exists e. rewrite stack_push. split; auto. apply nth_error_app_l; auto.
    - intros d nd H. apply nodeat_push_old; auto.
  Qed.

  Lemma SI_push s g : WF s -> SI s -> SI (push_node s g).
  Proof.
    intros W S. constructor.
    - exact (si_cache _ _ S).
    - intros th d nd H Ht. destruct (nodeat_push _ _ _ _ H) as [[L1 H1]|[-> ->]].
      + destruct (si_node _ _ S th d nd H1) as [A B]; [eapply trusted_sub; [apply (sub_push s g)|auto]|].
        split; auto. intros Hc Hp. eapply Rel_sub; eauto; [apply sub_push|apply mn_le_refl].
      + simpl. split; [|discriminate]. intros Hne. exfalso. apply Hne.
        destruct (coind (get G g)); reflexivity.
  Qed.

  (** ** closing a strongly connected component *)
  Definition NewSI (s : state) (dfn : nat) : Prop :=
    forall th d nd, nodeat s d nd -> dfn <= d -> trusted th (tv th (gn_sol nd)) s ->
      (coind (get G (gn_goal nd)) <> tv th (gn_sol nd) -> Abs G th (tv th (gn_sol nd)) (gn_goal nd)) /\
      (coind (get G (gn_goal nd)) = tv th (gn_sol nd) -> gn_depth nd = None ->
         Rel th (tv th (gn_sol nd)) s (gn_links nd) (gn_goal nd)).

  Lemma closure s dfn :
    (forall d nd, nodeat s d nd -> dfn <= d -> gn_depth nd = None /\ mn_le (Some dfn) (gn_links nd)) ->
    NewSI s dfn ->
    forall th d nd, nodeat s d nd -> dfn <= d -> trusted th (tv th (gn_sol nd)) s ->
      Abs G th (tv th (gn_sol nd)) (gn_goal nd).
  Proof.
    intros Hseg HN th d nd Hn Hd Ht.
    destruct (HN th d nd Hn Hd Ht) as [A B].
    destruct (Bool.bool_dec (coind (get G (gn_goal nd))) (tv th (gn_sol nd))) as [Eq|Ne]; [|auto].
    set (b := tv th (gn_sol nd)) in *.
    set (X := fun x => exists d' nd' (Xp : nat -> Prop),
                nodeat s d' nd' /\ dfn <= d' /\ tv th (gn_sol nd') = b /\ Xp (gn_goal nd') /\
                (forall y, Xp y -> coind (get G y) = b /\
                    NJ1 G th b (fun m => Abs G th b m \/ Xp m \/ GL th b s (gn_links nd') m) y) /\ Xp x).
    assert (HX : forall x, X x -> coind (get G x) = b /\ NJ1 G th b (fun m => Abs G th b m \/ X m) x).
    { intros x [d' [nd' [Xp [Hn' [Hd' [Htv [Hg' [HXp Hx]]]]]]]].
      destruct (HXp x Hx) as [Hc HNJ]. split; auto.
      eapply NJ1_mono; [|exact HNJ]. intros z [Hz|[Hz|Hz]]; auto.
      - right. exists d', nd', Xp. repeat split; auto.
      - right. destruct Hz as [dz [ndz [Hnz [Hgz [Htz [Hcz [Hlz _]]]]]]].
        destruct (Hseg d' nd' Hn' Hd') as [_ Hl'].
        assert (Hdz : dfn <= dz).
        { destruct (gn_links nd') as [l'|]; simpl in *; [lia|tauto]. }
        destruct (Hseg dz ndz Hnz Hdz) as [Hpz _].
        assert (Htz' : trusted th (tv th (gn_sol ndz)) s) by (rewrite Htz; exact Ht).
        destruct (HN th dz ndz Hnz Hdz Htz') as [_ Bz].
        rewrite Htz in Bz. rewrite Hgz in Bz. destruct (Bz Hcz Hpz) as [Xz [Hgz' HXz]].
        exists dz, ndz, Xz. rewrite Hgz. repeat split; auto. }
    destruct (Hseg d nd Hn Hd) as [Hp _].
    destruct (B Eq Hp) as [Xp [Hg HXp]].
    apply (closed_abs G th b X HX). exists d, nd, Xp. repeat split; auto.
  Qed.

  Lemma nth_error_ext {A} (l l' : list A) : (forall i, nth_error l i = nth_error l' i) -> l = l'.
  Proof.
    revert l'. induction l as [|a l IH]; intros [|b l'] H; auto.
    - specialize (H 0). discriminate.
    - specialize (H 0). discriminate.
    - pose proof (H 0) as H0. simpl in H0. inversion H0; subst. f_equal. apply IH.
      intros i. apply (H (S i)).
  Qed.

  Lemma cache_fold_get (moved : list gnode) : forall c0 x v,
    cache_get (fold_left (fun c n => (gn_goal n, gn_sol n) :: c) moved c0) x = Some v ->
    (exists n, In n moved /\ gn_goal n = x /\ gn_sol n = v) \/ cache_get c0 x = Some v.
  Proof.
    induction moved as [|n r IH]; intros c0 x v H; simpl in H; auto.
    destruct (IH _ _ _ H) as [[n' [Hin [Hg Hs]]]|H'].
    - left. exists n'. split; [right; auto|auto].
    - simpl in H'. destruct (Nat.eqb (gn_goal n) x) eqn:E; auto.
      left. exists n. split; [left; auto|]. split; [apply Nat.eqb_eq; auto|congruence].
  Qed.

  Lemma In_skipn_nodeat s dfn n : In n (skipn dfn (sgraph s)) -> exists d, dfn <= d /\ nodeat s d n.
  Proof. intros H. apply In_skipn_nth in H. exact H. Qed.

  Lemma snsg_S f g depth dfn s :
    solve_new_subgoal G cf (S f) g depth dfn s =
    bind (solve_iteration G cf (solve_goal G cf f) g s) (loop_step f g depth dfn).
  Proof. reflexivity. Qed.
End Solve.
