(** * Engine.AndOrEval — the executable evaluator [AndOr.eval] computes the declarative
    three-valued value [AndOr.sem] (for every graph; out-of-range subgoal ids behave like
    nodes without clauses on both sides). *)

From Chalk Require Import Engine.AndOr Engine.AndOrFacts.

Lemma memb_In n l : memb n l = true <-> In n l.
Proof.
  unfold memb. rewrite existsb_exists. split.
  - intros [x [H E]]. apply Nat.eqb_eq in E. subst. auto.
  - intros H. exists n. split; auto. apply Nat.eqb_refl.
Qed.

Lemma memb_false n l : memb n l = false <-> ~ In n l.
Proof. rewrite <- memb_In. destruct (memb n l); split; congruence. Qed.

Lemma iter_fixed {A} (f : A -> A) k x : f x = x -> iter f k x = x.
Proof. intros H. induction k; simpl; auto. rewrite H. auto. Qed.

Lemma NoDup_app_disj {A} (l r : list A) :
  NoDup l -> NoDup r -> (forall x, In x l -> ~ In x r) -> NoDup (l ++ r).
Proof.
  induction l as [|a l IH]; intros Hl Hr Hd; simpl; auto.
  inversion Hl; subst. constructor.
  - intros Hin. apply in_app_or in Hin. destruct Hin as [Hin|Hin]; [contradiction|].
    apply (Hd a); [left; auto|auto].
  - apply IH; auto. intros x Hx. apply Hd. right; auto.
Qed.

Section Eval.
  Variable G : graph.
  Variable opt : bool.
  Let n0 := length G.
  Let dom := seq 0 n0.

  Notation holdsI := (holdsI G opt).
  Notation holds := (holds G opt).
  Notation stepI := (stepI G opt).
  Notation lfpI := (lfpI G opt).
  Notation stepC := (stepC G opt).
  Notation node_ok := (node_ok G opt).

  Definition small (l : list nat) : Prop := NoDup l /\ forall x, In x l -> x < n0.
  Definition allco (l : list nat) : Prop := forall x, In x l -> coind (get G x) = true.

  Lemma get_out n : n0 <= n -> get G n = dnode.
  Proof. intros H. unfold get. apply nth_overflow. exact H. Qed.

  Lemma holdsI_lt C m : holdsI C m -> m < n0.
  Proof.
    intros H. destruct (lt_dec m n0) as [Hl|Hg]; auto. exfalso.
    assert (E : get G m = dnode) by (apply get_out; lia).
    inversion H as [x Hco _|x c Hco Hin _ _]; subst; rewrite E in *; simpl in *; [discriminate|contradiction].
  Qed.

  Lemma node_ok_spec T n : node_ok T n = true <->
    exists c, In c (clauses (get G n)) /\ usable opt c = true /\ forall m, In m (fst c) -> In m T.
  Proof.
    unfold AndOr.node_ok, clause_ok. rewrite existsb_exists. split.
    - intros [c [Hc H]]. apply andb_prop in H. destruct H as [H1 H2]. rewrite forallb_forall in H2.
      exists c. repeat split; auto. intros m Hm. apply memb_In. auto.
    - intros [c [Hc [H1 H2]]]. exists c. split; auto. rewrite H1. simpl. apply forallb_forall.
      intros m Hm. apply memb_In. auto.
  Qed.

  Definition newI (T : list nat) : list nat :=
    filter (fun n => negb (memb n T) && negb (coind (get G n)) && node_ok T n) dom.

  Lemma stepI_eq T : stepI T = T ++ newI T.
  Proof. reflexivity. Qed.

  Lemma newI_spec T n : In n (newI T) <-> n < n0 /\ ~ In n T /\ coind (get G n) = false /\ node_ok T n = true.
  Proof.
    unfold newI. rewrite filter_In. unfold dom. rewrite in_seq. split.
    - intros [[_ H1] H2]. apply andb_prop in H2. destruct H2 as [H2 H3]. apply andb_prop in H2. destruct H2 as [H2 H4].
      split; [simpl in H1; lia|]. split; [apply memb_false; apply negb_true_iff; auto|].
      split; [apply negb_true_iff; auto|auto].
    - intros [H1 [H2 [H3 H4]]]. split; [lia|]. apply memb_false in H2. rewrite H2, H3, H4. reflexivity.
  Qed.

  Lemma small_step T : small T -> small (stepI T).
  Proof.
    intros [Hn Hs]. rewrite stepI_eq. split.
    - apply NoDup_app_disj; auto.
      + apply NoDup_filter. apply seq_NoDup.
      + intros x Hx Hx'. apply newI_spec in Hx'. tauto.
    - intros x Hx. apply in_app_or in Hx. destruct Hx as [Hx|Hx]; auto. apply newI_spec in Hx. tauto.
  Qed.
End Eval.
