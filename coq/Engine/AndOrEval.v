(** * Engine.AndOrEval — the executable evaluator [AndOr.eval] computes the declarative
    three-valued value [AndOr.sem] (for every graph; out-of-range subgoal ids behave like
    nodes without clauses on both sides). *)

From Chalk Require Import Engine.AndOr Engine.AndOrFacts.

Lemma memb_In n l : memb n l = true <-> In n l.
Proof.
  unfold memb. rewrite existsb_exists. split.
  - intros [x [H E]]. apply Nat.eqb_eq in E. subst. auto.
  - intros H. exists n. split; auto. apply Nat.eqb_refl.
Qed.

Lemma memb_false n l : memb n l = false <-> ~ In n l.
Proof. rewrite <- memb_In. destruct (memb n l); split; congruence. Qed.

Lemma iter_fixed {A} (f : A -> A) k x : f x = x -> iter f k x = x.
Proof. intros H. induction k; simpl; auto. rewrite H. auto. Qed.

Lemma NoDup_app_disj {A} (l r : list A) :
  NoDup l -> NoDup r -> (forall x, In x l -> ~ In x r) -> NoDup (l ++ r).
Proof.
  induction l as [|a l IH]; intros Hl Hr Hd; simpl; auto.
  inversion Hl; subst. constructor.
  - intros Hin. apply in_app_or in Hin. destruct Hin as [Hin|Hin]; [contradiction|].
    apply (Hd a); [left; auto|auto].
  - apply IH; auto. intros x Hx. apply Hd. right; auto.
Qed.

Section Eval.
  Variable G : graph.
  Variable opt : bool.
  Let n0 := length G.
  Let dom := seq 0 n0.

  Notation holdsI := (holdsI G opt).
  Notation holds := (holds G opt).
  Notation stepI := (stepI G opt).
  Notation lfpI := (lfpI G opt).
  Notation stepC := (stepC G opt).
  Notation node_ok := (node_ok G opt).

  Definition small (l : list nat) : Prop := NoDup l /\ forall x, In x l -> x < n0.
  Definition allco (l : list nat) : Prop := forall x, In x l -> coind (get G x) = true.

  Lemma get_out n : n0 <= n -> get G n = dnode.
  Proof. intros H. unfold get. apply nth_overflow. exact H. Qed.

  Lemma holdsI_lt C m : holdsI C m -> m < n0.
  Proof.
    intros H. destruct (lt_dec m n0) as [Hl|Hg]; auto. exfalso.
    assert (E : get G m = dnode) by (apply get_out; lia).
    inversion H as [x Hco _|x c Hco Hin _ _]; subst; rewrite E in *; simpl in *; [discriminate|contradiction].
  Qed.

  Lemma node_ok_spec T n : node_ok T n = true <->
    exists c, In c (clauses (get G n)) /\ usable opt c = true /\ forall m, In m (fst c) -> In m T.
  Proof.
    unfold AndOr.node_ok, clause_ok. rewrite existsb_exists. split.
    - intros [c [Hc H]]. apply andb_prop in H. destruct H as [H1 H2]. rewrite forallb_forall in H2.
      exists c. repeat split; auto. intros m Hm. apply memb_In. auto.
    - intros [c [Hc [H1 H2]]]. exists c. split; auto. rewrite H1. simpl. apply forallb_forall.
      intros m Hm. apply memb_In. auto.
  Qed.

  Definition newI (T : list nat) : list nat :=
    filter (fun n => negb (memb n T) && negb (coind (get G n)) && node_ok T n) dom.

  Lemma stepI_eq T : stepI T = T ++ newI T.
  Proof. reflexivity. Qed.

  Lemma newI_spec T n : In n (newI T) <-> n < n0 /\ ~ In n T /\ coind (get G n) = false /\ node_ok T n = true.
  Proof.
    unfold newI. rewrite filter_In. unfold dom. rewrite in_seq. split.
    - intros [[_ H1] H2]. apply andb_prop in H2. destruct H2 as [H2 H3]. apply andb_prop in H2. destruct H2 as [H2 H4].
      split; [simpl in H1; lia|]. split; [apply memb_false; apply negb_true_iff; auto|].
      split; [apply negb_true_iff; auto|auto].
    - intros [H1 [H2 [H3 H4]]]. split; [lia|]. apply memb_false in H2. rewrite H2, H3, H4. reflexivity.
  Qed.

  Lemma small_step T : small T -> small (stepI T).
  Proof.
    intros [Hn Hs]. rewrite stepI_eq. split.
    - apply NoDup_app_disj; auto.
      + apply NoDup_filter. apply seq_NoDup.
      + intros x Hx Hx'. apply newI_spec in Hx'. tauto.
    - intros x Hx. apply in_app_or in Hx. destruct Hx as [Hx|Hx]; auto. apply newI_spec in Hx. tauto.
  Qed.

  (** a small list of maximal length contains every node *)
  Lemma small_full T : small T -> n0 <= length T -> forall x, x < n0 -> In x T.
  Proof.
    intros [Hn Hs] Hl x Hx.
    assert (Hincl : incl T dom) by (intros y Hy; apply in_seq; specialize (Hs y Hy); lia).
    assert (Hlen : length dom <= length T) by (unfold dom; rewrite seq_length; exact Hl).
    apply (NoDup_length_incl Hn Hlen Hincl). apply in_seq. lia.
  Qed.

  Lemma small_length T : small T -> length T <= n0.
  Proof.
    intros [Hn Hs].
    assert (Hincl : incl T dom) by (intros y Hy; apply in_seq; specialize (Hs y Hy); lia).
    pose proof (NoDup_incl_length Hn Hincl) as H. unfold dom in H. rewrite seq_length in H. exact H.
  Qed.

  (** after enough steps the inductive closure is stable *)
  Lemma iterI_stable k : forall T, small T -> n0 <= length T + k -> stepI (iter stepI k T) = iter stepI k T.
  Proof.
    induction k as [|k IH]; intros T Hs Hk; simpl.
    - rewrite stepI_eq. replace (newI T) with (@nil nat); [apply app_nil_r|].
      symmetry. destruct (newI T) as [|x r] eqn:E; auto. exfalso.
      assert (Hx : In x (newI T)) by (rewrite E; left; auto). apply newI_spec in Hx.
      destruct Hx as [H1 [H2 _]]. apply H2. apply small_full; auto. lia.
    - destruct (newI T) as [|x r] eqn:E.
      + assert (Hfix : stepI T = T) by (rewrite stepI_eq, E; apply app_nil_r).
        rewrite Hfix. rewrite iter_fixed; auto.
      + apply IH; [apply small_step; auto|]. rewrite stepI_eq, E, app_length. simpl. lia.
  Qed.

  Lemma lfpI_stable C : small C -> stepI (lfpI C) = lfpI C.
  Proof. intros Hs. unfold AndOr.lfpI. apply iterI_stable; auto. fold n0. lia. Qed.

  Lemma iter_incl k : forall T x, In x T -> In x (iter stepI k T).
  Proof.
    induction k as [|k IH]; intros T x Hx; simpl; auto. apply IH. rewrite stepI_eq. apply in_or_app. left; auto.
  Qed.

  (** soundness and completeness of the inductive closure *)
  Lemma iterI_sound C : allco C -> forall k T, (forall x, In x T -> holdsI (fun y => In y C) x) ->
    forall x, In x (iter stepI k T) -> holdsI (fun y => In y C) x.
  Proof.
    intros Hco k. induction k as [|k IH]; intros T HT x Hx; simpl in Hx; auto.
    apply (IH (stepI T)); auto. intros y Hy. rewrite stepI_eq in Hy. apply in_app_or in Hy.
    destruct Hy as [Hy|Hy]; auto. apply newI_spec in Hy. destruct Hy as [_ [_ [Hc Hok]]].
    apply node_ok_spec in Hok. destruct Hok as [c [Hin [Hus Hsub]]]. eapply HI_in; eauto.
  Qed.

  Lemma lfpI_sound C : allco C -> forall x, In x (lfpI C) -> holdsI (fun y => In y C) x.
  Proof.
    intros Hco. apply (iterI_sound C Hco). intros x Hx. apply HI_co; auto.
  Qed.

  Lemma lfpI_complete C : small C -> forall x, holdsI (fun y => In y C) x -> In x (lfpI C).
  Proof.
    intros Hs x H. induction H as [x Hco HC | x c Hco Hin Hus Hsub IH].
    - apply iter_incl. exact HC.
    - destruct (in_dec Nat.eq_dec x (lfpI C)) as [Hi|Hn]; auto. exfalso.
      assert (Hlt : x < n0) by (eapply holdsI_lt; eapply HI_in; eauto).
      assert (Hnew : In x (newI (lfpI C))).
      { apply newI_spec. repeat split; auto. apply node_ok_spec. exists c. auto. }
      pose proof (lfpI_stable C Hs) as Hst. rewrite stepI_eq in Hst.
      assert (E : newI (lfpI C) = []).
      { destruct (newI (lfpI C)) as [|y r]; auto. exfalso.
        assert (Hl : length (lfpI C ++ y :: r) = length (lfpI C)) by (rewrite Hst; reflexivity).
        rewrite app_length in Hl. simpl in Hl. lia. }
      rewrite E in Hnew. destruct Hnew.
  Qed.

  (** ** the greatest consistent set *)
  Lemma stepC_spec C x : In x (stepC C) <-> In x C /\ node_ok (lfpI C) x = true.
  Proof. unfold AndOr.stepC. rewrite filter_In. tauto. Qed.

  Lemma small_stepC C : small C -> small (stepC C).
  Proof.
    intros [Hn Hs]. split; [apply NoDup_filter; auto|]. intros x Hx. apply stepC_spec in Hx. apply Hs. tauto.
  Qed.

  Lemma allco_stepC C : allco C -> allco (stepC C).
  Proof. intros H x Hx. apply stepC_spec in Hx. apply H. tauto. Qed.

  Lemma filter_len_le {A} (f : A -> bool) (l : list A) : length (filter f l) <= length l.
  Proof. induction l as [|a l IH]; simpl; auto. destruct (f a); simpl; lia. Qed.

  Lemma filter_length_lt {A} (f : A -> bool) (l : list A) : filter f l <> l -> length (filter f l) < length l.
  Proof.
    induction l as [|a l IH]; simpl; intros H; [congruence|].
    destruct (f a).
    - simpl. apply -> Nat.succ_lt_mono. apply IH. intros E. apply H. rewrite E. reflexivity.
    - pose proof (filter_len_le f l). lia.
  Qed.

  Lemma iterC_stable k : forall C, length C <= k -> stepC (iter stepC k C) = iter stepC k C.
  Proof.
    induction k as [|k IH]; intros C Hk; simpl.
    - destruct C; [reflexivity|simpl in Hk; lia].
    - destruct (list_eq_dec Nat.eq_dec (stepC C) C) as [E|N].
      + rewrite E. rewrite iter_fixed; auto.
      + apply IH. pose proof (filter_length_lt (fun n => node_ok (lfpI C) n) C N). unfold AndOr.stepC. lia.
  Qed.

  Lemma iterC_props k : forall C, small C -> allco C -> small (iter stepC k C) /\ allco (iter stepC k C).
  Proof.
    induction k as [|k IH]; intros C Hs Hc; simpl; auto. apply IH; [apply small_stepC|apply allco_stepC]; auto.
  Qed.

  Lemma conodes_props : small (conodes G) /\ allco (conodes G).
  Proof.
    unfold conodes. split; [split|].
    - apply NoDup_filter. apply seq_NoDup.
    - intros x Hx. apply filter_In in Hx. destruct Hx as [Hx _]. apply in_seq in Hx. fold n0 in Hx. lia.
    - intros x Hx. apply filter_In in Hx. tauto.
  Qed.

  Lemma gfpC_props : small (gfpC G opt) /\ allco (gfpC G opt) /\ stepC (gfpC G opt) = gfpC G opt.
  Proof.
    destruct conodes_props as [Hs Hc]. unfold gfpC.
    destruct (iterC_props (length G) (conodes G) Hs Hc) as [A B]. repeat split; try apply A; auto.
    apply iterC_stable. apply (small_length _ Hs).
  Qed.

  (** every node of the greatest consistent set survives every step *)
  Lemma Cmax_in_iter k : forall C, small C -> (forall x, Cmax G opt x -> In x C) ->
    forall x, Cmax G opt x -> In x (iter stepC k C).
  Proof.
    induction k as [|k IH]; intros C Hs HC x Hx; simpl; auto.
    apply IH; auto; [apply small_stepC; auto|]. intros y Hy. apply stepC_spec. split; auto.
    destruct (consistent_Cmax G opt y Hy) as [_ [c [Hin [Hus Hsub]]]].
    apply node_ok_spec. exists c. repeat split; auto. intros m Hm.
    apply lfpI_complete; auto. eapply holdsI_mono; [|apply Hsub; auto]. auto.
  Qed.

  Theorem holdsb_correct n : holdsb G opt n = true <-> holds n.
  Proof.
    destruct gfpC_props as [Hs [Hc Hst]]. unfold holdsb, true_set. rewrite memb_In. split.
    - intros H. exists (fun y => In y (gfpC G opt)). split.
      + intros x Hx. split; [apply Hc; auto|].
        rewrite <- Hst in Hx. apply stepC_spec in Hx. destruct Hx as [_ Hok].
        apply node_ok_spec in Hok. destruct Hok as [c [Hin [Hus Hsub]]].
        exists c. repeat split; auto. intros m Hm. apply lfpI_sound; auto.
      + apply lfpI_sound; auto.
    - intros H. apply holds_Cmax in H. apply lfpI_complete; auto.
      eapply holdsI_mono; [|exact H]. intros x Hx. unfold gfpC.
      destruct conodes_props as [Hs0 _]. apply Cmax_in_iter; auto.
      intros y [Hy _]. unfold conodes. apply filter_In. split; auto. apply in_seq.
      destruct (lt_dec y (length G)); [lia|]. rewrite get_out in Hy by (fold n0; lia). discriminate.
  Qed.
End Eval.

(** [eval] computes the declarative value *)
Theorem eval_correct G n : sem G n (eval G n).
Proof.
  unfold eval. destruct (holdsb G false n) eqn:Ep.
  - simpl. apply holdsb_correct; auto.
  - destruct (holdsb G true n) eqn:Eo; simpl.
    + split; [apply holdsb_correct; auto|]. intros H. apply holdsb_correct in H. congruence.
    + intros H. apply holdsb_correct in H. congruence.
Qed.
