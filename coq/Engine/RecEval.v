(** * Engine.RecEval — the clause evaluation of the propositional [solve_iteration]
    preserves the invariants, given that [solve_goal] (at the next lower fuel) does. *)

From Chalk Require Export Engine.RecInv.

Section Eval.
  Variable G : graph.
  Variable cf : config.
  Hypothesis Hwf : wf G.

  Notation WF := (WF G).
  Notation SI := (SI G).
  Notation GL := (GL G).

  Definition topgoal (s : state) (t : nat) : Prop :=
    exists dt ndt, nodeat s dt ndt /\ gn_depth ndt = Some (length (stack s) - 1) /\ gn_goal ndt = t /\
                   0 < length (stack s).

  Lemma topgoal_ext s s' t : ext s s' -> topgoal s t -> topgoal s' t.
  Proof.
    intros E [dt [ndt [H1 [H2 [H3 H4]]]]]. exists dt, ndt.
    rewrite (ext_len _ _ E). repeat split; auto. apply (ext_graph _ _ E); auto.
  Qed.

  (** a justified projected value of a subgoal [g] of the node [t] on top of the stack *)
  Definition J (th b : bool) (s : state) (l : mn) (t g : nat) : Prop :=
    Abs G th b g \/ (GL th b s l g /\ path G g t).

  Lemma J_mono th b s s' l l' t g : WF s -> ext s s' -> mn_le l' l -> J th b s l t g -> J th b s' l' t g.
  Proof.
    intros W E Hl [H|[H P]]; [left; auto|right]. split; auto. eapply GL_mono; eauto.
  Qed.

  (** [interrupted] is only raised by a [should_continue] call that answered [false] *)
  Definition int_ok (s s' : state) : Prop :=
    sci s <= sci s' /\
    (interrupted s' = true -> interrupted s = true \/ exists i, sci s <= i /\ i < sci s' /\ sc cf i = false).

  Lemma int_ok_eq s s' : sci s <= sci s' -> interrupted s' = interrupted s -> int_ok s s'.
  Proof. intros H1 H2. split; auto. rewrite H2. auto. Qed.

  Lemma int_ok_refl s : int_ok s s.
  Proof. apply int_ok_eq; auto. Qed.

  Lemma int_ok_trans s1 s2 s3 : int_ok s1 s2 -> int_ok s2 s3 -> int_ok s1 s3.
  Proof.
    intros [A1 A2] [B1 B2]. split; [lia|]. intros H.
    destruct (B2 H) as [H2|[i [I1 [I2 I3]]]].
    - destruct (A2 H2) as [H1|[i [I1 [I2 I3]]]]; auto. right. exists i. repeat split; auto; lia.
    - right. exists i. repeat split; auto; lia.
  Qed.

  (** what every step of an evaluation under the top node [t] guarantees *)
  Record frame (s s' : state) (t : nat) (m m' : mn) : Prop := {
    fr_wf : WF s';
    fr_si : SI s';
    fr_ext : ext s s';
    fr_le : mn_le m' m;
    fr_new : forall d nd, nodeat s' d nd -> length (sgraph s) <= d -> mn_le m' (gn_links nd);
    fr_path : forall l, m' = Some l -> m = Some l \/ length (sgraph s) <= l \/
                (l < length (sgraph s) /\ exists nd, nodeat s l nd /\ path G t (gn_goal nd));
    fr_int : int_ok s s';
  }.

  Lemma frame_refl s t m : WF s -> SI s -> frame s s t m m.
  Proof.
    intros W S. constructor; auto.
    - apply ext_refl.
    - apply mn_le_refl.
    - intros d nd H Hd. unfold nodeat in H.
      assert (d < length (sgraph s)) by (apply nth_error_Some; congruence). lia.
    - apply int_ok_refl.
  Qed.

  Lemma nodeat_back s s' d nd : ext s s' -> nodeat s' d nd -> d < length (sgraph s) -> nodeat s d nd.
  Proof.
    intros E H Hd. destruct (nth_error (sgraph s) d) as [nd0|] eqn:E0.
    - pose proof (ext_graph _ _ E d nd0 E0) as H1. unfold nodeat in *. congruence.
    - apply nth_error_None in E0. lia.
  Qed.

  Lemma frame_trans s1 s2 s3 t m1 m2 m3 :
    frame s1 s2 t m1 m2 -> frame s2 s3 t m2 m3 -> frame s1 s3 t m1 m3.
  Proof.
    intros A B. constructor.
    - apply (fr_wf _ _ _ _ _ B).
    - apply (fr_si _ _ _ _ _ B).
    - eapply ext_trans; [apply (fr_ext _ _ _ _ _ A)|apply (fr_ext _ _ _ _ _ B)].
    - eapply mn_le_trans; [apply (fr_le _ _ _ _ _ B)|apply (fr_le _ _ _ _ _ A)].
    - intros d nd H Hd. destruct (le_lt_dec (length (sgraph s2)) d) as [Hge|Hlt].
      + eapply (fr_new _ _ _ _ _ B); eauto.
      + eapply mn_le_trans; [apply (fr_le _ _ _ _ _ B)|].
        eapply (fr_new _ _ _ _ _ A); eauto.
        eapply nodeat_back; eauto. apply (fr_ext _ _ _ _ _ B).
    - intros l Hl. destruct (fr_path _ _ _ _ _ B l Hl) as [H|[H|[H1 [nd [H2 H3]]]]].
      + apply (fr_path _ _ _ _ _ A l H).
      + right; left. pose proof (ext_graph_len _ _ (fr_ext _ _ _ _ _ A)). lia.
      + destruct (le_lt_dec (length (sgraph s1)) l) as [Hge|Hlt].
        * right; left; auto.
        * right; right. split; auto. exists nd. split; auto.
          eapply nodeat_back; eauto. apply (fr_ext _ _ _ _ _ A).
    - eapply int_ok_trans; [apply (fr_int _ _ _ _ _ A)|apply (fr_int _ _ _ _ _ B)].
  Qed.

  (** ** specification of [solve_goal] as used by the clause evaluation *)
  Definition sg_post (t g : nat) (m : mn) (s : state) (r : res (val * mn)) : Prop :=
    match r with
    | OutOfFuel => True
    | Panic p s' => (p = Injected \/ p = OverflowDepth) /\ cache_exact G s'
    | Done (v, m') s' =>
        frame s s' g m m' /\
        forall th, trusted th (tv th v) s' -> J th (tv th v) s' m' t g
    end.

  Section WithSg.
    Variable sg : nat -> mn -> state -> res (val * mn).
    Hypothesis Hsg : forall g m s t, WF s -> SI s -> g < length G -> topgoal s t -> edge G t g ->
                                     sg_post t g m s (sg g m s).

    Lemma frame_edge s s' t g m m' : edge G t g -> frame s s' g m m' -> frame s s' t m m'.
    Proof.
      intros He F. destruct F. constructor; auto.
      intros l Hl. destruct (fr_path0 l Hl) as [H|[H|[H1 [nd [H2 H3]]]]]; auto.
      right; right. split; auto. exists nd. split; auto. eapply path_step; eauto.
    Qed.

    (** one clause *)
    Definition es_post (t : nat) (l : list nat) (amb : bool) (m : mn) (s : state) (r : res (val * mn)) : Prop :=
      match r with
      | OutOfFuel => True
      | Panic p s' => (p = Injected \/ p = OverflowDepth) /\ cache_exact G s'
      | Done (v, m') s' =>
          frame s s' t m m' /\
          (v = Yes -> amb = false) /\
          forall th, trusted th (tv th v) s' ->
            if tv th v then (amb = true -> th = true) /\ forall x, In x l -> J th true s' m' t x
            else (amb = true /\ th = false) \/ exists x, In x l /\ J th false s' m' t x
      end.

    Lemma eval_subs_spec t l : forall amb m s,
      WF s -> SI s -> topgoal s t -> (forall x, In x l -> edge G t x /\ x < length G) ->
      es_post t l amb m s (eval_subs sg l amb m s).
    Proof.
      induction l as [|x r IH]; intros amb m s W S T Hl.
      - simpl. split; [apply frame_refl; auto|]. split; [destruct amb; congruence|].
        intros th Ht. destruct amb; simpl in *.
        + destruct th; simpl; auto. split; auto. intros x [].
        + split; [discriminate|]. intros x [].
      - simpl. destruct (Hl x (or_introl eq_refl)) as [Hex Hxl].
        pose proof (Hsg x m s t W S Hxl T Hex) as Hx.
        destruct (sg x m s) as [[vx mx] s1| |]; simpl in *; auto.
        destruct Hx as [Fx Jx].
        pose proof (frame_edge _ _ _ _ _ _ Hex Fx) as Fx'.
        assert (T1 : topgoal s1 t) by (eapply topgoal_ext; eauto; apply (fr_ext _ _ _ _ _ Fx)).
        assert (Hr : forall y, In y r -> edge G t y /\ y < length G) by (intros y Hy; apply Hl; right; auto).
        destruct vx; simpl.
        + (* Yes *)
          pose proof (IH amb mx s1 (fr_wf _ _ _ _ _ Fx) (fr_si _ _ _ _ _ Fx) T1 Hr) as HI.
          destruct (eval_subs sg r amb mx s1) as [[v m'] s'| |]; simpl in *; auto.
          destruct HI as [F2 [Hy HI]]. split; [eapply frame_trans; eauto|]. split; auto.
          intros th Ht. specialize (HI th Ht).
          destruct (tv th v) eqn:Etv.
          * destruct HI as [Ha Hall]. split; auto. intros y [<-|Hy']; [|auto].
            eapply J_mono; [apply (fr_wf _ _ _ _ _ Fx)|apply (fr_ext _ _ _ _ _ F2)|apply (fr_le _ _ _ _ _ F2)|].
            apply (Jx th). eapply trusted_ext; [apply (fr_ext _ _ _ _ _ F2)|]. simpl. exact Ht.
          * destruct HI as [HI|[y [Hy' HJ]]]; [left; auto|right]. exists y. split; [right; auto|auto].
        + (* No *)
          split; auto. split; [discriminate|].
          intros th Ht. simpl. right. exists x. split; [left; auto|]. apply (Jx th). exact Ht.
        + (* Amb *)
          pose proof (IH true mx s1 (fr_wf _ _ _ _ _ Fx) (fr_si _ _ _ _ _ Fx) T1 Hr) as HI.
          destruct (eval_subs sg r true mx s1) as [[v m'] s'| |]; simpl in *; auto.
          destruct HI as [F2 [Hy HI]]. split; [eapply frame_trans; eauto|].
          split; [intros Hv; specialize (Hy Hv); discriminate|].
          intros th Ht. specialize (HI th Ht).
          assert (Jx' : trusted th (tv th Amb) s' -> J th (tv th Amb) s' m' t x).
          { intros Ht'. eapply J_mono; [apply (fr_wf _ _ _ _ _ Fx)|apply (fr_ext _ _ _ _ _ F2)|apply (fr_le _ _ _ _ _ F2)|].
            apply (Jx th). eapply trusted_ext; [apply (fr_ext _ _ _ _ _ F2)|]. exact Ht'. }
          destruct (tv th v) eqn:Etv.
          * destruct HI as [Ha Hall]. specialize (Ha eq_refl). subst th.
            split; auto. intros y [<-|Hy']; [|auto]. apply Jx'. exact Ht.
          * destruct HI as [[_ Hth]|[y [Hy' HJ]]].
            -- subst th. right. exists x. split; [left; auto|]. apply Jx'. exact Ht.
            -- right. exists y. split; [right; auto|auto].
    Qed.

    (** all clauses of a node *)
    Definition CLt th s m t (c : clause) : Prop := usable th c = true /\ forall x, In x (fst c) -> J th true s m t x.
    Definition CLf th s m t (c : clause) : Prop := usable th c = false \/ exists x, In x (fst c) /\ J th false s m t x.

    Definition acc_ok (t : nat) (done : list clause) (cur : option val) (m : mn) (s : state) : Prop :=
      match cur with
      | None => forall th c, In c done -> trusted th false s -> CLf th s m t c
      | Some Amb => (forall c, In c done -> trusted false false s -> CLf false s m t c) /\
                    (trusted true true s -> exists c, In c done /\ CLt true s m t c)
      | Some _ => False
      end.

    Definition ec_post (t : nat) (all : list clause) (m : mn) (s : state) (r : res (val * mn)) : Prop :=
      match r with
      | OutOfFuel => True
      | Panic p s' => (p = Injected \/ p = OverflowDepth) /\ cache_exact G s'
      | Done (v, m') s' =>
          frame s s' t m m' /\
          forall th, trusted th (tv th v) s' ->
            if tv th v then exists c, In c all /\ CLt th s' m' t c
            else forall c, In c all -> CLf th s' m' t c
      end.

    Lemma CLt_mono th s s' m m' t c : WF s -> ext s s' -> mn_le m' m -> CLt th s m t c -> CLt th s' m' t c.
    Proof. intros W E L [H1 H2]. split; auto. intros x Hx. eapply J_mono; eauto. Qed.

    Lemma CLf_mono th s s' m m' t c : WF s -> ext s s' -> mn_le m' m -> CLf th s m t c -> CLf th s' m' t c.
    Proof.
      intros W E L [H|[x [Hx HJ]]]; [left; auto|right]. exists x. split; auto. eapply J_mono; eauto.
    Qed.

    Lemma usable_false_inv th c : usable th c = false -> snd c = true /\ th = false.
    Proof. unfold usable. destruct th, (snd c); simpl; intros; try discriminate; auto. Qed.

    Lemma eval_clauses_spec t cs : forall done cur m s,
      WF s -> SI s -> topgoal s t ->
      (forall c x, In c cs -> In x (fst c) -> edge G t x /\ x < length G) ->
      acc_ok t done cur m s ->
      ec_post t (done ++ cs) m s (eval_clauses sg cs cur m s).
    Proof.
      induction cs as [|c r IH]; intros done cur m s W S T Hcs Hacc.
      - simpl. rewrite app_nil_r. split; [apply frame_refl; auto|].
        intros th Ht. destruct cur as [[| |]|]; simpl in *; try tauto.
        + destruct Hacc as [Hf Htr]. destruct th; simpl in *; auto.
        + intros c Hc. apply Hacc; auto.
      - simpl.
        assert (Hc : forall x, In x (fst c) -> edge G t x /\ x < length G) by (intros x Hx; eapply Hcs; eauto; left; auto).
        pose proof (eval_subs_spec t (fst c) (snd c) m s W S T Hc) as Hs.
        destruct (eval_subs sg (fst c) (snd c) m s) as [[vc mc] s1| |]; simpl in *; auto.
        destruct Hs as [F1 [Hy Hcl]].
        assert (T1 : topgoal s1 t) by (eapply topgoal_ext; eauto; apply (fr_ext _ _ _ _ _ F1)).
        assert (Hr : forall c' x, In c' r -> In x (fst c') -> edge G t x /\ x < length G)
          by (intros c' x H1 H2; eapply Hcs; eauto; right; auto).
        (* the claims about this clause *)
        assert (Hct : forall th, tv th vc = true -> trusted th true s1 -> CLt th s1 mc t c).
        { intros th Htv Ht. specialize (Hcl th). rewrite Htv in Hcl. destruct (Hcl Ht) as [Ha Hall].
          split; auto. unfold usable. destruct (snd c); [rewrite (Ha eq_refl); reflexivity | apply orb_true_r]. }
        assert (Hcf : forall th, tv th vc = false -> trusted th false s1 -> CLf th s1 mc t c).
        { intros th Htv Ht. specialize (Hcl th). rewrite Htv in Hcl. destruct (Hcl Ht) as [[Ha Hth]|Hex].
          - left. unfold usable. rewrite Ha, Hth. reflexivity.
          - right. auto. }
        destruct vc; simpl.
        + (* Yes: the loop ends *)
          split; auto. intros th Ht. simpl. exists c. split; [apply in_or_app; right; left; auto|].
          apply Hct; auto.
        + (* No: cur unchanged *)
          assert (Hacc' : acc_ok t (done ++ [c]) cur mc s1).
          { destruct cur as [[| |]|]; simpl in *; try tauto.
            - destruct Hacc as [Hf Htr]. split.
              + intros c' Hc' Ht. apply in_app_or in Hc'. destruct Hc' as [Hc'|[<-|[]]].
                * eapply CLf_mono; [exact W|apply (fr_ext _ _ _ _ _ F1)|apply (fr_le _ _ _ _ _ F1)|].
                  apply Hf; auto. eapply trusted_ext; [apply (fr_ext _ _ _ _ _ F1)|]; auto.
                * apply Hcf; auto.
              + intros Ht. destruct Htr as [c' [Hc' HC]].
                { eapply trusted_ext; [apply (fr_ext _ _ _ _ _ F1)|]; auto. }
                exists c'. split; [apply in_or_app; left; auto|].
                eapply CLt_mono; [exact W|apply (fr_ext _ _ _ _ _ F1)|apply (fr_le _ _ _ _ _ F1)|]; auto.
            - intros th c' Hc' Ht. apply in_app_or in Hc'. destruct Hc' as [Hc'|[<-|[]]].
              + eapply CLf_mono; [exact W|apply (fr_ext _ _ _ _ _ F1)|apply (fr_le _ _ _ _ _ F1)|].
                apply Hacc; auto. eapply trusted_ext; [apply (fr_ext _ _ _ _ _ F1)|]; auto.
              + apply Hcf; auto. }
          pose proof (IH (done ++ [c]) cur mc s1 (fr_wf _ _ _ _ _ F1) (fr_si _ _ _ _ _ F1) T1 Hr Hacc') as HI.
          destruct cur as [[| |]|]; simpl in Hacc; try tauto; simpl;
            (destruct (eval_clauses sg r _ mc s1) as [[v m'] s'| |]; simpl in *; auto;
             destruct HI as [F2 HI]; split; [eapply frame_trans; eauto|];
             rewrite <- app_assoc in HI; simpl in HI; exact HI).
        + (* Amb: cur becomes Some Amb *)
          assert (Hacc' : acc_ok t (done ++ [c]) (Some Amb) mc s1).
          { simpl. split.
            - intros c' Hc' Ht. apply in_app_or in Hc'. destruct Hc' as [Hc'|[<-|[]]].
              + eapply CLf_mono; [exact W|apply (fr_ext _ _ _ _ _ F1)|apply (fr_le _ _ _ _ _ F1)|].
                assert (Ht0 : trusted false false s) by (eapply trusted_ext; [apply (fr_ext _ _ _ _ _ F1)|]; auto).
                destruct cur as [[| |]|]; simpl in Hacc; try tauto.
                * apply (proj1 Hacc); auto.
                * apply Hacc; auto.
              + apply Hcf; auto.
            - intros Ht. exists c. split; [apply in_or_app; right; left; auto|]. apply Hct; auto. }
          pose proof (IH (done ++ [c]) (Some Amb) mc s1 (fr_wf _ _ _ _ _ F1) (fr_si _ _ _ _ _ F1) T1 Hr Hacc') as HI.
          destruct cur as [[| |]|]; simpl in Hacc; try tauto; simpl;
            (destruct (eval_clauses sg r (Some Amb) mc s1) as [[v m'] s'| |]; simpl in *; auto;
             destruct HI as [F2 HI]; split; [eapply frame_trans; eauto|];
             rewrite <- app_assoc in HI; simpl in HI; exact HI).
    Qed.
  End WithSg.
End Eval.
