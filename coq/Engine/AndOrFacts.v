(** * Engine.AndOrFacts — lemmas about the declarative meaning of and-or graphs:
    the greatest consistent set, one-step introduction/inversion, coinduction for sets of
    coinductive nodes, the unfounded-set principle for sets of inductive nodes, uniqueness of
    the three-valued value. *)

From Chalk Require Import Engine.AndOr.

Section Facts.
  Variable G : graph.
  Variable opt : bool.

  Notation holdsI := (holdsI G opt).
  Notation consistent := (consistent G opt).
  Notation holds := (holds G opt).

  Lemma holdsI_mono (C C' : nat -> Prop) n :
    (forall x, C x -> C' x) -> holdsI C n -> holdsI C' n.
  Proof.
    intros HC H. induction H as [n Hco HCn | n c Hco Hin Hus Hsub IH].
    - apply HI_co; auto.
    - eapply HI_in; eauto.
  Qed.

  (** the greatest consistent set *)
  Definition Cmax (x : nat) : Prop := coind (get G x) = true /\ holds x.

  Lemma consistent_sub_Cmax C x : consistent C -> C x -> Cmax x.
  Proof.
    intros HC Hx. split.
    - apply (HC x Hx).
    - exists C. split; auto. apply HI_co; auto. apply (HC x Hx).
  Qed.

  Lemma holds_Cmax n : holds n -> holdsI Cmax n.
  Proof.
    intros [C [HC H]]. eapply holdsI_mono; [|exact H].
    intros x Hx. eapply consistent_sub_Cmax; eauto.
  Qed.

  Lemma consistent_Cmax : consistent Cmax.
  Proof.
    intros x [Hco [C [HC H]]]. split; auto.
    inversion H as [n Hco' HCx | n c Hco' Hin Hus Hsub]; subst.
    - destruct (HC x HCx) as [_ [c [Hin [Hus Hsub]]]].
      exists c. repeat split; auto. intros m Hm. eapply holdsI_mono; [|apply Hsub; auto].
      intros y Hy. eapply consistent_sub_Cmax; eauto.
    - congruence.
  Qed.

  Lemma Cmax_holds n : holdsI Cmax n -> holds n.
  Proof. intros H. exists Cmax. split; auto. apply consistent_Cmax. Qed.

  (** one-step introduction (any kind of node) *)
  Lemma holds_step n c :
    In c (clauses (get G n)) -> usable opt c = true -> (forall m, In m (fst c) -> holds m) -> holds n.
  Proof.
    intros Hin Hus Hsub.
    destruct (coind (get G n)) eqn:Hco.
    - set (C := fun x => Cmax x \/ x = n).
      assert (Hmono : forall m, holdsI Cmax m -> holdsI C m).
      { intros m Hm. eapply holdsI_mono; [|exact Hm]. intros x Hx. left; auto. }
      exists C. split.
      + intros x [Hx | ->].
        * destruct (consistent_Cmax x Hx) as [Hc [c' [Hin' [Hus' Hsub']]]].
          split; auto. exists c'. repeat split; auto.
        * split; auto. exists c. repeat split; auto. intros m Hm. apply Hmono, holds_Cmax; auto.
      + apply HI_co; auto. right; auto.
    - apply Cmax_holds. eapply HI_in; eauto. intros m Hm. apply holds_Cmax; auto.
  Qed.

  (** one-step inversion *)
  Lemma holds_inv n :
    holds n -> exists c, In c (clauses (get G n)) /\ usable opt c = true /\ forall m, In m (fst c) -> holds m.
  Proof.
    intros H. apply holds_Cmax in H.
    inversion H as [n' Hco HC | n' c Hco Hin Hus Hsub]; subst.
    - destruct (consistent_Cmax n HC) as [_ [c [Hin [Hus Hsub]]]].
      exists c. repeat split; auto. intros m Hm. apply Cmax_holds; auto.
    - exists c. repeat split; auto. intros m Hm. apply Cmax_holds; auto.
  Qed.

  (** coinduction: a set of coinductive nodes each of which has a usable clause whose
      subgoals hold or are in the set *)
  Lemma coinduction_rel (X : nat -> Prop) :
    (forall x, X x -> coind (get G x) = true /\
       exists c, In c (clauses (get G x)) /\ usable opt c = true /\ forall m, In m (fst c) -> holds m \/ X m) ->
    forall x, X x -> holds x.
  Proof.
    intros HX x Hx.
    set (C := fun y => Cmax y \/ X y).
    assert (Hmono : forall m, holdsI Cmax m -> holdsI C m).
    { intros m Hm. eapply holdsI_mono; [|exact Hm]. intros y Hy. left; auto. }
    exists C. split.
    - intros y [Hy | Hy].
      + destruct (consistent_Cmax y Hy) as [Hc [c' [Hin' [Hus' Hsub']]]].
        split; auto. exists c'. repeat split; auto.
      + destruct (HX y Hy) as [Hco [c [Hin [Hus Hsub]]]].
        split; auto. exists c. repeat split; auto. intros m Hm.
        destruct (Hsub m Hm) as [Hh | Hxm].
        * apply Hmono, holds_Cmax; auto.
        * apply HI_co; [apply (HX m Hxm) | right; auto].
    - apply HI_co; [apply (HX x Hx) | right; auto].
  Qed.

  (** unfounded sets: a set of inductive nodes each usable clause of which contains a
      subgoal that does not hold or is in the set *)
  Lemma unfounded_rel (X : nat -> Prop) :
    (forall x, X x -> coind (get G x) = false /\
       forall c, In c (clauses (get G x)) -> usable opt c = true -> exists m, In m (fst c) /\ (~ holds m \/ X m)) ->
    forall x, X x -> ~ holds x.
  Proof.
    intros HX x Hx Hh. apply holds_Cmax in Hh. revert Hx.
    induction Hh as [n Hco HC | n c Hco Hin Hus Hsub IH]; intros Hx.
    - destruct (HX n Hx) as [Hco' _]. congruence.
    - destruct (HX n Hx) as [_ Hcl]. destruct (Hcl c Hin Hus) as [m [Hm [Hn | Hxm]]].
      + apply Hn. apply Cmax_holds. auto.
      + eapply IH; eauto.
  Qed.
End Facts.

(** the optimistic reading is weaker *)
Lemma usable_mono c : usable false c = true -> usable true c = true.
Proof. unfold usable. intros _. reflexivity. Qed.

Lemma holdsI_opt G C n : holdsI G false C n -> holdsI G true C n.
Proof.
  intros H. induction H as [n Hco HC | n c Hco Hin Hus Hsub IH].
  - apply HI_co; auto.
  - eapply HI_in; eauto.
Qed.

Lemma holds_opt G n : holds G false n -> holds G true n.
Proof.
  intros [C [HC H]]. exists C. split.
  - intros x Hx. destruct (HC x Hx) as [Hco [c [Hin [Hus Hsub]]]]. split; auto.
    exists c. repeat split; auto. intros m Hm. apply holdsI_opt; auto.
  - apply holdsI_opt; auto.
Qed.

(** on two-valued graphs both readings coincide *)
Lemma usable_two_valued G n c o :
  two_valued G -> In c (clauses (get G n)) -> usable o c = true.
Proof. intros H Hin. unfold usable. rewrite (H n c Hin). destruct o; reflexivity. Qed.

Lemma holdsI_two_valued G C n : two_valued G -> holdsI G true C n -> holdsI G false C n.
Proof.
  intros H2 H. induction H as [n Hco HC | n c Hco Hin Hus Hsub IH].
  - apply HI_co; auto.
  - eapply HI_in; eauto. eapply usable_two_valued; eauto.
Qed.

Lemma holds_two_valued G n : two_valued G -> holds G true n -> holds G false n.
Proof.
  intros H2 [C [HC H]]. exists C. split.
  - intros x Hx. destruct (HC x Hx) as [Hco [c [Hin [Hus Hsub]]]]. split; auto.
    exists c. repeat split; auto.
    + eapply usable_two_valued; eauto.
    + intros m Hm. apply holdsI_two_valued; auto.
  - apply holdsI_two_valued; auto.
Qed.

(** the three-valued value is unique; on two-valued graphs it is never [Amb] *)
Lemma sem_fun G n v v' : sem G n v -> sem G n v' -> v = v'.
Proof.
  destruct v, v'; simpl; intros H H'; try reflexivity; exfalso;
    repeat match goal with H : _ /\ _ |- _ => destruct H end;
    try (match goal with H : holds G false n |- _ => pose proof (holds_opt G n H) end); tauto.
Qed.

Lemma sem_two_valued G n : two_valued G -> ~ sem G n Amb.
Proof. intros H2 [H1 H0]. apply H0. apply holds_two_valued; auto. Qed.

(** projection of a three-valued value and the corresponding absolute claim *)
Definition tv (th : bool) (v : val) : bool := match v with Yes => true | No => false | Amb => th end.
Definition Abs (G : graph) (th b : bool) (g : nat) : Prop := if b then holds G th g else ~ holds G th g.

Lemma sem_of_abs G g v : (forall th, Abs G th (tv th v) g) -> sem G g v.
Proof.
  intros H. pose proof (H true) as Ht. pose proof (H false) as Hf.
  destruct v; simpl in *; auto.
Qed.

Lemma abs_of_sem G g v th : sem G g v -> Abs G th (tv th v) g.
Proof.
  destruct v, th; simpl; intros H; auto.
  - apply holds_opt; auto.
  - intros Hh. apply H. apply holds_opt; auto.
  - tauto.
  - tauto.
Qed.
