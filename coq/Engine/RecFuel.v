(** * Engine.RecFuel — fuel: more fuel never changes a result; the explicit fuel bound
    (statement) and what is proved of it. *)

From Chalk Require Export Engine.RecTheorems.

Section Fuel.
  Variable G : graph.
  Variable cf : config.

  Definition ext_res {A} (r r' : res A) : Prop := r <> OutOfFuel -> r' = r.

  Lemma bind_ext {A B} (r r' : res A) (k k' : A -> state -> res B) :
    ext_res r r' -> (forall a s, ext_res (k a s) (k' a s)) -> ext_res (bind r k) (bind r' k').
  Proof.
    intros Hr Hk Hne. destruct r as [a s|p s|]; simpl in *.
    - rewrite (Hr ltac:(discriminate)). simpl. apply Hk. exact Hne.
    - rewrite (Hr ltac:(discriminate)). reflexivity.
    - congruence.
  Qed.

  Lemma ext_res_refl {A} (r : res A) : ext_res r r.
  Proof. intros _. reflexivity. Qed.

  Definition ext_sg (sg sg' : nat -> mn -> state -> res (val * mn)) : Prop :=
    forall g m s, ext_res (sg g m s) (sg' g m s).

  Lemma eval_subs_ext sg sg' : ext_sg sg sg' ->
    forall l amb m s, ext_res (eval_subs sg l amb m s) (eval_subs sg' l amb m s).
  Proof.
    intros H l. induction l as [|x r IH]; intros amb m s; simpl; [apply ext_res_refl|].
    apply bind_ext; [apply H|]. intros [v m'] s'. simpl. destruct v; auto. apply ext_res_refl.
  Qed.

  Lemma eval_clauses_ext sg sg' : ext_sg sg sg' ->
    forall cs cur m s, ext_res (eval_clauses sg cs cur m s) (eval_clauses sg' cs cur m s).
  Proof.
    intros H cs. induction cs as [|c r IH]; intros cur m s; simpl; [apply ext_res_refl|].
    apply bind_ext; [apply eval_subs_ext; auto|]. intros [v m'] s'. simpl.
    destruct (combine cur v) as [[| |]|]; auto; apply ext_res_refl.
  Qed.

  Lemma solve_iteration_ext sg sg' : ext_sg sg sg' ->
    forall g s, ext_res (solve_iteration G cf sg g s) (solve_iteration G cf sg' g s).
  Proof.
    intros H g s. unfold solve_iteration. apply bind_ext; [apply ext_res_refl|].
    intros _ s1. destruct (ask_continue cf s1) as [c s2]. destruct (negb c); [apply ext_res_refl|].
    apply eval_clauses_ext; auto.
  Qed.

  Lemma fuel_step f :
    ext_sg (solve_goal G cf f) (solve_goal G cf (S f)) /\
    (forall g depth dfn s, ext_res (solve_new_subgoal G cf f g depth dfn s) (solve_new_subgoal G cf (S f) g depth dfn s)).
  Proof.
    induction f as [|f [IHg IHl]].
    - split; [intros g m s Hne | intros g d1 d2 s Hne]; exfalso; apply Hne; reflexivity.
    - split.
      + intros g m s. rewrite (solve_goal_S G cf (S f)), (solve_goal_S G cf f). cbv zeta.
        destruct (if caching cf then cache_get (cache (bump_work s)) g else None); [apply ext_res_refl|].
        destruct (glookup (sgraph (bump_work s)) g); [apply ext_res_refl|].
        unfold new_node. apply bind_ext; [apply ext_res_refl|]. intros _ s1.
        apply bind_ext; [apply ext_res_refl|]. intros _ s2.
        destruct (overflow cf <=? length (stack s2)); [apply ext_res_refl|].
        apply bind_ext; [apply IHl|]. intros sub s3. apply ext_res_refl.
      + intros g depth dfn s. rewrite (snsg_S G cf (S f)), (snsg_S G cf f).
        apply bind_ext; [apply solve_iteration_ext; exact IHg|].
        intros [v m] sa. unfold loop_step.
        destruct (nth_error (stack sa) depth); [|apply ext_res_refl].
        destruct (nth_error (sgraph sa) dfn); [|apply ext_res_refl].
        destruct (negb (se_cycle s0)); [apply ext_res_refl|].
        apply bind_ext; [apply ext_res_refl|]. intros _ s1.
        destruct (val_eqb (gn_sol g0) v); [apply ext_res_refl|].
        destruct (val_eqb v Amb); [apply ext_res_refl|]. apply IHl.
  Qed.

  Lemma solve_root_step f g s : ext_res (solve_root G cf f g s) (solve_root G cf (S f) g s).
  Proof.
    unfold solve_root. apply bind_ext; [apply ext_res_refl|]. intros _ s1.
    apply bind_ext; [apply (proj1 (fuel_step f))|]. intros vm s2. apply ext_res_refl.
  Qed.

  (** [rec_fuel_mono]: once a root solve has a result, every larger fuel gives the same one *)
  Lemma rec_fuel_mono_lemma f f' g s : f <= f' -> solve_root G cf f g s <> OutOfFuel ->
    solve_root G cf f' g s = solve_root G cf f g s.
  Proof.
    induction 1 as [|f' Hle IH]; intros Hne; [reflexivity|].
    rewrite <- (IH Hne). apply solve_root_step. rewrite (IH Hne). exact Hne.
  Qed.
End Fuel.

(** the explicit bound: 4 units of fuel per level of the stack (one for [solve_goal], at most
    three iterations of the fixed-point loop: the value of a node changes at most twice along
    [No < Amb < Yes] resp. [Yes > Amb > No]), and the stack is never deeper than the overflow
    depth or the number of goals *)
Definition fuel_bound (G : graph) (cf : config) : nat := 4 * (Nat.min (overflow cf) (length G) + 1) + 1.

(** the full statement of the fuel bound (C09, engine part) *)
Definition rec_fuel_bound_statement : Prop :=
  forall G cf g s, wf G -> ~ mixed_cycle G -> vr cf = repaired -> g < length G -> cache_exact G s ->
    solve_root G cf (fuel_bound G cf) g s <> OutOfFuel.
