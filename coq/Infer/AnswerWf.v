(** * Infer.AnswerWf — the answers constructed by the two engines are well-formed (C28).

    Part 1 ([slg_answer_wf]): [merge_into_guidance] (model [Agg.AntiUnify.merge], tied to the
    code by C17's correspondence) maps a well-formed guidance and a further answer of the same
    query to a well-formed guidance: every variable of the aggregate is fresh, bound by the
    aggregate itself and created in the universe of the query unknown whose entry it occurs in;
    retained placeholders come from the old guidance.  Hence the whole [make_solution] loop
    ([merge_all]) preserves [wf_answer].

    Part 2 ([rec_answer_wf]): [Fulfill::solve] canonicalizes the query's own substitution
    (the fresh variables [from_canonical] created for the query binders) through the final
    inference table.  Under the universe invariant of unification — the resolved binding of a
    query variable mentions only variables and placeholders of universes that variable can see
    (C14's [relate_sound] universe clause, hypothesis [relate_sound_universes]) — the result
    satisfies [wf_answer], including the per-unknown universe conjunct. *)

From Coq Require Import PeanoNat.
From Chalk Require Import Ir.Syntax Ir.Fold Infer.Canon Infer.UCanon Infer.Answer Agg.Instance Agg.AntiUnify.

(** ** Part 1: aggregation *)

(** [g], produced while aggregating the entry of a query unknown of universe [u], is scoped by
    the aggregate's binders [st] *)
Definition scoped (st : binders) (u n : N) (g : tm) : Prop :=
  closed_f (map fst st) 0 g = true /\ univ_le (map snd st) u 0 g = true /\ ph_below n g = true.

Lemma nth_error_app_some {A} (l e : list A) i x : nth_error l i = Some x -> nth_error (l ++ e) i = Some x.
Proof. intros H. rewrite nth_error_app1; [assumption |]. apply nth_error_Some. congruence. Qed.

Lemma closed_f_app : forall t ks e k, closed_f ks k t = true -> closed_f (ks ++ e) k t = true.
Proof.
  induction t as [s d i | d i c _ | h cs IH] using tm_ind'; intros ks e k H; cbn [closed_f] in *.
  - destruct (d <? k); [reflexivity |]. destruct (d =? k); [| discriminate].
    destruct (nth_error ks (N.to_nat i)) as [vk |] eqn:E; [| discriminate]. rewrite (nth_error_app_some _ e _ _ E). assumption.
  - destruct (d <? k); [reflexivity |]. destruct (d =? k); [| discriminate].
    destruct (nth_error ks (N.to_nat i)) as [vk |] eqn:E; [| discriminate]. rewrite (nth_error_app_some _ e _ _ E). assumption.
  - rewrite forallb_forall in *. intros x Hx. rewrite Forall_forall in IH. apply IH; [assumption | apply H; assumption].
Qed.

Lemma univ_le_app : forall t us e lim k, univ_le us lim k t = true -> univ_le (us ++ e) lim k t = true.
Proof.
  induction t as [s d i | d i c _ | h cs IH] using tm_ind'; intros us e lim k H; cbn [univ_le] in *.
  - destruct (d =? k); [| reflexivity].
    destruct (nth_error us (N.to_nat i)) as [u |] eqn:E; [| discriminate]. rewrite (nth_error_app_some _ e _ _ E). assumption.
  - destruct (d =? k); [| reflexivity].
    destruct (nth_error us (N.to_nat i)) as [u |] eqn:E; [| discriminate]. rewrite (nth_error_app_some _ e _ _ E). assumption.
  - apply andb_true_iff in H. destruct H as [H1 H2]. rewrite H1. cbn [andb].
    rewrite forallb_forall in *. intros x Hx. rewrite Forall_forall in IH. apply IH; [assumption | apply H2; assumption].
Qed.

Lemma scoped_app st e u n g : scoped st u n g -> scoped (st ++ e) u n g.
Proof.
  intros (H1 & H2 & H3). unfold scoped. rewrite !map_app. repeat split; [apply closed_f_app | apply univ_le_app |]; assumption.
Qed.

Lemma nth_error_snoc_map {A B} (f : A -> B) (st : list A) x :
  nth_error (map f (st ++ [x])) (N.to_nat (N.of_nat (length st))) = Some (f x).
Proof.
  rewrite Nat2N.id, map_app. rewrite nth_error_app2 by (rewrite map_length; lia).
  rewrite map_length, Nat.sub_diag. reflexivity.
Qed.

(** what an aggregation step does to the binders: it appends variables of universe [u] *)
Definition extends_in (u : N) (st st' : binders) : Prop :=
  exists e, st' = st ++ e /\ Forall (fun b => snd b = u) e.

Lemma extends_refl u st : extends_in u st st.
Proof. exists []. rewrite app_nil_r. split; [reflexivity | constructor]. Qed.

Lemma extends_trans u a b c : extends_in u a b -> extends_in u b c -> extends_in u a c.
Proof.
  intros (e1 & -> & F1) (e2 & -> & F2). exists (e1 ++ e2). rewrite app_assoc. split; [reflexivity |].
  apply Forall_app. split; assumption.
Qed.

Lemma fresh_ty_scoped u n st : extends_in u st (snd (fresh_ty u st)) /\ scoped (snd (fresh_ty u st)) u n (fst (fresh_ty u st)).
Proof.
  cbn [fresh_ty fst snd]. split; [exists [(VTy General, u)]; split; [reflexivity | repeat constructor] |].
  unfold scoped. cbn [closed_f univ_le ph_below]. rewrite !nth_error_snoc_map. cbn [fst snd vk_kind sort_kind kind_eqb].
  rewrite N.leb_refl. repeat split.
Qed.

Lemma fresh_lt_scoped u n st : extends_in u st (snd (fresh_lt u st)) /\ scoped (snd (fresh_lt u st)) u n (fst (fresh_lt u st)).
Proof.
  cbn [fresh_lt fst snd]. split; [exists [(VLt, u)]; split; [reflexivity | repeat constructor] |].
  unfold scoped. cbn [closed_f univ_le ph_below]. rewrite !nth_error_snoc_map. cbn [fst snd vk_kind sort_kind kind_eqb].
  rewrite N.leb_refl. repeat split.
Qed.

Lemma fresh_const_scoped u n st : extends_in u st (snd (fresh_const u usize_ty st)) /\ scoped (snd (fresh_const u usize_ty st)) u n (fst (fresh_const u usize_ty st)).
Proof.
  cbn [fresh_const fst snd]. split; [exists [(VConst, u)]; split; [reflexivity | repeat constructor] |].
  unfold scoped. cbn [closed_f univ_le ph_below]. rewrite !nth_error_snoc_map. cbn [fst snd vk_kind kind_eqb].
  rewrite N.leb_refl. repeat split.
Qed.

(** the part of the inputs that can be retained: placeholders (and const types) *)
Definition retained_ok (usa : list N) (u n : N) (a : tm) : Prop :=
  ctys_ok a /\ univ_le usa u 0 a = true /\ ph_below n a = true.

Lemma au_lt_scoped usa u n a b st : retained_ok usa u n a ->
  extends_in u st (snd (au_lt u a b st)) /\ scoped (snd (au_lt u a b st)) u n (fst (au_lt u a b st)).
Proof.
  intros (Wa & Ua & Pa). unfold au_lt.
  destruct a as [| | ha [| ? ?]]; try apply fresh_lt_scoped. destruct b as [| | hb [| ? ?]]; try apply fresh_lt_scoped.
  destruct (head_eqb ha hb); [| apply fresh_lt_scoped]. cbn [fst snd]. split; [apply extends_refl |].
  unfold scoped. cbn [closed_f univ_le ph_below forallb] in *. repeat split; assumption.
Qed.

Lemma const_ty_usize a : kind_of a = KConst -> ctys_ok a -> const_ty a = usize_ty.
Proof.
  intros Ka Wa. destruct a as [srt d i | d i c | h cs]; [destruct srt; discriminate | exact Wa |].
  apply ctys_ok_node in Wa. destruct Wa as [Wa _]. rewrite (Wa Ka). reflexivity.
Qed.

Lemma const_node_scoped usa u n st h cs : head_kind h = KConst -> retained_ok usa u n (Node h cs) -> scoped st u n (Node h cs).
Proof.
  intros Hk (Wa & Ua & Pa). apply ctys_ok_node in Wa. destruct Wa as [Wa _]. rewrite (Wa Hk) in *.
  unfold scoped. destruct h; try discriminate Hk; cbn in *; repeat split; assumption.
Qed.

Lemma au_const_scoped usa u n a b st : kind_of a = KConst -> retained_ok usa u n a ->
  extends_in u st (snd (au_const u a b st)) /\ scoped (snd (au_const u a b st)) u n (fst (au_const u a b st)).
Proof.
  intros Ka R. pose proof R as (Wa & _ & _).
  assert (F := fresh_const_scoped u n st). rewrite <- (const_ty_usize a Ka Wa) in F.
  unfold au_const. destruct a as [| | ha ca]; try exact F. destruct ha; try exact F; destruct b as [| | hb cb]; try exact F; destruct hb; try exact F.
  - match goal with |- context [if ?c then _ else _] => destruct c end; [| exact F]. cbn [fst snd]. split; [apply extends_refl |].
    eapply const_node_scoped; [reflexivity | eassumption].
  - match goal with |- context [if ?c then _ else _] => destruct c end; [| exact F]. cbn [fst snd]. split; [apply extends_refl |].
    eapply const_node_scoped; [reflexivity | eassumption].
Qed.

Lemma retained_children usa u n h cs : binds h = false -> retained_ok usa u n (Node h cs) -> Forall (retained_ok usa u n) cs.
Proof.
  intros Hb (Wa & Ua & Pa). apply ctys_ok_node in Wa. destruct Wa as [_ Wa]. cbn [univ_le ph_below] in Ua, Pa.
  apply andb_true_iff in Ua. destruct Ua as [_ Ua]. apply andb_true_iff in Pa. destruct Pa as [_ Pa].
  unfold under in Ua. rewrite Hb in Ua. rewrite forallb_forall in Ua, Pa. rewrite Forall_forall in *.
  intros x Hx. repeat split; [apply Wa | apply Ua | apply Pa]; assumption.
Qed.

Lemma struct_scoped st u n h gs : binds h = false -> hclass_of h = HcStruct -> Forall (scoped st u n) gs -> scoped st u n (Node h gs).
Proof.
  intros Hb Hc F. unfold scoped. cbn [closed_f univ_le ph_below]. unfold under. rewrite Hb.
  assert (E1 : match h with HPlaceholder u0 _ | HLPlaceholder u0 _ | HCPlaceholder u0 _ => u0 <=? u | _ => true end = true)
    by (destruct h; try discriminate Hc; reflexivity).
  assert (E2 : match h with HPlaceholder u0 _ | HLPlaceholder u0 _ | HCPlaceholder u0 _ => u0 <? n | _ => true end = true)
    by (destruct h; try discriminate Hc; reflexivity).
  rewrite E1, E2. cbn [andb]. rewrite !forallb_forall. rewrite Forall_forall in F.
  repeat split; intros x Hx; apply (F x Hx).
Qed.

Lemma au_ty_scoped : forall a usa u n b st g st',
  retained_ok usa u n a -> au_ty u a b st = Ok (g, st') -> extends_in u st st' /\ scoped st' u n g.
Proof.
  induction a as [srt d i | d i c _ | ha ca IH] using tm_ind'; intros usa u n b st g st' R HA.
  1,2: (cbn [au_ty] in HA; inversion HA; subst; apply (fresh_ty_scoped u n st)).
  assert (F : Ok (fresh_ty u st) = Ok (g, st') -> extends_in u st st' /\ scoped st' u n g).
  { intros E. inversion E; subst. apply (fresh_ty_scoped u n st). }
  destruct b as [| | hb cb]; [exact (F HA) | exact (F HA) |].
  rewrite au_ty_node in HA. destruct (head_eqb ha hb) eqn:Eh; [| exact (F HA)].
  destruct (hclass_of ha) eqn:Ec; [| | exact (F HA)].
  - destruct (Nat.eqb (length ca) (length cb)); [| discriminate].
    destruct (au_list u ca cb st) as [[gs st2] | e] eqn:EL; cbn [rbind fst snd] in HA; [| discriminate].
    inversion HA; subst. clear HA F.
    assert (NB : binds ha = false) by (destruct ha; try discriminate Ec; reflexivity).
    pose proof (retained_children _ _ _ _ _ NB R) as RC.
    assert (L : extends_in u st st' /\ Forall (scoped st' u n) gs).
    { clear Ec NB Eh R. revert cb st gs st' EL. induction IH as [| x r Hx _ IHr]; intros cb st gs st' EL.
      - cbn [au_list] in EL. inversion EL. split; [apply extends_refl | constructor].
      - destruct cb as [| y r']; cbn [au_list] in EL; [inversion EL; split; [apply extends_refl | constructor] |].
        destruct (au_garg u x y st) as [[g1 st1] | e] eqn:E1; cbn [rbind fst snd] in EL; [| discriminate].
        destruct (au_list u r r' st1) as [[g2 st2] | e] eqn:E2; cbn [rbind fst snd] in EL; [| discriminate].
        inversion EL; subst. inversion RC; subst.
        destruct (IHr H2 _ _ _ _ E2) as [X2 S2].
        assert (G1 : extends_in u st st1 /\ scoped st1 u n g1).
        { unfold au_garg in E1. destruct (kind_of x) eqn:Kx, (kind_of y) eqn:Ky; try discriminate.
          - exact (Hx _ _ _ _ _ _ _ H1 E1).
          - inversion E1. replace g1 with (fst (au_lt u x y st)) by (rewrite H0; reflexivity).
            replace st1 with (snd (au_lt u x y st)) by (rewrite H0; reflexivity). eapply au_lt_scoped. eassumption.
          - inversion E1. replace g1 with (fst (au_const u x y st)) by (rewrite H0; reflexivity).
            replace st1 with (snd (au_const u x y st)) by (rewrite H0; reflexivity). eapply au_const_scoped; eassumption. }
        destruct G1 as [X1 S1]. split; [eapply extends_trans; eassumption |].
        constructor; [| assumption]. destruct X2 as (e2 & -> & _). apply scoped_app. assumption. }
    destruct L as [L1 L2]. split; [assumption |]. apply struct_scoped; assumption.
  - destruct ca; [| exact (F HA)]. destruct cb; [| exact (F HA)]. inversion HA; subst.
    split; [apply extends_refl |]. destruct R as (Wa & Ua & Pa). unfold scoped. cbn [closed_f univ_le ph_below forallb] in *.
    repeat split; assumption.
Qed.

Lemma au_garg_scoped usa u n a b st g st' :
  retained_ok usa u n a -> au_garg u a b st = Ok (g, st') -> extends_in u st st' /\ scoped st' u n g.
Proof.
  intros R E. unfold au_garg in E. destruct (kind_of a) eqn:Ka, (kind_of b) eqn:Kb; try discriminate.
  - exact (au_ty_scoped _ _ _ _ _ _ _ _ R E).
  - inversion E. replace g with (fst (au_lt u a b st)) by (rewrite H0; reflexivity).
    replace st' with (snd (au_lt u a b st)) by (rewrite H0; reflexivity). eapply au_lt_scoped. eassumption.
  - inversion E. replace g with (fst (au_const u a b st)) by (rewrite H0; reflexivity).
    replace st' with (snd (au_const u a b st)) by (rewrite H0; reflexivity). eapply au_const_scoped; eassumption.
Qed.

(** entry by entry, each in the universe of its query binder *)
Fixpoint entries_scoped (st : binders) (n : N) (gs : list tm) (bs : list (vkind * N)) : Prop :=
  match gs, bs with
  | g :: gs', b :: bs' => scoped st (snd b) n g /\ entries_scoped st n gs' bs'
  | _, _ => True
  end.

Lemma entries_scoped_app st e n : forall gs bs, entries_scoped st n gs bs -> entries_scoped (st ++ e) n gs bs.
Proof.
  induction gs as [| g gs IH]; intros [| b bs] H; cbn [entries_scoped] in *; try exact I.
  destruct H as [H1 H2]. split; [apply scoped_app; assumption | apply IH; assumption].
Qed.

Fixpoint entries_retained (usa : list N) (n : N) (ps : list tm) (bs : list (vkind * N)) : Prop :=
  match ps, bs with
  | p :: ps', b :: bs' => retained_ok usa (snd b) n p /\ entries_retained usa n ps' bs'
  | _, _ => True
  end.

Lemma merge_args_scoped usa n : forall g bs ans st gs st',
  entries_retained usa n g bs -> merge_args (map snd bs) g ans st = Ok (gs, st') ->
  (exists e, st' = st ++ e /\ Forall (fun b => In (snd b) (map snd bs)) e) /\ entries_scoped st' n gs bs.
Proof.
  induction g as [| p1 r1 IH]; intros bs ans st gs st' ER HM.
  - cbn [merge_args] in HM. inversion HM; subst. split; [exists []; rewrite app_nil_r; split; [reflexivity | constructor] | exact I].
  - destruct ans as [| p2 r2]; [cbn [merge_args] in HM; inversion HM; subst; split; [exists []; rewrite app_nil_r; split; [reflexivity | constructor] | exact I] |].
    cbn [merge_args] in HM. destruct bs as [| b bs']; [discriminate |]. cbn [map] in HM. cbn [entries_retained] in ER. destruct ER as [R1 ER].
    match type of HM with rbind ?X _ = _ => destruct X as [[g1 st1] | e] eqn:E1 end; cbn [rbind fst snd] in HM; [| discriminate].
    destruct (merge_args (map snd bs') r1 r2 st1) as [[g2 st2] | e] eqn:E2; cbn [rbind fst snd] in HM; [| discriminate].
    inversion HM; subst. destruct (IH _ _ _ _ _ ER E2) as ((e2 & -> & F2) & S2).
    assert (G1 : extends_in (snd b) st st1 /\ scoped st1 (snd b) n g1).
    { destruct (kind_of p1) eqn:K1; try (eapply au_garg_scoped; eassumption).
      inversion E1; subst. apply (fresh_lt_scoped (snd b) n st). }
    destruct G1 as ((e1 & -> & F1) & S1). split.
    + exists (e1 ++ e2). rewrite app_assoc. split; [reflexivity |]. apply Forall_app. split.
      * eapply Forall_impl; [| exact F1]. intros x Hx. cbn [map In]. left. symmetry. assumption.
      * eapply Forall_impl; [| exact F2]. intros x Hx. cbn [map In]. right. assumption.
    + cbn [entries_scoped]. split; [apply scoped_app; assumption | assumption].
Qed.

Lemma kinds_match_same : forall a b bs, kinds_match a bs = true -> kinds_match b bs = true -> same_kinds a b.
Proof.
  induction a as [| x a IH]; intros [| y b] [| c bs] Ha Hb; cbn [kinds_match] in *; try discriminate; [constructor |].
  apply andb_true_iff in Ha. destruct Ha as [Ha1 Ha2]. apply andb_true_iff in Hb. destruct Hb as [Hb1 Hb2].
  constructor; [| eapply IH; eassumption]. apply vk_kind_eqb in Ha1. apply vk_kind_eqb in Hb1. congruence.
Qed.

Lemma same_kinds_match : forall gs g bs, same_kinds gs g -> kinds_match g bs = true -> kinds_match gs bs = true.
Proof.
  intros gs g bs SK. revert bs. induction SK as [| x y gs g Hk _ IH]; intros bs H; [assumption |].
  destruct bs as [| b bs]; cbn [kinds_match] in *; [discriminate |].
  apply andb_true_iff in H. destruct H as [H1 H2]. rewrite Hk, H1. cbn [andb]. apply IH. assumption.
Qed.

Lemma entries_retained_of usa n : forall ps bs, Forall ctys_ok ps -> entries_univ_ok usa ps bs = true ->
  forallb (ph_below n) ps = true -> entries_retained usa n ps bs.
Proof.
  induction ps as [| p ps IH]; intros [| b bs] W U P; cbn [entries_retained entries_univ_ok forallb] in *; try exact I.
  inversion W; subst. apply andb_true_iff in U. destruct U as [U1 U2]. apply andb_true_iff in P. destruct P as [P1 P2].
  split; [repeat split; assumption | apply IH; assumption].
Qed.

Lemma entries_scoped_wf st n : forall gs bs, kinds_match gs bs = true -> entries_scoped st n gs bs ->
  forallb (closed_f (map fst st) 0) gs = true /\ forallb (ph_below n) gs = true /\ entries_univ_ok (map snd st) gs bs = true.
Proof.
  induction gs as [| g gs IH]; intros [| b bs] K S; cbn [kinds_match] in K; try discriminate; [repeat split |].
  apply andb_true_iff in K. destruct K as [_ K]. cbn [entries_scoped] in S. destruct S as [(S1 & S2 & S3) S].
  destruct (IH _ K S) as (I1 & I2 & I3). cbn [forallb entries_univ_ok]. rewrite S1, S2, S3, I1, I2, I3. repeat split.
Qed.

(** [merge_into_guidance] preserves well-formedness *)
Lemma slg_merge_wf_lemma : forall q g ans g',
  (forall b, In b (q_binders q) -> snd b < q_universes q) ->
  wf_answer q g = true -> kinds_match (a_subst ans) (q_binders q) = true -> Forall ctys_ok (a_subst g) ->
  merge (q_binders q) g ans = Ok g' -> wf_answer q g' = true.
Proof.
  intros q g ans g' Hq Hg Ka Wg HM. unfold wf_answer in Hg.
  apply andb_true_iff in Hg. destruct Hg as [Hg G5]. apply andb_true_iff in Hg. destruct Hg as [Hg G4].
  apply andb_true_iff in Hg. destruct Hg as [Hg G3]. apply andb_true_iff in Hg. destruct Hg as [G1 G2].
  unfold a_subst, a_binders in *. unfold merge in HM.
  match type of HM with rbind ?X _ = _ => destruct X as [[gs st'] | e] eqn:E end; cbn [rbind fst snd] in HM; [| discriminate].
  inversion HM; subst g'. clear HM.
  pose proof (entries_retained_of _ (q_universes q) _ _ Wg G5 G4) as ER.
  destruct (merge_args_scoped _ _ _ _ _ _ _ _ ER E) as ((ext & Est & Fe) & ES). cbn [app] in Est. subst st'.
  pose proof (kinds_match_same _ _ _ G1 Ka) as SK.
  destruct (merge_args_shape _ _ _ _ _ _ SK Wg E) as (_ & SK2 & _).
  pose proof (same_kinds_match _ _ _ SK2 G1) as K'.
  destruct (entries_scoped_wf _ _ _ _ K' ES) as (C1 & C2 & C3).
  unfold wf_answer, a_subst, a_binders. cbn [fst snd]. rewrite K', C1, C2, C3. cbn [andb]. rewrite !andb_true_r.
  apply forallb_forall. intros b Hb. rewrite Forall_forall in Fe. specialize (Fe b Hb).
  apply in_map_iff in Fe. destruct Fe as (b0 & Eb & Hb0). apply N.ltb_lt. rewrite <- Eb. apply Hq. assumption.
Qed.

(** ... and so does the whole aggregation loop of [make_solution]: starting from a well-formed first
    answer, merging any number of further answers of the query gives well-formed guidance *)
Lemma slg_answer_wf_lemma : forall q rest g g',
  (forall b, In b (q_binders q) -> snd b < q_universes q) ->
  wf_answer q g = true -> Forall ctys_ok (a_subst g) ->
  Forall (fun x => kinds_match (a_subst x) (q_binders q) = true) rest ->
  merge_all (q_binders q) g rest = Ok g' -> wf_answer q g' = true.
Proof.
  intros q rest. induction rest as [| s r IH]; intros g g' Hq Hg Wg HF HM; cbn [merge_all] in HM.
  - inversion HM; subst. assumption.
  - inversion HF; subst. destruct (merge (q_binders q) g s) as [g1 |] eqn:E1; cbn [rbind] in HM; [| discriminate].
    apply (IH g1 g' Hq); try assumption.
    + eapply slg_merge_wf_lemma; eassumption.
    + pose proof (kinds_match_same (a_subst g) (a_subst s) (q_binders q)) as SK.
      unfold wf_answer in Hg. repeat (apply andb_true_iff in Hg; destruct Hg as [Hg ?]).
      destruct (merge_shape _ _ _ _ (SK Hg H1) Wg E1) as (_ & _ & W1). exact W1.
Qed.

(** ** Part 2: the recursive solver's answer *)

(** the substitution [from_canonical] builds for the query binders: variable [i] for binder [i] *)
Definition subst0 (bs : list (vkind * N)) : list tm :=
  map (fun kv => infer_node (fst kv) (snd kv) usize_ty) (fst (fresh_from 0 bs)).

Definition answer_of (c : canonical) : answer := (fst c, match snd c with Node _ ss => ss | _ => [] end).

(** [Fulfill::solve], complete outcome: canonicalize the query substitution through the final table *)
Definition rec_answer (fuel : nat) (T : table) (q : query) : out answer :=
  obind (canonicalize fuel T (Node HList (subst0 (q_binders q)))) (fun cf => Done (answer_of (fst cf))).

(** everything [r] mentions — unbound classes (read in [T]) and placeholders — lives in a universe [<= u] *)
Fixpoint vis_le (T : table) (u : N) (t : tm) : bool :=
  match t with
  | Var _ _ _ | CVar _ _ _ => true
  | Node h cs =>
      match infer_of h with
      | Some (v, _) => universe_of T v <=? u
      | None =>
          match h with HPlaceholder p _ | HLPlaceholder p _ | HCPlaceholder p _ => p <=? u | _ => true end
          && (if const_head h then true else forallb (vis_le T u) cs)
      end
  end.

(** the universe invariant of unification (C14, [relate_sound]'s universe clause): the resolved
    binding of each query variable mentions only what a variable of its universe can see *)
Definition relate_sound_universes (fuel : nat) (T : table) (bs : list (vkind * N)) : Prop :=
  Forall2 (fun s b => forall r, resolve fuel T 0 s = Done r -> vis_le T (snd b) r = true) (subst0 bs) bs.

Definition table_consts_usize (T : table) : Prop :=
  forall v r val, Canon.lookup T v = Some (r, Bound val) -> consts_usize val = true.

Lemma infer_head_kind h v vk : infer_of h = Some (v, vk) -> head_kind h = vk_kind vk.
Proof. destruct h; cbn; intros H; inversion H; reflexivity. Qed.

Lemma kind_of_shift_o t n k : kind_of (shift_o n k t) = kind_of t.
Proof. destruct t as [s d i | d i c | h cs]; cbn [shift_o]; [destruct (k <=? d) .. | destruct (leaf_head h)]; reflexivity. Qed.

Lemma consts_usize_shift_o : forall t n k, consts_usize (shift_o n k t) = consts_usize t.
Proof.
  induction t as [s d i | d i c _ | h cs IH] using tm_ind'; intros n k; cbn [shift_o].
  - destruct (k <=? d); reflexivity.
  - destruct (k <=? d); reflexivity.
  - unfold leaf_head. destruct (infer_of h) as [[v vk] |] eqn:Ei; [reflexivity |].
    destruct (const_head h) eqn:Ec; [reflexivity |]. cbn [consts_usize]. rewrite Ec.
    apply forallb_map_ext. intros x Hx. rewrite Forall_forall in IH. apply IH. assumption.
Qed.

Lemma const_head_set_var h r : const_head (set_var h r) = const_head h.
Proof. destruct h; reflexivity. Qed.

Section ResolveFacts.
  Variable rec_r : tm -> out tm.
  Variable T : table.
  Hypothesis HT : table_consts_usize T.
  Hypothesis Hrec : forall val r0, rec_r val = Done r0 -> kind_of r0 = kind_of val /\ (consts_usize val = true -> consts_usize r0 = true).

  Lemma resolve_in_facts : forall t k r, resolve_in rec_r T k t = Done r ->
    kind_of r = kind_of t /\ (consts_usize t = true -> consts_usize r = true).
  Proof.
    induction t as [s d i | d i c _ | h cs IH] using tm_ind'; intros k r; cbn [resolve_in].
    - intros E; inversion E; subst. split; auto.
    - intros E; inversion E; subst. split; auto.
    - destruct (infer_of h) as [[v vk] |] eqn:Ei.
      + destruct (Canon.lookup T v) as [[rt [u | val]] |] eqn:El; [| | discriminate].
        * intros E; inversion E; subst. split.
          -- cbn [kind_of]. rewrite (infer_head_kind _ _ _ (infer_of_set_var _ _ _ rt Ei)), (infer_head_kind _ _ _ Ei). reflexivity.
          -- cbn [consts_usize]. rewrite const_head_set_var. auto.
        * destruct (kind_eqb (kind_of val) (vk_kind vk)) eqn:Ek; [| discriminate].
          unfold omap_out. destruct (rec_r val) as [r0 | |] eqn:Er; cbn [obind]; try discriminate.
          intros E; inversion E; subst. destruct (Hrec _ _ Er) as [K C]. split.
          -- rewrite kind_of_shift_o, K. cbn [kind_of]. rewrite (infer_head_kind _ _ _ Ei). apply vk_kind_eqb. assumption.
          -- intros _. rewrite consts_usize_shift_o. apply C. eapply HT. eassumption.
      + destruct (const_head h) eqn:Ec; [intros E; inversion E; subst; split; auto |].
        unfold omap_out. destruct (omapM (resolve_in rec_r T (under h k)) cs) as [rs | |] eqn:Em; cbn [obind]; try discriminate.
        intros E; inversion E; subst. split; [reflexivity |]. cbn [consts_usize]. rewrite Ec.
        clear E. revert rs Em. induction IH as [| x l Hx _ IHl]; intros rs Em Hc; cbn [omapM] in Em.
        * inversion Em; reflexivity.
        * destruct (resolve_in rec_r T (under h k) x) as [rx | |] eqn:Ex; cbn [obind] in Em; try discriminate.
          destruct (omapM (resolve_in rec_r T (under h k)) l) as [rl | |] eqn:El; cbn [obind] in Em; try discriminate.
          inversion Em; subst. cbn [forallb] in *. apply andb_true_iff in Hc. destruct Hc as [Hc1 Hc2].
          destruct (Hx _ _ Ex) as [_ Cx]. rewrite (Cx Hc1), (IHl _ eq_refl Hc2). reflexivity.
  Qed.
End ResolveFacts.

Lemma resolve_facts : forall fuel T, table_consts_usize T -> forall t k r, resolve fuel T k t = Done r ->
  kind_of r = kind_of t /\ (consts_usize t = true -> consts_usize r = true).
Proof.
  induction fuel as [| f IH]; intros T HT t k r; cbn [resolve]; apply resolve_in_facts; try assumption.
  - intros val r0. discriminate.
  - intros val r0 H. apply (IH T HT val 0 r0 H).
Qed.

Lemma resolve_list fuel T k l : resolve fuel T k (Node HList l) = omap_out (Node HList) (omapM (resolve fuel T k) l).
Proof. destruct fuel; reflexivity. Qed.

Lemma omapM_Forall2 {A B} (f : A -> out B) : forall l rs, omapM f l = Done rs -> Forall2 (fun x r => f x = Done r) l rs.
Proof.
  induction l as [| x l IH]; intros rs H; cbn [omapM] in H.
  - inversion H. constructor.
  - destruct (f x) as [y | |] eqn:Ex; cbn [obind] in H; try discriminate.
    destruct (omapM f l) as [ys | |] eqn:El; cbn [obind] in H; try discriminate.
    inversion H; subst. constructor; [assumption | apply IH; reflexivity].
Qed.

(** *** Facts about [replace] *)

Lemma kind_of_replace F k r : kind_of (replace F k r) = kind_of r.
Proof.
  destruct r as [s d i | d i c | h cs]; cbn [replace]; try reflexivity.
  destruct (infer_of h) as [[v vk] |] eqn:Ei.
  - cbn [kind_of]. rewrite (infer_head_kind _ _ _ Ei). destruct vk; reflexivity.
  - destruct (const_head h); reflexivity.
Qed.

Lemma consts_usize_replace F : forall r k, consts_usize r = true -> consts_usize (replace F k r) = true.
Proof.
  induction r as [s d i | d i c _ | h cs IH] using tm_ind'; intros k H; cbn [replace]; try assumption.
  destruct (infer_of h) as [[v vk] |] eqn:Ei.
  - destruct vk; cbn [mk_bound consts_usize]; try reflexivity.
    destruct h; cbn in Ei; try discriminate. cbn [consts_usize const_head] in H.
    destruct cs as [| c [| c' cs']]; try discriminate. exact H.
  - cbn [consts_usize] in *. destruct (const_head h) eqn:Ec; [cbn [consts_usize]; rewrite Ec; assumption |].
    cbn [consts_usize]. rewrite Ec. rewrite forallb_forall in *. intros y Hy. apply in_map_iff in Hy. destruct Hy as (x & <- & Hx).
    rewrite Forall_forall in IH. apply IH; [assumption | apply H; assumption].
Qed.

Lemma usize_const_children h cs : const_head h = true -> consts_usize (Node h cs) = true -> cs = [usize_ty].
Proof.
  intros Ec H. cbn [consts_usize] in H. rewrite Ec in H. destruct cs as [| c [| c' cs']]; try discriminate.
  apply tm_eqb_eq in H. subst. reflexivity.
Qed.

Lemma univ_le_replace T u F : forall r k, consts_usize r = true -> vis_le T u r = true -> nofree k r = true ->
  (forall vk v, In (vk, v) (occs r) -> exists i, index_of v F = Some i) ->
  univ_le (map snd (binders_of T F)) u k (replace F k r) = true.
Proof.
  induction r as [s d i | d i c _ | h cs IH] using tm_ind'; intros k Hc Hv Hn Ho; cbn [replace nofree vis_le occs] in *.
  - cbn [univ_le]. apply N.ltb_lt in Hn. destruct (N.eqb_spec d k); [lia | reflexivity].
  - cbn [univ_le]. apply N.ltb_lt in Hn. destruct (N.eqb_spec d k); [lia | reflexivity].
  - destruct (infer_of h) as [[v vk] |] eqn:Ei.
    + destruct (Ho vk v (or_introl eq_refl)) as [i Hi]. destruct (index_of_nth _ _ _ Hi) as [vk' Hnth].
      unfold pos_of. rewrite Hi.
      assert (E : nth_error (map snd (binders_of T F)) (N.to_nat (N.of_nat i)) = Some (universe_of T v)).
      { rewrite Nat2N.id, nth_error_map, (nth_binders_of T _ _ _ _ Hnth). reflexivity. }
      destruct vk; cbn [mk_bound univ_le]; rewrite N.eqb_refl, E; exact Hv.
    + apply andb_true_iff in Hv. destruct Hv as [Hv1 Hv2]. destruct (const_head h) eqn:Ec.
      * rewrite (usize_const_children _ _ Ec Hc). cbn [univ_le forallb]. rewrite Hv1. destruct h; reflexivity.
      * cbn [univ_le]. rewrite Hv1. cbn [andb]. cbn [consts_usize] in Hc. rewrite Ec in Hc.
        rewrite forallb_forall in *. intros y Hy. apply in_map_iff in Hy. destruct Hy as (x & <- & Hx).
        rewrite Forall_forall in IH. apply IH; [assumption | apply Hc | apply Hv2 | apply Hn |]; try assumption.
        intros vk v Hin. apply (Ho vk v). apply in_flat_map. exists x. split; assumption.
Qed.

Lemma ph_below_replace T u n F : u < n -> forall r k, consts_usize r = true -> vis_le T u r = true ->
  ph_below n (replace F k r) = true.
Proof.
  intros Hun. induction r as [s d i | d i c _ | h cs IH] using tm_ind'; intros k Hc Hv; cbn [replace vis_le] in *.
  - reflexivity.
  - cbn [ph_below consts_usize] in *. apply tm_eqb_eq in Hc. subst. reflexivity.
  - destruct (infer_of h) as [[v vk] |] eqn:Ei.
    + destruct vk; cbn [mk_bound ph_below]; try reflexivity.
      destruct h; cbn in Ei; try discriminate. rewrite (usize_const_children (HCInfer v0) cs eq_refl Hc). reflexivity.
    + apply andb_true_iff in Hv. destruct Hv as [Hv1 Hv2].
      assert (Hh : match h with HPlaceholder p _ | HLPlaceholder p _ | HCPlaceholder p _ => p <? n | _ => true end = true).
      { destruct h; try reflexivity; apply N.leb_le in Hv1; apply N.ltb_lt; lia. }
      destruct (const_head h) eqn:Ec.
      * rewrite (usize_const_children _ _ Ec Hc). cbn [ph_below forallb]. rewrite Hh. reflexivity.
      * cbn [ph_below]. rewrite Hh. cbn [andb]. cbn [consts_usize] in Hc. rewrite Ec in Hc.
        rewrite forallb_forall in *. intros y Hy. apply in_map_iff in Hy. destruct Hy as (x & <- & Hx).
        rewrite Forall_forall in IH. apply IH; [assumption | apply Hc | apply Hv2]; assumption.
Qed.

Lemma vis_le_occs T u : forall r, vis_le T u r = true -> forall vk v, In (vk, v) (occs r) -> universe_of T v <= u.
Proof.
  induction r as [s d i | d i c _ | h cs IH] using tm_ind'; intros Hv vk v Hin; cbn [vis_le occs] in *; try destruct Hin.
  destruct (infer_of h) as [[w wk] |] eqn:Ei.
  - destruct Hin as [E | []]. inversion E; subst. apply N.leb_le. assumption.
  - apply andb_true_iff in Hv. destruct Hv as [_ Hv]. destruct (const_head h); [destruct Hin |].
    apply in_flat_map in Hin. destruct Hin as (x & Hx & Hin). rewrite forallb_forall in Hv. rewrite Forall_forall in IH.
    eapply IH; [eassumption | apply Hv; assumption | eassumption].
Qed.

(** *** The query substitution *)

Lemma subst_from_kinds : forall bs n,
  Forall2 (fun s b => kind_of s = vk_kind (fst b) /\ consts_usize s = true)
          (map (fun kv => infer_node (fst kv) (snd kv) usize_ty) (fst (fresh_from n bs))) bs.
Proof.
  induction bs as [| [vk u] bs IH]; intros n; cbn [fresh_from fst snd map]; constructor; [| apply IH].
  destruct vk; cbn; split; reflexivity.
Qed.

Lemma Forall2_in_l {A B} (P : A -> B -> Prop) l l' x : Forall2 P l l' -> In x l -> exists y, In y l' /\ P x y.
Proof.
  induction 1 as [| a b l l' Hab _ IH]; intros Hin; [destruct Hin |].
  destruct Hin as [-> | Hin]; [exists b; split; [left; reflexivity | assumption] |].
  destruct (IH Hin) as (y & Hy & Hp). exists y. split; [right; assumption | assumption].
Qed.

(** what is known about the resolved binding [r] of the query variable with binder [b] *)
Definition binding_ok (T : table) (r : tm) (b : vkind * N) : Prop :=
  vis_le T (snd b) r = true /\ kind_of r = vk_kind (fst b) /\ consts_usize r = true.

Lemma bindings_ok fuel T (HT : table_consts_usize T) : forall S0 rs bs,
  Forall2 (fun s r => resolve fuel T 0 s = Done r) S0 rs ->
  Forall2 (fun s b => forall r, resolve fuel T 0 s = Done r -> vis_le T (snd b) r = true) S0 bs ->
  Forall2 (fun s b => kind_of s = vk_kind (fst b) /\ consts_usize s = true) S0 bs ->
  Forall2 (binding_ok T) rs bs.
Proof.
  intros S0 rs bs H1. revert bs. induction H1 as [| s r S0 rs Hsr _ IH]; intros bs H2 H3.
  - inversion H2; subst. constructor.
  - inversion H2 as [| ? b ? bs' Hv H2' ]; subst. inversion H3 as [| ? ? ? ? Hk H3' ]; subst.
    constructor; [| apply IH; assumption].
    destruct (resolve_facts fuel T HT _ _ _ Hsr) as [K C]. destruct Hk as [Ks Cs].
    repeat split; [apply Hv; assumption | congruence | apply C; assumption].
Qed.

Lemma kinds_match_replace T F : forall rs bs, Forall2 (binding_ok T) rs bs -> kinds_match (map (replace F 0) rs) bs = true.
Proof.
  induction 1 as [| r b rs bs (_ & K & _) _ IH]; [reflexivity |].
  cbn [map kinds_match]. rewrite kind_of_replace, K, kind_eqb_refl, IH. reflexivity.
Qed.

Lemma entries_univ_replace T F : forall rs bs, Forall2 (binding_ok T) rs bs -> forallb (nofree 0) rs = true ->
  (forall r, In r rs -> forall vk w, In (vk, w) (occs r) -> exists i, index_of w F = Some i) ->
  entries_univ_ok (map snd (binders_of T F)) (map (replace F 0) rs) bs = true.
Proof.
  induction 1 as [| r b rs bs (Vb & _ & Cu) _ IH]; intros Hn Hocc; [reflexivity |].
  cbn [map entries_univ_ok]. cbn [forallb] in Hn. apply andb_true_iff in Hn. destruct Hn as [Hn1 Hn2].
  rewrite (univ_le_replace T (snd b) F r 0 Cu Vb Hn1).
  - cbn [andb]. apply IH; [assumption |]. intros r' Hr'. apply Hocc. right. assumption.
  - apply (Hocc r). left. reflexivity.
Qed.

Lemma rec_answer_wf_lemma : forall fuel T q a,
  (forall b, In b (q_binders q) -> snd b < q_universes q) ->
  table_consts_usize T ->
  relate_sound_universes fuel T (q_binders q) ->
  (forall R, resolve fuel T 0 (Node HList (subst0 (q_binders q))) = Done R -> kinds_consistent (occs R)) ->
  rec_answer fuel T q = Done a -> wf_answer q a = true.
Proof.
  intros fuel T q a Hq HT Hinv Hkc HA. unfold rec_answer in HA.
  destruct (canonicalize fuel T (Node HList (subst0 (q_binders q)))) as [[[abs v] fr] | |] eqn:Ec; cbn [obind] in HA; try discriminate.
  inversion HA; subst a. clear HA. cbn [fst].
  destruct (canon_first_occurrence_lemma _ _ _ _ _ _ Ec) as (R & Hr & Hn & Hf & _ & Hb & Hv).
  rewrite <- first_occs_nodup_first in Hf. pose proof (Hkc R Hr) as Hk.
  rewrite resolve_list in Hr. unfold omap_out in Hr.
  destruct (omapM (resolve fuel T 0) (subst0 (q_binders q))) as [rs | |] eqn:Em; cbn [obind] in Hr; try discriminate.
  inversion Hr; subst R. clear Hr.
  set (F := first_occs (occs (Node HList rs))) in *. subst fr.
  assert (Ev : v = Node HList (map (replace F 0) rs)) by (rewrite Hv; reflexivity).
  cbn [nofree infer_of const_head] in Hn. change (under HList 0) with 0 in Hn.
  assert (Eo : occs (Node HList rs) = flat_map occs rs) by reflexivity.
  pose proof (bindings_ok fuel T HT _ _ _ (omapM_Forall2 _ _ _ Em) Hinv (subst_from_kinds (q_binders q) 0)) as HB.
  assert (Hocc : forall r, In r rs -> forall vk w, In (vk, w) (occs r) ->
            exists i, index_of w F = Some i /\ nth_error F i = Some (vk, w)).
  { intros r Hr vk w Hin. apply (occs_first_nth (Node HList rs) Hk). rewrite Eo. apply in_flat_map. exists r. split; assumption. }
  set (bs := q_binders q) in *. set (n := q_universes q) in *.
  unfold wf_answer, answer_of, a_subst, a_binders. cbn [fst snd]. rewrite Ev. fold bs. fold n.
  assert (G1 : kinds_match (map (replace F 0) rs) bs = true) by (apply (kinds_match_replace T); assumption).
  assert (G2 : forallb (closed_f (map fst abs) 0) (map (replace F 0) rs) = true).
  { apply forallb_forall. intros y Hy. apply in_map_iff in Hy. destruct Hy as (r & <- & Hr).
    destruct (Forall2_in_l _ _ _ _ HB Hr) as (b & _ & (_ & _ & Cu)).
    rewrite Hb, map_fst_binders_of. apply closed_o_closed_f; [apply consts_usize_replace; assumption |].
    apply closed_replace; [rewrite forallb_forall in Hn; apply Hn; assumption | apply Hocc; assumption]. }
  assert (G3 : forallb (fun b => snd b <? n) abs = true).
  { apply forallb_forall. intros b Hb'. rewrite Hb in Hb'. unfold binders_of in Hb'. apply in_map_iff in Hb'.
    destruct Hb' as ([vk w] & <- & Hin). cbn [fst snd]. apply first_occs_vars in Hin. rewrite Eo in Hin.
    apply in_flat_map in Hin. destruct Hin as (r & Hr & Hin).
    destruct (Forall2_in_l _ _ _ _ HB Hr) as (b & Hbin & (Vb & _ & _)).
    pose proof (vis_le_occs T _ r Vb _ _ Hin). specialize (Hq b Hbin). apply N.ltb_lt. fold n in Hq. lia. }
  assert (G4 : forallb (ph_below n) (map (replace F 0) rs) = true).
  { apply forallb_forall. intros y Hy. apply in_map_iff in Hy. destruct Hy as (r & <- & Hr).
    destruct (Forall2_in_l _ _ _ _ HB Hr) as (b & Hbin & (Vb & _ & Cu)).
    eapply ph_below_replace; [apply (Hq b Hbin) | assumption | eassumption]. }
  assert (G5 : entries_univ_ok (map snd abs) (map (replace F 0) rs) bs = true).
  { rewrite Hb. apply entries_univ_replace; [assumption | assumption |].
    intros r Hr vk w Hin. destruct (Hocc r Hr vk w Hin) as (i & Hi & _). eauto. }
  rewrite G1, G2, G3, G4, G5. reflexivity.
Qed.

(** mapping an answer back into the caller's universes ([apply_solution]: [map_from_canonical]) keeps
    "lives in a universe <= that of the unknown": the universe map is monotone *)
Lemma from_canonical_le m : ssorted m -> forall c1 c2, c1 <= c2 -> from_canonical m c1 <= from_canonical m c2.
Proof.
  intros Hs c1 c2 H. destruct (N.eq_dec c1 c2) as [-> | Hne]; [lia |].
  pose proof (from_canonical_mono m Hs c1 c2). lia.
Qed.

(** the SLG solver's solution: the first answer of the root table is the canonicalized query
    substitution (as in the recursive solver), the others are merged into it *)
Lemma slg_solution_wf_lemma : forall fuel T q g rest g',
  (forall b, In b (q_binders q) -> snd b < q_universes q) ->
  table_consts_usize T -> relate_sound_universes fuel T (q_binders q) ->
  (forall R, resolve fuel T 0 (Node HList (subst0 (q_binders q))) = Done R -> kinds_consistent (occs R)) ->
  rec_answer fuel T q = Done g -> Forall ctys_ok (a_subst g) ->
  Forall (fun x => kinds_match (a_subst x) (q_binders q) = true) rest ->
  merge_all (q_binders q) g rest = Ok g' -> wf_answer q g' = true.
Proof.
  intros fuel T q g rest g' Hq HT Hinv Hk Hg Wg HF HM.
  eapply slg_answer_wf_lemma; try eassumption. eapply rec_answer_wf_lemma; eassumption.
Qed.

(** ** Non-vacuity *)

(** query [exists<'a> { forall<T> { exists<X> { X: Foo<'a> } } }]: unknowns [X] (U1), ['a] (U0).
    Final table: [?0 := Adt1<?2>] with [?2] unbound in U1, [?1] unbound in U0. *)
Definition ex_rec_table : table :=
  [ (0, Bound (Node (HAdt 1) [Node (HInfer 2 General) []])); (1, Unbound 0); (2, Unbound 1) ].

Example rec_answer_wf_nonvacuous :
  rec_answer 3 ex_rec_table ex_query2 = Done ([(VTy General, 1); (VLt, 0)], [Node (HAdt 1) [Var STy 0 0]; Var SLt 0 1])
  /\ table_consts_usize ex_rec_table
  /\ relate_sound_universes 3 ex_rec_table (q_binders ex_query2)
  /\ (forall R, resolve 3 ex_rec_table 0 (Node HList (subst0 (q_binders ex_query2))) = Done R -> kinds_consistent (occs R))
  /\ wf_answer ex_query2 ([(VTy General, 1); (VLt, 0)], [Node (HAdt 1) [Var STy 0 0]; Var SLt 0 1]) = true.
Proof.
  split; [vm_compute; reflexivity |]. split; [| split; [| split; [| vm_compute; reflexivity]]].
  - intros v r val H. unfold Canon.lookup in H. destruct (N.to_nat v) as [| [| [| k]]]; cbn in H; inversion H; try reflexivity.
    destruct k; discriminate.
  - unfold relate_sound_universes. cbn. repeat constructor; intros r H; vm_compute in H; inversion H; reflexivity.
  - intros R H. vm_compute in H. inversion H; subst. intros vk1 vk2 v H1 H2. cbn in H1, H2.
    destruct H1 as [H1 | [H1 | []]]; destruct H2 as [H2 | [H2 | []]]; inversion H1; inversion H2; subst; try reflexivity; discriminate.
Qed.

(** two answers [X := A, 'a := 'static] and [X := B, 'a := 'static] of that query are merged into
    [for<?U1, ?U0> [X := ^0.0, 'a := '^0.1]]: each fresh variable lives in its unknown's universe *)
Example slg_answer_wf_nonvacuous :
  merge (q_binders ex_query2) ([], [Node (HAdt 0) []; Node HLStatic []]) ([], [Node (HAdt 1) []; Node HLStatic []])
  = Ok ([(VTy General, 1); (VLt, 0)], [Var STy 0 0; Var SLt 0 1])
  /\ wf_answer ex_query2 ([], [Node (HAdt 0) []; Node HLStatic []]) = true
  /\ wf_answer ex_query2 ([(VTy General, 1); (VLt, 0)], [Var STy 0 0; Var SLt 0 1]) = true.
Proof. repeat split; vm_compute; reflexivity. Qed.
