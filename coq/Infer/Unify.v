(** * Infer.Unify — model of [InferenceTable::relate] (chalk-solve/src/infer/unify.rs) with
    the zipping of chalk-ir/src/zip.rs.

    Fragment.  Modelled exactly: [relate_ty_ty] (all [TyKind] pairs), the var/var cases by
    [TyVariableKind], [relate_var_ty] with its kind filter, the [OccursCheck] folder (universe
    test on placeholders, cycle test, promotion of inner variables' universes, fresh lifetime
    variables for invisible lifetime placeholders), [generalize_ty] / [generalize_lifetime] /
    [generalize_const] / substitution generalisation with ADT and fn-def variances,
    [relate_lifetime_lifetime], [relate_const_const], [relate_alias_ty], [zip_substs],
    fn pointers through [relate_binders] (universal / existential instantiation of the
    lifetime binders, [FnSubst] zipping), the final filtering of trivial subtype goals and the
    snapshot / commit / rollback wrapper.  NOT modelled: [dyn] types related with a different
    [dyn] type or generalised ([Unsup] outcome) — quantified where clauses under
    [relate_binders].

    All recursion is on an explicit fuel; running out of it is the outcome [OutOfFuel], which
    every theorem excludes.  Functions thread the table (also on failure: [relate] rolls the
    mutated table back) and *write* goals (they never read them). *)

From Chalk Require Import Ir.Syntax Ir.Fold Infer.Table.

Inductive out (A : Type) :=
| Done (a : A)
| NoSol                 (* Err(NoSolution) *)
| OutOfFuel
| Pan (s : site)        (* a Rust panic *)
| Unsup.                (* outside the modelled fragment *)
Arguments Done {A} a.
Arguments NoSol {A}.
Arguments OutOfFuel {A}.
Arguments Pan {A} s.
Arguments Unsup {A}.

Definition M (A : Type) : Type := table -> out A * table * list tm.

Definition ret {A} (a : A) : M A := fun t => (Done a, t, []).

Definition bind {A B} (m : M A) (f : A -> M B) : M B :=
  fun t =>
    match m t with
    | (Done a, t1, g1) => match f a t1 with (r, t2, g2) => (r, t2, g1 ++ g2) end
    | (NoSol, t1, g1) => (NoSol, t1, g1)
    | (OutOfFuel, t1, g1) => (OutOfFuel, t1, g1)
    | (Pan s, t1, g1) => (Pan s, t1, g1)
    | (Unsup, t1, g1) => (Unsup, t1, g1)
    end.

Notation "x <- m ;; f" := (bind m (fun x => f)) (at level 61, m at next level, right associativity).
Notation "m ;;; f" := (bind m (fun _ => f)) (at level 61, right associativity).

Definition fail {A} (o : out A) : M A := fun t => (o, t, []).
Definition get_table : M table := fun t => (Done t, t, []).
Definition put_table (t' : table) : M unit := fun _ => (Done tt, t', []).
Definition push_goal (g : tm) : M unit := fun t => (Done tt, t, [g]).

Definition mapM {A B} (f : A -> M B) : list A -> M (list B) :=
  fix go (l : list A) : M (list B) :=
    match l with
    | [] => ret []
    | x :: r => y <- f x ;; ys <- go r ;; ret (y :: ys)
    end.

(** ** Table primitives in the monad *)

(** [unify.probe_value(v)] together with the class; an index out of range is an [ena] panic. *)
Definition get_cell (v : N) : M cell :=
  fun t => match get t v with Some c => (Done c, t, []) | None => (Pan IndexOutOfBounds, t, []) end.

Definition m_new_variable (u : N) : M N :=
  fun t => let '(n, t') := new_variable u t in (Done n, t', []).

Definition m_new_universe : M N :=
  fun t => let '(n, t') := new_universe t in (Done n, t', []).

(** [unify.unify_var_value(v, Bound val)]; binding a bound variable panics in [unify_values]. *)
Definition bind_var (v : N) (val : tm) : M unit :=
  c <- get_cell v ;;
  match cval c with
  | Unbound _ => fun t => (Done tt, set_value (ccls c) (Bound val) t, [])
  | Bound _ => fail (Pan OtherPanic)
  end.

(** [unify.unify_var_value(v, Unbound ui)] for [ui] below the current universe. *)
Definition promote (v : N) (ui : N) : M unit :=
  c <- get_cell v ;;
  match cval c with
  | Unbound u => fun t => (Done tt, set_value (ccls c) (Unbound (N.min u ui)) t, [])
  | Bound _ => fun t => (Done tt, t, [])
  end.

(** [unify.unify_var_var(a, b)] *)
Definition union_vars (a b : N) : M unit :=
  ca <- get_cell a ;; cb <- get_cell b ;;
  if ccls ca =? ccls cb then ret tt else
  match cval ca, cval cb with
  | Unbound ua, Unbound ub => fun t => (Done tt, merge (ccls ca) (ccls cb) (Unbound (N.min ua ub)) t, [])
  | Bound x, Unbound _ => fun t => (Done tt, merge (ccls ca) (ccls cb) (Bound x) t, [])
  | Unbound _, Bound x => fun t => (Done tt, merge (ccls ca) (ccls cb) (Bound x) t, [])
  | Bound _, Bound _ => fail (Pan OtherPanic)
  end.

(** ** Terms *)

Definition ty_var (v : N) (k : tvk) : tm := Node (HInfer v k) [].
Definition lt_var (v : N) : tm := Node (HLInfer v) [].

Definition outlives_goal (a b : tm) : tm := Node HDomainGoal [Node HHolds [Node HLtOutlives [a; b]]].
Definition alias_eq_goal (alias ty : tm) : tm := Node HDomainGoal [Node HHolds [Node HAliasEq [alias; ty]]].
Definition subtype_goal (a b : tm) : tm := Node HSubtypeGoal [a; b].

(** [push_lifetime_outlives_goals] *)
Definition push_outlives (v : variance) (a b : tm) : M unit :=
  (match v with Invariant | Contravariant => push_goal (outlives_goal a b) | Covariant => ret tt end) ;;;
  (match v with Invariant | Covariant => push_goal (outlives_goal b a) | Contravariant => ret tt end).

(** The value a variable node is bound to, if any ([probe_var]). *)
Definition probe_tm (t : table) (a : tm) : option tm :=
  match a with
  | Node (HInfer v _) _ | Node (HLInfer v) _ | Node (HCInfer v) _ =>
      match get t v with
      | Some c => match cval c with Bound p => Some p | Unbound _ => None end
      | None => None
      end
  | _ => None
  end.

(** [normalize_ty_shallow]: probes twice (a general variable may be bound to an int/float
    variable that is bound in turn). *)
Definition shallow_ty (t : table) (a : tm) : tm :=
  match probe_tm t a with
  | Some p => match probe_tm t p with Some q => q | None => p end
  | None => a
  end.

(** [normalize_lifetime_shallow], [normalize_const_shallow] *)
Definition shallow1 (t : table) (a : tm) : tm :=
  match probe_tm t a with Some p => p | None => a end.

(** ** The occurs check ([OccursCheck] as a [FallibleTypeFolder]) *)

Fixpoint occ (fuel : nat) (var ui k : N) (t : tm) {struct fuel} : M tm :=
  match fuel with
  | O => fail OutOfFuel
  | S f =>
      match t with
      | Var _ d _ => if k <=? d then fail (Pan OtherPanic) else ret t      (* forbid_free_vars *)
      | CVar d _ _ => if k <=? d then fail (Pan OtherPanic) else ret t
      | Node h cs =>
          match h with
          | HPlaceholder pu _ | HCPlaceholder pu _ => if ui <? pu then fail NoSol else ret t
          | HLPlaceholder pu _ =>
              if ui <? pu then
                x <- m_new_variable ui ;;
                push_outlives Invariant (lt_var x) t ;;;
                ret (lt_var x)
              else ret t
          | HInfer v _ | HCInfer v =>
              c <- get_cell v ;;
              match cval c with
              | Bound val => occ f var ui 0 val
              | Unbound u =>
                  vc <- get_cell var ;;
                  if ccls c =? ccls vc then fail NoSol else
                  (if ui <? u then promote v ui else ret tt) ;;;
                  ret t
              end
          | HLInfer v =>
              c <- get_cell v ;;
              match cval c with
              | Bound l => occ f var ui k l
              | Unbound u => (if ui <? u then promote v ui else ret tt) ;;; ret t
              end
          | _ => cs' <- mapM (occ f var ui (under h k)) cs ;; ret (Node h cs')
          end
      end
  end.

(** ** Generalisation *)

Section WithVariances.

(** [UnificationDatabase::{adt_variance, fn_def_variance}]; positions beyond the list are
    [Invariant] (the harness pads the real lists the same way). *)
Variable adt_var : N -> list variance.
Variable fn_var : N -> list variance.

Definition nth_var (vs : list variance) (i : nat) : variance := nth i vs Invariant.

Definition mapM_idx {A B} (f : nat -> A -> M B) : nat -> list A -> M (list B) :=
  fix go (i : nat) (l : list A) : M (list B) :=
    match l with
    | [] => ret []
    | x :: r => y <- f i x ;; ys <- go (S i) r ;; ret (y :: ys)
    end.

Definition is_alias_head (h : head) : bool :=
  match h with HProjection _ | HOpaqueAlias _ => true | _ => false end.

Definition mut_variance (m : mutability) : variance :=
  match m with Not => Covariant | Mut => Invariant end.

Fixpoint gen (fuel : nat) (ui : N) (v : variance) (t : tm) {struct fuel} : M tm :=
  match fuel with
  | O => fail OutOfFuel
  | S f =>
      match kind_of t with
      | KLt =>                                                       (* generalize_lifetime *)
          match t with
          | Var _ _ _ => ret t
          | _ => if is_inv v then ret t else x <- m_new_variable ui ;; ret (lt_var x)
          end
      | KConst =>                                                    (* generalize_const *)
          match t with
          | Node _ cs => x <- m_new_variable ui ;; ret (Node (HCInfer x) cs)
          | _ => ret t
          end
      | KOther => fail (Pan OtherPanic)
      | KTy =>                                                       (* generalize_ty *)
          match t with
          | Node h cs =>
              let sub (vf : nat -> variance) := cs' <- mapM_idx (fun i c => gen f ui (vf i) c) 0 cs ;; ret (Node h cs') in
              match h with
              | HAdt id => sub (fun i => if is_inv v then Invariant else nth_var (adt_var id) i)
              | HFnDef id => sub (fun i => if is_inv v then Invariant else nth_var (fn_var id) i)
              | HAssocTy _ | HTuple _ | HOpaqueTy _ | HClosure _ | HCoroutine _ | HCoroutineWitness _
              | HSlice | HArray => sub (fun _ => v)
              | HScalar _ | HStr | HNever | HForeign _ | HError | HPlaceholder _ _ => ret t
              | HRef m => sub (fun i => match i with O => xform v Contravariant | _ => mut_variance m end)
              | HRaw m => sub (fun _ => mut_variance m)
              | HDyn => fail Unsup
              | HFnPtr _ _ _ _ =>
                  let n := length cs in
                  sub (fun i => if Nat.ltb i (n - 1) then xform v Contravariant else v)
              | HProjection _ | HOpaqueAlias _ => x <- m_new_variable ui ;; ret (ty_var x General)
              | HInfer _ k =>
                  match k with
                  | Integer | FloatVar => ret t
                  | General =>
                      tb <- get_table ;;
                      match probe_tm tb t with
                      | Some p => gen f ui v (match probe_tm tb p with Some q => q | None => p end)
                      | None => if is_inv v then ret t else x <- m_new_variable ui ;; ret (ty_var x General)
                      end
                  end
              | _ => fail (Pan OtherPanic)
              end
          | _ => ret t                                               (* BoundVar *)
          end
      end
  end.

(** ** Relating *)

Definition rel_fn : Type := variance -> tm -> tm -> M unit.

(** [Zip for GenericArg]: arguments of different kinds do not zip. *)
Definition rel_garg (rec : rel_fn) (v : variance) (a b : tm) : M unit :=
  if kind_eqb (kind_of a) (kind_of b) then rec v a b else fail NoSol.

(** [zip_substs] and the fixed-arity children: position [i] is related at [vf i]; [zip]
    stops at the shorter list. *)
Definition zip_children (rec : rel_fn) (vf : nat -> variance) : nat -> list tm -> list tm -> M unit :=
  fix go (i : nat) (l l' : list tm) : M unit :=
    match l, l' with
    | x :: r, y :: r' => rel_garg rec (vf i) x y ;;; go (S i) r r'
    | _, _ => ret tt
    end.

(** Variance of child [i] of a structural type head under ambient variance [v]. *)
Definition child_variance (h : head) (v : variance) (i : nat) : variance :=
  match h with
  | HAdt id => xform v (nth_var (adt_var id) i)
  | HFnDef id => xform v (nth_var (fn_var id) i)
  | HTuple _ => xform v Covariant
  | HRef m => match i with O => xform v Contravariant | _ => xform v (mut_variance m) end
  | HRaw m => xform v (mut_variance m)
  | HSlice | HArray => v
  | _ => xform v Invariant
  end.

(** Heads handled by the structural cases of [relate_ty_ty]. *)
Definition structural_head (h : head) : bool :=
  match h with
  | HAdt _ | HAssocTy _ | HScalar _ | HStr | HTuple _ | HOpaqueTy _ | HSlice | HFnDef _ | HRef _ | HRaw _
  | HNever | HArray | HClosure _ | HCoroutine _ | HCoroutineWitness _ | HForeign _ => true
  | _ => false
  end.

Inductive tcls := CInfer (v : N) (k : tvk) | CFn | CPh | CDyn | CBound | CAlias | CErr | COther.

Definition tcls_of (a : tm) : tcls :=
  match a with
  | Var _ _ _ | CVar _ _ _ => CBound
  | Node h _ =>
      match h with
      | HInfer v k => CInfer v k
      | HFnPtr _ _ _ _ => CFn
      | HPlaceholder _ _ => CPh
      | HDyn => CDyn
      | HProjection _ | HOpaqueAlias _ => CAlias
      | HError => CErr
      | _ => COther
      end
  end.

Definition tvk_eqb (a b : tvk) : bool :=
  match a, b with General, General | Integer, Integer | FloatVar, FloatVar => true | _, _ => false end.

Definition is_integer_ty (t : tm) : bool :=
  match t with Node (HScalar (Int _)) _ | Node (HScalar (Uint _)) _ => true | _ => false end.
Definition is_float_ty (t : tm) : bool :=
  match t with Node (HScalar (Float _)) _ => true | _ => false end.

(** [relate_alias_ty] *)
Definition rel_alias (rec : rel_fn) (v : variance) (alias ty : tm) : M unit :=
  match v with
  | Invariant => push_goal (alias_eq_goal alias ty)
  | _ =>
      x <- m_new_variable 0 ;;
      push_goal (alias_eq_goal alias (ty_var x General)) ;;;
      rec v (ty_var x General) ty
  end.

(** [relate_var_ty] *)
Definition rel_var_ty (f : nat) (rec : rel_fn) (v : variance) (var : N) (k : tvk) (ty : tm) : M unit :=
  if match k with General => true | Integer => is_integer_ty ty | FloatVar => is_float_ty ty end then
    c <- get_cell var ;;
    match cval c with
    | Bound _ => fail (Pan OtherPanic)              (* universe_of_unbound_var on a bound variable *)
    | Unbound ui =>
        ty1 <- occ f var ui 0 ty ;;
        g <- gen f ui v ty1 ;;
        bind_var var g ;;;
        rec v g ty1
    end
  else fail NoSol.

(** [instantiate_binders_universally] / [_existentially] of a fn pointer's lifetime binders. *)
Definition subst_children (ps : list tm) (cs : list tm) : M (list tm) :=
  match rmap (subst ps 0) cs with
  | Ok cs' => ret cs'
  | Panic s => fail (Pan s)
  end.

Definition inst_univ (n : N) (cs : list tm) : M (list tm) :=
  if n =? 0 then subst_children [] cs
  else u <- m_new_universe ;;
       subst_children (map (fun i => Node (HLPlaceholder u (N.of_nat i)) []) (seq 0 (N.to_nat n))) cs.

Definition inst_exist (n : N) (cs : list tm) : M (list tm) :=
  tb <- get_table ;;
  xs <- mapM (fun _ => m_new_variable (maxu tb)) (seq 0 (N.to_nat n)) ;;
  subst_children (map lt_var xs) cs.

(** [Zip for FnSubst]: parameters contravariantly (equal number required), return type at [v]. *)
Definition zip_fn_subst (rec : rel_fn) (v : variance) (a b : list tm) : M unit :=
  match rev a, rev b with
  | ra :: pa, rb :: pb =>
      if Nat.eqb (length pa) (length pb) then
        zip_children rec (fun _ => xform v Contravariant) 0 (rev pa) (rev pb) ;;;
        rel_garg rec v ra rb
      else fail NoSol
  | _, _ => fail (Pan IndexOutOfBounds)
  end.

(** [relate_binders] on the two [Binders<FnSubst>] *)
Definition rel_fn_binders (rec : rel_fn) (v : variance) (na : N) (ca : list tm) (nb : N) (cb : list tm) : M unit :=
  (match v with
   | Invariant | Contravariant =>
       au <- inst_univ na ca ;; be <- inst_exist nb cb ;; zip_fn_subst rec Contravariant au be
   | Covariant => ret tt
   end) ;;;
  (match v with
   | Invariant | Covariant =>
       bu <- inst_univ nb cb ;; ae <- inst_exist na ca ;; zip_fn_subst rec Covariant ae bu
   | Contravariant => ret tt
   end).

Definition abi_eqb (a b : abi) : bool := match a, b with AbiRust, AbiRust | AbiC, AbiC => true | _, _ => false end.
Definition safety_eqb (a b : safety) : bool := match a, b with Safe, Safe | Unsafe, Unsafe => true | _, _ => false end.

(** [relate_ty_ty], after the shallow normalisation of both sides *)
Definition rel_ty_norm (f : nat) (rec : rel_fn) (v : variance) (a b : tm) : M unit :=
  if tm_eqb a b then ret tt else
  match tcls_of a, tcls_of b with
  | CInfer v1 k1, CInfer v2 k2 =>
      if tvk_eqb k1 General && tvk_eqb k2 General then
        match v with
        | Invariant => union_vars v1 v2
        | Covariant => push_goal (subtype_goal a b)
        | Contravariant => push_goal (subtype_goal b a)
        end
      else if tvk_eqb k1 k2 then union_vars v1 v2
      else if tvk_eqb k1 General then bind_var v1 b
      else if tvk_eqb k2 General then bind_var v2 a
      else fail NoSol
  | CFn, CFn =>
      match a, b with
      | Node (HFnPtr na aa sa va) ca, Node (HFnPtr nb ab sb vb) cb =>
          if abi_eqb aa ab && safety_eqb sa sb && Bool.eqb va vb then rel_fn_binders rec v na ca nb cb
          else fail NoSol
      | _, _ => fail (Pan OtherPanic)
      end
  | CPh, CPh => fail NoSol
  | CDyn, CDyn => fail Unsup
  | CBound, _ | _, CBound => fail (Pan OtherPanic)
  | _, CAlias => rel_alias rec (invert v) b a
  | CAlias, _ => rel_alias rec v a b
  | CInfer var k, _ => rel_var_ty f rec v var k b
  | _, CInfer var k => rel_var_ty f rec (invert v) var k a
  | CErr, _ | _, CErr => ret tt
  | CFn, _ | _, CFn => fail NoSol
  | CPh, _ | _, CPh => fail NoSol
  | CDyn, _ | _, CDyn => fail NoSol
  | COther, COther =>
      match a, b with
      | Node ha ca, Node hb cb =>
          if structural_head ha && head_eqb ha hb then zip_children rec (child_variance ha v) 0 ca cb
          else fail NoSol
      | _, _ => fail (Pan OtherPanic)
      end
  end.

(** [relate_ty_ty] *)
Definition rel_ty (f : nat) (rec : rel_fn) (v : variance) (a0 b0 : tm) : M unit :=
  tb <- get_table ;; rel_ty_norm f rec v (shallow_ty tb a0) (shallow_ty tb b0).

(** [unify_lifetime_var] *)
Definition unify_lifetime_var (v : variance) (var : N) (value : tm) (value_ui : N) : M unit :=
  c <- get_cell var ;;
  match cval c with
  | Bound _ => fail (Pan OtherPanic)
  | Unbound var_ui =>
      if (value_ui <=? var_ui) && is_inv v then bind_var var value
      else push_outlives v (lt_var var) value
  end.

(** [if !unify.unioned(a, b) { k }] *)
Definition unless_unioned (a b : N) (k : M unit) : M unit :=
  ca <- get_cell a ;; cb <- get_cell b ;;
  if ccls ca =? ccls cb then ret tt else k.

Inductive lcls := LInfer (v : N) | LPh (ui : N) | LStatic | LErased | LError | LBound | LBad.

Definition lcls_of (a : tm) : lcls :=
  match a with
  | Var _ _ _ | CVar _ _ _ => LBound
  | Node h _ =>
      match h with
      | HLInfer v => LInfer v
      | HLPlaceholder ui _ => LPh ui
      | HLStatic => LStatic
      | HLErased => LErased
      | HLError => LError
      | _ => LBad
      end
  end.

(** [relate_lifetime_lifetime], after the shallow normalisation of both sides *)
Definition rel_lt_norm (v : variance) (a b : tm) : M unit :=
  match lcls_of a, lcls_of b with
  | LBad, _ | _, LBad => fail (Pan OtherPanic)
  | LInfer va, LInfer vb => if is_inv v then union_vars va vb else unless_unioned va vb (push_outlives v a b)
  | LInfer va, LPh ui => unify_lifetime_var v va b ui
  | LPh ui, LInfer vb => unify_lifetime_var (invert v) vb a ui
  | LInfer va, (LErased | LStatic | LError) => unify_lifetime_var v va b 0
  | (LErased | LStatic | LError), LInfer vb => unify_lifetime_var (invert v) vb a 0
  | LStatic, LStatic | LErased, LErased => ret tt
  | LStatic, LPh _ | LStatic, LErased | LPh _, LStatic | LPh _, LPh _ | LPh _, LErased
  | LErased, LStatic | LErased, LPh _ =>
      if tm_eqb a b then ret tt else push_outlives v a b
  | LError, _ | _, LError => ret tt
  | LBound, _ | _, LBound => fail (Pan OtherPanic)
  end.

(** [relate_lifetime_lifetime] *)
Definition rel_lt (v : variance) (a0 b0 : tm) : M unit :=
  tb <- get_table ;; rel_lt_norm v (shallow1 tb a0) (shallow1 tb b0).

(** [unify_var_const] *)
Definition unify_var_const (f : nat) (var : N) (c : tm) : M unit :=
  cl <- get_cell var ;;
  match cval cl with
  | Bound _ => fail (Pan OtherPanic)
  | Unbound ui => c1 <- occ f var ui 0 c ;; bind_var var c1
  end.

Inductive ccls_t := KInfer (v : N) | KPh | KConc (n : N) | KBound | KBad.

Definition ccls_of (a : tm) : ccls_t :=
  match a with
  | CVar _ _ _ | Var _ _ _ => KBound
  | Node h _ =>
      match h with
      | HCInfer v => KInfer v
      | HCPlaceholder _ _ => KPh
      | HCConcrete n => KConc n
      | _ => KBad
      end
  end.

Definition const_ty (a : tm) : tm :=
  match a with
  | CVar _ _ c => c
  | Node _ (c :: _) => c
  | _ => Node HError []
  end.

(** [relate_const_const], after the shallow normalisation of both sides *)
Definition rel_const_norm (f : nat) (rec : rel_fn) (v : variance) (a b : tm) : M unit :=
  rec v (const_ty a) (const_ty b) ;;;
  match ccls_of a, ccls_of b with
  | KBad, _ | _, KBad => fail (Pan OtherPanic)
  | KInfer va, KInfer vb => union_vars va vb
  | KInfer va, (KConc _ | KPh) => unify_var_const f va b
  | (KConc _ | KPh), KInfer vb => unify_var_const f vb a
  | KPh, KPh => if tm_eqb (match a with Node h _ => Node h [] | _ => a end) (match b with Node h _ => Node h [] | _ => b end)
                then ret tt else fail NoSol
  | KConc x, KConc y => if x =? y then ret tt else fail NoSol
  | KConc _, KPh | KPh, KConc _ => fail NoSol
  | KBound, _ | _, KBound => fail (Pan OtherPanic)
  end.

(** [relate_const_const] *)
Definition rel_const (f : nat) (rec : rel_fn) (v : variance) (a0 b0 : tm) : M unit :=
  tb <- get_table ;; rel_const_norm f rec v (shallow1 tb a0) (shallow1 tb b0).

(** The zipper: types, lifetimes and consts. *)
Fixpoint rel (fuel : nat) (v : variance) (a b : tm) {struct fuel} : M unit :=
  match fuel with
  | O => fail OutOfFuel
  | S f =>
      match kind_of a, kind_of b with
      | KTy, KTy => rel_ty f (rel f) v a b
      | KLt, KLt => rel_lt v a b
      | KConst, KConst => rel_const f (rel f) v a b
      | _, _ => fail (Pan OtherPanic)
      end
  end.

(** [Unifier::relate]: zip, then drop the subtype goals between variables of one class. *)
Definition trivial_subtype (t : table) (g : tm) : bool :=
  match g with
  | Node HSubtypeGoal [a; b] =>
      match a, b with
      | Node (HInfer va _) _, Node (HInfer vb _) _ =>
          match get t va, get t vb with
          | Some ca, Some cb => ccls ca =? ccls cb
          | _, _ => tm_eqb a b
          end
      | _, _ => tm_eqb a b
      end
  | _ => false
  end.

Definition retain_goals (t : table) (gs : list tm) : list tm :=
  filter (fun g => negb (trivial_subtype t g)) gs.

(** [InferenceTable::relate]: snapshot; unify; commit on success, roll back on [NoSolution].
    (A panic unwinds past the rollback; running out of fuel / leaving the fragment are model
    outcomes without a counterpart.) *)
Definition relate (fuel : nat) (v : variance) (a b : tm) (t : table) : out (list tm) * table :=
  let s := snapshot t in
  match rel fuel v a b t with
  | (Done _, t', gs) => (Done (retain_goals t' gs), commit t' s)
  | (NoSol, t', _) => (NoSol, rollback_to t' s)
  | (OutOfFuel, t', _) => (OutOfFuel, t')
  | (Pan p, t', _) => (Pan p, t')
  | (Unsup, t', _) => (Unsup, t')
  end.

Lemma relate_fail_unchanged_lemma fuel v a b t t' :
  relate fuel v a b t = (NoSol, t') -> t' = t.
Proof.
  unfold relate. destruct (rel fuel v a b t) as [[[u | | | p |] t1] gs]; intros H; inversion H.
  destruct t; reflexivity.
Qed.

End WithVariances.

(** Variance tables as association lists. *)
Definition lookup_variances (tbl : list (N * list variance)) (id : N) : list variance :=
  match find (fun p => fst p =? id) tbl with Some p => snd p | None => [] end.
