(** * Infer.Complete2 — completeness of matching on tables WITH prior bindings and unions.

    Step 1 beyond [relate_complete_partial]: the table may already contain bindings (of
    unknowns to non-variable patterns, which may mention further unknowns) and unions of
    unbound unknowns.  [solves θ t] says that the ground assignment [θ] is a solution of the
    table: it is constant on classes, maps every bound unknown to the [θ]-instance of its value
    and every unbound one to a ground type all of whose placeholders are visible from the
    unknown's universe.  If [θ] solves [t] and maps the pattern [a] to the ground type
    [app_subst θ a], then [relate] succeeds without goals and without creating variables, and
    [θ] still solves the resulting table — every ground solution of the problem factors through
    the result, i.e. the result is most general among ground unifiers. *)

From Coq Require Import Arith PeanoNat Lia.
From Chalk Require Import Ir.Syntax Ir.Fold Infer.Table Infer.Unify Infer.Closed Infer.Sym Infer.Sound Infer.Complete.

Definition rigid_pattern (x : tm) : Prop :=
  pattern x = true /\ exists h cs, x = Node h cs /\ rigid_head h = true.

Definition solves (θ : N -> tm) (t : table) : Prop :=
  forall v c, get t v = Some c ->
    ground (θ v) = true
    /\ (forall w c', get t w = Some c' -> ccls c' = ccls c -> θ w = θ v /\ cval c' = cval c)
    /\ match cval c with
       | Unbound u => ph_below u (θ v) = true
       | Bound x => rigid_pattern x /\ app_subst θ x = θ v /\ (forall w, In w (pvars x) -> w < nvars t)
       end.

Lemma ground_pattern : forall x, ground x = true -> pattern x = true.
Proof.
  induction x as [| | h cs IH] using tm_ind'; try discriminate. intros G.
  apply ground_node in G. destruct G as (Rh & Gcs & Lf).
  assert (P : rigid_head h && leaf_ok h cs && forallb pattern cs = true).
  { rewrite Rh, Lf. cbn [andb]. apply forallb_forall. rewrite Forall_forall in *. auto. }
  destruct h; try discriminate Rh; exact P.
Qed.

Lemma ground_app θ : forall x, ground x = true -> app_subst θ x = x.
Proof.
  induction x as [| | h cs IH] using tm_ind'; try discriminate. intros G.
  apply ground_node in G. destruct G as (Rh & Gcs & _). rewrite (app_subst_rigid θ h cs Rh). f_equal.
  rewrite <- (map_id cs) at 2. apply map_ext_in. intros c Hc. rewrite Forall_forall in *. auto.
Qed.

Lemma ground_rigid_pattern x : ground x = true -> rigid_pattern x.
Proof.
  intros G. split; [apply ground_pattern; exact G |]. destruct x as [| | h cs]; try discriminate G.
  apply ground_node in G. destruct G as (Rh & _). eauto.
Qed.

Section Match2.
  Variable adt_var : N -> list variance.
  Variable fn_var : N -> list variance.
  Variable θ : N -> tm.

  Definition post2 (t t' : table) : Prop := solves θ t' /\ nvars t' = nvars t /\ pext t t'.

  Lemma solves_ground t v : solves θ t -> v < nvars t -> ground (θ v) = true.
  Proof. intros M L. destruct (get_lt_some t v L) as (c & E). apply (M v c E). Qed.

  (** binding a whole class of unbound unknowns to their common ground value *)
  Lemma solves_bind t v c u : solves θ t -> get t v = Some c -> cval c = Unbound u ->
    solves θ (set_value (ccls c) (Bound (θ v)) t) /\ pext t (set_value (ccls c) (Bound (θ v)) t).
  Proof.
    intros M E B. destruct (M v c E) as (Gv & Cv & _). split.
    - intros w cw Ew. rewrite get_set_value in Ew. destruct (get t w) as [c0 |] eqn:E0; cbn [option_map] in Ew; [| discriminate Ew].
      inversion Ew; subst cw. clear Ew. destruct (M w c0 E0) as (Gw & Cw & Vw). split; [exact Gw |]. split.
      + intros w' cw' Ew' Q. rewrite get_set_value in Ew'. destruct (get t w') as [c1 |] eqn:E1; cbn [option_map] in Ew'; [| discriminate Ew'].
        inversion Ew'; subst cw'. clear Ew'.
        assert (Q0 : ccls c1 = ccls c0).
        { destruct (N.eqb_spec (ccls c1) (ccls c)), (N.eqb_spec (ccls c0) (ccls c)); cbn [ccls] in Q; congruence. }
        destruct (Cw w' c1 E1 Q0) as [T1 T2]. split; [exact T1 |].
        destruct (N.eqb_spec (ccls c1) (ccls c)), (N.eqb_spec (ccls c0) (ccls c)); cbn [cval]; congruence.
      + destruct (N.eqb_spec (ccls c0) (ccls c)) as [Q | Q]; cbn [cval].
        * destruct (Cv w c0 E0 Q) as [T1 _]. rewrite nvars_set_value.
          split; [apply ground_rigid_pattern; exact Gv |]. split; [rewrite (ground_app θ _ Gv); symmetry; exact T1 |].
          rewrite (ground_no_pvars _ (ground_pattern _ Gv) Gv). intros w' [].
        * destruct (cval c0) as [u0 | x0]; [exact Vw |]. rewrite nvars_set_value. exact Vw.
    - split.
      + intros w x (cw & Ew & Bw). exists cw. split; [| exact Bw]. rewrite get_set_value, Ew. cbn [option_map].
        destruct (N.eqb_spec (ccls cw) (ccls c)) as [Q | Q]; [| reflexivity].
        destruct (Cv w cw Ew Q) as [_ T2]. rewrite T2, B in Bw. discriminate Bw.
      + intros w1 w2 (c1 & c2 & E1 & E2 & Q). eexists. eexists. rewrite !get_set_value, E1, E2. cbn [option_map].
        split; [reflexivity |]. split; [reflexivity |]. destruct (N.eqb_spec (ccls c1) (ccls c)), (N.eqb_spec (ccls c2) (ccls c)); cbn [ccls]; congruence.
  Qed.

  Section Level.
    Variable f : nat.
    Hypothesis IH : forall a t, pattern a = true -> (depth (app_subst θ a) < f)%nat -> solves θ t ->
      (forall v, In v (pvars a) -> v < nvars t) ->
      exists t', rel adt_var fn_var f Invariant a (app_subst θ a) t = (Done tt, t', []) /\ post2 t t'.

    Lemma match2_zip (vf : nat -> variance) : (forall i, vf i = Invariant) -> forall cs i t,
      Forall (fun c => pattern c = true) cs -> Forall (fun c => (depth (app_subst θ c) < f)%nat) cs -> solves θ t ->
      (forall v, In v (flat_map pvars cs) -> v < nvars t) ->
      exists t', zip_children (rel adt_var fn_var f) vf i cs (map (app_subst θ) cs) t = (Done tt, t', []) /\ post2 t t'.
    Proof.
      intros Hvf. induction cs as [| x r IHr]; intros i t Pcs Dcs M SC; cbn [map zip_children flat_map].
      - exists t. split; [reflexivity |]. split; [exact M |]. split; [reflexivity | apply pext_refl].
      - apply Forall_cons_iff in Pcs, Dcs. destruct Pcs as [Px Pr], Dcs as [Dx Dr].
        destruct (IH x t Px Dx M ltac:(intros v Hv; apply SC; cbn [flat_map]; apply in_or_app; left; exact Hv)) as (t1 & R1 & M1 & N1 & E1).
        assert (Gx : ground (app_subst θ x) = true).
        { apply pattern_ground; [exact Px |]. intros v Hv. eapply solves_ground; [exact M |]. apply SC. cbn [flat_map]. apply in_or_app. left. exact Hv. }
        assert (Kx : kind_eqb (kind_of x) (kind_of (app_subst θ x)) = true).
        { rewrite (pattern_kind x Px), (ground_kind _ Gx). reflexivity. }
        destruct (IHr (S i) t1 Pr Dr M1 ltac:(intros v Hv; rewrite N1; apply SC; cbn [flat_map]; apply in_or_app; right; exact Hv)) as (t2 & R2 & M2 & N2 & E2).
        exists t2. split.
        + unfold rel_garg. rewrite Kx, Hvf. rewrite (bind_done _ _ _ _ _ _ R1). cbn [zip_children] in R2. rewrite R2. reflexivity.
        + split; [exact M2 |]. split; [congruence | eapply pext_trans; eassumption].
    Qed.

    (** a non-variable pattern against its instance *)
    Lemma match2_norm h cs t :
      pattern (Node h cs) = true -> rigid_head h = true -> (depth (app_subst θ (Node h cs)) <= f)%nat -> solves θ t ->
      (forall v, In v (pvars (Node h cs)) -> v < nvars t) ->
      exists t', rel_ty_norm adt_var fn_var f (rel adt_var fn_var f) Invariant (Node h cs) (app_subst θ (Node h cs)) t = (Done tt, t', [])
                 /\ post2 t t'.
    Proof.
      intros P Rh D M SC.
      destruct (pattern_inv _ P) as [(v & Q) | (h' & cs' & Q & _ & Lf & Pcs)]; [inversion Q; subst; discriminate Rh |].
      inversion Q; subst h' cs'. clear Q.
      rewrite (app_subst_rigid θ h cs Rh) in *. unfold rel_ty_norm.
      destruct (tm_eqb (Node h cs) (Node h (map (app_subst θ) cs))) eqn:EQ.
      { exists t. split; [reflexivity |]. split; [exact M |]. split; [reflexivity | apply pext_refl]. }
      assert (TC : tcls_of (Node h cs) = CPh /\ cs = [] \/ (tcls_of (Node h cs) = COther /\ structural_head h = true)).
      { destruct h; try discriminate Rh; cbn [tcls_of structural_head]; auto. left. split; [reflexivity |]. destruct cs; [reflexivity | discriminate Lf]. }
      destruct TC as [[_ ->] | [TC SH]]; [cbn [map] in EQ; rewrite tm_eqb_refl in EQ; discriminate EQ |].
      assert (TC' : tcls_of (Node h (map (app_subst θ) cs)) = COther) by (destruct h; try discriminate Rh; try discriminate TC; reflexivity).
      rewrite TC, TC', SH. unfold head_eqb. destruct (head_eq_dec h h) as [_ | Q]; [| contradiction]. cbn [andb].
      assert (Dcs : Forall (fun c => (depth (app_subst θ c) < f)%nat) cs).
      { pose proof (depth_children h (map (app_subst θ) cs)) as Dc. rewrite Forall_forall in *. intros c Hc.
        specialize (Dc (app_subst θ c) (in_map _ _ _ Hc)). lia. }
      apply (match2_zip (child_variance adt_var fn_var h Invariant) ltac:(intros i; destruct h; cbn [child_variance xform]; try reflexivity; destruct i; reflexivity)
                        cs 0%nat t Pcs Dcs M ltac:(intros v Hv; apply SC; rewrite (pvars_rigid h cs Rh); exact Hv)).
    Qed.
  End Level.

  Lemma match2_complete : forall f a t,
    pattern a = true -> (depth (app_subst θ a) < f)%nat -> solves θ t -> (forall v, In v (pvars a) -> v < nvars t) ->
    exists t', rel adt_var fn_var f Invariant a (app_subst θ a) t = (Done tt, t', []) /\ post2 t t'.
  Proof.
    induction f as [| f IH]; intros a t P D M SC; [lia |].
    assert (Ga : ground (app_subst θ a) = true).
    { apply pattern_ground; [exact P |]. intros v Hv. eapply solves_ground; [exact M | apply SC; exact Hv]. }
    cbn [rel]. rewrite (pattern_kind a P), (ground_kind _ Ga). unfold rel_ty. rewrite bind_get_table'.
    unfold shallow_ty at 2. rewrite (probe_ground t _ Ga).
    destruct (pattern_inv _ P) as [(v & ->) | (h & cs & -> & Rh & Lf & Pcs)].
    - (* an unknown *)
      cbn [app_subst] in *. set (b := θ v) in *.
      destruct (get_lt_some t v (SC v ltac:(cbn [pvars]; left; reflexivity))) as (c & E).
      destruct (M v c E) as (Gb & Cv & Vb). fold b in Gb.
      destruct (cval c) as [u | x] eqn:B.
      + (* unbound: bind its class *)
        assert (PA : probe_tm t (Node (HInfer v General) []) = None) by (cbn [probe_tm]; rewrite E, B; reflexivity).
        unfold shallow_ty. rewrite PA. unfold rel_ty_norm.
        assert (NE : tm_eqb (Node (HInfer v General) []) b = false).
        { destruct (tm_eqb (Node (HInfer v General) []) b) eqn:Q; [| reflexivity]. apply tm_eqb_eq in Q. rewrite <- Q in Gb. discriminate Gb. }
        rewrite NE. cbn [tcls_of].
        assert (TB : tcls_of b = CPh \/ tcls_of b = COther).
        { destruct b as [| | hb cb]; try discriminate Gb. apply ground_node in Gb. destruct Gb as (Rb & _). destruct hb; try discriminate Rb; cbn [tcls_of]; auto. }
        assert (RV : rel_var_ty adt_var fn_var f (rel adt_var fn_var f) Invariant v General b t
                     = (Done tt, set_value (ccls c) (Bound b) t, [])).
        { unfold rel_var_ty. rewrite bind_get_cell, E, B.
          assert (Db : (depth b <= f)%nat) by lia.
          rewrite (bind_done _ _ _ _ _ _ (occ_ground f v u 0 b t Gb Vb Db)).
          rewrite (bind_done _ _ _ _ _ _ (gen_ground adt_var fn_var f u Invariant b t Gb Db)).
          assert (BV : bind_var v b t = (Done tt, set_value (ccls c) (Bound b) t, [])).
          { unfold bind_var. rewrite bind_get_cell, E, B. reflexivity. }
          rewrite (bind_done _ _ _ _ _ _ BV).
          destruct f as [| f']; [pose proof (depth_pos b); lia |].
          rewrite (rel_ground_refl adt_var fn_var f' Invariant b _ Gb). reflexivity. }
        destruct (solves_bind t v c u M E B) as [M' E'].
        exists (set_value (ccls c) (Bound b) t). split; [destruct TB as [-> | ->]; exact RV |].
        split; [exact M' |]. split; [apply nvars_set_value | exact E'].
      + (* bound: relate its value *)
        destruct Vb as ((Px & hx & csx & -> & Rhx) & Ax & Sx).
        unfold shallow_ty. cbn [probe_tm]. rewrite E, B. rewrite (probe_rigid t hx csx Rhx).
        fold b in Ax. rewrite <- Ax.
        apply (match2_norm f IH hx csx t Px Rhx); [rewrite Ax; lia | exact M | exact Sx].
    - (* a rigid node *)
      unfold shallow_ty. rewrite (probe_rigid t h cs Rh).
      apply (match2_norm f IH h cs t P Rh); [lia | exact M | exact SC].
  Qed.

  (** [InferenceTable::relate] on a pattern and its ground [θ]-instance, on a table with prior
      bindings and unions that [θ] solves: success, no goals, no new variable, and [θ] solves the
      new table, which extends the old one. *)
  Lemma relate_complete_matching_lemma fuel a t :
    pattern a = true -> (depth (app_subst θ a) < fuel)%nat -> solves θ t -> (forall v, In v (pvars a) -> v < nvars t) ->
    exists t', relate adt_var fn_var fuel Invariant a (app_subst θ a) t = (Done [], t')
               /\ solves θ t' /\ nvars t' = nvars t /\ pext t t'.
  Proof.
    intros P D M SC. destruct (match2_complete fuel a t P D M SC) as (t' & R & M' & N' & E').
    exists t'. unfold relate. rewrite R. cbn [retain_goals filter]. unfold commit. auto.
  Qed.
End Match2.
