(** * Infer.Exec — executable entry points and boolean equalities used by the correspondence
    checks (checks/c16.py, checks/c28.py) to run the models inside Coq with [vm_compute].
    No theorems here; nothing in this file is part of a proof. *)

From Chalk Require Import Ir.Syntax Ir.Fold Infer.Canon Infer.UCanon Infer.Answer.

Definition vkind_eqb (a b : vkind) : bool := if vkind_eq_dec a b then true else false.
Definition binder_eqb (a b : vkind * N) : bool := vkind_eqb (fst a) (fst b) && (snd a =? snd b).
Definition binders_eqb : list (vkind * N) -> list (vkind * N) -> bool := list_eqb binder_eqb.
Definition canonical_eqb (a b : canonical) : bool := binders_eqb (fst a) (fst b) && tm_eqb (snd a) (snd b).

(** panics are compared as panic / no panic *)
Definition out_eqb {A} (e : A -> A -> bool) (a b : out A) : bool :=
  match a, b with
  | Done x, Done y => e x y
  | Panics _, Panics _ => true
  | OutOfFuel, OutOfFuel => true
  | _, _ => false
  end.

Definition res_any_eqb {A} (e : A -> A -> bool) (a b : res A) : bool :=
  match a, b with Ok x, Ok y => e x y | Panic _, Panic _ => true | _, _ => false end.

Definition canonicalized_eqb (a b : canonical * fvs) : bool :=
  canonical_eqb (fst a) (fst b) && binders_eqb (snd a) (snd b).

(** [canonicalize] *)
Definition run_canon (fuel : nat) (T : table) (t : tm) : out (canonical * fvs) := canonicalize fuel T t.

(** [instantiate_canonical] followed by [canonicalize] on the extended table *)
Definition run_recanon (fuel : nat) (T : table) (c : canonical) : out canonical :=
  match instantiate_canonical T c with
  | Ok Tt => obind (canonicalize fuel (fst Tt) (snd Tt)) (fun x => Done (fst x))
  | Panic s => Panics s
  end.

Definition ucanonicalized_eqb (a b : ucanonicalized) : bool :=
  (fst (fst a) =? fst (fst b)) && canonical_eqb (snd (fst a)) (snd (fst b)) && list_eqb N.eqb (snd a) (snd b).

(** the universe map probed on [0 .. hi]: ([to] results, [from] results) *)
Definition probe_umap (m : umap) (nto nfrom : nat) : list (option N) * list N :=
  (map (fun i => to_canonical m (N.of_nat i)) (seq 0 nto), map (fun i => from_canonical m (N.of_nat i)) (seq 0 nfrom)).

Definition probe_eqb (a b : list (option N) * list N) : bool :=
  list_eqb (option_eqb N.eqb) (fst a) (fst b) && list_eqb N.eqb (snd a) (snd b).

(** [invert_then_canonicalize] *)
From Chalk Require Import Infer.Invert.
Definition run_invert (fuel : nat) (T : table) (t : tm) : out (option canonical) := invert_then_canonicalize fuel T t.
