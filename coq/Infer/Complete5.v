(** * Infer.Complete5 — two-sided completeness for INTEGER / FLOAT unknowns (property C14).

    Unknowns on BOTH sides, all of kind integer or float ([numpat]: rigid structure, scalars
    without arguments, numeric unknowns; no general unknown), on a table whose bound values are
    ground ([tnum]).  If a ground [θ] that maps integer (float) unknowns to integer (float)
    scalar types unifies the two types and solves the table, [relate] succeeds without goals,
    creates no variable, and [θ] solves the resulting table (numeric unknowns are unioned with
    each other or bound to scalars).  General and numeric unknowns MEETING in one two-sided problem
    (a general unknown gets bound to a numeric unknown) is not covered. *)

From Coq Require Import Arith PeanoNat Lia.
From Chalk Require Import Ir.Syntax Ir.Fold Infer.Table Infer.Unify Infer.Closed Infer.Sym Infer.Sound
  Infer.Complete Infer.Complete2 Infer.Complete3 Infer.Complete4.

Fixpoint numpat (x : tm) : bool :=
  match x with
  | Node (HInfer _ k) [] => numeric_kind k
  | Node (HScalar _) cs => match cs with [] => true | _ => false end
  | Node h cs => rigid_head h && leaf_ok h cs && forallb numpat cs
  | _ => false
  end.

Lemma numpat_inv a : numpat a = true ->
  (exists v k, a = Node (HInfer v k) [] /\ numeric_kind k = true) \/
  (exists h cs, a = Node h cs /\ rigid_head h = true /\ leaf_ok h cs = true /\ Forall (fun c => numpat c = true) cs
                /\ (forall s, h = HScalar s -> cs = [])).
Proof.
  destruct a as [| | h cs]; try discriminate. intros P.
  destruct h; try discriminate P;
    try (right; cbn [numpat] in P; rewrite !andb_true_iff, forallb_forall, <- Forall_forall in P; destruct P as [[P1 P2] P3];
         eexists; eexists; split; [reflexivity |]; split; [exact P1 |]; split; [exact P2 |]; split; [exact P3 | intros s0 Q; discriminate Q]).
  - right. destruct cs; [| discriminate P]. eexists. eexists. split; [reflexivity |]. split; [reflexivity |]. split; [reflexivity |].
    split; [constructor | intros; reflexivity].
  - destruct cs; [left; eauto | discriminate P].
Qed.

Lemma numpat_kind a : numpat a = true -> kind_of a = KTy.
Proof.
  intros P. destruct (numpat_inv _ P) as [(v & k & -> & _) | (h & cs & -> & Rh & _)]; [reflexivity |].
  destruct h; try discriminate Rh; reflexivity.
Qed.

Lemma ground_napp θ : forall x, ground x = true -> napp θ x = x.
Proof.
  induction x as [| | h cs IH] using tm_ind'; try discriminate. intros G.
  apply ground_node in G. destruct G as (Rh & Gcs & _). rewrite (napp_rigid θ h cs Rh). f_equal.
  rewrite <- (map_id cs) at 2. apply map_ext_in. intros c Hc. rewrite Forall_forall in *. auto.
Qed.

Lemma ground_nvars : forall x, ground x = true -> nvars_of x = [].
Proof.
  induction x as [| | h cs IH] using tm_ind'; try discriminate. intros G.
  apply ground_node in G. destruct G as (Rh & Gcs & _). rewrite (nvars_rigid h cs Rh).
  induction IH as [| x r Hx _ IHr]; [reflexivity |]. inversion Gcs; subst. cbn [flat_map]. rewrite Hx by assumption. apply IHr; assumption.
Qed.

Lemma ground_kinds_ok θ : forall x, ground x = true -> kinds_ok θ x = true.
Proof.
  induction x as [| | h cs IH] using tm_ind'; try discriminate. intros G.
  apply ground_node in G. destruct G as (Rh & Gcs & _). rewrite (kinds_rigid θ h cs Rh).
  apply forallb_forall. rewrite Forall_forall in *. auto.
Qed.

Lemma kind_ok_same k1 k2 g : numeric_kind k1 = true -> numeric_kind k2 = true -> kind_ok k1 g = true -> kind_ok k2 g = true -> k1 = k2.
Proof.
  destruct k1, k2; try discriminate; try reflexivity; cbn [kind_ok]; intros _ _ A B;
    destruct g as [| | h cs]; try discriminate A; destruct h; try discriminate A; destruct s; discriminate.
Qed.

Lemma kind_ok_scalar k g : numeric_kind k = true -> kind_ok k g = true -> exists s cs, g = Node (HScalar s) cs.
Proof.
  destruct k; try discriminate; cbn [kind_ok]; intros _ A; destruct g as [| | h cs]; try discriminate A; destruct h; try discriminate A; eauto.
Qed.

Section Num5.
  Variable adt_var : N -> list variance.
  Variable fn_var : N -> list variance.
  Variable θ : N -> tm.

  (** bound values are ground types whose scalars have no arguments *)
  Definition tnum (t : table) : Prop :=
    forall v c x, get t v = Some c -> cval c = Bound x -> ground x = true /\ numpat x = true.

  Definition nscoped (t : table) (y : tm) : Prop := forall v, In v (nvars_of y) -> v < nvars t.

  Definition pre5 (t : table) (a b : tm) : Prop :=
    numpat a = true /\ numpat b = true /\ kinds_ok θ a = true /\ kinds_ok θ b = true
    /\ nscoped t a /\ nscoped t b /\ napp θ a = napp θ b.

  Definition post5 (t t' : table) : Prop := solves θ t' /\ tnum t' /\ nvars t' = nvars t /\ pext t t'.

  Lemma pre5_step t t' a b : nvars t' = nvars t -> pre5 t a b -> pre5 t' a b.
  Proof. intros N (A & B & C & D & E & F & G). repeat split; auto; intros w Hw; rewrite N; auto. Qed.

  Lemma nresolve t y : numpat y = true -> kinds_ok θ y = true -> nscoped t y -> solves θ t -> tnum t ->
    numpat (shallow_ty t y) = true /\ napp θ (shallow_ty t y) = napp θ y /\ kinds_ok θ (shallow_ty t y) = true
    /\ nscoped t (shallow_ty t y)
    /\ (forall v k, shallow_ty t y = Node (HInfer v k) [] -> exists c u, get t v = Some c /\ cval c = Unbound u).
  Proof.
    intros P KO SC M TN. destruct (numpat_inv _ P) as [(v & k & -> & NK) | (h & cs & -> & Rh & _)].
    - destruct (get_lt_some t v (SC v ltac:(cbn [nvars_of]; left; reflexivity))) as (c & E).
      unfold shallow_ty. cbn [probe_tm]. rewrite E. destruct (cval c) as [u | x] eqn:B.
      + split; [exact P |]. split; [reflexivity |]. split; [exact KO |]. split; [exact SC |].
        intros v' k' Q. inversion Q; subst. eauto.
      + destruct (TN v c x E B) as [Gx Nx]. rewrite (probe_ground t x Gx).
        destruct (M v c E) as (_ & _ & V). rewrite B in V. destruct V as (_ & AS & _). rewrite (ground_app θ x Gx) in AS.
        split; [exact Nx |]. split; [rewrite (ground_napp θ x Gx); cbn [napp]; exact AS |]. split; [apply ground_kinds_ok; exact Gx |].
        split; [intros w Hw; rewrite (ground_nvars x Gx) in Hw; destruct Hw |].
        intros v' k' Q. rewrite Q in Gx. discriminate Gx.
    - unfold shallow_ty. rewrite (probe_rigid t h cs Rh). split; [exact P |]. split; [reflexivity |]. split; [exact KO |]. split; [exact SC |].
      intros v' k' Q. inversion Q; subst. discriminate Rh.
  Qed.

  (** an unbound numeric unknown against a scalar *)
  Lemma num_bind f vr v k s t c u :
    numeric_kind k = true -> kind_ok k (Node (HScalar s) []) = true -> θ v = Node (HScalar s) [] ->
    get t v = Some c -> cval c = Unbound u -> solves θ t -> tnum t ->
    exists t', rel_var_ty adt_var fn_var (S f) (rel adt_var fn_var (S f)) vr v k (Node (HScalar s) []) t = (Done tt, t', []) /\ post5 t t'.
  Proof.
    intros NK KO TV E B M TN. set (g := Node (HScalar s) []) in *.
    assert (Gg : ground g = true) by reflexivity.
    destruct (M v c E) as (_ & _ & V). rewrite B, TV in V.
    exists (set_value (ccls c) (Bound g) t). split.
    - unfold rel_var_ty. fold (kind_ok k g). rewrite KO. rewrite bind_get_cell, E, B.
      assert (Dg : (depth g <= S f)%nat) by (cbn; lia).
      rewrite (bind_done _ _ _ _ _ _ (occ_ground (S f) v u 0 g t Gg V Dg)).
      rewrite (bind_done _ _ _ _ _ _ (gen_ground adt_var fn_var (S f) u vr g t Gg Dg)).
      assert (BV : bind_var v g t = (Done tt, set_value (ccls c) (Bound g) t, [])).
      { unfold bind_var. rewrite bind_get_cell, E, B. reflexivity. }
      rewrite (bind_done _ _ _ _ _ _ BV).
      rewrite (rel_ground_refl adt_var fn_var f vr g _ Gg). reflexivity.
    - destruct (solves_bind θ t v c u M E B) as [M' E']. rewrite TV in M', E'.
      split; [exact M' |]. split; [| split; [apply nvars_set_value | exact E']].
      intros w cw x Ew Bw. rewrite get_set_value in Ew. destruct (get t w) as [c0 |] eqn:E0; cbn [option_map] in Ew; [| discriminate Ew].
      inversion Ew; subst cw. clear Ew. destruct (ccls c0 =? ccls c); cbn [cval] in Bw.
      + inversion Bw; subst x. split; reflexivity.
      + exact (TN w c0 x E0 Bw).
  Qed.

  Section Level5.
    Variable f : nat.
    Hypothesis IH : forall a b t, pre5 t a b -> (depth (napp θ a) < f)%nat -> solves θ t -> tnum t ->
      exists t', rel adt_var fn_var f Invariant a b t = (Done tt, t', []) /\ post5 t t'.

    Lemma num_zip (vf : nat -> variance) : (forall i, vf i = Invariant) -> forall cs ds i t,
      Forall2 (pre5 t) cs ds -> Forall (fun c => (depth (napp θ c) < f)%nat) cs -> solves θ t -> tnum t ->
      exists t', zip_children (rel adt_var fn_var f) vf i cs ds t = (Done tt, t', []) /\ post5 t t'.
    Proof.
      intros Hvf. induction cs as [| x r IHr]; intros ds i t F2 Dcs M TN; inversion F2 as [| x' y r' s Hxy Hrs]; subst; cbn [zip_children].
      - exists t. split; [reflexivity |]. split; [exact M |]. split; [exact TN |]. split; [reflexivity | apply pext_refl].
      - apply Forall_cons_iff in Dcs. destruct Dcs as [Dx Dr].
        destruct (IH x y t Hxy Dx M TN) as (t1 & R1 & M1 & TN1 & N1 & E1).
        assert (Kx : kind_eqb (kind_of x) (kind_of y) = true).
        { destruct Hxy as (Px & Py & _). rewrite (numpat_kind x Px), (numpat_kind y Py). reflexivity. }
        assert (F2' : Forall2 (pre5 t1) r s). { eapply Forall2_impl'; [| exact Hrs]. intros a b Hab. eapply pre5_step; eassumption. }
        destruct (IHr s (S i) t1 F2' Dr M1 TN1) as (t2 & R2 & M2 & TN2 & N2 & E2).
        exists t2. split.
        + unfold rel_garg. rewrite Kx, Hvf. rewrite (bind_done _ _ _ _ _ _ R1). cbn [zip_children] in R2. rewrite R2. reflexivity.
        + split; [exact M2 |]. split; [exact TN2 |]. split; [congruence | eapply pext_trans; eassumption].
    Qed.
  End Level5.

  Lemma num_complete : forall f a b t,
    pre5 t a b -> (depth (napp θ a) < f)%nat -> solves θ t -> tnum t ->
    exists t', rel adt_var fn_var f Invariant a b t = (Done tt, t', []) /\ post5 t t'.
  Proof.
    induction f as [| f IH]; intros a b t (Pa & Pb & Ka & Kb & Sa & Sb & AB) D M TN; [lia |].
    cbn [rel]. rewrite (numpat_kind a Pa), (numpat_kind b Pb). unfold rel_ty. rewrite bind_get_table'.
    destruct (nresolve t a Pa Ka Sa M TN) as (Pa1 & Aa1 & Ka1 & Sa1 & Ua1).
    destruct (nresolve t b Pb Kb Sb M TN) as (Pb1 & Ab1 & Kb1 & Sb1 & Ub1).
    set (a1 := shallow_ty t a) in *. set (b1 := shallow_ty t b) in *.
    assert (AB1 : napp θ a1 = napp θ b1) by congruence.
    assert (D1 : (depth (napp θ a1) <= f)%nat) by (rewrite Aa1; lia).
    assert (SAME : exists t', (Done tt, t, @nil tm) = (Done tt, t', []) /\ post5 t t').
    { exists t. split; [reflexivity |]. split; [exact M |]. split; [exact TN |]. split; [reflexivity | apply pext_refl]. }
    unfold rel_ty_norm. destruct (tm_eqb a1 b1) eqn:EQ; [exact SAME |].
    destruct (numpat_inv _ Pa1) as [(v1 & k1 & Q1 & NK1) | (ha & ca & Q1 & Rha & Lfa & Pca & SCa)];
      destruct (numpat_inv _ Pb1) as [(v2 & k2 & Q2 & NK2) | (hb & cb & Q2 & Rhb & Lfb & Pcb & SCb)]; rewrite Q1, Q2 in *.
    - (* numeric unknown / numeric unknown: union *)
      cbn [napp] in AB1. cbn [kinds_ok] in Ka1, Kb1. rewrite <- AB1 in Kb1.
      pose proof (kind_ok_same k1 k2 _ NK1 NK2 Ka1 Kb1) as ->.
      cbn [tcls_of].
      replace (tvk_eqb k2 General && tvk_eqb k2 General) with false by (destruct k2; try discriminate NK2; reflexivity).
      replace (tvk_eqb k2 k2) with true by (destruct k2; reflexivity).
      destruct (Ua1 v1 k2 eq_refl) as (c1 & u1 & E1 & B1). destruct (Ub1 v2 k2 eq_refl) as (c2 & u2 & E2 & B2).
      unfold union_vars. rewrite bind_get_cell, E1, bind_get_cell, E2.
      destruct (N.eqb_spec (ccls c1) (ccls c2)) as [Q | Q]; [exact SAME |].
      rewrite B1, B2. destruct (solves_merge θ t v1 v2 c1 c2 u1 u2 M E1 B1 E2 B2 AB1) as [M' E'].
      eexists. split; [reflexivity |]. split; [exact M' |]. split.
      + intros w cw x Ew Bw. rewrite get_merge in Ew. destruct (get t w) as [c0 |] eqn:E0; cbn [option_map] in Ew; [| discriminate Ew].
        inversion Ew; subst cw. clear Ew. destruct ((ccls c0 =? ccls c1) || (ccls c0 =? ccls c2)); cbn [cval] in Bw; [discriminate Bw |].
        exact (TN w c0 x E0 Bw).
      + split; [apply nvars_merge | exact E'].
    - (* numeric unknown / scalar *)
      rewrite (napp_rigid θ hb cb Rhb) in AB1. change (napp θ (Node (HInfer v1 k1) [])) with (θ v1) in AB1.
      change (kinds_ok θ (Node (HInfer v1 k1) [])) with (kind_ok k1 (θ v1)) in Ka1.
      destruct (kind_ok_scalar k1 _ NK1 Ka1) as (s & cs & Qs). rewrite Qs in AB1. inversion AB1 as [[Hh Hcs]]. subst hb.
      rewrite (SCb s eq_refl) in *. cbn [map] in *. subst cs.
      destruct (Ua1 v1 k1 eq_refl) as (c1 & u1 & E1 & B1). rewrite Qs in Ka1.
      cbn [tcls_of]. destruct f as [| f']; [match type of D1 with (depth ?x <= _)%nat => pose proof (depth_pos x) end; lia |].
      exact (num_bind f' Invariant v1 k1 s t c1 u1 NK1 Ka1 Qs E1 B1 M TN).
    - (* scalar / numeric unknown *)
      rewrite (napp_rigid θ ha ca Rha) in AB1. change (napp θ (Node (HInfer v2 k2) [])) with (θ v2) in AB1.
      change (kinds_ok θ (Node (HInfer v2 k2) [])) with (kind_ok k2 (θ v2)) in Kb1.
      destruct (kind_ok_scalar k2 _ NK2 Kb1) as (s & cs & Qs). rewrite Qs in AB1. inversion AB1 as [[Hh Hcs]]. subst ha.
      rewrite (SCa s eq_refl) in *. cbn [map] in *. subst cs.
      destruct (Ub1 v2 k2 eq_refl) as (c2 & u2 & E2 & B2). rewrite Qs in Kb1.
      cbn [tcls_of invert]. destruct f as [| f']; [match type of D1 with (depth ?x <= _)%nat => pose proof (depth_pos x) end; lia |].
      exact (num_bind f' Invariant v2 k2 s t c2 u2 NK2 Kb1 Qs E2 B2 M TN).
    - (* two non-variable patterns: same head, zip *)
      rewrite (napp_rigid θ ha ca Rha), (napp_rigid θ hb cb Rhb) in AB1. inversion AB1 as [[Hh Hcs]]. subst hb.
      assert (TC : tcls_of (Node ha ca) = CPh /\ ca = [] /\ cb = [] \/ (forall cs, tcls_of (Node ha cs) = COther) /\ structural_head ha = true).
      { destruct ha; try discriminate Rha; cbn [tcls_of structural_head]; auto. left. split; [reflexivity |].
        destruct ca; [| discriminate Lfa]. destruct cb; [auto | discriminate Lfb]. }
      destruct TC as [(_ & -> & ->) | [TC SH]]; [rewrite tm_eqb_refl in EQ; discriminate EQ |].
      rewrite !TC, SH. unfold head_eqb. destruct (head_eq_dec ha ha) as [_ | Q]; [| contradiction]. cbn [andb].
      rewrite (kinds_rigid θ ha ca Rha) in Ka1. rewrite (kinds_rigid θ ha cb Rhb) in Kb1.
      rewrite forallb_forall, <- Forall_forall in Ka1, Kb1.
      assert (SCa' : forall c, In c ca -> nscoped t c).
      { intros c Hc w Hw. apply Sa1. rewrite (nvars_rigid ha ca Rha). apply in_flat_map. eauto. }
      assert (SCb' : forall c, In c cb -> nscoped t c).
      { intros c Hc w Hw. apply Sb1. rewrite (nvars_rigid ha cb Rhb). apply in_flat_map. eauto. }
      assert (F2 : Forall2 (pre5 t) ca cb).
      { clear - Hcs Pca Pcb Ka1 Kb1 SCa' SCb'. revert cb Hcs Pcb Kb1 SCb'.
        induction ca as [| x r IHr]; intros cb Hcs Pcb Kb1 SCb'; destruct cb as [| y s]; try discriminate Hcs; [constructor |].
        cbn [map] in Hcs. inversion Hcs. inversion Pca; subst. inversion Pcb; subst. inversion Ka1; subst. inversion Kb1; subst.
        constructor.
        - repeat split; auto; [apply SCa' | apply SCb']; left; reflexivity.
        - apply IHr; auto; intros c Hc; [apply SCa' | apply SCb']; right; exact Hc. }
      assert (Dcs : Forall (fun c => (depth (napp θ c) < f)%nat) ca).
      { rewrite (napp_rigid θ ha ca Rha) in D1. pose proof (depth_children ha (map (napp θ) ca)) as Dc. rewrite Forall_forall in *. intros c Hc.
        specialize (Dc (napp θ c) (in_map _ _ _ Hc)). lia. }
      apply (num_zip f IH (child_variance adt_var fn_var ha Invariant) ltac:(intros i; destruct ha; cbn [child_variance xform]; try reflexivity; destruct i; reflexivity)
                     ca cb 0%nat t F2 Dcs M TN).
  Qed.

  Lemma relate_complete_two_sided_numeric_lemma fuel a b t :
    numpat a = true -> numpat b = true -> kinds_ok θ a = true -> kinds_ok θ b = true ->
    (forall v, In v (nvars_of a) -> v < nvars t) -> (forall v, In v (nvars_of b) -> v < nvars t) ->
    napp θ a = napp θ b -> (depth (napp θ a) < fuel)%nat -> solves θ t -> tnum t ->
    exists t', relate adt_var fn_var fuel Invariant a b t = (Done [], t')
               /\ solves θ t' /\ tnum t' /\ nvars t' = nvars t /\ pext t t'.
  Proof.
    intros Pa Pb Ka Kb Sa Sb AB D M TN.
    destruct (num_complete fuel a b t ltac:(repeat split; assumption) D M TN) as (t' & R & PO).
    exists t'. unfold relate. rewrite R. cbn [retain_goals filter]. unfold commit. split; [reflexivity | exact PO].
  Qed.
End Num5.

(** Non-vacuity: [(?0: int, Adt1<?1: int>, ?2: float, u8)] against [(?1: int, Adt1<i32>, f64, u8)]:
    [?0] and [?1] are unioned, then bound to [i32]; [?2] is bound to [f64]. *)
Example relate_complete_two_sided_numeric_nonvacuous :
  let t := snd (new_variable 0 (snd (new_variable 0 (snd (new_variable 0 empty_table))))) in
  let i32 := Node (HScalar (Int I32)) [] in
  let f64 := Node (HScalar (Float F64)) [] in
  let u8 := Node (HScalar (Uint U8)) [] in
  let θ := fun v : N => if v =? 2 then f64 else i32 in
  let a := Node (HTuple 4) [ty_var 0 Integer; Node (HAdt 1) [ty_var 1 Integer]; ty_var 2 FloatVar; u8] in
  let b := Node (HTuple 4) [ty_var 1 Integer; Node (HAdt 1) [i32]; f64; u8] in
  numpat a = true /\ numpat b = true /\ kinds_ok θ a = true /\ kinds_ok θ b = true /\ napp θ a = napp θ b
  /\ (depth (napp θ a) < 20)%nat /\ solves θ t /\ tnum t
  /\ exists t', relate (fun _ => []) (fun _ => []) 20 Invariant a b t = (Done [], t')
                /\ get t' 0 = Some (mkcell 0 (Bound i32)) /\ get t' 1 = Some (mkcell 0 (Bound i32))
                /\ get t' 2 = Some (mkcell 2 (Bound f64)).
Proof.
  cbv zeta. split; [reflexivity |]. split; [reflexivity |]. split; [reflexivity |]. split; [reflexivity |]. split; [reflexivity |].
  split; [cbn; lia |]. split; [| split].
  - intros v c E. pose proof (get_some_lt _ _ _ E) as L. vm_compute in L.
    assert (Hv : v = 0 \/ v = 1 \/ v = 2) by (destruct v as [| [[p | p |] | [p | p |] |]]; try discriminate L; auto; destruct p; discriminate L).
    destruct Hv as [-> | [-> | ->]]; vm_compute in E; inversion E; subst c; (split; [reflexivity |]); (split; [| reflexivity]);
      intros w c' E' Q; pose proof (get_some_lt _ _ _ E') as L'; vm_compute in L';
      assert (Hw : w = 0 \/ w = 1 \/ w = 2) by (destruct w as [| [[p | p |] | [p | p |] |]]; try discriminate L'; auto; destruct p; discriminate L');
      destruct Hw as [-> | [-> | ->]]; vm_compute in E'; inversion E'; subst c'; cbn [ccls] in Q; try discriminate Q; split; reflexivity.
  - intros v c x E B. pose proof (get_some_lt _ _ _ E) as L. vm_compute in L.
    assert (Hv : v = 0 \/ v = 1 \/ v = 2) by (destruct v as [| [[p | p |] | [p | p |] |]]; try discriminate L; auto; destruct p; discriminate L).
    destruct Hv as [-> | [-> | ->]]; vm_compute in E; inversion E; subst c; discriminate B.
  - eexists. split; [vm_compute; reflexivity |]. split; [reflexivity |]. split; reflexivity.
Qed.
