(** * Infer.Complete3 — completeness with unknowns on BOTH sides (general kinds, lifetime-free).

    Step 2 beyond [relate_complete_matching]: both arguments are patterns (rigid lifetime-free
    heads and general unknowns), the table may contain bindings and unions.  If the ground
    assignment [θ] solves the table and unifies the two patterns ([app_subst θ a = app_subst θ b]),
    then [relate] succeeds, emits no goal, creates no variable, and [θ] solves the resulting
    table: var/var pairs are unioned (keeping the smaller universe), an unknown met with a
    non-variable pattern passes the occurs check (no cycle is possible, every inner unknown can
    be promoted) and is bound.  Hence every ground unifier that respects the universes factors
    through the result.  Fuel: twice the depth of the common instance. *)

From Coq Require Import Arith PeanoNat Lia.
From Chalk Require Import Ir.Syntax Ir.Fold Infer.Table Infer.Unify Infer.Closed Infer.Sym Infer.Sound Infer.Complete Infer.Complete2.

Lemma ph_below_min m m' : forall x, ph_below m x = true -> ph_below m' x = true -> ph_below (N.min m m') x = true.
Proof. intros x H H'. destruct (N.min_spec m m') as [[_ ->] | [_ ->]]; assumption. Qed.

Lemma size_child h cs c : In c cs -> (tm_size c < tm_size (Node h cs))%nat.
Proof.
  cbn [tm_size]. induction cs as [| x r IH]; intros H; [destruct H |]. cbn [fold_right]. destruct H as [-> | H]; [lia |]. specialize (IH H). lia.
Qed.

(** what the table operations of the occurs check may do: lower universes of unbound classes *)
Definition promo (t t' : table) : Prop :=
  nvars t' = nvars t /\
  forall w c, get t w = Some c -> exists c', get t' w = Some c' /\ ccls c' = ccls c /\
    match cval c with
    | Bound x => cval c' = Bound x
    | Unbound u0 => exists u1, cval c' = Unbound u1 /\ u1 <= u0
    end.

Lemma promo_refl t : promo t t.
Proof. split; [reflexivity |]. intros w c E. exists c. split; [exact E |]. split; [reflexivity |]. destruct (cval c); [eexists; split; [reflexivity | lia] | reflexivity]. Qed.

Lemma promo_trans t1 t2 t3 : promo t1 t2 -> promo t2 t3 -> promo t1 t3.
Proof.
  intros [N1 H1] [N2 H2]. split; [congruence |]. intros w c E. destruct (H1 w c E) as (c' & E' & C' & V').
  destruct (H2 w c' E') as (c'' & E'' & C'' & V''). exists c''. split; [exact E'' |]. split; [congruence |].
  destruct (cval c) as [u0 | x].
  - destruct V' as (u1 & B1 & L1). rewrite B1 in V''. destruct V'' as (u2 & B2 & L2). exists u2. split; [exact B2 | lia].
  - rewrite V' in V''. exact V''.
Qed.

Lemma promo_pext t t' : promo t t' -> pext t t'.
Proof.
  intros [_ H]. split.
  - intros v x (c & E & B). destruct (H v c E) as (c' & E' & _ & V). rewrite B in V. exists c'. auto.
  - intros v w (c1 & c2 & E1 & E2 & Q). destruct (H v c1 E1) as (c1' & E1' & C1 & _). destruct (H w c2 E2) as (c2' & E2' & C2 & _).
    exists c1', c2'. split; [exact E1' |]. split; [exact E2' | congruence].
Qed.

Definition unbound_in (t : table) (w : N) : Prop := exists c u, get t w = Some c /\ cval c = Unbound u.

Lemma promo_unbound t t' w : promo t t' -> unbound_in t w -> unbound_in t' w.
Proof.
  intros [_ H] (c & u & E & B). destruct (H w c E) as (c' & E' & _ & V). rewrite B in V. destruct V as (u1 & B1 & _). exists c', u1. auto.
Qed.

(** Raw pointers are left out of this step: [generalize_ty] generalises their pointee covariantly
    even under the invariant relation, which creates a fresh unknown (the assignment would have to
    be extended to it). *)
Fixpoint noraw (y : tm) : bool :=
  match y with
  | Node (HRaw _) _ => false
  | Node _ cs => forallb noraw cs
  | _ => true
  end.

Definition traw (t : table) : Prop := forall v c x, get t v = Some c -> cval c = Bound x -> noraw x = true.

Lemma promo_traw t t' : promo t t' -> traw t -> traw t'.
Proof.
  intros [N H] T v c' x E' B'. assert (L : v < nvars t) by (rewrite <- N; eapply get_some_lt; exact E').
  destruct (get_lt_some t v L) as (c & E). destruct (H v c E) as (c'' & E'' & _ & V). rewrite E' in E''. inversion E''; subst c''.
  destruct (cval c) as [u0 | x0] eqn:B; [destruct V as (u1 & B1 & _); congruence |]. rewrite B' in V. inversion V; subst. exact (T v c x0 E B).
Qed.

Lemma noraw_children h cs : noraw (Node h cs) = true -> Forall (fun c => noraw c = true) cs.
Proof. intros H. apply Forall_forall. destruct h; try discriminate H; cbn [noraw] in H; rewrite forallb_forall in H; exact H. Qed.

Lemma noraw_node h cs : (forall m, h <> HRaw m) -> Forall (fun c => noraw c = true) cs -> noraw (Node h cs) = true.
Proof. intros NH H. rewrite Forall_forall in H. destruct h; cbn [noraw]; try (apply forallb_forall; exact H). exfalso. eapply NH. reflexivity. Qed.

Section Two.
  Variable adt_var : N -> list variance.
  Variable fn_var : N -> list variance.
  Variable θ : N -> tm.

  (** lowering the universe of an unbound class to a universe its value is visible from *)
  Lemma solves_lower t w c uw m :
    solves θ t -> get t w = Some c -> cval c = Unbound uw -> ph_below m (θ w) = true ->
    solves θ (set_value (ccls c) (Unbound (N.min uw m)) t) /\ promo t (set_value (ccls c) (Unbound (N.min uw m)) t).
  Proof.
    intros M E B Pm. destruct (M w c E) as (Gw & Cw & Vw). rewrite B in Vw. split.
    - intros v cv Ev. rewrite get_set_value in Ev. destruct (get t v) as [c0 |] eqn:E0; cbn [option_map] in Ev; [| discriminate Ev].
      inversion Ev; subst cv. clear Ev. destruct (M v c0 E0) as (Gv & Cv & Vv). split; [exact Gv |]. split.
      + intros v' cv' Ev' Q. rewrite get_set_value in Ev'. destruct (get t v') as [c1 |] eqn:E1; cbn [option_map] in Ev'; [| discriminate Ev'].
        inversion Ev'; subst cv'. clear Ev'.
        assert (Q0 : ccls c1 = ccls c0).
        { destruct (N.eqb_spec (ccls c1) (ccls c)), (N.eqb_spec (ccls c0) (ccls c)); cbn [ccls] in Q; congruence. }
        destruct (Cv v' c1 E1 Q0) as [T1 T2]. split; [exact T1 |].
        destruct (N.eqb_spec (ccls c1) (ccls c)), (N.eqb_spec (ccls c0) (ccls c)); cbn [cval]; congruence.
      + destruct (N.eqb_spec (ccls c0) (ccls c)) as [Q | Q]; cbn [cval].
        * destruct (Cw v c0 E0 Q) as [T1 _]. rewrite T1. apply ph_below_min; assumption.
        * destruct (cval c0) as [u0 | x0]; [exact Vv |]. rewrite nvars_set_value. exact Vv.
    - split; [apply nvars_set_value |]. intros v cv Ev. rewrite get_set_value, Ev. cbn [option_map].
      destruct (N.eqb_spec (ccls cv) (ccls c)) as [Q | Q].
      + eexists. split; [reflexivity |]. split; [cbn [ccls]; congruence |]. destruct (Cw v cv Ev Q) as [_ T2]. rewrite T2, B. cbn [cval].
        eexists. split; [reflexivity | lia].
      + exists cv. split; [reflexivity |]. split; [reflexivity |]. destruct (cval cv); [eexists; split; [reflexivity | lia] | reflexivity].
  Qed.

  Definition scoped_p (t : table) (y : tm) : Prop := forall w, In w (pvars y) -> w < nvars t.
  Definition all_unbound (t : table) (y : tm) : Prop := forall w, In w (pvars y) -> unbound_in t w.

  Definition is_var (y : tm) : bool := match y with Node (HInfer _ General) [] => true | _ => false end.

  (** fuel the occurs check needs on [y] *)
  Definition need (y : tm) : nat := (2 * depth (app_subst θ y) - (if is_var y then 0 else 1))%nat.

  Definition occ_ok (var u : N) (vc : cell) (y : tm) (t : table) (r : out tm * table * list tm) : Prop :=
    exists y' t', r = (Done y', t', []) /\ pattern y' = true /\ app_subst θ y' = app_subst θ y /\ solves θ t' /\ promo t t'
                  /\ get t' var = Some vc /\ all_unbound t' y' /\ scoped_p t' y' /\ (is_var y = false -> is_var y' = false)
                  /\ (traw t -> noraw y = true -> noraw y' = true).

  Lemma occ_pattern : forall f var u vc, cval vc = Unbound u ->
    forall k y t, pattern y = true -> solves θ t -> scoped_p t y -> get t var = Some vc ->
      ph_below u (app_subst θ y) = true -> (tm_size (app_subst θ y) + (if is_var y then 1 else 0) <= tm_size (θ var))%nat -> (need y <= f)%nat ->
      occ_ok var u vc y t (occ f var u k y t).
  Proof.
    induction f as [| f IH]; intros var u vc Hvc k y t P M SC Evar PB SZ NF.
    { exfalso. unfold need in NF. pose proof (depth_pos (app_subst θ y)). destruct (is_var y); lia. }
    destruct (pattern_inv _ P) as [(w & ->) | (h & cs & -> & Rh & Lf & Pcs)].
    - (* an unknown *)
      cbn [app_subst] in *. cbn [occ].
      destruct (get_lt_some t w (SC w ltac:(cbn [pvars]; left; reflexivity))) as (c & E).
      rewrite bind_get_cell, E. destruct (M w c E) as (Gw & Cw & Vw).
      destruct (cval c) as [uw | x] eqn:B.
      + rewrite bind_get_cell, Evar.
        destruct (N.eqb_spec (ccls c) (ccls vc)) as [Q | NQ].
        { exfalso. destruct (M var vc Evar) as (_ & Cvar & _). destruct (Cvar w c E Q) as [T _]. rewrite T in SZ. cbn [is_var] in SZ. lia. }
        assert (FIN : forall t', solves θ t' -> promo t t' -> get t' var = Some vc ->
                     occ_ok var u vc (Node (HInfer w General) []) t (Done (Node (HInfer w General) []), t', [])).
        { intros t' M' PR V'. exists (Node (HInfer w General) []), t'. split; [reflexivity |]. split; [reflexivity |]. split; [reflexivity |].
          split; [exact M' |]. split; [exact PR |]. split; [exact V' |]. split.
          - intros w' [<- | []]. eapply promo_unbound; [exact PR |]. exists c, uw. auto.
          - split; [| split; [intros Q; discriminate Q | intros _ _; reflexivity]]. intros w' [<- | []]. rewrite (proj1 PR). eapply get_some_lt; exact E. }
        destruct (N.ltb_spec u uw) as [L | L].
        * unfold promote. rewrite (bind_done _ _ _ _ _ _ (eq_refl : (c0 <- get_cell w;; _) t = _)) || idtac.
          assert (PRM : promote w u t = (Done tt, set_value (ccls c) (Unbound (N.min uw u)) t, [])).
          { unfold promote. rewrite bind_get_cell, E, B. reflexivity. }
          fold (promote w u). rewrite (bind_done _ _ _ _ _ _ PRM). cbn [ret app].
          destruct (solves_lower t w c uw u M E B PB) as [M' PR]. apply FIN; [exact M' | exact PR |].
          rewrite get_set_value, Evar. cbn [option_map]. destruct (N.eqb_spec (ccls vc) (ccls c)); [congruence | reflexivity].
        * rewrite bind_ret. cbn [ret]. apply FIN; [exact M | apply promo_refl | exact Evar].
      + (* bound: fold its value *)
        destruct Vw as ((Px & hx & csx & -> & Rhx) & Ax & Sx).
        assert (NX : (need (Node hx csx) <= f)%nat).
        { unfold need in *. rewrite Ax. cbn [is_var app_subst] in NF. replace (is_var (Node hx csx)) with false by (destruct hx; try discriminate Rhx; reflexivity). cbv iota. lia. }
        destruct (IH var u vc Hvc 0 (Node hx csx) t Px M Sx Evar ltac:(rewrite Ax; exact PB) ltac:(rewrite Ax; cbn [is_var] in SZ; replace (is_var (Node hx csx)) with false by (destruct hx; try discriminate Rhx; reflexivity); lia) NX)
          as (y' & t' & R & Py' & Ay' & M' & PR & V' & UB & SC' & _ & NR).
        exists y', t'. split; [exact R |]. split; [exact Py' |]. split; [rewrite Ay'; exact Ax |]. split; [exact M' |]. split; [exact PR |].
        split; [exact V' |]. split; [exact UB |]. split; [exact SC' |]. split; [intros Q; discriminate Q |].
        intros TR _. apply NR; [exact TR | exact (TR w c _ E B)].
    - (* a rigid node: fold the children *)
      rewrite (app_subst_rigid θ h cs Rh) in *. apply ph_below_node in PB. destruct PB as [PBh PBcs].
      assert (LIST : forall cs0 t0, Forall (fun c => pattern c = true) cs0 -> incl cs0 cs -> solves θ t0 -> promo t t0 -> get t0 var = Some vc ->
                  exists cs' t', mapM (occ f var u (under h k)) cs0 t0 = (Done cs', t', []) /\ Forall (fun c => pattern c = true) cs'
                    /\ map (app_subst θ) cs' = map (app_subst θ) cs0 /\ solves θ t' /\ promo t0 t' /\ get t' var = Some vc
                    /\ (forall c, In c cs' -> all_unbound t' c /\ scoped_p t' c)
                    /\ (traw t -> Forall (fun c => noraw c = true) cs0 -> Forall (fun c => noraw c = true) cs')).
      { induction cs0 as [| x r IHr]; intros t0 Pc Inc M0 PR0 V0; cbn [mapM].
        - exists [], t0. split; [reflexivity |]. split; [constructor |]. split; [reflexivity |]. split; [exact M0 |]. split; [apply promo_refl |]. split; [exact V0 |]. split; [intros c [] | intros _ _; constructor].
        - apply Forall_cons_iff in Pc. destruct Pc as [Px Pr].
          assert (Hx : In x cs) by (apply Inc; left; reflexivity).
          assert (SCx : scoped_p t0 x).
          { intros w' Hw'. rewrite (proj1 PR0). apply SC. rewrite (pvars_rigid h cs Rh). apply in_flat_map. eauto. }
          assert (PBx : ph_below u (app_subst θ x) = true).
          { rewrite Forall_forall in PBcs. apply PBcs. apply in_map. exact Hx. }
          assert (SZx : (tm_size (app_subst θ x) + (if is_var x then 1 else 0) <= tm_size (θ var))%nat).
          { pose proof (size_child h (map (app_subst θ) cs) (app_subst θ x) (in_map _ _ _ Hx)). destruct (is_var x), (is_var (Node h cs)); lia. }
          assert (NFx : (need x <= f)%nat).
          { unfold need in *. rewrite ?(app_subst_rigid θ h cs Rh) in NF. replace (is_var (Node h cs)) with false in NF by (destruct h; try discriminate Rh; reflexivity). cbv iota in NF.
            pose proof (depth_children h (map (app_subst θ) cs)) as Dc. rewrite Forall_forall in Dc. specialize (Dc _ (in_map _ _ _ Hx)).
            destruct (is_var x); lia. }
          destruct (IH var u vc Hvc (under h k) x t0 Px M0 SCx V0 PBx SZx NFx) as (x' & t1 & R1 & Px' & Ax' & M1 & PR1 & V1 & UB1 & SC1 & _ & NR1).
          destruct (IHr t1 Pr ltac:(intros z Hz; apply Inc; right; exact Hz) M1 (promo_trans _ _ _ PR0 PR1) V1)
            as (r' & t2 & R2 & Pr' & Ar' & M2 & PR2 & V2 & UB2 & NR2).
          exists (x' :: r'), t2. split.
          + rewrite (bind_done _ _ _ _ _ _ R1). rewrite (bind_done _ _ _ _ _ _ R2). reflexivity.
          + split; [constructor; assumption |]. split; [cbn [map]; congruence |]. split; [exact M2 |].
            split; [eapply promo_trans; eassumption |]. split; [exact V2 |]. split.
            * intros c [<- | Hc]; [| apply UB2; exact Hc]. split.
              -- intros w' Hw'. eapply promo_unbound; [exact PR2 | apply UB1; exact Hw'].
              -- intros w' Hw'. rewrite (proj1 PR2). apply SC1. exact Hw'.
            * intros TR Hn. apply Forall_cons_iff in Hn. destruct Hn as [Hnx Hnr].
              constructor; [apply NR1; [eapply promo_traw; eassumption | exact Hnx] | apply NR2; assumption]. }
      destruct (LIST cs t Pcs (incl_refl _) M (promo_refl t) Evar) as (cs' & t' & R & Pcs' & Acs' & M' & PR & V' & UB & NRL).
      assert (OCC : occ (S f) var u k (Node h cs) t = (Done (Node h cs'), t', [])).
      { cbn [occ]. assert (DEF : (cs0 <- mapM (occ f var u (under h k)) cs;; ret (Node h cs0)) t = (Done (Node h cs'), t', [])).
        { rewrite (bind_done _ _ _ _ _ _ R). reflexivity. }
        destruct h; try discriminate Rh; try exact DEF.
        (* placeholder: no children, visible *)
        destruct cs; [| discriminate Lf]. cbn [mapM] in R. inversion R; subst. destruct (N.ltb_spec u ui); [lia | reflexivity]. }
      assert (LEN : length cs' = length cs) by (rewrite <- (map_length (app_subst θ) cs'), Acs', map_length; reflexivity).
      exists (Node h cs'), t'. split; [exact OCC |]. split.
      { assert (Q : rigid_head h && leaf_ok h cs' && forallb pattern cs' = true).
        { rewrite Rh. replace (leaf_ok h cs') with true by (destruct h; try reflexivity; destruct cs; [destruct cs'; [reflexivity | discriminate LEN] | discriminate Lf]).
          cbn [andb]. apply forallb_forall. rewrite Forall_forall in Pcs'. exact Pcs'. }
        destruct h; try discriminate Rh; exact Q. }
      split; [rewrite (app_subst_rigid θ h cs' Rh), ?(app_subst_rigid θ h cs Rh), Acs'; reflexivity |]. split; [exact M' |]. split; [exact PR |]. split; [exact V' |].
      split; [intros w Hw; rewrite (pvars_rigid h cs' Rh) in Hw; apply in_flat_map in Hw; destruct Hw as (c & Hc & Hw); apply (proj1 (UB c Hc)); exact Hw |].
      split; [intros w Hw; rewrite (pvars_rigid h cs' Rh) in Hw; apply in_flat_map in Hw; destruct Hw as (c & Hc & Hw); apply (proj2 (UB c Hc)); exact Hw |].
      split; [intros _; destruct h; try discriminate Rh; reflexivity |].
      intros TR Hn. pose proof (NRL TR (noraw_children _ _ Hn)) as Hc. apply noraw_node; [| exact Hc]. intros m Q. subst h. discriminate Hn.
  Qed.

  (** generalisation (invariant) of a pattern whose unknowns are all unbound changes nothing *)
  Lemma gen_unbound : forall f u y t, pattern y = true -> noraw y = true -> all_unbound t y -> (depth y <= f)%nat ->
    gen adt_var fn_var f u Invariant y t = (Done y, t, []).
  Proof.
    induction f as [| f IH]; intros u y t P NR UB D; [pose proof (depth_pos y); lia |].
    destruct (pattern_inv _ P) as [(w & ->) | (h & cs & -> & Rh & Lf & Pcs)].
    - cbn [gen kind_of head_kind]. rewrite bind_get_table'.
      destruct (UB w ltac:(cbn [pvars]; left; reflexivity)) as (c & uw & E & B).
      cbn [probe_tm]. rewrite E, B. reflexivity.
    - cbn [gen].
      assert (FA : forall i : nat, Forall (fun c => gen adt_var fn_var f u Invariant c t = (Done c, t, [])) cs).
      { intros _. pose proof (depth_children h cs) as Dc. pose proof (noraw_children _ _ NR) as NRc. rewrite Forall_forall in *. intros c Hc. apply IH; auto.
        - intros w Hw. apply UB. rewrite (pvars_rigid h cs Rh). apply in_flat_map. eauto.
        - specialize (Dc c Hc). lia. }
      assert (R : forall vf : nat -> variance, (forall i, vf i = Invariant) ->
                   (cs' <- mapM_idx (fun i c => gen adt_var fn_var f u (vf i) c) 0 cs;; ret (Node h cs')) t = (Done (Node h cs), t, [])).
      { intros vf Hvf. rewrite (bind_done _ _ _ _ _ _ (mapM_idx_same (fun i c => gen adt_var fn_var f u (vf i) c) cs t ltac:(intros i; eapply Forall_impl; [| apply (FA i)]; intros c Hc; cbn beta; rewrite Hvf; exact Hc) 0%nat)). reflexivity. }
      destruct h; try discriminate Rh; try discriminate NR; cbn [kind_of head_kind is_inv variance_eqb]; cbv zeta; try reflexivity; apply R; intros i; reflexivity.
  Qed.

  Lemma depth_app : forall y, pattern y = true -> (depth y <= depth (app_subst θ y))%nat.
  Proof.
    induction y as [| | h cs IH] using tm_ind'; try discriminate. intros P.
    destruct (pattern_inv _ P) as [(w & Q) | (h' & cs' & Q & Rh & _ & Pcs)].
    - inversion Q; subst. cbn [app_subst depth fold_right]. pose proof (depth_pos (θ w)). lia.
    - inversion Q; subst h' cs'. rewrite (app_subst_rigid θ h cs Rh). cbn [depth]. apply le_n_S.
      clear Q P. induction IH as [| x r Hx _ IHr]; [cbn; lia |]. inversion Pcs; subst. cbn [map fold_right].
      specialize (Hx H1). specialize (IHr H2). lia.
  Qed.

  (** merging two classes of unbound unknowns with the same [θ]-value *)
  Lemma solves_merge t v1 v2 c1 c2 u1 u2 :
    solves θ t -> get t v1 = Some c1 -> cval c1 = Unbound u1 -> get t v2 = Some c2 -> cval c2 = Unbound u2 -> θ v1 = θ v2 ->
    solves θ (merge (ccls c1) (ccls c2) (Unbound (N.min u1 u2)) t) /\ pext t (merge (ccls c1) (ccls c2) (Unbound (N.min u1 u2)) t).
  Proof.
    intros M E1 B1 E2 B2 T. destruct (M v1 c1 E1) as (G1 & C1 & V1). destruct (M v2 c2 E2) as (G2 & C2 & V2). rewrite B1 in V1. rewrite B2 in V2.
    set (p := fun c : cell => (ccls c =? ccls c1) || (ccls c =? ccls c2)).
    assert (IN : forall w cw, get t w = Some cw -> p cw = true -> θ w = θ v1 /\ exists uw, cval cw = Unbound uw).
    { intros w cw Ew Pw. unfold p in Pw. apply orb_true_iff in Pw. destruct Pw as [Q | Q]; apply N.eqb_eq in Q.
      - destruct (C1 w cw Ew Q) as [A B]. split; [exact A |]. rewrite B, B1. eauto.
      - destruct (C2 w cw Ew Q) as [A B]. split; [congruence |]. rewrite B, B2. eauto. }
    split.
    - intros w cw Ew. rewrite get_merge in Ew. destruct (get t w) as [c0 |] eqn:E0; cbn [option_map] in Ew; [| discriminate Ew].
      inversion Ew; subst cw. clear Ew. destruct (M w c0 E0) as (Gw & Cw & Vw). split; [exact Gw |]. split.
      + intros w' cw' Ew' Q. rewrite get_merge in Ew'. destruct (get t w') as [c0' |] eqn:E0'; cbn [option_map] in Ew'; [| discriminate Ew'].
        inversion Ew'; subst cw'. clear Ew'. fold (p c0) in *. fold (p c0') in *.
        destruct (p c0') eqn:P', (p c0) eqn:P0; cbn [ccls cval] in *.
        * destruct (IN w' c0' E0' P') as [A _]. destruct (IN w c0 E0 P0) as [A' _]. split; [congruence | reflexivity].
        * exfalso. assert (p c0 = true); [| congruence]. unfold p. rewrite <- Q. destruct (N.min_spec (ccls c1) (ccls c2)) as [[_ ->] | [_ ->]]; rewrite N.eqb_refl; [reflexivity | apply orb_true_r].
        * exfalso. assert (p c0' = true); [| congruence]. unfold p. rewrite Q. destruct (N.min_spec (ccls c1) (ccls c2)) as [[_ ->] | [_ ->]]; rewrite N.eqb_refl; [reflexivity | apply orb_true_r].
        * exact (Cw w' c0' E0' Q).
      + fold (p c0). destruct (p c0) eqn:P0; cbn [cval].
        * destruct (IN w c0 E0 P0) as [A _]. rewrite A. apply ph_below_min; [exact V1 | rewrite T; exact V2].
        * destruct (cval c0) as [u0 | x0]; [exact Vw |]. rewrite nvars_merge. exact Vw.
    - split.
      + intros w x (cw & Ew & Bw). exists cw. split; [| exact Bw]. rewrite get_merge, Ew. cbn [option_map]. fold (p cw).
        destruct (p cw) eqn:Pw; [| reflexivity]. destruct (IN w cw Ew Pw) as [_ (uw & Q)]. rewrite Q in Bw. discriminate Bw.
      + intros w1 w2 (d1 & d2 & Ed1 & Ed2 & Q). eexists. eexists. rewrite !get_merge, Ed1, Ed2. cbn [option_map].
        split; [reflexivity |]. split; [reflexivity |]. rewrite Q. destruct ((ccls d2 =? ccls c1) || (ccls d2 =? ccls c2)); cbn [ccls]; congruence.
  Qed.

  (** binding a class of unbound unknowns to a non-variable pattern with the same [θ]-value *)
  Lemma solves_bind_pattern t v c u x :
    solves θ t -> get t v = Some c -> cval c = Unbound u -> rigid_pattern x -> app_subst θ x = θ v -> scoped_p t x ->
    solves θ (set_value (ccls c) (Bound x) t) /\ pext t (set_value (ccls c) (Bound x) t).
  Proof.
    intros M E B RP AX SCx. destruct (M v c E) as (Gv & Cv & _). split.
    - intros w cw Ew. rewrite get_set_value in Ew. destruct (get t w) as [c0 |] eqn:E0; cbn [option_map] in Ew; [| discriminate Ew].
      inversion Ew; subst cw. clear Ew. destruct (M w c0 E0) as (Gw & Cw & Vw). split; [exact Gw |]. split.
      + intros w' cw' Ew' Q. rewrite get_set_value in Ew'. destruct (get t w') as [c1 |] eqn:E1; cbn [option_map] in Ew'; [| discriminate Ew'].
        inversion Ew'; subst cw'. clear Ew'.
        assert (Q0 : ccls c1 = ccls c0).
        { destruct (N.eqb_spec (ccls c1) (ccls c)), (N.eqb_spec (ccls c0) (ccls c)); cbn [ccls] in Q; congruence. }
        destruct (Cw w' c1 E1 Q0) as [T1 T2]. split; [exact T1 |].
        destruct (N.eqb_spec (ccls c1) (ccls c)), (N.eqb_spec (ccls c0) (ccls c)); cbn [cval]; congruence.
      + destruct (N.eqb_spec (ccls c0) (ccls c)) as [Q | Q]; cbn [cval].
        * destruct (Cv w c0 E0 Q) as [T1 _]. rewrite nvars_set_value. split; [exact RP |]. split; [congruence | exact SCx].
        * destruct (cval c0) as [u0 | x0]; [exact Vw |]. rewrite nvars_set_value. exact Vw.
    - split.
      + intros w y (cw & Ew & Bw). exists cw. split; [| exact Bw]. rewrite get_set_value, Ew. cbn [option_map].
        destruct (N.eqb_spec (ccls cw) (ccls c)) as [Q | Q]; [| reflexivity].
        destruct (Cv w cw Ew Q) as [_ T2]. rewrite T2, B in Bw. discriminate Bw.
      + intros w1 w2 (c1 & c2 & E1 & E2 & Q). eexists. eexists. rewrite !get_set_value, E1, E2. cbn [option_map].
        split; [reflexivity |]. split; [reflexivity |]. destruct (N.eqb_spec (ccls c1) (ccls c)), (N.eqb_spec (ccls c2) (ccls c)); cbn [ccls]; congruence.
  Qed.

  Lemma is_var_inv y : pattern y = true -> is_var y = true -> exists w, y = Node (HInfer w General) [].
  Proof.
    intros P V. destruct (pattern_inv _ P) as [(w & ->) | (h & cs & -> & Rh & _)]; [eauto |].
    destruct h; try discriminate Rh; discriminate V.
  Qed.

  Lemma not_var_rigid y : pattern y = true -> is_var y = false -> exists h cs, y = Node h cs /\ rigid_head h = true.
  Proof.
    intros P V. destruct (pattern_inv _ P) as [(w & ->) | (h & cs & -> & Rh & _)]; [discriminate V | eauto].
  Qed.

  (** shallow normalisation of a pattern *)
  Lemma resolve_spec t y : pattern y = true -> solves θ t -> scoped_p t y -> traw t -> noraw y = true ->
    pattern (shallow_ty t y) = true /\ app_subst θ (shallow_ty t y) = app_subst θ y /\ scoped_p t (shallow_ty t y)
    /\ noraw (shallow_ty t y) = true /\ (is_var (shallow_ty t y) = true -> all_unbound t (shallow_ty t y)).
  Proof.
    intros P M SC TR NR. destruct (pattern_inv _ P) as [(w & ->) | (h & cs & -> & Rh & _)].
    - destruct (get_lt_some t w (SC w ltac:(cbn [pvars]; left; reflexivity))) as (c & E).
      destruct (M w c E) as (_ & _ & Vw). unfold shallow_ty. cbn [probe_tm]. rewrite E.
      destruct (cval c) as [u | x] eqn:B.
      + split; [exact P |]. split; [reflexivity |]. split; [exact SC |]. split; [exact NR |].
        intros _ w' [<- | []]. exists c, u. auto.
      + destruct Vw as ((Px & hx & csx & -> & Rhx) & Ax & Sx). rewrite (probe_rigid t hx csx Rhx).
        split; [exact Px |]. split; [exact Ax |]. split; [exact Sx |]. split; [exact (TR w c _ E B) |].
        intros Q. destruct hx; try discriminate Rhx; discriminate Q.
    - unfold shallow_ty. rewrite (probe_rigid t h cs Rh). split; [exact P |]. split; [reflexivity |]. split; [exact SC |]. split; [exact NR |].
      intros Q. destruct h; try discriminate Rh; discriminate Q.
  Qed.

  Lemma rel_rigid_refl f v h cs t : pattern (Node h cs) = true -> rigid_head h = true ->
    rel adt_var fn_var (S f) v (Node h cs) (Node h cs) t = (Done tt, t, []).
  Proof.
    intros P Rh. cbn [rel]. rewrite (pattern_kind _ P). unfold rel_ty. rewrite bind_get_table'.
    unfold shallow_ty. rewrite (probe_rigid t h cs Rh). unfold rel_ty_norm. rewrite tm_eqb_refl. reflexivity.
  Qed.

  Definition post3 (t t' : table) : Prop := solves θ t' /\ traw t' /\ nvars t' = nvars t /\ pext t t'.

  (** an unbound unknown against a non-variable pattern with the same instance *)
  Lemma bind_case f v h cs t :
    pattern (Node h cs) = true -> rigid_head h = true -> noraw (Node h cs) = true -> solves θ t -> traw t -> scoped_p t (Node h cs) ->
    all_unbound t (Node (HInfer v General) []) -> app_subst θ (Node h cs) = θ v -> (2 * depth (θ v) <= f)%nat ->
    exists t', rel_var_ty adt_var fn_var f (rel adt_var fn_var f) Invariant v General (Node h cs) t = (Done tt, t', []) /\ post3 t t'.
  Proof.
    intros P Rh NR M TR SC UB AX FU. unfold rel_var_ty.
    destruct (UB v ltac:(cbn [pvars]; left; reflexivity)) as (vc & u & E & B).
    rewrite bind_get_cell, E, B. destruct (M v vc E) as (Gv & Cv & Vv). rewrite B in Vv.
    assert (NV : is_var (Node h cs) = false) by (destruct h; try discriminate Rh; reflexivity).
    pose proof (depth_pos (θ v)) as DP.
    destruct (occ_pattern f v u vc B 0 (Node h cs) t P M SC E ltac:(rewrite AX; exact Vv) ltac:(rewrite AX, NV; lia)
                          ltac:(unfold need; rewrite AX, NV; lia))
      as (y' & t1 & R1 & Py' & Ay' & M1 & PR1 & V1 & UB1 & SC1 & NV1 & NR1).
    rewrite (bind_done _ _ _ _ _ _ R1).
    assert (Dy : (depth y' <= f)%nat). { pose proof (depth_app y' Py') as H. rewrite Ay', AX in H. lia. }
    rewrite (bind_done _ _ _ _ _ _ (gen_unbound f u y' t1 Py' (NR1 TR NR) UB1 Dy)).
    assert (BV : bind_var v y' t1 = (Done tt, set_value (ccls vc) (Bound y') t1, [])).
    { unfold bind_var. rewrite bind_get_cell, V1, B. reflexivity. }
    rewrite (bind_done _ _ _ _ _ _ BV).
    destruct (not_var_rigid y' Py' (NV1 NV)) as (hy & csy & -> & Rhy).
    destruct f as [| f']; [lia |].
    rewrite (rel_rigid_refl f' Invariant hy csy _ Py' Rhy).
    destruct (solves_bind_pattern t1 v vc u (Node hy csy) M1 V1 B ltac:(split; [exact Py' | eauto]) ltac:(rewrite Ay'; exact AX) SC1) as [M2 E2].
    eexists. split; [reflexivity |]. split; [exact M2 |]. split.
    - intros w cw x Ew Bw. rewrite get_set_value in Ew. destruct (get t1 w) as [c0 |] eqn:E0; cbn [option_map] in Ew; [| discriminate Ew].
      inversion Ew; subst cw. clear Ew. destruct (N.eqb_spec (ccls c0) (ccls vc)); cbn [cval] in Bw.
      + inversion Bw; subst. exact (NR1 TR NR).
      + exact (promo_traw _ _ PR1 TR w c0 x E0 Bw).
    - split; [rewrite nvars_set_value; exact (proj1 PR1) |]. eapply pext_trans; [apply promo_pext; exact PR1 | exact E2].
  Qed.

  Definition pre3 (t : table) (a b : tm) : Prop :=
    pattern a = true /\ pattern b = true /\ noraw a = true /\ noraw b = true /\ scoped_p t a /\ scoped_p t b
    /\ app_subst θ a = app_subst θ b.

  Lemma pre3_step t t' a b : nvars t' = nvars t -> pre3 t a b -> pre3 t' a b.
  Proof. intros N (A & B & C & D & E & F & G). repeat split; auto; intros w Hw; rewrite N; auto. Qed.

  Section Level3.
    Variable f : nat.
    Hypothesis IH : forall a b t, pre3 t a b -> (2 * depth (app_subst θ a) < f)%nat -> solves θ t -> traw t ->
      exists t', rel adt_var fn_var f Invariant a b t = (Done tt, t', []) /\ post3 t t'.

    Lemma two_zip (vf : nat -> variance) : (forall i, vf i = Invariant) -> forall cs ds i t,
      Forall2 (pre3 t) cs ds -> Forall (fun c => (2 * depth (app_subst θ c) < f)%nat) cs -> solves θ t -> traw t ->
      exists t', zip_children (rel adt_var fn_var f) vf i cs ds t = (Done tt, t', []) /\ post3 t t'.
    Proof.
      intros Hvf. induction cs as [| x r IHr]; intros ds i t F2 Dcs M TR; inversion F2 as [| x' y r' s Hxy Hrs]; subst; cbn [zip_children].
      - exists t. split; [reflexivity |]. split; [exact M |]. split; [exact TR |]. split; [reflexivity | apply pext_refl].
      - apply Forall_cons_iff in Dcs. destruct Dcs as [Dx Dr].
        destruct (IH x y t Hxy Dx M TR) as (t1 & R1 & M1 & TR1 & N1 & E1).
        assert (Kx : kind_eqb (kind_of x) (kind_of y) = true).
        { destruct Hxy as (Px & Py & _). rewrite (pattern_kind x Px), (pattern_kind y Py). reflexivity. }
        assert (F2' : Forall2 (pre3 t1) r s). { eapply Forall2_impl'; [| exact Hrs]. intros a b Hab. eapply pre3_step; eassumption. }
        destruct (IHr s (S i) t1 F2' Dr M1 TR1) as (t2 & R2 & M2 & TR2 & N2 & E2).
        exists t2. split.
        + unfold rel_garg. rewrite Kx, Hvf. rewrite (bind_done _ _ _ _ _ _ R1). cbn [zip_children] in R2. rewrite R2. reflexivity.
        + split; [exact M2 |]. split; [exact TR2 |]. split; [congruence | eapply pext_trans; eassumption].
    Qed.
  End Level3.

  Lemma scoped_children t h cs : rigid_head h = true -> scoped_p t (Node h cs) -> forall c, In c cs -> scoped_p t c.
  Proof. intros Rh SC c Hc w Hw. apply SC. rewrite (pvars_rigid h cs Rh). apply in_flat_map. eauto. Qed.

  Lemma pattern_children h cs : pattern (Node h cs) = true -> rigid_head h = true -> Forall (fun c => pattern c = true) cs /\ leaf_ok h cs = true.
  Proof.
    intros P Rh. destruct (pattern_inv _ P) as [(w & Q) | (h' & cs' & Q & _ & Lf & Pcs)]; [inversion Q; subst; discriminate Rh |].
    inversion Q; subst. auto.
  Qed.

  Lemma two_complete : forall f a b t,
    pre3 t a b -> (2 * depth (app_subst θ a) < f)%nat -> solves θ t -> traw t ->
    exists t', rel adt_var fn_var f Invariant a b t = (Done tt, t', []) /\ post3 t t'.
  Proof.
    induction f as [| f IH]; intros a b t (Pa & Pb & Na & Nb & Sa & Sb & AB) D M TR; [lia |].
    cbn [rel]. rewrite (pattern_kind a Pa), (pattern_kind b Pb). unfold rel_ty. rewrite bind_get_table'.
    destruct (resolve_spec t a Pa M Sa TR Na) as (Pa1 & Aa1 & Sa1 & Na1 & Ua1).
    destruct (resolve_spec t b Pb M Sb TR Nb) as (Pb1 & Ab1 & Sb1 & Nb1 & Ub1).
    set (a1 := shallow_ty t a) in *. set (b1 := shallow_ty t b) in *.
    assert (AB1 : app_subst θ a1 = app_subst θ b1) by congruence.
    assert (D1 : (2 * depth (app_subst θ a1) <= f)%nat) by (rewrite Aa1; lia).
    unfold rel_ty_norm. destruct (tm_eqb a1 b1) eqn:EQ.
    { exists t. split; [reflexivity |]. split; [exact M |]. split; [exact TR |]. split; [reflexivity | apply pext_refl]. }
    destruct (is_var a1) eqn:Va, (is_var b1) eqn:Vb.
    - (* unknown / unknown: union *)
      destruct (is_var_inv a1 Pa1 Va) as (v1 & Q1). destruct (is_var_inv b1 Pb1 Vb) as (v2 & Q2). rewrite Q1, Q2 in *.
      cbn [tcls_of tvk_eqb andb]. cbn [app_subst] in AB1.
      destruct (Ua1 eq_refl v1 ltac:(cbn [pvars]; left; reflexivity)) as (c1 & u1 & E1 & B1).
      destruct (Ub1 eq_refl v2 ltac:(cbn [pvars]; left; reflexivity)) as (c2 & u2 & E2 & B2).
      unfold union_vars. rewrite bind_get_cell, E1, bind_get_cell, E2.
      destruct (N.eqb_spec (ccls c1) (ccls c2)) as [Q | Q].
      + exists t. split; [reflexivity |]. split; [exact M |]. split; [exact TR |]. split; [reflexivity | apply pext_refl].
      + rewrite B1, B2. destruct (solves_merge t v1 v2 c1 c2 u1 u2 M E1 B1 E2 B2 AB1) as [M' E'].
        eexists. split; [reflexivity |]. split; [exact M' |]. split.
        * intros w cw x Ew Bw. rewrite get_merge in Ew. destruct (get t w) as [c0 |] eqn:E0; cbn [option_map] in Ew; [| discriminate Ew].
          inversion Ew; subst cw. clear Ew. destruct ((ccls c0 =? ccls c1) || (ccls c0 =? ccls c2)); cbn [cval] in Bw; [discriminate Bw |].
          exact (TR w c0 x E0 Bw).
        * split; [apply nvars_merge | exact E'].
    - (* unknown / non-variable *)
      destruct (is_var_inv a1 Pa1 Va) as (v1 & Q1). destruct (not_var_rigid b1 Pb1 Vb) as (hb & cb & Q2 & Rhb). rewrite Q1, Q2 in *.
      cbn [app_subst] in AB1, D1.
      assert (TB : tcls_of (Node hb cb) = CPh \/ tcls_of (Node hb cb) = COther) by (destruct hb; try discriminate Rhb; cbn [tcls_of]; auto).
      destruct (bind_case f v1 hb cb t Pb1 Rhb Nb1 M TR Sb1 (Ua1 eq_refl) (eq_sym AB1) D1) as (t' & R & PO).
      exists t'. split; [| exact PO]. destruct TB as [TB | TB]; rewrite TB; exact R.
    - (* non-variable / unknown *)
      destruct (is_var_inv b1 Pb1 Vb) as (v2 & Q2). destruct (not_var_rigid a1 Pa1 Va) as (ha & ca & Q1 & Rha). rewrite Q1, Q2 in *.
      cbn [app_subst] in AB1.
      assert (TA : tcls_of (Node ha ca) = CPh \/ tcls_of (Node ha ca) = COther) by (destruct ha; try discriminate Rha; cbn [tcls_of]; auto).
      destruct (bind_case f v2 ha ca t Pa1 Rha Na1 M TR Sa1 (Ub1 eq_refl) AB1 ltac:(rewrite <- AB1; exact D1)) as (t' & R & PO).
      exists t'. split; [| exact PO]. destruct TA as [TA | TA]; rewrite TA; exact R.
    - (* two non-variable patterns: same head, zip *)
      destruct (not_var_rigid a1 Pa1 Va) as (ha & ca & Q1 & Rha). destruct (not_var_rigid b1 Pb1 Vb) as (hb & cb & Q2 & Rhb). rewrite Q1, Q2 in *.
      rewrite (app_subst_rigid θ ha ca Rha), (app_subst_rigid θ hb cb Rhb) in AB1. inversion AB1 as [[Hh Hcs]]. subst hb.
      destruct (pattern_children ha ca Pa1 Rha) as [Pca Lfa]. destruct (pattern_children ha cb Pb1 Rhb) as [Pcb Lfb].
      assert (TC : tcls_of (Node ha ca) = CPh /\ ca = [] /\ cb = [] \/ (forall cs, tcls_of (Node ha cs) = COther) /\ structural_head ha = true).
      { destruct ha; try discriminate Rha; cbn [tcls_of structural_head]; auto. left. split; [reflexivity |].
        destruct ca; [| discriminate Lfa]. destruct cb; [auto | discriminate Lfb]. }
      destruct TC as [(_ & -> & ->) | [TC SH]]; [rewrite tm_eqb_refl in EQ; discriminate EQ |].
      rewrite !TC, SH. unfold head_eqb. destruct (head_eq_dec ha ha) as [_ | Q]; [| contradiction]. cbn [andb].
      assert (F2 : Forall2 (pre3 t) ca cb).
      { pose proof (noraw_children _ _ Na1) as NCa. pose proof (noraw_children _ _ Nb1) as NCb.
        pose proof (scoped_children t ha ca Rha Sa1) as SCa. pose proof (scoped_children t ha cb Rhb Sb1) as SCb.
        clear - Hcs Pca Pcb NCa NCb SCa SCb. revert cb Hcs Pcb NCb SCb.
        induction ca as [| x r IHr]; intros cb Hcs Pcb NCb SCb; destruct cb as [| y s]; try discriminate Hcs; [constructor |].
        cbn [map] in Hcs. inversion Hcs. inversion Pca; subst. inversion Pcb; subst. inversion NCa; subst. inversion NCb; subst.
        constructor.
        - repeat split; auto; [apply SCa | apply SCb]; left; reflexivity.
        - apply IHr; auto; intros c Hc; [apply SCa | apply SCb]; right; exact Hc. }
      assert (Dcs : Forall (fun c => (2 * depth (app_subst θ c) < f)%nat) ca).
      { rewrite (app_subst_rigid θ ha ca Rha) in D1. pose proof (depth_children ha (map (app_subst θ) ca)) as Dc. rewrite Forall_forall in *. intros c Hc.
        specialize (Dc (app_subst θ c) (in_map _ _ _ Hc)). lia. }
      apply (two_zip f IH (child_variance adt_var fn_var ha Invariant) ltac:(intros i; destruct ha; cbn [child_variance xform]; try reflexivity; destruct i; reflexivity)
                     ca cb 0%nat t F2 Dcs M TR).
  Qed.

  (** [InferenceTable::relate] on two patterns that [θ] unifies. *)
  Lemma relate_complete_two_sided_lemma fuel a b t :
    pattern a = true -> pattern b = true -> noraw a = true -> noraw b = true ->
    (forall v, In v (pvars a) -> v < nvars t) -> (forall v, In v (pvars b) -> v < nvars t) ->
    app_subst θ a = app_subst θ b -> (2 * depth (app_subst θ a) < fuel)%nat -> solves θ t -> traw t ->
    exists t', relate adt_var fn_var fuel Invariant a b t = (Done [], t')
               /\ solves θ t' /\ traw t' /\ nvars t' = nvars t /\ pext t t'.
  Proof.
    intros Pa Pb Na Nb Sa Sb AB D M TR.
    destruct (two_complete fuel a b t ltac:(repeat split; assumption) D M TR) as (t' & R & PO).
    exists t'. unfold relate. rewrite R. cbn [retain_goals filter]. unfold commit. split; [reflexivity | exact PO].
  Qed.
End Two.

(** Non-vacuity: [(?0, Adt1<?1>, ?2)] against [(Adt1<?2>, ?0, [!1_0])] with [?0], [?1] in the root
    universe and [?2] in universe 1 — var/var through bindings, an occurs check that promotes [?2],
    and a universe-respecting solution [θ]. *)
Example relate_complete_two_sided_nonvacuous :
  let t := snd (new_variable 1 (snd (new_variable 1 (snd (new_variable 1 (snd (new_universe empty_table))))))) in
  let g := Node HSlice [Node (HPlaceholder 1 0) []] in
  let θ := fun v : N => if v =? 2 then g else Node (HAdt 1) [g] in
  let a := Node (HTuple 3) [ty_var 0 General; Node (HAdt 1) [ty_var 2 General]; ty_var 2 General] in
  let b := Node (HTuple 3) [Node (HAdt 1) [ty_var 2 General]; ty_var 1 General; g] in
  pattern a = true /\ pattern b = true /\ noraw a = true /\ noraw b = true /\ app_subst θ a = app_subst θ b
  /\ (2 * depth (app_subst θ a) < 20)%nat /\ solves θ t /\ traw t
  /\ exists t', relate (fun _ => []) (fun _ => []) 20 Invariant a b t = (Done [], t') /\ t' <> t.
Proof.
  cbv zeta. split; [reflexivity |]. split; [reflexivity |]. split; [reflexivity |]. split; [reflexivity |]. split; [reflexivity |].
  split; [cbn; lia |]. split; [| split].
  - intros v c E. pose proof (get_some_lt _ _ _ E) as L. vm_compute in L.
    assert (Hv : v = 0 \/ v = 1 \/ v = 2) by (destruct v as [| [[p | p |] | [p | p |] |]]; try discriminate L; auto; destruct p; discriminate L).
    destruct Hv as [-> | [-> | ->]]; vm_compute in E; inversion E; subst c; (split; [reflexivity |]); (split; [| reflexivity]);
      intros w c' E' Q; pose proof (get_some_lt _ _ _ E') as L'; vm_compute in L';
      assert (Hw : w = 0 \/ w = 1 \/ w = 2) by (destruct w as [| [[p | p |] | [p | p |] |]]; try discriminate L'; auto; destruct p; discriminate L');
      destruct Hw as [-> | [-> | ->]]; vm_compute in E'; inversion E'; subst c'; cbn [ccls] in Q; try discriminate Q; split; reflexivity.
  - intros v c x E B. pose proof (get_some_lt _ _ _ E) as L. vm_compute in L.
    assert (Hv : v = 0 \/ v = 1 \/ v = 2) by (destruct v as [| [[p | p |] | [p | p |] |]]; try discriminate L; auto; destruct p; discriminate L).
    destruct Hv as [-> | [-> | ->]]; vm_compute in E; inversion E; subst c; discriminate B.
  - eexists. split; [vm_compute; reflexivity | intros Q; discriminate Q].
Qed.

(** ** Integer / float kinds: the three var cases, each on an arbitrary table in which the
    unknowns involved are unbound (no occurs check is involved in any of them). *)
Section Numeric.
  Variable adt_var : N -> list variance.
  Variable fn_var : N -> list variance.

  Definition numeric_kind (k : tvk) : bool := match k with General => false | _ => true end.

  Definition scalar_of_kind (k : tvk) (s : scalar) : bool :=
    match k, s with
    | Integer, (Int _ | Uint _) => true
    | FloatVar, Float _ => true
    | _, _ => false
    end.

  (** an integer (float) unknown against an integer (float) scalar: bound to it *)
  Lemma relate_complete_numeric_scalar_lemma f v k s t c u vr :
    numeric_kind k = true -> scalar_of_kind k s = true -> get t v = Some c -> cval c = Unbound u ->
    relate adt_var fn_var (S (S (S f))) vr (Node (HInfer v k) []) (Node (HScalar s) []) t
    = (Done [], set_value (ccls c) (Bound (Node (HScalar s) [])) t).
  Proof.
    intros NK SK E B. unfold relate. cbn [rel kind_of head_kind]. unfold rel_ty. rewrite bind_get_table'.
    unfold shallow_ty. cbn [probe_tm]. rewrite E, B. unfold rel_ty_norm.
    replace (tm_eqb (Node (HInfer v k) []) (Node (HScalar s) [])) with false by (symmetry; destruct (tm_eqb (Node (HInfer v k) []) (Node (HScalar s) [])) eqn:Q; [apply tm_eqb_eq in Q; discriminate Q | reflexivity]).
    cbn [tcls_of]. unfold rel_var_ty.
    replace (match k with General => true | Integer => is_integer_ty (Node (HScalar s) []) | FloatVar => is_float_ty (Node (HScalar s) []) end) with true
      by (destruct k, s; try discriminate NK; try discriminate SK; reflexivity).
    rewrite bind_get_cell, E, B.
    assert (OC : occ (S (S f)) v u 0 (Node (HScalar s) []) t = (Done (Node (HScalar s) []), t, [])) by reflexivity.
    rewrite (bind_done _ _ _ _ _ _ OC).
    assert (G : gen adt_var fn_var (S (S f)) u vr (Node (HScalar s) []) t = (Done (Node (HScalar s) []), t, [])) by reflexivity.
    rewrite (bind_done _ _ _ _ _ _ G).
    assert (BV : bind_var v (Node (HScalar s) []) t = (Done tt, set_value (ccls c) (Bound (Node (HScalar s) [])) t, [])).
    { unfold bind_var. rewrite bind_get_cell, E, B. reflexivity. }
    rewrite (bind_done _ _ _ _ _ _ BV).
    cbn [rel kind_of head_kind]. unfold rel_ty. rewrite bind_get_table'. unfold shallow_ty. cbn [probe_tm]. unfold rel_ty_norm.
    rewrite tm_eqb_refl. reflexivity.
  Qed.

  (** two unbound unknowns of the same numeric kind: unioned (whatever the variance) *)
  Lemma relate_complete_numeric_var_var_lemma f v1 v2 k t c1 c2 u1 u2 vr :
    numeric_kind k = true -> get t v1 = Some c1 -> cval c1 = Unbound u1 -> get t v2 = Some c2 -> cval c2 = Unbound u2 ->
    ccls c1 <> ccls c2 ->
    relate adt_var fn_var (S f) vr (Node (HInfer v1 k) []) (Node (HInfer v2 k) []) t
    = (Done [], merge (ccls c1) (ccls c2) (Unbound (N.min u1 u2)) t).
  Proof.
    intros NK E1 B1 E2 B2 NC. unfold relate. cbn [rel kind_of head_kind]. unfold rel_ty. rewrite bind_get_table'.
    unfold shallow_ty. cbn [probe_tm]. rewrite E1, B1, E2, B2. unfold rel_ty_norm.
    assert (NE : tm_eqb (Node (HInfer v1 k) []) (Node (HInfer v2 k) []) = false).
    { destruct (tm_eqb (Node (HInfer v1 k) []) (Node (HInfer v2 k) [])) eqn:Q; [| reflexivity]. apply tm_eqb_eq in Q. inversion Q; subst.
      rewrite E1 in E2. inversion E2; subst. contradiction. }
    rewrite NE. cbn [tcls_of].
    replace (tvk_eqb k General && tvk_eqb k General) with false by (destruct k; try discriminate NK; reflexivity).
    replace (tvk_eqb k k) with true by (destruct k; reflexivity).
    unfold union_vars. rewrite bind_get_cell, E1, bind_get_cell, E2.
    destruct (N.eqb_spec (ccls c1) (ccls c2)); [contradiction |]. rewrite B1, B2. reflexivity.
  Qed.

  (** an unbound general unknown against an unbound integer / float unknown: the general one is
      bound to the numeric unknown (in either argument order) *)
  Lemma relate_complete_general_numeric_lemma f v1 v2 k t c1 u1 vr :
    numeric_kind k = true -> get t v1 = Some c1 -> cval c1 = Unbound u1 -> probe_tm t (Node (HInfer v2 k) []) = None ->
    relate adt_var fn_var (S f) vr (Node (HInfer v1 General) []) (Node (HInfer v2 k) []) t
    = (Done [], set_value (ccls c1) (Bound (Node (HInfer v2 k) [])) t)
    /\ relate adt_var fn_var (S f) vr (Node (HInfer v2 k) []) (Node (HInfer v1 General) []) t
       = (Done [], set_value (ccls c1) (Bound (Node (HInfer v2 k) [])) t).
  Proof.
    intros NK E1 B1 P2.
    assert (P1 : probe_tm t (Node (HInfer v1 General) []) = None) by (cbn [probe_tm]; rewrite E1, B1; reflexivity).
    assert (BV : bind_var v1 (Node (HInfer v2 k) []) t = (Done tt, set_value (ccls c1) (Bound (Node (HInfer v2 k) [])) t, [])).
    { unfold bind_var. rewrite bind_get_cell, E1, B1. reflexivity. }
    split; unfold relate; cbn [rel kind_of head_kind]; unfold rel_ty; rewrite bind_get_table'; unfold shallow_ty; rewrite P1, P2; unfold rel_ty_norm.
    - replace (tm_eqb (Node (HInfer v1 General) []) (Node (HInfer v2 k) [])) with false
        by (symmetry; destruct (tm_eqb (Node (HInfer v1 General) []) (Node (HInfer v2 k) [])) eqn:Q; [apply tm_eqb_eq in Q; inversion Q; subst; discriminate NK | reflexivity]).
      cbn [tcls_of]. destruct k; try discriminate NK; cbn [tvk_eqb andb]; rewrite BV; reflexivity.
    - replace (tm_eqb (Node (HInfer v2 k) []) (Node (HInfer v1 General) [])) with false
        by (symmetry; destruct (tm_eqb (Node (HInfer v2 k) []) (Node (HInfer v1 General) [])) eqn:Q; [apply tm_eqb_eq in Q; inversion Q; subst; discriminate NK | reflexivity]).
      cbn [tcls_of]. destruct k; try discriminate NK; cbn [tvk_eqb andb]; rewrite BV; reflexivity.
  Qed.
End Numeric.
