(** * Infer.UCanon — model of universe canonicalization (chalk-solve/src/infer/ucanonicalize.rs):
    [UniverseMap::{add, map_universe_to_canonical, map_universe_from_canonical,
    map_from_canonical}], [UCollector], [UMapToCanonical], [UMapFromCanonical] and
    [InferenceTable::u_canonicalize].

    [map_from_canonical] is modelled twice: [map_from_canonical] is the repaired code (a
    [fold_free_placeholder_const] exists), [map_from_canonical_orig] the code as it was on the
    unchanged tree, where [UMapFromCanonical] did not override [fold_free_placeholder_const]
    and constant placeholders therefore kept their canonical universe (DESIGN §5 F5). *)

From Chalk Require Import Ir.Syntax Ir.Fold Infer.Canon.

(** ** The universe map: a strictly increasing vector of universes, starting as [[U0]] *)

Definition umap := list N.

(** [UniverseMapExt::add]: sorted insertion without duplicates ([binary_search] + [insert]) *)
Fixpoint uadd (u : N) (l : umap) : umap :=
  match l with
  | [] => [u]
  | x :: r => if u <? x then u :: l else if u =? x then l else x :: uadd u r
  end.

Fixpoint uindex (u : N) (l : umap) : option N :=
  match l with
  | [] => None
  | x :: r => if u =? x then Some 0 else option_map N.succ (uindex u r)
  end.

(** [map_universe_to_canonical]: the index of the universe in the vector *)
Definition to_canonical (m : umap) (u : N) : option N := uindex u m.

(** [map_universe_from_canonical]: the universe at that index; an index out of range denotes
    an implicitly bound fresh universe and is mapped beyond the last one.  (The vector is never
    empty: it starts as [[U0]] and only grows.) *)
Definition from_canonical (m : umap) (c : N) : N :=
  match nth_error m (N.to_nat c) with
  | Some u => u
  | None => last m 0 + (c - N.of_nat (length m)) + 1
  end.

(** ** Traversals *)

Definition ph_of (h : head) : option (N * N) :=
  match h with
  | HPlaceholder u i | HLPlaceholder u i | HCPlaceholder u i => Some (u, i)
  | _ => None
  end.

Definition set_ph (h : head) (u : N) : head :=
  match h with
  | HPlaceholder _ i => HPlaceholder u i
  | HLPlaceholder _ i => HLPlaceholder u i
  | HCPlaceholder _ i => HCPlaceholder u i
  | _ => h
  end.

(** the universes of the placeholders, in traversal order ([UCollector::visit_free_placeholder];
    const types are not visited) *)
Fixpoint phs (t : tm) : list N :=
  match t with
  | Var _ _ _ | CVar _ _ _ => []
  | Node h cs =>
      match ph_of h with
      | Some (u, _) => [u]
      | None => if leaf_head h then [] else flat_map phs cs
      end
  end.

(** [forbid_inference_vars]: the three folders/visitors panic on an inference variable *)
Fixpoint no_infer (t : tm) : bool :=
  match t with
  | Var _ _ _ | CVar _ _ _ => true
  | Node h cs =>
      match infer_of h with
      | Some _ => false
      | None => if const_head h then true else forallb no_infer cs
      end
  end.

(** a folder that maps the universe of every placeholder selected by [sel] with [f], rebuilds
    everything else, and panics on inference variables *)
Fixpoint map_ph (sel : head -> bool) (f : N -> res N) (t : tm) : res tm :=
  match t with
  | Var _ _ _ | CVar _ _ _ => Ok t
  | Node h cs =>
      match ph_of h with
      | Some (u, _) => if sel h then rbind (f u) (fun u' => Ok (Node (set_ph h u') cs)) else Ok t
      | None =>
          match infer_of h with
          | Some _ => Panic OtherPanic
          | None => if const_head h then Ok t else rbind (rmap (map_ph sel f) cs) (fun cs' => Ok (Node h cs'))
          end
      end
  end.

Definition all_ph (h : head) : bool := true.
(** the unchanged [UMapFromCanonical]: no [fold_free_placeholder_const] *)
Definition not_const_ph (h : head) : bool := match h with HCPlaceholder _ _ => false | _ => true end.

Definition to_f (m : umap) (u : N) : res N :=
  match to_canonical m u with Some c => Ok c | None => Panic UnwrapNone end.

Definition from_f (m : umap) (c : N) : res N := Ok (from_canonical m c).

Definition map_binders (f : N -> res N) (bs : list (vkind * N)) : res (list (vkind * N)) :=
  rmap (fun b => rbind (f (snd b)) (fun u => Ok (fst b, u))) bs.

(** [UCanonicalized]: number of canonical universes, the canonical value, the universe map *)
Definition ucanonicalized := (N * canonical * umap)%type.

(** [InferenceTable::u_canonicalize] *)
Definition u_canonicalize (c : canonical) : res ucanonicalized :=
  if no_infer (snd c) then
    let m := fold_left (fun m u => uadd u m) (map snd (fst c) ++ phs (snd c)) [0] in
    rbind (map_ph all_ph (to_f m) (snd c)) (fun v =>
    rbind (map_binders (to_f m) (fst c)) (fun bs =>
    Ok (N.of_nat (length m), (bs, v), m)))
  else Panic OtherPanic.

(** [UniverseMapExt::map_from_canonical] (repaired) *)
Definition map_from_canonical (m : umap) (c : canonical) : res canonical :=
  rbind (map_binders (from_f m) (fst c)) (fun bs =>
  rbind (map_ph all_ph (from_f m) (snd c)) (fun v => Ok (bs, v))).

(** ... and as on the unchanged tree *)
Definition map_from_canonical_orig (m : umap) (c : canonical) : res canonical :=
  rbind (map_binders (from_f m) (fst c)) (fun bs =>
  rbind (map_ph not_const_ph (from_f m) (snd c)) (fun v => Ok (bs, v))).

(** ** The universe vector is strictly increasing *)

Fixpoint ssorted (l : list N) : Prop :=
  match l with
  | [] => True
  | x :: r => (forall y, In y r -> x < y) /\ ssorted r
  end.

Lemma uadd_in u l x : In x (uadd u l) <-> x = u \/ In x l.
Proof.
  induction l as [| y r IH]; cbn [uadd In]; [intuition |].
  destruct (N.ltb_spec u y); cbn [In]; [intuition |].
  destruct (N.eqb_spec u y) as [-> | Hne]; cbn [In]; [intuition |].
  rewrite IH. intuition.
Qed.

Lemma uadd_sorted u l : ssorted l -> ssorted (uadd u l).
Proof.
  induction l as [| y r IH]; cbn [uadd ssorted]; [intros _; split; [intros ? [] | exact I] |].
  intros [Hy Hr]. destruct (N.ltb_spec u y) as [Hlt | Hge].
  - cbn [ssorted]. split; [| split; assumption]. intros z [<- | Hz]; [assumption |]. specialize (Hy z Hz). lia.
  - destruct (N.eqb_spec u y) as [-> | Hne]; cbn [ssorted]; [split; assumption |].
    split; [| apply IH; assumption]. intros z Hz. apply uadd_in in Hz. destruct Hz as [-> | Hz]; [lia | apply Hy; assumption].
Qed.

Lemma fold_uadd_sorted us : forall m, ssorted m -> ssorted (fold_left (fun m u => uadd u m) us m).
Proof. induction us as [| u us IH]; intros m H; cbn [fold_left]; [assumption |]. apply IH. apply uadd_sorted. assumption. Qed.

Lemma fold_uadd_in us : forall m x, In x (fold_left (fun m u => uadd u m) us m) <-> In x us \/ In x m.
Proof.
  induction us as [| u us IH]; intros m x; cbn [fold_left In]; [intuition |].
  rewrite IH, uadd_in. intuition.
Qed.

Lemma uindex_some u l : In u l -> exists c, uindex u l = Some c /\ nth_error l (N.to_nat c) = Some u.
Proof.
  induction l as [| x r IH]; intros H; [destruct H |]. cbn [uindex].
  destruct (N.eqb_spec u x) as [-> | Hne]; [exists 0; split; reflexivity |].
  destruct H as [E | H]; [congruence |]. destruct (IH H) as (c & Hc & Hn). rewrite Hc. cbn [option_map].
  exists (N.succ c). split; [reflexivity |]. rewrite N2Nat.inj_succ. assumption.
Qed.

Lemma uindex_nth u l c : uindex u l = Some c -> nth_error l (N.to_nat c) = Some u.
Proof.
  revert c. induction l as [| x r IH]; intros c H; cbn [uindex] in H; [discriminate |].
  destruct (N.eqb_spec u x) as [-> | Hne]; [inversion H; reflexivity |].
  destruct (uindex u r) as [c' |]; cbn [option_map] in H; [| discriminate]. inversion H; subst.
  rewrite N2Nat.inj_succ. apply IH. reflexivity.
Qed.

Lemma ssorted_nth l : ssorted l -> forall i j x y, (i < j)%nat -> nth_error l i = Some x -> nth_error l j = Some y -> x < y.
Proof.
  induction l as [| z r IH]; intros Hs i j x y Hij Hi Hj; [destruct i; discriminate |].
  destruct Hs as [Hz Hr]. destruct j as [| j]; [lia |]. cbn [nth_error] in Hj. destruct i as [| i]; cbn [nth_error] in Hi.
  - inversion Hi; subst. apply Hz. eapply nth_error_In. eassumption.
  - apply (IH Hr i j); [lia | assumption | assumption].
Qed.

Lemma ssorted_last l : ssorted l -> forall i x, nth_error l i = Some x -> x <= last l 0.
Proof.
  induction l as [| z r IH]; intros Hs i x Hi; [destruct i; discriminate |].
  destruct Hs as [Hz Hr]. destruct r as [| z' r'].
  - destruct i as [| [| i]]; cbn in Hi; inversion Hi; subst. cbn. lia.
  - change (last (z :: z' :: r') 0) with (last (z' :: r') 0). destruct i as [| i]; cbn [nth_error] in Hi.
    + inversion Hi; subst. specialize (IH Hr 0%nat z' eq_refl). specialize (Hz z' (or_introl eq_refl)). lia.
    + apply (IH Hr i). assumption.
Qed.

(** [map_universe_to_canonical] is strictly monotone on the universes it knows ... *)
Lemma to_canonical_mono m : ssorted m -> forall a b ca cb,
  to_canonical m a = Some ca -> to_canonical m b = Some cb -> (a < b <-> ca < cb).
Proof.
  intros Hs a b ca cb Ha Hb. apply uindex_nth in Ha. apply uindex_nth in Hb.
  destruct (N.lt_trichotomy ca cb) as [H | [H | H]].
  - assert (a < b) by (apply (ssorted_nth m Hs (N.to_nat ca) (N.to_nat cb)); [lia | assumption | assumption]). intuition.
  - subst. rewrite Ha in Hb. inversion Hb. subst. lia.
  - assert (b < a) by (apply (ssorted_nth m Hs (N.to_nat cb) (N.to_nat ca)); [lia | assumption | assumption]). lia.
Qed.

(** ... and [map_universe_from_canonical] on all canonical universes, in or out of range *)
Lemma from_canonical_mono m : ssorted m -> forall c1 c2, c1 < c2 -> from_canonical m c1 < from_canonical m c2.
Proof.
  intros Hs c1 c2 H. unfold from_canonical.
  destruct (nth_error m (N.to_nat c1)) as [u1 |] eqn:E1; destruct (nth_error m (N.to_nat c2)) as [u2 |] eqn:E2.
  - apply (ssorted_nth m Hs (N.to_nat c1) (N.to_nat c2)); [lia | assumption | assumption].
  - pose proof (ssorted_last m Hs _ _ E1). lia.
  - apply nth_error_None in E1. assert (N.to_nat c2 < length m)%nat by (apply nth_error_Some; congruence). lia.
  - apply nth_error_None in E1. apply nth_error_None in E2. lia.
Qed.

Lemma from_to_canonical m u c : to_canonical m u = Some c -> from_canonical m c = u.
Proof. intros H. apply uindex_nth in H. unfold from_canonical. rewrite H. reflexivity. Qed.

(** ** Round trip *)

Lemma ph_of_set_ph h u i c : ph_of h = Some (u, i) -> ph_of (set_ph h c) = Some (c, i) /\ set_ph (set_ph h c) u = h.
Proof. destruct h; cbn; intros H; inversion H; split; reflexivity. Qed.

Lemma ph_of_infer_none h p : ph_of h = Some p -> infer_of h = None.
Proof. destruct h; cbn; intros H; try discriminate; reflexivity. Qed.

Lemma map_ph_roundtrip f g : forall v, no_infer v = true ->
  (forall u, In u (phs v) -> exists c, f u = Ok c /\ g c = Ok u) ->
  exists v', map_ph all_ph f v = Ok v' /\ map_ph all_ph g v' = Ok v.
Proof.
  induction v as [s d i | d i ct _ | h cs IH] using tm_ind'; intros Hn Hp; cbn [map_ph no_infer phs] in *.
  - eexists. split; reflexivity.
  - eexists. split; reflexivity.
  - destruct (ph_of h) as [[u i] |] eqn:Ep.
    + destruct (Hp u (or_introl eq_refl)) as (c & Hf & Hg). cbn [all_ph]. rewrite Hf. cbn [rbind].
      eexists. split; [reflexivity |]. cbn [map_ph]. destruct (ph_of_set_ph h u i c Ep) as [E1 E2].
      rewrite E1. cbn [all_ph]. rewrite Hg. cbn [rbind]. rewrite E2. reflexivity.
    + unfold leaf_head in Hp. destruct (infer_of h) as [[w vk] |] eqn:Ei; [discriminate |].
      destruct (const_head h) eqn:Ec.
      * eexists. split; [reflexivity |]. cbn [map_ph]. rewrite Ep, Ei, Ec. reflexivity.
      * assert (L : exists cs', rmap (map_ph all_ph f) cs = Ok cs' /\ rmap (map_ph all_ph g) cs' = Ok cs).
        { clear - IH Hn Hp. induction cs as [| x l IHl]; [exists []; split; reflexivity |].
          inversion IH; subst. cbn [forallb] in Hn. apply andb_true_iff in Hn. destruct Hn as [Hnx Hnl].
          destruct (H1 Hnx) as (x' & Hx1 & Hx2); [intros u Hu; apply Hp; cbn [flat_map]; apply in_app_iff; left; assumption |].
          destruct (IHl H2 Hnl) as (l' & Hl1 & Hl2); [intros u Hu; apply Hp; cbn [flat_map]; apply in_app_iff; right; assumption |].
          exists (x' :: l'). cbn [rmap]. rewrite Hx1, Hx2. cbn [rbind]. rewrite Hl1, Hl2. split; reflexivity. }
        destruct L as (cs' & L1 & L2). rewrite L1. cbn [rbind]. eexists. split; [reflexivity |].
        cbn [map_ph]. rewrite Ep, Ei, Ec, L2. reflexivity.
Qed.

Lemma map_binders_roundtrip f g : forall bs,
  (forall u, In u (map snd bs) -> exists c, f u = Ok c /\ g c = Ok u) ->
  exists bs', map_binders f bs = Ok bs' /\ map_binders g bs' = Ok bs.
Proof.
  induction bs as [| [vk u] bs IH]; intros H; [exists []; split; reflexivity |].
  destruct (H u (or_introl eq_refl)) as (c & Hf & Hg).
  destruct IH as (bs' & H1 & H2); [intros u' Hu'; apply H; right; assumption |].
  exists ((vk, c) :: bs'). unfold map_binders in *. cbn [rmap fst snd]. rewrite Hf. cbn [rbind]. rewrite H1. cbn [rbind].
  split; [reflexivity |]. cbn [rmap fst snd]. rewrite Hg. cbn [rbind]. rewrite H2. reflexivity.
Qed.

(** [ucanon_roundtrip]: mapping the u-canonical value back with the universe map returns the
    original canonical value — for placeholders of all three kinds (repaired code). *)
Lemma ucanon_roundtrip_lemma : forall c n c' m,
  u_canonicalize c = Ok (n, c', m) -> map_from_canonical m c' = Ok c.
Proof.
  intros [bs v] n [bs' v'] m. unfold u_canonicalize. cbn [fst snd].
  destruct (no_infer v) eqn:Hn; [| discriminate].
  set (m0 := fold_left (fun m u => uadd u m) (map snd bs ++ phs v) [0]).
  assert (Hin : forall u, In u (map snd bs ++ phs v) -> exists c, to_f m0 u = Ok c /\ from_f m0 c = Ok u).
  { intros u Hu. assert (Hm : In u m0) by (apply fold_uadd_in; left; assumption).
    destruct (uindex_some u m0 Hm) as (c & Hc & Hnth). exists c. unfold to_f, to_canonical, from_f. rewrite Hc.
    split; [reflexivity |]. f_equal. unfold from_canonical. rewrite Hnth. reflexivity. }
  destruct (map_ph_roundtrip (to_f m0) (from_f m0) v Hn) as (v1 & Hv1 & Hv2); [intros u Hu; apply Hin; apply in_app_iff; right; assumption |].
  destruct (map_binders_roundtrip (to_f m0) (from_f m0) bs) as (bs1 & Hb1 & Hb2); [intros u Hu; apply Hin; apply in_app_iff; left; assumption |].
  rewrite Hv1. cbn [rbind]. rewrite Hb1. cbn [rbind]. intros E; inversion E; subst.
  unfold map_from_canonical. cbn [fst snd]. rewrite Hb2. cbn [rbind]. rewrite Hv2. reflexivity.
Qed.

(** [ucanon_order_preserving]: the universe map of a u-canonicalization is strictly
    increasing, so both directions of the mapping are strictly monotone, and compression
    leaves no gaps: the canonical universes are exactly [0 .. n-1]. *)
Lemma ucanon_order_preserving_lemma : forall c n c' m,
  u_canonicalize c = Ok (n, c', m) ->
  ssorted m /\ n = N.of_nat (length m)
  /\ (forall a b ca cb, to_canonical m a = Some ca -> to_canonical m b = Some cb -> (a < b <-> ca < cb))
  /\ (forall c1 c2, c1 < c2 -> from_canonical m c1 < from_canonical m c2)
  /\ (forall u, In u (map snd (fst c) ++ phs (snd c)) -> exists cu, to_canonical m u = Some cu /\ cu < n).
Proof.
  intros [bs v] n [bs' v'] m. unfold u_canonicalize. cbn [fst snd].
  destruct (no_infer v); [| discriminate].
  set (m0 := fold_left (fun m u => uadd u m) (map snd bs ++ phs v) [0]).
  destruct (map_ph all_ph (to_f m0) v) as [v1 |]; cbn [rbind]; [| discriminate].
  destruct (map_binders (to_f m0) bs) as [bs1 |]; cbn [rbind]; [| discriminate].
  intros E; inversion E; subst.
  assert (Hs : ssorted m0) by (apply fold_uadd_sorted; cbn; split; [intros ? [] | exact I]).
  split; [assumption |]. split; [reflexivity |]. split; [apply to_canonical_mono; assumption |].
  split; [apply from_canonical_mono; assumption |].
  intros u Hu. assert (Hm : In u m0) by (apply fold_uadd_in; left; assumption).
  destruct (uindex_some u m0 Hm) as (cu & Hc & Hnth). exists cu. split; [assumption |].
  assert (N.to_nat cu < length m0)%nat by (apply nth_error_Some; congruence). lia.
Qed.

(** ** The unchanged code does not round-trip (F5) *)

(** [[&'!5_1 !3_0; !5_0]] *)
Definition f5_witness : canonical :=
  ([], Node HArray [Node (HRef Not) [Node (HLPlaceholder 5 1) []; Node (HPlaceholder 3 0) []];
                   Node (HCPlaceholder 5 0) [usize_ty]]).

Lemma ucanon_roundtrip_refuted_lemma :
  exists c n c' m, u_canonicalize c = Ok (n, c', m) /\ map_from_canonical_orig m c' <> Ok c.
Proof.
  exists f5_witness. eexists. eexists. eexists. split; [vm_compute; reflexivity |].
  vm_compute. intros H. discriminate H.
Qed.

(** ** Non-vacuity *)

Definition ex_ucanon_input : canonical :=
  ([(VTy General, 4); (VLt, 2)],
   Node (HTuple 3) [Var STy 0 0; Node (HRef Mut) [Node (HLPlaceholder 7 1) []; Node (HPlaceholder 2 0) []];
                    Node HArray [Node (HPlaceholder 4 3) []; Node (HCPlaceholder 9 0) [usize_ty]]]).

Example ucanon_roundtrip_nonvacuous :
  u_canonicalize ex_ucanon_input
  = Ok (5, ([(VTy General, 2); (VLt, 1)],
            Node (HTuple 3) [Var STy 0 0; Node (HRef Mut) [Node (HLPlaceholder 3 1) []; Node (HPlaceholder 1 0) []];
                             Node HArray [Node (HPlaceholder 2 3) []; Node (HCPlaceholder 4 0) [usize_ty]]]),
        [0; 2; 4; 7; 9])
  /\ map_from_canonical [0; 2; 4; 7; 9] (snd (fst (match u_canonicalize ex_ucanon_input with Ok x => x | Panic _ => (0, ([], Var STy 0 0), []) end)))
     = Ok ex_ucanon_input.
Proof. split; vm_compute; reflexivity. Qed.

Example ucanon_order_preserving_nonvacuous :
  to_canonical [0; 2; 4; 7; 9] 4 = Some 2 /\ to_canonical [0; 2; 4; 7; 9] 7 = Some 3 /\ to_canonical [0; 2; 4; 7; 9] 5 = None
  /\ from_canonical [0; 2; 4; 7; 9] 4 = 9 /\ from_canonical [0; 2; 4; 7; 9] 5 = 10 /\ from_canonical [0; 2; 4; 7; 9] 7 = 12.
Proof. repeat split; vm_compute; reflexivity. Qed.

Example ucanon_roundtrip_refuted_nonvacuous :
  map_from_canonical_orig [0; 3; 5] ([], Node HArray [Node (HRef Not) [Node (HLPlaceholder 2 1) []; Node (HPlaceholder 1 0) []]; Node (HCPlaceholder 2 0) [usize_ty]])
  = Ok ([], Node HArray [Node (HRef Not) [Node (HLPlaceholder 5 1) []; Node (HPlaceholder 3 0) []]; Node (HCPlaceholder 2 0) [usize_ty]]).
Proof. vm_compute. reflexivity. Qed.
