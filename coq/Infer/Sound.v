(** * Infer.Sound — soundness of [relate] (property C14) on the property's fragment.

    Fragment [pfrag]: ADTs (with their declared arities), tuples, slices, references, raw
    pointers, scalars (and [str], [!], foreign types), integer / float / general unknowns,
    placeholders; lifetimes: unknowns, placeholders, ['static], erased.

    On success of the invariant relation
      - the new table *extends* the old one ([pext]: bound variables keep their value, classes
        only merge; no variable disappears);
      - it *respects universes*: with a ghost universe assignment [U] (the universe of every
        unbound variable, and for a bound variable a universe all of whose value's placeholders
        and unknowns are visible from, [uni_ok]) there is an assignment for the new table that
        only lowers universes;
      - the two types are *equal under the new bindings up to the returned lifetime goals*
        ([teq]: the least congruence containing the bindings, the class equalities and the
        lifetime pairs related in both directions by returned outlives goals).
    All three for every history: the invariants ([inv]) are re-established. *)

From Coq Require Import Arith PeanoNat Lia.
From Chalk Require Import Ir.Syntax Ir.Fold Infer.Table Infer.Unify Infer.Sym.

(** ** Equality under a table, up to goals *)

Definition head_var (h : head) : option N :=
  match h with HInfer v _ | HLInfer v | HCInfer v => Some v | _ => None end.

Definition bound_to (t : table) (v : N) (x : tm) : Prop := exists c, get t v = Some c /\ cval c = Bound x.

Definition same_class (t : table) (v w : N) : Prop :=
  exists c c', get t v = Some c /\ get t w = Some c' /\ ccls c = ccls c'.

(** [teqm w]: with [w = false] a pair of lifetimes must be related by the goals in BOTH directions
    (the invariant relation); with [w = true] (co- / contravariant relation) one direction is
    enough, and two unknowns related by a returned subtype goal count as related. *)
Inductive teqm (w : bool) (t : table) (gs : list tm) : tm -> tm -> Prop :=
| teq_refl a : teqm w t gs a a
| teq_sym a b : teqm w t gs a b -> teqm w t gs b a
| teq_trans a b c : teqm w t gs a b -> teqm w t gs b c -> teqm w t gs a c
| teq_node h cs cs' : Forall2 (teqm w t gs) cs cs' -> teqm w t gs (Node h cs) (Node h cs')
| teq_bound h cs v x : head_var h = Some v -> bound_to t v x -> teqm w t gs (Node h cs) x
| teq_class h cs h' cs' v v' :
    head_var h = Some v -> head_var h' = Some v' -> same_class t v v' -> teqm w t gs (Node h cs) (Node h' cs')
| teq_outlives a b :
    kind_of a = KLt -> kind_of b = KLt -> In (outlives_goal a b) gs -> (w = false -> In (outlives_goal b a) gs) -> teqm w t gs a b
| teq_subtype a b : w = true -> In (subtype_goal a b) gs -> teqm w t gs a b.

Notation teq := (teqm false).

(** [t'] keeps every binding and every class equality of [t]. *)
Definition pext (t t' : table) : Prop :=
  (forall v x, bound_to t v x -> bound_to t' v x) /\ (forall v w, same_class t v w -> same_class t' v w).

Lemma pext_refl t : pext t t.
Proof. split; auto. Qed.

Lemma pext_trans t1 t2 t3 : pext t1 t2 -> pext t2 t3 -> pext t1 t3.
Proof. intros [A B] [C D]. split; auto. Qed.

Lemma teq_mono m t gs t' gs' : pext t t' -> incl gs gs' -> forall a b, teqm m t gs a b -> teqm m t' gs' a b.
Proof.
  intros [PB PC] I. fix IH 3. intros a b H. destruct H as [a | a b H | a b c H1 H2 | h cs cs' H | h cs v x Hv Hb | h cs h' cs' v w Hv Hw Hc | a b Ka Kb I1 I2 | a b Hm Hs].
  - apply teq_refl.
  - apply teq_sym. apply IH. exact H.
  - eapply teq_trans; apply IH; eassumption.
  - apply teq_node. revert cs cs' H. fix IH2 3. intros cs cs' H. destruct H as [| x y r r' Hxy Hr]; constructor.
    + apply IH. exact Hxy.
    + apply IH2. exact Hr.
  - eapply teq_bound; [exact Hv | apply PB; exact Hb].
  - eapply teq_class; [exact Hv | exact Hw | apply PC; exact Hc].
  - apply teq_outlives; auto.
  - apply teq_subtype; auto.
Qed.

Lemma teqm_weaken t gs : forall a b, teq t gs a b -> teqm true t gs a b.
Proof.
  fix IH 3. intros a b H. destruct H as [a | a b H | a b c H1 H2 | h cs cs' H | h cs v x Hv Hb | h cs h' cs' v w Hv Hw Hc | a b Ka Kb I1 I2 | a b Hm Hs].
  - apply teq_refl.
  - apply teq_sym. apply IH. exact H.
  - eapply teq_trans; apply IH; eassumption.
  - apply teq_node. revert cs cs' H. fix IH2 3. intros cs cs' H. destruct H as [| x y r r' Hxy Hr]; constructor.
    + apply IH. exact Hxy.
    + apply IH2. exact Hr.
  - eapply teq_bound; eassumption.
  - eapply teq_class; eassumption.
  - apply teq_outlives; auto.
  - discriminate Hm.
Qed.

(** What [teq] means: in every model of the table — an interpretation of the head constructors
    and a valuation of the unknowns under which every bound unknown denotes its value, unknowns
    of one class denote the same thing, and two lifetimes related in both directions by the goals
    denote the same thing — [teq]-related terms have the same denotation. *)
Section Model.
  Variable D : Type.
  Variable app : head -> list D -> D.
  Variable bvar : sort -> N -> N -> D.
  Variable cvar : N -> N -> D -> D.
  Variable val : N -> D.

  Fixpoint den (x : tm) : D :=
    match x with
    | Var s d i => bvar s d i
    | CVar d i c => cvar d i (den c)
    | Node h cs => match head_var h with Some v => val v | None => app h (map den cs) end
    end.

  Variable t : table.
  Variable gs : list tm.
  Hypothesis Hbound : forall v x, bound_to t v x -> val v = den x.
  Hypothesis Hclass : forall v w, same_class t v w -> val v = val w.
  Section Mode.
    Variable m : bool.
    Hypothesis Hgoals : forall a b, kind_of a = KLt -> kind_of b = KLt ->
      In (outlives_goal a b) gs -> (m = false -> In (outlives_goal b a) gs) -> den a = den b.
    Hypothesis Hsub : m = true -> forall a b, In (subtype_goal a b) gs -> den a = den b.

    Lemma teqm_model : forall a b, teqm m t gs a b -> den a = den b.
    Proof.
      fix IH 3. intros a b H. destruct H as [a | a b H | a b c H1 H2 | h cs cs' H | h cs v x Hv Hb | h cs h' cs' v w Hv Hw Hc | a b Ka Kb I1 I2 | a b Hm Hs].
      - reflexivity.
      - symmetry. apply IH. exact H.
      - etransitivity; apply IH; eassumption.
      - cbn [den]. destruct (head_var h); [reflexivity |]. f_equal.
        revert cs cs' H. fix IH2 3. intros cs cs' H. destruct H as [| x y r r' Hxy Hr]; cbn [map]; [reflexivity |].
        f_equal; [apply IH; exact Hxy | apply IH2; exact Hr].
      - cbn [den]. rewrite Hv. apply Hbound. exact Hb.
      - cbn [den]. rewrite Hv, Hw. apply Hclass. exact Hc.
      - apply Hgoals; assumption.
      - apply Hsub; assumption.
    Qed.
  End Mode.

  Hypothesis Hgoals : forall a b, kind_of a = KLt -> kind_of b = KLt ->
    In (outlives_goal a b) gs -> In (outlives_goal b a) gs -> den a = den b.

  Lemma teq_model : forall a b, teq t gs a b -> den a = den b.
  Proof.
    apply teqm_model.
    - intros a b Ka Kb I1 I2. apply Hgoals; auto.
    - intros Q. discriminate Q.
  Qed.
End Model.

Lemma Forall2_impl' {A B} (P Q : A -> B -> Prop) l l' : (forall a b, P a b -> Q a b) -> Forall2 P l l' -> Forall2 Q l l'.
Proof. intros H. induction 1; constructor; auto. Qed.

Lemma Forall2_len {A B} (P : A -> B -> Prop) l l' : Forall2 P l l' -> length l = length l'.
Proof. induction 1; cbn [length]; congruence. Qed.

(** ** Reading and writing cells *)

Lemma get_set_class_eq c c' val cs v :
  nth_error (set_class c c' val cs) v = option_map (fun x => if ccls x =? c then mkcell c' val else x) (nth_error cs v).
Proof. unfold set_class. apply nth_error_map. Qed.

Lemma get_set_value c val t v :
  get (set_value c val t) v = option_map (fun x => if ccls x =? c then mkcell c val else x) (get t v).
Proof. unfold get, set_value, with_unify. cbn [unify]. apply get_set_class_eq. Qed.

Lemma get_merge ca cb val t v :
  get (merge ca cb val t) v =
  option_map (fun x => if (ccls x =? ca) || (ccls x =? cb) then mkcell (N.min ca cb) val else x) (get t v).
Proof.
  unfold get, merge, with_unify. cbn [unify]. rewrite !get_set_class_eq.
  destruct (nth_error (unify t) (N.to_nat v)) as [x |]; cbn [option_map]; [| reflexivity]. f_equal.
  destruct (ccls x =? ca) eqn:A; cbn [ccls orb].
  - destruct (N.min ca cb =? cb); reflexivity.
  - destruct (ccls x =? cb); reflexivity.
Qed.

Lemma nvars_set_value c val t : nvars (set_value c val t) = nvars t.
Proof. unfold nvars, set_value, with_unify, set_class. cbn [unify]. rewrite map_length. reflexivity. Qed.

Lemma nvars_merge ca cb val t : nvars (merge ca cb val t) = nvars t.
Proof. unfold nvars, merge, with_unify, set_class. cbn [unify]. rewrite !map_length. reflexivity. Qed.

Lemma get_some_lt t v c : get t v = Some c -> v < nvars t.
Proof.
  unfold get, nvars. intros H. assert (L : (N.to_nat v < length (unify t))%nat) by (apply nth_error_Some; congruence). lia.
Qed.

Lemma get_lt_some t v : v < nvars t -> exists c, get t v = Some c.
Proof.
  unfold get, nvars. intros H. destruct (nth_error (unify t) (N.to_nat v)) as [c |] eqn:E; [eauto |].
  apply nth_error_None in E. lia.
Qed.

Lemma get_new_variable_old u t v : v < nvars t -> get (snd (new_variable u t)) v = get t v.
Proof.
  intros H. unfold get, new_variable. cbn [snd unify]. apply nth_error_app1. unfold nvars in H. lia.
Qed.

Lemma get_new_variable_new u t : get (snd (new_variable u t)) (nvars t) = Some (mkcell (nvars t) (Unbound u)).
Proof.
  unfold get, new_variable. cbn [snd unify]. rewrite nth_error_app2 by (unfold nvars; lia).
  unfold nvars. rewrite Nat2N.id, Nat.sub_diag. reflexivity.
Qed.

Lemma nvars_new_variable u t : nvars (snd (new_variable u t)) = nvars t + 1.
Proof. unfold nvars, new_variable. cbn [snd unify]. rewrite app_length. cbn [length]. lia. Qed.

(** ** Predicates on all subterms *)

Fixpoint allsub (P : head -> Prop) (x : tm) : Prop :=
  match x with
  | Node h cs => P h /\ (fix go (l : list tm) : Prop := match l with [] => True | c :: r => allsub P c /\ go r end) cs
  | CVar _ _ c => allsub P c
  | Var _ _ _ => True
  end.

Lemma allsub_node P h cs : allsub P (Node h cs) <-> P h /\ Forall (allsub P) cs.
Proof.
  cbn [allsub]. assert (G : (fix go (l : list tm) : Prop := match l with [] => True | c :: r => allsub P c /\ go r end) cs <-> Forall (allsub P) cs).
  { induction cs as [| c r IH]; [split; constructor |]. rewrite IH. split; [intros [A B]; constructor; assumption | intros H; inversion H; auto]. }
  rewrite G. reflexivity.
Qed.

Lemma allsub_impl (P Q : head -> Prop) : (forall h, P h -> Q h) -> forall x, allsub P x -> allsub Q x.
Proof.
  intros PQ. induction x as [s d i | d i c IH | h cs IH] using tm_ind'; intros H; [exact I | apply IH; exact H |].
  apply allsub_node in H. apply allsub_node. destruct H as [Hh Hcs]. split; [apply PQ; exact Hh |].
  clear Hh. induction IH as [| x r Hx _ IHr]; [constructor |]. inversion Hcs; subst. constructor; [apply Hx; assumption | apply IHr; assumption].
Qed.

Lemma allsub_and (P Q : head -> Prop) x : allsub P x -> allsub Q x -> allsub (fun h => P h /\ Q h) x.
Proof.
  induction x as [s d i | d i c IH | h cs IH] using tm_ind'; intros H1 H2; [exact I | apply IH; assumption |].
  apply allsub_node in H1, H2. apply allsub_node. destruct H1 as [P1 C1], H2 as [P2 C2]. split; [auto |].
  clear P1 P2. induction IH as [| x r Hx _ IHr]; [constructor |]. inversion C1; subst. inversion C2; subst.
  constructor; [apply Hx; assumption | apply IHr; assumption].
Qed.

(** ** Ghost kinds and universes *)

Inductive vk := KG | KI | KF | KL.

Definition occ_kind (h : head) : option (N * vk) :=
  match h with
  | HInfer w General => Some (w, KG)
  | HInfer w Integer => Some (w, KI)
  | HInfer w FloatVar => Some (w, KF)
  | HLInfer w => Some (w, KL)
  | _ => None
  end.

(** every unknown occurs with the kind [K] assigns to it *)
Definition kinded (K : N -> vk) : tm -> Prop :=
  allsub (fun h => match occ_kind h with Some (w, k) => K w = k | None => True end).

(** every unknown of [x] exists ([< n]); every placeholder of [x] and every unknown of [x]
    (integer / float unknowns excepted: they can only ever become scalars) lives in a universe
    [<= m] according to [U] *)
Definition wellb (U : N -> N) (n m : N) : tm -> Prop :=
  allsub (fun h => match head_var h with Some w => w < n | None => True end /\
                   match h with
                   | HPlaceholder pu _ | HLPlaceholder pu _ | HCPlaceholder pu _ => pu <= m
                   | HInfer w General | HLInfer w | HCInfer w => U w <= m
                   | _ => True
                   end).

Lemma wellb_mono U U' n n' m m' x :
  n <= n' -> m <= m' -> (forall w, w < n -> U' w <= U w) -> wellb U n m x -> wellb U' n' m' x.
Proof.
  intros Hn Hm HU. apply allsub_impl. intros h [H1 H2]. split.
  - destruct (head_var h); [lia | exact I].
  - destruct h; try exact I; try lia; cbn [head_var] in H1; try (specialize (HU _ H1); lia).
    destruct k; try exact I. specialize (HU _ H1). lia.
Qed.

Lemma kinded_ext K K' n U m x : (forall w, w < n -> K' w = K w) -> wellb U n m x -> kinded K x -> kinded K' x.
Proof.
  intros HK HW HKd. pose proof (allsub_and _ _ x HW HKd) as H. revert H. apply allsub_impl.
  intros h [[H1 _] H2]. destruct (occ_kind h) as [[w k] |] eqn:E; [| exact I].
  assert (head_var h = Some w) as Hv by (destruct h; try discriminate E; try (destruct k0; inversion E; reflexivity); inversion E; reflexivity).
  rewrite Hv in H1. rewrite (HK _ H1). exact H2.
Qed.

Section Frag.
  Variable ar : N -> nat.

  Definition head_arity (h : head) : option nat :=
    match h with
    | HAdt id => Some (ar id)
    | HTuple n => Some (N.to_nat n)
    | HSlice | HRaw _ => Some 1%nat
    | HRef _ => Some 2%nat
    | HScalar _ | HStr | HNever | HForeign _ | HPlaceholder _ _ | HInfer _ _
    | HLInfer _ | HLPlaceholder _ _ | HLStatic | HLErased => Some 0%nat
    | _ => None
    end.

  Fixpoint pfrag (t : tm) : bool :=
    match t with
    | Node h cs => match head_arity h with Some n => Nat.eqb (length cs) n && forallb pfrag cs | None => false end
    | _ => false
    end.

  Lemma pfrag_node h cs : pfrag (Node h cs) = true <->
    exists n, head_arity h = Some n /\ length cs = n /\ Forall (fun c => pfrag c = true) cs.
  Proof.
    cbn [pfrag]. destruct (head_arity h) as [n |].
    - rewrite andb_true_iff, Nat.eqb_eq, forallb_forall, <- Forall_forall. split.
      + intros [A B]. exists n. auto.
      + intros (n' & E & A & B). inversion E; subst. auto.
    - split; [discriminate | intros (n & E & _); discriminate E].
  Qed.

  Lemma pfrag_sfrag x : pfrag x = true -> sfrag x = true.
  Proof.
    induction x as [s d i | d i c IH | h cs IH] using tm_ind'; try discriminate. intros H.
    apply pfrag_node in H. destruct H as (n & E & _ & Hcs). apply sfrag_node. split.
    - destruct h; try discriminate E; reflexivity.
    - clear E. induction IH as [| x r Hx _ IHr]; [constructor |]. inversion Hcs; subst. constructor; auto.
  Qed.

  (** ** The invariants *)

  Record inv (K : N -> vk) (U : N -> N) (t : table) : Prop := {
    inv_range : forall v c, get t v = Some c -> ccls c < nvars t;
    inv_cons : forall v w c c', get t v = Some c -> get t w = Some c' -> ccls c = ccls c' -> cval c = cval c';
    inv_ck : forall v w c c', get t v = Some c -> get t w = Some c' -> ccls c = ccls c' -> K v = K w;
    inv_frag : forall v c x, get t v = Some c -> cval c = Bound x -> pfrag x = true;
    inv_unb : forall v c u, get t v = Some c -> cval c = Unbound u -> U v = u;
    inv_bnd : forall v c x, get t v = Some c -> cval c = Bound x -> wellb U (nvars t) (U v) x;
    inv_kind : forall v c x, get t v = Some c -> cval c = Bound x -> kinded K x;
    inv_chain : forall v c h cs, get t v = Some c -> cval c = Bound (Node h cs) -> head_var h <> None ->
                K v = KG /\ exists w k, occ_kind h = Some (w, k) /\ (k = KI \/ k = KF);
    inv_num : forall v c x, get t v = Some c -> cval c = Bound x -> K v = KI \/ K v = KF -> exists s, x = Node (HScalar s) [];
    inv_sort : forall v c x, get t v = Some c -> cval c = Bound x -> K v <> KL -> kind_of x = KTy
  }.

  Definition step (K : N -> vk) (U : N -> N) (t : table) (K' : N -> vk) (U' : N -> N) (t' : table) : Prop :=
    pext t t' /\ nvars t <= nvars t' /\ (forall v, v < nvars t -> U' v <= U v /\ K' v = K v).

  Lemma step_refl K U t : step K U t K U t.
  Proof. split; [apply pext_refl |]. split; [lia |]. intros v _. split; [lia | reflexivity]. Qed.

  Lemma step_trans K1 U1 t1 K2 U2 t2 K3 U3 t3 : step K1 U1 t1 K2 U2 t2 -> step K2 U2 t2 K3 U3 t3 -> step K1 U1 t1 K3 U3 t3.
  Proof.
    intros (P1 & N1 & H1) (P2 & N2 & H2). split; [eapply pext_trans; eassumption |]. split; [lia |].
    intros v Hv. destruct (H1 v Hv) as [A B]. destruct (H2 v ltac:(lia)) as [C D]. split; [lia | congruence].
  Qed.
End Frag.

(** ** The table operations preserve the invariants *)

Section Ops.
  Variable ar : N -> nat.
  Notation inv := (inv ar).

  Definition upd {A} (f : N -> A) (n : N) (a : A) : N -> A := fun w => if w =? n then a else f w.

  (** universe assignment after lowering the classes selected by [p] to [mu] *)
  Definition lower (t : table) (p : N -> bool) (mu : N) (U : N -> N) : N -> N :=
    fun w => match get t w with Some cw => if p (ccls cw) then mu else U w | None => U w end.

  Lemma get_set_value_inv c val t v c' :
    get (set_value c val t) v = Some c' ->
    exists c0, get t v = Some c0 /\ ccls c' = ccls c0 /\
               ((ccls c0 = c /\ cval c' = val) \/ (ccls c0 <> c /\ c' = c0)).
  Proof.
    rewrite get_set_value. destruct (get t v) as [c0 |]; cbn [option_map]; [| discriminate].
    intros E. inversion E; subst. exists c0. split; [reflexivity |].
    destruct (N.eqb_spec (ccls c0) c) as [Q | Q]; cbn [ccls cval]; [subst; auto | auto].
  Qed.

  Lemma get_merge_inv ca cb val t v c' :
    get (merge ca cb val t) v = Some c' ->
    exists c0, get t v = Some c0 /\
               (((ccls c0 = ca \/ ccls c0 = cb) /\ c' = mkcell (N.min ca cb) val) \/ (ccls c0 <> ca /\ ccls c0 <> cb /\ c' = c0)).
  Proof.
    rewrite get_merge. destruct (get t v) as [c0 |]; cbn [option_map]; [| discriminate].
    intros E. inversion E; subst. exists c0. split; [reflexivity |].
    destruct (N.eqb_spec (ccls c0) ca) as [Q | Q]; cbn [orb]; [auto |].
    destruct (N.eqb_spec (ccls c0) cb) as [Q' | Q']; auto.
  Qed.

  Lemma inv_new K U t u k :
    inv K U t ->
    inv (upd K (nvars t) k) (upd U (nvars t) u) (snd (new_variable u t))
    /\ step K U t (upd K (nvars t) k) (upd U (nvars t) u) (snd (new_variable u t)).
  Proof.
    intros I. set (n := nvars t). set (t' := snd (new_variable u t)).
    assert (G : forall v c, get t' v = Some c -> (v < n /\ get t v = Some c) \/ (v = n /\ c = mkcell n (Unbound u))).
    { intros v c E. pose proof (get_some_lt _ _ _ E) as L. unfold t' in L. rewrite nvars_new_variable in L.
      destruct (N.lt_ge_cases v n) as [Lt | Ge].
      - left. split; [exact Lt |]. unfold t' in E. rewrite get_new_variable_old in E by exact Lt. exact E.
      - right. assert (v = n) by (fold n in L; lia). subst v. split; [reflexivity |].
        unfold t', n in E. rewrite get_new_variable_new in E. inversion E. reflexivity. }
    assert (UO : forall v, v < n -> upd U n u v = U v /\ upd K n k v = K v).
    { intros v Hv. unfold upd. destruct (N.eqb_spec v n); [lia | auto]. }
    assert (NV : nvars t' = n + 1) by apply nvars_new_variable.
    split.
    - constructor.
      + intros v c E. rewrite NV. destruct (G v c E) as [[L E'] | [-> ->]]; [pose proof (inv_range _ _ _ _ I v c E'); fold n in H; lia | cbn [ccls]; lia].
      + intros v w c c' E E' Q. destruct (G v c E) as [[L Ev] | [-> ->]], (G w c' E') as [[L' Ew] | [-> ->]].
        * exact (inv_cons _ _ _ _ I v w c c' Ev Ew Q).
        * pose proof (inv_range _ _ _ _ I v c Ev). cbn [ccls] in Q. fold n in H. lia.
        * pose proof (inv_range _ _ _ _ I w c' Ew). cbn [ccls] in Q. fold n in H. lia.
        * reflexivity.
      + intros v w c c' E E' Q. destruct (G v c E) as [[L Ev] | [-> ->]], (G w c' E') as [[L' Ew] | [-> ->]].
        * rewrite (proj2 (UO v L)), (proj2 (UO w L')). exact (inv_ck _ _ _ _ I v w c c' Ev Ew Q).
        * pose proof (inv_range _ _ _ _ I v c Ev). cbn [ccls] in Q. fold n in H. lia.
        * pose proof (inv_range _ _ _ _ I w c' Ew). cbn [ccls] in Q. fold n in H. lia.
        * reflexivity.
      + intros v c x E B. destruct (G v c E) as [[L Ev] | [-> ->]]; [exact (inv_frag _ _ _ _ I v c x Ev B) | discriminate B].
      + intros v c u0 E B. destruct (G v c E) as [[L Ev] | [-> ->]].
        * rewrite (proj1 (UO v L)). exact (inv_unb _ _ _ _ I v c u0 Ev B).
        * cbn [cval] in B. inversion B. unfold upd. rewrite N.eqb_refl. reflexivity.
      + intros v c x E B. destruct (G v c E) as [[L Ev] | [-> ->]]; [| discriminate B].
        rewrite NV, (proj1 (UO v L)). eapply wellb_mono; [| | | exact (inv_bnd _ _ _ _ I v c x Ev B)]; try (fold n; lia).
        intros w Hw. fold n in Hw. rewrite (proj1 (UO w Hw)). lia.
      + intros v c x E B. destruct (G v c E) as [[L Ev] | [-> ->]]; [| discriminate B].
        eapply kinded_ext; [| exact (inv_bnd _ _ _ _ I v c x Ev B) | exact (inv_kind _ _ _ _ I v c x Ev B)].
        intros w Hw. fold n in Hw. exact (proj2 (UO w Hw)).
      + intros v c h cs E B Hh. destruct (G v c E) as [[L Ev] | [-> ->]]; [| discriminate B].
        rewrite (proj2 (UO v L)). exact (inv_chain _ _ _ _ I v c h cs Ev B Hh).
      + intros v c x E B HKv. destruct (G v c E) as [[L Ev] | [-> ->]]; [| discriminate B].
        rewrite (proj2 (UO v L)) in HKv. exact (inv_num _ _ _ _ I v c x Ev B HKv).
      + intros v c x E B HKv. destruct (G v c E) as [[L Ev] | [-> ->]]; [| discriminate B].
        rewrite (proj2 (UO v L)) in HKv. exact (inv_sort _ _ _ _ I v c x Ev B HKv).
    - split; [| split].
      + split.
        * intros v x (c & E & B). exists c. split; [| exact B]. unfold t'. rewrite get_new_variable_old; [exact E | eapply get_some_lt; exact E].
        * intros v w (c & c' & E & E' & Q). exists c, c'. unfold t'.
          rewrite !get_new_variable_old by (eapply get_some_lt; eassumption). auto.
      + rewrite NV. fold n. lia.
      + intros v Hv. fold n in Hv. destruct (UO v Hv) as [A B]. rewrite A, B. split; [lia | reflexivity].
  Qed.

  (** binding a class of unbound variables *)
  Lemma inv_bind K U t c u0 g :
    inv K U t ->
    (forall v cl, get t v = Some cl -> ccls cl = c -> cval cl = Unbound u0) ->
    pfrag ar g = true -> wellb U (nvars t) u0 g -> kinded K g ->
    (forall h cs, g = Node h cs -> head_var h <> None ->
       (forall v cl, get t v = Some cl -> ccls cl = c -> K v = KG) /\ exists w k, occ_kind h = Some (w, k) /\ (k = KI \/ k = KF)) ->
    (forall v cl, get t v = Some cl -> ccls cl = c -> K v = KI \/ K v = KF -> exists s, g = Node (HScalar s) []) ->
    (forall v cl, get t v = Some cl -> ccls cl = c -> K v <> KL -> kind_of g = KTy) ->
    inv K U (set_value c (Bound g) t) /\ step K U t K U (set_value c (Bound g) t).
  Proof.
    intros I HU Hg Hw Hk Hc Hn Hs. set (t' := set_value c (Bound g) t).
    assert (NV : nvars t' = nvars t) by apply nvars_set_value.
    split.
    - constructor.
      + intros v c' E. rewrite NV. destruct (get_set_value_inv _ _ _ _ _ E) as (c0 & E0 & Q & _). rewrite Q. exact (inv_range _ _ _ _ I v c0 E0).
      + intros v w c1 c2 E1 E2 Q.
        destruct (get_set_value_inv _ _ _ _ _ E1) as (a0 & A0 & QA & [[CA VA] | [CA ->]]);
          destruct (get_set_value_inv _ _ _ _ _ E2) as (b0 & B0 & QB & [[CB VB] | [CB ->]]); try congruence.
        exact (inv_cons _ _ _ _ I v w a0 b0 A0 B0 Q).
      + intros v w c1 c2 E1 E2 Q.
        destruct (get_set_value_inv _ _ _ _ _ E1) as (a0 & A0 & QA & _); destruct (get_set_value_inv _ _ _ _ _ E2) as (b0 & B0 & QB & _).
        apply (inv_ck _ _ _ _ I v w a0 b0 A0 B0). congruence.
      + intros v c1 x E B. destruct (get_set_value_inv _ _ _ _ _ E) as (a0 & A0 & _ & [[CA VA] | [CA ->]]).
        * rewrite VA in B. inversion B; subst. exact Hg.
        * exact (inv_frag _ _ _ _ I v a0 x A0 B).
      + intros v c1 u E B. destruct (get_set_value_inv _ _ _ _ _ E) as (a0 & A0 & _ & [[CA VA] | [CA ->]]).
        * rewrite VA in B. discriminate B.
        * exact (inv_unb _ _ _ _ I v a0 u A0 B).
      + intros v c1 x E B. rewrite NV. destruct (get_set_value_inv _ _ _ _ _ E) as (a0 & A0 & _ & [[CA VA] | [CA ->]]).
        * rewrite VA in B. inversion B; subst. rewrite (inv_unb _ _ _ _ I v a0 u0 A0 (HU v a0 A0 eq_refl)). exact Hw.
        * exact (inv_bnd _ _ _ _ I v a0 x A0 B).
      + intros v c1 x E B. destruct (get_set_value_inv _ _ _ _ _ E) as (a0 & A0 & _ & [[CA VA] | [CA ->]]).
        * rewrite VA in B. inversion B; subst. exact Hk.
        * exact (inv_kind _ _ _ _ I v a0 x A0 B).
      + intros v c1 h cs E B Hh. destruct (get_set_value_inv _ _ _ _ _ E) as (a0 & A0 & _ & [[CA VA] | [CA ->]]).
        * rewrite VA in B. inversion B; subst. destruct (Hc h cs eq_refl Hh) as [KA KB]. split; [exact (KA v a0 A0 eq_refl) | exact KB].
        * exact (inv_chain _ _ _ _ I v a0 h cs A0 B Hh).
      + intros v c1 x E B HKv. destruct (get_set_value_inv _ _ _ _ _ E) as (a0 & A0 & _ & [[CA VA] | [CA ->]]).
        * rewrite VA in B. inversion B; subst. exact (Hn v a0 A0 eq_refl HKv).
        * exact (inv_num _ _ _ _ I v a0 x A0 B HKv).
      + intros v c1 x E B HKv. destruct (get_set_value_inv _ _ _ _ _ E) as (a0 & A0 & _ & [[CA VA] | [CA ->]]).
        * rewrite VA in B. inversion B; subst. exact (Hs v a0 A0 eq_refl HKv).
        * exact (inv_sort _ _ _ _ I v a0 x A0 B HKv).
    - split; [| split].
      + split.
        * intros v x (c0 & E & B). exists c0. split; [| exact B]. unfold t'. rewrite get_set_value, E. cbn [option_map].
          destruct (N.eqb_spec (ccls c0) c) as [Q | Q]; [| reflexivity]. rewrite (HU v c0 E Q) in B. discriminate B.
        * intros v w (c1 & c2 & E1 & E2 & Q). unfold t'.
          eexists. eexists. rewrite !get_set_value, E1, E2. cbn [option_map]. split; [reflexivity |]. split; [reflexivity |].
          destruct (N.eqb_spec (ccls c1) c), (N.eqb_spec (ccls c2) c); cbn [ccls]; congruence.
      + rewrite NV. lia.
      + intros v _. split; [lia | reflexivity].
  Qed.

  Lemma lower_le t p mu U w : (forall cw, get t w = Some cw -> p (ccls cw) = true -> mu <= U w) -> lower t p mu U w <= U w.
  Proof. intros H. unfold lower. destruct (get t w) as [cw |] eqn:E; [| lia]. destruct (p (ccls cw)) eqn:P; [apply (H cw eq_refl P) | lia]. Qed.

  (** lowering the universe of a class of unbound variables *)
  Lemma inv_lower K U t c u0 mu :
    inv K U t ->
    (forall v cl, get t v = Some cl -> ccls cl = c -> cval cl = Unbound u0) -> mu <= u0 ->
    inv K (lower t (fun cl => cl =? c) mu U) (set_value c (Unbound mu) t)
    /\ step K U t K (lower t (fun cl => cl =? c) mu U) (set_value c (Unbound mu) t).
  Proof.
    intros I HU Hmu. set (t' := set_value c (Unbound mu) t). set (U' := lower t (fun cl => cl =? c) mu U).
    assert (NV : nvars t' = nvars t) by apply nvars_set_value.
    assert (LE : forall w, U' w <= U w).
    { intros w. apply lower_le. intros cw E P. apply N.eqb_eq in P. rewrite (inv_unb _ _ _ _ I w cw u0 E (HU w cw E P)). exact Hmu. }
    assert (UN : forall v a0, get t v = Some a0 -> ccls a0 <> c -> U' v = U v).
    { intros v a0 E Q. unfold U', lower. rewrite E. destruct (N.eqb_spec (ccls a0) c); [contradiction | reflexivity]. }
    assert (UI : forall v a0, get t v = Some a0 -> ccls a0 = c -> U' v = mu).
    { intros v a0 E Q. unfold U', lower. rewrite E. destruct (N.eqb_spec (ccls a0) c); [reflexivity | contradiction]. }
    split.
    - constructor.
      + intros v c' E. rewrite NV. destruct (get_set_value_inv _ _ _ _ _ E) as (c0 & E0 & Q & _). rewrite Q. exact (inv_range _ _ _ _ I v c0 E0).
      + intros v w c1 c2 E1 E2 Q.
        destruct (get_set_value_inv _ _ _ _ _ E1) as (a0 & A0 & QA & [[CA VA] | [CA ->]]);
          destruct (get_set_value_inv _ _ _ _ _ E2) as (b0 & B0 & QB & [[CB VB] | [CB ->]]); try congruence.
        exact (inv_cons _ _ _ _ I v w a0 b0 A0 B0 Q).
      + intros v w c1 c2 E1 E2 Q.
        destruct (get_set_value_inv _ _ _ _ _ E1) as (a0 & A0 & QA & _); destruct (get_set_value_inv _ _ _ _ _ E2) as (b0 & B0 & QB & _).
        apply (inv_ck _ _ _ _ I v w a0 b0 A0 B0). congruence.
      + intros v c1 x E B. destruct (get_set_value_inv _ _ _ _ _ E) as (a0 & A0 & _ & [[CA VA] | [CA ->]]).
        * rewrite VA in B. discriminate B.
        * exact (inv_frag _ _ _ _ I v a0 x A0 B).
      + intros v c1 u E B. destruct (get_set_value_inv _ _ _ _ _ E) as (a0 & A0 & _ & [[CA VA] | [CA ->]]).
        * rewrite VA in B. injection B as <-. exact (UI v a0 A0 CA).
        * rewrite (UN v a0 A0 CA). exact (inv_unb _ _ _ _ I v a0 u A0 B).
      + intros v c1 x E B. rewrite NV. destruct (get_set_value_inv _ _ _ _ _ E) as (a0 & A0 & _ & [[CA VA] | [CA ->]]).
        * rewrite VA in B. discriminate B.
        * rewrite (UN v a0 A0 CA). eapply wellb_mono; [| | | exact (inv_bnd _ _ _ _ I v a0 x A0 B)]; try lia. intros w _. apply LE.
      + intros v c1 x E B. destruct (get_set_value_inv _ _ _ _ _ E) as (a0 & A0 & _ & [[CA VA] | [CA ->]]).
        * rewrite VA in B. discriminate B.
        * exact (inv_kind _ _ _ _ I v a0 x A0 B).
      + intros v c1 h cs E B Hh. destruct (get_set_value_inv _ _ _ _ _ E) as (a0 & A0 & _ & [[CA VA] | [CA ->]]).
        * rewrite VA in B. discriminate B.
        * exact (inv_chain _ _ _ _ I v a0 h cs A0 B Hh).
      + intros v c1 x E B HKv. destruct (get_set_value_inv _ _ _ _ _ E) as (a0 & A0 & _ & [[CA VA] | [CA ->]]).
        * rewrite VA in B. discriminate B.
        * exact (inv_num _ _ _ _ I v a0 x A0 B HKv).
      + intros v c1 x E B HKv. destruct (get_set_value_inv _ _ _ _ _ E) as (a0 & A0 & _ & [[CA VA] | [CA ->]]).
        * rewrite VA in B. discriminate B.
        * exact (inv_sort _ _ _ _ I v a0 x A0 B HKv).
    - split; [| split].
      + split.
        * intros v x (c0 & E & B). exists c0. split; [| exact B]. unfold t'. rewrite get_set_value, E. cbn [option_map].
          destruct (N.eqb_spec (ccls c0) c) as [Q | Q]; [| reflexivity]. rewrite (HU v c0 E Q) in B. discriminate B.
        * intros v w (c1 & c2 & E1 & E2 & Q). unfold t'.
          eexists. eexists. rewrite !get_set_value, E1, E2. cbn [option_map]. split; [reflexivity |]. split; [reflexivity |].
          destruct (N.eqb_spec (ccls c1) c), (N.eqb_spec (ccls c2) c); cbn [ccls]; congruence.
      + rewrite NV. lia.
      + intros v _. split; [apply LE | reflexivity].
  Qed.

  (** merging two classes of unbound variables of the same kind *)
  Lemma inv_merge K U t ca cb ua ub :
    inv K U t ->
    (forall v cl, get t v = Some cl -> ccls cl = ca -> cval cl = Unbound ua) ->
    (forall v cl, get t v = Some cl -> ccls cl = cb -> cval cl = Unbound ub) ->
    (forall v w c1 c2, get t v = Some c1 -> get t w = Some c2 -> (ccls c1 = ca \/ ccls c1 = cb) -> (ccls c2 = ca \/ ccls c2 = cb) -> K v = K w) ->
    (exists v cl, get t v = Some cl /\ ccls cl = ca) -> (exists v cl, get t v = Some cl /\ ccls cl = cb) ->
    let p := fun cl => (cl =? ca) || (cl =? cb) in
    inv K (lower t p (N.min ua ub) U) (merge ca cb (Unbound (N.min ua ub)) t)
    /\ step K U t K (lower t p (N.min ua ub) U) (merge ca cb (Unbound (N.min ua ub)) t).
  Proof.
    intros I HA HB HK (va & cla & EA & QA) (vb & clb & EB & QB) p.
    set (mu := N.min ua ub). set (t' := merge ca cb (Unbound mu) t). set (U' := lower t p mu U).
    assert (NV : nvars t' = nvars t) by apply nvars_merge.
    assert (PP : forall cl, p cl = true <-> cl = ca \/ cl = cb).
    { intros cl. unfold p. rewrite orb_true_iff, !N.eqb_eq. reflexivity. }
    assert (MU : forall v cl, get t v = Some cl -> (ccls cl = ca \/ ccls cl = cb) -> mu <= U v /\ exists u, cval cl = Unbound u).
    { intros v cl E [Q | Q].
      - rewrite (inv_unb _ _ _ _ I v cl ua E (HA v cl E Q)). split; [unfold mu; lia | eexists; apply (HA v cl E Q)].
      - rewrite (inv_unb _ _ _ _ I v cl ub E (HB v cl E Q)). split; [unfold mu; lia | eexists; apply (HB v cl E Q)]. }
    assert (LE : forall w, U' w <= U w).
    { intros w. apply lower_le. intros cw E P. apply PP in P. apply (MU w cw E P). }
    assert (UN : forall v a0, get t v = Some a0 -> ccls a0 <> ca -> ccls a0 <> cb -> U' v = U v).
    { intros v a0 E Q1 Q2. unfold U', lower. rewrite E. destruct (p (ccls a0)) eqn:P; [apply PP in P; tauto | reflexivity]. }
    assert (UI : forall v a0, get t v = Some a0 -> (ccls a0 = ca \/ ccls a0 = cb) -> U' v = mu).
    { intros v a0 E Q. unfold U', lower. rewrite E. destruct (p (ccls a0)) eqn:P; [reflexivity |]. apply PP in Q. congruence. }
    assert (MIN : N.min ca cb = ca \/ N.min ca cb = cb) by lia.
    split.
    - constructor.
      + intros v c' E. rewrite NV. destruct (get_merge_inv _ _ _ _ _ _ E) as (c0 & E0 & [[Q ->] | (Q1 & Q2 & ->)]).
        * cbn [ccls]. destruct MIN as [-> | ->]; [rewrite <- QA; exact (inv_range _ _ _ _ I va cla EA) | rewrite <- QB; exact (inv_range _ _ _ _ I vb clb EB)].
        * exact (inv_range _ _ _ _ I v c0 E0).
      + intros v w c1 c2 E1 E2 Q.
        destruct (get_merge_inv _ _ _ _ _ _ E1) as (a0 & A0 & [[CA ->] | (CA1 & CA2 & ->)]);
          destruct (get_merge_inv _ _ _ _ _ _ E2) as (b0 & B0 & [[CB ->] | (CB1 & CB2 & ->)]); cbn [ccls cval] in *; try reflexivity.
        * destruct MIN as [M | M]; rewrite M in Q; congruence.
        * destruct MIN as [M | M]; rewrite M in Q; congruence.
        * exact (inv_cons _ _ _ _ I v w a0 b0 A0 B0 Q).
      + intros v w c1 c2 E1 E2 Q.
        destruct (get_merge_inv _ _ _ _ _ _ E1) as (a0 & A0 & [[CA ->] | (CA1 & CA2 & ->)]);
          destruct (get_merge_inv _ _ _ _ _ _ E2) as (b0 & B0 & [[CB ->] | (CB1 & CB2 & ->)]); cbn [ccls cval] in *.
        * exact (HK v w a0 b0 A0 B0 CA CB).
        * destruct MIN as [M | M]; rewrite M in Q; congruence.
        * destruct MIN as [M | M]; rewrite M in Q; congruence.
        * exact (inv_ck _ _ _ _ I v w a0 b0 A0 B0 Q).
      + intros v c1 x E B. destruct (get_merge_inv _ _ _ _ _ _ E) as (a0 & A0 & [[CA ->] | (CA1 & CA2 & ->)]); [discriminate B |].
        exact (inv_frag _ _ _ _ I v a0 x A0 B).
      + intros v c1 u E B. destruct (get_merge_inv _ _ _ _ _ _ E) as (a0 & A0 & [[CA ->] | (CA1 & CA2 & ->)]).
        * cbn [cval] in B. injection B as <-. exact (UI v a0 A0 CA).
        * rewrite (UN v a0 A0 CA1 CA2). exact (inv_unb _ _ _ _ I v a0 u A0 B).
      + intros v c1 x E B. rewrite NV. destruct (get_merge_inv _ _ _ _ _ _ E) as (a0 & A0 & [[CA ->] | (CA1 & CA2 & ->)]); [discriminate B |].
        rewrite (UN v a0 A0 CA1 CA2). eapply wellb_mono; [| | | exact (inv_bnd _ _ _ _ I v a0 x A0 B)]; try lia. intros w _. apply LE.
      + intros v c1 x E B. destruct (get_merge_inv _ _ _ _ _ _ E) as (a0 & A0 & [[CA ->] | (CA1 & CA2 & ->)]); [discriminate B |].
        exact (inv_kind _ _ _ _ I v a0 x A0 B).
      + intros v c1 h cs E B Hh. destruct (get_merge_inv _ _ _ _ _ _ E) as (a0 & A0 & [[CA ->] | (CA1 & CA2 & ->)]); [discriminate B |].
        exact (inv_chain _ _ _ _ I v a0 h cs A0 B Hh).
      + intros v c1 x E B HKv. destruct (get_merge_inv _ _ _ _ _ _ E) as (a0 & A0 & [[CA ->] | (CA1 & CA2 & ->)]); [discriminate B |].
        exact (inv_num _ _ _ _ I v a0 x A0 B HKv).
      + intros v c1 x E B HKv. destruct (get_merge_inv _ _ _ _ _ _ E) as (a0 & A0 & [[CA ->] | (CA1 & CA2 & ->)]); [discriminate B |].
        exact (inv_sort _ _ _ _ I v a0 x A0 B HKv).
    - split; [| split].
      + split.
        * intros v x (c0 & E & B). exists c0. split; [| exact B]. unfold t'. rewrite get_merge, E. cbn [option_map].
          destruct (p (ccls c0)) eqn:P; [| unfold p in P; rewrite P; reflexivity].
          apply PP in P. destruct (MU v c0 E P) as [_ (u & Q)]. rewrite Q in B. discriminate B.
        * intros v w (c1 & c2 & E1 & E2 & Q). unfold t'.
          eexists. eexists. rewrite !get_merge, E1, E2. cbn [option_map]. split; [reflexivity |]. split; [reflexivity |].
          rewrite Q. destruct ((ccls c2 =? ca) || (ccls c2 =? cb)); cbn [ccls]; congruence.
      + rewrite NV. lia.
      + intros v _. split; [apply LE | reflexivity].
  Qed.
End Ops.

(** ** Specifications *)

Definition scoped (n : N) : tm -> Prop :=
  allsub (fun h => match head_var h with Some w => w < n | None => True end).

Lemma wellb_scoped U n m x : wellb U n m x -> scoped n x.
Proof. apply allsub_impl. intros h [H _]. exact H. Qed.

Lemma scoped_mono n n' x : n <= n' -> scoped n x -> scoped n' x.
Proof. intros L. apply allsub_impl. intros h H. destruct (head_var h); [lia | exact I]. Qed.

Lemma kinded_scoped_ext K K' n x : (forall w, w < n -> K' w = K w) -> scoped n x -> kinded K x -> kinded K' x.
Proof.
  intros HK HS HKd. pose proof (allsub_and _ _ x HS HKd) as H. revert H. apply allsub_impl.
  intros h [H1 H2]. destruct (occ_kind h) as [[w k] |] eqn:E; [| exact I].
  assert (head_var h = Some w) as Hv by (destruct h; try discriminate E; try (destruct k0; inversion E; reflexivity); inversion E; reflexivity).
  rewrite Hv in H1. rewrite (HK _ H1). exact H2.
Qed.

(** pure inversion lemmas for the primitives *)
Lemma get_cell_inv v t c t' gs : get_cell v t = (Done c, t', gs) -> t' = t /\ gs = [] /\ get t v = Some c.
Proof. unfold get_cell. destruct (get t v) as [c0 |]; intros E; inversion E; subst. auto. Qed.

Lemma ret_inv {A} (a : A) t b t' gs : ret a t = (Done b, t', gs) -> b = a /\ t' = t /\ gs = [].
Proof. intros E. inversion E. auto. Qed.

Lemma fail_inv {A} (o : out A) t b t' gs : fail o t = (Done b, t', gs) -> o = Done b.
Proof. intros E. inversion E. reflexivity. Qed.

Lemma push_outlives_inv v a b t r t' gs :
  push_outlives v a b t = (Done r, t', gs) ->
  t' = t /\ gs = match v with Covariant => [outlives_goal b a] | Contravariant => [outlives_goal a b] | Invariant => [outlives_goal a b; outlives_goal b a] end.
Proof. destruct v; intros E; inversion E; auto. Qed.

Lemma new_variable_inv u t n t' gs : m_new_variable u t = (Done n, t', gs) -> n = nvars t /\ t' = snd (new_variable u t) /\ gs = [].
Proof. unfold m_new_variable, new_variable. intros E. inversion E. auto. Qed.

Section Specs.
  Variable ar : N -> nat.
  Variable adt_var : N -> list variance.
  Variable fn_var : N -> list variance.
  Notation inv := (inv ar).
  Notation pfrag := (pfrag ar).

  (** what is known about a term handed around: in the fragment, well kinded, in scope *)
  Definition okt (K : N -> vk) (t : table) (x : tm) : Prop := pfrag x = true /\ kinded K x /\ scoped (nvars t) x.

  Lemma okt_step K U t K' U' t' x : step K U t K' U' t' -> okt K t x -> okt K' t' x.
  Proof.
    intros (_ & N & H) (A & B & C). split; [exact A |]. split.
    - eapply kinded_scoped_ext; [| exact C | exact B]. intros w Hw. apply H. exact Hw.
    - eapply scoped_mono; eassumption.
  Qed.

  Lemma okt_children K t h cs : okt K t (Node h cs) -> Forall (okt K t) cs.
  Proof.
    intros (A & B & C). apply pfrag_node in A. destruct A as (n & _ & _ & A).
    apply allsub_node in B, C. destruct B as [_ B], C as [_ C].
    apply Forall_forall. intros x Hx. rewrite Forall_forall in A, B, C.
    split; [apply A; exact Hx | split; [apply B; exact Hx | apply C; exact Hx]].
  Qed.

  Lemma okt_node K t h cs cs' :
    okt K t (Node h cs) -> length cs' = length cs -> Forall (okt K t) cs' -> okt K t (Node h cs').
  Proof.
    intros (A & B & C) L H. apply pfrag_node in A. destruct A as (n & E & Ln & _).
    apply allsub_node in B, C. destruct B as [B _], C as [C _]. split; [| split].
    - apply pfrag_node. exists n. split; [exact E |]. split; [congruence |]. eapply Forall_impl; [| exact H]. intros x Hx. apply Hx.
    - apply allsub_node. split; [exact B |]. eapply Forall_impl; [| exact H]. intros x Hx. apply Hx.
    - apply allsub_node. split; [exact C |]. eapply Forall_impl; [| exact H]. intros x Hx. apply Hx.
  Qed.

  (** values stored in the table *)
  Lemma okt_value K U t v c x : inv K U t -> get t v = Some c -> cval c = Bound x -> okt K t x.
  Proof.
    intros I E B. split; [exact (inv_frag _ _ _ _ I v c x E B) |]. split; [exact (inv_kind _ _ _ _ I v c x E B) |].
    eapply wellb_scoped. exact (inv_bnd _ _ _ _ I v c x E B).
  Qed.

  Lemma teq_var_value m t gs h cs v c x : head_var h = Some v -> get t v = Some c -> cval c = Bound x -> teqm m t gs (Node h cs) x.
  Proof. intros Hv E B. eapply teq_bound; [exact Hv |]. exists c. auto. Qed.

  Lemma wellb_step K U t K' U' t' m x : step K U t K' U' t' -> wellb U (nvars t) m x -> wellb U' (nvars t') m x.
  Proof. intros (_ & N & H) W. eapply wellb_mono; [exact N | apply N.le_refl | | exact W]. intros w Hw. apply H. exact Hw. Qed.

  Lemma teq_to_m m t gs a b : teq t gs a b -> teqm m t gs a b.
  Proof. destruct m; [apply teqm_weaken | auto]. Qed.

  Lemma teq_step m K U t K' U' t' gs gs' a b : step K U t K' U' t' -> incl gs gs' -> teqm m t gs a b -> teqm m t' gs' a b.
  Proof. intros (P & _) I. apply teq_mono; assumption. Qed.

  (** *** The occurs check *)

  Definition occ_post (var ui : N) (vc : cell) (x : tm) (K : N -> vk) (U : N -> N) (t : table)
             (y : tm) (t1 : table) (g1 : list tm) : Prop :=
    exists K1 U1, inv K1 U1 t1 /\ step K U t K1 U1 t1 /\ okt K1 t1 y /\ wellb U1 (nvars t1) ui y /\ teq t1 g1 x y
                  /\ get t1 var = Some vc.

  Section OccLevel.
    Variable f : nat.
    Variable var ui : N.
    Variable vc : cell.
    Hypothesis Hvc : cval vc = Unbound ui.
    Hypothesis IHf : forall k x K U t y t1 g1,
      inv K U t -> okt K t x -> get t var = Some vc -> K var <> KL ->
      occ f var ui k x t = (Done y, t1, g1) -> occ_post var ui vc x K U t y t1 g1.

    Lemma occ_list_spec k : forall cs K U t ys t1 g1,
      inv K U t -> Forall (okt K t) cs -> get t var = Some vc -> K var <> KL ->
      mapM (occ f var ui k) cs t = (Done ys, t1, g1) ->
      exists K1 U1, inv K1 U1 t1 /\ step K U t K1 U1 t1 /\ Forall (okt K1 t1) ys /\ Forall (wellb U1 (nvars t1) ui) ys
                    /\ Forall2 (teq t1 g1) cs ys /\ get t1 var = Some vc.
    Proof.
      induction cs as [| x r IHr]; intros K U t ys t1 g1 I Hcs Hvar HK E; cbn [mapM] in E.
      - apply ret_inv in E. destruct E as (-> & -> & ->). exists K, U.
        split; [exact I |]. split; [apply step_refl |]. split; [constructor |]. split; [constructor |]. split; [constructor | exact Hvar].
      - apply Forall_cons_iff in Hcs. destruct Hcs as [Hx Hr].
        apply bind_inv in E. destruct E as (y & t2 & g2 & g3 & E1 & E2 & ->).
        destruct (IHf k x K U t y t2 g2 I Hx Hvar HK E1) as (K2 & U2 & I2 & S2 & Oy & Wy & Ty & V2).
        apply bind_inv in E2. destruct E2 as (ys' & t3 & g4 & g5 & E3 & E4 & ->).
        apply ret_inv in E4. destruct E4 as (-> & -> & ->).
        assert (HK2 : K2 var <> KL). { destruct S2 as (_ & _ & H). rewrite (proj2 (H var (get_some_lt _ _ _ Hvar))). exact HK. }
        assert (Hr2 : Forall (okt K2 t2) r). { eapply Forall_impl; [| exact Hr]. intros z Hz. eapply okt_step; eassumption. }
        destruct (IHr K2 U2 t2 ys' t3 g4 I2 Hr2 V2 HK2 E3) as (K3 & U3 & I3 & S3 & Oys & Wys & Tys & V3).
        exists K3, U3. split; [exact I3 |]. split; [eapply step_trans; eassumption |].
        rewrite app_nil_r. split; [constructor; [eapply okt_step; eassumption | exact Oys] |].
        split; [constructor; [eapply wellb_step; eassumption | exact Wys] |].
        split; [| exact V3]. constructor.
        + eapply teq_step; [exact S3 | | exact Ty]. apply incl_appl. apply incl_refl.
        + eapply Forall2_impl'; [| exact Tys]. intros a b Hab. eapply teq_mono; [apply pext_refl | | exact Hab]. apply incl_appr. apply incl_refl.
    Qed.
  End OccLevel.

  Lemma cond_promote_spec K U t v c u ui r t1 g1 :
    inv K U t -> get t v = Some c -> cval c = Unbound u ->
    (if ui <? u then promote v ui else ret tt) t = (Done r, t1, g1) ->
    exists U1, inv K U1 t1 /\ step K U t K U1 t1 /\ g1 = [] /\ U1 v <= ui
               /\ (forall w cw, get t w = Some cw -> ccls cw <> ccls c -> get t1 w = Some cw).
  Proof.
    intros I E B H. destruct (N.ltb_spec ui u) as [L | L].
    - unfold promote in H. apply bind_inv in H. destruct H as (c' & t2 & g2 & g3 & H1 & H2 & ->).
      apply get_cell_inv in H1. destruct H1 as (-> & -> & E'). rewrite E in E'. inversion E'; subst c'. rewrite B in H2.
      inversion H2; subst. clear H2.
      assert (HU : forall w cl, get t w = Some cl -> ccls cl = ccls c -> cval cl = Unbound u).
      { intros w cl Ew Q. rewrite (inv_cons _ _ _ _ I w v cl c Ew E Q). exact B. }
      destruct (inv_lower ar K U t (ccls c) u (N.min u ui) I HU ltac:(lia)) as [I1 S1].
      eexists. split; [exact I1 |]. split; [exact S1 |]. split; [reflexivity |]. split.
      + unfold lower. rewrite E, N.eqb_refl. lia.
      + intros w cw Ew Q. rewrite get_set_value, Ew. cbn [option_map]. destruct (N.eqb_spec (ccls cw) (ccls c)); [contradiction | reflexivity].
    - apply ret_inv in H. destruct H as (_ & -> & ->). exists U. split; [exact I |]. split; [apply step_refl |]. split; [reflexivity |].
      split; [rewrite (inv_unb _ _ _ _ I v c u E B); exact L | auto].
  Qed.

  Lemma pfrag_leaf h cs : pfrag (Node h cs) = true -> head_arity ar h = Some 0%nat -> cs = [].
  Proof.
    intros H A. apply pfrag_node in H. destruct H as (n & Q & Ln & _). rewrite A in Q. inversion Q as [Hn]. rewrite <- Hn in Ln.
    destruct cs; [reflexivity | discriminate Ln].
  Qed.

  Lemma okt_leaf K t h : head_arity ar h = Some 0%nat -> match occ_kind h with Some (w, k) => K w = k | None => True end ->
    match head_var h with Some w => w < nvars t | None => True end -> okt K t (Node h []).
  Proof.
    intros A B C. split; [apply pfrag_node; exists 0%nat; auto |]. split; apply allsub_node; split; auto.
  Qed.

  Lemma occ_spec : forall f var ui vc, cval vc = Unbound ui ->
    forall k x K U t y t1 g1,
      inv K U t -> okt K t x -> get t var = Some vc -> K var <> KL ->
      occ f var ui k x t = (Done y, t1, g1) -> occ_post var ui vc x K U t y t1 g1.
  Proof.
    induction f as [| f IH]; intros var ui vc Hvc k x K U t y t1 g1 I Ox Hvar HK E; cbn [occ] in E; [apply fail_inv in E; discriminate E |].
    destruct x as [s d i | d i c | h cs]; try (destruct Ox as [Q _]; discriminate Q).
    pose proof Ox as (Px & Kx & Sx).
    (* the answer [x] itself, when nothing changes *)
    assert (SAME : forall (W : wellb U (nvars t) ui (Node h cs)), occ_post var ui vc (Node h cs) K U t (Node h cs) t []).
    { intros W. exists K, U. split; [exact I |]. split; [apply step_refl |]. split; [exact Ox |]. split; [exact W |]. split; [apply teq_refl | exact Hvar]. }
    (* structural heads: fold the children *)
    assert (DEF : forall (NV : head_var h = None) (NP : match h with HPlaceholder _ _ | HLPlaceholder _ _ | HCPlaceholder _ _ => False | _ => True end),
               (cs' <- mapM (occ f var ui (under h k)) cs;; ret (Node h cs')) t = (Done y, t1, g1) -> occ_post var ui vc (Node h cs) K U t y t1 g1).
    { intros NV NP E'. apply bind_inv in E'. destruct E' as (cs' & t2 & g2 & g3 & E1 & E2 & ->).
      apply ret_inv in E2. destruct E2 as (-> & -> & ->). rewrite app_nil_r.
      destruct (occ_list_spec f var ui vc (IH var ui vc Hvc) (under h k) cs K U t cs' t2 g2 I (okt_children K t h cs Ox) Hvar HK E1)
        as (K1 & U1 & I1 & S1 & Ocs & Wcs & Tcs & V1).
      exists K1, U1. split; [exact I1 |]. split; [exact S1 |].
      assert (L : length cs' = length cs). { symmetry. eapply Forall2_len. exact Tcs. }
      split; [apply okt_node with (cs := cs); [eapply okt_step; eassumption | exact L | exact Ocs] |].
      split; [| split; [apply teq_node; exact Tcs | exact V1]].
      apply allsub_node. split; [| exact Wcs]. rewrite NV. split; [exact Logic.I |]. destruct h; try exact Logic.I; try contradiction NP; discriminate NV. }
    (* type / const unknowns *)
    destruct h; try (apply DEF; [reflexivity | exact Logic.I | exact E]); try (apply pfrag_node in Px; destruct Px as (n & Q & _); discriminate Q).
    - (* type placeholder *)
      destruct (N.ltb_spec ui ui0) as [L | L]; [apply fail_inv in E; discriminate E |].
      apply ret_inv in E. destruct E as (-> & -> & ->). apply SAME. rewrite (pfrag_leaf _ _ Px eq_refl). apply allsub_node. split; [split; [exact Logic.I | exact L] | constructor].
    - (* type unknown *)
      pose proof (pfrag_leaf _ _ Px eq_refl) as ->.
      apply allsub_node in Kx, Sx. destruct Kx as [Kv _], Sx as [Sv _]. cbn [head_var] in Sv.
      apply bind_inv in E. destruct E as (c & t2 & g2 & g3 & E1 & E2 & ->). apply get_cell_inv in E1. destruct E1 as (-> & -> & Ev).
      destruct (cval c) as [u | val] eqn:B.
      + apply bind_inv in E2. destruct E2 as (vc' & t3 & g4 & g5 & E3 & E4 & ->). apply get_cell_inv in E3. destruct E3 as (-> & -> & Ev').
        rewrite Hvar in Ev'. inversion Ev'; subst vc'.
        destruct (N.eqb_spec (ccls c) (ccls vc)) as [Q' | NC]; [apply fail_inv in E4; discriminate E4 |].
        apply bind_inv in E4. destruct E4 as (r & t4 & g6 & g7 & E5 & E6 & ->). apply ret_inv in E6. destruct E6 as (-> & -> & ->).
        destruct (cond_promote_spec K U t v c u ui r t4 g6 I Ev B E5) as (U1 & I1 & S1 & -> & LE & KEEP).
        exists K, U1. split; [exact I1 |]. split; [exact S1 |]. split; [eapply okt_step; eassumption |].
        split; [| split; [apply teq_refl | apply KEEP; [exact Hvar | auto]]].
        apply allsub_node. split; [| constructor]. split; [cbn [head_var]; destruct S1 as (_ & N1 & _); lia |].
        destruct k0; [exact LE | exact Logic.I | exact Logic.I].
      + destruct (IH var ui vc Hvc 0 val K U t y t1 g3 I (okt_value K U t v c val I Ev B) Hvar HK E2)
          as (K1 & U1 & I1 & S1 & Oy & Wy & Ty & V1).
        exists K1, U1. split; [exact I1 |]. split; [exact S1 |]. split; [exact Oy |]. split; [exact Wy |]. split; [| exact V1].
        cbn [app]. eapply teq_trans; [| exact Ty]. eapply teq_step; [exact S1 | apply incl_refl |].
        eapply teq_var_value; [reflexivity | exact Ev | exact B].
    - (* lifetime unknown *)
      pose proof (pfrag_leaf _ _ Px eq_refl) as ->.
      apply allsub_node in Kx, Sx. destruct Kx as [Kv _], Sx as [Sv _]. cbn [head_var] in Sv. cbn [occ_kind] in Kv.
      apply bind_inv in E. destruct E as (c & t2 & g2 & g3 & E1 & E2 & ->). apply get_cell_inv in E1. destruct E1 as (-> & -> & Ev).
      destruct (cval c) as [u | val] eqn:B.
      + apply bind_inv in E2. destruct E2 as (r & t4 & g6 & g7 & E5 & E6 & ->). apply ret_inv in E6. destruct E6 as (-> & -> & ->).
        destruct (cond_promote_spec K U t v c u ui r t4 g6 I Ev B E5) as (U1 & I1 & S1 & -> & LE & KEEP).
        assert (NC : ccls vc <> ccls c).
        { intros Q'. apply HK. rewrite (inv_ck _ _ _ _ I var v vc c Hvar Ev Q'). exact Kv. }
        exists K, U1. split; [exact I1 |]. split; [exact S1 |]. split; [eapply okt_step; eassumption |].
        split; [| split; [apply teq_refl | apply KEEP; [exact Hvar | exact NC]]].
        apply allsub_node. split; [| constructor]. split; [cbn [head_var]; destruct S1 as (_ & N1 & _); lia | exact LE].
      + destruct (IH var ui vc Hvc k val K U t y t1 g3 I (okt_value K U t v c val I Ev B) Hvar HK E2)
          as (K1 & U1 & I1 & S1 & Oy & Wy & Ty & V1).
        exists K1, U1. split; [exact I1 |]. split; [exact S1 |]. split; [exact Oy |]. split; [exact Wy |]. split; [| exact V1].
        cbn [app]. eapply teq_trans; [| exact Ty]. eapply teq_step; [exact S1 | apply incl_refl |].
        eapply teq_var_value; [reflexivity | exact Ev | exact B].
    - (* lifetime placeholder *)
      pose proof (pfrag_leaf _ _ Px eq_refl) as ->.
      destruct (N.ltb_spec ui ui0) as [L | L].
      + apply bind_inv in E. destruct E as (x & t2 & g2 & g3 & E1 & E2 & ->). apply new_variable_inv in E1. destruct E1 as (-> & -> & ->).
        apply bind_inv in E2. destruct E2 as (r & t3 & g4 & g5 & E3 & E4 & ->). apply push_outlives_inv in E3. destruct E3 as (-> & ->).
        apply ret_inv in E4. destruct E4 as (-> & -> & ->).
        destruct (inv_new ar K U t ui KL I) as [I1 S1].
        exists (upd K (nvars t) KL), (upd U (nvars t) ui). split; [exact I1 |]. split; [exact S1 |].
        assert (UN : upd U (nvars t) ui (nvars t) = ui) by (unfold upd; rewrite N.eqb_refl; reflexivity).
        assert (KN : upd K (nvars t) KL (nvars t) = KL) by (unfold upd; rewrite N.eqb_refl; reflexivity).
        split; [apply okt_leaf; [reflexivity | exact KN | cbn [head_var]; rewrite nvars_new_variable; lia] |].
        split; [apply allsub_node; split; [| constructor]; split; [cbn [head_var]; rewrite nvars_new_variable; lia | rewrite UN; lia] |].
        split; [| rewrite get_new_variable_old; [exact Hvar | eapply get_some_lt; exact Hvar]].
        cbn [app]. apply teq_sym. apply teq_outlives; try reflexivity; cbn [In]; auto.
      + apply ret_inv in E. destruct E as (-> & -> & ->). apply SAME. apply allsub_node. split; [split; [exact Logic.I | exact L] | constructor].
  Qed.

  (** *** Generalisation *)

  Definition gen_post (ui : N) (x : tm) (K : N -> vk) (U : N -> N) (t : table) (g : tm) (t1 : table) (g1 : list tm) : Prop :=
    g1 = [] /\ exists K1 U1, inv K1 U1 t1 /\ step K U t K1 U1 t1 /\ okt K1 t1 g /\ wellb U1 (nvars t1) ui g
      /\ (forall v c, get t v = Some c -> get t1 v = Some c)
      /\ (forall h cs, x = Node h cs -> head_var h = None -> kind_of x = KTy -> exists cs', g = Node h cs').

  Section GenLevel.
    Variable f : nat.
    Variable ui : N.
    Hypothesis IHf : forall v x K U t g t1 g1,
      inv K U t -> okt K t x -> wellb U (nvars t) ui x ->
      gen adt_var fn_var f ui v x t = (Done g, t1, g1) -> gen_post ui x K U t g t1 g1.

    Lemma gen_list_spec (vf : nat -> variance) : forall cs i K U t ys t1 g1,
      inv K U t -> Forall (okt K t) cs -> Forall (wellb U (nvars t) ui) cs ->
      mapM_idx (fun i c => gen adt_var fn_var f ui (vf i) c) i cs t = (Done ys, t1, g1) ->
      g1 = [] /\ exists K1 U1, inv K1 U1 t1 /\ step K U t K1 U1 t1 /\ Forall (okt K1 t1) ys /\ Forall (wellb U1 (nvars t1) ui) ys
        /\ (forall v c, get t v = Some c -> get t1 v = Some c) /\ length ys = length cs.
    Proof.
      induction cs as [| x r IHr]; intros i K U t ys t1 g1 I Hcs Wcs E; cbn [mapM_idx] in E.
      - apply ret_inv in E. destruct E as (-> & -> & ->). split; [reflexivity |]. exists K, U.
        split; [exact I |]. split; [apply step_refl |]. split; [constructor |]. split; [constructor |]. split; [auto | reflexivity].
      - apply Forall_cons_iff in Hcs, Wcs. destruct Hcs as [Hx Hr], Wcs as [Wx Wr].
        apply bind_inv in E. destruct E as (y & t2 & g2 & g3 & E1 & E2 & ->).
        destruct (IHf (vf i) x K U t y t2 g2 I Hx Wx E1) as (-> & K2 & U2 & I2 & S2 & Oy & Wy & G2 & _).
        apply bind_inv in E2. destruct E2 as (ys' & t3 & g4 & g5 & E3 & E4 & ->).
        apply ret_inv in E4. destruct E4 as (-> & -> & ->).
        assert (Hr2 : Forall (okt K2 t2) r). { eapply Forall_impl; [| exact Hr]. intros z Hz. eapply okt_step; eassumption. }
        assert (Wr2 : Forall (wellb U2 (nvars t2) ui) r). { eapply Forall_impl; [| exact Wr]. intros z Hz. eapply wellb_step; eassumption. }
        destruct (IHr (S i) K2 U2 t2 ys' t3 g4 I2 Hr2 Wr2 E3) as (-> & K3 & U3 & I3 & S3 & Oys & Wys & G3 & L3).
        split; [reflexivity |]. exists K3, U3. split; [exact I3 |]. split; [eapply step_trans; eassumption |].
        split; [constructor; [eapply okt_step; eassumption | exact Oys] |].
        split; [constructor; [eapply wellb_step; eassumption | exact Wys] |].
        split; [intros v c Ev; apply G3; apply G2; exact Ev | cbn [length]; congruence].
    Qed.
  End GenLevel.

  Lemma wellb_children U n m h cs : wellb U n m (Node h cs) -> Forall (wellb U n m) cs.
  Proof. intros H. apply allsub_node in H. apply H. Qed.

  Lemma gen_spec : forall f ui v x K U t g t1 g1,
    inv K U t -> okt K t x -> wellb U (nvars t) ui x ->
    gen adt_var fn_var f ui v x t = (Done g, t1, g1) -> gen_post ui x K U t g t1 g1.
  Proof.
    induction f as [| f IH]; intros ui v x K U t g t1 g1 I Ox Wx E; cbn [gen] in E; [apply fail_inv in E; discriminate E |].
    destruct x as [s d i | d i c | h cs]; try (destruct Ox as [Q _]; discriminate Q).
    pose proof Ox as (Px & Kx & Sx).
    assert (SAME : gen_post ui (Node h cs) K U t (Node h cs) t []).
    { split; [reflexivity |]. exists K, U. split; [exact I |]. split; [apply step_refl |]. split; [exact Ox |]. split; [exact Wx |].
      split; [auto |]. intros h' cs' Q _ _. inversion Q; subst. eauto. }
    assert (FRESH : forall (k : vk) (y : tm) (Hy : forall n, okt (upd K n k) (snd (new_variable ui t)) y -> True),
               True) by auto.
    (* a fresh variable *)
    assert (NEW : forall (hv : N -> head) (kk : vk),
               (forall n, head_arity ar (hv n) = Some 0%nat /\ occ_kind (hv n) = Some (n, kk) /\ head_var (hv n) = Some n) ->
               (head_var h <> None \/ kind_of (Node h cs) <> KTy) ->
               forall g t1 g1, (y <- m_new_variable ui;; ret (Node (hv y) [])) t = (Done g, t1, g1) -> gen_post ui (Node h cs) K U t g t1 g1).
    { intros hv kk Hhv NH g' t' g'' E'. apply bind_inv in E'. destruct E' as (n & t2 & g2 & g3 & E1 & E2 & ->).
      apply new_variable_inv in E1. destruct E1 as (-> & -> & ->). apply ret_inv in E2. destruct E2 as (-> & -> & ->).
      destruct (inv_new ar K U t ui kk I) as [I1 S1]. destruct (Hhv (nvars t)) as (A1 & A2 & A3).
      split; [reflexivity |]. exists (upd K (nvars t) kk), (upd U (nvars t) ui). split; [exact I1 |]. split; [exact S1 |].
      assert (UN : upd U (nvars t) ui (nvars t) = ui) by (unfold upd; rewrite N.eqb_refl; reflexivity).
      assert (KN : upd K (nvars t) kk (nvars t) = kk) by (unfold upd; rewrite N.eqb_refl; reflexivity).
      split; [apply okt_leaf; [exact A1 | rewrite A2; exact KN | rewrite A3, nvars_new_variable; lia] |].
      split.
      - apply allsub_node. split; [| constructor]. rewrite A3. split; [rewrite nvars_new_variable; lia |].
        destruct (hv (nvars t)) eqn:Q; try exact Logic.I; cbn [head_var] in A3; inversion A3; subst; try (rewrite UN; lia); try discriminate A2.
        destruct k; try exact Logic.I. rewrite UN. lia.
      - split; [intros w c Ew; rewrite get_new_variable_old; [exact Ew | eapply get_some_lt; exact Ew] |].
        intros h' cs' Q NV KT. inversion Q; subst. destruct NH as [NH | NH]; contradiction. }
    destruct (kind_of (Node h cs)) eqn:KD.
    - (* types *)
      assert (SUB : forall vf g t1 g1, (cs' <- mapM_idx (fun i c => gen adt_var fn_var f ui (vf i) c) 0 cs;; ret (Node h cs')) t = (Done g, t1, g1) ->
                     gen_post ui (Node h cs) K U t g t1 g1).
      { intros vf g' t' g'' E'. apply bind_inv in E'. destruct E' as (cs' & t2 & g2 & g3 & E1 & E2 & ->).
        apply ret_inv in E2. destruct E2 as (-> & -> & ->).
        destruct (gen_list_spec f ui (IH ui) vf cs 0%nat K U t cs' t2 g2 I (okt_children K t h cs Ox) (wellb_children _ _ _ _ _ Wx) E1)
          as (-> & K1 & U1 & I1 & S1 & Ocs & Wcs & G1 & L1).
        split; [reflexivity |]. exists K1, U1. split; [exact I1 |]. split; [exact S1 |].
        split; [apply okt_node with (cs := cs); [eapply okt_step; eassumption | exact L1 | exact Ocs] |].
        split; [| split; [exact G1 | intros h' cs'' Q _ _; inversion Q; subst; eauto]].
        apply allsub_node. split; [| exact Wcs]. apply allsub_node in Wx. destruct Wx as [[W1 W2] _].
        split; [destruct (head_var h); [destruct S1 as (_ & N1 & _); lia | exact Logic.I] |].
        destruct h; try exact Logic.I; try exact W2; cbn [head_var] in W1.
        - destruct S1 as (_ & _ & H1). destruct k; try exact Logic.I. destruct (H1 v0 W1) as [Q _]. lia.
        - destruct S1 as (_ & _ & H1). destruct (H1 v0 W1) as [Q _]. lia.
        - destruct S1 as (_ & _ & H1). destruct (H1 v0 W1) as [Q _]. lia. }
      cbv zeta in E.
      destruct h; try discriminate KD; try (eapply SUB; exact E); try (apply ret_inv in E; destruct E as (-> & -> & ->); exact SAME);
        try (apply pfrag_node in Px; destruct Px as (n & Q & _); discriminate Q).
      destruct k; try (apply ret_inv in E; destruct E as (-> & -> & ->); exact SAME).
      pose proof (pfrag_leaf _ _ Px eq_refl) as ->.
      apply bind_inv in E. destruct E as (tb & t2 & g2 & g3 & E1 & E2 & ->). inversion E1; subst tb t2 g2. clear E1.
      apply allsub_node in Wx. destruct Wx as [[W1 W2] _]. cbn [head_var] in W1.
      destruct (probe_tm t (Node (HInfer v0 General) [])) as [p |] eqn:PR.
      + (* bound: generalise the value *)
        cbn [probe_tm] in PR. destruct (get t v0) as [c0 |] eqn:E0; [| discriminate PR]. destruct (cval c0) as [u0 | p'] eqn:B0; [discriminate PR |].
        inversion PR; subst p'. clear PR.
        assert (Op : okt K t p) by (eapply okt_value; eassumption).
        assert (Wp : wellb U (nvars t) ui p).
        { eapply wellb_mono; [apply N.le_refl | exact W2 | intros; apply N.le_refl | exact (inv_bnd _ _ _ _ I v0 c0 p E0 B0)]. }
        destruct (probe_tm t p) as [q |] eqn:PR2.
        * (* the value is an int / float unknown that is bound in turn: to a scalar *)
          destruct p as [| | hp cp]; try discriminate PR2.
          assert (HV : head_var hp <> None) by (destruct hp; try discriminate PR2; discriminate).
          destruct (inv_chain _ _ _ _ I v0 c0 hp cp E0 B0 HV) as (_ & w & kw & OK & KW).
          assert (Hw : head_var hp = Some w) by (destruct hp; try discriminate OK; try (destruct k; inversion OK; reflexivity); inversion OK; reflexivity).
          cbn [probe_tm] in PR2.
          assert (PR3 : match get t w with Some c => match cval c with Bound p0 => Some p0 | Unbound _ => None end | None => None end = Some q)
            by (destruct hp; try discriminate Hw; cbn [head_var] in Hw; inversion Hw; subst; exact PR2).
          destruct (get t w) as [cw |] eqn:Ew; [| discriminate PR3]. destruct (cval cw) as [uw | q'] eqn:Bw; [discriminate PR3 |]. inversion PR3; subst q'.
          assert (KWv : K w = KI \/ K w = KF).
          { destruct Op as (_ & Kp & _). apply allsub_node in Kp. destruct Kp as [Kp _]. rewrite OK in Kp. rewrite Kp. exact KW. }
          destruct (inv_num _ _ _ _ I w cw q Ew Bw KWv) as (sc & ->).
          destruct (IH ui v (Node (HScalar sc) []) K U t g t1 g3 I (okt_value K U t w cw _ I Ew Bw)
                       ltac:(apply allsub_node; split; [split; exact Logic.I | constructor]) E2)
            as (-> & K1 & U1 & I1 & S1 & Og & Wg & G1 & _).
          split; [reflexivity |]. exists K1, U1. repeat (split; [assumption |]). intros h' cs' Q NV _. inversion Q; subst. discriminate NV.
        * destruct (IH ui v p K U t g t1 g3 I Op Wp E2) as (-> & K1 & U1 & I1 & S1 & Og & Wg & G1 & _).
          split; [reflexivity |]. exists K1, U1. repeat (split; [assumption |]). intros h' cs' Q NV _. inversion Q; subst. discriminate NV.
      + destruct (is_inv v); [apply ret_inv in E2; destruct E2 as (-> & -> & ->); cbn [app]; exact SAME |].
        cbn [app]. eapply (NEW (fun n => HInfer n General) KG); [intros n; repeat split | left; discriminate | exact E2].
    - (* lifetimes *)
      destruct (is_inv v); [apply ret_inv in E; destruct E as (-> & -> & ->); exact SAME |].
      eapply (NEW (fun n => HLInfer n) KL); [intros n; repeat split | right; discriminate | exact E].
    - (* consts: outside the fragment *)
      apply pfrag_node in Px. destruct Px as (n & Q & _). destruct h; try discriminate KD; discriminate Q.
    - apply pfrag_node in Px. destruct Px as (n & Q & _). destruct h; try discriminate KD; discriminate Q.
  Qed.

  (** *** Shallow normalisation *)

  (** a variable node that is its own shallow normal form is unbound *)
  Definition nrm (t : table) (a : tm) : Prop :=
    forall h cs w c, a = Node h cs -> head_var h = Some w -> get t w = Some c -> exists u, cval c = Unbound u.

  Lemma probe_tm_some t a p : probe_tm t a = Some p ->
    exists h cs v c, a = Node h cs /\ head_var h = Some v /\ get t v = Some c /\ cval c = Bound p.
  Proof.
    destruct a as [| | h cs]; try discriminate. cbn [probe_tm].
    assert (G : forall v, match get t v with Some c => match cval c with Bound p0 => Some p0 | Unbound _ => None end | None => None end = Some p ->
                     exists c, get t v = Some c /\ cval c = Bound p).
    { intros v. destruct (get t v) as [c |]; [| discriminate]. destruct (cval c) as [u | x] eqn:B; [discriminate |]. intros Q. inversion Q; subst. eauto. }
    destruct h; try discriminate; intros H; destruct (G _ H) as (c & E & B); do 4 eexists; (split; [reflexivity |]); (split; [reflexivity |]); eauto.
  Qed.

  Lemma probe_tm_none t h cs v c : head_var h = Some v -> get t v = Some c -> probe_tm t (Node h cs) = None -> exists u, cval c = Unbound u.
  Proof.
    intros Hv E. cbn [probe_tm]. destruct h; try discriminate Hv; cbn [head_var] in Hv; inversion Hv; subst; rewrite E;
      (destruct (cval c) as [u | x]; [eauto | discriminate]).
  Qed.

  Lemma occ_kind_var h w k : occ_kind h = Some (w, k) -> head_var h = Some w.
  Proof. destruct h; try discriminate; try (destruct k0; intros Q; inversion Q; reflexivity); intros Q; inversion Q; reflexivity. Qed.

  Lemma okt_var_kind K t h cs v : okt K t (Node h cs) -> head_var h = Some v -> kind_of (Node h cs) = KTy -> K v <> KL.
  Proof.
    intros (P & Kd & _) Hv Kt. apply allsub_node in Kd. destruct Kd as [Kd _].
    destruct h; try discriminate Hv; try discriminate Kt; cbn [head_var] in Hv; inversion Hv; subst.
    destruct k; cbn [occ_kind] in Kd; rewrite Kd; discriminate.
  Qed.

  Lemma shallow_ty_kind K U t a0 : inv K U t -> okt K t a0 -> kind_of a0 = KTy -> kind_of (shallow_ty t a0) = KTy.
  Proof.
    intros I O Kt. unfold shallow_ty. destruct (probe_tm t a0) as [p |] eqn:P1; [| exact Kt].
    destruct (probe_tm_some _ _ _ P1) as (h & cs & v & c & -> & Hv & E & B).
    pose proof (okt_value K U t v c p I E B) as Op.
    pose proof (inv_sort _ _ _ _ I v c p E B (okt_var_kind K t h cs v O Hv Kt)) as Kp.
    destruct (probe_tm t p) as [q |] eqn:P2; [| exact Kp].
    destruct (probe_tm_some _ _ _ P2) as (h' & cs' & w & c' & -> & Hw & E' & B').
    exact (inv_sort _ _ _ _ I w c' q E' B' (okt_var_kind K t h' cs' w Op Hw Kp)).
  Qed.

  Lemma shallow_ty_spec m K U t gs a0 :
    inv K U t -> okt K t a0 ->
    okt K t (shallow_ty t a0) /\ teqm m t gs a0 (shallow_ty t a0) /\ nrm t (shallow_ty t a0).
  Proof.
    intros I O. unfold shallow_ty. destruct (probe_tm t a0) as [p |] eqn:P1.
    - destruct (probe_tm_some _ _ _ P1) as (h & cs & v & c & -> & Hv & E & B).
      pose proof (okt_value K U t v c p I E B) as Op.
      assert (T1 : teqm m t gs (Node h cs) p) by (eapply teq_var_value; eassumption).
      destruct (probe_tm t p) as [q |] eqn:P2.
      + destruct (probe_tm_some _ _ _ P2) as (h' & cs' & w & c' & -> & Hw & E' & B').
        split; [eapply okt_value; eassumption |]. split; [eapply teq_trans; [exact T1 | eapply teq_var_value; eassumption] |].
        (* the second value is not a variable: its owner is an int / float unknown *)
        assert (HV : head_var h' <> None) by congruence.
        destruct (inv_chain _ _ _ _ I v c h' cs' E B HV) as (_ & w0 & k0 & OK & KW).
        pose proof (occ_kind_var _ _ _ OK) as Hw0. rewrite Hw in Hw0. inversion Hw0; subst w0.
        assert (KWv : K w = KI \/ K w = KF).
        { destruct Op as (_ & Kp & _). apply allsub_node in Kp. destruct Kp as [Kp _]. rewrite OK in Kp. rewrite Kp. exact KW. }
        destruct (inv_num _ _ _ _ I w c' q E' B' KWv) as (sc & ->).
        intros h2 cs2 w2 c2 Q Hv2 _. inversion Q; subst. discriminate Hv2.
      + split; [exact Op |]. split; [exact T1 |].
        intros h2 cs2 w2 c2 Q Hv2 E2. subst p. eapply probe_tm_none; eassumption.
    - split; [exact O |]. split; [apply teq_refl |].
      intros h cs w c -> Hv E. eapply probe_tm_none; eassumption.
  Qed.

  Lemma shallow1_spec m K U t gs a0 :
    inv K U t -> okt K t a0 -> kind_of a0 = KLt ->
    okt K t (shallow1 t a0) /\ teqm m t gs a0 (shallow1 t a0) /\ nrm t (shallow1 t a0).
  Proof.
    intros I O KL'. unfold shallow1. destruct (probe_tm t a0) as [p |] eqn:P1.
    - destruct (probe_tm_some _ _ _ P1) as (h & cs & v & c & -> & Hv & E & B).
      pose proof (okt_value K U t v c p I E B) as Op.
      assert (Kv : K v = KL).
      { destruct O as (_ & Ka & _). apply allsub_node in Ka. destruct Ka as [Ka _].
        destruct h; try discriminate KL'; try discriminate Hv. cbn [head_var] in Hv. inversion Hv; subst. exact Ka. }
      split; [exact Op |]. split; [eapply teq_var_value; eassumption |].
      intros h2 cs2 w2 c2 -> Hv2 _.
      destruct (inv_chain _ _ _ _ I v c h2 cs2 E B ltac:(congruence)) as (KG' & _). congruence.
    - split; [exact O |]. split; [apply teq_refl |].
      intros h cs w c -> Hv E. eapply probe_tm_none; eassumption.
  Qed.

  (** *** Unions and bindings *)

  Lemma union_spec K U t v1 v2 c1 c2 u1 u2 r t1 g1 :
    inv K U t -> get t v1 = Some c1 -> cval c1 = Unbound u1 -> get t v2 = Some c2 -> cval c2 = Unbound u2 -> K v1 = K v2 ->
    union_vars v1 v2 t = (Done r, t1, g1) ->
    g1 = [] /\ exists U1, inv K U1 t1 /\ step K U t K U1 t1 /\ same_class t1 v1 v2.
  Proof.
    intros I E1 B1 E2 B2 HK H. unfold union_vars in H.
    apply bind_inv in H. destruct H as (ca & t2 & g2 & g3 & H1 & H2 & ->). apply get_cell_inv in H1. destruct H1 as (-> & -> & Ea).
    apply bind_inv in H2. destruct H2 as (cb & t3 & g4 & g5 & H3 & H4 & ->). apply get_cell_inv in H3. destruct H3 as (-> & -> & Eb).
    rewrite E1 in Ea. inversion Ea; subst ca. rewrite E2 in Eb. inversion Eb; subst cb. clear Ea Eb.
    destruct (N.eqb_spec (ccls c1) (ccls c2)) as [Q | NQ].
    - apply ret_inv in H4. destruct H4 as (_ & -> & ->). split; [reflexivity |]. exists U. split; [exact I |]. split; [apply step_refl |].
      exists c1, c2. auto.
    - rewrite B1, B2 in H4. inversion H4; subst. clear H4. split; [reflexivity |].
      assert (HA : forall v cl, get t v = Some cl -> ccls cl = ccls c1 -> cval cl = Unbound u1).
      { intros v cl Ev Q. rewrite (inv_cons _ _ _ _ I v v1 cl c1 Ev E1 Q). exact B1. }
      assert (HB : forall v cl, get t v = Some cl -> ccls cl = ccls c2 -> cval cl = Unbound u2).
      { intros v cl Ev Q. rewrite (inv_cons _ _ _ _ I v v2 cl c2 Ev E2 Q). exact B2. }
      assert (HKK : forall v w ca cb, get t v = Some ca -> get t w = Some cb -> (ccls ca = ccls c1 \/ ccls ca = ccls c2) -> (ccls cb = ccls c1 \/ ccls cb = ccls c2) -> K v = K w).
      { intros v w ca cb Ev Ew Qa Qb.
        assert (A : K v = K v1) by (destruct Qa as [Qa | Qa]; [exact (inv_ck _ _ _ _ I v v1 ca c1 Ev E1 Qa) | rewrite HK; exact (inv_ck _ _ _ _ I v v2 ca c2 Ev E2 Qa)]).
        assert (B : K w = K v1) by (destruct Qb as [Qb | Qb]; [exact (inv_ck _ _ _ _ I w v1 cb c1 Ew E1 Qb) | rewrite HK; exact (inv_ck _ _ _ _ I w v2 cb c2 Ew E2 Qb)]).
        congruence. }
      destruct (inv_merge ar K U t (ccls c1) (ccls c2) u1 u2 I HA HB HKK ltac:(eauto) ltac:(eauto)) as [I1 S1].
      eexists. split; [exact I1 |]. split; [exact S1 |].
      eexists. eexists. rewrite !get_merge, E1, E2. cbn [option_map]. split; [reflexivity |]. split; [reflexivity |].
      rewrite !N.eqb_refl, orb_true_r. cbn [orb ccls]. reflexivity.
  Qed.

  Lemma bindvar_spec K U t v c u g r t1 g1 :
    inv K U t -> get t v = Some c -> cval c = Unbound u ->
    okt K t g -> wellb U (nvars t) u g ->
    (forall h cs, g = Node h cs -> head_var h <> None -> K v = KG /\ exists w k, occ_kind h = Some (w, k) /\ (k = KI \/ k = KF)) ->
    (K v = KI \/ K v = KF -> exists s, g = Node (HScalar s) []) ->
    (K v <> KL -> kind_of g = KTy) ->
    bind_var v g t = (Done r, t1, g1) ->
    g1 = [] /\ inv K U t1 /\ step K U t K U t1 /\ bound_to t1 v g.
  Proof.
    intros I E B (Pg & Kg & _) Wg Hc Hn Hs H. unfold bind_var in H.
    apply bind_inv in H. destruct H as (c' & t2 & g2 & g3 & H1 & H2 & ->). apply get_cell_inv in H1. destruct H1 as (-> & -> & E').
    rewrite E in E'. inversion E'; subst c'. rewrite B in H2. inversion H2; subst. clear H2.
    assert (HU : forall w cl, get t w = Some cl -> ccls cl = ccls c -> cval cl = Unbound u).
    { intros w cl Ew Q. rewrite (inv_cons _ _ _ _ I w v cl c Ew E Q). exact B. }
    destruct (inv_bind ar K U t (ccls c) u g I HU Pg Wg Kg) as [I1 S1].
    - intros h cs Q HV. destruct (Hc h cs Q HV) as [A B']. split; [| exact B'].
      intros w cl Ew Qc. rewrite (inv_ck _ _ _ _ I w v cl c Ew E Qc). exact A.
    - intros w cl Ew Qc HK. apply Hn. rewrite <- (inv_ck _ _ _ _ I w v cl c Ew E Qc). exact HK.
    - intros w cl Ew Qc HK. apply Hs. rewrite <- (inv_ck _ _ _ _ I w v cl c Ew E Qc). exact HK.
    - split; [reflexivity |]. split; [exact I1 |]. split; [exact S1 |].
      eexists. rewrite get_set_value, E. cbn [option_map]. rewrite N.eqb_refl. split; reflexivity.
  Qed.

  (** *** Lifetimes *)

  Lemma lcls_inv a :
    match lcls_of a with
    | LInfer v => exists cs, a = Node (HLInfer v) cs
    | LPh ui => exists i cs, a = Node (HLPlaceholder ui i) cs
    | LStatic => exists cs, a = Node HLStatic cs
    | LErased => exists cs, a = Node HLErased cs
    | LError => exists cs, a = Node HLError cs
    | LBound | LBad => True
    end.
  Proof. destruct a as [| | h cs]; cbn [lcls_of]; try exact Logic.I. destruct h; cbn; eauto. Qed.

  Lemma okt_nil K t h cs : okt K t (Node h cs) -> head_arity ar h = Some 0%nat -> cs = [].
  Proof. intros (P & _) A. eapply pfrag_leaf; eassumption. Qed.

  Lemma union_spec' K U t v1 v2 r t1 g1 :
    inv K U t ->
    (forall c, get t v1 = Some c -> exists u, cval c = Unbound u) ->
    (forall c, get t v2 = Some c -> exists u, cval c = Unbound u) -> K v1 = K v2 ->
    union_vars v1 v2 t = (Done r, t1, g1) ->
    g1 = [] /\ exists U1, inv K U1 t1 /\ step K U t K U1 t1 /\ same_class t1 v1 v2.
  Proof.
    intros I N1 N2 HK H. pose proof H as H'. unfold union_vars in H'.
    apply bind_inv in H'. destruct H' as (ca & t2 & g2 & g3 & H1 & H2 & _). apply get_cell_inv in H1. destruct H1 as (-> & _ & Ea).
    apply bind_inv in H2. destruct H2 as (cb & t3 & g4 & g5 & H3 & _ & _). apply get_cell_inv in H3. destruct H3 as (_ & _ & Eb).
    destruct (N1 ca Ea) as (u1 & B1). destruct (N2 cb Eb) as (u2 & B2).
    eapply union_spec; eassumption.
  Qed.

  (** the relation proved at variance [v]: [teq] (both directions) for the invariant relation,
      [teqm true] otherwise *)
  Definition vm (v : variance) (m : bool) : Prop := v = Invariant \/ m = true.

  Lemma vm_invert v m : vm v m -> vm (invert v) m.
  Proof. intros [-> | H]; [left; reflexivity | right; exact H]. Qed.

  Lemma push_teq m v t x y : vm v m -> kind_of x = KLt -> kind_of y = KLt ->
    teqm m t (match v with Covariant => [outlives_goal y x] | Contravariant => [outlives_goal x y] | Invariant => [outlives_goal x y; outlives_goal y x] end) x y.
  Proof.
    intros HV Kx Ky. destruct v.
    - destruct HV as [Q | Q]; [discriminate Q |]. apply teq_sym. apply teq_outlives; auto; [cbn [In]; auto | intros Q'; congruence].
    - apply teq_outlives; auto; cbn [In]; auto.
    - destruct HV as [Q | Q]; [discriminate Q |]. apply teq_outlives; auto; [cbn [In]; auto | intros Q'; congruence].
  Qed.

  Lemma unify_lt_spec m v K U t va b vu r t1 g1 :
    vm v m ->
    inv K U t -> (forall c, get t va = Some c -> exists u, cval c = Unbound u) -> K va = KL ->
    okt K t b -> kind_of b = KLt -> (forall h cs, b = Node h cs -> head_var h = None) ->
    (forall var_ui, vu <= var_ui -> wellb U (nvars t) var_ui b) ->
    unify_lifetime_var v va b vu t = (Done r, t1, g1) ->
    inv K U t1 /\ step K U t K U t1 /\ teqm m t1 g1 (lt_var va) b.
  Proof.
    intros HV I N1 KV Ob Kb NVb Wb H. unfold unify_lifetime_var in H.
    apply bind_inv in H. destruct H as (c & t2 & g2 & g3 & H1 & H2 & ->). apply get_cell_inv in H1. destruct H1 as (-> & -> & E).
    destruct (N1 c E) as (u & B). rewrite B in H2.
    destruct ((vu <=? u) && is_inv v) eqn:C.
    - apply andb_true_iff in C. destruct C as [L _]. apply N.leb_le in L.
      destruct (bindvar_spec K U t va c u b r t1 g3 I E B Ob (Wb u L)) as (-> & I1 & S1 & Bd); try exact H2.
      + intros h cs Q HV'. rewrite (NVb h cs Q) in HV'. contradiction.
      + intros [Q | Q]; congruence.
      + intros Q. contradiction.
      + split; [exact I1 |]. split; [exact S1 |]. eapply teq_bound; [reflexivity | exact Bd].
    - apply push_outlives_inv in H2. destruct H2 as (-> & ->). split; [exact I |]. split; [apply step_refl |].
      cbn [app]. apply push_teq; [exact HV | reflexivity | exact Kb].
  Qed.

  Lemma rel_lt_norm_spec m v K U t a b r t1 g1 :
    vm v m ->
    inv K U t -> okt K t a -> okt K t b -> nrm t a -> nrm t b ->
    rel_lt_norm v a b t = (Done r, t1, g1) ->
    exists U1, inv K U1 t1 /\ step K U t K U1 t1 /\ teqm m t1 g1 a b.
  Proof.
    intros HV I Oa Ob Na Nb H. unfold rel_lt_norm in H. pose proof (vm_invert v m HV) as HVi.
    assert (PUSH : forall x y, kind_of x = KLt -> kind_of y = KLt ->
               (if tm_eqb x y then ret tt else push_outlives v x y) t = (Done r, t1, g1) ->
               exists U1, inv K U1 t1 /\ step K U t K U1 t1 /\ teqm m t1 g1 x y).
    { intros x y Kx Ky H'. destruct (tm_eqb x y) eqn:Q.
      - apply tm_eqb_eq in Q. subst y. apply ret_inv in H'. destruct H' as (_ & -> & ->). exists U. split; [exact I |]. split; [apply step_refl | apply teq_refl].
      - apply push_outlives_inv in H'. destruct H' as (-> & ->). exists U. split; [exact I |]. split; [apply step_refl |].
        apply push_teq; assumption. }
    assert (VARL : forall vv cs x, x = Node (HLInfer vv) cs -> okt K t x -> nrm t x ->
               x = lt_var vv /\ K vv = KL /\ (forall c, get t vv = Some c -> exists u, cval c = Unbound u)).
    { intros vv cs x -> Ox Nx. pose proof (okt_nil _ _ _ _ Ox eq_refl) as ->. split; [reflexivity |]. split.
      - destruct Ox as (_ & Kx & _). apply allsub_node in Kx. apply Kx.
      - intros c E. eapply Nx; [reflexivity | reflexivity | exact E]. }
    assert (RIGID : forall x, okt K t x -> match lcls_of x with LPh _ | LStatic | LErased => True | _ => False end ->
               kind_of x = KLt /\ (forall h cs, x = Node h cs -> head_var h = None)
               /\ (forall var_ui, match lcls_of x with LPh ui => ui | _ => 0 end <= var_ui -> wellb U (nvars t) var_ui x)).
    { intros x Ox Lx. pose proof (lcls_inv x) as Q. destruct (lcls_of x) eqn:LX; try contradiction.
      - destruct Q as (i & cs & ->). pose proof (okt_nil _ _ _ _ Ox eq_refl) as ->. split; [reflexivity |]. split; [intros h cs Q; inversion Q; reflexivity |].
        intros vu L. apply allsub_node. split; [split; [exact Logic.I | exact L] | constructor].
      - destruct Q as (cs & ->). pose proof (okt_nil _ _ _ _ Ox eq_refl) as ->. split; [reflexivity |]. split; [intros h cs Q; inversion Q; reflexivity |].
        intros vu L. apply allsub_node. split; [split; exact Logic.I | constructor].
      - destruct Q as (cs & ->). pose proof (okt_nil _ _ _ _ Ox eq_refl) as ->. split; [reflexivity |]. split; [intros h cs Q; inversion Q; reflexivity |].
        intros vu L. apply allsub_node. split; [split; exact Logic.I | constructor]. }
    assert (NOERR : forall x, okt K t x -> lcls_of x <> LError).
    { intros x (Px & _) Q. pose proof (lcls_inv x) as Q'. rewrite Q in Q'. destruct Q' as (cs & ->). apply pfrag_node in Px. destruct Px as (n & Q'' & _). discriminate Q''. }
    pose proof (NOERR a Oa) as NEa. pose proof (NOERR b Ob) as NEb.
    pose proof (lcls_inv a) as IA. pose proof (lcls_inv b) as IB.
    pose proof (RIGID a Oa) as RA. pose proof (RIGID b Ob) as RB.
    destruct (lcls_of a) as [va | ua | | | | |] eqn:LA; try congruence; try (apply fail_inv in H; discriminate H);
      destruct (lcls_of b) as [vb | ub | | | | |] eqn:LB; try congruence; try (apply fail_inv in H; discriminate H); cbv iota in H.
    - (* unknown / unknown *)
      destruct IA as (csa & Qa). destruct IB as (csb & Qb).
      destruct (VARL va csa a Qa Oa Na) as (-> & Ka & Ca). destruct (VARL vb csb b Qb Ob Nb) as (-> & Kb & Cb).
      destruct (is_inv v).
      + destruct (union_spec' K U t va vb r t1 g1 I Ca Cb ltac:(congruence) H) as (-> & U1 & I1 & S1 & SC).
        exists U1. split; [exact I1 |]. split; [exact S1 |]. eapply teq_class; [reflexivity | reflexivity | exact SC].
      + unfold unless_unioned in H.
        apply bind_inv in H. destruct H as (ca & t2 & g2 & g3 & H1 & H2 & ->). apply get_cell_inv in H1. destruct H1 as (-> & -> & Ea).
        apply bind_inv in H2. destruct H2 as (cb & t3 & g4 & g5 & H3 & H4 & ->). apply get_cell_inv in H3. destruct H3 as (-> & -> & Eb).
        destruct (N.eqb_spec (ccls ca) (ccls cb)) as [Q | Q].
        * apply ret_inv in H4. destruct H4 as (_ & -> & ->). exists U. split; [exact I |]. split; [apply step_refl |].
          eapply teq_class; [reflexivity | reflexivity |]. exists ca, cb. auto.
        * apply push_outlives_inv in H4. destruct H4 as (-> & ->). exists U. split; [exact I |]. split; [apply step_refl |].
          cbn [app]. apply push_teq; [exact HV | reflexivity | reflexivity].
    - destruct IA as (csa & Qa). destruct (VARL va csa a Qa Oa Na) as (-> & Ka & Ca). destruct (RB Logic.I) as (Kb & NVb & Wb).
      destruct (unify_lt_spec m v K U t va b ub r t1 g1 HV I Ca Ka Ob Kb NVb Wb H) as (I1 & S1 & T1). exists U. auto.
    - destruct IA as (csa & Qa). destruct (VARL va csa a Qa Oa Na) as (-> & Ka & Ca). destruct (RB Logic.I) as (Kb & NVb & Wb).
      destruct (unify_lt_spec m v K U t va b 0 r t1 g1 HV I Ca Ka Ob Kb NVb Wb H) as (I1 & S1 & T1). exists U. auto.
    - destruct IA as (csa & Qa). destruct (VARL va csa a Qa Oa Na) as (-> & Ka & Ca). destruct (RB Logic.I) as (Kb & NVb & Wb).
      destruct (unify_lt_spec m v K U t va b 0 r t1 g1 HV I Ca Ka Ob Kb NVb Wb H) as (I1 & S1 & T1). exists U. auto.
    - destruct IB as (csb & Qb). destruct (VARL vb csb b Qb Ob Nb) as (-> & Kb & Cb). destruct (RA Logic.I) as (Ka & NVa & Wa).
      destruct (unify_lt_spec m (invert v) K U t vb a ua r t1 g1 HVi I Cb Kb Oa Ka NVa Wa H) as (I1 & S1 & T1). exists U. split; [exact I1 |]. split; [exact S1 | apply teq_sym; exact T1].
    - apply PUSH; [apply (RA Logic.I) | apply (RB Logic.I) | exact H].
    - apply PUSH; [apply (RA Logic.I) | apply (RB Logic.I) | exact H].
    - apply PUSH; [apply (RA Logic.I) | apply (RB Logic.I) | exact H].
    - destruct IB as (csb & Qb). destruct (VARL vb csb b Qb Ob Nb) as (-> & Kb & Cb). destruct (RA Logic.I) as (Ka & NVa & Wa).
      destruct (unify_lt_spec m (invert v) K U t vb a 0 r t1 g1 HVi I Cb Kb Oa Ka NVa Wa H) as (I1 & S1 & T1). exists U. split; [exact I1 |]. split; [exact S1 | apply teq_sym; exact T1].
    - apply PUSH; [apply (RA Logic.I) | apply (RB Logic.I) | exact H].
    - destruct IA as (csa & ->). destruct IB as (csb & ->). rewrite (okt_nil _ _ _ _ Oa eq_refl), (okt_nil _ _ _ _ Ob eq_refl).
      apply ret_inv in H. destruct H as (_ & -> & ->). exists U. split; [exact I |]. split; [apply step_refl | apply teq_refl].
    - apply PUSH; [apply (RA Logic.I) | apply (RB Logic.I) | exact H].
    - destruct IB as (csb & Qb). destruct (VARL vb csb b Qb Ob Nb) as (-> & Kb & Cb). destruct (RA Logic.I) as (Ka & NVa & Wa).
      destruct (unify_lt_spec m (invert v) K U t vb a 0 r t1 g1 HVi I Cb Kb Oa Ka NVa Wa H) as (I1 & S1 & T1). exists U. split; [exact I1 |]. split; [exact S1 | apply teq_sym; exact T1].
    - apply PUSH; [apply (RA Logic.I) | apply (RB Logic.I) | exact H].
    - apply PUSH; [apply (RA Logic.I) | apply (RB Logic.I) | exact H].
    - destruct IA as (csa & ->). destruct IB as (csb & ->). rewrite (okt_nil _ _ _ _ Oa eq_refl), (okt_nil _ _ _ _ Ob eq_refl).
      apply ret_inv in H. destruct H as (_ & -> & ->). exists U. split; [exact I |]. split; [apply step_refl | apply teq_refl].
  Qed.

  (** *** Types *)

  Definition rel_post (m : bool) (a b : tm) (K : N -> vk) (U : N -> N) (t t1 : table) (g1 : list tm) : Prop :=
    exists K1 U1, inv K1 U1 t1 /\ step K U t K1 U1 t1 /\ teqm m t1 g1 a b.

  Section RelLevel.
    Variable f : nat.
    Variable rec : rel_fn.
    Variable m : bool.
    Hypothesis IHrec : forall v a b K U t r t1 g1, vm v m ->
      inv K U t -> okt K t a -> okt K t b -> rec v a b t = (Done r, t1, g1) -> rel_post m a b K U t t1 g1.

    Lemma zip_spec (vf : nat -> variance) : (forall i, vm (vf i) m) -> forall l l' i K U t r t1 g1,
      inv K U t -> Forall (okt K t) l -> Forall (okt K t) l' -> length l = length l' ->
      zip_children rec vf i l l' t = (Done r, t1, g1) ->
      exists K1 U1, inv K1 U1 t1 /\ step K U t K1 U1 t1 /\ Forall2 (teqm m t1 g1) l l'.
    Proof.
      intros Hvf. induction l as [| x rl IHl]; intros l' i K U t r t1 g1 I Hl Hl' Len E; destruct l' as [| y rl']; try discriminate Len; cbn [zip_children] in E.
      - apply ret_inv in E. destruct E as (_ & -> & ->). exists K, U. split; [exact I |]. split; [apply step_refl | constructor].
      - apply Forall_cons_iff in Hl, Hl'. destruct Hl as [Hx Hr], Hl' as [Hy Hr'].
        apply bind_inv in E. destruct E as (r1 & t2 & g2 & g3 & E1 & E2 & ->).
        unfold rel_garg in E1. destruct (kind_eqb (kind_of x) (kind_of y)); [| apply fail_inv in E1; discriminate E1].
        destruct (IHrec (vf i) x y K U t r1 t2 g2 (Hvf i) I Hx Hy E1) as (K2 & U2 & I2 & S2 & T2).
        assert (Hr2 : Forall (okt K2 t2) rl). { eapply Forall_impl; [| exact Hr]. intros z Hz. eapply okt_step; eassumption. }
        assert (Hr2' : Forall (okt K2 t2) rl'). { eapply Forall_impl; [| exact Hr']. intros z Hz. eapply okt_step; eassumption. }
        destruct (IHl rl' (S i) K2 U2 t2 r t1 g3 I2 Hr2 Hr2' ltac:(cbn [length] in Len; lia) E2) as (K3 & U3 & I3 & S3 & T3).
        exists K3, U3. split; [exact I3 |]. split; [eapply step_trans; eassumption |]. constructor.
        + eapply teq_step; [exact S3 | | exact T2]. apply incl_appl. apply incl_refl.
        + eapply Forall2_impl'; [| exact T3]. intros a b Hab. eapply teq_mono; [apply pext_refl | | exact Hab]. apply incl_appr. apply incl_refl.
    Qed.

    (** binding an unknown to a type that is not an unknown *)
    Lemma rel_var_ty_spec v K U t var k cs ty r t1 g1 :
      vm v m ->
      inv K U t -> okt K t (Node (HInfer var k) cs) -> nrm t (Node (HInfer var k) cs) -> okt K t ty ->
      kind_of ty = KTy -> (forall h cs', ty = Node h cs' -> head_var h = None) ->
      rel_var_ty adt_var fn_var f rec v var k ty t = (Done r, t1, g1) ->
      rel_post m (Node (HInfer var k) cs) ty K U t t1 g1.
    Proof.
      intros HV I Ov Nv Oty Kty NVty H. unfold rel_var_ty in H.
      destruct (match k with General => true | Integer => is_integer_ty ty | FloatVar => is_float_ty ty end) eqn:FILT; [| apply fail_inv in H; discriminate H].
      apply bind_inv in H. destruct H as (vc & t2 & g2 & g3 & H1 & H2 & ->). apply get_cell_inv in H1. destruct H1 as (-> & -> & Evar).
      destruct (Nv _ _ var vc eq_refl eq_refl Evar) as (ui & Bvar). rewrite Bvar in H2.
      assert (Kvar : K var = match k with General => KG | Integer => KI | FloatVar => KF end).
      { destruct Ov as (_ & Kv & _). apply allsub_node in Kv. destruct Kv as [Kv _]. destruct k; exact Kv. }
      assert (KNL : K var <> KL) by (rewrite Kvar; destruct k; discriminate).
      apply bind_inv in H2. destruct H2 as (ty1 & t3 & g4 & g5 & H3 & H4 & ->).
      destruct (occ_spec f var ui vc Bvar 0 ty K U t ty1 t3 g4 I Oty Evar KNL H3) as (K3 & U3 & I3 & S3 & O1 & W1 & T1 & V3).
      apply bind_inv in H4. destruct H4 as (g & t4 & g6 & g7 & H5 & H6 & ->).
      destruct (gen_spec f ui v ty1 K3 U3 t3 g t4 g6 I3 O1 W1 H5) as (-> & K4 & U4 & I4 & S4 & Og & Wg & G4 & HD4).
      apply bind_inv in H6. destruct H6 as (r2 & t5 & g8 & g9 & H7 & H8 & ->).
      (* the heads of [ty], [ty1] and [g] coincide *)
      destruct ty as [| | hty csty]; try (destruct Oty as [Q _]; discriminate Q).
      pose proof (NVty _ _ eq_refl) as NVh.
      assert (HD3 : exists cs1, ty1 = Node hty cs1).
      { clear - H3 NVh Kty. destruct f as [| f']; cbn [occ] in H3; [apply fail_inv in H3; discriminate H3 |].
        destruct hty; try discriminate NVh; try discriminate Kty;
          try (apply bind_inv in H3; destruct H3 as (cs1 & ? & ? & ? & _ & H3 & _); apply ret_inv in H3; destruct H3 as (-> & _); eauto).
        destruct (ui <? ui0); [apply fail_inv in H3; discriminate H3 | apply ret_inv in H3; destruct H3 as (-> & _); eauto]. }
      destruct HD3 as (cs1 & ->). destruct (HD4 hty cs1 eq_refl NVh ltac:(exact Kty)) as (csg & ->).
      assert (K4var : K4 var = K var).
      { destruct S3 as (_ & N3 & H3'). destruct S4 as (_ & _ & H4'). pose proof (get_some_lt _ _ _ Evar) as Lv.
        rewrite (proj2 (H4' var ltac:(lia))). apply H3'. exact Lv. }
      destruct (bindvar_spec K4 U4 t4 var vc ui (Node hty csg) r2 t5 g8 I4 (G4 var vc V3) Bvar Og Wg) as (-> & I5 & S5 & Bd); try exact H7.
      { intros h cs0 Q HV0. inversion Q; subst. contradiction. }
      { intros KN. rewrite K4var, Kvar in KN. destruct k; try (destruct KN; discriminate).
        - destruct hty; try discriminate FILT. destruct s; try discriminate FILT; rewrite (okt_nil _ _ _ _ Og eq_refl); eauto.
        - destruct hty; try discriminate FILT. destruct s; try discriminate FILT; rewrite (okt_nil _ _ _ _ Og eq_refl); eauto. }
      { intros _. exact Kty. }
      destruct (IHrec v (Node hty csg) (Node hty cs1) K4 U4 t5 r t1 g9 HV I5 (okt_step _ _ _ _ _ _ _ S5 Og)
                      (okt_step _ _ _ _ _ _ _ S5 (okt_step _ _ _ _ _ _ _ S4 O1)) H8) as (K6 & U6 & I6 & S6 & T6).
      exists K6, U6. split; [exact I6 |].
      split; [eapply step_trans; [exact S3 |]; eapply step_trans; [exact S4 |]; eapply step_trans; [exact S5 | exact S6] |].
      cbn [app]. eapply teq_trans; [eapply teq_bound; [reflexivity | apply (proj1 (proj1 S6)); exact Bd] |].
      eapply teq_trans; [eapply teq_mono; [apply pext_refl | | exact T6]; apply incl_appr; apply incl_refl |].
      apply teq_sym. eapply teq_mono; [| | apply teq_to_m; exact T1].
      - eapply pext_trans; [apply S4 |]. eapply pext_trans; [apply S5 | apply S6].
      - apply incl_appl. apply incl_refl.
    Qed.
  
    Lemma tcls_pfrag K t a : okt K t a -> kind_of a = KTy ->
      match tcls_of a with
      | CInfer v k => exists cs, a = Node (HInfer v k) cs
      | CPh => exists u i cs, a = Node (HPlaceholder u i) cs
      | COther => exists h cs, a = Node h cs /\ head_var h = None /\ structural_head h = true
      | _ => False
      end.
    Proof.
      intros (P & _) Ka. destruct a as [| | h cs]; try discriminate P. apply pfrag_node in P. destruct P as (n & Q & _).
      destruct h; try discriminate Q; try discriminate Ka; cbn [tcls_of]; eauto 8.
    Qed.

    Lemma same_head_len K t h ca cb : okt K t (Node h ca) -> okt K t (Node h cb) -> length ca = length cb.
    Proof.
      intros (Pa & _) (Pb & _). apply pfrag_node in Pa, Pb. destruct Pa as (n & Q & L & _), Pb as (n' & Q' & L' & _). congruence.
    Qed.

    Lemma child_variance_inv h i : child_variance adt_var fn_var h Invariant i = Invariant.
    Proof. destruct h; cbn [child_variance xform]; try reflexivity. destruct i; reflexivity. Qed.

    (** a general unknown bound to an integer / float unknown *)
    Lemma bind_specific_spec K U t v1 cs1 v2 k2 cs2 r t1 g1 :
      inv K U t -> okt K t (Node (HInfer v1 General) cs1) -> nrm t (Node (HInfer v1 General) cs1) ->
      okt K t (Node (HInfer v2 k2) cs2) -> k2 <> General ->
      bind_var v1 (Node (HInfer v2 k2) cs2) t = (Done r, t1, g1) ->
      rel_post m (Node (HInfer v1 General) cs1) (Node (HInfer v2 k2) cs2) K U t t1 g1.
    Proof.
      intros I O1 N1 O2 NG H. pose proof H as H'. unfold bind_var in H'.
      apply bind_inv in H'. destruct H' as (c & t2 & g2 & g3 & H1 & _ & _). apply get_cell_inv in H1. destruct H1 as (_ & _ & E).
      destruct (N1 _ _ v1 c eq_refl eq_refl E) as (u & B).
      assert (K1 : K v1 = KG). { destruct O1 as (_ & Kv & _). apply allsub_node in Kv. apply Kv. }
      pose proof (okt_nil _ _ _ _ O2 eq_refl) as ->.
      destruct (bindvar_spec K U t v1 c u (Node (HInfer v2 k2) []) r t1 g1 I E B O2) as (-> & I1 & S1 & Bd); try exact H.
      - apply allsub_node. split; [| constructor]. split.
        + destruct O2 as (_ & _ & Sc). apply allsub_node in Sc. apply Sc.
        + destruct k2; [contradiction | exact Logic.I | exact Logic.I].
      - intros h cs Q _. inversion Q; subst. split; [exact K1 |]. destruct k2; [contradiction | exists v2, KI; auto | exists v2, KF; auto].
      - intros [Q | Q]; congruence.
      - intros _. reflexivity.
      - exists K, U. split; [exact I1 |]. split; [exact S1 |]. eapply teq_bound; [reflexivity | exact Bd].
    Qed.

    Lemma rel_ty_norm_spec v K U t a b r t1 g1 :
      vm v m ->
      inv K U t -> okt K t a -> okt K t b -> nrm t a -> nrm t b -> kind_of a = KTy -> kind_of b = KTy ->
      rel_ty_norm adt_var fn_var f rec v a b t = (Done r, t1, g1) -> rel_post m a b K U t t1 g1.
    Proof.
      intros HV I Oa Ob Na Nb Ka Kb H. unfold rel_ty_norm in H. pose proof (vm_invert v m HV) as HVi.
      destruct (tm_eqb a b) eqn:EQ.
      { apply tm_eqb_eq in EQ. subst b. apply ret_inv in H. destruct H as (_ & -> & ->). exists K, U. split; [exact I |]. split; [apply step_refl | apply teq_refl]. }
      pose proof (tcls_pfrag K t a Oa Ka) as CA. pose proof (tcls_pfrag K t b Ob Kb) as CB.
      assert (SYM : rel_post m b a K U t t1 g1 -> rel_post m a b K U t t1 g1).
      { intros (K1 & U1 & I1 & S1 & T1). exists K1, U1. split; [exact I1 |]. split; [exact S1 | apply teq_sym; exact T1]. }
      assert (KV : forall vv k cs x, x = Node (HInfer vv k) cs -> okt K t x -> K vv = match k with General => KG | Integer => KI | FloatVar => KF end).
      { intros vv k cs x -> (_ & Kv & _). apply allsub_node in Kv. destruct Kv as [Kv _]. destruct k; exact Kv. }
      assert (UNB : forall vv k cs x, x = Node (HInfer vv k) cs -> nrm t x -> forall c, get t vv = Some c -> exists u, cval c = Unbound u).
      { intros vv k cs x -> Nx c E. eapply Nx; [reflexivity | reflexivity | exact E]. }
      destruct (tcls_of a) as [v1 k1 | | | | | | |] eqn:TA; try contradiction; destruct (tcls_of b) as [v2 k2 | | | | | | |] eqn:TB; try contradiction;
        cbv iota in H; try (apply fail_inv in H; discriminate H).
      - (* unknown / unknown *)
        destruct CA as (cs1 & Qa). destruct CB as (cs2 & Qb).
        pose proof (KV _ _ _ _ Qa Oa) as K1. pose proof (KV _ _ _ _ Qb Ob) as K2.
        assert (UNION : union_vars v1 v2 t = (Done r, t1, g1) -> K v1 = K v2 -> rel_post m a b K U t t1 g1).
        { intros HU HK. destruct (union_spec' K U t v1 v2 r t1 g1 I (UNB _ _ _ _ Qa Na) (UNB _ _ _ _ Qb Nb) HK HU) as (-> & U1 & I1 & S1 & SC).
          exists K, U1. split; [exact I1 |]. split; [exact S1 |]. subst a b. eapply teq_class; [reflexivity | reflexivity | exact SC]. }
        assert (SUBT : forall x y, m = true -> push_goal (subtype_goal x y) t = (Done r, t1, g1) -> rel_post m x y K U t t1 g1).
        { intros x y Hm HP. unfold push_goal in HP. injection HP as Hr Ht Hg. subst t1 g1. exists K, U. split; [exact I |]. split; [apply step_refl |].
          apply teq_subtype; [exact Hm | left; reflexivity]. }
        destruct k1, k2; cbn [tvk_eqb andb] in H; try (apply fail_inv in H; discriminate H);
          try (apply UNION; [exact H | congruence]).
        + destruct v.
          * destruct HV as [Q | Q]; [discriminate Q |]. apply SUBT; assumption.
          * apply UNION; [exact H | congruence].
          * destruct HV as [Q | Q]; [discriminate Q |]. apply SYM. apply SUBT; assumption.
        + subst a b. eapply bind_specific_spec; try eassumption. discriminate.
        + subst a b. eapply bind_specific_spec; try eassumption. discriminate.
        + apply SYM. subst a b. eapply bind_specific_spec; try eassumption. discriminate.
        + apply SYM. subst a b. eapply bind_specific_spec; try eassumption. discriminate.
      - (* unknown / placeholder *)
        destruct CA as (cs1 & ->). destruct CB as (u & i & cs2 & ->).
        eapply (rel_var_ty_spec v); try eassumption. intros h cs' Q. inversion Q; reflexivity.
      - (* unknown / rigid *)
        destruct CA as (cs1 & ->). destruct CB as (hb & cs2 & -> & NV & _).
        eapply (rel_var_ty_spec v); try eassumption. intros h cs' Q. inversion Q; subst. exact NV.
      - (* placeholder / unknown *)
        destruct CB as (cs1 & ->). destruct CA as (u & i & cs2 & ->). apply SYM.
        eapply (rel_var_ty_spec (invert v)); try eassumption. intros h cs' Q. inversion Q; reflexivity.
      - (* rigid / unknown *)
        destruct CB as (cs1 & ->). destruct CA as (ha & cs2 & -> & NV & _). apply SYM.
        eapply (rel_var_ty_spec (invert v)); try eassumption. intros h cs' Q. inversion Q; subst. exact NV.
      - (* rigid / rigid *)
        destruct CA as (ha & ca & -> & _ & SA). destruct CB as (hb & cb & -> & _ & _).
        rewrite SA in H. unfold head_eqb in H. destruct (head_eq_dec ha hb) as [<- | NE]; cbn [andb] in H; [| apply fail_inv in H; discriminate H].
        assert (CV : forall i, vm (child_variance adt_var fn_var ha v i) m).
        { intros i. destruct HV as [-> | Q]; [left; apply child_variance_inv | right; exact Q]. }
        destruct (zip_spec (child_variance adt_var fn_var ha v) CV ca cb 0%nat K U t r t1 g1 I
                           (okt_children K t ha ca Oa) (okt_children K t ha cb Ob) (same_head_len K t ha ca cb Oa Ob) H) as (K1 & U1 & I1 & S1 & T1).
        exists K1, U1. split; [exact I1 |]. split; [exact S1 | apply teq_node; exact T1].
    Qed.
  End RelLevel.

  (** *** The zipper, and [InferenceTable::relate] *)

  Lemma rel_spec m : forall f v a b K U t r t1 g1, vm v m ->
    inv K U t -> okt K t a -> okt K t b ->
    rel adt_var fn_var f v a b t = (Done r, t1, g1) -> rel_post m a b K U t t1 g1.
  Proof.
    induction f as [| f IH]; intros v a b K U t r t1 g1 HV I Oa Ob H; cbn [rel] in H; [apply fail_inv in H; discriminate H |].
    destruct (kind_of a) eqn:Ka; destruct (kind_of b) eqn:Kb; try (apply fail_inv in H; discriminate H).
    - (* types *)
      unfold rel_ty in H. apply bind_inv in H. destruct H as (tb & t2 & g2 & g3 & H1 & H2 & ->). inversion H1; subst tb t2 g2. clear H1.
      destruct (shallow_ty_spec m K U t (g3) a I Oa) as (Oa' & Ta & Na). destruct (shallow_ty_spec m K U t (g3) b I Ob) as (Ob' & Tb & Nb).
      pose proof (shallow_ty_kind K U t a I Oa Ka) as KA. pose proof (shallow_ty_kind K U t b I Ob Kb) as KB.
      destruct (rel_ty_norm_spec f (rel adt_var fn_var f) m IH v K U t _ _ r t1 g3 HV I Oa' Ob' Na Nb KA KB H2) as (K1 & U1 & I1 & S1 & T1).
      exists K1, U1. split; [exact I1 |]. split; [exact S1 |]. cbn [app].
      eapply teq_trans; [eapply teq_step; [exact S1 | apply incl_refl | exact Ta] |].
      eapply teq_trans; [exact T1 |]. apply teq_sym. eapply teq_step; [exact S1 | apply incl_refl | exact Tb].
    - (* lifetimes *)
      unfold rel_lt in H. apply bind_inv in H. destruct H as (tb & t2 & g2 & g3 & H1 & H2 & ->). inversion H1; subst tb t2 g2. clear H1.
      destruct (shallow1_spec m K U t g3 a I Oa Ka) as (Oa' & Ta & Na). destruct (shallow1_spec m K U t g3 b I Ob Kb) as (Ob' & Tb & Nb).
      destruct (rel_lt_norm_spec m v K U t _ _ r t1 g3 HV I Oa' Ob' Na Nb H2) as (U1 & I1 & S1 & T1).
      exists K, U1. split; [exact I1 |]. split; [exact S1 |]. cbn [app].
      eapply teq_trans; [eapply teq_step; [exact S1 | apply incl_refl | exact Ta] |].
      eapply teq_trans; [exact T1 |]. apply teq_sym. eapply teq_step; [exact S1 | apply incl_refl | exact Tb].
    - (* consts: not in the fragment *)
      destruct Oa as (Pa & _). destruct a as [| | h cs]; try discriminate Pa. apply pfrag_node in Pa. destruct Pa as (n & Q & _).
      destruct h; try discriminate Ka; discriminate Q.
  Qed.

  Lemma teq_goals m t gs gs' : (forall x y, In (outlives_goal x y) gs -> In (outlives_goal x y) gs') ->
    (m = true -> forall x y, In (subtype_goal x y) gs -> In (subtype_goal x y) gs') ->
    forall a b, teqm m t gs a b -> teqm m t gs' a b.
  Proof.
    intros I IS. fix IH 3. intros a b H. destruct H as [a | a b H | a b c H1 H2 | h cs cs' H | h cs v x Hv Hb | h cs h' cs' v w Hv Hw Hc | a b Ka Kb I1 I2 | a b Hm Hs].
    - apply teq_refl.
    - apply teq_sym. apply IH. exact H.
    - eapply teq_trans; apply IH; eassumption.
    - apply teq_node. revert cs cs' H. fix IH2 3. intros cs cs' H. destruct H as [| x y r r' Hxy Hr]; constructor.
      + apply IH. exact Hxy.
      + apply IH2. exact Hr.
    - eapply teq_bound; eassumption.
    - eapply teq_class; eassumption.
    - apply teq_outlives; auto.
    - apply teq_subtype; auto.
  Qed.

  (** [InferenceTable::relate], invariant relation, on the fragment. *)
  Lemma relate_sound_lemma fuel a b t gs t' K U :
    inv K U t -> okt K t a -> okt K t b ->
    relate adt_var fn_var fuel Invariant a b t = (Done gs, t') ->
    exists K' U', inv K' U' t' /\ step K U t K' U' t' /\ teq t' gs a b.
  Proof.
    intros I Oa Ob H. unfold relate in H.
    destruct (rel adt_var fn_var fuel Invariant a b t) as [[r t1] g1] eqn:E.
    destruct r as [[] | | | s |]; inversion H; subst. clear H.
    destruct (rel_spec false fuel Invariant a b K U t tt _ g1 (or_introl eq_refl) I Oa Ob E) as (K1 & U1 & I1 & S1 & T1).
    exists K1, U1. split; [exact I1 |]. split; [exact S1 |]. unfold commit.
    eapply teq_goals; [| | exact T1].
    - intros x y Hin. unfold retain_goals. apply filter_In. split; [exact Hin | reflexivity].
    - intros Q. discriminate Q.
  Qed.

  (** dropping the trivial subtype goals ([Unifier::relate]'s final [retain]) loses nothing *)
  Lemma teq_retain t gs : forall a b, teqm true t gs a b -> teqm true t (retain_goals t gs) a b.
  Proof.
    fix IH 3. intros a b H. destruct H as [a | a b H | a b c H1 H2 | h cs cs' H | h cs v x Hv Hb | h cs h' cs' v w Hv Hw Hc | a b Ka Kb I1 I2 | a b Hm Hs].
    - apply teq_refl.
    - apply teq_sym. apply IH. exact H.
    - eapply teq_trans; apply IH; eassumption.
    - apply teq_node. revert cs cs' H. fix IH2 3. intros cs cs' H. destruct H as [| x y r r' Hxy Hr]; constructor.
      + apply IH. exact Hxy.
      + apply IH2. exact Hr.
    - eapply teq_bound; eassumption.
    - eapply teq_class; eassumption.
    - apply teq_outlives; auto; [| intros Q; discriminate Q]. unfold retain_goals. apply filter_In. split; [exact I1 | reflexivity].
    - destruct (trivial_subtype t (subtype_goal a b)) eqn:TS.
      + unfold trivial_subtype, subtype_goal in TS.
        assert (EQ : tm_eqb a b = true -> teqm true t (retain_goals t gs) a b).
        { intros Q. apply tm_eqb_eq in Q. subst b. apply teq_refl. }
        destruct a as [| | ha ca]; try (apply EQ; exact TS). destruct ha; try (apply EQ; exact TS).
        destruct b as [| | hb cb]; try (apply EQ; exact TS). destruct hb; try (apply EQ; exact TS).
        destruct (get t v) as [c1 |] eqn:E1; [| apply EQ; exact TS]. destruct (get t v0) as [c2 |] eqn:E2; [| apply EQ; exact TS].
        apply N.eqb_eq in TS. eapply teq_class; [reflexivity | reflexivity |]. exists c1, c2. auto.
      + apply teq_subtype; [reflexivity |]. unfold retain_goals. apply filter_In. split; [exact Hs |]. rewrite TS. reflexivity.
  Qed.

  (** [InferenceTable::relate] at ANY variance, on the whole fragment: the invariants are
      re-established, the table only extends, universes only drop, and the two types are equal
      under the new bindings up to lifetimes related (in at least one direction) by the returned
      outlives goals and unknowns related by the returned subtype goals.  In particular the
      covariant relation of lifetime-free types. *)
  Lemma relate_sound_any_variance_lemma fuel v a b t gs t' K U :
    inv K U t -> okt K t a -> okt K t b ->
    relate adt_var fn_var fuel v a b t = (Done gs, t') ->
    exists K' U', inv K' U' t' /\ step K U t K' U' t' /\ teqm true t' gs a b.
  Proof.
    intros I Oa Ob H. unfold relate in H.
    destruct (rel adt_var fn_var fuel v a b t) as [[r t1] g1] eqn:E.
    destruct r as [[] | | | s |]; inversion H; subst. clear H.
    destruct (rel_spec true fuel v a b K U t tt _ g1 (or_intror eq_refl) I Oa Ob E) as (K1 & U1 & I1 & S1 & T1).
    exists K1, U1. split; [exact I1 |]. split; [exact S1 |]. unfold commit. apply teq_retain. exact T1.
  Qed.

  Lemma inv_empty K U : inv K U empty_table.
  Proof.
    assert (G : forall v, get empty_table v = None) by (intros v; unfold get, empty_table; cbn [unify]; destruct (N.to_nat v); reflexivity).
    constructor; intros; match goal with H : get empty_table _ = Some _ |- _ => rewrite G in H; discriminate H end.
  Qed.
End Specs.

(** Non-vacuity: [?0] (universe 0) and [?1] (universe 1), [!0_0] a placeholder of the root
    universe: relating [(?0, &'!1_0 ?1)] with [(Adt1<?1>, &'!1_0 !0_0)] binds both unknowns
    (promoting [?1]), and the hypotheses of [relate_sound] hold for the table. *)
Example relate_sound_nonvacuous :
  let ar := fun _ : N => 1%nat in
  let t := snd (new_variable 1 (snd (new_variable 0 (snd (new_universe empty_table))))) in
  let K := upd (upd (fun _ => KG) 0 KG) 1 KG in
  let U := upd (upd (fun _ => 0) 0 0) 1 1 in
  let lt := Node (HLPlaceholder 1 0) [] in
  let a := Node (HTuple 2) [ty_var 0 General; Node (HRef Not) [lt; ty_var 1 General]] in
  let b := Node (HTuple 2) [Node (HAdt 1) [ty_var 1 General]; Node (HRef Not) [lt; Node (HPlaceholder 0 0) []]] in
  inv ar K U t /\ okt ar K t a /\ okt ar K t b
  /\ exists t', relate (fun _ => []) (fun _ => []) 20 Invariant a b t = (Done [], t')
                /\ get t' 1 = Some (mkcell 1 (Bound (Node (HPlaceholder 0 0) [])))
                /\ get t' 0 = Some (mkcell 0 (Bound (Node (HAdt 1) [ty_var 1 General]))).
Proof.
  cbv zeta. split; [| split; [| split]].
  - pose proof (inv_new (fun _ => 1%nat) (fun _ => KG) (fun _ => 0) (snd (new_universe empty_table)) 0 KG) as H0.
    assert (I0 : inv (fun _ => 1%nat) (fun _ => KG) (fun _ => 0) (snd (new_universe empty_table))).
    { pose proof (inv_empty (fun _ => 1%nat) (fun _ => KG) (fun _ => 0)) as E. destruct E; constructor; assumption. }
    destruct (H0 I0) as [I1 _]. pose proof (inv_new (fun _ => 1%nat) _ _ _ 1 KG I1) as [I2 _]. exact I2.
  - split; [reflexivity |]. split; cbn; repeat split; try lia.
  - split; [reflexivity |]. split; cbn; repeat split; try lia.
  - eexists. split; [vm_compute; reflexivity |]. split; reflexivity.
Qed.

(** Non-vacuity of the any-variance theorem: the covariant relation of [(?0, &'!1_0 bool)] and
    [(?1, &'!1_1 bool)] returns a subtype goal between the two unknowns and ONE outlives goal. *)
Example relate_sound_any_variance_nonvacuous :
  let ar := fun _ : N => 1%nat in
  let t := snd (new_variable 1 (snd (new_variable 0 (snd (new_universe empty_table))))) in
  let K := upd (upd (fun _ => KG) 0 KG) 1 KG in
  let U := upd (upd (fun _ => 0) 0 0) 1 1 in
  let bool_ := Node (HScalar Bool) [] in
  let a := Node (HTuple 2) [ty_var 0 General; Node (HRef Not) [Node (HLPlaceholder 1 0) []; bool_]] in
  let b := Node (HTuple 2) [ty_var 1 General; Node (HRef Not) [Node (HLPlaceholder 1 1) []; bool_]] in
  inv ar K U t /\ okt ar K t a /\ okt ar K t b
  /\ relate (fun _ => []) (fun _ => []) 20 Covariant a b t
     = (Done [subtype_goal (ty_var 0 General) (ty_var 1 General);
              outlives_goal (Node (HLPlaceholder 1 0) []) (Node (HLPlaceholder 1 1) [])], t).
Proof.
  cbv zeta. split; [| split; [| split]].
  - pose proof (inv_new (fun _ => 1%nat) (fun _ => KG) (fun _ => 0) (snd (new_universe empty_table)) 0 KG) as H0.
    assert (I0 : inv (fun _ => 1%nat) (fun _ => KG) (fun _ => 0) (snd (new_universe empty_table))).
    { pose proof (inv_empty (fun _ => 1%nat) (fun _ => KG) (fun _ => 0)) as E. destruct E; constructor; assumption. }
    destruct (H0 I0) as [I1 _]. pose proof (inv_new (fun _ => 1%nat) _ _ _ 1 KG I1) as [I2 _]. exact I2.
  - split; [reflexivity |]. split; cbn; repeat split; try lia.
  - split; [reflexivity |]. split; cbn; repeat split; try lia.
  - vm_compute. reflexivity.
Qed.
