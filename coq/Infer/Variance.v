(** * Infer.Variance — the lifetime requirements dictated by variance (property C29).

    [variance_constraints v a b] is the *independent structural definition*: walk the two types
    in parallel, composing [xform] down each position
      - lifetime slot of [&] / [&mut]: contravariant;  pointee of [&]: covariant, of [&mut]: invariant;
      - pointee of [*const]: covariant, of [*mut]: invariant; slice / array element: covariant;
      - tuple elements: covariant;  ADT / fn-def parameters: the declared variances;
      - fn pointer: arguments contravariant, return type covariant;
      - everything else: invariant;
    and at a pair of lifetimes [(la, lb)] met at composed variance
      - Covariant:     [lb: la]       (chalk relates lifetimes "as types": [la <: lb] iff [la] is outlived by ... the
      - Contravariant: [la: lb]        convention blessed by tests/test/subtype.rs, see DESIGN C29)
      - Invariant:     both.
    Equal lifetimes need nothing.  A requirement is a pair [(x, y)] read [x: y]. *)

From Chalk Require Import Ir.Syntax Ir.Fold Infer.Table Infer.Unify.

Definition is_lifetime (t : tm) : bool := match kind_of t with KLt => true | _ => false end.

Definition lifetime_requirements (v : variance) (la lb : tm) : list (tm * tm) :=
  if tm_eqb la lb then [] else
  match v with
  | Covariant => [(lb, la)]
  | Contravariant => [(la, lb)]
  | Invariant => [(la, lb); (lb, la)]
  end.

Section Spec.
  Variable adt_var : N -> list variance.
  Variable fn_var : N -> list variance.

  (** variance of child [i] (of [n]) of a type with head [h] *)
  Definition position_variance (h : head) (n i : nat) : variance :=
    match h with
    | HRef m => match i with O => Contravariant | _ => mut_variance m end
    | HRaw m => mut_variance m
    | HSlice | HArray | HTuple _ => Covariant
    | HAdt id => nth_var (adt_var id) i
    | HFnDef id => nth_var (fn_var id) i
    | HFnPtr _ _ _ _ => if Nat.ltb i (n - 1) then Contravariant else Covariant
    | _ => Invariant
    end.

  Fixpoint variance_constraints (v : variance) (a b : tm) {struct a} : list (tm * tm) :=
    match a, b with
    | Node ha ca, Node hb cb =>
        if is_lifetime a then lifetime_requirements v a b else
        let n := length ca in
        (fix go (i : nat) (l l' : list tm) {struct l} : list (tm * tm) :=
           match l, l' with
           | x :: r, y :: r' => variance_constraints (xform v (position_variance ha n i)) x y ++ go (S i) r r'
           | _, _ => []
           end) 0%nat ca cb
    | _, _ => []
    end.
End Spec.

(** ** Comparing requirement sets: outlives closures restricted to the external lifetimes *)

Definition mem (x : tm) (l : list tm) : bool := existsb (tm_eqb x) l.

Definition step_reach (es : list (tm * tm)) (s : list tm) : list tm :=
  fold_left (fun acc e => if mem (fst e) acc && negb (mem (snd e) acc) then snd e :: acc else acc) es s.

Fixpoint iter_reach (n : nat) (es : list (tm * tm)) (s : list tm) : list tm :=
  match n with O => s | S k => iter_reach k es (step_reach es s) end.

(** [y] is reachable from [x] through the requirement edges ([x: ... : y]). *)
Definition reaches (es : list (tm * tm)) (x y : tm) : bool :=
  mem y (iter_reach (length es) es [x]).

Definition closure_eqb (ext : list tm) (c1 c2 : list (tm * tm)) : bool :=
  forallb (fun x => forallb (fun y => tm_eqb x y || Bool.eqb (reaches c1 x y) (reaches c2 x y)) ext) ext.

(** The outlives goal [relate] emits for a requirement. *)
Definition goal_of_requirement (p : tm * tm) : tm := outlives_goal (fst p) (snd p).

Definition requirement_of_goal (g : tm) : option (tm * tm) :=
  match g with
  | Node HDomainGoal [Node HHolds [Node HLtOutlives [a; b]]] => Some (a, b)
  | _ => None
  end.

(** Input of the C29 correspondence: variances, the two types, the external lifetimes. *)
Definition c29_spec (inp : list (N * list variance) * tm * tm * list tm) : list tm * list (tm * tm) :=
  let '(adt, a, b, ext) := inp in
  (ext, variance_constraints (lookup_variances adt) (fun _ => []) Covariant a b).

Definition c29_eqb (m : list tm * list (tm * tm)) (i : list (tm * tm)) : bool :=
  closure_eqb (fst m) (snd m) i.
