(** * Infer.Invert — model of [InferenceTable::invert] / [invert_then_canonicalize]
    (chalk-solve/src/infer/invert.rs): canonicalize; give up ([None]) if the value has unbound
    inference variables; otherwise replace every type / lifetime placeholder by a fresh
    inference variable of the placeholder's universe (one variable per placeholder index and
    sort; [Inverter] keeps two maps), and canonicalize the result.

    Constant placeholders are NOT inverted: [Inverter] has no [fold_free_placeholder_const],
    the default rebuilds the placeholder (modelled as in the code). *)

From Chalk Require Import Ir.Syntax Ir.Fold Infer.Canon Infer.UCanon.

(** [inverted_ty] / [inverted_lifetime]: placeholder (universe, index) -> variable *)
Definition phmap := list ((N * N) * N).

Fixpoint ph_lookup (u i : N) (m : phmap) : option N :=
  match m with
  | [] => None
  | ((u', i'), v) :: r => if (u =? u') && (i =? i') then Some v else ph_lookup u i r
  end.

(** the two maps and the table (new variables are appended) *)
Definition istate := (phmap * phmap * table)%type.

Definition fresh_var (T : table) : N := N.of_nat (length T).

Section InvertGo.
  (** [value.fold_with(&mut Inverter, k)]: free bound variables and inference variables panic
      ([forbid_free_vars], [forbid_inference_vars]). *)
  Fixpoint invert_go (k : N) (t : tm) (st : istate) {struct t} : res (tm * istate) :=
    match t with
    | Var _ d _ => if k <=? d then Panic OtherPanic else Ok (t, st)
    | CVar d _ _ => if k <=? d then Panic OtherPanic else Ok (t, st)
    | Node h cs =>
        match h with
        | HPlaceholder u i =>
            let '(tys, lts, T) := st in
            match ph_lookup u i tys with
            | Some v => Ok (Node (HInfer v General) [], st)
            | None => let v := fresh_var T in
                      Ok (Node (HInfer v General) [], (((u, i), v) :: tys, lts, T ++ [(v, Unbound u)]))
            end
        | HLPlaceholder u i =>
            let '(tys, lts, T) := st in
            match ph_lookup u i lts with
            | Some v => Ok (Node (HLInfer v) [], st)
            | None => let v := fresh_var T in
                      Ok (Node (HLInfer v) [], (tys, ((u, i), v) :: lts, T ++ [(v, Unbound u)]))
            end
        | _ =>
            match infer_of h with
            | Some _ => Panic OtherPanic
            | None =>
                if const_head h then Ok (t, st)
                else rbind ((fix go (l : list tm) (st : istate) : res (list tm * istate) :=
                               match l with
                               | [] => Ok ([], st)
                               | x :: r => rbind (invert_go (under h k) x st) (fun xs =>
                                           rbind (go r (snd xs)) (fun rs => Ok (fst xs :: fst rs, snd rs)))
                               end) cs st)
                           (fun cf => Ok (Node h (fst cf), snd cf))
            end
        end
    end.
End InvertGo.

Definition out_of_res {A} (r : res A) : out A := match r with Ok a => Done a | Panic s => Panics s end.

(** [InferenceTable::invert]: [None] when the value has unbound inference variables *)
Definition invert (fuel : nat) (T : table) (t : tm) : out (option (tm * table)) :=
  obind (canonicalize fuel T t) (fun cf =>
    match snd cf with
    | _ :: _ => Done None
    | [] => obind (out_of_res (invert_go 0 (snd (fst cf)) ([], [], T))) (fun vs => Done (Some (fst vs, snd (snd vs))))
    end).

(** [invert_then_canonicalize] (the table is rolled back afterwards) *)
Definition invert_then_canonicalize (fuel : nat) (T : table) (t : tm) : out (option canonical) :=
  obind (invert fuel T t) (fun r =>
    match r with
    | None => Done None
    | Some (v, T') => obind (canonicalize fuel T' v) (fun cf => Done (Some (fst cf)))
    end).

(** ** The inverted value has no type or lifetime placeholders *)

Fixpoint no_tl_ph (t : tm) : bool :=
  match t with
  | Var _ _ _ | CVar _ _ _ => true
  | Node h cs =>
      match h with
      | HPlaceholder _ _ | HLPlaceholder _ _ => false
      | _ => if leaf_head h then true else forallb no_tl_ph cs
      end
  end.

Lemma invert_go_no_placeholders : forall t k st t' st', invert_go k t st = Ok (t', st') -> no_tl_ph t' = true.
Proof.
  induction t as [s d i | d i ct _ | h cs IH] using tm_ind'; intros k st t' st'; cbn [invert_go].
  - destruct (k <=? d); [discriminate |]. intros E; inversion E; reflexivity.
  - destruct (k <=? d); [discriminate |]. intros E; inversion E; reflexivity.
  - assert (Gen : infer_of h = None -> const_head h = false ->
              forall l st cs' st', Forall (fun t => forall k st t' st', invert_go k t st = Ok (t', st') -> no_tl_ph t' = true) l ->
              (fix go (l : list tm) (st : istate) : res (list tm * istate) :=
                 match l with
                 | [] => Ok ([], st)
                 | x :: r => rbind (invert_go (under h k) x st) (fun xs =>
                             rbind (go r (snd xs)) (fun rs => Ok (fst xs :: fst rs, snd rs)))
                 end) l st = Ok (cs', st') -> forallb no_tl_ph cs' = true).
    { intros _ _. induction l as [| x l IHl]; intros st0 cs' st0' HF E.
      - inversion E; reflexivity.
      - inversion HF; subst. destruct (invert_go (under h k) x st0) as [[x' st1] |] eqn:Ex; cbn [rbind] in E; [| discriminate].
        cbn [snd fst] in E.
        match type of E with rbind ?g _ = _ => destruct g as [[l' st2] |] eqn:El end; cbn [rbind] in E; [| discriminate].
        inversion E; subst. cbn [forallb fst]. rewrite (H1 _ _ _ _ Ex). cbn [andb]. eapply IHl; eassumption. }
    destruct h; cbn [infer_of const_head] in *;
      try (intros E; discriminate E);
      try (intros E; inversion E; subst; reflexivity);
      try (destruct st as [[tys lts] T]; match goal with |- context [ph_lookup ?u ?i ?m] => destruct (ph_lookup u i m) end;
           intros E; inversion E; subst; reflexivity);
      try (match goal with |- rbind ?g _ = _ -> _ => destruct g as [[cs' st1] |] eqn:Eg end; cbn [rbind];
           [| intros E; discriminate E]; intros E; inversion E; subst; cbn [no_tl_ph leaf_head infer_of const_head fst];
           eapply (Gen eq_refl eq_refl); eassumption).
Qed.

(** [invert] either gives up, or returns a value without type / lifetime placeholders *)
Lemma invert_no_placeholders_lemma : forall fuel T t v T', invert fuel T t = Done (Some (v, T')) -> no_tl_ph v = true.
Proof.
  intros fuel T t v T'. unfold invert. destruct (canonicalize fuel T t) as [[[bs cv] fr] | |]; cbn [obind]; try discriminate.
  cbn [fst snd]. destruct fr; [| discriminate].
  destruct (invert_go 0 cv ([], [], T)) as [[v1 st1] |] eqn:E; cbn [out_of_res obind]; [| discriminate].
  intros H; inversion H; subst. eapply invert_go_no_placeholders. eassumption.
Qed.

Lemma invert_gives_up_lemma : forall fuel T t c fr, canonicalize fuel T t = Done (c, fr) -> fr <> [] ->
  invert_then_canonicalize fuel T t = Done None.
Proof.
  intros fuel T t c fr H Hne. unfold invert_then_canonicalize, invert. rewrite H. cbn [obind snd].
  destruct fr; [contradiction | reflexivity].
Qed.

(** ** Non-vacuity: [not { !1_0 = &'!2_1 [!1_0; !2_0c] }] style value: the two occurrences of [!1_0]
    become one variable, the lifetime placeholder another, the const placeholder stays *)
Definition ex_invert_term : tm :=
  Node (HTuple 2) [Node (HPlaceholder 1 0) [];
                   Node (HRef Not) [Node (HLPlaceholder 2 1) []; Node HArray [Node (HPlaceholder 1 0) []; Node (HCPlaceholder 2 0) [usize_ty]]]].

Example invert_nonvacuous :
  invert_then_canonicalize 2 [] ex_invert_term
  = Done (Some ([(VTy General, 1); (VLt, 2)],
                Node (HTuple 2) [Var STy 0 0; Node (HRef Not) [Var SLt 0 1; Node HArray [Var STy 0 0; Node (HCPlaceholder 2 0) [usize_ty]]]]))
  /\ invert_then_canonicalize 2 [(0, Unbound 0)] (Node (HTuple 2) [Node (HPlaceholder 1 0) []; Node (HInfer 0 General) []]) = Done None.
Proof. split; vm_compute; reflexivity. Qed.
