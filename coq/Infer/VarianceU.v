(** * Infer.VarianceU — C29 correspondence for Subtype goals with a TYPE unknown.

    A goal [exists<U> { Subtype(T1, U), Subtype(U, T2), .. }] is, for the model, a script: one
    variable [U] and one covariant [relate] per conjunct (with generalisation of the first type
    [U] meets).  [c29u_model] summarises the model's final state: the (deep) value of [U] and the
    outlives requirements returned by all the calls, normalised by the final table.  The value's
    lifetimes may be fresh variables; to compare modulo their names each lifetime POSITION of the
    value gets an atom [pos i] declared equivalent to the lifetime found there, and requirement
    sets are compared as outlives closures over the external lifetimes and the position atoms
    ([Infer.Variance.closure_eqb]); the lifetime-erased values must be equal. *)

From Coq Require Import List NArith Bool.
From Chalk Require Import Ir.Syntax Ir.Fold Infer.Table Infer.Unify Infer.Script Infer.Variance Infer.Closed.
Import ListNotations.

Fixpoint lts_in (x : tm) : list tm :=
  match x with
  | Node h cs => if is_lifetime x then [x] else flat_map lts_in cs
  | _ => []
  end.

Definition pos_atom (i : nat) : tm := Node (HLPlaceholder 99 (N.of_nat i)) [].

Fixpoint pos_pairs (i : nat) (ls : list tm) : list (tm * tm) :=
  match ls with
  | [] => []
  | l :: r => (pos_atom i, l) :: (l, pos_atom i) :: pos_pairs (S i) r
  end.

Fixpoint all_ok (obs : list (sres * table)) (acc : list tm) (last : table) : option (list tm * table) :=
  match obs with
  | [] => Some (acc, last)
  | (ROk gs, t) :: r => all_ok r (acc ++ gs) t
  | _ => None
  end.

(** input: the script, the variable [U], the external lifetimes *)
Definition c29u_model (inp : case_t * N * list tm) : option (list tm * list (tm * tm) * tm) :=
  let '(c, u, ext) := inp in
  match all_ok (snd (run_case c)) [] empty_table with
  | None => None
  | Some (gs, t) =>
      match deep 200 t (Node (HInfer u General) []), omap (deep 200 t) gs with
      | Some val, Some gs' =>
          let reqs := flat_map (fun g => match requirement_of_goal g with Some p => [p] | None => [] end) gs' in
          let ls := lts_in val in
          Some (ext ++ map pos_atom (seq 0 (length ls)), reqs ++ pos_pairs 0 ls, erase val)
      | _, _ => None
      end
  end.

(** the implementation's side: [None] = no solution; [Some (value of U, requirements)] *)
Definition c29u_eqb (m : option (list tm * list (tm * tm) * tm)) (i : option (tm * list (tm * tm))) : bool :=
  match m, i with
  | None, None => true
  | Some (ext, reqs, ev), Some (val, pairs) =>
      tm_eqb ev (erase val) && closure_eqb ext reqs (pairs ++ pos_pairs 0 (lts_in val))
  | _, _ => false
  end.

(** [exists<U> { Subtype(&'a mut u32, U), Subtype(&'b mut u32, U) }]: [U := &'?x mut u32] with ['a: '?x],
    ['b: '?x]; an answer [U := &'a mut u32] with ['b: 'a] is different. *)
Example c29u_nonvacuous :
  let a := Node (HLPlaceholder 1 0) [] in
  let b := Node (HLPlaceholder 1 1) [] in
  let u32 := Node (HScalar (Uint U32)) [] in
  let r l := Node (HRef Mut) [l; u32] in
  let U := Node (HInfer 0 General) [] in
  let c : case_t := ([], [], [SNewUniverse; SNewVar 1; SRelate Covariant (r a) U; SRelate Covariant (r b) U]) in
  let x := Node (HLInfer 100) [] in
  c29u_eqb (c29u_model (c, 0, [a; b])) (Some (r x, [(a, x); (b, x)])) = true
  /\ c29u_eqb (c29u_model (c, 0, [a; b])) (Some (r a, [(b, a)])) = false
  /\ c29u_eqb (c29u_model (c, 0, [a; b])) None = false.
Proof. vm_compute. repeat split. Qed.
