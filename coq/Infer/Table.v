(** * Infer.Table — the inference table of chalk-solve as persistent data
    (chalk-solve/src/infer.rs, infer/var.rs) and [Variance] (chalk-ir/src/lib.rs).

    [InferenceTable { unify, vars, max_universe }]:
      - [unify] is an [ena] union-find table whose keys are the inference variables and whose
        values are [InferenceValue::{Unbound(universe), Bound(generic arg)}].  The union-find
        itself is not modelled: a key's cell stores the *class representative* (the least member
        of its class) and the class's value, replicated over all members, so that
        [probe_value], [unioned] and [find]-equalities are plain lookups.  Which member [ena]
        elects as root is not observable through these (all observers compare roots only for
        equality), and the correspondence compares classes, not roots.
      - [vars] is the vector of all variables created so far;
      - [max_universe] the largest universe created.
    [snapshot] / [rollback_to] / [commit] save and restore exactly these three fields. *)

From Chalk Require Import Ir.Syntax.

(** ** Variance *)

Inductive variance := Covariant | Invariant | Contravariant.

Definition xform (a b : variance) : variance :=
  match a, b with
  | Invariant, _ => Invariant
  | _, Invariant => Invariant
  | _, Covariant => a
  | Covariant, Contravariant => Contravariant
  | Contravariant, Contravariant => Covariant
  end.

Definition invert (a : variance) : variance :=
  match a with Invariant => Invariant | Covariant => Contravariant | Contravariant => Covariant end.

Definition variance_eqb (a b : variance) : bool :=
  match a, b with
  | Covariant, Covariant | Invariant, Invariant | Contravariant, Contravariant => true
  | _, _ => false
  end.

Definition is_inv (v : variance) : bool := variance_eqb v Invariant.

Lemma xform_assoc_lemma a b c : xform (xform a b) c = xform a (xform b c).
Proof. destruct a, b, c; reflexivity. Qed.

Lemma invert_involutive_lemma a : invert (invert a) = a.
Proof. destruct a; reflexivity. Qed.

Lemma xform_invert a b : xform (invert a) b = invert (xform a b).
Proof. destruct a, b; reflexivity. Qed.

Lemma xform_cov_r a : xform a Covariant = a.
Proof. destruct a; reflexivity. Qed.

Lemma xform_cov_l a : xform Covariant a = a.
Proof. destruct a; reflexivity. Qed.

Lemma xform_contra_r a : xform a Contravariant = invert a.
Proof. destruct a; reflexivity. Qed.

Lemma variance_eqb_eq a b : variance_eqb a b = true <-> a = b.
Proof. destruct a, b; cbn; split; congruence. Qed.

Example variance_nonvacuous :
  xform (xform Contravariant Contravariant) Contravariant = Contravariant
  /\ xform Covariant Invariant = Invariant /\ invert Covariant <> Covariant.
Proof. repeat split; discriminate. Qed.

(** ** Cells and tables *)

Inductive value := Unbound (u : N) | Bound (t : tm).

Record cell := mkcell { ccls : N; cval : value }.

Record table := mktable { unify : list cell; tvars : list N; maxu : N }.

Definition empty_table : table := mktable [] [] 0.

Definition value_eqb (a b : value) : bool :=
  match a, b with
  | Unbound u, Unbound u' => N.eqb u u'
  | Bound t, Bound t' => tm_eqb t t'
  | _, _ => false
  end.

Definition cell_eqb (a b : cell) : bool := N.eqb (ccls a) (ccls b) && value_eqb (cval a) (cval b).

Definition table_eqb (a b : table) : bool :=
  list_eqb cell_eqb (unify a) (unify b) && list_eqb N.eqb (tvars a) (tvars b) && N.eqb (maxu a) (maxu b).

Lemma value_eqb_eq a b : value_eqb a b = true <-> a = b.
Proof.
  destruct a, b; cbn; try (split; [discriminate | congruence]).
  - rewrite N.eqb_eq. split; congruence.
  - rewrite tm_eqb_eq. split; congruence.
Qed.

Definition get (t : table) (v : N) : option cell := nth_error (unify t) (N.to_nat v).

Definition nvars (t : table) : N := N.of_nat (length (unify t)).

(** [InferenceTable::new_universe] *)
Definition new_universe (t : table) : N * table :=
  (maxu t + 1, mktable (unify t) (tvars t) (maxu t + 1)).

(** [InferenceTable::new_variable(ui)] *)
Definition new_variable (u : N) (t : table) : N * table :=
  let n := nvars t in
  (n, mktable (unify t ++ [mkcell n (Unbound u)]) (tvars t ++ [n]) (maxu t)).

(** Every member of class [c] gets class [c'] and value [val]. *)
Definition set_class (c c' : N) (val : value) (cs : list cell) : list cell :=
  map (fun x => if ccls x =? c then mkcell c' val else x) cs.

Definition with_unify (t : table) (cs : list cell) : table := mktable cs (tvars t) (maxu t).

(** [unify.unify_var_value(v, val)] on a class whose value is [Unbound]: the class keeps its
    representative, the value becomes [val] ([UnifyValue::unify_values] of [Unbound u] with
    [Bound x] is [Bound x]; with [Unbound u'] it is [Unbound (min u u')], computed by the caller). *)
Definition set_value (c : N) (val : value) (t : table) : table :=
  with_unify t (set_class c c val (unify t)).

(** [unify.unify_var_var(a, b)] for two classes [ca], [cb] with merged value [val]: the merged
    class is represented by its least member. *)
Definition merge (ca cb : N) (val : value) (t : table) : table :=
  let c := N.min ca cb in
  with_unify t (set_class cb c val (set_class ca c val (unify t))).

(** ** Snapshots: the three rolled-back fields *)

Record snapshot_t := mksnap { s_unify : list cell; s_vars : list N; s_maxu : N }.

Definition snapshot (t : table) : snapshot_t := mksnap (unify t) (tvars t) (maxu t).

(** [rollback_to]: [self.unify.rollback_to(..); self.vars = snapshot.vars;
    self.max_universe = snapshot.max_universe]. *)
Definition rollback_to (t : table) (s : snapshot_t) : table := mktable (s_unify s) (s_vars s) (s_maxu s).

(** [commit] only commits the [ena] snapshot: nothing changes. *)
Definition commit (t : table) (s : snapshot_t) : table := t.

(** Table operations between a snapshot and its rollback. *)
Inductive op :=
| OpNewUniverse
| OpNewVariable (u : N)
| OpSetValue (c : N) (val : value)
| OpMerge (ca cb : N) (val : value).

Definition run_op (o : op) (t : table) : table :=
  match o with
  | OpNewUniverse => snd (new_universe t)
  | OpNewVariable u => snd (new_variable u t)
  | OpSetValue c val => set_value c val t
  | OpMerge ca cb val => merge ca cb val t
  end.

Definition run_ops (os : list op) (t : table) : table := fold_left (fun t o => run_op o t) os t.

Lemma rollback_restores_lemma : forall t os, rollback_to (run_ops os t) (snapshot t) = t.
Proof. intros [u v m] os. reflexivity. Qed.

Example rollback_nonvacuous :
  let t := snd (new_variable 0 (snd (new_variable 1 (snd (new_universe empty_table))))) in
  let os := [OpNewUniverse; OpNewVariable 2; OpMerge 0 1 (Unbound 0); OpSetValue 0 (Bound (Node HStr []))] in
  run_ops os t <> t /\ rollback_to (run_ops os t) (snapshot t) = t.
Proof. split; [intros H; discriminate H | reflexivity]. Qed.
