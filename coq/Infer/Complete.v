(** * Infer.Complete — completeness / most general unifiers (property C14).

    [relate_complete_mgu_statement] is the full statement: if some universe-respecting
    assignment of the unknowns (given as an extension [tθ] of the table that creates no
    variable) makes the two types equal, then [relate] succeeds, and the assignment — extended
    to the variables [relate] created — satisfies every binding, every class equality and every
    goal of the result (the result is at least as general).  It is NOT proved.

    [relate_complete_partial_lemma] proves it for one-sided matching: the right-hand side is a
    ground (unknown-free, lifetime-free) type of the fragment, the left-hand side a pattern with
    general unknowns, on a table where no two unknowns have been unified yet: if [θ] maps the
    pattern to the ground type and every [θ v] only names placeholders visible from [v]'s
    universe, then [relate] succeeds, emits no goal, creates no variable, and binds exactly the
    pattern's unknowns to their [θ]-values (which is the unique, hence most general, unifier).
    Gap of THIS lemma to the full statement: unknowns on both sides (var/var unions,
    occurs-check failures versus absence of a unifier, universe promotion), lifetimes (goals),
    integer / float kinds.  Later steps: Infer/Complete2.v (prior bindings and unions),
    Infer/Complete3.v (unknowns on both sides; numeric var leaf cases), Infer/Complete4.v (numeric
    unknowns in one-sided matching), Infer/Exact.v (the result represents exactly the ground
    unifiers). *)

From Coq Require Import Arith PeanoNat Lia.
From Chalk Require Import Ir.Syntax Ir.Fold Infer.Table Infer.Unify Infer.Closed Infer.Sym Infer.Sound.

Definition relate_complete_mgu_statement : Prop :=
  forall ar adt_var fn_var K U t a b tθ Uθ,
    inv ar K U t -> okt ar K t a -> okt ar K t b ->
    inv ar K Uθ tθ -> step K U t K Uθ tθ -> nvars tθ = nvars t -> teq tθ [] a b ->
    exists fuel gs t',
      relate adt_var fn_var fuel Invariant a b t = (Done gs, t') /\
      exists tθ' Kθ' Uθ',
        inv ar Kθ' Uθ' tθ' /\ step K Uθ tθ Kθ' Uθ' tθ' /\ nvars tθ' = nvars t' /\
        (forall v h cs x, head_var h = Some v -> bound_to t' v x -> teq tθ' [] (Node h cs) x) /\
        (forall v w h cs h' cs', head_var h = Some v -> head_var h' = Some w -> same_class t' v w ->
                                 teq tθ' [] (Node h cs) (Node h' cs')) /\
        (forall x y, In (outlives_goal x y) gs -> teq tθ' [] x y).

(** ** Ground types and patterns *)

Definition rigid_head (h : head) : bool :=
  match h with
  | HAdt _ | HTuple _ | HSlice | HRaw _ | HScalar _ | HStr | HNever | HForeign _ | HPlaceholder _ _ => true
  | _ => false
  end.

(** placeholders have no arguments *)
Definition leaf_ok (h : head) (cs : list tm) : bool :=
  match h, cs with HPlaceholder _ _, _ :: _ => false | _, _ => true end.

Fixpoint ground (x : tm) : bool :=
  match x with
  | Node h cs => rigid_head h && leaf_ok h cs && forallb ground cs
  | _ => false
  end.

Fixpoint pattern (x : tm) : bool :=
  match x with
  | Node (HInfer _ General) [] => true
  | Node h cs => rigid_head h && leaf_ok h cs && forallb pattern cs
  | _ => false
  end.

Fixpoint app_subst (θ : N -> tm) (x : tm) : tm :=
  match x with
  | Node (HInfer v General) [] => θ v
  | Node h cs => Node h (map (app_subst θ) cs)
  | _ => x
  end.

(** every placeholder of [x] lives in a universe [<= m] *)
Fixpoint ph_below (m : N) (x : tm) : bool :=
  match x with
  | Node (HPlaceholder pu _) cs => (pu <=? m) && forallb (ph_below m) cs
  | Node _ cs => forallb (ph_below m) cs
  | _ => true
  end.

Fixpoint pvars (x : tm) : list N :=
  match x with
  | Node (HInfer v General) [] => [v]
  | Node _ cs => flat_map pvars cs
  | _ => []
  end.

Lemma ground_node h cs : ground (Node h cs) = true <-> rigid_head h = true /\ Forall (fun c => ground c = true) cs /\ leaf_ok h cs = true.
Proof. cbn [ground]. rewrite !andb_true_iff, forallb_forall, Forall_forall. tauto. Qed.

Lemma ph_below_node m h cs : ph_below m (Node h cs) = true <->
  match h with HPlaceholder pu _ => pu <= m | _ => True end /\ Forall (fun c => ph_below m c = true) cs.
Proof.
  rewrite Forall_forall. destruct h; cbn [ph_below]; rewrite ?andb_true_iff, ?forallb_forall, ?N.leb_le; tauto.
Qed.

(** ** The occurs check, generalisation and relate on ground types change nothing *)

Lemma mapM_same {A} (f : A -> M A) (l : list A) t :
  Forall (fun x => f x t = (Done x, t, [])) l -> mapM f l t = (Done l, t, []).
Proof.
  induction 1 as [| x r Hx _ IH]; cbn [mapM]; [reflexivity |].
  rewrite (bind_done _ _ _ _ _ _ Hx). rewrite (bind_done _ _ _ _ _ _ IH). reflexivity.
Qed.

Lemma mapM_idx_same {A} (f : nat -> A -> M A) (l : list A) t :
  (forall i, Forall (fun x => f i x t = (Done x, t, [])) l) -> forall i, mapM_idx f i l t = (Done l, t, []).
Proof.
  induction l as [| x r IH]; intros H i; cbn [mapM_idx]; [reflexivity |].
  assert (Hx : f i x t = (Done x, t, [])) by (specialize (H i); inversion H; assumption).
  rewrite (bind_done _ _ _ _ _ _ Hx). rewrite (bind_done _ _ _ _ _ _ (IH ltac:(intros j; specialize (H j); inversion H; assumption) (S i))). reflexivity.
Qed.

Lemma occ_ground : forall f var ui k x t,
  ground x = true -> ph_below ui x = true -> (depth x <= f)%nat -> occ f var ui k x t = (Done x, t, []).
Proof.
  induction f as [| f IH]; intros var ui k x t G P D; [pose proof (depth_pos x); lia |].
  destruct x as [| | h cs]; try discriminate G. cbn [occ].
  apply ground_node in G. destruct G as (Rh & Gcs & _). apply ph_below_node in P. destruct P as [Ph Pcs].
  assert (DEF : (cs' <- mapM (occ f var ui (under h k)) cs;; ret (Node h cs')) t = (Done (Node h cs), t, [])).
  { assert (FA : Forall (fun c => occ f var ui (under h k) c t = (Done c, t, [])) cs).
    { pose proof (depth_children h cs) as Dc. rewrite Forall_forall in *. intros c Hc. apply IH; auto. specialize (Dc c Hc). lia. }
    rewrite (bind_done _ _ _ _ _ _ (mapM_same _ cs t FA)). reflexivity. }
  destruct h; try discriminate Rh; try exact DEF.
  destruct (N.ltb_spec ui ui0); [lia |]. destruct cs; [reflexivity |].
  (* a placeholder has no children in well-formed terms; with children the folder still returns the node *)
  reflexivity.
Qed.

Section Ground.
  Variable adt_var : N -> list variance.
  Variable fn_var : N -> list variance.

  Lemma gen_ground : forall f ui v x t,
    ground x = true -> (depth x <= f)%nat -> gen adt_var fn_var f ui v x t = (Done x, t, []).
  Proof.
    induction f as [| f IH]; intros ui v x t G D; [pose proof (depth_pos x); lia |].
    destruct x as [| | h cs]; try discriminate G. cbn [gen].
    apply ground_node in G. destruct G as (Rh & Gcs & _).
    assert (SUB : forall vf, (cs' <- mapM_idx (fun i c => gen adt_var fn_var f ui (vf i) c) 0 cs;; ret (Node h cs')) t = (Done (Node h cs), t, [])).
    { intros vf. assert (FA : forall i, Forall (fun c => gen adt_var fn_var f ui (vf i) c t = (Done c, t, [])) cs).
      { intros i. pose proof (depth_children h cs) as Dc. rewrite Forall_forall in *. intros c Hc. apply IH; auto. specialize (Dc c Hc). lia. }
      rewrite (bind_done _ _ _ _ _ _ (mapM_idx_same (fun i c => gen adt_var fn_var f ui (vf i) c) cs t FA 0%nat)). reflexivity. }
    destruct h; try discriminate Rh; cbn [kind_of head_kind]; cbv zeta; try apply SUB; reflexivity.
  Qed.

  Lemma probe_ground t x : ground x = true -> probe_tm t x = None.
  Proof. destruct x as [| | h cs]; try discriminate. intros G. apply ground_node in G. destruct G as (Rh & _). destruct h; try discriminate Rh; reflexivity. Qed.

  Lemma ground_kind x : ground x = true -> kind_of x = KTy.
  Proof. destruct x as [| | h cs]; try discriminate. intros G. apply ground_node in G. destruct G as (Rh & _). destruct h; try discriminate Rh; reflexivity. Qed.

  Lemma rel_ground_refl f v x t : ground x = true -> rel adt_var fn_var (S f) v x x t = (Done tt, t, []).
  Proof.
    intros G. cbn [rel]. rewrite (ground_kind x G). unfold rel_ty. rewrite bind_get_table'.
    unfold shallow_ty. rewrite (probe_ground t x G). unfold rel_ty_norm. rewrite tm_eqb_refl. reflexivity.
  Qed.
End Ground.

(** ** One-sided matching *)

Definition mstate (θ : N -> tm) (t : table) : Prop :=
  forall v c, get t v = Some c ->
    ccls c = v /\ ground (θ v) = true /\
    match cval c with
    | Unbound u => ph_below u (θ v) = true
    | Bound x => x = θ v
    end.

Lemma pattern_inv a : pattern a = true ->
  (exists v, a = Node (HInfer v General) []) \/
  (exists h cs, a = Node h cs /\ rigid_head h = true /\ leaf_ok h cs = true /\ Forall (fun c => pattern c = true) cs).
Proof.
  destruct a as [| | h cs]; try discriminate. intros P.
  destruct h; try discriminate P;
    try (right; cbn [pattern] in P; rewrite !andb_true_iff, forallb_forall, <- Forall_forall in P; destruct P as [[P1 P2] P3];
         eexists; eexists; split; [reflexivity |]; split; [exact P1 |]; split; [exact P2 | exact P3]).
  match goal with P : pattern (Node (HInfer ?v ?k) ?cs) = true |- _ => destruct k; try discriminate P; destruct cs; [left; eauto | discriminate P] end.
Qed.

Lemma app_subst_rigid θ h cs : rigid_head h = true -> app_subst θ (Node h cs) = Node h (map (app_subst θ) cs).
Proof. destruct h; try discriminate; reflexivity. Qed.

Lemma pvars_rigid h cs : rigid_head h = true -> pvars (Node h cs) = flat_map pvars cs.
Proof. destruct h; try discriminate; reflexivity. Qed.

Lemma pattern_ground θ : forall a, pattern a = true -> (forall v, In v (pvars a) -> ground (θ v) = true) -> ground (app_subst θ a) = true.
Proof.
  induction a as [| | h cs IH] using tm_ind'; try discriminate. intros P G.
  destruct (pattern_inv _ P) as [(v & Q) | (h' & cs' & Q & Rh & Lf & Pcs)].
  - inversion Q; subst. cbn [app_subst]. apply G. cbn [pvars]. left. reflexivity.
  - inversion Q; subst h' cs'. rewrite (app_subst_rigid θ h cs Rh). apply ground_node. split; [exact Rh |]. split.
    + rewrite Forall_forall in *. intros c Hc. apply in_map_iff in Hc. destruct Hc as (x & <- & Hx).
      apply IH; auto. intros v Hv. apply G. rewrite (pvars_rigid h cs Rh). apply in_flat_map. eauto.
    + destruct h; try reflexivity. destruct cs; [reflexivity | discriminate Lf].
Qed.

Lemma ground_no_pvars a : pattern a = true -> ground a = true -> pvars a = [].
Proof.
  induction a as [| | h cs IH] using tm_ind'; try discriminate. intros P G.
  apply ground_node in G. destruct G as (Rh & Gcs & _). rewrite (pvars_rigid h cs Rh).
  destruct (pattern_inv _ P) as [(v & Q) | (h' & cs' & Q & _ & _ & Pcs)]; [inversion Q; subst; discriminate Rh |].
  inversion Q; subst h' cs'. clear Q P. induction IH as [| x r Hx _ IHr]; [reflexivity |].
  inversion Gcs; subst. inversion Pcs; subst. cbn [flat_map]. rewrite Hx by assumption. apply IHr; assumption.
Qed.

Lemma pattern_kind a : pattern a = true -> kind_of a = KTy.
Proof.
  intros P. destruct (pattern_inv _ P) as [(v & ->) | (h & cs & -> & Rh & _)]; [reflexivity |].
  destruct h; try discriminate Rh; reflexivity.
Qed.

Section Match.
  Variable adt_var : N -> list variance.
  Variable fn_var : N -> list variance.
  Variable θ : N -> tm.

  Definition match_post (a : tm) (t t' : table) : Prop :=
    mstate θ t' /\ nvars t' = nvars t /\ pext t t' /\ (forall v, In v (pvars a) -> bound_to t' v (θ v)).

  Lemma mstate_ground t v : mstate θ t -> v < nvars t -> ground (θ v) = true.
  Proof. intros M L. destruct (get_lt_some t v L) as (c & E). apply (M v c E). Qed.

  Lemma bound_pext t t' v x : pext t t' -> bound_to t v x -> bound_to t' v x.
  Proof. intros [P _]. apply P. Qed.

  Section Level.
    Variable f : nat.
    Hypothesis IH : forall a t, pattern a = true -> (depth (app_subst θ a) < f)%nat -> mstate θ t ->
      (forall v, In v (pvars a) -> v < nvars t) ->
      exists t', rel adt_var fn_var f Invariant a (app_subst θ a) t = (Done tt, t', []) /\ match_post a t t'.

    Lemma match_zip (vf : nat -> variance) : (forall i, vf i = Invariant) -> forall cs i t,
      Forall (fun c => pattern c = true) cs -> Forall (fun c => (depth (app_subst θ c) < f)%nat) cs -> mstate θ t ->
      (forall v, In v (flat_map pvars cs) -> v < nvars t) ->
      exists t', zip_children (rel adt_var fn_var f) vf i cs (map (app_subst θ) cs) t = (Done tt, t', [])
                 /\ mstate θ t' /\ nvars t' = nvars t /\ pext t t' /\ (forall v, In v (flat_map pvars cs) -> bound_to t' v (θ v)).
    Proof.
      intros Hvf. induction cs as [| x r IHr]; intros i t Pcs Dcs M SC; cbn [map zip_children flat_map].
      - exists t. split; [reflexivity |]. split; [exact M |]. split; [reflexivity |]. split; [apply pext_refl |]. intros v [].
      - apply Forall_cons_iff in Pcs, Dcs. destruct Pcs as [Px Pr], Dcs as [Dx Dr].
        destruct (IH x t Px Dx M ltac:(intros v Hv; apply SC; cbn [flat_map]; apply in_or_app; left; exact Hv)) as (t1 & R1 & M1 & N1 & E1 & B1).
        assert (Gx : ground (app_subst θ x) = true).
        { apply pattern_ground; [exact Px |]. intros v Hv. eapply mstate_ground; [exact M |]. apply SC. cbn [flat_map]. apply in_or_app. left. exact Hv. }
        assert (Kx : kind_eqb (kind_of x) (kind_of (app_subst θ x)) = true).
        { rewrite (pattern_kind x Px), (ground_kind _ Gx). reflexivity. }
        destruct (IHr (S i) t1 Pr Dr M1 ltac:(intros v Hv; rewrite N1; apply SC; cbn [flat_map]; apply in_or_app; right; exact Hv)) as (t2 & R2 & M2 & N2 & E2 & B2).
        exists t2. split.
        + unfold rel_garg. rewrite Kx, Hvf. rewrite (bind_done _ _ _ _ _ _ R1). cbn [zip_children] in R2. rewrite R2. reflexivity.
        + split; [exact M2 |]. split; [congruence |]. split; [eapply pext_trans; eassumption |].
          intros v Hv. apply in_app_or in Hv. destruct Hv as [Hv | Hv]; [eapply bound_pext; [exact E2 | apply B1; exact Hv] | apply B2; exact Hv].
    Qed.
  End Level.

  Lemma probe_rigid t h cs : rigid_head h = true -> probe_tm t (Node h cs) = None.
  Proof. destruct h; try discriminate; reflexivity. Qed.

  Lemma mstate_bind t v c u : mstate θ t -> get t v = Some c -> cval c = Unbound u ->
    mstate θ (set_value v (Bound (θ v)) t).
  Proof.
    intros M E B w cw Ew. rewrite get_set_value in Ew. destruct (get t w) as [c0 |] eqn:E0; cbn [option_map] in Ew; [| discriminate Ew].
    inversion Ew; subst cw. clear Ew. destruct (M w c0 E0) as (Cw & Gw & Vw).
    destruct (N.eqb_spec (ccls c0) v) as [Q | Q]; cbn [ccls cval].
    - rewrite Cw in Q. split; [symmetry; exact Q | split; [exact Gw | rewrite Q; reflexivity]].
    - auto.
  Qed.

  Lemma match_complete : forall f a t,
    pattern a = true -> (depth (app_subst θ a) < f)%nat -> mstate θ t -> (forall v, In v (pvars a) -> v < nvars t) ->
    exists t', rel adt_var fn_var f Invariant a (app_subst θ a) t = (Done tt, t', []) /\ match_post a t t'.
  Proof.
    induction f as [| f IH]; intros a t P D M SC; [lia |].
    assert (Ga : ground (app_subst θ a) = true).
    { apply pattern_ground; [exact P |]. intros v Hv. eapply mstate_ground; [exact M | apply SC; exact Hv]. }
    cbn [rel]. rewrite (pattern_kind a P), (ground_kind _ Ga). unfold rel_ty. rewrite bind_get_table'.
    destruct (pattern_inv _ P) as [(v & ->) | (h & cs & -> & Rh & Lf & Pcs)].
    - (* an unknown *)
      cbn [app_subst] in *. set (b := θ v) in *.
      destruct (get_lt_some t v (SC v ltac:(cbn [pvars]; left; reflexivity))) as (c & E).
      destruct (M v c E) as (Cv & Gb & Vb). fold b in Gb, Vb.
      unfold shallow_ty at 2. rewrite (probe_ground t b Gb).
      destruct (cval c) as [u | x] eqn:B.
      + (* unbound: bind it *)
        assert (PA : probe_tm t (Node (HInfer v General) []) = None) by (cbn [probe_tm]; rewrite E, B; reflexivity).
        unfold shallow_ty. rewrite PA. unfold rel_ty_norm.
        assert (NE : tm_eqb (Node (HInfer v General) []) b = false).
        { destruct (tm_eqb (Node (HInfer v General) []) b) eqn:Q; [| reflexivity]. apply tm_eqb_eq in Q. rewrite <- Q in Gb. discriminate Gb. }
        rewrite NE. cbn [tcls_of].
        assert (TB : tcls_of b = CPh \/ tcls_of b = COther).
        { destruct b as [| | hb cb]; try discriminate Gb. apply ground_node in Gb. destruct Gb as (Rb & _). destruct hb; try discriminate Rb; cbn [tcls_of]; auto. }
        assert (RV : rel_var_ty adt_var fn_var f (rel adt_var fn_var f) Invariant v General b t
                     = (Done tt, set_value v (Bound b) t, [])).
        { unfold rel_var_ty. rewrite bind_get_cell, E, B.
          assert (Db : (depth b <= f)%nat) by lia.
          rewrite (bind_done _ _ _ _ _ _ (occ_ground f v u 0 b t Gb Vb Db)).
          rewrite (bind_done _ _ _ _ _ _ (gen_ground adt_var fn_var f u Invariant b t Gb Db)).
          assert (BV : bind_var v b t = (Done tt, set_value v (Bound b) t, [])).
          { unfold bind_var. rewrite bind_get_cell, E, B, Cv. reflexivity. }
          rewrite (bind_done _ _ _ _ _ _ BV).
          destruct f as [| f']; [pose proof (depth_pos b); lia |].
          rewrite (rel_ground_refl adt_var fn_var f' Invariant b _ Gb). reflexivity. }
        exists (set_value v (Bound b) t). split.
        * destruct TB as [-> | ->]; exact RV.
        * split; [eapply mstate_bind; eassumption |]. split; [apply nvars_set_value |]. split.
          -- split.
             ++ intros w x (cw & Ew & Bw). exists cw. split; [| exact Bw]. rewrite get_set_value, Ew. cbn [option_map].
                destruct (N.eqb_spec (ccls cw) v) as [Q | Q]; [| reflexivity].
                destruct (M w cw Ew) as (Cw & _). rewrite Cw in Q. subst w. rewrite E in Ew. inversion Ew; subst. rewrite B in Bw. discriminate Bw.
             ++ intros w1 w2 (c1 & c2 & E1 & E2 & Q). eexists. eexists. rewrite !get_set_value, E1, E2. cbn [option_map].
                split; [reflexivity |]. split; [reflexivity |]. destruct (N.eqb_spec (ccls c1) v), (N.eqb_spec (ccls c2) v); cbn [ccls]; congruence.
          -- intros w [<- | []]. eexists. rewrite get_set_value, E. cbn [option_map]. rewrite Cv, N.eqb_refl. split; reflexivity.
      + (* already bound, to its θ-value *)
        subst x. unfold shallow_ty. cbn [probe_tm]. rewrite E, B. rewrite (probe_ground t b Gb).
        unfold rel_ty_norm. rewrite tm_eqb_refl. exists t. split; [reflexivity |].
        split; [exact M |]. split; [reflexivity |]. split; [apply pext_refl |].
        intros w [<- | []]. exists c. auto.
    - (* a rigid node *)
      rewrite (app_subst_rigid θ h cs Rh) in *. unfold shallow_ty. rewrite !(probe_rigid t h _ Rh). unfold rel_ty_norm.
      destruct (tm_eqb (Node h cs) (Node h (map (app_subst θ) cs))) eqn:EQ.
      + apply tm_eqb_eq in EQ. exists t. split; [reflexivity |]. split; [exact M |]. split; [reflexivity |]. split; [apply pext_refl |].
        rewrite <- EQ in Ga. rewrite (ground_no_pvars _ P Ga). intros v [].
      + assert (TC : tcls_of (Node h cs) = CPh /\ cs = [] \/ (tcls_of (Node h cs) = COther /\ structural_head h = true)).
        { destruct h; try discriminate Rh; cbn [tcls_of structural_head]; auto. left. split; [reflexivity |]. destruct cs; [reflexivity | discriminate Lf]. }
        destruct TC as [[_ ->] | [TC SH]]; [cbn [map] in EQ; rewrite tm_eqb_refl in EQ; discriminate EQ |].
        assert (TC' : tcls_of (Node h (map (app_subst θ) cs)) = COther) by (destruct h; try discriminate Rh; try discriminate TC; reflexivity).
        rewrite TC, TC', SH. unfold head_eqb. destruct (head_eq_dec h h) as [_ | Q]; [| contradiction]. cbn [andb].
        assert (Dcs : Forall (fun c => (depth (app_subst θ c) < f)%nat) cs).
        { pose proof (depth_children h (map (app_subst θ) cs)) as Dc. rewrite Forall_forall in *. intros c Hc.
          specialize (Dc (app_subst θ c) (in_map _ _ _ Hc)). lia. }
        destruct (match_zip f IH (child_variance adt_var fn_var h Invariant) ltac:(intros i; destruct h; cbn [child_variance xform]; try reflexivity; destruct i; reflexivity)
                            cs 0%nat t Pcs Dcs M ltac:(intros v Hv; apply SC; rewrite (pvars_rigid h cs Rh); exact Hv))
          as (t' & R & M' & N' & E' & B').
        exists t'. split; [exact R |]. split; [exact M' |]. split; [exact N' |]. split; [exact E' |].
        intros v Hv. apply B'. rewrite (pvars_rigid h cs Rh) in Hv. exact Hv.
  Qed.

  (** [InferenceTable::relate] on a pattern and its ground instance. *)
  Lemma relate_complete_partial_lemma fuel a t :
    pattern a = true -> (depth (app_subst θ a) < fuel)%nat -> mstate θ t -> (forall v, In v (pvars a) -> v < nvars t) ->
    exists t', relate adt_var fn_var fuel Invariant a (app_subst θ a) t = (Done [], t')
               /\ nvars t' = nvars t /\ pext t t' /\ mstate θ t' /\ (forall v, In v (pvars a) -> bound_to t' v (θ v)).
  Proof.
    intros P D M SC. destruct (match_complete fuel a t P D M SC) as (t' & R & M' & N' & E' & B').
    exists t'. unfold relate. rewrite R. cbn [retain_goals filter]. unfold commit. auto.
  Qed.
End Match.

(** Non-vacuity: the pattern [(?0, Adt1<?1>, ?0)] against [(u32, Adt1<[!1_0]>, u32)] with
    [?0] in the root universe and [?1] in universe 1. *)
Example relate_complete_nonvacuous :
  let t := snd (new_variable 1 (snd (new_variable 0 (snd (new_universe empty_table))))) in
  let u32 := Node (HScalar (Uint U32)) [] in
  let θ := fun v : N => if v =? 0 then u32 else Node HSlice [Node (HPlaceholder 1 0) []] in
  let a := Node (HTuple 3) [ty_var 0 General; Node (HAdt 1) [ty_var 1 General]; ty_var 0 General] in
  pattern a = true /\ (depth (app_subst θ a) < 20)%nat /\ mstate θ t /\ (forall v, In v (pvars a) -> v < nvars t)
  /\ app_subst θ a = Node (HTuple 3) [u32; Node (HAdt 1) [Node HSlice [Node (HPlaceholder 1 0) []]]; u32]
  /\ exists t', relate (fun _ => []) (fun _ => []) 20 Invariant a (app_subst θ a) t = (Done [], t') /\ t' <> t.
Proof.
  cbv zeta. split; [reflexivity |]. split; [cbn; lia |]. split; [| split; [| split; [reflexivity |]]].
  - intros v c E. pose proof (get_some_lt _ _ _ E) as L. vm_compute in L.
    assert (Hv : v = 0 \/ v = 1) by (destruct v as [| [p | p |]]; try discriminate L; auto; destruct p; discriminate L).
    destruct Hv; subst v; vm_compute in E; inversion E; subst c; vm_compute; auto.
  - intros v Hv. cbn in Hv. destruct Hv as [<- | [<- | [<- | []]]]; vm_compute; reflexivity.
  - eexists. split; [vm_compute; reflexivity | intros Q; discriminate Q].
Qed.
