(** * Infer.Script — scripts on one inference table, observations, and the comparison of two
    traces modulo the numbering of the variables created inside [relate].

    Used only by the correspondence checks (the implementation's trace is transcribed into the
    same types and compared *inside Coq* with [trace_match]); no theorem depends on it. *)

From Chalk Require Import Ir.Syntax Ir.Fold Infer.Table Infer.Unify.

Inductive step :=
| SNewUniverse
| SNewVar (u : N)
| SRelate (v : variance) (a b : tm)
| SBoth (v : variance) (a b : tm).        (* relate a b and relate b a on copies; table unchanged *)

Inductive sres :=
| RUnit
| ROk (gs : list tm)
| RErr
| RPanic
| ROther                                  (* model only: out of fuel / outside the fragment *)
| RBoth (r1 r2 : sres).

Definition case_t : Type := list (N * list variance) * list (N * list variance) * list step.

Definition default_fuel : nat := 200.

Definition to_sres (o : out (list tm)) : sres :=
  match o with Done gs => ROk gs | NoSol => RErr | Pan _ => RPanic | _ => ROther end.

Definition flag (o : out (list tm)) : sres :=
  match o with Done _ => ROk [] | NoSol => RErr | Pan _ => RPanic | _ => ROther end.

Section Run.
  Variable adt fnv : list (N * list variance).

  Definition do_relate v a b t := relate (lookup_variances adt) (lookup_variances fnv) default_fuel v a b t.

  (** One observation per [SRelate] / [SBoth] step (the steps that create universes and
      variables are observed through the next relate). *)
  Fixpoint run (t : table) (steps : list step) : list (sres * table) :=
    match steps with
    | [] => []
    | s :: r =>
        match s with
        | SNewUniverse => run (snd (new_universe t)) r
        | SNewVar u => run (snd (new_variable u t)) r
        | SRelate v a b =>
            let '(o, t') := do_relate v a b t in
            (to_sres o, t') :: match o with Done _ | NoSol => run t' r | _ => [] end
        | SBoth v a b =>
            (RBoth (flag (fst (do_relate v a b t))) (flag (fst (do_relate v b a t))), empty_table) :: run t r
        end
    end.
End Run.

Definition count_new_vars (steps : list step) : N :=
  N.of_nat (length (filter (fun s => match s with SNewVar _ => true | _ => false end) steps)).

Definition run_case (c : case_t) : N * list (sres * table) :=
  let '(adt, fnv, steps) := c in (count_new_vars steps, run adt fnv empty_table steps).

(** ** Deep normalisation: bound variables replaced by their values, unbound ones by the
    representative of their class. *)

Definition head_var (h : head) : option N :=
  match h with HInfer v _ | HLInfer v | HCInfer v => Some v | _ => None end.

Definition head_set_var (h : head) (n : N) : head :=
  match h with HInfer _ k => HInfer n k | HLInfer _ => HLInfer n | HCInfer _ => HCInfer n | _ => h end.

Fixpoint deep (fuel : nat) (t : table) (a : tm) {struct fuel} : option tm :=
  match fuel with
  | O => None
  | S f =>
      match a with
      | Node h cs =>
          match head_var h with
          | Some v =>
              match get t v with
              | Some c =>
                  match cval c with
                  | Bound p => deep f t p
                  | Unbound _ => option_map (Node (head_set_var h (ccls c))) (omap (deep f t) cs)
                  end
              | None => None
              end
          | None => option_map (Node h) (omap (deep f t) cs)
          end
      | _ => Some a
      end
  end.

(** ** Matching modulo a bijection on the variables created inside [relate] *)

Definition bij := list (N * N).

Definition pair_var (ns : N) (s : bij) (x y : N) : option bij :=
  if (x <? ns) || (y <? ns) then (if x =? y then Some s else None)
  else if forallb (fun p => Bool.eqb (fst p =? x) (snd p =? y)) s then
         (if existsb (fun p => fst p =? x) s then Some s else Some ((x, y) :: s))
       else None.

Definition universe_of (t : table) (v : N) : option N :=
  match get t v with
  | Some c => match cval c with Unbound u => Some u | Bound _ => None end
  | None => None
  end.

Section Match.
  Variable ns : N.
  Variable tm_ ti : table.       (* model / implementation post-states *)

  Fixpoint tm_match (s : bij) (a b : tm) {struct a} : option bij :=
    match a, b with
    | Var sa da ia, Var sb db ib => if tm_eqb a b then Some s else None
    | CVar da ia ca, CVar db ib cb => if (da =? db) && (ia =? ib) then tm_match s ca cb else None
    | Node ha ca, Node hb cb =>
        let children :=
          (fix go (s : bij) (l l' : list tm) {struct l} : option bij :=
             match l, l' with
             | [], [] => Some s
             | x :: r, y :: r' => match tm_match s x y with Some s' => go s' r r' | None => None end
             | _, _ => None
             end) in
        match head_var ha, head_var hb with
        | Some x, Some y =>
            if head_eqb (head_set_var ha 0) (head_set_var hb 0)
               && option_eqb N.eqb (universe_of tm_ x) (universe_of ti y) then
              match pair_var ns s x y with
              | Some s' => children s' ca cb
              | None => None
              end
            else None
        | None, None => if head_eqb ha hb then children s ca cb else None
        | _, _ => None
        end
    | _, _ => None
    end.

  Definition picks {A} : list A -> list (A * list A) :=
    fix go (l : list A) : list (A * list A) :=
      match l with
      | [] => []
      | x :: r => (x, r) :: map (fun p => (fst p, x :: snd p)) (go r)
      end.

  (** multiset matching with backtracking *)
  Fixpoint goals_match (s : bij) (gm gi : list tm) {struct gm} : bool :=
    match gm with
    | [] => match gi with [] => true | _ => false end
    | g :: r =>
        existsb (fun p => match tm_match s g (fst p) with
                          | Some s' => goals_match s' r (snd p)
                          | None => false
                          end) (picks gi)
    end.

  (** the script variables [0 .. ns), then the goals *)
  Fixpoint vars_match (fuel : nat) (s : bij) (v : N) (k : nat) : option bij :=
    match k with
    | O => Some s
    | S k' =>
        match get tm_ v, get ti v with
        | Some cm, Some ci =>
            match cval cm, cval ci with
            | Unbound um, Unbound ui =>
                if (um =? ui) && (ccls cm =? ccls ci) then vars_match fuel s (v + 1) k' else None
            | Bound pm, Bound pi =>
                match deep fuel tm_ pm, deep fuel ti pi with
                | Some a, Some b =>
                    match tm_match s a b with
                    | Some s' => vars_match fuel s' (v + 1) k'
                    | None => None
                    end
                | _, _ => None
                end
            | _, _ => None
            end
        | None, None => vars_match fuel s (v + 1) k'          (* not created yet *)
        | _, _ => None
        end
    end.
End Match.

Definition state_match (ns : N) (m i : table) (gm gi : list tm) : bool :=
  (maxu m =? maxu i) &&
  match vars_match ns m i 400 [] 0 (N.to_nat ns) with
  | Some s =>
      match omap (deep 400 m) gm, omap (deep 400 i) gi with
      | Some gm', Some gi' => goals_match ns m i s gm' gi'
      | _, _ => false
      end
  | None => false
  end.

Fixpoint sres_flag_eqb (a b : sres) : bool :=
  match a, b with
  | RUnit, RUnit | ROk _, ROk _ | RErr, RErr | RPanic, RPanic => true
  | RBoth a1 a2, RBoth b1 b2 => sres_flag_eqb a1 b1 && sres_flag_eqb a2 b2
  | _, _ => false
  end.

Definition goals_of (r : sres) : list tm := match r with ROk gs => gs | _ => [] end.

Definition obs_match (ns : N) (m i : sres * table) : bool :=
  sres_flag_eqb (fst m) (fst i) &&
  match fst m with
  | RPanic | RBoth _ _ => true                       (* the table after a panic is unspecified; [SBoth] works on copies *)
  | _ => state_match ns (snd m) (snd i) (goals_of (fst m)) (goals_of (fst i))
  end.

Definition trace_match (m : N * list (sres * table)) (i : list (sres * table)) : bool :=
  list_eqb (obs_match (fst m)) (snd m) i.

(** Index of the first step whose observations differ (for diagnostics). *)
Fixpoint first_diff (ns : N) (k : N) (m i : list (sres * table)) : option N :=
  match m, i with
  | [], [] => None
  | x :: r, y :: r' => if obs_match ns x y then first_diff ns (k + 1) r r' else Some k
  | _, _ => Some k
  end.
