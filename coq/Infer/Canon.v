(** * Infer.Canon — model of chalk-solve's [Canonicalizer] (infer/canonicalize.rs),
    [fresh_subst] / [instantiate_canonical] (infer/instantiate.rs) and of applying a
    substitution with [Substitution::apply] ([SubstFolder], chalk-ir/src/lib.rs).

    The inference table is abstracted to what canonicalization observes of it: for every
    inference variable its class representative ([unify.find]) and the value of its class
    ([probe_value]): [Unbound universe] or [Bound term].

    Const types (the single child of a const node and the [cty] of a [CVar]) are opaque to
    every function of this file: [Canonicalizer::fold_inference_const] and
    [fold_free_placeholder_const] pass the type through unfolded, and for the other const
    forms folding is the identity on the closed types ([usize]) that ChalkIr lowering
    produces. *)

From Chalk Require Import Ir.Syntax Ir.Fold.

(** ** The table abstraction *)

Inductive ival := Unbound (u : N) | Bound (t : tm).

(** entry [v] = (representative of [v]'s class, value of the class) *)
Definition table := list (N * ival).

Definition lookup (T : table) (v : N) : option (N * ival) := nth_error T (N.to_nat v).

(** [universe_of_unbound_var]: panics on a bound variable (modelled as universe 0; the
    canonicalizer only asks for the unbound representatives it collected). *)
Definition universe_of (T : table) (v : N) : N :=
  match lookup T v with Some (_, Unbound u) => u | _ => 0 end.

(** ** Outcomes: panics and exhausted fuel (following bindings needs fuel; an acyclic table
    — which the occurs check guarantees — never exhausts a sufficient amount). *)

Inductive out (A : Type) := Done (a : A) | Panics (s : site) | OutOfFuel.
Arguments Done {A} a.
Arguments Panics {A} s.
Arguments OutOfFuel {A}.

Definition obind {A B} (r : out A) (f : A -> out B) : out B :=
  match r with Done a => f a | Panics s => Panics s | OutOfFuel => OutOfFuel end.

Definition omap_out {A B} (f : A -> B) (r : out A) : out B := obind r (fun a => Done (f a)).

Definition omapM {A B} (f : A -> out B) : list A -> out (list B) :=
  fix go (l : list A) : out (list B) :=
    match l with
    | [] => Done []
    | x :: r => obind (f x) (fun y => obind (go r) (fun ys => Done (y :: ys)))
    end.

(** left-to-right traversal of the children threading a state *)
Definition ofoldM {A B S} (f : A -> S -> out (B * S)) : list A -> S -> out (list B * S) :=
  fix go (l : list A) (s : S) : out (list B * S) :=
    match l with
    | [] => Done ([], s)
    | x :: r => obind (f x s) (fun ys => obind (go r (snd ys)) (fun rs => Done (fst ys :: fst rs, snd rs)))
    end.

(** ** Syntax helpers *)

Definition const_head (h : head) : bool :=
  match h with HCInfer _ | HCPlaceholder _ _ | HCConcrete _ => true | _ => false end.

(** the inference variable of a head and the kind the canonicalizer records for it *)
Definition infer_of (h : head) : option (N * vkind) :=
  match h with
  | HInfer v k => Some (v, VTy k)
  | HLInfer v => Some (v, VLt)
  | HCInfer v => Some (v, VConst)
  | _ => None
  end.

Definition set_var (h : head) (r : N) : head :=
  match h with
  | HInfer _ k => HInfer r k
  | HLInfer _ => HLInfer r
  | HCInfer _ => HCInfer r
  | _ => h
  end.

Definition vk_kind (k : vkind) : kind :=
  match k with VTy _ => KTy | VLt => KLt | VConst => KConst end.

(** inference variables and constants are leaves (the const type is opaque) *)
Definition leaf_head (h : head) : bool :=
  match infer_of h with Some _ => true | None => const_head h end.

(** shifting that leaves const types alone *)
Fixpoint shift_o (n k : N) (t : tm) : tm :=
  match t with
  | Var s d i => if k <=? d then Var s (d + n) i else t
  | CVar d i c => if k <=? d then CVar (d + n) i c else t
  | Node h cs => if leaf_head h then t else Node h (map (shift_o n (under h k)) cs)
  end.

(** ** The canonicalizer *)

(** [Canonicalizer::free_vars]: kind at first occurrence and class representative *)
Definition fvs := list (vkind * N).

Fixpoint index_of (v : N) (l : fvs) : option nat :=
  match l with
  | [] => None
  | (_, w) :: r => if v =? w then Some 0%nat else option_map S (index_of v r)
  end.

(** [Canonicalizer::add]: position of the variable (the kind is not compared), appended if new *)
Definition add (vk : vkind) (v : N) (fv : fvs) : nat * fvs :=
  match index_of v fv with
  | Some i => (i, fv)
  | None => (length fv, fv ++ [(vk, v)])
  end.

Definition cty_of (cs : list tm) : tm := match cs with [c] => c | _ => usize_ty end.

(** the bound variable that replaces an inference variable at binder depth [k] *)
Definition mk_bound (vk : vkind) (k : N) (i : nat) (cs : list tm) : tm :=
  match vk with
  | VTy _ => Var STy k (N.of_nat i)
  | VLt => Var SLt k (N.of_nat i)
  | VConst => CVar k (N.of_nat i) (cty_of cs)
  end.

Section CanonIn.
  (** [rec_c val fv]: canonicalize the value of a bound variable at [INNERMOST] *)
  Variable rec_c : tm -> fvs -> out (tm * fvs).
  Variable T : table.

  (** [value.fold_with(&mut Canonicalizer, k)]:
      - a free bound variable panics ([forbid_free_vars]);
      - placeholders are kept; const types are not folded;
      - an inference variable bound in the table is replaced by its canonicalized value,
        folded at INNERMOST and shifted in by [k] ([assert_*_ref] panics on a value of the
        wrong kind); an unbound one by the bound variable numbered by [add] on the class
        representative. *)
  Fixpoint canon_in (k : N) (t : tm) (fv : fvs) {struct t} : out (tm * fvs) :=
    match t with
    | Var _ d _ => if k <=? d then Panics OtherPanic else Done (t, fv)
    | CVar d _ _ => if k <=? d then Panics OtherPanic else Done (t, fv)
    | Node h cs =>
        match infer_of h with
        | Some (v, vk) =>
            match lookup T v with
            | None => Panics IndexOutOfBounds
            | Some (r, Unbound _) => let ifv := add vk r fv in Done (mk_bound vk k (fst ifv) cs, snd ifv)
            | Some (_, Bound val) =>
                if kind_eqb (kind_of val) (vk_kind vk)
                then obind (rec_c val fv) (fun vf => Done (shift_o k 0 (fst vf), snd vf))
                else Panics OtherPanic
            end
        | None =>
            if const_head h then Done (t, fv)
            else obind (ofoldM (canon_in (under h k)) cs fv) (fun cf => Done (Node h (fst cf), snd cf))
        end
    end.
End CanonIn.

Fixpoint canon_go (fuel : nat) (T : table) {struct fuel} : N -> tm -> fvs -> out (tm * fvs) :=
  canon_in (match fuel with O => fun _ _ => OutOfFuel | S f => canon_go f T 0 end) T.

(** [Canonical<T>]: binders (kind, universe) and value *)
Definition canonical := (list (vkind * N) * tm)%type.

(** [into_binders]: the universe of each collected representative *)
Definition binders_of (T : table) (fv : fvs) : list (vkind * N) :=
  map (fun kv => (fst kv, universe_of T (snd kv))) fv.

(** [InferenceTable::canonicalize]: the canonical value and [free_vars] *)
Definition canonicalize (fuel : nat) (T : table) (t : tm) : out (canonical * fvs) :=
  obind (canon_go fuel T 0 t []) (fun tf => Done ((binders_of T (snd tf), fst tf), snd tf)).

(** ** Specification: resolve through the table, then number by first occurrence *)

Section ResolveIn.
  Variable rec_r : tm -> out tm.
  Variable T : table.

  (** deep normalisation: every inference variable is replaced by the (resolved) value of its
      class, or by its class representative if the class is unbound *)
  Fixpoint resolve_in (k : N) (t : tm) {struct t} : out tm :=
    match t with
    | Var _ _ _ | CVar _ _ _ => Done t
    | Node h cs =>
        match infer_of h with
        | Some (v, vk) =>
            match lookup T v with
            | None => Panics IndexOutOfBounds
            | Some (r, Unbound _) => Done (Node (set_var h r) cs)
            | Some (_, Bound val) =>
                if kind_eqb (kind_of val) (vk_kind vk)
                then omap_out (shift_o k 0) (rec_r val)
                else Panics OtherPanic
            end
        | None =>
            if const_head h then Done t
            else omap_out (Node h) (omapM (resolve_in (under h k)) cs)
        end
    end.
End ResolveIn.

Fixpoint resolve (fuel : nat) (T : table) {struct fuel} : N -> tm -> out tm :=
  resolve_in (match fuel with O => fun _ => OutOfFuel | S f => resolve f T 0 end) T.

(** occurrences of inference variables in traversal order *)
Fixpoint occs (t : tm) : fvs :=
  match t with
  | Var _ _ _ | CVar _ _ _ => []
  | Node h cs =>
      match infer_of h with
      | Some (v, vk) => [(vk, v)]
      | None => if const_head h then [] else flat_map occs cs
      end
  end.

(** the state of the canonicalizer after seeing the occurrences [l] *)
Definition dedup_into (fv : fvs) (l : fvs) : fvs :=
  fold_left (fun acc kv => snd (add (fst kv) (snd kv) acc)) l fv.

Definition first_occs (l : fvs) : fvs := dedup_into [] l.

Definition pos_of (v : N) (F : fvs) : nat := match index_of v F with Some i => i | None => 0%nat end.

(** replace every inference variable by the bound variable whose index is its position in [F] *)
Fixpoint replace (F : fvs) (k : N) (t : tm) : tm :=
  match t with
  | Var _ _ _ | CVar _ _ _ => t
  | Node h cs =>
      match infer_of h with
      | Some (v, vk) => mk_bound vk k (pos_of v F) cs
      | None => if const_head h then t else Node h (map (replace F (under h k)) cs)
      end
  end.

(** no bound variable is free at depth [k] *)
Fixpoint nofree (k : N) (t : tm) : bool :=
  match t with
  | Var _ d _ => d <? k
  | CVar d _ _ => d <? k
  | Node h cs =>
      match infer_of h with
      | Some _ => true
      | None => if const_head h then true else forallb (nofree (under h k)) cs
      end
  end.

(** *** Lists of collected variables *)

Lemma index_of_app_some v F G i : index_of v F = Some i -> index_of v (F ++ G) = Some i.
Proof.
  revert i. induction F as [| [vk w] F IH]; cbn [index_of app]; intros i H; [discriminate |].
  destruct (v =? w); [assumption |].
  destruct (index_of v F) as [j |]; cbn [option_map] in *; [| discriminate].
  rewrite (IH j eq_refl). assumption.
Qed.

Lemma index_of_app_none v F G : index_of v F = None -> index_of v (F ++ G) = option_map (fun i => (length F + i)%nat) (index_of v G).
Proof.
  induction F as [| [vk w] F IH]; cbn [index_of app length]; intros H.
  - destruct (index_of v G); reflexivity.
  - destruct (v =? w); [discriminate |].
    destruct (index_of v F) as [j |]; cbn [option_map] in H; [discriminate |].
    rewrite (IH eq_refl). destruct (index_of v G); reflexivity.
Qed.

Lemma index_of_lt v F i : index_of v F = Some i -> (i < length F)%nat.
Proof.
  revert i. induction F as [| [vk w] F IH]; cbn [index_of length]; intros i H; [discriminate |].
  destruct (v =? w); [inversion H; lia |].
  destruct (index_of v F) as [j |]; cbn [option_map] in H; [| discriminate].
  inversion H; subst. specialize (IH j eq_refl). lia.
Qed.

Lemma index_of_nth v F i : index_of v F = Some i -> exists vk, nth_error F i = Some (vk, v).
Proof.
  revert i. induction F as [| [vk w] F IH]; cbn [index_of]; intros i H; [discriminate |].
  destruct (N.eqb_spec v w) as [-> | Hne]; [inversion H; subst; exists vk; reflexivity |].
  destruct (index_of v F) as [j |]; cbn [option_map] in H; [| discriminate].
  inversion H; subst. cbn [nth_error]. apply IH. reflexivity.
Qed.

Lemma index_of_none_notin v F : index_of v F = None <-> ~ In v (map snd F).
Proof.
  induction F as [| [vk w] F IH]; cbn [index_of map In snd]; [tauto |].
  destruct (N.eqb_spec v w) as [-> | Hne].
  - split; [discriminate | intros H; exfalso; apply H; left; reflexivity].
  - destruct (index_of v F) as [j |]; cbn [option_map].
    + split; [discriminate |]. intros H. exfalso. destruct IH as [_ IH2].
      assert (X : Some j = None) by (apply IH2; intros Hin; apply H; right; assumption). discriminate X.
    + split; [| reflexivity]. intros _ [He | Hin]; [congruence |]. destruct IH as [IH1 _]. apply (IH1 eq_refl). assumption.
Qed.

Lemma index_of_in v F : In v (map snd F) -> exists i, index_of v F = Some i.
Proof.
  intros H. destruct (index_of v F) as [i |] eqn:E; [eauto |].
  apply index_of_none_notin in E. contradiction.
Qed.

Lemma add_spec vk v F :
  add vk v F = match index_of v F with Some i => (i, F) | None => (length F, F ++ [(vk, v)]) end.
Proof. reflexivity. Qed.

Lemma add_extends vk v F : exists G, snd (add vk v F) = F ++ G.
Proof. unfold add. destruct (index_of v F); cbn [snd]; [exists []; rewrite app_nil_r; reflexivity | eauto]. Qed.

Lemma add_index vk v F : index_of v (snd (add vk v F)) = Some (fst (add vk v F)).
Proof.
  unfold add. destruct (index_of v F) as [i |] eqn:E; cbn [fst snd]; [assumption |].
  rewrite index_of_app_none by assumption. cbn [index_of]. rewrite N.eqb_refl. cbn [option_map]. f_equal. lia.
Qed.

Lemma dedup_into_app F l1 l2 : dedup_into F (l1 ++ l2) = dedup_into (dedup_into F l1) l2.
Proof. unfold dedup_into. apply fold_left_app. Qed.

Lemma dedup_into_extends l : forall F, exists G, dedup_into F l = F ++ G.
Proof.
  induction l as [| [vk v] l IH]; intros F; cbn [dedup_into fold_left fst snd].
  - exists []. rewrite app_nil_r. reflexivity.
  - destruct (add_extends vk v F) as [G1 E1]. fold (dedup_into (snd (add vk v F)) l).
    destruct (IH (snd (add vk v F))) as [G2 E2]. rewrite E2, E1, <- app_assoc. eauto.
Qed.

Lemma dedup_into_keeps l F v i : index_of v F = Some i -> index_of v (dedup_into F l) = Some i.
Proof. intros H. destruct (dedup_into_extends l F) as [G ->]. apply index_of_app_some. assumption. Qed.

Lemma dedup_into_has l : forall F vk v, In (vk, v) l -> exists i, index_of v (dedup_into F l) = Some i.
Proof.
  induction l as [| [vk' v'] l IH]; intros F vk v Hin; [destruct Hin |].
  cbn [dedup_into fold_left fst snd]. fold (dedup_into (snd (add vk' v' F)) l).
  destruct Hin as [E | Hin].
  - inversion E; subst. eexists. apply dedup_into_keeps. apply add_index.
  - eapply IH. eassumption.
Qed.

Lemma NoDup_snoc {A} (l : list A) (x : A) : NoDup l -> ~ In x l -> NoDup (l ++ [x]).
Proof.
  induction l as [| y l IH]; cbn [app]; intros Hn Hx.
  - constructor; [intros [] | constructor].
  - inversion Hn; subst. constructor.
    + rewrite in_app_iff. intros [H | [H | []]]; [contradiction | subst; apply Hx; left; reflexivity].
    + apply IH; [assumption | intros H; apply Hx; right; assumption].
Qed.

(** the variables of the collected list are pairwise distinct *)
Lemma add_nodup vk v F : NoDup (map snd F) -> NoDup (map snd (snd (add vk v F))).
Proof.
  intros H. unfold add. destruct (index_of v F) eqn:E; cbn [snd]; [assumption |].
  rewrite map_app. cbn [map snd]. apply index_of_none_notin in E.
  apply NoDup_snoc; assumption.
Qed.

Lemma dedup_into_nodup l : forall F, NoDup (map snd F) -> NoDup (map snd (dedup_into F l)).
Proof.
  induction l as [| [vk v] l IH]; intros F H; cbn [dedup_into fold_left fst snd]; [assumption |].
  fold (dedup_into (snd (add vk v F)) l). apply IH. apply add_nodup. assumption.
Qed.

(** every collected entry was an occurrence (or was there before) *)
Lemma dedup_into_incl l : forall F kv, In kv (dedup_into F l) -> In kv F \/ In kv l.
Proof.
  induction l as [| [vk v] l IH]; intros F kv H; cbn [dedup_into fold_left fst snd] in H; [left; assumption |].
  fold (dedup_into (snd (add vk v F)) l) in H. apply IH in H. destruct H as [H | H]; [| right; right; assumption].
  unfold add in H. destruct (index_of v F); cbn [snd] in H; [left; assumption |].
  apply in_app_iff in H. destruct H as [H | [H | []]]; [left; assumption | right; left; assumption].
Qed.

(** *** Free variables, shifting and replacement *)

Lemma under_add_r h c n : under h (c + n) = under h c + n.
Proof. unfold under. destruct (binds h); lia. Qed.

Lemma nofree_mono : forall r c c', nofree c r = true -> c <= c' -> nofree c' r = true.
Proof.
  induction r as [s d i | d i ct _ | h cs IH] using tm_ind'; intros c c' H Hle; cbn [nofree] in *.
  - apply N.ltb_lt in H. apply N.ltb_lt. lia.
  - apply N.ltb_lt in H. apply N.ltb_lt. lia.
  - destruct (infer_of h); [reflexivity |]. destruct (const_head h); [reflexivity |].
    rewrite forallb_forall in *. intros x Hx. rewrite Forall_forall in IH.
    apply (IH x Hx (under h c)); [apply H; assumption | apply under_le; assumption].
Qed.

Lemma shift_o_nofree : forall r n c, nofree c r = true -> shift_o n c r = r.
Proof.
  induction r as [s d i | d i ct _ | h cs IH] using tm_ind'; intros n c H; cbn [nofree shift_o] in *.
  - apply N.ltb_lt in H. destruct (N.leb_spec c d); [lia | reflexivity].
  - apply N.ltb_lt in H. destruct (N.leb_spec c d); [lia | reflexivity].
  - unfold leaf_head. destruct (infer_of h) as [[v vk] |]; [reflexivity |].
    destruct (const_head h); [reflexivity |].
    f_equal. rewrite <- (map_id cs) at 2. apply map_ext_in. intros x Hx.
    rewrite Forall_forall in IH. apply IH; [assumption |]. rewrite forallb_forall in H. apply H. assumption.
Qed.

Lemma forallb_map_ext {A B} (f : B -> bool) (g : A -> B) (h : A -> bool) (l : list A) :
  (forall x, In x l -> f (g x) = h x) -> forallb f (map g l) = forallb h l.
Proof.
  induction l as [| x l IH]; cbn [map forallb]; intros H; [reflexivity |].
  rewrite H by (left; reflexivity). rewrite IH; [reflexivity |]. intros y Hy. apply H. right. assumption.
Qed.

Lemma nofree_shift_o : forall r n c, nofree (c + n) (shift_o n c r) = nofree c r.
Proof.
  induction r as [s d i | d i ct _ | h cs IH] using tm_ind'; intros n c; cbn [shift_o].
  - destruct (N.leb_spec c d); cbn [nofree].
    + destruct (N.ltb_spec (d + n) (c + n)); destruct (N.ltb_spec d c); try lia; reflexivity.
    + destruct (N.ltb_spec d (c + n)); destruct (N.ltb_spec d c); try lia; reflexivity.
  - destruct (N.leb_spec c d); cbn [nofree].
    + destruct (N.ltb_spec (d + n) (c + n)); destruct (N.ltb_spec d c); try lia; reflexivity.
    + destruct (N.ltb_spec d (c + n)); destruct (N.ltb_spec d c); try lia; reflexivity.
  - unfold leaf_head. destruct (infer_of h) as [[v vk] |] eqn:Ei; [cbn [nofree]; rewrite Ei; reflexivity |].
    destruct (const_head h) eqn:Ec; cbn [nofree]; rewrite Ei, Ec; [reflexivity |].
    apply forallb_map_ext. intros x Hx. rewrite Forall_forall in IH.
    rewrite under_add_r. apply IH. assumption.
Qed.

Lemma replace_shift_o : forall r F n c, nofree c r = true -> shift_o n c (replace F c r) = replace F (c + n) r.
Proof.
  induction r as [s d i | d i ct _ | h cs IH] using tm_ind'; intros F n c H; cbn [nofree replace] in *.
  - apply N.ltb_lt in H. cbn [shift_o]. destruct (N.leb_spec c d); [lia | reflexivity].
  - apply N.ltb_lt in H. cbn [shift_o]. destruct (N.leb_spec c d); [lia | reflexivity].
  - destruct (infer_of h) as [[v vk] |] eqn:Ei.
    + destruct vk; cbn [mk_bound shift_o]; destruct (N.leb_spec c c); try lia; reflexivity.
    + destruct (const_head h) eqn:Ec; cbn [shift_o]; unfold leaf_head; rewrite Ei, Ec; [reflexivity |].
      f_equal. rewrite map_map. apply map_ext_in. intros x Hx. rewrite Forall_forall in IH.
      rewrite under_add_r. apply IH; [assumption |]. rewrite forallb_forall in H. apply H. assumption.
Qed.

Lemma replace_stable : forall r F G k,
  (forall vk v, In (vk, v) (occs r) -> exists i, index_of v F = Some i) ->
  replace (F ++ G) k r = replace F k r.
Proof.
  induction r as [s d i | d i ct _ | h cs IH] using tm_ind'; intros F G k H; cbn [replace occs] in *; try reflexivity.
  destruct (infer_of h) as [[v vk] |] eqn:Ei.
  - destruct (H vk v (or_introl eq_refl)) as [i Hi]. unfold pos_of.
    rewrite (index_of_app_some _ _ G _ Hi), Hi. reflexivity.
  - destruct (const_head h); [reflexivity |]. f_equal. apply map_ext_in. intros x Hx.
    rewrite Forall_forall in IH. apply IH; [assumption |]. intros vk v Hin. apply (H vk v).
    apply in_flat_map. exists x. split; assumption.
Qed.

Lemma infer_of_set_var h v vk r : infer_of h = Some (v, vk) -> infer_of (set_var h r) = Some (r, vk).
Proof. destruct h; cbn; intros H; inversion H; reflexivity. Qed.

Lemma pos_of_add vk v F : pos_of v (snd (add vk v F)) = fst (add vk v F).
Proof. unfold pos_of. rewrite add_index. reflexivity. Qed.

(** *** The canonicalizer computes: resolve, collect first occurrences, replace *)

Section Sound.
  Variable rec_c : tm -> fvs -> out (tm * fvs).
  Variable rec_r : tm -> out tm.
  Variable T : table.
  Hypothesis Hrec : forall val fv v' fv', rec_c val fv = Done (v', fv') ->
    exists r, rec_r val = Done r /\ nofree 0 r = true /\ fv' = dedup_into fv (occs r) /\ v' = replace fv' 0 r.

  Lemma canon_in_sound : forall t k fv t' fv', canon_in rec_c T k t fv = Done (t', fv') ->
    exists r, resolve_in rec_r T k t = Done r /\ nofree k r = true /\ fv' = dedup_into fv (occs r) /\ t' = replace fv' k r.
  Proof.
    induction t as [s d i | d i ct _ | h cs IH] using tm_ind'; intros k fv t' fv'; cbn [canon_in resolve_in].
    - destruct (N.leb_spec k d) as [Hl | Hl]; [discriminate |]. intros E; inversion E; subst.
      eexists. split; [reflexivity |]. cbn [nofree occs replace dedup_into fold_left].
      repeat split. apply N.ltb_lt. assumption.
    - destruct (N.leb_spec k d) as [Hl | Hl]; [discriminate |]. intros E; inversion E; subst.
      eexists. split; [reflexivity |]. cbn [nofree occs replace dedup_into fold_left].
      repeat split. apply N.ltb_lt. assumption.
    - destruct (infer_of h) as [[v vk] |] eqn:Ei.
      + destruct (lookup T v) as [[r [u | val]] |]; [| | discriminate].
        * intros E; inversion E; subst. eexists. split; [reflexivity |].
          cbn [nofree occs replace]. rewrite (infer_of_set_var _ _ _ r Ei).
          cbn [dedup_into fold_left fst snd]. rewrite pos_of_add. repeat split.
        * destruct (kind_eqb (kind_of val) (vk_kind vk)); [| discriminate].
          destruct (rec_c val fv) as [[v' fv1] | |] eqn:Er; cbn [obind]; try discriminate.
          intros E; inversion E; subst. cbn [fst snd].
          destruct (Hrec _ _ _ _ Er) as (r0 & Hr & Hn & Hf & Hv).
          exists r0. rewrite Hr. unfold omap_out. cbn [obind]. rewrite (shift_o_nofree r0 k 0 Hn).
          split; [reflexivity |]. split; [apply (nofree_mono r0 0 k Hn); lia |]. split; [assumption |].
          rewrite Hv. rewrite (replace_shift_o r0 _ k 0 Hn). f_equal.
      + destruct (const_head h) eqn:Ec.
        * intros E; inversion E; subst. eexists. split; [reflexivity |].
          cbn [nofree occs replace]. rewrite Ei, Ec. repeat split.
        * assert (L : forall k' fv cs' fv', ofoldM (canon_in rec_c T k') cs fv = Done (cs', fv') ->
                    exists rs, omapM (resolve_in rec_r T k') cs = Done rs /\ forallb (nofree k') rs = true
                               /\ fv' = dedup_into fv (flat_map occs rs) /\ cs' = map (replace fv' k') rs).
          { clear - IH. induction IH as [| x l Hx _ IHl]; intros k' fv cs' fv'; cbn [ofoldM omapM].
            - intros E; inversion E; subst. exists []. repeat split.
            - destruct (canon_in rec_c T k' x fv) as [[x' fv1] | |] eqn:Ex; cbn [obind]; try discriminate.
              cbn [fst snd].
              destruct (ofoldM (canon_in rec_c T k') l fv1) as [[l' fv2] | |] eqn:El; cbn [obind]; try discriminate.
              intros E; inversion E; subst. cbn [fst snd].
              destruct (Hx _ _ _ _ Ex) as (rx & Hrx & Hnx & Hfx & Htx).
              destruct (IHl _ _ _ _ El) as (rs & Hrs & Hns & Hfs & Hts).
              exists (rx :: rs). rewrite Hrx. cbn [obind]. rewrite Hrs. cbn [obind].
              split; [reflexivity |]. cbn [forallb flat_map map]. rewrite Hnx, Hns.
              split; [reflexivity |]. rewrite dedup_into_app, <- Hfx.
              split; [assumption |]. f_equal; [| assumption].
              rewrite Htx. destruct (dedup_into_extends (flat_map occs rs) fv1) as [G HG].
              rewrite Hfs, HG. symmetry. apply replace_stable. intros vk v Hin.
              rewrite Hfx. eapply dedup_into_has. eassumption. }
          destruct (ofoldM (canon_in rec_c T (under h k)) cs fv) as [[cs' fv1] | |] eqn:Ef; cbn [obind]; try discriminate.
          intros E; inversion E; subst. cbn [fst snd].
          destruct (L _ _ _ _ Ef) as (rs & Hrs & Hns & Hfs & Hts).
          exists (Node h rs). rewrite Hrs. unfold omap_out. cbn [obind].
          split; [reflexivity |]. cbn [nofree occs replace]. rewrite Ei, Ec.
          repeat split; try assumption. f_equal. assumption.
  Qed.
End Sound.

Section Complete.
  Variable rec_c : tm -> fvs -> out (tm * fvs).
  Variable rec_r : tm -> out tm.
  Variable T : table.
  Hypothesis Hrec : forall val r0 fv, rec_r val = Done r0 -> nofree 0 r0 = true ->
    rec_c val fv = Done (replace (dedup_into fv (occs r0)) 0 r0, dedup_into fv (occs r0)).

  Lemma canon_in_complete : forall t k fv r, resolve_in rec_r T k t = Done r -> nofree k r = true ->
    canon_in rec_c T k t fv = Done (replace (dedup_into fv (occs r)) k r, dedup_into fv (occs r)).
  Proof.
    induction t as [s d i | d i ct _ | h cs IH] using tm_ind'; intros k fv r; cbn [canon_in resolve_in].
    - intros E; inversion E; subst. cbn [nofree occs replace dedup_into fold_left]. intros H.
      apply N.ltb_lt in H. destruct (N.leb_spec k d); [lia | reflexivity].
    - intros E; inversion E; subst. cbn [nofree occs replace dedup_into fold_left]. intros H.
      apply N.ltb_lt in H. destruct (N.leb_spec k d); [lia | reflexivity].
    - destruct (infer_of h) as [[v vk] |] eqn:Ei.
      + destruct (lookup T v) as [[r0 [u | val]] |]; [| | discriminate].
        * intros E; inversion E; subst. intros _. cbn [occs replace]. rewrite (infer_of_set_var _ _ _ r0 Ei).
          cbn [dedup_into fold_left fst snd]. rewrite pos_of_add. reflexivity.
        * destruct (kind_eqb (kind_of val) (vk_kind vk)); [| discriminate].
          unfold omap_out. destruct (rec_r val) as [rv | |] eqn:Er; cbn [obind]; try discriminate.
          intros E; inversion E; subst. intros Hn.
          assert (Hn0 : nofree 0 rv = true) by (rewrite <- (nofree_shift_o rv k 0); exact Hn).
          rewrite (shift_o_nofree rv k 0 Hn0). rewrite (Hrec _ _ fv Er Hn0). cbn [obind fst snd].
          rewrite (replace_shift_o rv _ k 0 Hn0). reflexivity.
      + destruct (const_head h) eqn:Ec.
        * intros E; inversion E; subst. intros _. cbn [occs replace]. rewrite Ei, Ec. reflexivity.
        * assert (L : forall k' fv rs, omapM (resolve_in rec_r T k') cs = Done rs -> forallb (nofree k') rs = true ->
                    ofoldM (canon_in rec_c T k') cs fv
                    = Done (map (replace (dedup_into fv (flat_map occs rs)) k') rs, dedup_into fv (flat_map occs rs))).
          { clear - IH. induction IH as [| x l Hx _ IHl]; intros k' fv rs; cbn [ofoldM omapM].
            - intros E; inversion E; subst. reflexivity.
            - destruct (resolve_in rec_r T k' x) as [rx | |] eqn:Ex; cbn [obind]; try discriminate.
              destruct (omapM (resolve_in rec_r T k') l) as [rl | |] eqn:El; cbn [obind]; try discriminate.
              intros E; inversion E; subst. cbn [forallb flat_map map]. intros Hn.
              apply andb_true_iff in Hn. destruct Hn as [Hnx Hnl].
              rewrite (Hx _ fv _ Ex Hnx). cbn [obind fst snd].
              rewrite (IHl _ (dedup_into fv (occs rx)) _ El Hnl). cbn [obind fst snd].
              rewrite dedup_into_app. f_equal. f_equal. f_equal.
              destruct (dedup_into_extends (flat_map occs rl) (dedup_into fv (occs rx))) as [G HG].
              rewrite HG. symmetry. apply replace_stable. intros vk v Hin. eapply dedup_into_has. eassumption. }
          unfold omap_out. destruct (omapM (resolve_in rec_r T (under h k)) cs) as [rs | |] eqn:Em; cbn [obind]; try discriminate.
          intros E; inversion E; subst. cbn [nofree occs replace]. rewrite Ei, Ec. intros Hn.
          rewrite (L _ fv _ Em Hn). reflexivity.
  Qed.
End Complete.

Lemma canon_go_sound : forall fuel T t k fv t' fv', canon_go fuel T k t fv = Done (t', fv') ->
  exists r, resolve fuel T k t = Done r /\ nofree k r = true /\ fv' = dedup_into fv (occs r) /\ t' = replace fv' k r.
Proof.
  induction fuel as [| f IH]; intros T t k fv t' fv'; cbn [canon_go resolve]; apply canon_in_sound.
  - intros val fv0 v' fv0'. discriminate.
  - intros val fv0 v' fv0' H. apply IH. assumption.
Qed.

Lemma canon_go_complete : forall fuel T t k fv r, resolve fuel T k t = Done r -> nofree k r = true ->
  canon_go fuel T k t fv = Done (replace (dedup_into fv (occs r)) k r, dedup_into fv (occs r)).
Proof.
  induction fuel as [| f IH]; intros T t k fv r; cbn [canon_go resolve]; apply canon_in_complete.
  - intros val r0 fv0. discriminate.
  - intros val r0 fv0 H Hn. apply IH; assumption.
Qed.

(** *** Numbering by first occurrence *)

(** the occurrences whose variable has not been seen before, in order *)
Fixpoint nodup_first (seen : list N) (l : fvs) : fvs :=
  match l with
  | [] => []
  | (vk, v) :: r =>
      if existsb (N.eqb v) seen then nodup_first seen r else (vk, v) :: nodup_first (seen ++ [v]) r
  end.

Lemma index_of_existsb v F : existsb (N.eqb v) (map snd F) = match index_of v F with Some _ => true | None => false end.
Proof.
  induction F as [| [vk w] F IH]; cbn [map snd existsb index_of]; [reflexivity |].
  destruct (v =? w); cbn [orb]; [reflexivity |]. rewrite IH. destruct (index_of v F); reflexivity.
Qed.

Lemma dedup_into_nodup_first l : forall F, dedup_into F l = F ++ nodup_first (map snd F) l.
Proof.
  induction l as [| [vk v] l IH]; intros F; cbn [dedup_into fold_left fst snd nodup_first].
  - rewrite app_nil_r. reflexivity.
  - fold (dedup_into (snd (add vk v F)) l). rewrite IH, index_of_existsb. unfold add.
    destruct (index_of v F); cbn [snd]; [reflexivity |].
    rewrite map_app, <- app_assoc. reflexivity.
Qed.

Lemma first_occs_nodup_first l : first_occs l = nodup_first [] l.
Proof. unfold first_occs. rewrite dedup_into_nodup_first. reflexivity. Qed.

(** [canon_first_occurrence]: a successful canonicalization returns, for the value [r]
    obtained by resolving [t] through the table, the representatives of the unbound classes
    in order of first occurrence (with the kind of that occurrence), their universes as
    binders, and [r] with every inference variable replaced by the bound variable whose index
    is the position of its class in that list. *)
Lemma canon_first_occurrence_lemma : forall fuel T t bs v fr,
  canonicalize fuel T t = Done ((bs, v), fr) ->
  exists r, resolve fuel T 0 t = Done r /\ nofree 0 r = true
            /\ fr = nodup_first [] (occs r) /\ NoDup (map snd fr)
            /\ bs = binders_of T fr /\ v = replace fr 0 r.
Proof.
  intros fuel T t bs v fr. unfold canonicalize.
  destruct (canon_go fuel T 0 t []) as [[t' fv'] | |] eqn:E; cbn [obind]; try discriminate.
  cbn [fst snd]. intros H; inversion H; subst.
  destruct (canon_go_sound _ _ _ _ _ _ _ E) as (r & Hr & Hn & Hf & Ht).
  exists r. repeat split; try assumption.
  - rewrite Hf. apply first_occs_nodup_first.
  - rewrite Hf. apply dedup_into_nodup. constructor.
Qed.

(** conversely, whenever resolution succeeds and leaves no free bound variable,
    canonicalization succeeds *)
Lemma canonicalize_complete : forall fuel T t r,
  resolve fuel T 0 t = Done r -> nofree 0 r = true ->
  canonicalize fuel T t
  = Done ((binders_of T (first_occs (occs r)), replace (first_occs (occs r)) 0 r), first_occs (occs r)).
Proof.
  intros fuel T t r Hr Hn. unfold canonicalize. rewrite (canon_go_complete _ _ _ _ [] _ Hr Hn). reflexivity.
Qed.

(** ** Renamings of unbound classes *)

Fixpoint rename (p : N -> N) (t : tm) : tm :=
  match t with
  | Var _ _ _ | CVar _ _ _ => t
  | Node h cs =>
      match infer_of h with
      | Some (v, _) => Node (set_var h (p v)) cs
      | None => if const_head h then t else Node h (map (rename p) cs)
      end
  end.

Definition pmap (p : N -> N) (l : fvs) : fvs := map (fun kv => (fst kv, p (snd kv))) l.

Definition inj_on (p : N -> N) (l : list N) : Prop :=
  forall a b, In a l -> In b l -> p a = p b -> a = b.

Lemma occs_rename p : forall r, occs (rename p r) = pmap p (occs r).
Proof.
  induction r as [s d i | d i ct _ | h cs IH] using tm_ind'; cbn [rename occs pmap map]; try reflexivity.
  destruct (infer_of h) as [[v vk] |] eqn:Ei.
  - cbn [occs]. rewrite (infer_of_set_var _ _ _ (p v) Ei). reflexivity.
  - destruct (const_head h) eqn:Ec; cbn [occs]; rewrite Ei, Ec; [reflexivity |].
    unfold pmap. rewrite flat_map_concat_map, flat_map_concat_map, concat_map, map_map, map_map. f_equal.
    apply map_ext_in. intros x Hx. rewrite Forall_forall in IH. apply IH. assumption.
Qed.

Lemma nofree_rename p : forall r k, nofree k (rename p r) = nofree k r.
Proof.
  induction r as [s d i | d i ct _ | h cs IH] using tm_ind'; intros k; cbn [rename nofree]; try reflexivity.
  destruct (infer_of h) as [[v vk] |] eqn:Ei.
  - cbn [nofree]. rewrite (infer_of_set_var _ _ _ (p v) Ei). reflexivity.
  - destruct (const_head h) eqn:Ec; cbn [nofree]; rewrite Ei, Ec; [reflexivity |].
    apply forallb_map_ext. intros x Hx. rewrite Forall_forall in IH. apply IH. assumption.
Qed.

Lemma index_of_pmap p v F : (forall w, In w (map snd F) -> p v = p w -> v = w) ->
  index_of (p v) (pmap p F) = index_of v F.
Proof.
  induction F as [| [vk w] F IH]; cbn [pmap map index_of fst snd]; intros H; [reflexivity |].
  destruct (N.eqb_spec v w) as [-> | Hne].
  - rewrite N.eqb_refl. reflexivity.
  - destruct (N.eqb_spec (p v) (p w)) as [E | _].
    + exfalso. apply Hne. apply H; [left; reflexivity | assumption].
    + fold (pmap p F). rewrite IH; [reflexivity |]. intros w' Hw'. apply H. right. assumption.
Qed.

Lemma pmap_app p F G : pmap p (F ++ G) = pmap p F ++ pmap p G.
Proof. unfold pmap. apply map_app. Qed.

Lemma dedup_into_pmap p l : forall F, inj_on p (map snd F ++ map snd l) ->
  dedup_into (pmap p F) (pmap p l) = pmap p (dedup_into F l).
Proof.
  induction l as [| [vk v] l IH]; intros F Hinj; cbn [pmap map dedup_into fold_left fst snd]; [reflexivity |].
  fold (pmap p l). fold (pmap p F). fold (dedup_into (snd (add vk (p v) (pmap p F))) (pmap p l)).
  fold (dedup_into (snd (add vk v F)) l).
  assert (Ei : index_of (p v) (pmap p F) = index_of v F).
  { apply index_of_pmap. intros w Hw E. apply Hinj; [| | assumption].
    - apply in_app_iff. right. left. reflexivity.
    - apply in_app_iff. left. assumption. }
  unfold add. rewrite Ei. destruct (index_of v F) eqn:E; cbn [snd].
  - apply IH. intros a b Ha Hb. apply Hinj; rewrite in_app_iff in *; cbn [map snd In]; tauto.
  - replace (pmap p F ++ [(vk, p v)]) with (pmap p (F ++ [(vk, v)])) by (rewrite pmap_app; reflexivity).
    apply IH. intros a b Ha Hb. apply Hinj; rewrite map_app in *; rewrite !in_app_iff in *; cbn [map snd In] in *; tauto.
Qed.

Lemma replace_rename p : forall r F k,
  (forall v w, In v (map snd (occs r)) -> In w (map snd F) -> p v = p w -> v = w) ->
  replace (pmap p F) k (rename p r) = replace F k r.
Proof.
  induction r as [s d i | d i ct _ | h cs IH] using tm_ind'; intros F k H; cbn [rename replace]; try reflexivity.
  destruct (infer_of h) as [[v vk] |] eqn:Ei.
  - cbn [replace]. rewrite (infer_of_set_var _ _ _ (p v) Ei). unfold pos_of.
    rewrite index_of_pmap; [reflexivity |]. intros w Hw. apply H; [| assumption].
    cbn [occs]. rewrite Ei. left. reflexivity.
  - destruct (const_head h) eqn:Ec; cbn [replace]; rewrite Ei, Ec; [reflexivity |].
    f_equal. rewrite map_map. apply map_ext_in. intros x Hx. rewrite Forall_forall in IH.
    apply IH; [assumption |]. intros v w Hv Hw. apply H; [| assumption].
    cbn [occs]. rewrite Ei, Ec. rewrite in_map_iff in *. destruct Hv as (kv & E & Hkv).
    exists kv. split; [assumption |]. apply in_flat_map. exists x. split; assumption.
Qed.

Lemma first_occs_vars l kv : In kv (first_occs l) -> In kv l.
Proof. intros H. apply dedup_into_incl in H. destruct H as [[] | H]; assumption. Qed.

(** renamed values have the same canonical form *)
Lemma canon_renaming_complete : forall T1 T2 p r,
  inj_on p (map snd (occs r)) ->
  (forall v, In v (map snd (occs r)) -> universe_of T2 (p v) = universe_of T1 v) ->
  binders_of T2 (first_occs (occs (rename p r))) = binders_of T1 (first_occs (occs r))
  /\ replace (first_occs (occs (rename p r))) 0 (rename p r) = replace (first_occs (occs r)) 0 r.
Proof.
  intros T1 T2 p r Hinj Hu.
  assert (EF : first_occs (occs (rename p r)) = pmap p (first_occs (occs r))).
  { rewrite occs_rename. unfold first_occs. change (@nil (vkind * N)) with (pmap p []) at 1.
    apply dedup_into_pmap. exact Hinj. }
  rewrite EF. split.
  - unfold binders_of, pmap. rewrite map_map. apply map_ext_in. intros [vk v] Hin. cbn [fst snd].
    f_equal. apply Hu. apply in_map_iff. exists (vk, v). split; [reflexivity |]. apply first_occs_vars. assumption.
  - apply replace_rename. intros v w Hv Hw. apply Hinj; [assumption |].
    apply in_map_iff in Hw. destruct Hw as (kv & E & Hkv). apply in_map_iff. exists kv. split; [assumption |].
    apply first_occs_vars. assumption.
Qed.

(** ** Instantiation with fresh inference variables *)

Definition infer_node (vk : vkind) (v : N) (cty : tm) : tm :=
  match vk with
  | VTy tk => Node (HInfer v tk) []
  | VLt => Node (HLInfer v) []
  | VConst => Node (HCInfer v) [cty]
  end.

(** [fresh_subst(binders).apply(value)] with [F] the fresh variables (kind of the binder,
    variable): [SubstFolder] asserts that every free variable belongs to the innermost
    binder, indexes the substitution and asserts the kind of the parameter.  (The type of a
    const parameter is taken from the occurrence; chalk takes it from the binder kind — both
    are [usize] in ChalkIr.)  Inference variables carry no bound variables, so no shifting is
    involved. *)
Fixpoint inst (F : fvs) (k : N) (t : tm) : res tm :=
  match t with
  | Var s d i =>
      if k <=? d then
        if d =? k then
          match nth_error F (N.to_nat i) with
          | None => Panic IndexOutOfBounds
          | Some (vk, v) => if kind_eqb (vk_kind vk) (sort_kind s) then Ok (infer_node vk v usize_ty) else Panic MismatchedKinds
          end
        else Panic AssertFailed
      else Ok t
  | CVar d i c =>
      if k <=? d then
        if d =? k then
          match nth_error F (N.to_nat i) with
          | None => Panic IndexOutOfBounds
          | Some (vk, v) => if kind_eqb (vk_kind vk) KConst then Ok (infer_node vk v c) else Panic MismatchedKinds
          end
        else Panic AssertFailed
      else Ok t
  | Node h cs => if leaf_head h then Ok t else rbind (rmap (inst F (under h k)) cs) (fun cs' => Ok (Node h cs'))
  end.

(** fresh variables [n, n+1, ...] for the binders, and their table entries *)
Fixpoint fresh_from (n : N) (bs : list (vkind * N)) : fvs * table :=
  match bs with
  | [] => ([], [])
  | (vk, u) :: r => let FE := fresh_from (N.succ n) r in ((vk, n) :: fst FE, (n, Unbound u) :: snd FE)
  end.

(** [InferenceTable::instantiate_canonical] *)
Definition instantiate_canonical (T : table) (c : canonical) : res (table * tm) :=
  let FE := fresh_from (N.of_nat (length T)) (fst c) in
  rbind (inst (fst FE) 0 (snd c)) (fun t => Ok (T ++ snd FE, t)).

(** inference-variable nodes have the shape the real syntax enforces *)
Fixpoint shapes_ok (t : tm) : bool :=
  match t with
  | Var _ _ _ | CVar _ _ _ => true
  | Node h cs =>
      match infer_of h with
      | Some (_, VConst) => match cs with [_] => true | _ => false end
      | Some (_, _) => match cs with [] => true | _ => false end
      | None => if const_head h then true else forallb shapes_ok cs
      end
  end.

(** every variable is used at one kind *)
Definition kinds_consistent (l : fvs) : Prop :=
  forall vk1 vk2 v, In (vk1, v) l -> In (vk2, v) l -> vk1 = vk2.

Lemma index_of_nth_nodup F : NoDup (map snd F) -> forall i vk v, nth_error F i = Some (vk, v) -> index_of v F = Some i.
Proof.
  induction F as [| [vk0 w] F IH]; intros Hn i vk v H; [destruct i; discriminate |].
  cbn [map snd] in Hn. apply NoDup_cons_iff in Hn. destruct Hn as [Hni Hnd].
  cbn [index_of]. destruct i as [| i]; cbn [nth_error] in H.
  - inversion H; subst. rewrite N.eqb_refl. reflexivity.
  - destruct (N.eqb_spec v w) as [-> | Hne].
    + exfalso. apply Hni. apply in_map_iff. exists (vk, w). split; [reflexivity |]. eapply nth_error_In. eassumption.
    + rewrite (IH Hnd _ _ _ H). reflexivity.
Qed.

(** instantiating the canonical value with the collected variables gives the resolved value back *)
Lemma inst_replace : forall r F k, nofree k r = true -> shapes_ok r = true ->
  (forall vk v, In (vk, v) (occs r) -> exists i, index_of v F = Some i /\ nth_error F i = Some (vk, v)) ->
  inst F k (replace F k r) = Ok r.
Proof.
  induction r as [s d i | d i ct _ | h cs IH] using tm_ind'; intros F k Hn Hs Ho; cbn [nofree shapes_ok replace occs] in *.
  - apply N.ltb_lt in Hn. cbn [inst]. destruct (N.leb_spec k d); [lia | reflexivity].
  - apply N.ltb_lt in Hn. cbn [inst]. destruct (N.leb_spec k d); [lia | reflexivity].
  - destruct (infer_of h) as [[v vk] |] eqn:Ei.
    + destruct (Ho vk v (or_introl eq_refl)) as (i & Hi & Hnth). unfold pos_of. rewrite Hi.
      destruct h; cbn in Ei; try discriminate; inversion Ei; subst; cbn [mk_bound inst].
      * destruct cs; [| discriminate]. destruct (N.leb_spec k k); [| lia]. rewrite N.eqb_refl, Nat2N.id, Hnth. reflexivity.
      * destruct cs; [| discriminate]. destruct (N.leb_spec k k); [| lia]. rewrite N.eqb_refl, Nat2N.id, Hnth. reflexivity.
      * destruct cs as [| c [| c' cs']]; try discriminate. destruct (N.leb_spec k k); [| lia].
        rewrite N.eqb_refl, Nat2N.id, Hnth. reflexivity.
    + destruct (const_head h) eqn:Ec; cbn [inst]; unfold leaf_head; rewrite Ei, Ec; [reflexivity |].
      rewrite rmap_map. rewrite (rmap_ok _ cs cs); [reflexivity |].
      rewrite forallb_forall in Hn, Hs. clear - IH Hn Hs Ho.
      induction cs as [| x l IHl]; [constructor |]. inversion IH; subst. constructor.
      * apply H1; [apply Hn; left; reflexivity | apply Hs; left; reflexivity |].
        intros vk v Hin. apply Ho. cbn [flat_map]. apply in_app_iff. left. assumption.
      * apply IHl; [assumption | intros y Hy; apply Hn; right; assumption | intros y Hy; apply Hs; right; assumption |].
        intros vk v Hin. apply Ho. cbn [flat_map]. apply in_app_iff. right. assumption.
Qed.

Lemma occs_replace F : forall r k, occs (replace F k r) = [].
Proof.
  induction r as [s d i | d i ct _ | h cs IH] using tm_ind'; intros k; cbn [replace occs]; try reflexivity.
  destruct (infer_of h) as [[v vk] |] eqn:Ei.
  - destruct vk; reflexivity.
  - destruct (const_head h) eqn:Ec; cbn [occs]; rewrite Ei, Ec; [reflexivity |].
    rewrite flat_map_concat_map, map_map. rewrite Forall_forall in IH.
    induction cs as [| x l IHl]; [reflexivity |]. cbn [map concat]. rewrite IH by (left; reflexivity).
    apply IHl. intros y Hy. apply IH. right. assumption.
Qed.

(** the renaming between two lists of variables, position by position *)
Definition pi (F1 F2 : fvs) (x : N) : N :=
  match index_of x F1 with
  | Some i => match nth_error F2 i with Some (_, w) => w | None => x end
  | None => x
  end.

Lemma map_fst_nth (F1 F2 : fvs) i vk v : map fst F1 = map fst F2 -> nth_error F1 i = Some (vk, v) ->
  exists w, nth_error F2 i = Some (vk, w).
Proof.
  intros E H. assert (H1 : nth_error (map fst F1) i = Some vk) by (rewrite nth_error_map, H; reflexivity).
  rewrite E, nth_error_map in H1. destruct (nth_error F2 i) as [[vk' w] |]; [| discriminate].
  inversion H1; subst. eauto.
Qed.

(** instantiating with another list of variables of the same kinds gives the renamed value *)
Lemma inst_transfer : forall t F1 F2 k a, inst F1 k t = Ok a -> map fst F1 = map fst F2 ->
  NoDup (map snd F1) -> occs t = [] -> inst F2 k t = Ok (rename (pi F1 F2) a).
Proof.
  induction t as [s d i | d i ct _ | h cs IH] using tm_ind'; intros F1 F2 k a H E Hn Ho; cbn [inst] in *.
  - destruct (k <=? d); [| inversion H; subst; reflexivity].
    destruct (d =? k); [| discriminate].
    destruct (nth_error F1 (N.to_nat i)) as [[vk v] |] eqn:E1; [| discriminate].
    destruct (map_fst_nth _ _ _ _ _ E E1) as [w E2]. rewrite E2.
    destruct (kind_eqb (vk_kind vk) (sort_kind s)); [| discriminate]. inversion H; subst.
    f_equal. unfold pi. destruct vk; cbn [infer_node rename infer_of set_var];
      rewrite (index_of_nth_nodup _ Hn _ _ _ E1), E2; reflexivity.
  - destruct (k <=? d); [| inversion H; subst; reflexivity].
    destruct (d =? k); [| discriminate].
    destruct (nth_error F1 (N.to_nat i)) as [[vk v] |] eqn:E1; [| discriminate].
    destruct (map_fst_nth _ _ _ _ _ E E1) as [w E2]. rewrite E2.
    destruct (kind_eqb (vk_kind vk) KConst); [| discriminate]. inversion H; subst.
    f_equal. unfold pi. destruct vk; cbn [infer_node rename infer_of set_var];
      rewrite (index_of_nth_nodup _ Hn _ _ _ E1), E2; reflexivity.
  - cbn [occs] in Ho. unfold leaf_head in *. destruct (infer_of h) as [[v vk] |] eqn:Ei; [discriminate |].
    destruct (const_head h) eqn:Ec.
    + inversion H; subst. cbn [rename]. rewrite Ei, Ec. reflexivity.
    + destruct (rmap (inst F1 (under h k)) cs) as [cs1 |] eqn:Er; cbn [rbind] in H; [| discriminate].
      inversion H; subst. cbn [rename]. rewrite Ei, Ec.
      assert (L : rmap (inst F2 (under h k)) cs = Ok (map (rename (pi F1 F2)) cs1)).
      { clear H. revert cs1 Er. induction cs as [| x l IHl]; intros cs1 Er; cbn [rmap] in *.
        - inversion Er; subst. reflexivity.
        - destruct (inst F1 (under h k) x) as [x1 |] eqn:Ex; cbn [rbind] in Er; [| discriminate].
          destruct (rmap (inst F1 (under h k)) l) as [l1 |] eqn:El; cbn [rbind] in Er; [| discriminate].
          inversion Er; subst. inversion IH; subst. cbn [flat_map] in Ho. apply app_eq_nil in Ho. destruct Ho as [Hox Hol].
          rewrite (H1 _ _ _ _ Ex E Hn Hox). cbn [rbind]. rewrite (IHl H2 Hol _ eq_refl). reflexivity. }
      rewrite L. reflexivity.
Qed.

Lemma occs_first_nth r : kinds_consistent (occs r) -> forall vk v, In (vk, v) (occs r) ->
  exists i, index_of v (first_occs (occs r)) = Some i /\ nth_error (first_occs (occs r)) i = Some (vk, v).
Proof.
  intros Hc vk v Hin. destruct (dedup_into_has (occs r) [] vk v Hin) as [i Hi]. fold (first_occs (occs r)) in Hi.
  exists i. split; [assumption |]. destruct (index_of_nth _ _ _ Hi) as [vk' Hn]. rewrite Hn. f_equal. f_equal.
  apply (Hc vk' vk v); [| assumption]. apply first_occs_vars. eapply nth_error_In. eassumption.
Qed.

Lemma first_occs_nodup l : NoDup (map snd (first_occs l)).
Proof. apply dedup_into_nodup. constructor. Qed.

Lemma resolved_inst r : nofree 0 r = true -> shapes_ok r = true -> kinds_consistent (occs r) ->
  inst (first_occs (occs r)) 0 (replace (first_occs (occs r)) 0 r) = Ok r.
Proof. intros Hn Hs Hc. apply inst_replace; try assumption. apply occs_first_nth. assumption. Qed.

Lemma map_fst_binders_of T F : map fst (binders_of T F) = map fst F.
Proof. unfold binders_of. rewrite map_map. reflexivity. Qed.

Lemma nth_binders_of T F i vk v : nth_error F i = Some (vk, v) -> nth_error (binders_of T F) i = Some (vk, universe_of T v).
Proof. intros H. unfold binders_of. rewrite nth_error_map, H. reflexivity. Qed.

(** values with the same canonical form differ by a renaming *)
Lemma canon_renaming_sound : forall T1 T2 r1 r2,
  nofree 0 r1 = true -> shapes_ok r1 = true -> kinds_consistent (occs r1) ->
  nofree 0 r2 = true -> shapes_ok r2 = true -> kinds_consistent (occs r2) ->
  binders_of T1 (first_occs (occs r1)) = binders_of T2 (first_occs (occs r2)) ->
  replace (first_occs (occs r1)) 0 r1 = replace (first_occs (occs r2)) 0 r2 ->
  exists p, inj_on p (map snd (occs r1)) /\ rename p r1 = r2
            /\ forall v, In v (map snd (occs r1)) -> universe_of T2 (p v) = universe_of T1 v.
Proof.
  intros T1 T2 r1 r2 Hn1 Hs1 Hc1 Hn2 Hs2 Hc2 Eb Ev.
  set (F1 := first_occs (occs r1)) in *. set (F2 := first_occs (occs r2)) in *.
  assert (Ef : map fst F1 = map fst F2) by (rewrite <- (map_fst_binders_of T1 F1), Eb; apply map_fst_binders_of).
  assert (Key : forall v, In v (map snd (occs r1)) -> exists i vk w,
             index_of v F1 = Some i /\ nth_error F1 i = Some (vk, v) /\ nth_error F2 i = Some (vk, w) /\ pi F1 F2 v = w).
  { intros v Hv. apply in_map_iff in Hv. destruct Hv as ([vk v'] & E & Hin). cbn [snd] in E. subst v'.
    destruct (occs_first_nth r1 Hc1 vk v Hin) as (i & Hi & Hnth). fold F1 in Hi, Hnth.
    destruct (map_fst_nth _ _ _ _ _ Ef Hnth) as [w Hw]. exists i, vk, w. repeat split; try assumption.
    unfold pi. rewrite Hi, Hw. reflexivity. }
  exists (pi F1 F2). split; [| split].
  - intros a b Ha Hb E. destruct (Key a Ha) as (i & vka & wa & Hia & Hna & Hwa & Hpa).
    destruct (Key b Hb) as (j & vkb & wb & Hib & Hnb & Hwb & Hpb).
    rewrite Hpa, Hpb in E. subst wb.
    pose proof (index_of_nth_nodup F2 (first_occs_nodup _) _ _ _ Hwa) as X1.
    pose proof (index_of_nth_nodup F2 (first_occs_nodup _) _ _ _ Hwb) as X2.
    rewrite X1 in X2. inversion X2; subst. rewrite Hna in Hnb. inversion Hnb. reflexivity.
  - pose proof (resolved_inst r1 Hn1 Hs1 Hc1) as I1. fold F1 in I1.
    pose proof (resolved_inst r2 Hn2 Hs2 Hc2) as I2. fold F2 in I2.
    pose proof (inst_transfer _ _ F2 _ _ I1 Ef (first_occs_nodup _) (occs_replace _ _ _)) as I3.
    rewrite Ev, I2 in I3. inversion I3. reflexivity.
  - intros v Hv. destruct (Key v Hv) as (i & vk & w & Hi & Hn & Hw & Hp). rewrite Hp.
    pose proof (nth_binders_of T1 _ _ _ _ Hn) as B1. pose proof (nth_binders_of T2 _ _ _ _ Hw) as B2.
    rewrite Eb, B2 in B1. inversion B1. reflexivity.
Qed.

(** *** Instantiate, then canonicalize again *)

Lemma fresh_from_spec : forall bs n i vk u, nth_error bs i = Some (vk, u) ->
  nth_error (fst (fresh_from n bs)) i = Some (vk, n + N.of_nat i)
  /\ nth_error (snd (fresh_from n bs)) i = Some (n + N.of_nat i, Unbound u).
Proof.
  induction bs as [| [vk0 u0] bs IH]; intros n i vk u H; [destruct i; discriminate |].
  cbn [fresh_from fst snd]. destruct i as [| i]; cbn [nth_error] in *.
  - inversion H; subst. rewrite N.add_0_r. split; reflexivity.
  - destruct (IH (N.succ n) i vk u H) as [H1 H2]. rewrite H1, H2.
    replace (N.succ n + N.of_nat i) with (n + N.of_nat (S i)) by lia. split; reflexivity.
Qed.

Lemma fresh_from_fst : forall bs n, map fst (fst (fresh_from n bs)) = map fst bs.
Proof.
  induction bs as [| [vk u] bs IH]; intros n; cbn [fresh_from fst snd map]; [reflexivity |].
  rewrite IH. reflexivity.
Qed.

Lemma resolve_in_roots rec_r T : forall t k,
  (forall vk v, In (vk, v) (occs t) -> exists u, lookup T v = Some (v, Unbound u)) ->
  resolve_in rec_r T k t = Done t.
Proof.
  induction t as [s d i | d i ct _ | h cs IH] using tm_ind'; intros k H; cbn [resolve_in occs] in *; try reflexivity.
  destruct (infer_of h) as [[v vk] |] eqn:Ei.
  - destruct (H vk v (or_introl eq_refl)) as [u Hu]. rewrite Hu.
    destruct h; cbn in Ei; try discriminate; inversion Ei; subst; reflexivity.
  - destruct (const_head h); [reflexivity |].
    assert (L : omapM (resolve_in rec_r T (under h k)) cs = Done cs).
    { clear - IH H. induction cs as [| x l IHl]; [reflexivity |]. inversion IH; subst. cbn [omapM].
      rewrite H2 by (intros vk v Hin; apply (H vk v); cbn [flat_map]; apply in_app_iff; left; assumption).
      cbn [obind]. rewrite IHl; [reflexivity | assumption |].
      intros vk v Hin. apply (H vk v). cbn [flat_map]. apply in_app_iff. right. assumption. }
    rewrite L. reflexivity.
Qed.

Lemma resolve_roots fuel T t k :
  (forall vk v, In (vk, v) (occs t) -> exists u, lookup T v = Some (v, Unbound u)) ->
  resolve fuel T k t = Done t.
Proof. intros H. destruct fuel; cbn [resolve]; apply resolve_in_roots; assumption. Qed.

(** [canon_instantiate_canon]: instantiating a canonical form with fresh variables and
    canonicalizing the result (with any fuel: fresh variables are unbound) gives the same
    canonical form. *)
Lemma canon_instantiate_canon_lemma : forall fuel T t c fr r,
  canonicalize fuel T t = Done (c, fr) -> resolve fuel T 0 t = Done r ->
  shapes_ok r = true -> kinds_consistent (occs r) ->
  exists T' t2, instantiate_canonical T c = Ok (T', t2)
                /\ forall fuel2, exists fr2, canonicalize fuel2 T' t2 = Done (c, fr2).
Proof.
  intros fuel T t [bs cv] fr r Hc Hr Hs Hk.
  destruct (canon_first_occurrence_lemma _ _ _ _ _ _ Hc) as (r' & Hr' & Hn & Hf & Hnd & Hb & Hcv).
  rewrite Hr in Hr'. inversion Hr'; subst r'. rewrite <- first_occs_nodup_first in Hf.
  set (F := first_occs (occs r)) in *. subst fr.
  set (n := N.of_nat (length T)).
  set (FE := fresh_from n bs).
  assert (Ef : map fst F = map fst (fst FE)).
  { unfold FE. rewrite fresh_from_fst, Hb, map_fst_binders_of. reflexivity. }
  pose proof (resolved_inst r Hn Hs Hk) as I1. fold F in I1.
  pose proof (inst_transfer _ _ (fst FE) _ _ I1 Ef (first_occs_nodup _) (occs_replace _ _ _)) as I2.
  set (p := pi F (fst FE)) in *.
  exists (T ++ snd FE), (rename p r). split.
  - unfold instantiate_canonical. cbn [fst snd]. fold n. fold FE. rewrite Hcv, I2. reflexivity.
  - assert (Key : forall vk v, In (vk, v) (occs r) ->
               exists i, index_of v F = Some i /\ p v = n + N.of_nat i
                         /\ lookup (T ++ snd FE) (p v) = Some (p v, Unbound (universe_of T v))).
    { intros vk v Hin. destruct (occs_first_nth r Hk vk v Hin) as (i & Hi & Hnth). fold F in Hi, Hnth.
      pose proof (nth_binders_of T _ _ _ _ Hnth) as B. rewrite <- Hb in B.
      destruct (fresh_from_spec bs n i _ _ B) as [S1 S2]. fold FE in S1, S2.
      assert (Ep : p v = n + N.of_nat i) by (unfold p, pi; rewrite Hi, S1; reflexivity).
      exists i. split; [assumption |]. split; [assumption |]. rewrite Ep. unfold lookup.
      replace (N.to_nat (n + N.of_nat i)) with (length T + i)%nat by (unfold n; lia).
      rewrite nth_error_app2 by lia. replace (length T + i - length T)%nat with i by lia. assumption. }
    assert (Hinj : inj_on p (map snd (occs r))).
    { intros a b Ha Hb' E. apply in_map_iff in Ha. destruct Ha as ([vka a'] & Ea & Ha). cbn [snd] in Ea. subst a'.
      apply in_map_iff in Hb'. destruct Hb' as ([vkb b'] & Eb' & Hb'). cbn [snd] in Eb'. subst b'.
      destruct (Key _ _ Ha) as (i & Hi & Hpi & _). destruct (Key _ _ Hb') as (j & Hj & Hpj & _).
      rewrite Hpi, Hpj in E. assert (i = j) by lia. subst j.
      destruct (index_of_nth _ _ _ Hi) as [k1 N1]. destruct (index_of_nth _ _ _ Hj) as [k2 N2].
      rewrite N1 in N2. inversion N2. reflexivity. }
    assert (Hu : forall v, In v (map snd (occs r)) -> universe_of (T ++ snd FE) (p v) = universe_of T v).
    { intros v Hv'. apply in_map_iff in Hv'. destruct Hv' as ([vk v'] & E & Hin). cbn [snd] in E. subst v'.
      destruct (Key _ _ Hin) as (i & _ & _ & Hl). unfold universe_of at 1. rewrite Hl. reflexivity. }
    intros fuel2. eexists.
    rewrite (canonicalize_complete fuel2 (T ++ snd FE) (rename p r) (rename p r)).
    + destruct (canon_renaming_complete T (T ++ snd FE) p r Hinj Hu) as [E1 E2].
      rewrite E1, E2, Hb, Hcv. reflexivity.
    + apply resolve_roots. intros vk w Hin. rewrite occs_rename in Hin. unfold pmap in Hin.
      apply in_map_iff in Hin. destruct Hin as ([vk' v'] & E & Hin). cbn [fst snd] in E. inversion E; subst.
      destruct (Key _ _ Hin) as (i & _ & _ & Hl). eauto.
    + rewrite nofree_rename. assumption.
Qed.

(** ** The property theorems of C16 about canonical forms *)

(** [r1] (read in table [T1]) and [r2] (in [T2]) differ by a bijective renaming of their
    unbound classes that preserves universes (kinds are preserved by [rename]: only the
    variable of an inference node changes). *)
Definition renaming (T1 T2 : table) (r1 r2 : tm) : Prop :=
  exists p, inj_on p (map snd (occs r1)) /\ rename p r1 = r2
            /\ forall v, In v (map snd (occs r1)) -> universe_of T2 (p v) = universe_of T1 v.

(** inference nodes are well-formed and every variable is used at a single kind *)
Definition well_kinded_infer (r : tm) : Prop := shapes_ok r = true /\ kinds_consistent (occs r).

Lemma canon_iff_renaming_lemma : forall f1 f2 T1 T2 t1 t2 c1 c2 fr1 fr2 r1 r2,
  canonicalize f1 T1 t1 = Done (c1, fr1) -> canonicalize f2 T2 t2 = Done (c2, fr2) ->
  resolve f1 T1 0 t1 = Done r1 -> resolve f2 T2 0 t2 = Done r2 ->
  well_kinded_infer r1 -> well_kinded_infer r2 ->
  (c1 = c2 <-> renaming T1 T2 r1 r2).
Proof.
  intros f1 f2 T1 T2 t1 t2 [b1 v1] [b2 v2] fr1 fr2 r1 r2 H1 H2 R1 R2 [S1 K1] [S2 K2].
  destruct (canon_first_occurrence_lemma _ _ _ _ _ _ H1) as (r1' & R1' & N1 & F1 & _ & B1 & V1).
  destruct (canon_first_occurrence_lemma _ _ _ _ _ _ H2) as (r2' & R2' & N2 & F2 & _ & B2 & V2).
  rewrite R1 in R1'. inversion R1'; subst r1'. rewrite R2 in R2'. inversion R2'; subst r2'.
  rewrite <- first_occs_nodup_first in F1, F2. subst fr1 fr2. split.
  - intros E. inversion E; subst. apply canon_renaming_sound; try assumption; congruence.
  - intros (p & Hinj & Hren & Hu). subst r2.
    destruct (canon_renaming_complete T1 T2 p r1 Hinj Hu) as [E1 E2]. rewrite B1, B2, V1, V2, E1, E2. reflexivity.
Qed.

(** *** The canonical value is closed under its binders *)

(** every free variable belongs to the binder at depth [k], with an index in range and the
    kind of its binder; no inference variable is left *)
Fixpoint closed_o (ks : list vkind) (k : N) (t : tm) : bool :=
  match t with
  | Var s d i =>
      if d <? k then true
      else if d =? k then match nth_error ks (N.to_nat i) with
                          | Some vk => kind_eqb (vk_kind vk) (sort_kind s)
                          | None => false
                          end
           else false
  | CVar d i _ =>
      if d <? k then true
      else if d =? k then match nth_error ks (N.to_nat i) with
                          | Some vk => kind_eqb (vk_kind vk) KConst
                          | None => false
                          end
           else false
  | Node h cs =>
      match infer_of h with
      | Some _ => false
      | None => if const_head h then true else forallb (closed_o ks (under h k)) cs
      end
  end.

Lemma closed_replace : forall r F k, nofree k r = true ->
  (forall vk v, In (vk, v) (occs r) -> exists i, index_of v F = Some i /\ nth_error F i = Some (vk, v)) ->
  closed_o (map fst F) k (replace F k r) = true.
Proof.
  induction r as [s d i | d i ct _ | h cs IH] using tm_ind'; intros F k Hn Ho; cbn [nofree replace occs] in *.
  - cbn [closed_o]. rewrite Hn. reflexivity.
  - cbn [closed_o]. rewrite Hn. reflexivity.
  - destruct (infer_of h) as [[v vk] |] eqn:Ei.
    + destruct (Ho vk v (or_introl eq_refl)) as (i & Hi & Hnth). unfold pos_of. rewrite Hi.
      destruct vk; cbn [mk_bound closed_o]; rewrite N.ltb_irrefl, N.eqb_refl, Nat2N.id, nth_error_map, Hnth; reflexivity.
    + destruct (const_head h) eqn:Ec; cbn [closed_o]; rewrite Ei, Ec; [reflexivity |].
      apply forallb_forall. intros y Hy. apply in_map_iff in Hy. destruct Hy as (x & <- & Hx).
      rewrite Forall_forall in IH. apply IH; [assumption | |].
      * rewrite forallb_forall in Hn. apply Hn. assumption.
      * intros vk v Hin. apply Ho. apply in_flat_map. exists x. split; assumption.
Qed.

(** [canon_closed]: the canonical value has no inference variables and no variables free
    beyond its own binders, every variable has the kind of its binder, and there is exactly
    one binder per unbound class occurring in the (resolved) value. *)
Lemma canon_closed_lemma : forall fuel T t bs v fr r,
  canonicalize fuel T t = Done ((bs, v), fr) -> resolve fuel T 0 t = Done r -> kinds_consistent (occs r) ->
  closed_o (map fst bs) 0 v = true
  /\ length bs = length fr /\ NoDup (map snd fr)
  /\ (forall x, In x (map snd fr) <-> In x (map snd (occs r))).
Proof.
  intros fuel T t bs v fr r Hc Hr Hk.
  destruct (canon_first_occurrence_lemma _ _ _ _ _ _ Hc) as (r' & Hr' & Hn & Hf & Hnd & Hb & Hv).
  rewrite Hr in Hr'. inversion Hr'; subst r'. rewrite <- first_occs_nodup_first in Hf. subst fr.
  split; [| split; [| split]].
  - rewrite Hb, Hv, map_fst_binders_of. apply closed_replace; [assumption |]. apply occs_first_nth. assumption.
  - rewrite Hb. unfold binders_of. apply map_length.
  - assumption.
  - intros x. split; intros H; apply in_map_iff in H; destruct H as ([vk y] & E & H); cbn [snd] in E; subst y.
    + apply in_map_iff. exists (vk, x). split; [reflexivity |]. apply first_occs_vars. assumption.
    + destruct (dedup_into_has (occs r) [] vk x H) as [i Hi]. destruct (index_of_nth _ _ _ Hi) as [vk' Hn'].
      apply in_map_iff. exists (vk', x). split; [reflexivity |]. eapply nth_error_In. eassumption.
Qed.

(** ** Non-vacuity *)

(** A table with seven variables: ?0 (U0) and ?5 (U1) unified (representative 5, universe 0);
    ?1 bound to [Adt1<?3, ?6>]; ?2 a lifetime in U2; ?3 an integer variable in U1; ?4 a const in U1;
    ?6 bound to [?2]-free [&'?2 ?0]. *)
Definition ex_table : table :=
  [ (5, Unbound 0); (1, Bound (Node (HAdt 1) [Node (HInfer 3 Integer) []; Node (HInfer 6 General) []]));
    (2, Unbound 2); (3, Unbound 1); (4, Unbound 1); (5, Unbound 0);
    (6, Bound (Node (HRef Not) [Node (HLInfer 2) []; Node (HInfer 0 General) []])) ].

(** [(?1, for<> fn(?0, ^1.0-free), [?3; ?4], !2_0, ?5)] with a binder and a placeholder *)
Definition ex_term : tm :=
  Node (HTuple 5)
    [ Node (HInfer 1 General) [];
      Node (HFnPtr 1 AbiRust Safe false) [Node (HInfer 1 General) []; Var STy 0 0];
      Node HArray [Node (HInfer 3 Integer) []; Node (HCInfer 4) [usize_ty]];
      Node (HPlaceholder 2 0) [];
      Node (HInfer 5 General) [] ].

Definition ex_resolved : tm :=
  Node (HTuple 5)
    [ Node (HAdt 1) [Node (HInfer 3 Integer) []; Node (HRef Not) [Node (HLInfer 2) []; Node (HInfer 5 General) []]];
      Node (HFnPtr 1 AbiRust Safe false)
        [Node (HAdt 1) [Node (HInfer 3 Integer) []; Node (HRef Not) [Node (HLInfer 2) []; Node (HInfer 5 General) []]]; Var STy 0 0];
      Node HArray [Node (HInfer 3 Integer) []; Node (HCInfer 4) [usize_ty]];
      Node (HPlaceholder 2 0) [];
      Node (HInfer 5 General) [] ].

Definition ex_canonical : canonical :=
  ([(VTy Integer, 1); (VLt, 2); (VTy General, 0); (VConst, 1)],
   Node (HTuple 5)
    [ Node (HAdt 1) [Var STy 0 0; Node (HRef Not) [Var SLt 0 1; Var STy 0 2]];
      Node (HFnPtr 1 AbiRust Safe false) [Node (HAdt 1) [Var STy 1 0; Node (HRef Not) [Var SLt 1 1; Var STy 1 2]]; Var STy 0 0];
      Node HArray [Var STy 0 0; CVar 0 3 usize_ty];
      Node (HPlaceholder 2 0) [];
      Var STy 0 2 ]).

Example canon_first_occurrence_nonvacuous :
  canonicalize 3 ex_table ex_term = Done (ex_canonical, [(VTy Integer, 3); (VLt, 2); (VTy General, 5); (VConst, 4)])
  /\ resolve 3 ex_table 0 ex_term = Done ex_resolved
  /\ canonicalize 1 ex_table ex_term = OutOfFuel.
Proof. repeat split; vm_compute; reflexivity. Qed.

Lemma ex_resolved_wk : well_kinded_infer ex_resolved.
Proof.
  split; [reflexivity |]. intros vk1 vk2 v H1 H2. vm_compute in H1, H2.
  repeat (destruct H1 as [H1 | H1]; [inversion H1; subst; clear H1;
      repeat (destruct H2 as [H2 | H2]; [inversion H2; subst; try reflexivity; try discriminate |]); try destruct H2 |]);
  destruct H1.
Qed.

(** the same value over another table, with the unbound classes renamed 3->0, 2->1, 5->2, 4->3 *)
Definition ex_table2 : table := [ (0, Unbound 1); (1, Unbound 2); (2, Unbound 0); (3, Unbound 1) ].
Definition ex_term2 : tm := rename (fun v => match v with 3 => 0 | 2 => 1 | 5 => 2 | 4 => 3 | _ => v end) ex_resolved.

Example canon_iff_renaming_nonvacuous :
  renaming ex_table ex_table2 ex_resolved ex_term2
  /\ canonicalize 0 ex_table2 ex_term2 = Done (ex_canonical, [(VTy Integer, 0); (VLt, 1); (VTy General, 2); (VConst, 3)])
  /\ fst (match canonicalize 3 ex_table (Node (HTuple 2) [Node (HInfer 3 Integer) []; Node (HInfer 5 General) []]) with Done x => x | _ => (([], Var STy 0 0), []) end)
     <> fst (match canonicalize 3 ex_table (Node (HTuple 2) [Node (HInfer 3 Integer) []; Node (HInfer 3 Integer) []]) with Done x => x | _ => (([], Var STy 0 0), []) end).
Proof.
  split; [| split; [vm_compute; reflexivity | vm_compute; intros H; discriminate H]].
  exists (fun v => match v with 3 => 0 | 2 => 1 | 5 => 2 | 4 => 3 | _ => v end). split; [| split; [reflexivity |]].
  - intros a b Ha Hb. vm_compute in Ha, Hb.
    repeat (destruct Ha as [Ha | Ha]; [subst a;
      repeat (destruct Hb as [Hb | Hb]; [subst b; intros E; try reflexivity; try discriminate E |]); try destruct Hb |]);
    destruct Ha.
  - intros v Hv. vm_compute in Hv. repeat (destruct Hv as [Hv | Hv]; [subst v; reflexivity |]). destruct Hv.
Qed.

Example canon_instantiate_canon_nonvacuous :
  exists T' t2, instantiate_canonical ex_table ex_canonical = Ok (T', t2)
                /\ t2 <> ex_resolved
                /\ canonicalize 0 T' t2 = Done (ex_canonical, [(VTy Integer, 7); (VLt, 8); (VTy General, 9); (VConst, 10)]).
Proof. eexists. eexists. split; [vm_compute; reflexivity |]. split; [intros H; discriminate H | vm_compute; reflexivity]. Qed.
