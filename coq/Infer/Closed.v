(** * Infer.Closed — relating variable-free types (property C29).

    For the property's fragment without unknowns — references, mutable references, raw pointers,
    slices, tuples, ADTs with declared variances, fn pointers without binders, scalars,
    placeholders; lifetimes ['static], placeholders, erased — [rel] never touches the table;
    it succeeds exactly when the lifetime-erased structures agree, and the goals it emits are
    exactly the requirements of [variance_constraints] (as a set: relating two fn pointers
    invariantly walks them twice). *)

From Coq Require Import Arith PeanoNat.
From Chalk Require Import Ir.Syntax Ir.Fold Infer.Table Infer.Unify Infer.Variance.

(** ** Monad equations *)

Lemma bind_done {A B} (m : M A) (f : A -> M B) t a t1 g1 :
  m t = (Done a, t1, g1) -> bind m f t = (let '(r, t2, g2) := f a t1 in (r, t2, g1 ++ g2)).
Proof. intros H. unfold bind. rewrite H. reflexivity. Qed.

Lemma bind_nosol {A B} (m : M A) (f : A -> M B) t t1 g1 :
  m t = (NoSol, t1, g1) -> bind m f t = (NoSol, t1, g1).
Proof. intros H. unfold bind. rewrite H. reflexivity. Qed.

Lemma bind_ret {A B} (a : A) (f : A -> M B) t : bind (ret a) f t = f a t.
Proof. unfold bind, ret. destruct (f a t) as [[r t2] g2]. reflexivity. Qed.

(** ** The fragment *)

Definition closed_lt (t : tm) : bool :=
  match t with
  | Node HLStatic [] | Node (HLPlaceholder _ _) [] | Node HLErased [] => true
  | _ => false
  end.

Section Fragment.
  Variable arity : N -> nat.

  Fixpoint cfrag (t : tm) : bool :=
    match t with
    | Node h cs =>
        match h with
        | HScalar _ | HStr | HNever | HForeign _ | HPlaceholder _ _ => match cs with [] => true | _ => false end
        | HRef _ => match cs with [l; x] => closed_lt l && cfrag x | _ => false end
        | HRaw _ | HSlice => match cs with [x] => cfrag x | _ => false end
        | HTuple n => Nat.eqb (length cs) (N.to_nat n) && forallb cfrag cs
        | HAdt id => Nat.eqb (length cs) (arity id) && forallb (fun c => closed_lt c || cfrag c) cs
        | HFnPtr n _ _ _ => (n =? 0) && negb (Nat.eqb (length cs) 0) && forallb cfrag cs
        | _ => false
        end
    | _ => false
    end.

  Definition cterm (t : tm) : bool := closed_lt t || cfrag t.
End Fragment.

(** Lifetime erasure *)
Fixpoint erase (t : tm) : tm :=
  match t with
  | Node h cs => if is_lifetime t then Node HLStatic [] else Node h (map erase cs)
  | _ => t
  end.

Fixpoint depth (t : tm) : nat :=
  match t with
  | Node _ cs => S (fold_right (fun c n => Nat.max (depth c) n) 0%nat cs)
  | CVar _ _ c => S (depth c)
  | Var _ _ _ => 1%nat
  end.

Definition seteq {A} (l1 l2 : list A) : Prop := forall x, In x l1 <-> In x l2.

Lemma seteq_refl {A} (l : list A) : seteq l l.
Proof. intros x. reflexivity. Qed.

Lemma seteq_sym {A} (l1 l2 : list A) : seteq l1 l2 -> seteq l2 l1.
Proof. intros H x. symmetry. apply H. Qed.

Lemma seteq_trans {A} (l1 l2 l3 : list A) : seteq l1 l2 -> seteq l2 l3 -> seteq l1 l3.
Proof. intros H1 H2 x. rewrite (H1 x). apply H2. Qed.

Lemma seteq_app {A} (l1 l2 l1' l2' : list A) : seteq l1 l1' -> seteq l2 l2' -> seteq (l1 ++ l2) (l1' ++ l2').
Proof. intros H1 H2 x. rewrite !in_app_iff, (H1 x), (H2 x). reflexivity. Qed.

Lemma seteq_app_comm {A} (l1 l2 : list A) : seteq (l1 ++ l2) (l2 ++ l1).
Proof. intros x. rewrite !in_app_iff. tauto. Qed.

Lemma seteq_map {A B} (f : A -> B) (l1 l2 : list A) : seteq l1 l2 -> seteq (map f l1) (map f l2).
Proof.
  intros H y. rewrite !in_map_iff. split; intros (x & E & I); exists x; (split; [exact E | apply H; exact I]).
Qed.

(** ** The specification, unfolded *)

Section Closed.
  Variable adt_var : N -> list variance.
  Variable fn_var : N -> list variance.
  Variable arity : N -> nat.

  Notation vc := (variance_constraints adt_var fn_var).
  Notation cfrag := (cfrag arity).
  Notation cterm := (cterm arity).

  Fixpoint vc_children (vf : nat -> variance) (i : nat) (l l' : list tm) : list (tm * tm) :=
    match l, l' with
    | x :: r, y :: r' => vc (vf i) x y ++ vc_children vf (S i) r r'
    | _, _ => []
    end.

  Lemma vc_node v ha ca hb cb :
    vc v (Node ha ca) (Node hb cb) =
    if is_lifetime (Node ha ca) then lifetime_requirements v (Node ha ca) (Node hb cb)
    else vc_children (fun i => xform v (position_variance adt_var fn_var ha (length ca) i)) 0 ca cb.
  Proof.
    cbn [variance_constraints]. destruct (is_lifetime (Node ha ca)); [reflexivity |].
    generalize (length ca) as n. generalize 0%nat as i. revert cb.
    induction ca as [| x r IH]; intros cb i n; destruct cb as [| y r']; cbn [vc_children]; try reflexivity.
    rewrite <- IH. reflexivity.
  Qed.

  Lemma vc_children_ext vf vf' i l l' :
    (forall j, (j < length l)%nat -> vf (i + j)%nat = vf' (i + j)%nat) -> vc_children vf i l l' = vc_children vf' i l l'.
  Proof.
    revert i l'. induction l as [| x r IH]; intros i l' H; destruct l' as [| y r']; cbn [vc_children]; try reflexivity.
    assert (E : vf i = vf' i). { specialize (H 0%nat). rewrite Nat.add_0_r in H. apply H. cbn [length]. lia. }
    rewrite E. f_equal.
    apply IH. intros j Hj. replace (S i + j)%nat with (i + S j)%nat by lia. apply H. cbn [length]. lia.
  Qed.

  Lemma vc_children_app vf : forall l1 l1' l2 l2' i, length l1 = length l1' ->
    vc_children vf i (l1 ++ l2) (l1' ++ l2') = vc_children vf i l1 l1' ++ vc_children vf (i + length l1) l2 l2'.
  Proof.
    induction l1 as [| x r IH]; intros l1' l2 l2' i Hl; destruct l1' as [| y r']; try discriminate Hl.
    - cbn [app length vc_children]. rewrite Nat.add_0_r. reflexivity.
    - cbn [app length vc_children]. rewrite IH by (cbn [length] in Hl; lia). rewrite <- app_assoc.
      replace (S i + length r)%nat with (i + S (length r))%nat by lia. reflexivity.
  Qed.

  Lemma lifetime_requirements_refl v a : lifetime_requirements v a a = [].
  Proof. unfold lifetime_requirements. replace (tm_eqb a a) with true; [reflexivity |]. symmetry. apply tm_eqb_eq. reflexivity. Qed.

  Lemma vc_refl : forall a v, vc v a a = [].
  Proof.
    induction a as [s d i | d i c IH | h cs IH] using tm_ind'; intros v; try reflexivity.
    rewrite vc_node. destruct (is_lifetime (Node h cs)); [apply lifetime_requirements_refl |].
    generalize (fun i : nat => xform v (position_variance adt_var fn_var h (length cs) i)) as vf.
    generalize 0%nat as i. induction IH as [| x r Hx _ IHr]; intros i vf; cbn [vc_children]; [reflexivity |].
    rewrite Hx, IHr. reflexivity.
  Qed.

  (** ** Facts about the fragment *)

  Lemma closed_lt_inv a : closed_lt a = true ->
    a = Node HLStatic [] \/ (exists u i, a = Node (HLPlaceholder u i) []) \/ a = Node HLErased [].
  Proof.
    destruct a as [| | h cs]; try discriminate. destruct h; try discriminate; destruct cs; try discriminate; eauto.
  Qed.

  Lemma closed_lt_kind a : closed_lt a = true -> kind_of a = KLt.
  Proof. intros H. destruct (closed_lt_inv a H) as [-> | [(u & i & ->) | ->]]; reflexivity. Qed.

  Lemma cfrag_kind a : cfrag a = true -> kind_of a = KTy.
  Proof. destruct a as [| | h cs]; try discriminate. destruct h; try discriminate; reflexivity. Qed.

  Lemma closed_lt_not_cfrag a : closed_lt a = true -> cfrag a = false.
  Proof. intros H. destruct (closed_lt_inv a H) as [-> | [(u & i & ->) | ->]]; reflexivity. Qed.

  Lemma erase_lt a : closed_lt a = true -> erase a = Node HLStatic [].
  Proof. intros H. destruct (closed_lt_inv a H) as [-> | [(u & i & ->) | ->]]; reflexivity. Qed.

  Lemma erase_ty h cs : cfrag (Node h cs) = true -> erase (Node h cs) = Node h (map erase cs).
  Proof. intros H. apply cfrag_kind in H. cbn [erase]. unfold is_lifetime. rewrite H. reflexivity. Qed.

  Lemma cfrag_children h cs : cfrag (Node h cs) = true -> Forall (fun c => cterm c = true) cs.
  Proof.
    unfold Closed.cterm. destruct h; cbn [Closed.cfrag]; try discriminate; intros H.
    all: try (destruct cs; [constructor | discriminate]).
    - apply andb_true_iff in H. destruct H as [_ H]. rewrite forallb_forall in H. apply Forall_forall. exact H.
    - apply andb_true_iff in H. destruct H as [_ H]. rewrite forallb_forall in H. apply Forall_forall.
      intros x Hx. rewrite (H x Hx). apply orb_true_r.
    - destruct cs as [| x [| y r]]; try discriminate. constructor; [| constructor]. rewrite H. apply orb_true_r.
    - destruct cs as [| x [| y r]]; try discriminate. constructor; [| constructor]. rewrite H. apply orb_true_r.
    - destruct cs as [| l [| x [| z r]]]; try discriminate. apply andb_true_iff in H. destruct H as [H1 H2].
      constructor; [rewrite H1; reflexivity | constructor; [rewrite H2; apply orb_true_r | constructor]].
    - apply andb_true_iff in H. destruct H as [_ H]. rewrite forallb_forall in H. apply Forall_forall.
      intros x Hx. rewrite (H x Hx). apply orb_true_r.
  Qed.

  Lemma depth_children h cs : Forall (fun c => (depth c < depth (Node h cs))%nat) cs.
  Proof.
    cbn [depth]. induction cs as [| x r IH]; constructor; cbn [fold_right]; [lia |].
    eapply Forall_impl; [| exact IH]. cbn beta. intros c Hc. lia.
  Qed.

  Lemma subst_closed : forall c ps k, cterm c = true -> subst ps k c = Ok c.
  Proof.
    induction c as [s d i | d i c IH | h cs IH] using tm_ind'; intros ps k H; try discriminate.
    assert (HC : Forall (fun c => cterm c = true) cs).
    { unfold Closed.cterm in H. apply orb_true_iff in H. destruct H as [H | H].
      - destruct (closed_lt_inv _ H) as [E | [(u & i & E) | E]]; inversion E; constructor.
      - apply cfrag_children in H. exact H. }
    cbn [subst]. rewrite (rmap_ok _ cs cs); [reflexivity |].
    clear H. induction cs as [| x r IHr]; [constructor |].
    inversion IH; subst. inversion HC; subst. constructor; [apply H1; assumption | apply IHr; assumption].
  Qed.

  (** ** Requirement sets: invariant = covariant + contravariant *)

  Lemma xform_contra_l p : xform Contravariant p = invert p.
  Proof. destruct p; reflexivity. Qed.

  Lemma xform_inv_l p : xform Invariant p = Invariant.
  Proof. destruct p; reflexivity. Qed.

  Lemma seteq_dup {A} (l : list A) : seteq l (l ++ l).
  Proof. intros x. rewrite in_app_iff. tauto. Qed.

  Lemma seteq_interleave {A} (a1 a2 b1 b2 c1 c2 : list A) :
    seteq a1 (b1 ++ c1) -> seteq a2 (b2 ++ c2) -> seteq (a1 ++ a2) ((b1 ++ b2) ++ (c1 ++ c2)).
  Proof. intros H1 H2 x. rewrite !in_app_iff, (H1 x), (H2 x), !in_app_iff. tauto. Qed.

  Lemma vc_inv_split : forall a b p,
    seteq (vc Invariant a b) (vc p a b ++ vc (invert p) a b).
  Proof.
    induction a as [s d i | d i c IH | h cs IH] using tm_ind'; intros b p; try (destruct b; apply seteq_refl).
    destruct b as [| | hb cb]; try apply seteq_refl.
    rewrite !vc_node. destruct (is_lifetime (Node h cs)).
    - unfold lifetime_requirements. destruct (tm_eqb (Node h cs) (Node hb cb)); [apply seteq_refl |].
      destruct p; cbn [invert app]; intros x; cbn [In]; tauto.
    - generalize (length cs) as n. intros n.
      assert (G : forall i, seteq (vc_children (fun i => xform Invariant (position_variance adt_var fn_var h n i)) i cs cb)
                       (vc_children (fun i => xform p (position_variance adt_var fn_var h n i)) i cs cb ++
                        vc_children (fun i => xform (invert p) (position_variance adt_var fn_var h n i)) i cs cb)).
      { revert cb. induction IH as [| x r Hx _ IHr]; intros cb i; destruct cb as [| y r']; cbn [vc_children]; try apply seteq_refl.
        apply seteq_interleave; [| apply IHr].
        rewrite xform_inv_l, xform_invert. apply Hx. }
      apply G.
  Qed.

  (** ** Evaluating [rel] on the fragment *)

  Definition goals_of (l : list (tm * tm)) : list tm := map goal_of_requirement l.

  Lemma goals_of_app l1 l2 : goals_of (l1 ++ l2) = goals_of l1 ++ goals_of l2.
  Proof. apply map_app. Qed.

  Definition ok_spec (v : variance) (a b : tm) (t : table) (r : out unit * table * list tm) : Prop :=
    (erase a = erase b /\ exists gs, r = (Done tt, t, gs) /\ seteq gs (goals_of (vc v a b)))
    \/ (erase a <> erase b /\ exists gs, r = (NoSol, t, gs)).

  Lemma bind_get_table {B} (f : table -> M B) t : bind get_table f t = f t t.
  Proof. unfold bind, get_table. destruct (f t t) as [[r t2] g2]. reflexivity. Qed.

  Lemma push_outlives_eq v a b t :
    push_outlives v a b t =
    (Done tt, t, goals_of (match v with Covariant => [(b, a)] | Contravariant => [(a, b)] | Invariant => [(a, b); (b, a)] end)).
  Proof. destruct v; reflexivity. Qed.

  Lemma probe_closed_lt t a : closed_lt a = true -> probe_tm t a = None.
  Proof. intros H. destruct (closed_lt_inv a H) as [-> | [(u & i & ->) | ->]]; reflexivity. Qed.

  Lemma probe_cfrag t a : cfrag a = true -> probe_tm t a = None.
  Proof. destruct a as [| | h cs]; try discriminate. destruct h; try discriminate; reflexivity. Qed.

  Lemma tm_eqb_refl a : tm_eqb a a = true.
  Proof. apply tm_eqb_eq. reflexivity. Qed.

  Lemma rel_lt_closed v a b t :
    closed_lt a = true -> closed_lt b = true -> ok_spec v a b t (rel_lt v a b t).
  Proof.
    intros Ha Hb. left. split; [rewrite (erase_lt a Ha), (erase_lt b Hb); reflexivity |].
    unfold rel_lt. rewrite bind_get_table. unfold shallow1. rewrite (probe_closed_lt t a Ha), (probe_closed_lt t b Hb).
    assert (E : vc v a b = lifetime_requirements v a b).
    { destruct (closed_lt_inv a Ha) as [-> | [(u & i & ->) | ->]]; destruct (closed_lt_inv b Hb) as [-> | [(u' & i' & ->) | ->]]; reflexivity. }
    rewrite E. unfold lifetime_requirements.
    assert (G : forall x y, (if tm_eqb x y then ret tt else push_outlives v x y) t =
                       (Done tt, t, goals_of (if tm_eqb x y then [] else match v with Covariant => [(y, x)] | Contravariant => [(x, y)] | Invariant => [(x, y); (y, x)] end))).
    { intros x y. destruct (tm_eqb x y); [reflexivity | apply push_outlives_eq]. }
    assert (F : forall x y, seteq (goals_of (if tm_eqb x y then [] else match v with Covariant => [(y, x)] | Contravariant => [(x, y)] | Invariant => [(x, y); (y, x)] end))
                             (goals_of (if tm_eqb x y then [] else match v with Covariant => [(y, x)] | Contravariant => [(x, y)] | Invariant => [(x, y); (y, x)] end))).
    { intros; apply seteq_refl. }
    destruct (closed_lt_inv a Ha) as [-> | [(u & i & ->) | ->]]; destruct (closed_lt_inv b Hb) as [-> | [(u' & i' & ->) | ->]];
      cbn [rel_lt_norm lcls_of];
      first [ rewrite G; eexists; split; [reflexivity | apply F]
            | eexists; split; [reflexivity | rewrite tm_eqb_refl; apply seteq_refl] ].
  Qed.

  Lemma depth_pos a : (1 <= depth a)%nat.
  Proof. destruct a; cbn [depth]; lia. Qed.

  Lemma cfrag_head_not_static h cs : cfrag (Node h cs) = true -> h <> HLStatic.
  Proof. destruct h; try discriminate; intros _ E; discriminate E. Qed.

  (** the three kinds of type heads of the fragment *)
  Lemma cfrag_class h cs : cfrag (Node h cs) = true ->
    (structural_head h = true /\ tcls_of (Node h cs) = COther)
    \/ (exists u i, h = HPlaceholder u i /\ cs = [])
    \/ (exists a s vd, h = HFnPtr 0 a s vd /\ cs <> []).
  Proof.
    destruct h; cbn [Closed.cfrag]; try discriminate; intros H; try (left; split; reflexivity).
    - right. left. destruct cs; [eauto | discriminate].
    - right. right. apply andb_true_iff in H. destruct H as [H _]. apply andb_true_iff in H. destruct H as [H1 H2].
      apply N.eqb_eq in H1. subst. exists a, s, variadic. split; [reflexivity |]. destruct cs; [discriminate | intros E; discriminate E].
  Qed.

  Lemma cfrag_same_head_len h ca cb :
    structural_head h = true -> cfrag (Node h ca) = true -> cfrag (Node h cb) = true -> length ca = length cb.
  Proof.
    destruct h; cbn [structural_head Closed.cfrag]; try discriminate; intros _ Ha Hb.
    - apply andb_true_iff in Ha, Hb. destruct Ha as [Ha _], Hb as [Hb _]. apply Nat.eqb_eq in Ha, Hb. congruence.
    - destruct ca, cb; try discriminate; reflexivity.
    - apply andb_true_iff in Ha, Hb. destruct Ha as [Ha _], Hb as [Hb _]. apply Nat.eqb_eq in Ha, Hb. congruence.
    - destruct ca as [| ? [| ? ?]], cb as [| ? [| ? ?]]; try discriminate; reflexivity.
    - destruct ca as [| ? [| ? ?]], cb as [| ? [| ? ?]]; try discriminate; reflexivity.
    - destruct ca as [| ? [| ? [| ? ?]]], cb as [| ? [| ? [| ? ?]]]; try discriminate; reflexivity.
    - destruct ca, cb; try discriminate; reflexivity.
    - destruct ca, cb; try discriminate; reflexivity.
    - destruct ca, cb; try discriminate; reflexivity.
  Qed.

  Lemma child_variance_spec h v n i :
    structural_head h = true ->
    child_variance adt_var fn_var h v i = xform v (position_variance adt_var fn_var h n i).
  Proof.
    destruct h; cbn [structural_head]; try discriminate; intros _; cbn [child_variance position_variance];
      try reflexivity; try (symmetry; apply xform_cov_r).
    destruct i; reflexivity.
  Qed.

  Section Level.
    Variable f : nat.
    Hypothesis IH : forall v a b t, cterm a = true -> cterm b = true -> (depth a <= f)%nat ->
      ok_spec v a b t (rel_garg (rel adt_var fn_var f) v a b t).

    Lemma zip_closed : forall ca cb vf i t,
      Forall (fun c => cterm c = true) ca -> Forall (fun c => cterm c = true) cb -> length ca = length cb ->
      Forall (fun c => (depth c <= f)%nat) ca ->
      (map erase ca = map erase cb /\ exists gs, zip_children (rel adt_var fn_var f) vf i ca cb t = (Done tt, t, gs)
                                           /\ seteq gs (goals_of (vc_children vf i ca cb)))
      \/ (map erase ca <> map erase cb /\ exists gs, zip_children (rel adt_var fn_var f) vf i ca cb t = (NoSol, t, gs)).
    Proof.
      induction ca as [| x r IHr]; intros cb vf i t Ha Hb Hl Hd; destruct cb as [| y r']; try discriminate Hl.
      - left. split; [reflexivity |]. exists []. split; [reflexivity | apply seteq_refl].
      - apply Forall_cons_iff in Ha, Hb, Hd. destruct Ha as [Hax Har], Hb as [Hby Hbr], Hd as [Hdx Hdr]. cbn [length] in Hl.
        cbn [zip_children].
        destruct (IH (vf i) x y t Hax Hby Hdx) as [(E & gs & R & HS) | (E & gs & R)].
        + destruct (IHr r' vf (S i) t Har Hbr (eq_add_S _ _ Hl) Hdr) as [(E' & gs' & R' & HS') | (E' & gs' & R')].
          * left. split; [cbn [map]; congruence |]. exists (gs ++ gs'). split.
            -- rewrite (bind_done _ _ _ _ _ _ R). cbn [zip_children] in R'. rewrite R'. reflexivity.
            -- cbn [vc_children]. rewrite goals_of_app. apply seteq_app; assumption.
          * right. split; [cbn [map]; intros Q; inversion Q; contradiction |]. exists (gs ++ gs').
            rewrite (bind_done _ _ _ _ _ _ R). cbn [zip_children] in R'. rewrite R'. reflexivity.
        + right. split; [cbn [map]; intros Q; inversion Q; contradiction |]. exists gs.
          rewrite (bind_nosol _ _ _ _ _ R). reflexivity.
    Qed.
  
    Lemma subst_children_closed ps cs t :
      Forall (fun c => cterm c = true) cs -> subst_children ps cs t = (Done cs, t, []).
    Proof.
      intros H. unfold subst_children. rewrite (rmap_ok _ cs cs); [reflexivity |].
      induction H as [| x r Hx _ IHr]; [constructor | constructor; [apply subst_closed; exact Hx | exact IHr]].
    Qed.

    Lemma inst_univ_closed cs t : Forall (fun c => cterm c = true) cs -> inst_univ 0 cs t = (Done cs, t, []).
    Proof. intros H. unfold inst_univ. cbn [N.eqb]. apply subst_children_closed. exact H. Qed.

    Lemma inst_exist_closed cs t : Forall (fun c => cterm c = true) cs -> inst_exist 0 cs t = (Done cs, t, []).
    Proof.
      intros H. unfold inst_exist. rewrite bind_get_table. cbn [N.to_nat seq mapM].
      rewrite bind_ret. cbn [map]. apply subst_children_closed. exact H.
    Qed.

    Lemma erase_app_tail pa ra pb rb : length pa = length pb ->
      (map erase (pa ++ [ra]) = map erase (pb ++ [rb]) <-> map erase pa = map erase pb /\ erase ra = erase rb).
    Proof.
      intros Hl. rewrite !map_app. cbn [map]. split.
      - intros H. apply app_inj_tail in H. exact H.
      - intros [-> ->]. reflexivity.
    Qed.

    Lemma zip_fn_closed w a s vd ca cb t :
      cfrag (Node (HFnPtr 0 a s vd) ca) = true -> cfrag (Node (HFnPtr 0 a s vd) cb) = true ->
      (depth (Node (HFnPtr 0 a s vd) ca) <= S f)%nat ->
      ok_spec w (Node (HFnPtr 0 a s vd) ca) (Node (HFnPtr 0 a s vd) cb) t (zip_fn_subst (rel adt_var fn_var f) w ca cb t).
    Proof.
      intros Ha Hb Hd. set (h := HFnPtr 0 a s vd) in *.
      pose proof (cfrag_children _ _ Ha) as Ca. pose proof (cfrag_children _ _ Hb) as Cb.
      assert (Da : Forall (fun c => (depth c <= f)%nat) ca).
      { eapply Forall_impl; [| apply (depth_children h ca)]. cbn beta. intros c Hc. lia. }
      destruct (cfrag_class _ _ Ha) as [(Q & _) | [(u & i & Q & _) | (a' & s' & vd' & _ & Na)]]; try discriminate Q.
      destruct (cfrag_class _ _ Hb) as [(Q & _) | [(u & i & Q & _) | (a'' & s'' & vd'' & _ & Nb)]]; try discriminate Q.
      destruct (exists_last Na) as (pa & ra & ->). destruct (exists_last Nb) as (pb & rb & ->).
      unfold ok_spec. rewrite (erase_ty _ _ Ha), (erase_ty _ _ Hb).
      apply Forall_app in Ca, Cb, Da. destruct Ca as [Cpa Cra], Cb as [Cpb Crb], Da as [Dpa Dra].
      apply Forall_cons_iff in Cra, Crb, Dra. destruct Cra as [Cra _], Crb as [Crb _], Dra as [Dra _].
      unfold zip_fn_subst. rewrite !rev_app_distr. cbn [rev app]. rewrite !rev_length, !rev_involutive.
      destruct (Nat.eqb_spec (length pa) (length pb)) as [Hl | Hl].
      - assert (V : vc w (Node h (pa ++ [ra])) (Node h (pb ++ [rb])) =
                    vc_children (fun _ => xform w Contravariant) 0 pa pb ++ vc w ra rb).
        { rewrite vc_node. replace (is_lifetime (Node h (pa ++ [ra]))) with false by reflexivity.
          rewrite vc_children_app by exact Hl. cbn [vc_children]. rewrite app_nil_r. f_equal.
          - apply vc_children_ext. intros j Hj. unfold h. cbn [position_variance]. rewrite app_length. cbn [length].
            replace (length pa + 1 - 1)%nat with (length pa) by lia. cbn [Nat.add].
            destruct (Nat.ltb_spec j (length pa)); [reflexivity | lia].
          - unfold h. cbn [position_variance]. rewrite app_length. cbn [length Nat.add].
            replace (length pa + 1 - 1)%nat with (length pa) by lia.
            destruct (Nat.ltb_spec (length pa) (length pa)); [lia | apply f_equal2; [apply xform_cov_r | reflexivity] || (rewrite xform_cov_r; reflexivity)]. }
        destruct (zip_closed pa pb (fun _ => xform w Contravariant) 0%nat t Cpa Cpb Hl Dpa) as [(E & gs & R & HS) | (E & gs & R)].
        + destruct (IH w ra rb t Cra Crb Dra) as [(E' & gs' & R' & HS') | (E' & gs' & R')].
          * left. split; [f_equal; apply (erase_app_tail pa ra pb rb Hl); split; assumption |].
            exists (gs ++ gs'). split; [rewrite (bind_done _ _ _ _ _ _ R), R'; reflexivity |].
            rewrite V, goals_of_app. apply seteq_app; assumption.
          * right. split; [intros Q; inversion Q as [Q']; apply (erase_app_tail pa ra pb rb Hl) in Q'; destruct Q'; contradiction |].
            exists (gs ++ gs'). rewrite (bind_done _ _ _ _ _ _ R), R'. reflexivity.
        + right. split; [intros Q; inversion Q as [Q']; apply (erase_app_tail pa ra pb rb Hl) in Q'; destruct Q'; contradiction |].
          exists gs. rewrite (bind_nosol _ _ _ _ _ R). reflexivity.
      - right. split; [| exists []; reflexivity].
        intros Q. inversion Q as [Q']. apply (f_equal (@length tm)) in Q'. rewrite !map_length, !app_length in Q'. cbn [length] in Q'. lia.
    Qed.
  
    Lemma rel_fn_binders_closed v a s vd ca cb t :
      cfrag (Node (HFnPtr 0 a s vd) ca) = true -> cfrag (Node (HFnPtr 0 a s vd) cb) = true ->
      (depth (Node (HFnPtr 0 a s vd) ca) <= S f)%nat ->
      ok_spec v (Node (HFnPtr 0 a s vd) ca) (Node (HFnPtr 0 a s vd) cb) t
              (rel_fn_binders (rel adt_var fn_var f) v 0 ca 0 cb t).
    Proof.
      intros Ha Hb Hd.
      pose proof (cfrag_children _ _ Ha) as Ca. pose proof (cfrag_children _ _ Hb) as Cb.
      assert (P : forall w (k : M unit), (bu <- inst_univ 0 cb ;; ae <- inst_exist 0 ca ;; zip_fn_subst (rel adt_var fn_var f) w ae bu) t
                       = zip_fn_subst (rel adt_var fn_var f) w ca cb t).
      { intros w _. rewrite (bind_done _ _ _ _ _ _ (inst_univ_closed cb t Cb)).
        rewrite (bind_done _ _ _ _ _ _ (inst_exist_closed ca t Ca)).
        destruct (zip_fn_subst (rel adt_var fn_var f) w ca cb t) as [[r t2] g2]. reflexivity. }
      assert (P' : forall w, (au <- inst_univ 0 ca ;; be <- inst_exist 0 cb ;; zip_fn_subst (rel adt_var fn_var f) w au be) t
                       = zip_fn_subst (rel adt_var fn_var f) w ca cb t).
      { intros w. rewrite (bind_done _ _ _ _ _ _ (inst_univ_closed ca t Ca)).
        rewrite (bind_done _ _ _ _ _ _ (inst_exist_closed cb t Cb)).
        destruct (zip_fn_subst (rel adt_var fn_var f) w ca cb t) as [[r t2] g2]. reflexivity. }
      unfold rel_fn_binders. destruct v.
      - rewrite bind_ret. rewrite (P Covariant (ret tt)). apply zip_fn_closed; assumption.
      - destruct (zip_fn_closed Contravariant a s vd ca cb t Ha Hb Hd) as [(E & gs & R & HS) | (E & gs & R)].
        + destruct (zip_fn_closed Covariant a s vd ca cb t Ha Hb Hd) as [(_ & gs' & R' & HS') | (E' & _)]; [| contradiction].
          left. split; [exact E |]. exists (gs ++ gs'). split.
          * rewrite <- P' in R. rewrite (bind_done _ _ _ _ _ _ R). rewrite (P Covariant (ret tt)), R'. reflexivity.
          * eapply seteq_trans; [apply seteq_app; eassumption |].
            rewrite <- goals_of_app. apply seteq_map. apply seteq_sym. apply (vc_inv_split _ _ Contravariant).
        + right. split; [exact E |]. exists gs. rewrite <- P' in R. rewrite (bind_nosol _ _ _ _ _ R). reflexivity.
      - destruct (zip_fn_closed Contravariant a s vd ca cb t Ha Hb Hd) as [(E & gs & R & HS) | (E & gs & R)].
        + left. split; [exact E |]. exists (gs ++ []). split.
          * rewrite <- P' in R. rewrite (bind_done _ _ _ _ _ _ R). reflexivity.
          * rewrite app_nil_r. exact HS.
        + right. split; [exact E |]. exists gs. rewrite <- P' in R. rewrite (bind_nosol _ _ _ _ _ R). reflexivity.
    Qed.

    Lemma node_erase_eq h ca h' cb :
      cfrag (Node h ca) = true -> cfrag (Node h' cb) = true ->
      (erase (Node h ca) = erase (Node h' cb) <-> h = h' /\ map erase ca = map erase cb).
    Proof.
      intros Ha Hb. rewrite (erase_ty _ _ Ha), (erase_ty _ _ Hb). split.
      - intros Q. inversion Q. split; reflexivity.
      - intros [-> ->]. reflexivity.
    Qed.

    Lemma rel_ty_closed v a b t :
      cfrag a = true -> cfrag b = true -> (depth a <= S f)%nat ->
      ok_spec v a b t (rel_ty adt_var fn_var f (rel adt_var fn_var f) v a b t).
    Proof.
      intros Ha Hb Hd. unfold rel_ty. rewrite bind_get_table. unfold shallow_ty.
      rewrite (probe_cfrag t a Ha), (probe_cfrag t b Hb). unfold rel_ty_norm.
      destruct (tm_eqb a b) eqn:Eab.
      { apply tm_eqb_eq in Eab. subst b. left. split; [reflexivity |]. exists []. split; [reflexivity |].
        rewrite vc_refl. apply seteq_refl. }
      assert (Nab : a <> b). { intros Q. apply tm_eqb_eq in Q. congruence. }
      destruct a as [| | ha ca]; try discriminate Ha. destruct b as [| | hb cb]; try discriminate Hb.
      assert (NS : forall gs, erase (Node ha ca) <> erase (Node hb cb) ->
                   ok_spec v (Node ha ca) (Node hb cb) t (NoSol, t, gs)).
      { intros gs Q. right. split; [exact Q | exists gs; reflexivity]. }
      destruct (head_eq_dec ha hb) as [Eh | Nh].
      - subst hb.
        destruct (cfrag_class _ _ Ha) as [(Sa & Ta) | [(u & i & Q & Q') | (a' & s' & vd' & Q & Na)]].
        + (* structural head *)
          destruct (cfrag_class _ _ Hb) as [(_ & Tb) | [(u & i & Q & _) | (a' & s' & vd' & Q & _)]];
            try (subst ha; discriminate Sa).
          rewrite Ta, Tb. rewrite Sa. unfold head_eqb. destruct (head_eq_dec ha ha) as [_ | Q]; [| contradiction].
          cbn [andb].
          pose proof (cfrag_same_head_len _ _ _ Sa Ha Hb) as Hl.
          assert (Da : Forall (fun c => (depth c <= f)%nat) ca).
          { eapply Forall_impl; [| apply (depth_children ha ca)]. cbn beta. intros c Hc. lia. }
          destruct (zip_closed ca cb (child_variance adt_var fn_var ha v) 0%nat t (cfrag_children _ _ Ha) (cfrag_children _ _ Hb) Hl Da)
            as [(E & gs & R & HS) | (E & gs & R)].
          * left. split; [apply node_erase_eq; auto |]. exists gs. split; [exact R |].
            rewrite vc_node. replace (is_lifetime (Node ha ca)) with false
              by (symmetry; unfold is_lifetime; rewrite (cfrag_kind _ Ha); reflexivity).
            rewrite (vc_children_ext _ (child_variance adt_var fn_var ha v)); [exact HS |].
            intros j _. symmetry. apply child_variance_spec. exact Sa.
          * right. split; [intros Q; apply node_erase_eq in Q; auto; destruct Q; contradiction |]. exists gs. exact R.
        + (* placeholder: equal heads and no children means equal terms *)
          subst ha ca. destruct (cfrag_class _ _ Hb) as [(Sb & _) | [(u' & i' & _ & Q) | (a' & s' & vd' & Q & _)]]; try discriminate.
          subst cb. contradiction Nab. reflexivity.
        + (* fn pointer *)
          subst ha. cbn [tcls_of]. cbn [abi_eqb safety_eqb].
          replace (abi_eqb a' a' && safety_eqb s' s' && Bool.eqb vd' vd') with true
            by (destruct a', s', vd'; reflexivity).
          apply rel_fn_binders_closed; assumption.
      - (* different heads: no solution, and the erasures differ *)
        assert (Q : erase (Node ha ca) <> erase (Node hb cb)).
        { intros Q. apply node_erase_eq in Q; auto. destruct Q. contradiction. }
        destruct (cfrag_class _ _ Ha) as [(Sa & Ta) | [(u & i & -> & ->) | (a' & s' & vd' & -> & Na)]];
          destruct (cfrag_class _ _ Hb) as [(Sb & Tb) | [(u' & i' & -> & ->) | (a'' & s'' & vd'' & -> & Nb)]].
        + rewrite Ta, Tb, Sa. unfold head_eqb. destruct (head_eq_dec ha hb); [contradiction |]. cbn [andb]. apply NS. exact Q.
        + rewrite Ta. cbn [tcls_of]. apply NS. exact Q.
        + rewrite Ta. cbn [tcls_of]. apply NS. exact Q.
        + rewrite Tb. cbn [tcls_of]. apply NS. exact Q.
        + cbn [tcls_of]. apply NS. exact Q.
        + cbn [tcls_of]. apply NS. exact Q.
        + rewrite Tb. cbn [tcls_of]. apply NS. exact Q.
        + cbn [tcls_of]. apply NS. exact Q.
        + cbn [tcls_of].
          replace (abi_eqb a' a'' && safety_eqb s' s'' && Bool.eqb vd' vd'') with false; [apply NS; exact Q |].
          symmetry. destruct a', a'', s', s'', vd', vd''; try reflexivity; contradiction Nh; reflexivity.
    Qed.
  End Level.

  (** The zipper on closed generic arguments, for any variance. *)
  Lemma rel_garg_closed : forall f v a b t,
    cterm a = true -> cterm b = true -> (depth a <= f)%nat ->
    ok_spec v a b t (rel_garg (rel adt_var fn_var f) v a b t).
  Proof.
    induction f as [| f IH]; intros v a b t Ha Hb Hd; [pose proof (depth_pos a); lia |].
    unfold rel_garg. unfold Closed.cterm in Ha, Hb. apply orb_true_iff in Ha, Hb.
    destruct Ha as [Ha | Ha], Hb as [Hb | Hb].
    - rewrite (closed_lt_kind _ Ha), (closed_lt_kind _ Hb). cbn [kind_eqb rel].
      rewrite (closed_lt_kind _ Ha), (closed_lt_kind _ Hb). apply rel_lt_closed; assumption.
    - rewrite (closed_lt_kind _ Ha), (cfrag_kind _ Hb). cbn [kind_eqb]. right. split; [| exists []; reflexivity].
      rewrite (erase_lt _ Ha). destruct b as [| | hb cb]; try discriminate Hb. rewrite (erase_ty _ _ Hb).
      intros Q. inversion Q. symmetry in H0. revert H0. apply (cfrag_head_not_static _ _ Hb).
    - rewrite (cfrag_kind _ Ha), (closed_lt_kind _ Hb). cbn [kind_eqb]. right. split; [| exists []; reflexivity].
      rewrite (erase_lt _ Hb). destruct a as [| | ha ca]; try discriminate Ha. rewrite (erase_ty _ _ Ha).
      intros Q. inversion Q. revert H0. apply (cfrag_head_not_static _ _ Ha).
    - rewrite (cfrag_kind _ Ha), (cfrag_kind _ Hb). cbn [kind_eqb rel].
      rewrite (cfrag_kind _ Ha), (cfrag_kind _ Hb). apply rel_ty_closed; assumption.
  Qed.

  Lemma filter_all_true {A} (p : A -> bool) (l : list A) : (forall x, In x l -> p x = true) -> filter p l = l.
  Proof.
    induction l as [| x r IH]; intros H; cbn [filter]; [reflexivity |].
    rewrite (H x (or_introl eq_refl)). f_equal. apply IH. intros y Hy. apply H. right. exact Hy.
  Qed.

  Lemma retain_outlives t gs l : seteq gs (goals_of l) -> retain_goals t gs = gs.
  Proof.
    intros H. unfold retain_goals. apply filter_all_true. intros g Hg. apply H in Hg.
    unfold goals_of in Hg. apply in_map_iff in Hg. destruct Hg as ((x & y) & <- & _). reflexivity.
  Qed.

  (** [InferenceTable::relate] on closed types of the fragment, at any variance. *)
  Lemma relate_closed fuel v a b t :
    cfrag a = true -> cfrag b = true -> (depth a <= fuel)%nat ->
    (erase a = erase b /\ exists gs, relate adt_var fn_var fuel v a b t = (Done gs, t) /\ seteq gs (goals_of (vc v a b)))
    \/ (erase a <> erase b /\ relate adt_var fn_var fuel v a b t = (NoSol, t)).
  Proof.
    intros Ha Hb Hd.
    assert (Ca : cterm a = true) by (unfold Closed.cterm; rewrite Ha; apply orb_true_r).
    assert (Cb : cterm b = true) by (unfold Closed.cterm; rewrite Hb; apply orb_true_r).
    pose proof (rel_garg_closed fuel v a b t Ca Cb Hd) as H.
    unfold rel_garg in H. rewrite (cfrag_kind _ Ha), (cfrag_kind _ Hb) in H. cbn [kind_eqb] in H.
    unfold relate. destruct H as [(E & gs & R & HS) | (E & gs & R)]; rewrite R.
    - left. split; [exact E |]. exists gs. rewrite (retain_outlives t gs _ HS). split; [reflexivity | exact HS].
    - right. split; [exact E |]. destruct t; reflexivity.
  Qed.

  Lemma relate_cov_shape_lemma fuel a b t :
    cfrag a = true -> cfrag b = true -> (depth a <= fuel)%nat ->
    ((exists gs t', relate adt_var fn_var fuel Covariant a b t = (Done gs, t')) <-> erase a = erase b).
  Proof.
    intros Ha Hb Hd. destruct (relate_closed fuel Covariant a b t Ha Hb Hd) as [(E & gs & R & _) | (E & R)].
    - split; [intros _; exact E | intros _; exists gs, t; exact R].
    - split; [intros (gs & t' & R'); rewrite R in R'; discriminate R' | intros Q; contradiction].
  Qed.

  Lemma relate_cov_constraints_lemma fuel a b t gs t' :
    cfrag a = true -> cfrag b = true -> (depth a <= fuel)%nat ->
    relate adt_var fn_var fuel Covariant a b t = (Done gs, t') ->
    t' = t /\ seteq gs (map goal_of_requirement (vc Covariant a b)).
  Proof.
    intros Ha Hb Hd R. destruct (relate_closed fuel Covariant a b t Ha Hb Hd) as [(E & gs' & R' & HS) | (E & R')];
      rewrite R' in R; inversion R; subst. split; [reflexivity | exact HS].
  Qed.
End Closed.

(** Non-vacuity: [&'!1_0 (Co<&'!1_1 u32>, fn(&'!1_2 u32) -> Contra<&'static u32>)] against the same
    shape with other lifetimes, [Co] covariant, [Contra] contravariant: four requirements,
    one per lifetime position, in the directions composed down the positions; and a pair whose
    structures differ is rejected. *)
Definition ex_adt_var (id : N) : list variance :=
  match id with 0 => [Covariant] | 1 => [Contravariant] | _ => [] end.
Definition ex_arity (id : N) : nat := 1%nat.
Definition ex_u32 : tm := Node (HScalar (Uint U32)) [].
Definition ex_ref (l x : tm) : tm := Node (HRef Not) [l; x].
Definition ex_ph (i : N) : tm := Node (HLPlaceholder 1 i) [].
Definition ex_ty (l0 l1 l2 l3 : tm) : tm :=
  ex_ref l0 (Node (HTuple 2) [Node (HAdt 0) [ex_ref l1 ex_u32];
                              Node (HFnPtr 0 AbiRust Safe false) [ex_ref l2 ex_u32; Node (HAdt 1) [ex_ref l3 ex_u32]]]).

Example relate_cov_nonvacuous :
  let a := ex_ty (ex_ph 0) (ex_ph 1) (ex_ph 2) (Node HLStatic []) in
  let b := ex_ty (ex_ph 3) (ex_ph 4) (ex_ph 5) (ex_ph 6) in
  cfrag ex_arity a = true /\ cfrag ex_arity b = true /\ (depth a <= 20)%nat /\ erase a = erase b
  /\ relate ex_adt_var (fun _ => []) 20 Covariant a b empty_table
     = (Done [outlives_goal (ex_ph 0) (ex_ph 3); outlives_goal (ex_ph 1) (ex_ph 4);
              outlives_goal (ex_ph 5) (ex_ph 2); outlives_goal (ex_ph 6) (Node HLStatic [])], empty_table)
  /\ variance_constraints ex_adt_var (fun _ => []) Covariant a b
     = [(ex_ph 0, ex_ph 3); (ex_ph 1, ex_ph 4); (ex_ph 5, ex_ph 2); (ex_ph 6, Node HLStatic [])]
  /\ relate ex_adt_var (fun _ => []) 20 Covariant a (ex_ref (ex_ph 0) ex_u32) empty_table = (NoSol, empty_table).
Proof. vm_compute. repeat split; try reflexivity. lia. Qed.
