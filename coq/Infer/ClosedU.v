(** * Infer.ClosedU — relating types with lifetime UNKNOWNS (property C29).

    Fragment [ufrag]: as [Closed.cfrag] (references, mutable references, raw pointers, slices,
    tuples, ADTs with declared variances, fn pointers without binders, scalars, placeholders) but
    lifetimes may also be unknowns (a fn pointer at an invariant position is related in two
    passes, the second one on the table left by the first).  No type unknowns,
    hence no generalisation, no occurs check and no fresh variable: [relate] only emits outlives
    goals and — at invariant positions — binds or unions lifetime unknowns.

    Equivalence is semantic.  A model is a preorder [(D, le)] with a valuation [ρ] of lifetime
    terms; [ρ] respects a table if every bound lifetime unknown is [le]-equivalent to its value
    and unknowns of one class are equivalent; a requirement [(x, y)] ("x: y") holds if
    [le (ρ x) (ρ y)].  Theorem: if [relate v a b] succeeds from a table [t] with result [t'] and
    goals [gs], then for every model respecting [t]:
        respects t'  /\  all goals of gs hold      <->      all of [variance_constraints v a b] hold,
    and every model of [t'] is a model of [t].  (And it succeeds iff the erased structures agree.) *)

From Coq Require Import Arith PeanoNat Lia.
From Chalk Require Import Ir.Syntax Ir.Fold Infer.Table Infer.Unify Infer.Variance Infer.Closed Infer.Sym Infer.Sound.

Definition closed_ltu (a : tm) : bool :=
  closed_lt a || match a with Node (HLInfer _) [] => true | _ => false end.

Section Model.
  Variable D : Type.
  Variable le : D -> D -> Prop.
  Hypothesis le_refl : forall x, le x x.
  Hypothesis le_trans : forall x y z, le x y -> le y z -> le x z.

  Definition eqv (x y : D) : Prop := le x y /\ le y x.

  Lemma eqv_refl x : eqv x x. Proof. split; apply le_refl. Qed.
  Lemma eqv_sym x y : eqv x y -> eqv y x. Proof. intros [A B]. split; assumption. Qed.
  Lemma eqv_trans x y z : eqv x y -> eqv y z -> eqv x z.
  Proof. intros [A B] [C E]. split; eapply le_trans; eassumption. Qed.

  Variable ρ : tm -> D.

  Definition respects (t : table) : Prop :=
    (forall v l, bound_to t v l -> eqv (ρ (lt_var v)) (ρ l)) /\ (forall v w, same_class t v w -> eqv (ρ (lt_var v)) (ρ (lt_var w))).

  Definition holds (p : tm * tm) : Prop := le (ρ (fst p)) (ρ (snd p)).
  Definition sat (reqs : list (tm * tm)) : Prop := forall p, In p reqs -> holds p.
  Definition sat_goals (gs : list tm) : Prop := forall x y, In (outlives_goal x y) gs -> holds (x, y).

  Lemma sat_app r1 r2 : sat (r1 ++ r2) <-> sat r1 /\ sat r2.
  Proof. unfold sat. split; [intros H; split; intros p Hp; apply H; apply in_or_app; auto | intros [A B] p Hp; apply in_app_or in Hp; destruct Hp; auto]. Qed.

  Lemma sat_goals_app g1 g2 : sat_goals (g1 ++ g2) <-> sat_goals g1 /\ sat_goals g2.
  Proof. unfold sat_goals. split; [intros H; split; intros x y Hp; apply H; apply in_or_app; auto | intros [A B] x y Hp; apply in_app_or in Hp; destruct Hp; auto]. Qed.

  (** what a pair of lifetimes must satisfy at variance [v] *)
  Definition vrel (v : variance) (da db : D) : Prop :=
    match v with
    | Covariant => le db da
    | Contravariant => le da db
    | Invariant => le da db /\ le db da
    end.

  Lemma vrel_refl v d : vrel v d d.
  Proof. destruct v; cbn; auto. Qed.

  Lemma vrel_eqv v a a' b b' : eqv a a' -> eqv b b' -> (vrel v a b <-> vrel v a' b').
  Proof.
    intros [A1 A2] [B1 B2]. destruct v; cbn; split; intros H; try destruct H as [H1 H2]; try split;
      eauto using le_trans.
  Qed.

  Lemma vrel_invert v a b : vrel (invert v) b a <-> vrel v a b.
  Proof. destruct v; cbn; tauto. Qed.

  Lemma sat_lifetime_requirements v a b : sat (lifetime_requirements v a b) <-> vrel v (ρ a) (ρ b).
  Proof.
    unfold lifetime_requirements. destruct (tm_eqb a b) eqn:Q.
    - apply tm_eqb_eq in Q. subst b. split; [intros _; apply vrel_refl | intros _ p []].
    - unfold sat, holds. destruct v; cbn [vrel In]; split.
      + intros H. exact (H (b, a) (or_introl eq_refl)).
      + intros H p [<- | []]. exact H.
      + intros H. split; [exact (H (a, b) (or_introl eq_refl)) | exact (H (b, a) (or_intror (or_introl eq_refl)))].
      + intros [H1 H2] p [<- | [<- | []]]; assumption.
      + intros H. exact (H (a, b) (or_introl eq_refl)).
      + intros H p [<- | []]. exact H.
  Qed.

  Lemma sat_push v a b : sat_goals (match v with Covariant => [outlives_goal b a] | Contravariant => [outlives_goal a b] | Invariant => [outlives_goal a b; outlives_goal b a] end)
                         <-> vrel v (ρ a) (ρ b).
  Proof.
    unfold sat_goals, holds. destruct v; cbn [vrel In fst snd]; split.
    - intros H. exact (H b a (or_introl eq_refl)).
    - intros H x y [Q | []]. inversion Q; subst. exact H.
    - intros H. split; [exact (H a b (or_introl eq_refl)) | exact (H b a (or_intror (or_introl eq_refl)))].
    - intros [H1 H2] x y [Q | [Q | []]]; inversion Q; subst; assumption.
    - intros H. exact (H a b (or_introl eq_refl)).
    - intros H x y [Q | []]. inversion Q; subst. exact H.
  Qed.

  (** ** Tables of lifetime unknowns *)

  Definition ltinv (t : table) : Prop :=
    (forall v w c c', get t v = Some c -> get t w = Some c' -> ccls c = ccls c' -> cval c = cval c')
    /\ (forall v c l, get t v = Some c -> cval c = Bound l -> closed_lt l = true).

  (** binding a class of unbound unknowns *)
  Lemma respects_bind t v c u l :
    ltinv t -> get t v = Some c -> cval c = Unbound u -> closed_lt l = true ->
    ltinv (set_value (ccls c) (Bound l) t)
    /\ (respects (set_value (ccls c) (Bound l) t) <-> respects t /\ eqv (ρ (lt_var v)) (ρ l)).
  Proof.
    intros [IC IB] E B CL. set (t' := set_value (ccls c) (Bound l) t).
    assert (G : forall w cw, get t' w = Some cw -> exists c0, get t w = Some c0 /\ ccls cw = ccls c0 /\
                 ((ccls c0 = ccls c /\ cval cw = Bound l) \/ (ccls c0 <> ccls c /\ cw = c0))).
    { intros w cw Ew. exact (get_set_value_inv _ _ _ _ _ Ew). }
    assert (UNB : forall w cw, get t w = Some cw -> ccls cw = ccls c -> cval cw = Unbound u).
    { intros w cw Ew Q. rewrite (IC w v cw c Ew E Q). exact B. }
    split; [split |].
    - intros w1 w2 c1 c2 E1 E2 Q. destruct (G _ _ E1) as (a0 & A0 & QA & [[CA VA] | [CA ->]]); destruct (G _ _ E2) as (b0 & B0 & QB & [[CB VB] | [CB ->]]); try congruence.
      exact (IC w1 w2 a0 b0 A0 B0 Q).
    - intros w cw x Ew Bw. destruct (G _ _ Ew) as (a0 & A0 & _ & [[CA VA] | [CA ->]]); [congruence | exact (IB w a0 x A0 Bw)].
    - split.
      + intros [RB RC]. split; [split |].
        * intros w x (cw & Ew & Bw). apply RB. exists cw. split; [| exact Bw]. unfold t'. rewrite get_set_value, Ew. cbn [option_map].
          destruct (N.eqb_spec (ccls cw) (ccls c)) as [Q | Q]; [rewrite (UNB w cw Ew Q) in Bw; discriminate Bw | reflexivity].
        * intros w1 w2 (c1 & c2 & E1 & E2 & Q). apply RC. eexists. eexists. unfold t'. rewrite !get_set_value, E1, E2. cbn [option_map].
          split; [reflexivity |]. split; [reflexivity |]. destruct (N.eqb_spec (ccls c1) (ccls c)), (N.eqb_spec (ccls c2) (ccls c)); cbn [ccls]; congruence.
        * apply RB. eexists. unfold t'. rewrite get_set_value, E. cbn [option_map]. rewrite N.eqb_refl. split; reflexivity.
      + intros [[RB RC] EV]. split.
        * intros w x (cw & Ew & Bw). destruct (G _ _ Ew) as (a0 & A0 & _ & [[CA VA] | [CA ->]]).
          -- rewrite VA in Bw. inversion Bw; subst x. eapply eqv_trans; [| exact EV]. apply RC. exists a0, c. auto.
          -- apply RB. exists a0. auto.
        * intros w1 w2 (c1 & c2 & E1 & E2 & Q). destruct (G _ _ E1) as (a0 & A0 & QA & _). destruct (G _ _ E2) as (b0 & B0 & QB & _).
          apply RC. exists a0, b0. split; [exact A0 |]. split; [exact B0 | congruence].
  Qed.

  (** merging two classes of unbound unknowns *)
  Lemma respects_merge t v1 v2 c1 c2 u1 u2 val :
    ltinv t -> get t v1 = Some c1 -> cval c1 = Unbound u1 -> get t v2 = Some c2 -> cval c2 = Unbound u2 ->
    (exists u, val = Unbound u) ->
    ltinv (merge (ccls c1) (ccls c2) val t)
    /\ (respects (merge (ccls c1) (ccls c2) val t) <-> respects t /\ eqv (ρ (lt_var v1)) (ρ (lt_var v2))).
  Proof.
    intros [IC IB] E1 B1 E2 B2 (u & ->). set (t' := merge (ccls c1) (ccls c2) (Unbound u) t).
    assert (G : forall w cw, get t' w = Some cw -> exists c0, get t w = Some c0 /\
                 (((ccls c0 = ccls c1 \/ ccls c0 = ccls c2) /\ cw = mkcell (N.min (ccls c1) (ccls c2)) (Unbound u)) \/ (ccls c0 <> ccls c1 /\ ccls c0 <> ccls c2 /\ cw = c0))).
    { intros w cw Ew. exact (get_merge_inv _ _ _ _ _ _ Ew). }
    assert (UNB : forall w cw, get t w = Some cw -> (ccls cw = ccls c1 \/ ccls cw = ccls c2) -> exists u0, cval cw = Unbound u0).
    { intros w cw Ew [Q | Q]; [rewrite (IC w v1 cw c1 Ew E1 Q) | rewrite (IC w v2 cw c2 Ew E2 Q)]; eauto. }
    assert (MIN : N.min (ccls c1) (ccls c2) = ccls c1 \/ N.min (ccls c1) (ccls c2) = ccls c2) by lia.
    split; [split |].
    - intros w1 w2 a b Ea Eb Q. destruct (G _ _ Ea) as (a0 & A0 & [[CA ->] | (CA1 & CA2 & ->)]); destruct (G _ _ Eb) as (b0 & B0 & [[CB ->] | (CB1 & CB2 & ->)]); cbn [ccls cval] in *; try reflexivity.
      + destruct MIN as [M | M]; rewrite M in Q; congruence.
      + destruct MIN as [M | M]; rewrite M in Q; congruence.
      + exact (IC w1 w2 a0 b0 A0 B0 Q).
    - intros w cw x Ew Bw. destruct (G _ _ Ew) as (a0 & A0 & [[CA ->] | (CA1 & CA2 & ->)]); [discriminate Bw | exact (IB w a0 x A0 Bw)].
    - assert (GET : forall w cw, get t w = Some cw -> get t' w = Some (if (ccls cw =? ccls c1) || (ccls cw =? ccls c2) then mkcell (N.min (ccls c1) (ccls c2)) (Unbound u) else cw)).
      { intros w cw Ew. unfold t'. rewrite get_merge, Ew. reflexivity. }
      split.
      + intros [RB RC]. split; [split |].
        * intros w x (cw & Ew & Bw). apply RB. exists cw. split; [| exact Bw]. rewrite (GET w cw Ew).
          destruct ((ccls cw =? ccls c1) || (ccls cw =? ccls c2)) eqn:P; [| reflexivity].
          apply orb_true_iff in P. rewrite !N.eqb_eq in P. destruct (UNB w cw Ew P) as (u0 & Q). rewrite Q in Bw. discriminate Bw.
        * intros w1 w2 (a & b & Ea & Eb & Q). apply RC. eexists. eexists. rewrite (GET w1 a Ea), (GET w2 b Eb).
          split; [reflexivity |]. split; [reflexivity |]. rewrite Q. destruct ((ccls b =? ccls c1) || (ccls b =? ccls c2)); cbn [ccls]; congruence.
        * apply RC. eexists. eexists. rewrite (GET v1 c1 E1), (GET v2 c2 E2). split; [reflexivity |]. split; [reflexivity |].
          rewrite !N.eqb_refl, orb_true_r. reflexivity.
      + intros [[RB RC] EV]. split.
        * intros w x (cw & Ew & Bw). destruct (G _ _ Ew) as (a0 & A0 & [[CA ->] | (CA1 & CA2 & ->)]); [discriminate Bw |]. apply RB. exists a0. auto.
        * assert (CLS : forall w cw, get t w = Some cw -> (ccls cw = ccls c1 \/ ccls cw = ccls c2) -> eqv (ρ (lt_var w)) (ρ (lt_var v1))).
          { intros w cw Ew [Q | Q]; [apply RC; exists cw, c1; auto |]. eapply eqv_trans; [apply RC; exists cw, c2; eauto | apply eqv_sym; exact EV]. }
          intros w1 w2 (a & b & Ea & Eb & Q).
          destruct (G _ _ Ea) as (a0 & A0 & [[CA ->] | (CA1 & CA2 & ->)]); destruct (G _ _ Eb) as (b0 & B0 & [[CB ->] | (CB1 & CB2 & ->)]); cbn [ccls] in Q.
          -- eapply eqv_trans; [exact (CLS w1 a0 A0 CA) | apply eqv_sym; exact (CLS w2 b0 B0 CB)].
          -- exfalso. destruct MIN as [M | M]; rewrite M in Q; congruence.
          -- exfalso. destruct MIN as [M | M]; rewrite M in Q; congruence.
          -- apply RC. exists a0, b0. auto.
  Qed.

  (** ** One pair of lifetimes *)

  (** [t'] has at least the cells of [t], and every model of [t'] is a model of [t] *)
  Definition keeps (t t' : table) : Prop := forall v, (exists c, get t v = Some c) -> exists c', get t' v = Some c'.
  Definition mono (t t' : table) : Prop := (respects t' -> respects t) /\ keeps t t'.

  Lemma mono_refl t : mono t t.
  Proof. split; [auto | intros v H; exact H]. Qed.

  Lemma mono_trans t1 t2 t3 : mono t1 t2 -> mono t2 t3 -> mono t1 t3.
  Proof. intros [A B] [C E]. split; [auto | intros v H; apply E; apply B; exact H]. Qed.

  Lemma keeps_set_value c val t : keeps t (set_value c val t).
  Proof. intros v (c0 & E). rewrite get_set_value, E. cbn [option_map]. eauto. Qed.

  Lemma keeps_merge ca cb val t : keeps t (merge ca cb val t).
  Proof. intros v (c0 & E). rewrite get_merge, E. cbn [option_map]. eauto. Qed.

  Definition lstep (v : variance) (a0 b0 : tm) (t t' : table) (gs : list tm) : Prop :=
    ltinv t' /\ mono t t' /\ (respects t -> ((respects t' /\ sat_goals gs) <-> vrel v (ρ a0) (ρ b0))).

  Lemma closed_ltu_inv a : closed_ltu a = true -> closed_lt a = true \/ exists v, a = lt_var v.
  Proof.
    unfold closed_ltu. intros H. apply orb_true_iff in H. destruct H as [H | H]; [auto |].
    destruct a as [| | h cs]; try discriminate H. destruct h; try discriminate H. destruct cs; [| discriminate H]. right. exists v. reflexivity.
  Qed.

  Lemma norm_lt t a0 : closed_ltu a0 = true -> ltinv t ->
    (respects t -> eqv (ρ a0) (ρ (shallow1 t a0)))
    /\ (closed_lt (shallow1 t a0) = true \/ exists va, shallow1 t a0 = lt_var va /\ (forall c, get t va = Some c -> exists u, cval c = Unbound u)).
  Proof.
    intros CA [IC IB]. destruct (closed_ltu_inv _ CA) as [CL | (v & ->)].
    - unfold shallow1. rewrite (probe_closed_lt t a0 CL). split; [intros _; apply eqv_refl | auto].
    - unfold shallow1, lt_var. cbn [probe_tm]. destruct (get t v) as [c |] eqn:E.
      + destruct (cval c) as [u | l] eqn:B.
        * split; [intros _; apply eqv_refl |]. right. exists v. split; [reflexivity |]. intros c' E'. rewrite E in E'. inversion E' as [Q]. rewrite <- Q. exists u. exact B.
        * split; [intros [RB _]; apply RB; exists c; auto | left; exact (IB v c l E B)].
      + split; [intros _; apply eqv_refl |]. right. exists v. split; [reflexivity |]. intros c' E'. rewrite E in E'. discriminate E'.
  Qed.

  Lemma lstep_same v a b t : ltinv t -> (respects t -> vrel v (ρ a) (ρ b)) -> lstep v a b t t [].
  Proof.
    intros I H. split; [exact I |]. split; [apply mono_refl |]. intros R. split; [intros _; apply H; exact R | intros _; split; [exact R | intros x y []]].
  Qed.

  Lemma lstep_push v a b t : ltinv t ->
    lstep v a b t t (match v with Covariant => [outlives_goal b a] | Contravariant => [outlives_goal a b] | Invariant => [outlives_goal a b; outlives_goal b a] end).
  Proof.
    intros I. split; [exact I |]. split; [apply mono_refl |]. intros R. rewrite <- sat_push. tauto.
  Qed.

  Lemma is_inv_true v : is_inv v = true -> v = Invariant.
  Proof. destruct v; try discriminate; reflexivity. Qed.

  Lemma vrel_inv_eqv a b : vrel Invariant a b <-> eqv a b.
  Proof. reflexivity. Qed.

  (** [unify_lifetime_var] on an unbound unknown and a closed lifetime *)
  Lemma unify_lt_u v va b vu t r t' gs :
    ltinv t -> (forall c, get t va = Some c -> exists u, cval c = Unbound u) -> closed_lt b = true ->
    unify_lifetime_var v va b vu t = (Done r, t', gs) -> lstep v (lt_var va) b t t' gs.
  Proof.
    intros I UB CB H. unfold unify_lifetime_var in H.
    apply bind_inv in H. destruct H as (c & t2 & g2 & g3 & H1 & H2 & ->). apply get_cell_inv in H1. destruct H1 as (-> & -> & E).
    destruct (UB c E) as (u & B). rewrite B in H2.
    destruct ((vu <=? u) && is_inv v) eqn:C.
    - apply andb_true_iff in C. destruct C as [_ C]. apply is_inv_true in C. subst v.
      unfold bind_var in H2. apply bind_inv in H2. destruct H2 as (c' & t3 & g4 & g5 & H3 & H4 & ->). apply get_cell_inv in H3. destruct H3 as (-> & -> & E').
      rewrite E in E'. inversion E'; subst c'. rewrite B in H4. inversion H4; subst. clear H4.
      destruct (respects_bind t va c u b I E B CB) as [I' RR]. split; [exact I' |]. split; [split; [intros R; apply RR; exact R | apply keeps_set_value] |].
      intros R. cbn [app]. rewrite vrel_inv_eqv. rewrite RR. split; [intros [[_ Q] _]; exact Q | intros Q; split; [split; assumption | intros x y []]].
    - apply push_outlives_inv in H2. destruct H2 as (-> & ->). cbn [app]. apply lstep_push. exact I.
  Qed.

  Lemma lstep_sym v a b t t' gs : lstep (invert v) b a t t' gs -> lstep v a b t t' gs.
  Proof. intros (I & M & H). split; [exact I |]. split; [exact M |]. intros R. rewrite (H R). apply vrel_invert. Qed.

  Lemma lstep_eqv v a0 b0 a b t t' gs :
    (respects t -> eqv (ρ a0) (ρ a)) -> (respects t -> eqv (ρ b0) (ρ b)) -> lstep v a b t t' gs -> lstep v a0 b0 t t' gs.
  Proof.
    intros EA EB (I & M & H). split; [exact I |]. split; [exact M |]. intros R. rewrite (H R). symmetry. apply vrel_eqv; auto.
  Qed.

  Lemma rel_lt_u v a0 b0 t r t' gs :
    closed_ltu a0 = true -> closed_ltu b0 = true -> ltinv t ->
    rel_lt v a0 b0 t = (Done r, t', gs) -> lstep v a0 b0 t t' gs.
  Proof.
    intros CA CB I H. unfold rel_lt in H. rewrite bind_get_table' in H.
    destruct (norm_lt t a0 CA I) as [EA NA]. destruct (norm_lt t b0 CB I) as [EB NB].
    apply (lstep_eqv v a0 b0 _ _ t t' gs EA EB). clear EA EB.
    set (a := shallow1 t a0) in *. set (b := shallow1 t b0) in *. clearbody a b. unfold rel_lt_norm in H.
    assert (RIG : forall x, closed_lt x = true -> match lcls_of x with LPh _ | LStatic | LErased => True | _ => False end).
    { intros x Hx. destruct (closed_lt_inv x Hx) as [-> | [(u & i & ->) | ->]]; exact Logic.I. }
    assert (PUSH : (if tm_eqb a b then ret tt else push_outlives v a b) t = (Done r, t', gs) -> lstep v a b t t' gs).
    { intros H'. destruct (tm_eqb a b) eqn:Q.
      - apply tm_eqb_eq in Q. subst b. apply ret_inv in H'. destruct H' as (_ & -> & ->). apply lstep_same; [exact I | intros _; apply vrel_refl].
      - apply push_outlives_inv in H'. destruct H' as (-> & ->). apply lstep_push. exact I. }
    destruct NA as [CLa | (va & -> & UA)]; destruct NB as [CLb | (vb & -> & UB)].
    - (* two closed lifetimes *)
      pose proof (RIG a CLa) as Ra. pose proof (RIG b CLb) as Rb.
      destruct (closed_lt_inv a CLa) as [-> | [(ua & ia & ->) | ->]]; destruct (closed_lt_inv b CLb) as [-> | [(ub & ib & ->) | ->]];
        cbn [lcls_of] in H; try (apply PUSH; exact H);
        apply ret_inv in H; destruct H as (_ & -> & ->); apply lstep_same; try exact I; intros _; apply vrel_refl.
    - (* closed / unknown *)
      apply lstep_sym.
      destruct (closed_lt_inv a CLa) as [-> | [(ua & ia & ->) | ->]]; cbn [lcls_of lt_var] in H; eapply unify_lt_u; eauto.
    - (* unknown / closed *)
      destruct (closed_lt_inv b CLb) as [-> | [(ub & ib & ->) | ->]]; cbn [lcls_of lt_var] in H; eapply unify_lt_u; eauto.
    - (* unknown / unknown *)
      cbn [lcls_of lt_var] in H. destruct (is_inv v) eqn:IV.
      + apply is_inv_true in IV. subst v. unfold union_vars in H.
        apply bind_inv in H. destruct H as (ca & t2 & g2 & g3 & H1 & H2 & ->). apply get_cell_inv in H1. destruct H1 as (-> & -> & Ea).
        apply bind_inv in H2. destruct H2 as (cb & t3 & g4 & g5 & H3 & H4 & ->). apply get_cell_inv in H3. destruct H3 as (-> & -> & Eb).
        destruct (UA ca Ea) as (ua & Ba). destruct (UB cb Eb) as (ub & Bb).
        destruct (N.eqb_spec (ccls ca) (ccls cb)) as [Q | Q].
        * apply ret_inv in H4. destruct H4 as (_ & -> & ->). apply lstep_same; [exact I |]. intros [_ RC]. apply vrel_inv_eqv. apply RC. exists ca, cb. auto.
        * rewrite Ba, Bb in H4. inversion H4; subst. clear H4.
          destruct (respects_merge t va vb ca cb ua ub (Unbound (N.min ua ub)) I Ea Ba Eb Bb ltac:(eauto)) as [I' RR].
          split; [exact I' |]. split; [split; [intros R; apply RR; exact R | apply keeps_merge] |]. intros R. cbn [app]. rewrite vrel_inv_eqv, RR.
          split; [intros [[_ Q'] _]; exact Q' | intros Q'; split; [split; assumption | intros x y []]].
      + unfold unless_unioned in H.
        apply bind_inv in H. destruct H as (ca & t2 & g2 & g3 & H1 & H2 & ->). apply get_cell_inv in H1. destruct H1 as (-> & -> & Ea).
        apply bind_inv in H2. destruct H2 as (cb & t3 & g4 & g5 & H3 & H4 & ->). apply get_cell_inv in H3. destruct H3 as (-> & -> & Eb).
        destruct (N.eqb_spec (ccls ca) (ccls cb)) as [Q | Q].
        * apply ret_inv in H4. destruct H4 as (_ & -> & ->). apply lstep_same; [exact I |]. intros [_ RC].
          assert (EV : eqv (ρ (lt_var va)) (ρ (lt_var vb))) by (apply RC; exists ca, cb; auto).
          destruct EV as [E1 E2]. destruct v; cbn [vrel]; auto.
        * apply push_outlives_inv in H4. destruct H4 as (-> & ->). cbn [app]. apply lstep_push. exact I.
  Qed.

  (** every unknown of [a] has a cell *)
  Definition has_cells (t : table) (a : tm) : Prop := forall v, a = lt_var v -> exists c, get t v = Some c.

  Lemma unify_lt_done v va b vu t c u : get t va = Some c -> cval c = Unbound u ->
    exists r t' gs, unify_lifetime_var v va b vu t = (Done r, t', gs).
  Proof.
    intros E B. unfold unify_lifetime_var. rewrite bind_get_cell, E, B.
    destruct ((vu <=? u) && is_inv v).
    - unfold bind_var. rewrite bind_get_cell, E, B. eauto.
    - rewrite push_outlives_eq. eauto.
  Qed.

  Lemma rel_lt_done v a0 b0 t :
    closed_ltu a0 = true -> closed_ltu b0 = true -> has_cells t a0 -> has_cells t b0 -> ltinv t ->
    exists r t' gs, rel_lt v a0 b0 t = (Done r, t', gs).
  Proof.
    intros CA CB HA HB I. unfold rel_lt. rewrite bind_get_table'.
    assert (NF : forall x0, closed_ltu x0 = true -> has_cells t x0 ->
               closed_lt (shallow1 t x0) = true \/ exists vx c u, shallow1 t x0 = lt_var vx /\ get t vx = Some c /\ cval c = Unbound u).
    { intros x0 CX HX. destruct (closed_ltu_inv _ CX) as [CL | (vx & ->)].
      - left. unfold shallow1. rewrite (probe_closed_lt t x0 CL). exact CL.
      - destruct (HX vx eq_refl) as (c & E). unfold shallow1, lt_var. cbn [probe_tm]. rewrite E.
        destruct (cval c) as [u | l] eqn:B; [right; exists vx, c, u; auto | left; exact (proj2 I vx c l E B)]. }
    destruct (NF a0 CA HA) as [CLa | (va & ca & ua & -> & Ea & Ba)]; destruct (NF b0 CB HB) as [CLb | (vb & cb & ub & -> & Eb & Bb)]; unfold rel_lt_norm.
    - destruct (closed_lt_inv _ CLa) as [-> | [(u1 & i1 & ->) | ->]]; destruct (closed_lt_inv _ CLb) as [-> | [(u2 & i2 & ->) | ->]]; cbn [lcls_of];
        try (unfold ret; eauto);
        match goal with |- context [if ?c then _ else _] => destruct c end; try (unfold ret; eauto); rewrite push_outlives_eq; eauto.
    - destruct (closed_lt_inv _ CLa) as [-> | [(u1 & i1 & ->) | ->]]; cbn [lcls_of lt_var]; eapply unify_lt_done; eassumption.
    - destruct (closed_lt_inv _ CLb) as [-> | [(u2 & i2 & ->) | ->]]; cbn [lcls_of lt_var]; eapply unify_lt_done; eassumption.
    - cbn [lcls_of lt_var]. destruct (is_inv v).
      + unfold union_vars. rewrite bind_get_cell, Ea, bind_get_cell, Eb. destruct (ccls ca =? ccls cb); [unfold ret; eauto |]. rewrite Ba, Bb. eauto.
      + unfold unless_unioned. rewrite bind_get_cell, Ea, bind_get_cell, Eb. destruct (ccls ca =? ccls cb); [unfold ret; eauto |]. rewrite push_outlives_eq. eauto.
  Qed.

  (** ** Types *)

  Variable adt_var : N -> list variance.
  Variable fn_var : N -> list variance.
  Variable arity : N -> nat.
  Notation vc := (variance_constraints adt_var fn_var).

  Fixpoint ufrag (t : tm) : bool :=
    match t with
    | Node h cs =>
        match h with
        | HScalar _ | HStr | HNever | HForeign _ | HPlaceholder _ _ => match cs with [] => true | _ => false end
        | HRef _ => match cs with [l; x] => closed_ltu l && ufrag x | _ => false end
        | HRaw _ | HSlice => match cs with [x] => ufrag x | _ => false end
        | HTuple n => Nat.eqb (length cs) (N.to_nat n) && forallb ufrag cs
        | HAdt id => Nat.eqb (length cs) (arity id) && forallb (fun c => closed_ltu c || ufrag c) cs
        | HFnPtr n _ _ _ => (n =? 0) && negb (Nat.eqb (length cs) 0) && forallb ufrag cs
        | _ => false
        end
    | _ => false
    end.

  Definition uterm (t : tm) : bool := closed_ltu t || ufrag t.

  Lemma closed_ltu_kind a : closed_ltu a = true -> kind_of a = KLt.
  Proof. intros H. destruct (closed_ltu_inv _ H) as [C | (v & ->)]; [apply closed_lt_kind; exact C | reflexivity]. Qed.

  Lemma ufrag_kind a : ufrag a = true -> kind_of a = KTy.
  Proof. destruct a as [| | h cs]; try discriminate. destruct h; try discriminate; reflexivity. Qed.

  Lemma erase_ltu a : closed_ltu a = true -> erase a = Node HLStatic [].
  Proof. intros H. destruct (closed_ltu_inv _ H) as [C | (v & ->)]; [apply erase_lt; exact C | reflexivity]. Qed.

  Lemma erase_uty h cs : ufrag (Node h cs) = true -> erase (Node h cs) = Node h (map erase cs).
  Proof. intros H. apply ufrag_kind in H. cbn [erase]. unfold is_lifetime. rewrite H. reflexivity. Qed.

  Lemma ufrag_children h cs : ufrag (Node h cs) = true -> Forall (fun c => uterm c = true) cs.
  Proof.
    unfold uterm. destruct h; cbn [ufrag]; try discriminate; intros H.
    all: try (destruct cs; [constructor | discriminate]).
    - apply andb_true_iff in H. destruct H as [_ H]. rewrite forallb_forall in H. apply Forall_forall. exact H.
    - apply andb_true_iff in H. destruct H as [_ H]. rewrite forallb_forall in H. apply Forall_forall.
      intros x Hx. rewrite (H x Hx). apply orb_true_r.
    - destruct cs as [| x [| y r]]; try discriminate. constructor; [| constructor]. rewrite H. apply orb_true_r.
    - destruct cs as [| x [| y r]]; try discriminate. constructor; [| constructor]. rewrite H. apply orb_true_r.
    - destruct cs as [| l [| x [| z r]]]; try discriminate. apply andb_true_iff in H. destruct H as [H1 H2].
      constructor; [rewrite H1; reflexivity | constructor; [rewrite H2; apply orb_true_r | constructor]].
    - apply andb_true_iff in H. destruct H as [_ H]. rewrite forallb_forall in H. apply Forall_forall.
      intros x Hx. rewrite (H x Hx). apply orb_true_r.
  Qed.

  Lemma ufrag_head_not_static h cs : ufrag (Node h cs) = true -> h <> HLStatic.
  Proof. destruct h; try discriminate; intros _ E; discriminate E. Qed.

  Lemma ufrag_class h cs : ufrag (Node h cs) = true ->
    (structural_head h = true /\ tcls_of (Node h cs) = COther) \/ (exists u i, h = HPlaceholder u i /\ cs = [])
    \/ (exists a s vd, h = HFnPtr 0 a s vd /\ cs <> []).
  Proof.
    destruct h; cbn [ufrag]; try discriminate; intros H; try (left; split; reflexivity).
    - right. left. destruct cs; [eauto | discriminate].
    - right. right. apply andb_true_iff in H. destruct H as [H _]. apply andb_true_iff in H. destruct H as [H1 H2].
      apply N.eqb_eq in H1. subst. exists a, s, variadic. split; [reflexivity |]. intros ->. discriminate H2.
  Qed.

  Lemma ufrag_same_head_len h ca cb :
    structural_head h = true -> ufrag (Node h ca) = true -> ufrag (Node h cb) = true -> length ca = length cb.
  Proof.
    destruct h; cbn [structural_head ufrag]; try discriminate; intros _ Ha Hb.
    - apply andb_true_iff in Ha, Hb. destruct Ha as [Ha _], Hb as [Hb _]. apply Nat.eqb_eq in Ha, Hb. congruence.
    - destruct ca, cb; try discriminate; reflexivity.
    - apply andb_true_iff in Ha, Hb. destruct Ha as [Ha _], Hb as [Hb _]. apply Nat.eqb_eq in Ha, Hb. congruence.
    - destruct ca as [| ? [| ? ?]], cb as [| ? [| ? ?]]; try discriminate; reflexivity.
    - destruct ca as [| ? [| ? ?]], cb as [| ? [| ? ?]]; try discriminate; reflexivity.
    - destruct ca as [| ? [| ? [| ? ?]]], cb as [| ? [| ? [| ? ?]]]; try discriminate; reflexivity.
    - destruct ca, cb; try discriminate; reflexivity.
    - destruct ca, cb; try discriminate; reflexivity.
    - destruct ca, cb; try discriminate; reflexivity.
  Qed.

  Lemma probe_ufrag t a : ufrag a = true -> probe_tm t a = None.
  Proof. destruct a as [| | h cs]; try discriminate. destruct h; try discriminate; reflexivity. Qed.

  (** every lifetime unknown occurring in [a] has a cell in [t] *)
  Definition ucells (t : table) : tm -> Prop :=
    allsub (fun h => match h with HLInfer v => exists c, get t v = Some c | _ => True end).

  Lemma ucells_keeps t t' a : keeps t t' -> ucells t a -> ucells t' a.
  Proof. intros K. apply allsub_impl. intros h H. destruct h; try exact Logic.I. apply K. exact H. Qed.

  Lemma ucells_children t h cs : ucells t (Node h cs) -> Forall (ucells t) cs.
  Proof. intros H. apply allsub_node in H. apply H. Qed.

  Lemma ucells_has_cells t a : ucells t a -> has_cells t a.
  Proof. intros H v ->. apply allsub_node in H. apply H. Qed.

  Definition tstep (v : variance) (a b : tm) (t t' : table) (gs : list tm) : Prop :=
    ltinv t' /\ mono t t' /\ (respects t -> ((respects t' /\ sat_goals gs) <-> sat (vc v a b))).

  Definition usem (v : variance) (a b : tm) (t : table) (r : out unit * table * list tm) : Prop :=
    (erase a = erase b /\ exists t' gs, r = (Done tt, t', gs) /\ tstep v a b t t' gs)
    \/ (erase a <> erase b /\ exists t' gs, r = (NoSol, t', gs)).

  Lemma tstep_same v a t : ltinv t -> tstep v a a t t [].
  Proof.
    intros I. split; [exact I |]. split; [apply mono_refl |]. intros R. rewrite (vc_refl adt_var fn_var a v).
    split; [intros _ p [] | intros _; split; [exact R | intros x y []]].
  Qed.

  (** fn pointers without binders: instantiation is the identity *)
  Lemma subst_u : forall c ps k, uterm c = true -> subst ps k c = Ok c.
  Proof.
    induction c as [s d i | d i c IH | h cs IH] using tm_ind'; intros ps k H; try discriminate.
    assert (HC : Forall (fun c => uterm c = true) cs).
    { unfold uterm in H. apply orb_true_iff in H. destruct H as [H | H].
      - destruct (closed_ltu_inv _ H) as [C | (v & E)].
        + destruct (closed_lt_inv _ C) as [E | [(u & i & E) | E]]; inversion E; constructor.
        + inversion E; constructor.
      - apply ufrag_children in H. exact H. }
    cbn [subst]. rewrite (rmap_ok _ cs cs); [reflexivity |].
    clear H. induction cs as [| x r IHr]; [constructor |].
    inversion IH; subst. inversion HC; subst. constructor; [apply H1; assumption | apply IHr; assumption].
  Qed.

  Lemma subst_children_u ps cs t :
    Forall (fun c => uterm c = true) cs -> subst_children ps cs t = (Done cs, t, []).
  Proof.
    intros H. unfold subst_children. rewrite (rmap_ok _ cs cs); [reflexivity |].
    induction H as [| x r Hx _ IHr]; [constructor | constructor; [apply subst_u; exact Hx | exact IHr]].
  Qed.

  Lemma inst_univ_u cs t : Forall (fun c => uterm c = true) cs -> inst_univ 0 cs t = (Done cs, t, []).
  Proof. intros H. unfold inst_univ. cbn [N.eqb]. apply subst_children_u. exact H. Qed.

  Lemma inst_exist_u cs t : Forall (fun c => uterm c = true) cs -> inst_exist 0 cs t = (Done cs, t, []).
  Proof.
    intros H. unfold inst_exist. rewrite bind_get_table. cbn [N.to_nat seq mapM].
    rewrite bind_ret. cbn [map]. apply subst_children_u. exact H.
  Qed.

  Lemma erase_app_tail_u pa ra pb rb : length pa = length pb ->
    (map erase (pa ++ [ra]) = map erase (pb ++ [rb]) <-> map erase pa = map erase pb /\ erase ra = erase rb).
  Proof.
    intros Hl. rewrite !map_app. cbn [map]. split.
    - intros H. apply app_inj_tail in H. exact H.
    - intros [-> ->]. reflexivity.
  Qed.

  Lemma vc_fn w a s vd pa ra pb rb : length pa = length pb ->
    vc w (Node (HFnPtr 0 a s vd) (pa ++ [ra])) (Node (HFnPtr 0 a s vd) (pb ++ [rb])) =
    vc_children adt_var fn_var (fun _ => xform w Contravariant) 0 pa pb ++ vc w ra rb.
  Proof.
    intros Hl. set (h := HFnPtr 0 a s vd).
    rewrite vc_node. replace (is_lifetime (Node h (pa ++ [ra]))) with false by reflexivity.
    rewrite vc_children_app by exact Hl. cbn [vc_children]. rewrite app_nil_r. f_equal.
    - apply vc_children_ext. intros j Hj. unfold h. cbn [position_variance]. rewrite app_length. cbn [length].
      replace (length pa + 1 - 1)%nat with (length pa) by lia. cbn [Nat.add].
      destruct (Nat.ltb_spec j (length pa)); [reflexivity | lia].
    - unfold h. cbn [position_variance]. rewrite app_length. cbn [length Nat.add].
      replace (length pa + 1 - 1)%nat with (length pa) by lia.
      destruct (Nat.ltb_spec (length pa) (length pa)); [lia | apply f_equal2; [apply xform_cov_r | reflexivity] || (rewrite xform_cov_r; reflexivity)].
  Qed.

  Lemma sat_seteq r1 r2 : seteq r1 r2 -> (sat r1 <-> sat r2).
  Proof. intros H. unfold sat. split; intros S p Hp; apply S; apply H; exact Hp. Qed.

  Section LevelU.
    Variable f : nat.
    Hypothesis IH : forall v a b t, uterm a = true -> uterm b = true -> (depth a <= f)%nat -> ltinv t -> ucells t a -> ucells t b ->
      usem v a b t (rel_garg (rel adt_var fn_var f) v a b t).

    Lemma zip_u : forall ca cb vf i t,
      Forall (fun c => uterm c = true) ca -> Forall (fun c => uterm c = true) cb -> length ca = length cb ->
      Forall (fun c => (depth c <= f)%nat) ca -> ltinv t -> Forall (ucells t) ca -> Forall (ucells t) cb ->
      (map erase ca = map erase cb /\ exists t' gs, zip_children (rel adt_var fn_var f) vf i ca cb t = (Done tt, t', gs)
          /\ ltinv t' /\ mono t t'
          /\ (respects t -> ((respects t' /\ sat_goals gs) <-> sat (vc_children adt_var fn_var vf i ca cb))))
      \/ (map erase ca <> map erase cb /\ exists t' gs, zip_children (rel adt_var fn_var f) vf i ca cb t = (NoSol, t', gs)).
    Proof.
      induction ca as [| x r IHr]; intros cb vf i t Ha Hb Hl Hd I Ua Ub; destruct cb as [| y r']; try discriminate Hl.
      - left. split; [reflexivity |]. exists t, []. split; [reflexivity |]. split; [exact I |]. split; [apply mono_refl |].
        intros R. cbn [vc_children]. split; [intros _ p [] | intros _; split; [exact R | intros x y []]].
      - apply Forall_cons_iff in Ha, Hb, Hd, Ua, Ub. destruct Ha as [Hax Har], Hb as [Hby Hbr], Hd as [Hdx Hdr], Ua as [Uax Uar], Ub as [Uby Ubr]. cbn [length] in Hl.
        cbn [zip_children].
        destruct (IH (vf i) x y t Hax Hby Hdx I Uax Uby) as [(E & t1 & g1 & R1 & I1 & M1 & Q1) | (E & t1 & g1 & R1)].
        + assert (Uar1 : Forall (ucells t1) r) by (eapply Forall_impl; [| exact Uar]; intros z Hz; eapply ucells_keeps; [apply M1 | exact Hz]).
          assert (Ubr1 : Forall (ucells t1) r') by (eapply Forall_impl; [| exact Ubr]; intros z Hz; eapply ucells_keeps; [apply M1 | exact Hz]).
          destruct (IHr r' vf (S i) t1 Har Hbr (eq_add_S _ _ Hl) Hdr I1 Uar1 Ubr1) as [(E' & t2 & g2 & R2 & I2 & M2 & Q2) | (E' & t2 & g2 & R2)].
          * left. split; [cbn [map]; congruence |]. exists t2, (g1 ++ g2). split.
            -- rewrite (bind_done _ _ _ _ _ _ R1). cbn [zip_children] in R2. rewrite R2. reflexivity.
            -- split; [exact I2 |]. split; [eapply mono_trans; eassumption |]. intros R. cbn [vc_children]. rewrite sat_app, sat_goals_app. split.
               ++ intros (R2' & G1 & G2). pose proof (proj1 M2 R2') as R1'. split; [apply (Q1 R); auto | apply (Q2 R1'); auto].
               ++ intros (S1 & S2). destruct (proj2 (Q1 R) S1) as [R1' G1]. destruct (proj2 (Q2 R1') S2) as [R2' G2]. auto.
          * right. split; [cbn [map]; intros Q; inversion Q; contradiction |]. exists t2, (g1 ++ g2).
            rewrite (bind_done _ _ _ _ _ _ R1). cbn [zip_children] in R2. rewrite R2. reflexivity.
        + right. split; [cbn [map]; intros Q; inversion Q; contradiction |]. exists t1, g1.
          rewrite (bind_nosol _ _ _ _ _ R1). reflexivity.
    Qed.

    Lemma zip_fn_u w a s vd ca cb t :
      ufrag (Node (HFnPtr 0 a s vd) ca) = true -> ufrag (Node (HFnPtr 0 a s vd) cb) = true ->
      (depth (Node (HFnPtr 0 a s vd) ca) <= S f)%nat -> ltinv t ->
      ucells t (Node (HFnPtr 0 a s vd) ca) -> ucells t (Node (HFnPtr 0 a s vd) cb) ->
      usem w (Node (HFnPtr 0 a s vd) ca) (Node (HFnPtr 0 a s vd) cb) t (zip_fn_subst (rel adt_var fn_var f) w ca cb t).
    Proof.
      intros Ha Hb Hd I Ua Ub. set (h := HFnPtr 0 a s vd) in *.
      pose proof (ufrag_children _ _ Ha) as Ca. pose proof (ufrag_children _ _ Hb) as Cb.
      pose proof (ucells_children _ _ _ Ua) as Uca. pose proof (ucells_children _ _ _ Ub) as Ucb.
      assert (Da : Forall (fun c => (depth c <= f)%nat) ca).
      { eapply Forall_impl; [| apply (depth_children h ca)]. cbn beta. intros c Hc. lia. }
      destruct (ufrag_class _ _ Ha) as [(Q & _) | [(u & i & Q & _) | (a' & s' & vd' & _ & Na)]]; try discriminate Q.
      destruct (ufrag_class _ _ Hb) as [(Q & _) | [(u & i & Q & _) | (a'' & s'' & vd'' & _ & Nb)]]; try discriminate Q.
      destruct (exists_last Na) as (pa & ra & ->). destruct (exists_last Nb) as (pb & rb & ->).
      unfold usem. rewrite (erase_uty _ _ Ha), (erase_uty _ _ Hb).
      apply Forall_app in Ca, Cb, Da, Uca, Ucb.
      destruct Ca as [Cpa Cra], Cb as [Cpb Crb], Da as [Dpa Dra], Uca as [Upa Ura], Ucb as [Upb Urb].
      apply Forall_cons_iff in Cra, Crb, Dra, Ura, Urb.
      destruct Cra as [Cra _], Crb as [Crb _], Dra as [Dra _], Ura as [Ura _], Urb as [Urb _].
      unfold zip_fn_subst. rewrite !rev_app_distr. cbn [rev app]. rewrite !rev_length, !rev_involutive.
      destruct (Nat.eqb_spec (length pa) (length pb)) as [Hl | Hl].
      - pose proof (vc_fn w a s vd pa ra pb rb Hl) as V. fold h in V.
        destruct (zip_u pa pb (fun _ => xform w Contravariant) 0%nat t Cpa Cpb Hl Dpa I Upa Upb)
          as [(E & t1 & g1 & R1 & I1 & M1 & Q1) | (E & t1 & g1 & R1)].
        + destruct (IH w ra rb t1 Cra Crb Dra I1 (ucells_keeps _ _ _ (proj2 M1) Ura) (ucells_keeps _ _ _ (proj2 M1) Urb))
            as [(E' & t2 & g2 & R2 & I2 & M2 & Q2) | (E' & t2 & g2 & R2)].
          * left. split; [f_equal; apply (erase_app_tail_u pa ra pb rb Hl); split; assumption |].
            exists t2, (g1 ++ g2). split; [rewrite (bind_done _ _ _ _ _ _ R1), R2; reflexivity |].
            split; [exact I2 |]. split; [eapply mono_trans; eassumption |]. intros R. rewrite V, sat_app, sat_goals_app. split.
            -- intros (R2' & G1 & G2). pose proof (proj1 M2 R2') as R1'. split; [apply (Q1 R); auto | apply (Q2 R1'); auto].
            -- intros (S1 & S2). destruct (proj2 (Q1 R) S1) as [R1' G1]. destruct (proj2 (Q2 R1') S2) as [R2' G2]. auto.
          * right. split; [intros Q; inversion Q as [Q']; apply (erase_app_tail_u pa ra pb rb Hl) in Q'; destruct Q'; contradiction |].
            exists t2, (g1 ++ g2). rewrite (bind_done _ _ _ _ _ _ R1), R2. reflexivity.
        + right. split; [intros Q; inversion Q as [Q']; apply (erase_app_tail_u pa ra pb rb Hl) in Q'; destruct Q'; contradiction |].
          exists t1, g1. rewrite (bind_nosol _ _ _ _ _ R1). reflexivity.
      - right. split; [| exists t, []; reflexivity].
        intros Q. inversion Q as [Q']. apply (f_equal (@length tm)) in Q'. rewrite !map_length, !app_length in Q'. cbn [length] in Q'. lia.
    Qed.

    Lemma rel_fn_binders_u v a s vd ca cb t :
      ufrag (Node (HFnPtr 0 a s vd) ca) = true -> ufrag (Node (HFnPtr 0 a s vd) cb) = true ->
      (depth (Node (HFnPtr 0 a s vd) ca) <= S f)%nat -> ltinv t ->
      ucells t (Node (HFnPtr 0 a s vd) ca) -> ucells t (Node (HFnPtr 0 a s vd) cb) ->
      usem v (Node (HFnPtr 0 a s vd) ca) (Node (HFnPtr 0 a s vd) cb) t
           (rel_fn_binders (rel adt_var fn_var f) v 0 ca 0 cb t).
    Proof.
      intros Ha Hb Hd I Ua Ub.
      pose proof (ufrag_children _ _ Ha) as Ca. pose proof (ufrag_children _ _ Hb) as Cb.
      assert (P : forall w t0, (bu <- inst_univ 0 cb ;; ae <- inst_exist 0 ca ;; zip_fn_subst (rel adt_var fn_var f) w ae bu) t0
                       = zip_fn_subst (rel adt_var fn_var f) w ca cb t0).
      { intros w t0. rewrite (bind_done _ _ _ _ _ _ (inst_univ_u cb t0 Cb)).
        rewrite (bind_done _ _ _ _ _ _ (inst_exist_u ca t0 Ca)).
        destruct (zip_fn_subst (rel adt_var fn_var f) w ca cb t0) as [[r t2] g2]. reflexivity. }
      assert (P' : forall w t0, (au <- inst_univ 0 ca ;; be <- inst_exist 0 cb ;; zip_fn_subst (rel adt_var fn_var f) w au be) t0
                       = zip_fn_subst (rel adt_var fn_var f) w ca cb t0).
      { intros w t0. rewrite (bind_done _ _ _ _ _ _ (inst_univ_u ca t0 Ca)).
        rewrite (bind_done _ _ _ _ _ _ (inst_exist_u cb t0 Cb)).
        destruct (zip_fn_subst (rel adt_var fn_var f) w ca cb t0) as [[r t2] g2]. reflexivity. }
      unfold rel_fn_binders. destruct v.
      - rewrite bind_ret. rewrite (P Covariant t). apply zip_fn_u; assumption.
      - destruct (zip_fn_u Contravariant a s vd ca cb t Ha Hb Hd I Ua Ub) as [(E & t1 & g1 & R1 & I1 & M1 & Q1) | (E & t1 & g1 & R1)].
        + destruct (zip_fn_u Covariant a s vd ca cb t1 Ha Hb Hd I1 (ucells_keeps _ _ _ (proj2 M1) Ua) (ucells_keeps _ _ _ (proj2 M1) Ub))
            as [(_ & t2 & g2 & R2 & I2 & M2 & Q2) | (E' & _)]; [| contradiction].
          left. split; [exact E |]. exists t2, (g1 ++ g2). split.
          * rewrite <- P' in R1. rewrite (bind_done _ _ _ _ _ _ R1). rewrite (P Covariant t1), R2. reflexivity.
          * split; [exact I2 |]. split; [eapply mono_trans; eassumption |]. intros R.
            rewrite (sat_seteq _ _ (vc_inv_split adt_var fn_var _ _ Contravariant)). cbn [invert].
            rewrite sat_app, sat_goals_app. split.
            -- intros (R2' & G1 & G2). pose proof (proj1 M2 R2') as R1'. split; [apply (Q1 R); auto | apply (Q2 R1'); auto].
            -- intros (S1 & S2). destruct (proj2 (Q1 R) S1) as [R1' G1]. destruct (proj2 (Q2 R1') S2) as [R2' G2]. auto.
        + right. split; [exact E |]. exists t1, g1. rewrite <- P' in R1. rewrite (bind_nosol _ _ _ _ _ R1). reflexivity.
      - destruct (zip_fn_u Contravariant a s vd ca cb t Ha Hb Hd I Ua Ub) as [(E & t1 & g1 & R1 & I1 & M1 & Q1) | (E & t1 & g1 & R1)].
        + left. split; [exact E |]. exists t1, (g1 ++ []). split.
          * rewrite <- P' in R1. rewrite (bind_done _ _ _ _ _ _ R1). reflexivity.
          * rewrite app_nil_r. split; [exact I1 |]. split; [exact M1 | exact Q1].
        + right. split; [exact E |]. exists t1, g1. rewrite <- P' in R1. rewrite (bind_nosol _ _ _ _ _ R1). reflexivity.
    Qed.

    Lemma node_erase_u h ca h' cb :
      ufrag (Node h ca) = true -> ufrag (Node h' cb) = true ->
      (erase (Node h ca) = erase (Node h' cb) <-> h = h' /\ map erase ca = map erase cb).
    Proof.
      intros Ha Hb. rewrite (erase_uty _ _ Ha), (erase_uty _ _ Hb). split.
      - intros Q. inversion Q. split; reflexivity.
      - intros [-> ->]. reflexivity.
    Qed.

    Lemma rel_ty_u v a b t :
      ufrag a = true -> ufrag b = true -> (depth a <= S f)%nat -> ltinv t -> ucells t a -> ucells t b ->
      usem v a b t (rel_ty adt_var fn_var f (rel adt_var fn_var f) v a b t).
    Proof.
      intros Ha Hb Hd I Ua Ub. unfold rel_ty. rewrite bind_get_table'. unfold shallow_ty.
      rewrite (probe_ufrag t a Ha), (probe_ufrag t b Hb). unfold rel_ty_norm.
      destruct (tm_eqb a b) eqn:Eab.
      { apply tm_eqb_eq in Eab. subst b. left. split; [reflexivity |]. exists t, []. split; [reflexivity | apply tstep_same; exact I]. }
      assert (Nab : a <> b). { intros Q. apply tm_eqb_eq in Q. congruence. }
      destruct a as [| | ha ca]; try discriminate Ha. destruct b as [| | hb cb]; try discriminate Hb.
      assert (NS : forall gs, erase (Node ha ca) <> erase (Node hb cb) -> usem v (Node ha ca) (Node hb cb) t (NoSol, t, gs)).
      { intros gs Q. right. split; [exact Q | eauto]. }
      destruct (head_eq_dec ha hb) as [Eh | Nh].
      - subst hb. destruct (ufrag_class _ _ Ha) as [(Sa & Ta) | [(u & i & Q & Q') | (a' & s' & vd' & Q & Na)]].
        + destruct (ufrag_class _ _ Hb) as [(_ & Tb) | [(u & i & Q & _) | (a' & s' & vd' & Q & _)]]; try (subst ha; discriminate Sa).
          rewrite Ta, Tb, Sa. unfold head_eqb. destruct (head_eq_dec ha ha) as [_ | Q]; [| contradiction]. cbn [andb].
          pose proof (ufrag_same_head_len _ _ _ Sa Ha Hb) as Hl.
          assert (Da : Forall (fun c => (depth c <= f)%nat) ca).
          { eapply Forall_impl; [| apply (depth_children ha ca)]. cbn beta. intros c Hc. lia. }
          destruct (zip_u ca cb (child_variance adt_var fn_var ha v) 0%nat t (ufrag_children _ _ Ha) (ufrag_children _ _ Hb) Hl Da I (ucells_children _ _ _ Ua) (ucells_children _ _ _ Ub))
            as [(E & t' & gs & R & I' & M' & Q') | (E & t' & gs & R)].
          * left. split; [apply node_erase_u; auto |]. exists t', gs. split; [exact R |]. split; [exact I' |]. split; [exact M' |].
            intros R0. rewrite (Q' R0). rewrite vc_node. replace (is_lifetime (Node ha ca)) with false
              by (symmetry; unfold is_lifetime; rewrite (ufrag_kind _ Ha); reflexivity).
            rewrite (vc_children_ext adt_var fn_var (fun i => xform v (position_variance adt_var fn_var ha (length ca) i)) (child_variance adt_var fn_var ha v)); [reflexivity |].
            intros j _. symmetry. apply child_variance_spec. exact Sa.
          * right. split; [intros Q; apply node_erase_u in Q; auto; destruct Q; contradiction | eauto].
        + subst ha ca. destruct (ufrag_class _ _ Hb) as [(Sb & _) | [(u' & i' & _ & Q) | (a' & s' & vd' & Q & _)]]; try discriminate.
          subst cb. contradiction Nab. reflexivity.
        + subst ha. cbn [tcls_of]. cbn [abi_eqb safety_eqb].
          replace (abi_eqb a' a' && safety_eqb s' s' && Bool.eqb vd' vd') with true
            by (destruct a', s', vd'; reflexivity).
          apply rel_fn_binders_u; assumption.
      - assert (Q : erase (Node ha ca) <> erase (Node hb cb)).
        { intros Q. apply node_erase_u in Q; auto. destruct Q. contradiction. }
        destruct (ufrag_class _ _ Ha) as [(Sa & Ta) | [(u & i & -> & ->) | (a' & s' & vd' & -> & Na)]];
          destruct (ufrag_class _ _ Hb) as [(Sb & Tb) | [(u' & i' & -> & ->) | (a'' & s'' & vd'' & -> & Nb)]].
        + rewrite Ta, Tb, Sa. unfold head_eqb. destruct (head_eq_dec ha hb); [contradiction |]. cbn [andb]. apply NS. exact Q.
        + rewrite Ta. cbn [tcls_of]. apply NS. exact Q.
        + rewrite Ta. cbn [tcls_of]. apply NS. exact Q.
        + rewrite Tb. cbn [tcls_of]. apply NS. exact Q.
        + cbn [tcls_of]. apply NS. exact Q.
        + cbn [tcls_of]. apply NS. exact Q.
        + rewrite Tb. cbn [tcls_of]. apply NS. exact Q.
        + cbn [tcls_of]. apply NS. exact Q.
        + cbn [tcls_of].
          replace (abi_eqb a' a'' && safety_eqb s' s'' && Bool.eqb vd' vd'') with false; [apply NS; exact Q |].
          symmetry. destruct a', a'', s', s'', vd', vd''; try reflexivity; contradiction Nh; reflexivity.
    Qed.
  End LevelU.

  Lemma rel_garg_u : forall f v a b t,
    uterm a = true -> uterm b = true -> (depth a <= f)%nat -> ltinv t -> ucells t a -> ucells t b ->
    usem v a b t (rel_garg (rel adt_var fn_var f) v a b t).
  Proof.
    induction f as [| f IH]; intros v a b t Ha Hb Hd I Ua Ub; [pose proof (depth_pos a); lia |].
    unfold rel_garg. unfold uterm in Ha, Hb. apply orb_true_iff in Ha, Hb.
    destruct Ha as [Ha | Ha], Hb as [Hb | Hb].
    - rewrite (closed_ltu_kind _ Ha), (closed_ltu_kind _ Hb). cbn [kind_eqb rel].
      rewrite (closed_ltu_kind _ Ha), (closed_ltu_kind _ Hb).
      left. split; [rewrite (erase_ltu _ Ha), (erase_ltu _ Hb); reflexivity |].
      destruct (rel_lt_done v a b t Ha Hb (ucells_has_cells _ _ Ua) (ucells_has_cells _ _ Ub) I) as ([] & t' & gs & R).
      exists t', gs. split; [exact R |]. destruct (rel_lt_u v a b t tt t' gs Ha Hb I R) as (I' & M' & Q').
      split; [exact I' |]. split; [exact M' |]. intros R0. rewrite (Q' R0).
      assert (VC : vc v a b = lifetime_requirements v a b).
      { destruct a as [| | h cs]; try discriminate Ha. destruct b as [| | h' cs']; try discriminate Hb.
        rewrite vc_node. unfold is_lifetime. rewrite (closed_ltu_kind _ Ha). reflexivity. }
      rewrite VC. symmetry. apply sat_lifetime_requirements.
    - rewrite (closed_ltu_kind _ Ha), (ufrag_kind _ Hb). cbn [kind_eqb]. right. split; [| exists t, []; reflexivity].
      rewrite (erase_ltu _ Ha). destruct b as [| | hb cb]; try discriminate Hb. rewrite (erase_uty _ _ Hb).
      intros Q. inversion Q as [Q0]. symmetry in Q0. revert Q0. apply (ufrag_head_not_static _ _ Hb).
    - rewrite (ufrag_kind _ Ha), (closed_ltu_kind _ Hb). cbn [kind_eqb]. right. split; [| exists t, []; reflexivity].
      rewrite (erase_ltu _ Hb). destruct a as [| | ha ca]; try discriminate Ha. rewrite (erase_uty _ _ Ha).
      intros Q. inversion Q as [Q0]. revert Q0. apply (ufrag_head_not_static _ _ Ha).
    - rewrite (ufrag_kind _ Ha), (ufrag_kind _ Hb). cbn [kind_eqb rel].
      rewrite (ufrag_kind _ Ha), (ufrag_kind _ Hb). apply rel_ty_u; assumption.
  Qed.

  (** [relate] drops trivial SUBTYPE goals only *)
  Lemma sat_goals_retain t gs : sat_goals (retain_goals t gs) <-> sat_goals gs.
  Proof.
    unfold sat_goals, retain_goals. split; intros H x y Hin.
    - apply H. apply filter_In. split; [exact Hin | reflexivity].
    - apply filter_In in Hin. apply H. apply Hin.
  Qed.

  Lemma relate_u fuel v a b t :
    ufrag a = true -> ufrag b = true -> (depth a <= fuel)%nat -> ltinv t -> ucells t a -> ucells t b ->
    (erase a = erase b /\ exists gs t', relate adt_var fn_var fuel v a b t = (Done gs, t')
        /\ ltinv t' /\ mono t t' /\ (respects t -> ((respects t' /\ sat_goals gs) <-> sat (vc v a b))))
    \/ (erase a <> erase b /\ relate adt_var fn_var fuel v a b t = (NoSol, t)).
  Proof.
    intros Ha Hb Hd I Ua Ub.
    assert (Ca : uterm a = true) by (unfold uterm; rewrite Ha; apply orb_true_r).
    assert (Cb : uterm b = true) by (unfold uterm; rewrite Hb; apply orb_true_r).
    pose proof (rel_garg_u fuel v a b t Ca Cb Hd I Ua Ub) as H.
    unfold rel_garg in H. rewrite (ufrag_kind _ Ha), (ufrag_kind _ Hb) in H. cbn [kind_eqb] in H.
    unfold relate. destruct H as [(E & t' & gs & R & I' & M' & Q') | (E & t' & gs & R)]; rewrite R.
    - left. split; [exact E |]. exists (retain_goals t' gs), t'. split; [reflexivity |]. split; [exact I' |]. split; [exact M' |].
      intros R0. rewrite sat_goals_retain. exact (Q' R0).
    - right. split; [exact E |]. destruct t; reflexivity.
  Qed.
End Model.

(** ** The property theorems for types with lifetime unknowns *)

Section Final.
  Variable adt_var : N -> list variance.
  Variable fn_var : N -> list variance.
  Variable arity : N -> nat.

  (** success iff the lifetime-erased structures agree (any variance; stated at [Covariant]) *)
  Lemma relate_cov_shape_unknowns_lemma fuel a b t :
    ufrag arity a = true -> ufrag arity b = true -> (depth a <= fuel)%nat -> ltinv t -> ucells t a -> ucells t b ->
    ((exists gs t', relate adt_var fn_var fuel Covariant a b t = (Done gs, t')) <-> erase a = erase b).
  Proof.
    intros Ha Hb Hd I Ua Ub.
    destruct (relate_u unit (fun _ _ => True) (fun _ => Logic.I) (fun _ _ _ _ _ => Logic.I) (fun _ => tt)
                adt_var fn_var arity fuel Covariant a b t Ha Hb Hd I Ua Ub) as [(E & gs & t' & R & _) | (E & R)].
    - split; [intros _; exact E | intros _; exists gs, t'; exact R].
    - split; [intros (gs & t' & R'); rewrite R in R'; discriminate R' | intros Q; contradiction].
  Qed.

  (** In every preorder model of the lifetimes that respects the table before the call: the
      model respects the table after the call and satisfies the returned goals, iff it
      satisfies the requirements dictated by variance.  Every model of the resulting table is
      a model of the initial one, and the resulting table is again well formed (so calls
      compose). *)
  Lemma relate_cov_constraints_unknowns_lemma fuel a b t gs t' :
    ufrag arity a = true -> ufrag arity b = true -> (depth a <= fuel)%nat -> ltinv t -> ucells t a -> ucells t b ->
    relate adt_var fn_var fuel Covariant a b t = (Done gs, t') ->
    ltinv t' /\
    forall (D : Type) (le : D -> D -> Prop), (forall x, le x x) -> (forall x y z, le x y -> le y z -> le x z) ->
    forall ρ : tm -> D,
      (respects D le ρ t' -> respects D le ρ t)
      /\ (respects D le ρ t ->
           ((respects D le ρ t' /\ sat_goals D le ρ gs) <-> sat D le ρ (variance_constraints adt_var fn_var Covariant a b))).
  Proof.
    intros Ha Hb Hd I Ua Ub R. split.
    - destruct (relate_u unit (fun _ _ => True) (fun _ => Logic.I) (fun _ _ _ _ _ => Logic.I) (fun _ => tt)
                  adt_var fn_var arity fuel Covariant a b t Ha Hb Hd I Ua Ub) as [(E & gs0 & t0 & R0 & I0 & _) | (E & R0)];
        rewrite R0 in R; inversion R; subst; exact I0.
    - intros D le Hr Ht ρ.
      destruct (relate_u D le Hr Ht ρ adt_var fn_var arity fuel Covariant a b t Ha Hb Hd I Ua Ub) as [(E & gs0 & t0 & R0 & I0 & M0 & Q0) | (E & R0)];
        rewrite R0 in R; inversion R; subst. split; [apply M0 | exact Q0].
  Qed.

  (** the same for EVERY variance, in one statement *)
  Lemma relate_constraints_unknowns_any_variance_lemma fuel v a b t :
    ufrag arity a = true -> ufrag arity b = true -> (depth a <= fuel)%nat -> ltinv t -> ucells t a -> ucells t b ->
    (erase a = erase b /\ exists gs t', relate adt_var fn_var fuel v a b t = (Done gs, t') /\ ltinv t' /\
       forall (D : Type) (le : D -> D -> Prop), (forall x, le x x) -> (forall x y z, le x y -> le y z -> le x z) ->
       forall ρ : tm -> D,
         (respects D le ρ t' -> respects D le ρ t)
         /\ (respects D le ρ t ->
              ((respects D le ρ t' /\ sat_goals D le ρ gs) <-> sat D le ρ (variance_constraints adt_var fn_var v a b))))
    \/ (erase a <> erase b /\ relate adt_var fn_var fuel v a b t = (NoSol, t)).
  Proof.
    intros Ha Hb Hd I Ua Ub.
    destruct (relate_u unit (fun _ _ => True) (fun _ => Logic.I) (fun _ _ _ _ _ => Logic.I) (fun _ => tt)
                adt_var fn_var arity fuel v a b t Ha Hb Hd I Ua Ub) as [(E & gs & t' & R & I' & _) | (E & R)].
    - left. split; [exact E |]. exists gs, t'. split; [exact R |]. split; [exact I' |].
      intros D le Hr Ht ρ.
      destruct (relate_u D le Hr Ht ρ adt_var fn_var arity fuel v a b t Ha Hb Hd I Ua Ub) as [(_ & gs0 & t0 & R0 & I0 & M0 & Q0) | (E0 & _)];
        [| contradiction].
      rewrite R0 in R. inversion R; subst. split; [apply M0 | exact Q0].
    - right. split; assumption.
  Qed.
End Final.

(** Non-vacuity: four lifetime unknowns ['?0 .. '?3] (unbound, universe 0);
    [&'?0 (Inv<'?1>, Contra<&'?2 u32>, fn(&'?2 u32) -> &'?0 u32)] against
    [&'?3 (Inv<'static>, Contra<&'!1_0 u32>, fn(&'!1_1 u32) -> &'static u32)] and against the same
    with [Inv<'?2>], [Inv] invariant and [Contra] contravariant in their parameter.  All
    hypotheses of the theorems hold; the first call binds ['?1 := 'static], the second one unions
    ['?1] and ['?2]; both return the four outlives goals of the other positions, while
    [variance_constraints] has six entries. *)
Definition exu_adt_var (id : N) : list variance :=
  match id with 0 => [Covariant] | 1 => [Contravariant] | _ => [Invariant] end.
Definition exu_table : table :=
  snd (new_variable 0 (snd (new_variable 0 (snd (new_variable 0 (snd (new_variable 0 empty_table))))))).
Definition exu_fn (x y : tm) : tm := Node (HFnPtr 0 AbiRust Safe false) [x; y].
Definition exu_a : tm :=
  ex_ref (lt_var 0) (Node (HTuple 3) [Node (HAdt 2) [lt_var 1]; Node (HAdt 1) [ex_ref (lt_var 2) ex_u32];
                                      exu_fn (ex_ref (lt_var 2) ex_u32) (ex_ref (lt_var 0) ex_u32)]).
Definition exu_b (l : tm) : tm :=
  ex_ref (lt_var 3) (Node (HTuple 3) [Node (HAdt 2) [l]; Node (HAdt 1) [ex_ref (ex_ph 0) ex_u32];
                                      exu_fn (ex_ref (ex_ph 1) ex_u32) (ex_ref (Node HLStatic []) ex_u32)]).

Lemma exu_ltinv : ltinv exu_table.
Proof.
  split.
  - intros v w c c'. unfold get. cbn.
    destruct (N.to_nat v) as [| [| [| [| n]]]]; destruct (N.to_nat w) as [| [| [| [| m]]]]; cbn;
      intros E1 E2; try (destruct n; discriminate E1); try (destruct m; discriminate E2);
      inversion E1; inversion E2; subst; cbn; intros Q; try discriminate Q; reflexivity.
  - intros v c l. unfold get. cbn.
    destruct (N.to_nat v) as [| [| [| [| n]]]]; cbn; intros E1; try (destruct n; discriminate E1);
      inversion E1; subst; cbn; intros Q; discriminate Q.
Qed.

Example relate_cov_unknowns_nonvacuous :
  let a := exu_a in
  let b1 := exu_b (Node HLStatic []) in
  let b2 := exu_b (lt_var 2) in
  ufrag ex_arity a = true /\ ufrag ex_arity b1 = true /\ ufrag ex_arity b2 = true /\ (depth a <= 20)%nat
  /\ ltinv exu_table /\ ucells exu_table a /\ ucells exu_table b1 /\ ucells exu_table b2
  /\ erase a = erase b1
  /\ relate exu_adt_var (fun _ => []) 20 Covariant a b1 exu_table
     = (Done [outlives_goal (lt_var 0) (lt_var 3); outlives_goal (ex_ph 0) (lt_var 2);
              outlives_goal (ex_ph 1) (lt_var 2); outlives_goal (lt_var 0) (Node HLStatic [])],
        mktable [mkcell 0 (Unbound 0); mkcell 1 (Bound (Node HLStatic [])); mkcell 2 (Unbound 0); mkcell 3 (Unbound 0)] [0; 1; 2; 3] 0)
  /\ variance_constraints exu_adt_var (fun _ => []) Covariant a b1
     = [(lt_var 0, lt_var 3); (lt_var 1, Node HLStatic []); (Node HLStatic [], lt_var 1); (ex_ph 0, lt_var 2);
        (ex_ph 1, lt_var 2); (lt_var 0, Node HLStatic [])]
  /\ relate exu_adt_var (fun _ => []) 20 Covariant a b2 exu_table
     = (Done [outlives_goal (lt_var 0) (lt_var 3); outlives_goal (ex_ph 0) (lt_var 2);
              outlives_goal (ex_ph 1) (lt_var 2); outlives_goal (lt_var 0) (Node HLStatic [])],
        mktable [mkcell 0 (Unbound 0); mkcell 1 (Unbound 0); mkcell 1 (Unbound 0); mkcell 3 (Unbound 0)] [0; 1; 2; 3] 0).
Proof.
  cbv zeta. split; [reflexivity |]. split; [reflexivity |]. split; [reflexivity |]. split; [vm_compute; lia |].
  split; [exact exu_ltinv |].
  split; [cbn; repeat split; eexists; reflexivity |].
  split; [cbn; repeat split; eexists; reflexivity |].
  split; [cbn; repeat split; eexists; reflexivity |].
  split; [reflexivity |]. split; [vm_compute; reflexivity |]. split; [vm_compute; reflexivity |]. vm_compute. reflexivity.
Qed.
