(** * Infer.ClosedU — relating types with lifetime UNKNOWNS (property C29).

    Fragment [ufrag]: as [Closed.cfrag] (references, mutable references, raw pointers, slices,
    tuples, ADTs with declared variances, scalars, placeholders) but lifetimes may also be
    unknowns; fn pointers are left out here (they are related in two passes).  No type unknowns,
    hence no generalisation, no occurs check and no fresh variable: [relate] only emits outlives
    goals and — at invariant positions — binds or unions lifetime unknowns.

    Equivalence is semantic.  A model is a preorder [(D, le)] with a valuation [ρ] of lifetime
    terms; [ρ] respects a table if every bound lifetime unknown is [le]-equivalent to its value
    and unknowns of one class are equivalent; a requirement [(x, y)] ("x: y") holds if
    [le (ρ x) (ρ y)].  Theorem: if [relate v a b] succeeds from a table [t] with result [t'] and
    goals [gs], then for every model respecting [t]:
        respects t'  /\  all goals of gs hold      <->      all of [variance_constraints v a b] hold,
    and every model of [t'] is a model of [t].  (And it succeeds iff the erased structures agree.) *)

From Coq Require Import Arith PeanoNat Lia.
From Chalk Require Import Ir.Syntax Ir.Fold Infer.Table Infer.Unify Infer.Variance Infer.Closed Infer.Sym Infer.Sound.

Definition closed_ltu (a : tm) : bool :=
  closed_lt a || match a with Node (HLInfer _) [] => true | _ => false end.

Section Model.
  Variable D : Type.
  Variable le : D -> D -> Prop.
  Hypothesis le_refl : forall x, le x x.
  Hypothesis le_trans : forall x y z, le x y -> le y z -> le x z.

  Definition eqv (x y : D) : Prop := le x y /\ le y x.

  Lemma eqv_refl x : eqv x x. Proof. split; apply le_refl. Qed.
  Lemma eqv_sym x y : eqv x y -> eqv y x. Proof. intros [A B]. split; assumption. Qed.
  Lemma eqv_trans x y z : eqv x y -> eqv y z -> eqv x z.
  Proof. intros [A B] [C E]. split; eapply le_trans; eassumption. Qed.

  Variable ρ : tm -> D.

  Definition respects (t : table) : Prop :=
    (forall v l, bound_to t v l -> eqv (ρ (lt_var v)) (ρ l)) /\ (forall v w, same_class t v w -> eqv (ρ (lt_var v)) (ρ (lt_var w))).

  Definition holds (p : tm * tm) : Prop := le (ρ (fst p)) (ρ (snd p)).
  Definition sat (reqs : list (tm * tm)) : Prop := forall p, In p reqs -> holds p.
  Definition sat_goals (gs : list tm) : Prop := forall x y, In (outlives_goal x y) gs -> holds (x, y).

  Lemma sat_app r1 r2 : sat (r1 ++ r2) <-> sat r1 /\ sat r2.
  Proof. unfold sat. split; [intros H; split; intros p Hp; apply H; apply in_or_app; auto | intros [A B] p Hp; apply in_app_or in Hp; destruct Hp; auto]. Qed.

  Lemma sat_goals_app g1 g2 : sat_goals (g1 ++ g2) <-> sat_goals g1 /\ sat_goals g2.
  Proof. unfold sat_goals. split; [intros H; split; intros x y Hp; apply H; apply in_or_app; auto | intros [A B] x y Hp; apply in_app_or in Hp; destruct Hp; auto]. Qed.

  (** what a pair of lifetimes must satisfy at variance [v] *)
  Definition vrel (v : variance) (da db : D) : Prop :=
    match v with
    | Covariant => le db da
    | Contravariant => le da db
    | Invariant => le da db /\ le db da
    end.

  Lemma vrel_refl v d : vrel v d d.
  Proof. destruct v; cbn; auto. Qed.

  Lemma vrel_eqv v a a' b b' : eqv a a' -> eqv b b' -> (vrel v a b <-> vrel v a' b').
  Proof.
    intros [A1 A2] [B1 B2]. destruct v; cbn; split; intros H; try destruct H as [H1 H2]; try split;
      eauto using le_trans.
  Qed.

  Lemma vrel_invert v a b : vrel (invert v) b a <-> vrel v a b.
  Proof. destruct v; cbn; tauto. Qed.

  Lemma sat_lifetime_requirements v a b : sat (lifetime_requirements v a b) <-> vrel v (ρ a) (ρ b).
  Proof.
    unfold lifetime_requirements. destruct (tm_eqb a b) eqn:Q.
    - apply tm_eqb_eq in Q. subst b. split; [intros _; apply vrel_refl | intros _ p []].
    - unfold sat, holds. destruct v; cbn [vrel In]; split.
      + intros H. exact (H (b, a) (or_introl eq_refl)).
      + intros H p [<- | []]. exact H.
      + intros H. split; [exact (H (a, b) (or_introl eq_refl)) | exact (H (b, a) (or_intror (or_introl eq_refl)))].
      + intros [H1 H2] p [<- | [<- | []]]; assumption.
      + intros H. exact (H (a, b) (or_introl eq_refl)).
      + intros H p [<- | []]. exact H.
  Qed.

  Lemma sat_push v a b : sat_goals (match v with Covariant => [outlives_goal b a] | Contravariant => [outlives_goal a b] | Invariant => [outlives_goal a b; outlives_goal b a] end)
                         <-> vrel v (ρ a) (ρ b).
  Proof.
    unfold sat_goals, holds. destruct v; cbn [vrel In fst snd]; split.
    - intros H. exact (H b a (or_introl eq_refl)).
    - intros H x y [Q | []]. inversion Q; subst. exact H.
    - intros H. split; [exact (H a b (or_introl eq_refl)) | exact (H b a (or_intror (or_introl eq_refl)))].
    - intros [H1 H2] x y [Q | [Q | []]]; inversion Q; subst; assumption.
    - intros H. exact (H a b (or_introl eq_refl)).
    - intros H x y [Q | []]. inversion Q; subst. exact H.
  Qed.

  (** ** Tables of lifetime unknowns *)

  Definition ltinv (t : table) : Prop :=
    (forall v w c c', get t v = Some c -> get t w = Some c' -> ccls c = ccls c' -> cval c = cval c')
    /\ (forall v c l, get t v = Some c -> cval c = Bound l -> closed_lt l = true).

  (** binding a class of unbound unknowns *)
  Lemma respects_bind t v c u l :
    ltinv t -> get t v = Some c -> cval c = Unbound u -> closed_lt l = true ->
    ltinv (set_value (ccls c) (Bound l) t)
    /\ (respects (set_value (ccls c) (Bound l) t) <-> respects t /\ eqv (ρ (lt_var v)) (ρ l)).
  Proof.
    intros [IC IB] E B CL. set (t' := set_value (ccls c) (Bound l) t).
    assert (G : forall w cw, get t' w = Some cw -> exists c0, get t w = Some c0 /\ ccls cw = ccls c0 /\
                 ((ccls c0 = ccls c /\ cval cw = Bound l) \/ (ccls c0 <> ccls c /\ cw = c0))).
    { intros w cw Ew. exact (get_set_value_inv _ _ _ _ _ Ew). }
    assert (UNB : forall w cw, get t w = Some cw -> ccls cw = ccls c -> cval cw = Unbound u).
    { intros w cw Ew Q. rewrite (IC w v cw c Ew E Q). exact B. }
    split; [split |].
    - intros w1 w2 c1 c2 E1 E2 Q. destruct (G _ _ E1) as (a0 & A0 & QA & [[CA VA] | [CA ->]]); destruct (G _ _ E2) as (b0 & B0 & QB & [[CB VB] | [CB ->]]); try congruence.
      exact (IC w1 w2 a0 b0 A0 B0 Q).
    - intros w cw x Ew Bw. destruct (G _ _ Ew) as (a0 & A0 & _ & [[CA VA] | [CA ->]]); [congruence | exact (IB w a0 x A0 Bw)].
    - split.
      + intros [RB RC]. split; [split |].
        * intros w x (cw & Ew & Bw). apply RB. exists cw. split; [| exact Bw]. unfold t'. rewrite get_set_value, Ew. cbn [option_map].
          destruct (N.eqb_spec (ccls cw) (ccls c)) as [Q | Q]; [rewrite (UNB w cw Ew Q) in Bw; discriminate Bw | reflexivity].
        * intros w1 w2 (c1 & c2 & E1 & E2 & Q). apply RC. eexists. eexists. unfold t'. rewrite !get_set_value, E1, E2. cbn [option_map].
          split; [reflexivity |]. split; [reflexivity |]. destruct (N.eqb_spec (ccls c1) (ccls c)), (N.eqb_spec (ccls c2) (ccls c)); cbn [ccls]; congruence.
        * apply RB. eexists. unfold t'. rewrite get_set_value, E. cbn [option_map]. rewrite N.eqb_refl. split; reflexivity.
      + intros [[RB RC] EV]. split.
        * intros w x (cw & Ew & Bw). destruct (G _ _ Ew) as (a0 & A0 & _ & [[CA VA] | [CA ->]]).
          -- rewrite VA in Bw. inversion Bw; subst x. eapply eqv_trans; [| exact EV]. apply RC. exists a0, c. auto.
          -- apply RB. exists a0. auto.
        * intros w1 w2 (c1 & c2 & E1 & E2 & Q). destruct (G _ _ E1) as (a0 & A0 & QA & _). destruct (G _ _ E2) as (b0 & B0 & QB & _).
          apply RC. exists a0, b0. split; [exact A0 |]. split; [exact B0 | congruence].
  Qed.

  (** merging two classes of unbound unknowns *)
  Lemma respects_merge t v1 v2 c1 c2 u1 u2 val :
    ltinv t -> get t v1 = Some c1 -> cval c1 = Unbound u1 -> get t v2 = Some c2 -> cval c2 = Unbound u2 ->
    (exists u, val = Unbound u) ->
    ltinv (merge (ccls c1) (ccls c2) val t)
    /\ (respects (merge (ccls c1) (ccls c2) val t) <-> respects t /\ eqv (ρ (lt_var v1)) (ρ (lt_var v2))).
  Proof.
    intros [IC IB] E1 B1 E2 B2 (u & ->). set (t' := merge (ccls c1) (ccls c2) (Unbound u) t).
    assert (G : forall w cw, get t' w = Some cw -> exists c0, get t w = Some c0 /\
                 (((ccls c0 = ccls c1 \/ ccls c0 = ccls c2) /\ cw = mkcell (N.min (ccls c1) (ccls c2)) (Unbound u)) \/ (ccls c0 <> ccls c1 /\ ccls c0 <> ccls c2 /\ cw = c0))).
    { intros w cw Ew. exact (get_merge_inv _ _ _ _ _ _ Ew). }
    assert (UNB : forall w cw, get t w = Some cw -> (ccls cw = ccls c1 \/ ccls cw = ccls c2) -> exists u0, cval cw = Unbound u0).
    { intros w cw Ew [Q | Q]; [rewrite (IC w v1 cw c1 Ew E1 Q) | rewrite (IC w v2 cw c2 Ew E2 Q)]; eauto. }
    assert (MIN : N.min (ccls c1) (ccls c2) = ccls c1 \/ N.min (ccls c1) (ccls c2) = ccls c2) by lia.
    split; [split |].
    - intros w1 w2 a b Ea Eb Q. destruct (G _ _ Ea) as (a0 & A0 & [[CA ->] | (CA1 & CA2 & ->)]); destruct (G _ _ Eb) as (b0 & B0 & [[CB ->] | (CB1 & CB2 & ->)]); cbn [ccls cval] in *; try reflexivity.
      + destruct MIN as [M | M]; rewrite M in Q; congruence.
      + destruct MIN as [M | M]; rewrite M in Q; congruence.
      + exact (IC w1 w2 a0 b0 A0 B0 Q).
    - intros w cw x Ew Bw. destruct (G _ _ Ew) as (a0 & A0 & [[CA ->] | (CA1 & CA2 & ->)]); [discriminate Bw | exact (IB w a0 x A0 Bw)].
    - assert (GET : forall w cw, get t w = Some cw -> get t' w = Some (if (ccls cw =? ccls c1) || (ccls cw =? ccls c2) then mkcell (N.min (ccls c1) (ccls c2)) (Unbound u) else cw)).
      { intros w cw Ew. unfold t'. rewrite get_merge, Ew. reflexivity. }
      split.
      + intros [RB RC]. split; [split |].
        * intros w x (cw & Ew & Bw). apply RB. exists cw. split; [| exact Bw]. rewrite (GET w cw Ew).
          destruct ((ccls cw =? ccls c1) || (ccls cw =? ccls c2)) eqn:P; [| reflexivity].
          apply orb_true_iff in P. rewrite !N.eqb_eq in P. destruct (UNB w cw Ew P) as (u0 & Q). rewrite Q in Bw. discriminate Bw.
        * intros w1 w2 (a & b & Ea & Eb & Q). apply RC. eexists. eexists. rewrite (GET w1 a Ea), (GET w2 b Eb).
          split; [reflexivity |]. split; [reflexivity |]. rewrite Q. destruct ((ccls b =? ccls c1) || (ccls b =? ccls c2)); cbn [ccls]; congruence.
        * apply RC. eexists. eexists. rewrite (GET v1 c1 E1), (GET v2 c2 E2). split; [reflexivity |]. split; [reflexivity |].
          rewrite !N.eqb_refl, orb_true_r. reflexivity.
      + intros [[RB RC] EV]. split.
        * intros w x (cw & Ew & Bw). destruct (G _ _ Ew) as (a0 & A0 & [[CA ->] | (CA1 & CA2 & ->)]); [discriminate Bw |]. apply RB. exists a0. auto.
        * assert (CLS : forall w cw, get t w = Some cw -> (ccls cw = ccls c1 \/ ccls cw = ccls c2) -> eqv (ρ (lt_var w)) (ρ (lt_var v1))).
          { intros w cw Ew [Q | Q]; [apply RC; exists cw, c1; auto |]. eapply eqv_trans; [apply RC; exists cw, c2; eauto | apply eqv_sym; exact EV]. }
          intros w1 w2 (a & b & Ea & Eb & Q).
          destruct (G _ _ Ea) as (a0 & A0 & [[CA ->] | (CA1 & CA2 & ->)]); destruct (G _ _ Eb) as (b0 & B0 & [[CB ->] | (CB1 & CB2 & ->)]); cbn [ccls] in Q.
          -- eapply eqv_trans; [exact (CLS w1 a0 A0 CA) | apply eqv_sym; exact (CLS w2 b0 B0 CB)].
          -- exfalso. destruct MIN as [M | M]; rewrite M in Q; congruence.
          -- exfalso. destruct MIN as [M | M]; rewrite M in Q; congruence.
          -- apply RC. exists a0, b0. auto.
  Qed.
End Model.
