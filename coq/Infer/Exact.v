(** * Infer.Exact — the ground solutions of the result of [relate] are EXACTLY the ground
    unifiers (property C14; lifetime-free types, general unknowns).

    [solves θ t] (Infer/Complete2.v): [θ] is a ground, universe-respecting solution of the table.
    Soundness read on solutions ([relate_sound_unifier_lemma], from [relate_sound_lemma] and the
    model theorem [teq_model] instantiated at the term model): every solution of the resulting
    table is a solution of the initial table and unifies the two types.  With completeness
    ([relate_complete_two_sided_lemma]) this gives [relate_unifiers_exact_lemma]: the result of a
    successful [relate] represents the set of ground unifiers exactly — the semantic content of
    "most general unifier" — and [relate_nosol_no_unifier_lemma]: if [relate] fails there is none. *)

From Coq Require Import Arith PeanoNat Lia.
From Chalk Require Import Ir.Syntax Ir.Fold Infer.Table Infer.Unify Infer.Closed Infer.Sym Infer.Sound
  Infer.Complete Infer.Complete2 Infer.Complete3.

Section Exact.
  Variable ar : N -> nat.
  Variable θ : N -> tm.

  Lemma den_app_subst bvar cvar : forall x, pattern x = true -> den tm Node bvar cvar θ x = app_subst θ x.
  Proof.
    induction x as [| | h cs IH] using tm_ind'; try discriminate. intros P.
    destruct (pattern_inv _ P) as [(v & Q) | (h' & cs' & Q & Rh & Lf & Pcs)].
    - inversion Q; subst. reflexivity.
    - inversion Q; subst h' cs'. rewrite (app_subst_rigid θ h cs Rh). cbn [den].
      replace (head_var h) with (@None N) by (destruct h; try discriminate Rh; reflexivity).
      f_equal. clear - IH Pcs. induction IH; inversion Pcs; subst; cbn [map]; [reflexivity | f_equal; auto].
  Qed.

  Lemma ph_below_le m m' : m <= m' -> forall x, ph_below m x = true -> ph_below m' x = true.
  Proof.
    intros L. induction x as [| | h cs IH] using tm_ind'; [intros; reflexivity | intros; reflexivity |].
    intros H. apply ph_below_node in H. apply ph_below_node. destruct H as [A B]. split; [destruct h; auto; lia |].
    rewrite Forall_forall in *. intros c Hc. apply IH; auto.
  Qed.

  Lemma ph_app U n m : forall x, pattern x = true -> wellb U n m x ->
    (forall w, In w (pvars x) -> ph_below (U w) (θ w) = true) -> ph_below m (app_subst θ x) = true.
  Proof.
    induction x as [| | h cs IH] using tm_ind'; try discriminate. intros P W H.
    destruct (pattern_inv _ P) as [(v & Q) | (h' & cs' & Q & Rh & Lf & Pcs)].
    - inversion Q; subst. cbn [app_subst]. apply allsub_node in W. destruct W as [[_ Wv] _]. cbn in Wv.
      eapply ph_below_le; [exact Wv |]. apply H. left. reflexivity.
    - inversion Q; subst h' cs'. rewrite (app_subst_rigid θ h cs Rh). apply ph_below_node.
      apply allsub_node in W. destruct W as [[_ Wh] Wc]. split.
      + destruct h; try exact Logic.I. exact Wh.
      + rewrite Forall_forall in *. intros c Hc. apply in_map_iff in Hc. destruct Hc as (y & <- & Hy).
        apply IH; [exact Hy | apply Pcs; exact Hy | apply Wc; exact Hy |]. intros w Hw. apply H. rewrite (pvars_rigid h cs Rh). apply in_flat_map. eauto.
  Qed.

  Lemma size_app : forall x w, pattern x = true -> In w (pvars x) -> (tm_size (θ w) <= tm_size (app_subst θ x))%nat.
  Proof.
    induction x as [| | h cs IH] using tm_ind'; try discriminate. intros w P Hw.
    destruct (pattern_inv _ P) as [(v & Q) | (h' & cs' & Q & Rh & Lf & Pcs)].
    - inversion Q; subst. cbn [pvars] in Hw. destruct Hw as [<- | []]. cbn [app_subst]. lia.
    - inversion Q; subst h' cs'. rewrite (pvars_rigid h cs Rh) in Hw. apply in_flat_map in Hw. destruct Hw as (c & Hc & Hw).
      rewrite (app_subst_rigid θ h cs Rh). rewrite Forall_forall in IH, Pcs.
      pose proof (IH c Hc w (Pcs c Hc) Hw).
      pose proof (size_child h (map (app_subst θ) cs) (app_subst θ c) (in_map _ _ _ Hc)). lia.
  Qed.

  Lemma size_app_rigid x w : rigid_pattern x -> In w (pvars x) -> (tm_size (θ w) < tm_size (app_subst θ x))%nat.
  Proof.
    intros (P & h & cs & -> & Rh) Hw. destruct (pattern_children _ _ P Rh) as [Pcs _].
    rewrite (pvars_rigid h cs Rh) in Hw. apply in_flat_map in Hw. destruct Hw as (c & Hc & Hw).
    rewrite (app_subst_rigid θ h cs Rh). rewrite Forall_forall in Pcs.
    pose proof (size_app c w (Pcs c Hc) Hw).
    pose proof (size_child h (map (app_subst θ) cs) (app_subst θ c) (in_map _ _ _ Hc)). lia.
  Qed.

  (** in a solved table, [θ v] is visible from the (ghost) universe of [v], bound or not *)
  Lemma ph_all K U t : inv ar K U t -> solves θ t ->
    forall n v c, (tm_size (θ v) < n)%nat -> get t v = Some c -> ph_below (U v) (θ v) = true.
  Proof.
    intros I M. induction n as [| n IH]; intros v c Hn E; [lia |].
    destruct (M v c E) as (G & CL & V). destruct (cval c) as [u | x] eqn:B.
    - rewrite (inv_unb ar K U t I v c u E B). exact V.
    - destruct V as (RP & AS & SC). rewrite <- AS. eapply ph_app; [apply RP | exact (inv_bnd ar K U t I v c x E B) |].
      intros w Hw. destruct (get_lt_some t w (SC w Hw)) as (cw & Ew). apply (IH w cw); [| exact Ew].
      pose proof (size_app_rigid x w RP Hw) as H. rewrite AS in H. lia.
  Qed.

  Lemma scoped_pvars n : forall x, scoped n x -> forall w, In w (pvars x) -> w < n.
  Proof.
    induction x as [| | h cs IH] using tm_ind'; intros SC w Hw; try (destruct Hw; fail).
    apply allsub_node in SC. destruct SC as [Sh Sc].
    assert (GEN : In w (flat_map pvars cs) -> w < n).
    { intros H. apply in_flat_map in H. destruct H as (c & Hc & H). rewrite Forall_forall in IH, Sc. exact (IH c Hc (Sc c Hc) w H). }
    destruct h; try (apply GEN; exact Hw).
    match goal with Hw : In _ (pvars (Node (HInfer ?v ?k) _)) |- _ => destruct k; try (apply GEN; exact Hw) end.
    destruct cs; [| apply GEN; exact Hw]. cbn in Hw. destruct Hw as [<- | []]. exact Sh.
  Qed.

  (** a solution of a later table is a solution of an earlier one *)
  Lemma solves_back K U t K' U' t' :
    inv ar K U t -> inv ar K' U' t' -> step K U t K' U' t' -> solves θ t' -> solves θ t.
  Proof.
    intros I I' (PE & NV & HU) M v c E.
    pose proof (get_some_lt _ _ _ E) as Lv.
    destruct (get_lt_some t' v ltac:(lia)) as (c' & E').
    destruct (M v c' E') as (G & CL & V).
    split; [exact G |]. split.
    - intros w cw Ew Q. split; [| exact (inv_cons ar K U t I w v cw c Ew E Q)].
      destruct (proj2 PE w v) as (d & d' & D1 & D2 & DQ); [exists cw, c; auto |].
      rewrite E' in D2. inversion D2; subst d'. exact (proj1 (CL w d D1 DQ)).
    - destruct (cval c) as [u | x] eqn:B.
      + rewrite <- (inv_unb ar K U t I v c u E B). eapply ph_below_le; [exact (proj1 (HU v Lv)) |].
        eapply (ph_all K' U' t' I' M); [apply Nat.lt_succ_diag_r | exact E'].
      + destruct (proj1 PE v x) as (d & D1 & D2); [exists c; auto |]. rewrite E' in D1. inversion D1; subst d.
        rewrite D2 in V. destruct V as (RP & AS & _). split; [exact RP |]. split; [exact AS |].
        apply scoped_pvars. eapply wellb_scoped. exact (inv_bnd ar K U t I v c x E B).
  Qed.

  Variable adt_var : N -> list variance.
  Variable fn_var : N -> list variance.

  Lemma relate_sound_unifier_lemma fuel a b t t' K U :
    inv ar K U t -> okt ar K t a -> okt ar K t b -> pattern a = true -> pattern b = true ->
    relate adt_var fn_var fuel Invariant a b t = (Done [], t') ->
    solves θ t' -> solves θ t /\ app_subst θ a = app_subst θ b.
  Proof.
    intros I Oa Ob Pa Pb R M.
    destruct (relate_sound_lemma ar adt_var fn_var fuel a b t [] t' K U I Oa Ob R) as (K' & U' & I' & S' & T).
    split; [eapply solves_back; eassumption |].
    rewrite <- (den_app_subst (fun _ _ _ => a) (fun _ _ x => x) a Pa), <- (den_app_subst (fun _ _ _ => a) (fun _ _ x => x) b Pb).
    eapply teq_model; [| | | exact T].
    - intros v x (c & E & B). destruct (M v c E) as (_ & _ & V). rewrite B in V. destruct V as (RP & AS & _).
      rewrite den_app_subst; [symmetry; exact AS | apply RP].
    - intros v w (c & c' & E & E' & Q). destruct (M w c' E') as (_ & CL & _). exact (proj1 (CL v c E Q)).
    - intros x y _ _ [].
  Qed.
End Exact.

Lemma relate_unifiers_exact_lemma ar adt_var fn_var fuel a b t t' K U :
  inv ar K U t -> okt ar K t a -> okt ar K t b ->
  pattern a = true -> pattern b = true -> noraw a = true -> noraw b = true -> traw t ->
  relate adt_var fn_var fuel Invariant a b t = (Done [], t') ->
  forall θ, (solves θ t' -> solves θ t /\ app_subst θ a = app_subst θ b)
         /\ (solves θ t -> app_subst θ a = app_subst θ b -> (2 * depth (app_subst θ a) < fuel)%nat -> solves θ t').
Proof.
  intros I Oa Ob Pa Pb Na Nb TR R θ. split.
  - apply (relate_sound_unifier_lemma ar θ adt_var fn_var fuel a b t t' K U); assumption.
  - intros M AB D.
    destruct (relate_complete_two_sided_lemma adt_var fn_var θ fuel a b t Pa Pb Na Nb
                (scoped_pvars _ _ (proj2 (proj2 Oa))) (scoped_pvars _ _ (proj2 (proj2 Ob))) AB D M TR) as (t'' & R' & M' & _).
    rewrite R in R'. inversion R'; subst. exact M'.
Qed.

Lemma relate_nosol_no_unifier_lemma adt_var fn_var fuel a b t t' θ :
  pattern a = true -> pattern b = true -> noraw a = true -> noraw b = true ->
  (forall v, In v (pvars a) -> v < nvars t) -> (forall v, In v (pvars b) -> v < nvars t) -> traw t ->
  relate adt_var fn_var fuel Invariant a b t = (NoSol, t') ->
  solves θ t -> (2 * depth (app_subst θ a) < fuel)%nat -> app_subst θ a <> app_subst θ b.
Proof.
  intros Pa Pb Na Nb Sa Sb TR R M D AB.
  destruct (relate_complete_two_sided_lemma adt_var fn_var θ fuel a b t Pa Pb Na Nb Sa Sb AB D M TR) as (t'' & R' & _).
  rewrite R in R'. discriminate R'.
Qed.

(** Non-vacuity (the problem of [relate_complete_two_sided_nonvacuous]): all hypotheses of
    [relate_unifiers_exact_lemma] hold, [relate] succeeds without goals, and there is a solution
    of the initial table that unifies the two types. *)
Example relate_unifiers_exact_nonvacuous :
  let ar := fun _ : N => 1%nat in
  let t := snd (new_variable 1 (snd (new_variable 1 (snd (new_variable 1 (snd (new_universe empty_table))))))) in
  let K := upd (upd (upd (fun _ => KG) 0 KG) 1 KG) 2 KG in
  let U := upd (upd (upd (fun _ => 0) 0 1) 1 1) 2 1 in
  let g := Node HSlice [Node (HPlaceholder 1 0) []] in
  let θ := fun v : N => if v =? 2 then g else Node (HAdt 1) [g] in
  let a := Node (HTuple 3) [ty_var 0 General; Node (HAdt 1) [ty_var 2 General]; ty_var 2 General] in
  let b := Node (HTuple 3) [Node (HAdt 1) [ty_var 2 General]; ty_var 1 General; g] in
  inv ar K U t /\ okt ar K t a /\ okt ar K t b
  /\ pattern a = true /\ pattern b = true /\ noraw a = true /\ noraw b = true /\ traw t
  /\ solves θ t /\ app_subst θ a = app_subst θ b /\ (2 * depth (app_subst θ a) < 20)%nat
  /\ exists t', relate (fun _ => []) (fun _ => []) 20 Invariant a b t = (Done [], t') /\ solves θ t'.
Proof.
  cbv zeta. pose proof relate_complete_two_sided_nonvacuous as H. cbv zeta in H.
  destruct H as (Pa & Pb & Na & Nb & AB & D & M & TR & _).
  assert (I3 : inv (fun _ : N => 1%nat) (upd (upd (upd (fun _ => KG) 0 KG) 1 KG) 2 KG) (upd (upd (upd (fun _ => 0) 0 1) 1 1) 2 1)
                   (snd (new_variable 1 (snd (new_variable 1 (snd (new_variable 1 (snd (new_universe empty_table))))))))).
  { assert (I0 : inv (fun _ : N => 1%nat) (fun _ => KG) (fun _ => 0) (snd (new_universe empty_table))).
    { pose proof (inv_empty (fun _ => 1%nat) (fun _ => KG) (fun _ => 0)) as E. destruct E; constructor; assumption. }
    pose proof (inv_new (fun _ => 1%nat) _ _ _ 1 KG I0) as [I1 _].
    pose proof (inv_new (fun _ => 1%nat) _ _ _ 1 KG I1) as [I2 _].
    pose proof (inv_new (fun _ => 1%nat) _ _ _ 1 KG I2) as [I3 _]. exact I3. }
  assert (Oa : okt (fun _ : N => 1%nat) (upd (upd (upd (fun _ => KG) 0 KG) 1 KG) 2 KG)
                   (snd (new_variable 1 (snd (new_variable 1 (snd (new_variable 1 (snd (new_universe empty_table))))))))
                   (Node (HTuple 3) [ty_var 0 General; Node (HAdt 1) [ty_var 2 General]; ty_var 2 General])).
  { split; [reflexivity |]. split; cbn; repeat split; try lia. }
  assert (Ob : okt (fun _ : N => 1%nat) (upd (upd (upd (fun _ => KG) 0 KG) 1 KG) 2 KG)
                   (snd (new_variable 1 (snd (new_variable 1 (snd (new_variable 1 (snd (new_universe empty_table))))))))
                   (Node (HTuple 3) [Node (HAdt 1) [ty_var 2 General]; ty_var 1 General; Node HSlice [Node (HPlaceholder 1 0) []]])).
  { split; [reflexivity |]. split; cbn; repeat split; try lia. }
  split; [exact I3 |]. split; [exact Oa |]. split; [exact Ob |].
  split; [exact Pa |]. split; [exact Pb |]. split; [exact Na |]. split; [exact Nb |]. split; [exact TR |].
  split; [exact M |]. split; [exact AB |]. split; [exact D |].
  destruct (relate_complete_two_sided_lemma (fun _ => []) (fun _ => []) _ 20 _ _ _ Pa Pb Na Nb
              (scoped_pvars _ _ (proj2 (proj2 Oa))) (scoped_pvars _ _ (proj2 (proj2 Ob))) AB D M TR) as (t' & R & M' & _).
  exists t'. split; [exact R | exact M'].
Qed.
