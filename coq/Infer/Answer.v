(** * Infer.Answer — well-formedness of a solver answer with respect to its query (C28).

    A query is a [UCanonical<InEnvironment<Goal>>]: the number of universes it can name, its
    canonical binders and its value (rendered as one term).  An answer is a
    [Canonical<ConstrainedSubst>] / [Canonical<Substitution>]: binders and one generic
    argument per query binder.  Applying the answer is [Substitution::apply(query value)]
    ([SubstFolder] in chalk-ir/src/lib.rs), which differs from [Subst::apply] ([Ir.Fold.subst])
    only in asserting that every free variable belongs to the innermost binder. *)

From Chalk Require Import Ir.Syntax Ir.Fold Infer.Canon.

Definition query := (N * (list (vkind * N) * tm))%type.
Definition q_universes (q : query) : N := fst q.
Definition q_binders (q : query) : list (vkind * N) := fst (snd q).
Definition q_value (q : query) : tm := snd (snd q).

Definition answer := (list (vkind * N) * list tm)%type.
Definition a_binders (a : answer) : list (vkind * N) := fst a.
Definition a_subst (a : answer) : list tm := snd a.

(** [SubstFolder]: [assert_eq!(bound_var.debruijn, INNERMOST)], slice index, [assert_*_ref] *)
Fixpoint subst_apply (ps : list tm) (k : N) (t : tm) : res tm :=
  match t with
  | Var s d i =>
      if k <=? d then
        if d =? k then
          match nth_error ps (N.to_nat i) with
          | None => Panic IndexOutOfBounds
          | Some p => if kind_eqb (kind_of p) (sort_kind s) then Ok (shift_in k 0 p) else Panic MismatchedKinds
          end
        else Panic AssertFailed
      else Ok t
  | CVar d i c =>
      if k <=? d then
        if d =? k then
          match nth_error ps (N.to_nat i) with
          | None => Panic IndexOutOfBounds
          | Some p => if kind_eqb (kind_of p) KConst then Ok (shift_in k 0 p) else Panic MismatchedKinds
          end
        else Panic AssertFailed
      else Ok t
  | Node h cs => rbind (rmap (subst_apply ps (under h k)) cs) (fun cs' => Ok (Node h cs'))
  end.

Definition apply_answer (a : answer) (q : query) : res tm := subst_apply (a_subst a) 0 (q_value q).

(** every variable free at depth [k] belongs to the binder [ks] at that depth: index in range,
    kind of its binder (all children are inspected, like the folders do) *)
Fixpoint closed_f (ks : list vkind) (k : N) (t : tm) : bool :=
  match t with
  | Var s d i =>
      if d <? k then true
      else if d =? k then match nth_error ks (N.to_nat i) with
                          | Some vk => kind_eqb (vk_kind vk) (sort_kind s)
                          | None => false
                          end
           else false
  | CVar d i _ =>
      if d <? k then true
      else if d =? k then match nth_error ks (N.to_nat i) with
                          | Some vk => kind_eqb (vk_kind vk) KConst
                          | None => false
                          end
           else false
  | Node h cs => forallb (closed_f ks (under h k)) cs
  end.

(** all placeholders (of the three kinds) live in universes below [n] *)
Fixpoint ph_below (n : N) (t : tm) : bool :=
  match t with
  | Var _ _ _ => true
  | CVar _ _ c => ph_below n c
  | Node h cs =>
      match h with
      | HPlaceholder u _ | HLPlaceholder u _ | HCPlaceholder u _ => u <? n
      | _ => true
      end && forallb (ph_below n) cs
  end.

Definition wf_query (q : query) : bool := closed_f (map fst (q_binders q)) 0 (q_value q).

Fixpoint kinds_match (ps : list tm) (bs : list (vkind * N)) : bool :=
  match ps, bs with
  | [], [] => true
  | p :: ps', b :: bs' => kind_eqb (kind_of p) (vk_kind (fst b)) && kinds_match ps' bs'
  | _, _ => false
  end.

(** the value given for a query unknown of universe [lim] names nothing from a higher universe:
    the answer's own variables it mentions (universes [us], bound at depth [k]) and its
    placeholders live in universes [<= lim] *)
Fixpoint univ_le (us : list N) (lim : N) (k : N) (t : tm) : bool :=
  match t with
  | Var _ d i => if d =? k then match nth_error us (N.to_nat i) with Some u => u <=? lim | None => false end else true
  | CVar d i _ => if d =? k then match nth_error us (N.to_nat i) with Some u => u <=? lim | None => false end else true
  | Node h cs =>
      match h with
      | HPlaceholder u _ | HLPlaceholder u _ | HCPlaceholder u _ => u <=? lim
      | _ => true
      end && forallb (univ_le us lim (under h k)) cs
  end.

(** entry by entry: what the answer says about the i-th query unknown stays within that unknown's universe *)
Fixpoint entries_univ_ok (us : list N) (ps : list tm) (bs : list (vkind * N)) : bool :=
  match ps, bs with
  | p :: ps', b :: bs' => univ_le us (snd b) 0 p && entries_univ_ok us ps' bs'
  | _, _ => true
  end.

(** [wf_answer q a]: one entry per query binder, of the binder's kind; every bound variable of
    the substitution belongs to the answer's own binders (with the right kind); the answer's
    binders and the placeholders of its substitution live in universes the query can name —
    globally (below the query's universe count) and per unknown (the value of an unknown of
    universe U mentions only answer variables and placeholders of universes <= U). *)
Definition wf_answer (q : query) (a : answer) : bool :=
  kinds_match (a_subst a) (q_binders q)
  && forallb (closed_f (map fst (a_binders a)) 0) (a_subst a)
  && forallb (fun b => snd b <? q_universes q) (a_binders a)
  && forallb (ph_below (q_universes q)) (a_subst a)
  && entries_univ_ok (map snd (a_binders a)) (a_subst a) (q_binders q).

Lemma entries_univ_ok_nth us : forall ps bs i p vk u, entries_univ_ok us ps bs = true ->
  nth_error ps i = Some p -> nth_error bs i = Some (vk, u) -> univ_le us u 0 p = true.
Proof.
  induction ps as [| p0 ps IH]; intros bs i p vk u H Hp Hb; [destruct i; discriminate |].
  destruct bs as [| b0 bs]; [destruct i; discriminate |]. cbn [entries_univ_ok] in H.
  apply andb_true_iff in H. destruct H as [H0 Hr]. destruct i as [| i]; cbn [nth_error] in *.
  - inversion Hp; inversion Hb; subst. assumption.
  - eapply IH; eassumption.
Qed.

(** [wf_answer_universes]: in a well-formed answer the value of every query unknown stays within
    the universe of that unknown *)
Lemma wf_answer_universes_lemma : forall q a i p vk u, wf_answer q a = true ->
  nth_error (a_subst a) i = Some p -> nth_error (q_binders q) i = Some (vk, u) ->
  univ_le (map snd (a_binders a)) u 0 p = true.
Proof.
  intros q a i p vk u H Hp Hb. unfold wf_answer in H. apply andb_true_iff in H. destruct H as [_ H].
  eapply entries_univ_ok_nth; eassumption.
Qed.

Lemma kinds_match_nth ps : forall bs i vk u, kinds_match ps bs = true -> nth_error bs i = Some (vk, u) ->
  exists p, nth_error ps i = Some p /\ kind_of p = vk_kind vk.
Proof.
  induction ps as [| p ps IH]; intros [| b bs] i vk u H Hn; cbn [kinds_match] in H; try discriminate.
  - destruct i; discriminate.
  - apply andb_true_iff in H. destruct H as [Hk Hr]. destruct i as [| i]; cbn [nth_error] in *.
    + inversion Hn; subst. exists p. split; [reflexivity |]. cbn [fst] in Hk. destruct (kind_of p), vk; cbn in *; congruence.
    + eapply IH; eassumption.
Qed.

Lemma vk_kind_eqb a b : kind_eqb a b = true -> a = b.
Proof. destruct a, b; cbn; congruence. Qed.

(** on a value closed under the query binders [SubstFolder] never hits its assertion, agrees
    with [Subst::apply], and a substitution of the binders' kinds covers it *)
Lemma closed_subst_apply : forall t ps bs k, closed_f (map fst bs) k t = true -> kinds_match ps bs = true ->
  subst_apply ps k t = subst ps k t /\ params_cover ps k t.
Proof.
  induction t as [s d i | d i ct _ | h cs IH] using tm_ind'; intros ps bs k Hc Hk; cbn [closed_f subst_apply subst params_cover] in *.
  - destruct (N.ltb_spec d k) as [Hlt | Hge].
    + destruct (N.leb_spec k d); [lia |]. split; [reflexivity | intros E; lia].
    + destruct (N.leb_spec k d); [| lia]. destruct (N.eqb_spec d k) as [-> | Hne]; [| discriminate].
      split; [reflexivity |]. intros _. rewrite nth_error_map in Hc.
      destruct (nth_error bs (N.to_nat i)) as [[vk u] |] eqn:En; cbn [option_map fst] in Hc; [| discriminate].
      destruct (kinds_match_nth _ _ _ _ _ Hk En) as (p & Hp & Hkp). exists p. split; [assumption |].
      rewrite Hkp. apply vk_kind_eqb. assumption.
  - destruct (N.ltb_spec d k) as [Hlt | Hge].
    + destruct (N.leb_spec k d); [lia |]. split; [reflexivity | intros E; lia].
    + destruct (N.leb_spec k d); [| lia]. destruct (N.eqb_spec d k) as [-> | Hne]; [| discriminate].
      split; [reflexivity |]. intros _. rewrite nth_error_map in Hc.
      destruct (nth_error bs (N.to_nat i)) as [[vk u] |] eqn:En; cbn [option_map fst] in Hc; [| discriminate].
      destruct (kinds_match_nth _ _ _ _ _ Hk En) as (p & Hp & Hkp). exists p. split; [assumption |].
      rewrite Hkp. apply vk_kind_eqb. assumption.
  - rewrite forallb_forall in Hc.
    assert (L : rmap (subst_apply ps (under h k)) cs = rmap (subst ps (under h k)) cs
                /\ Forall (params_cover ps (under h k)) cs).
    { clear - IH Hc Hk. induction cs as [| x l IHl]; [split; [reflexivity | constructor] |].
      inversion IH; subst. destruct (H1 ps bs (under h k) (Hc x (or_introl eq_refl)) Hk) as [Ex Px].
      destruct (IHl H2) as [El Pl]; [intros y Hy; apply Hc; right; assumption |].
      cbn [rmap]. rewrite Ex, El. split; [reflexivity | constructor; assumption]. }
    destruct L as [L1 L2]. rewrite L1. split; [reflexivity |]. apply params_cover_node. assumption.
Qed.

(** [wf_answer_applies]: applying a well-formed answer to a (closed) query never panics *)
Lemma wf_answer_applies_lemma : forall q a, wf_query q = true -> wf_answer q a = true ->
  exists r, apply_answer a q = Ok r.
Proof.
  intros q a Hq Ha. unfold wf_answer in Ha. repeat (apply andb_true_iff in Ha; destruct Ha as [Ha ?]).
  unfold apply_answer, wf_query in *.
  destruct (closed_subst_apply _ _ _ _ Hq Ha) as [E P]. rewrite E. apply subst_no_panic_lemma. assumption.
Qed.

(** ** Non-vacuity: the F1 witness query [exists<A,B> { A: Foo<B> }] and SLG's guidance
    [for<?U0> [?0 := Vec<^0.0>, ?1 := ^0.0]]; a truncated and an ill-kinded answer are rejected. *)
Definition ex_query : query :=
  (1, ([(VTy General, 0); (VTy General, 0)],
       Node HImplies [Node HList []; Node HDomainGoal [Node HHolds [Node HImplemented [Node (HTraitRef 0) [Var STy 0 0; Var STy 0 1]]]]])).
Definition ex_answer : answer := ([(VTy General, 0)], [Node (HAdt 1) [Var STy 0 0]; Var STy 0 0]).

Example wf_answer_applies_nonvacuous :
  wf_query ex_query = true /\ wf_answer ex_query ex_answer = true
  /\ apply_answer ex_answer ex_query
     = Ok (Node HImplies [Node HList []; Node HDomainGoal [Node HHolds [Node HImplemented [Node (HTraitRef 0) [Node (HAdt 1) [Var STy 0 0]; Var STy 0 0]]]]])
  /\ wf_answer ex_query ([(VTy General, 0)], [Node (HAdt 1) [Var STy 0 0]]) = false
  /\ apply_answer ([(VTy General, 0)], [Node (HAdt 1) [Var STy 0 0]]) ex_query = Panic IndexOutOfBounds
  /\ wf_answer ex_query ([(VTy General, 0)], [Node HLStatic []; Var STy 0 0]) = false
  /\ wf_answer ex_query ([(VTy General, 1)], [Node (HAdt 1) [Var STy 0 0]; Var STy 0 0]) = false
  /\ wf_answer ex_query ([], [Node (HAdt 1) [Var STy 0 0]; Node (HPlaceholder 1 0) []]) = false.
Proof. repeat split; vm_compute; reflexivity. Qed.

(** [exists<'a> { forall<T> { exists<X> { X: Foo<'a> } } }]: the query's unknowns are [X] (U1) and ['a] (U0);
    guidance [for<?U1,?U0> [X := ^0.0, 'a := '^0.1]] is well-formed, [for<?U1,?U1> ...] (the lifetime
    unknown of U0 sent to a variable of U1) is not. *)
Definition ex_query2 : query :=
  (2, ([(VTy General, 1); (VLt, 0)],
       Node HImplies [Node HList []; Node HDomainGoal [Node HHolds [Node HImplemented [Node (HTraitRef 2) [Var STy 0 0; Var SLt 0 1]]]]])).

Example wf_answer_universes_nonvacuous :
  wf_answer ex_query2 ([(VTy General, 1); (VLt, 0)], [Var STy 0 0; Var SLt 0 1]) = true
  /\ wf_answer ex_query2 ([(VTy General, 1); (VLt, 1)], [Var STy 0 0; Var SLt 0 1]) = false
  /\ wf_answer ex_query2 ([(VTy General, 1)], [Var STy 0 0; Node (HLPlaceholder 1 0) []]) = false.
Proof. repeat split; vm_compute; reflexivity. Qed.

(** ** Canonicalization produces well-formed queries *)

(** const types are [usize] (ChalkIr lowering) *)
Fixpoint consts_usize (t : tm) : bool :=
  match t with
  | Var _ _ _ => true
  | CVar _ _ c => tm_eqb c usize_ty
  | Node h cs =>
      if const_head h then match cs with [c] => tm_eqb c usize_ty | _ => false end
      else forallb consts_usize cs
  end.

Lemma closed_o_closed_f : forall t ks k, consts_usize t = true -> closed_o ks k t = true -> closed_f ks k t = true.
Proof.
  induction t as [s d i | d i ct _ | h cs IH] using tm_ind'; intros ks k Hu Hc; cbn [closed_o closed_f consts_usize] in *; try assumption.
  destruct (infer_of h) as [[v vk] |] eqn:Ei; [discriminate |].
  destruct (const_head h) eqn:Ec.
  - destruct cs as [| c [| c' cs']]; try discriminate. apply tm_eqb_eq in Hu. subst c. reflexivity.
  - rewrite forallb_forall in *. intros x Hx. rewrite Forall_forall in IH. apply IH; [assumption | apply Hu | apply Hc]; assumption.
Qed.

(** a canonicalized value (with [usize] const types) together with its binders is a closed query:
    [wf_answer_applies] applies to every query produced by [canonicalize] *)
Lemma canon_query_wf_lemma : forall fuel T t bs v fr r n,
  canonicalize fuel T t = Done ((bs, v), fr) -> resolve fuel T 0 t = Done r -> kinds_consistent (occs r) ->
  consts_usize v = true -> wf_query (n, (bs, v)) = true.
Proof.
  intros fuel T t bs v fr r n Hc Hr Hk Hu. destruct (canon_closed_lemma _ _ _ _ _ _ _ Hc Hr Hk) as [Hcl _].
  unfold wf_query, q_binders, q_value. cbn [fst snd]. apply closed_o_closed_f; assumption.
Qed.
