(** * Infer.Complete4 — matching completeness with INTEGER / FLOAT unknowns (property C14).

    [relate_complete_matching_lemma] (Infer/Complete2.v) extended to patterns whose unknowns may
    be of any kind ([npattern]): a pattern against its ground [θ]-instance, on a table with prior
    bindings and unions that [θ] solves, where [θ] maps integer (float) unknowns of the pattern
    to integer (float) scalar types ([kinds_ok]).  [relate] succeeds without goals, creates no
    variable, and [θ] solves the resulting table.  (Prior bindings are those [solves] admits:
    values are non-variable patterns with general unknowns — the state "general unknown bound to
    an integer unknown" is not covered.) *)

From Coq Require Import Arith PeanoNat Lia.
From Chalk Require Import Ir.Syntax Ir.Fold Infer.Table Infer.Unify Infer.Closed Infer.Sym Infer.Sound
  Infer.Complete Infer.Complete2.

Fixpoint npattern (x : tm) : bool :=
  match x with
  | Node (HInfer _ _) [] => true
  | Node h cs => rigid_head h && leaf_ok h cs && forallb npattern cs
  | _ => false
  end.

Fixpoint napp (θ : N -> tm) (x : tm) : tm :=
  match x with
  | Node (HInfer v _) [] => θ v
  | Node h cs => Node h (map (napp θ) cs)
  | _ => x
  end.

Fixpoint nvars_of (x : tm) : list N :=
  match x with
  | Node (HInfer v _) [] => [v]
  | Node _ cs => flat_map nvars_of cs
  | _ => []
  end.

Definition kind_ok (k : tvk) (g : tm) : bool :=
  match k with General => true | Integer => is_integer_ty g | FloatVar => is_float_ty g end.

Fixpoint kinds_ok (θ : N -> tm) (x : tm) : bool :=
  match x with
  | Node (HInfer v k) [] => kind_ok k (θ v)
  | Node _ cs => forallb (kinds_ok θ) cs
  | _ => true
  end.

Lemma npattern_inv a : npattern a = true ->
  (exists v k, a = Node (HInfer v k) []) \/
  (exists h cs, a = Node h cs /\ rigid_head h = true /\ leaf_ok h cs = true /\ Forall (fun c => npattern c = true) cs).
Proof.
  destruct a as [| | h cs]; try discriminate. intros P.
  destruct h; try discriminate P;
    try (right; cbn [npattern] in P; rewrite !andb_true_iff, forallb_forall, <- Forall_forall in P; destruct P as [[P1 P2] P3];
         eexists; eexists; split; [reflexivity |]; split; [exact P1 |]; split; [exact P2 | exact P3]).
  destruct cs; [left; eauto | discriminate P].
Qed.

Lemma napp_rigid θ h cs : rigid_head h = true -> napp θ (Node h cs) = Node h (map (napp θ) cs).
Proof. destruct h; try discriminate; reflexivity. Qed.

Lemma nvars_rigid h cs : rigid_head h = true -> nvars_of (Node h cs) = flat_map nvars_of cs.
Proof. destruct h; try discriminate; reflexivity. Qed.

Lemma kinds_rigid θ h cs : rigid_head h = true -> kinds_ok θ (Node h cs) = forallb (kinds_ok θ) cs.
Proof. destruct h; try discriminate; reflexivity. Qed.

Lemma npattern_ground θ : forall a, npattern a = true -> (forall v, In v (nvars_of a) -> ground (θ v) = true) -> ground (napp θ a) = true.
Proof.
  induction a as [| | h cs IH] using tm_ind'; try discriminate. intros P G.
  destruct (npattern_inv _ P) as [(v & k & Q) | (h' & cs' & Q & Rh & Lf & Pcs)].
  - inversion Q; subst. cbn [napp]. apply G. cbn [nvars_of]. left. reflexivity.
  - inversion Q; subst h' cs'. rewrite (napp_rigid θ h cs Rh). apply ground_node. split; [exact Rh |]. split.
    + rewrite Forall_forall in *. intros c Hc. apply in_map_iff in Hc. destruct Hc as (x & <- & Hx).
      apply IH; auto. intros v Hv. apply G. rewrite (nvars_rigid h cs Rh). apply in_flat_map. eauto.
    + destruct h; try reflexivity. destruct cs; [reflexivity | discriminate Lf].
Qed.

Lemma npattern_kind a : npattern a = true -> kind_of a = KTy.
Proof.
  intros P. destruct (npattern_inv _ P) as [(v & k & ->) | (h & cs & -> & Rh & _)]; [reflexivity |].
  destruct h; try discriminate Rh; reflexivity.
Qed.

Section Match4.
  Variable adt_var : N -> list variance.
  Variable fn_var : N -> list variance.
  Variable θ : N -> tm.

  Notation post2 := (post2 θ).

  Section Level.
    Variable f : nat.
    Hypothesis IH : forall a t, npattern a = true -> kinds_ok θ a = true -> (depth (napp θ a) < f)%nat -> solves θ t ->
      (forall v, In v (nvars_of a) -> v < nvars t) ->
      exists t', rel adt_var fn_var f Invariant a (napp θ a) t = (Done tt, t', []) /\ post2 t t'.

    Lemma match4_zip (vf : nat -> variance) : (forall i, vf i = Invariant) -> forall cs i t,
      Forall (fun c => npattern c = true) cs -> Forall (fun c => kinds_ok θ c = true) cs ->
      Forall (fun c => (depth (napp θ c) < f)%nat) cs -> solves θ t ->
      (forall v, In v (flat_map nvars_of cs) -> v < nvars t) ->
      exists t', zip_children (rel adt_var fn_var f) vf i cs (map (napp θ) cs) t = (Done tt, t', []) /\ post2 t t'.
    Proof.
      intros Hvf. induction cs as [| x r IHr]; intros i t Pcs Kcs Dcs M SC; cbn [map zip_children flat_map].
      - exists t. split; [reflexivity |]. split; [exact M |]. split; [reflexivity | apply pext_refl].
      - apply Forall_cons_iff in Pcs, Kcs, Dcs. destruct Pcs as [Px Pr], Kcs as [Kx Kr], Dcs as [Dx Dr].
        destruct (IH x t Px Kx Dx M ltac:(intros v Hv; apply SC; cbn [flat_map]; apply in_or_app; left; exact Hv)) as (t1 & R1 & M1 & N1 & E1).
        assert (Gx : ground (napp θ x) = true).
        { apply npattern_ground; [exact Px |]. intros v Hv. eapply solves_ground; [exact M |]. apply SC. cbn [flat_map]. apply in_or_app. left. exact Hv. }
        assert (KKx : kind_eqb (kind_of x) (kind_of (napp θ x)) = true).
        { rewrite (npattern_kind x Px), (ground_kind _ Gx). reflexivity. }
        destruct (IHr (S i) t1 Pr Kr Dr M1 ltac:(intros v Hv; rewrite N1; apply SC; cbn [flat_map]; apply in_or_app; right; exact Hv)) as (t2 & R2 & M2 & N2 & E2).
        exists t2. split.
        + unfold rel_garg. rewrite KKx, Hvf. rewrite (bind_done _ _ _ _ _ _ R1). cbn [zip_children] in R2. rewrite R2. reflexivity.
        + split; [exact M2 |]. split; [congruence | eapply pext_trans; eassumption].
    Qed.

    Lemma match4_norm h cs t :
      npattern (Node h cs) = true -> kinds_ok θ (Node h cs) = true -> rigid_head h = true ->
      (depth (napp θ (Node h cs)) <= f)%nat -> solves θ t ->
      (forall v, In v (nvars_of (Node h cs)) -> v < nvars t) ->
      exists t', rel_ty_norm adt_var fn_var f (rel adt_var fn_var f) Invariant (Node h cs) (napp θ (Node h cs)) t = (Done tt, t', [])
                 /\ post2 t t'.
    Proof.
      intros P KO Rh D M SC.
      destruct (npattern_inv _ P) as [(v & k & Q) | (h' & cs' & Q & _ & Lf & Pcs)]; [inversion Q; subst; discriminate Rh |].
      inversion Q; subst h' cs'. clear Q.
      rewrite (kinds_rigid θ h cs Rh) in KO. rewrite forallb_forall, <- Forall_forall in KO.
      rewrite (napp_rigid θ h cs Rh) in *. unfold rel_ty_norm.
      destruct (tm_eqb (Node h cs) (Node h (map (napp θ) cs))) eqn:EQ.
      { exists t. split; [reflexivity |]. split; [exact M |]. split; [reflexivity | apply pext_refl]. }
      assert (TC : tcls_of (Node h cs) = CPh /\ cs = [] \/ (tcls_of (Node h cs) = COther /\ structural_head h = true)).
      { destruct h; try discriminate Rh; cbn [tcls_of structural_head]; auto. left. split; [reflexivity |]. destruct cs; [reflexivity | discriminate Lf]. }
      destruct TC as [[_ ->] | [TC SH]]; [cbn [map] in EQ; rewrite tm_eqb_refl in EQ; discriminate EQ |].
      assert (TC' : tcls_of (Node h (map (napp θ) cs)) = COther) by (destruct h; try discriminate Rh; try discriminate TC; reflexivity).
      rewrite TC, TC', SH. unfold head_eqb. destruct (head_eq_dec h h) as [_ | Q]; [| contradiction]. cbn [andb].
      assert (Dcs : Forall (fun c => (depth (napp θ c) < f)%nat) cs).
      { pose proof (depth_children h (map (napp θ) cs)) as Dc. rewrite Forall_forall in *. intros c Hc.
        specialize (Dc (napp θ c) (in_map _ _ _ Hc)). lia. }
      apply (match4_zip (child_variance adt_var fn_var h Invariant) ltac:(intros i; destruct h; cbn [child_variance xform]; try reflexivity; destruct i; reflexivity)
                        cs 0%nat t Pcs KO Dcs M ltac:(intros v Hv; apply SC; rewrite (nvars_rigid h cs Rh); exact Hv)).
    Qed.
  End Level.

  Lemma match4_complete : forall f a t,
    npattern a = true -> kinds_ok θ a = true -> (depth (napp θ a) < f)%nat -> solves θ t -> (forall v, In v (nvars_of a) -> v < nvars t) ->
    exists t', rel adt_var fn_var f Invariant a (napp θ a) t = (Done tt, t', []) /\ post2 t t'.
  Proof.
    induction f as [| f IH]; intros a t P KO D M SC; [lia |].
    assert (Ga : ground (napp θ a) = true).
    { apply npattern_ground; [exact P |]. intros v Hv. eapply solves_ground; [exact M | apply SC; exact Hv]. }
    cbn [rel]. rewrite (npattern_kind a P), (ground_kind _ Ga). unfold rel_ty. rewrite bind_get_table'.
    unfold shallow_ty at 2. rewrite (probe_ground t _ Ga).
    destruct (npattern_inv _ P) as [(v & k & ->) | (h & cs & -> & Rh & Lf & Pcs)].
    - (* an unknown of kind [k] *)
      cbn [napp kinds_ok] in *. set (b := θ v) in *.
      destruct (get_lt_some t v (SC v ltac:(cbn [nvars_of]; left; reflexivity))) as (c & E).
      destruct (M v c E) as (Gb & Cv & Vb). fold b in Gb.
      destruct (cval c) as [u | x] eqn:B.
      + assert (PA : probe_tm t (Node (HInfer v k) []) = None) by (cbn [probe_tm]; rewrite E, B; reflexivity).
        unfold shallow_ty. rewrite PA. unfold rel_ty_norm.
        assert (NE : tm_eqb (Node (HInfer v k) []) b = false).
        { destruct (tm_eqb (Node (HInfer v k) []) b) eqn:Q; [| reflexivity]. apply tm_eqb_eq in Q. rewrite <- Q in Gb. discriminate Gb. }
        rewrite NE. cbn [tcls_of].
        assert (TB : tcls_of b = CPh \/ tcls_of b = COther).
        { destruct b as [| | hb cb]; try discriminate Gb. apply ground_node in Gb. destruct Gb as (Rb & _). destruct hb; try discriminate Rb; cbn [tcls_of]; auto. }
        assert (RV : rel_var_ty adt_var fn_var f (rel adt_var fn_var f) Invariant v k b t
                     = (Done tt, set_value (ccls c) (Bound b) t, [])).
        { unfold rel_var_ty. fold (kind_ok k b). rewrite KO. rewrite bind_get_cell, E, B.
          assert (Db : (depth b <= f)%nat) by lia.
          rewrite (bind_done _ _ _ _ _ _ (occ_ground f v u 0 b t Gb Vb Db)).
          rewrite (bind_done _ _ _ _ _ _ (gen_ground adt_var fn_var f u Invariant b t Gb Db)).
          assert (BV : bind_var v b t = (Done tt, set_value (ccls c) (Bound b) t, [])).
          { unfold bind_var. rewrite bind_get_cell, E, B. reflexivity. }
          rewrite (bind_done _ _ _ _ _ _ BV).
          destruct f as [| f']; [pose proof (depth_pos b); lia |].
          rewrite (rel_ground_refl adt_var fn_var f' Invariant b _ Gb). reflexivity. }
        destruct (solves_bind θ t v c u M E B) as [M' E'].
        exists (set_value (ccls c) (Bound b) t). split; [destruct TB as [-> | ->]; exact RV |].
        split; [exact M' |]. split; [apply nvars_set_value | exact E'].
      + (* bound: its value is a non-variable pattern with general unknowns — Complete2 applies *)
        destruct Vb as ((Px & hx & csx & -> & Rhx) & Ax & Sx).
        unfold shallow_ty. cbn [probe_tm]. rewrite E, B. rewrite (probe_rigid t hx csx Rhx).
        fold b in Ax. rewrite <- Ax.
        apply (match2_norm adt_var fn_var θ f (match2_complete adt_var fn_var θ f) hx csx t Px Rhx); [rewrite Ax; lia | exact M | exact Sx].
    - unfold shallow_ty. rewrite (probe_rigid t h cs Rh).
      apply (match4_norm f IH h cs t P KO Rh); [lia | exact M | exact SC].
  Qed.

  Lemma relate_complete_matching_numeric_lemma fuel a t :
    npattern a = true -> kinds_ok θ a = true -> (depth (napp θ a) < fuel)%nat -> solves θ t ->
    (forall v, In v (nvars_of a) -> v < nvars t) ->
    exists t', relate adt_var fn_var fuel Invariant a (napp θ a) t = (Done [], t')
               /\ solves θ t' /\ nvars t' = nvars t /\ pext t t'.
  Proof.
    intros P KO D M SC. destruct (match4_complete fuel a t P KO D M SC) as (t' & R & M' & N' & E').
    exists t'. unfold relate. rewrite R. cbn [retain_goals filter]. unfold commit. auto.
  Qed.
End Match4.

(** Non-vacuity: [(?0: int, Adt1<?1>, ?2: float, ?0: int)] against [(i32, Adt1<[u8]>, f64, i32)],
    three fresh unknowns of the root universe. *)
Example relate_complete_matching_numeric_nonvacuous :
  let t := snd (new_variable 0 (snd (new_variable 0 (snd (new_variable 0 empty_table))))) in
  let i32 := Node (HScalar (Int I32)) [] in
  let f64 := Node (HScalar (Float F64)) [] in
  let su8 := Node HSlice [Node (HScalar (Uint U8)) []] in
  let θ := fun v : N => if v =? 0 then i32 else if v =? 1 then su8 else f64 in
  let a := Node (HTuple 4) [ty_var 0 Integer; Node (HAdt 1) [ty_var 1 General]; ty_var 2 FloatVar; ty_var 0 Integer] in
  npattern a = true /\ kinds_ok θ a = true /\ (depth (napp θ a) < 20)%nat /\ solves θ t
  /\ napp θ a = Node (HTuple 4) [i32; Node (HAdt 1) [su8]; f64; i32]
  /\ exists t', relate (fun _ => []) (fun _ => []) 20 Invariant a (napp θ a) t = (Done [], t')
                /\ get t' 0 = Some (mkcell 0 (Bound i32)) /\ get t' 2 = Some (mkcell 2 (Bound f64)).
Proof.
  cbv zeta. split; [reflexivity |]. split; [reflexivity |]. split; [cbn; lia |]. split; [| split; [reflexivity |]].
  - intros v c E. pose proof (get_some_lt _ _ _ E) as L. vm_compute in L.
    assert (Hv : v = 0 \/ v = 1 \/ v = 2) by (destruct v as [| [[p | p |] | [p | p |] |]]; try discriminate L; auto; destruct p; discriminate L).
    destruct Hv as [-> | [-> | ->]]; vm_compute in E; inversion E; subst c; (split; [reflexivity |]); (split; [| reflexivity]);
      intros w c' E' Q; pose proof (get_some_lt _ _ _ E') as L'; vm_compute in L';
      assert (Hw : w = 0 \/ w = 1 \/ w = 2) by (destruct w as [| [[p | p |] | [p | p |] |]]; try discriminate L'; auto; destruct p; discriminate L');
      destruct Hw as [-> | [-> | ->]]; vm_compute in E'; inversion E'; subst c'; cbn [ccls] in Q; try discriminate Q; split; reflexivity.
  - eexists. split; [vm_compute; reflexivity |]. split; reflexivity.
Qed.
