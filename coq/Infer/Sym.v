(** * Infer.Sym — the order of the two arguments does not matter (property C15).

    On the fragment without fn pointers, aliases and [dyn] ([sfrag]; it contains the whole C14
    fragment: ADTs, tuples, slices, references, raw pointers, scalars, int/float unknowns,
    placeholders, unknowns, lifetimes, and also arrays/consts and the remaining rigid heads),
    [rel f v a b] and [rel f (invert v) b a] are mirror images: the same outcome, the same
    table, the same goals up to order.  Hence [relate Invariant a b] fails iff
    [relate Invariant b a] fails.  (Outside the fragment the mirror image is only correct up
    to a renaming of fresh variables and universes: two fn pointers are related in two passes
    whose order depends on the side, alias/alias pairs emit [AliasEq(b = a)] vs [AliasEq(a = b)].) *)

From Coq Require Import Arith PeanoNat Permutation.
From Chalk Require Import Ir.Syntax Ir.Fold Infer.Table Infer.Unify.

(** ** Inversion of [bind] *)

Lemma bind_inv {A B} (m : M A) (f : A -> M B) t b t2 gs :
  bind m f t = (Done b, t2, gs) ->
  exists a t1 g1 g2, m t = (Done a, t1, g1) /\ f a t1 = (Done b, t2, g2) /\ gs = g1 ++ g2.
Proof.
  unfold bind. destruct (m t) as [[[a | | | s |] t1] g1]; try discriminate.
  destruct (f a t1) as [[r t2'] g2] eqn:E. intros H. inversion H; subst.
  exists a, t1, g1, g2. auto.
Qed.

Lemma bind_eq {A B} (m : M A) (f : A -> M B) t :
  bind m f t =
  match m t with
  | (Done a, t1, g1) => match f a t1 with (r, t2, g2) => (r, t2, g1 ++ g2) end
  | (NoSol, t1, g1) => (NoSol, t1, g1)
  | (OutOfFuel, t1, g1) => (OutOfFuel, t1, g1)
  | (Pan s, t1, g1) => (Pan s, t1, g1)
  | (Unsup, t1, g1) => (Unsup, t1, g1)
  end.
Proof. reflexivity. Qed.

(** ** The fragment *)

Definition bad_head (h : head) : bool :=
  match h with HFnPtr _ _ _ _ | HDyn | HProjection _ | HOpaqueAlias _ => true | _ => false end.

Fixpoint sfrag (t : tm) : bool :=
  match t with
  | Var _ _ _ => true
  | CVar _ _ c => sfrag c
  | Node h cs => negb (bad_head h) && forallb sfrag cs
  end.

Definition tfrag (t : table) : Prop :=
  forall v c x, get t v = Some c -> cval c = Bound x -> sfrag x = true.

Lemma sfrag_node h cs : sfrag (Node h cs) = true <-> bad_head h = false /\ Forall (fun c => sfrag c = true) cs.
Proof.
  cbn [sfrag]. rewrite andb_true_iff, negb_true_iff, forallb_forall, Forall_forall. reflexivity.
Qed.

(** Done-only Hoare triples for the table invariant. *)
Definition tf {A} (m : M A) (Q : A -> Prop) : Prop :=
  forall t a t' gs, tfrag t -> m t = (Done a, t', gs) -> tfrag t' /\ Q a.

Lemma tf_ret {A} (a : A) (Q : A -> Prop) : Q a -> tf (ret a) Q.
Proof. intros H t a' t' gs Ht E. inversion E; subst. auto. Qed.

Lemma tf_fail {A} (o : out A) (Q : A -> Prop) : (forall a, o <> Done a) -> tf (fail o) Q.
Proof. intros H t a t' gs _ E. inversion E. exfalso. eapply H. eassumption. Qed.

Lemma tf_bind {A B} (m : M A) (f : A -> M B) (Q : A -> Prop) (R : B -> Prop) :
  tf m Q -> (forall a, Q a -> tf (f a) R) -> tf (bind m f) R.
Proof.
  intros Hm Hf t b t2 gs Ht E. apply bind_inv in E. destruct E as (a & t1 & g1 & g2 & E1 & E2 & _).
  destruct (Hm _ _ _ _ Ht E1) as [Ht1 Qa]. exact (Hf a Qa _ _ _ _ Ht1 E2).
Qed.

Lemma tf_weaken {A} (m : M A) (Q Q' : A -> Prop) : tf m Q -> (forall a, Q a -> Q' a) -> tf m Q'.
Proof. intros H W t a t' gs Ht E. destruct (H _ _ _ _ Ht E). auto. Qed.

Lemma tf_get_table (Q : table -> Prop) : (forall t, tfrag t -> Q t) -> tf get_table Q.
Proof. intros H t a t' gs Ht E. inversion E; subst. auto. Qed.

Lemma tf_push_goal g : tf (push_goal g) (fun _ => True).
Proof. intros t a t' gs Ht E. inversion E; subst. auto. Qed.

Lemma tf_push_outlives v a b : tf (push_outlives v a b) (fun _ => True).
Proof.
  unfold push_outlives. eapply tf_bind with (Q := fun _ => True).
  - destruct v; try apply tf_push_goal; apply tf_ret; exact I.
  - intros _ _. destruct v; try apply tf_push_goal; apply tf_ret; exact I.
Qed.

Lemma tfrag_new_variable u t : tfrag t -> tfrag (snd (new_variable u t)).
Proof.
  intros Ht v c x G B. unfold new_variable, get in G. cbn [snd unify] in G.
  destruct (Nat.lt_ge_cases (N.to_nat v) (length (unify t))) as [L | L].
  - rewrite nth_error_app1 in G by exact L. exact (Ht v c x G B).
  - rewrite nth_error_app2 in G by exact L. destruct (N.to_nat v - length (unify t))%nat as [| k]; cbn in G.
    + inversion G; subst. discriminate B.
    + destruct k; discriminate G.
Qed.

Lemma tf_new_variable u : tf (m_new_variable u) (fun _ => True).
Proof.
  intros t a t' gs Ht E. unfold m_new_variable in E. pose proof (tfrag_new_variable u t Ht) as H.
  destruct (new_variable u t) as [n t1]. inversion E; subst. auto.
Qed.

Lemma get_set_class c c' val cs v x :
  nth_error (set_class c c' val cs) v = Some x ->
  exists y, nth_error cs v = Some y /\ (x = y \/ x = mkcell c' val).
Proof.
  unfold set_class. rewrite nth_error_map. destruct (nth_error cs v) as [y |]; cbn [option_map]; [| discriminate].
  intros E. inversion E. exists y. split; [reflexivity |]. destruct (ccls y =? c); auto.
Qed.

Lemma tfrag_set_value c val t :
  tfrag t -> (forall x, val = Bound x -> sfrag x = true) -> tfrag (set_value c val t).
Proof.
  intros Ht Hv v cl x G B. unfold set_value, with_unify, get in G. cbn [unify] in G.
  apply get_set_class in G. destruct G as (y & Gy & [-> | ->]).
  - exact (Ht v y x Gy B).
  - apply Hv. exact B.
Qed.

Lemma tfrag_merge ca cb val t :
  tfrag t -> (forall x, val = Bound x -> sfrag x = true) -> tfrag (merge ca cb val t).
Proof.
  intros Ht Hv v cl x G B. unfold merge, with_unify, get in G. cbn [unify] in G.
  apply get_set_class in G. destruct G as (y & Gy & [-> | ->]); [| apply Hv; exact B].
  apply get_set_class in Gy. destruct Gy as (z & Gz & [-> | ->]); [exact (Ht v z x Gz B) | apply Hv; exact B].
Qed.

Lemma tf_get_cell v (Q : cell -> Prop) :
  (forall t c, tfrag t -> get t v = Some c -> Q c) -> tf (get_cell v) Q.
Proof.
  intros H t a t' gs Ht E. unfold get_cell in E. destruct (get t v) as [c |] eqn:G; [| discriminate].
  inversion E; subst. split; [assumption | eapply H; eassumption].
Qed.

Definition cell_ok (c : cell) : Prop := forall x, cval c = Bound x -> sfrag x = true.

Lemma tf_get_cell_ok v : tf (get_cell v) cell_ok.
Proof. apply tf_get_cell. intros t c Ht G x B. exact (Ht v c x G B). Qed.

Lemma tf_bind_var v val : sfrag val = true -> tf (bind_var v val) (fun _ => True).
Proof.
  intros Hs. unfold bind_var. eapply tf_bind; [apply tf_get_cell_ok |]. intros c _.
  destruct (cval c); [| apply tf_fail; discriminate].
  intros t a t' gs Ht E. inversion E; subst. split; [| exact I].
  apply tfrag_set_value; [exact Ht |]. intros x Q. inversion Q; subst. exact Hs.
Qed.

Lemma tf_promote v ui : tf (promote v ui) (fun _ => True).
Proof.
  unfold promote. eapply tf_bind; [apply tf_get_cell_ok |]. intros c _.
  destruct (cval c) as [u | x]; intros t a t' gs Ht E; inversion E; subst; (split; [| exact I]); [| exact Ht].
  apply tfrag_set_value; [exact Ht | discriminate].
Qed.

Lemma tf_union_vars a b : tf (union_vars a b) (fun _ => True).
Proof.
  unfold union_vars. eapply tf_bind; [apply tf_get_cell_ok |]. intros ca Ha.
  eapply tf_bind; [apply tf_get_cell_ok |]. intros cb Hb.
  destruct (ccls ca =? ccls cb); [apply tf_ret; exact I |].
  unfold cell_ok in Ha, Hb.
  destruct (cval ca) as [ua | xa], (cval cb) as [ub | xb]; try (apply tf_fail; discriminate);
    intros t r t' gs Ht E; inversion E; subst; (split; [| exact I]); apply tfrag_merge; try exact Ht; intros x Q; inversion Q; subst; auto.
Qed.

Lemma tf_mapM {A B} (f : A -> M B) (P : A -> Prop) (Q : B -> Prop) (l : list A) :
  (forall x, P x -> tf (f x) Q) -> Forall P l -> tf (mapM f l) (Forall Q).
Proof.
  intros Hf. induction 1 as [| x r Hx _ IH]; cbn [mapM].
  - apply tf_ret. constructor.
  - eapply tf_bind; [apply Hf; exact Hx |]. intros y Qy.
    eapply tf_bind; [exact IH |]. intros ys Qys. apply tf_ret. constructor; assumption.
Qed.

(** ** The occurs check and generalisation stay inside the fragment *)

Lemma sfrag_lt_var x : sfrag (lt_var x) = true.
Proof. reflexivity. Qed.

Lemma tf_occ : forall f var ui k x, sfrag x = true -> tf (occ f var ui k x) (fun y => sfrag y = true).
Proof.
  induction f as [| f IH]; intros var ui k x Hx; cbn [occ]; [apply tf_fail; discriminate |].
  destruct x as [s d i | d i c | h cs].
  - destruct (k <=? d); [apply tf_fail; discriminate | apply tf_ret; exact Hx].
  - destruct (k <=? d); [apply tf_fail; discriminate | apply tf_ret; exact Hx].
  - pose proof Hx as Hx'. apply sfrag_node in Hx'. destruct Hx' as [Hh Hcs].
    assert (D : tf (cs' <- mapM (occ f var ui (under h k)) cs;; ret (Node h cs')) (fun y => sfrag y = true)).
    { eapply tf_bind; [apply (tf_mapM _ (fun c => sfrag c = true) (fun c => sfrag c = true)); [intros c Hc; apply IH; exact Hc | exact Hcs] |].
      intros cs' Hcs'. apply tf_ret. apply sfrag_node. auto. }
    assert (V : forall v, tf (c <- get_cell v;;
                          match cval c with
                          | Unbound u => vc <- get_cell var;; (if ccls c =? ccls vc then fail NoSol else (if ui <? u then promote v ui else ret tt);;; ret (Node h cs))
                          | Bound val => occ f var ui 0 val
                          end) (fun y => sfrag y = true)).
    { intros v. eapply tf_bind; [apply tf_get_cell_ok |]. intros c Hc. destruct (cval c) as [u | val] eqn:E.
      - eapply tf_bind; [apply tf_get_cell_ok |]. intros vc _. destruct (ccls c =? ccls vc); [apply tf_fail; discriminate |].
        eapply tf_bind with (Q := fun _ => True); [destruct (ui <? u); [apply tf_promote | apply tf_ret; exact I] |].
        intros _ _. apply tf_ret. exact Hx.
      - apply IH. apply Hc. exact E. }
    destruct h; try exact D; try (exact (V v)).
    + destruct (ui <? ui0); [apply tf_fail; discriminate | apply tf_ret; exact Hx].
    + eapply tf_bind; [apply tf_get_cell_ok |]. intros c Hc. destruct (cval c) as [u | l] eqn:E.
      * eapply tf_bind with (Q := fun _ => True); [destruct (ui <? u); [apply tf_promote | apply tf_ret; exact I] |].
        intros _ _. apply tf_ret. exact Hx.
      * apply IH. apply Hc. exact E.
    + destruct (ui <? ui0); [| apply tf_ret; exact Hx].
      eapply tf_bind; [apply tf_new_variable |]. intros x _.
      eapply tf_bind; [apply tf_push_outlives |]. intros _ _. apply tf_ret. reflexivity.
    + destruct (ui <? ui0); [apply tf_fail; discriminate | apply tf_ret; exact Hx].
Qed.

Lemma tf_mapM_idx {A B} (f : nat -> A -> M B) (P : A -> Prop) (Q : B -> Prop) (l : list A) :
  (forall i x, P x -> tf (f i x) Q) -> Forall P l -> forall i, tf (mapM_idx f i l) (Forall Q).
Proof.
  intros Hf. induction 1 as [| x r Hx _ IH]; intros i; cbn [mapM_idx].
  - apply tf_ret. constructor.
  - eapply tf_bind; [apply Hf; exact Hx |]. intros y Qy.
    eapply tf_bind; [apply IH |]. intros ys Qys. apply tf_ret. constructor; assumption.
Qed.

Lemma probe_tm_sfrag t a p : tfrag t -> probe_tm t a = Some p -> sfrag p = true.
Proof.
  intros Ht. unfold probe_tm. destruct a as [| | h cs]; try discriminate.
  assert (G : forall v, match get t v with Some c => match cval c with Bound p0 => Some p0 | Unbound _ => None end | None => None end = Some p -> sfrag p = true).
  { intros v. destruct (get t v) as [c |] eqn:E; [| discriminate]. destruct (cval c) as [u | x] eqn:B; [discriminate |].
    intros Q. inversion Q; subst. exact (Ht v c p E B). }
  destruct h; try discriminate; apply G.
Qed.

Lemma shallow_ty_sfrag t a : tfrag t -> sfrag a = true -> sfrag (shallow_ty t a) = true.
Proof.
  intros Ht Ha. unfold shallow_ty. destruct (probe_tm t a) as [p |] eqn:E; [| exact Ha].
  pose proof (probe_tm_sfrag t a p Ht E) as Hp.
  destruct (probe_tm t p) as [q |] eqn:E'; [exact (probe_tm_sfrag t p q Ht E') | exact Hp].
Qed.

Lemma shallow1_sfrag t a : tfrag t -> sfrag a = true -> sfrag (shallow1 t a) = true.
Proof.
  intros Ht Ha. unfold shallow1. destruct (probe_tm t a) as [p |] eqn:E; [exact (probe_tm_sfrag t a p Ht E) | exact Ha].
Qed.

Section Preserve.
  Variable adt_var : N -> list variance.
  Variable fn_var : N -> list variance.

  Notation sf := (fun y : tm => sfrag y = true).

  Lemma tf_gen : forall f ui v x, sfrag x = true -> tf (gen adt_var fn_var f ui v x) sf.
  Proof.
    induction f as [| f IH]; intros ui v x Hx; cbn [gen]; [apply tf_fail; discriminate |].
    destruct (kind_of x) eqn:K.
    - (* types *)
      destruct x as [s d i | d i c | h cs]; try (apply tf_ret; exact Hx).
      pose proof Hx as Hx'. apply sfrag_node in Hx'. destruct Hx' as [Hh Hcs].
      assert (Dsub : forall vf, tf (cs' <- mapM_idx (fun i c => gen adt_var fn_var f ui (vf i) c) 0 cs;; ret (Node h cs')) sf).
      { intros vf. eapply tf_bind; [apply (tf_mapM_idx _ sf sf); [intros i c Hc; apply IH; exact Hc | exact Hcs] |].
        intros cs' Hcs'. apply tf_ret. apply sfrag_node. auto. }
      cbv zeta.
      destruct h; try discriminate Hh; try apply Dsub; try (apply tf_ret; exact Hx); try (apply tf_fail; discriminate).
      destruct k; try (apply tf_ret; exact Hx).
      eapply tf_bind; [apply (tf_get_table tfrag); auto |]. intros tb Htb.
      destruct (probe_tm tb (Node (HInfer v0 General) cs)) as [p |] eqn:E.
      + apply IH. pose proof (probe_tm_sfrag _ _ _ Htb E) as Hp.
        destruct (probe_tm tb p) as [q |] eqn:E'; [exact (probe_tm_sfrag _ _ _ Htb E') | exact Hp].
      + destruct (is_inv v); [apply tf_ret; exact Hx |].
        eapply tf_bind; [apply tf_new_variable |]. intros y _. apply tf_ret. reflexivity.
    - (* lifetimes *)
      destruct x as [s d i | d i c | h cs]; try discriminate K; try (apply tf_ret; exact Hx).
      destruct (is_inv v); [apply tf_ret; exact Hx |].
      eapply tf_bind; [apply tf_new_variable |]. intros y _. apply tf_ret. reflexivity.
    - (* consts *)
      destruct x as [s d i | d i c | h cs]; try discriminate K; try (apply tf_ret; exact Hx).
      apply sfrag_node in Hx. destruct Hx as [_ Hcs].
      eapply tf_bind; [apply tf_new_variable |]. intros y _. apply tf_ret. apply sfrag_node. auto.
    - apply tf_fail. discriminate.
  Qed.

  Notation tfu m := (tf m (fun _ : unit => True)).

  Section Rec.
    Variable f : nat.
    Variable rec : rel_fn.
    Hypothesis Hrec : forall v a b, sfrag a = true -> sfrag b = true -> tfu (rec v a b).

    Lemma tf_rel_garg v a b : sfrag a = true -> sfrag b = true -> tfu (rel_garg rec v a b).
    Proof. intros Ha Hb. unfold rel_garg. destruct (kind_eqb (kind_of a) (kind_of b)); [apply Hrec; assumption | apply tf_fail; discriminate]. Qed.

    Lemma tf_zip_children vf : forall l l' i,
      Forall sf l -> Forall sf l' -> tfu (zip_children rec vf i l l').
    Proof.
      induction l as [| x r IH]; intros l' i Hl Hl'; destruct l' as [| y r']; cbn [zip_children]; try (apply tf_ret; exact I).
      apply Forall_cons_iff in Hl, Hl'. destruct Hl as [Hx Hr], Hl' as [Hy Hr'].
      eapply tf_bind; [apply tf_rel_garg; assumption |]. intros _ _. apply IH; assumption.
    Qed.

    Lemma tf_rel_var_ty v var k ty : sfrag ty = true -> tfu (rel_var_ty adt_var fn_var f rec v var k ty).
    Proof.
      intros Hty. unfold rel_var_ty.
      destruct (match k with General => true | Integer => is_integer_ty ty | FloatVar => is_float_ty ty end); [| apply tf_fail; discriminate].
      eapply tf_bind; [apply tf_get_cell_ok |]. intros c _. destruct (cval c) as [ui | x]; [| apply tf_fail; discriminate].
      eapply tf_bind; [apply tf_occ; exact Hty |]. intros ty1 H1.
      eapply tf_bind; [apply tf_gen; exact H1 |]. intros g Hg.
      eapply tf_bind; [apply tf_bind_var; exact Hg |]. intros _ _. apply Hrec; assumption.
    Qed.

    Lemma tcls_sfrag a : sfrag a = true ->
      tcls_of a <> CFn /\ tcls_of a <> CDyn /\ tcls_of a <> CAlias.
    Proof.
      destruct a as [| | h cs]; cbn [tcls_of]; try (repeat split; discriminate).
      intros H. apply sfrag_node in H. destruct H as [H _].
      destruct h; try discriminate H; repeat split; discriminate.
    Qed.

    Lemma tf_rel_ty_norm v a b : sfrag a = true -> sfrag b = true -> tfu (rel_ty_norm adt_var fn_var f rec v a b).
    Proof.
      intros Ha Hb. unfold rel_ty_norm. destruct (tm_eqb a b); [apply tf_ret; exact I |].
      destruct (tcls_sfrag a Ha) as (A1 & A2 & A3). destruct (tcls_sfrag b Hb) as (B1 & B2 & B3).
      destruct (tcls_of a) as [v1 k1 | | | | | | |] eqn:Ta; try congruence;
        destruct (tcls_of b) as [v2 k2 | | | | | | |] eqn:Tb; try congruence;
        try (apply tf_fail; discriminate); try (apply tf_ret; exact I);
        try (apply tf_rel_var_ty; assumption).
      - (* var / var *)
        destruct (tvk_eqb k1 General && tvk_eqb k2 General).
        + destruct v; [apply tf_push_goal | apply tf_union_vars | apply tf_push_goal].
        + destruct (tvk_eqb k1 k2); [apply tf_union_vars |].
          destruct (tvk_eqb k1 General); [apply tf_bind_var; exact Hb |].
          destruct (tvk_eqb k2 General); [apply tf_bind_var; exact Ha | apply tf_fail; discriminate].
      - (* structural *)
        destruct a as [| | ha ca]; try discriminate Ta. destruct b as [| | hb cb]; try discriminate Tb.
        destruct (structural_head ha && head_eqb ha hb); [| apply tf_fail; discriminate].
        apply sfrag_node in Ha, Hb. apply tf_zip_children; tauto.
    Qed.

    Lemma tf_rel_ty v a b : sfrag a = true -> sfrag b = true -> tfu (rel_ty adt_var fn_var f rec v a b).
    Proof.
      intros Ha Hb. unfold rel_ty. eapply tf_bind; [apply (tf_get_table tfrag); auto |]. intros tb Htb.
      apply tf_rel_ty_norm; apply shallow_ty_sfrag; assumption.
    Qed.

    Lemma tf_unify_lifetime_var v var value ui : sfrag value = true -> tfu (unify_lifetime_var v var value ui).
    Proof.
      intros Hv. unfold unify_lifetime_var. eapply tf_bind; [apply tf_get_cell_ok |]. intros c _.
      destruct (cval c) as [u | x]; [| apply tf_fail; discriminate].
      destruct ((ui <=? u) && is_inv v); [apply tf_bind_var; exact Hv | apply tf_push_outlives].
    Qed.

    Lemma tf_unless_unioned x y (k : M unit) : tfu k -> tfu (unless_unioned x y k).
    Proof.
      intros Hk. unfold unless_unioned. eapply tf_bind; [apply tf_get_cell_ok |]. intros ca _.
      eapply tf_bind; [apply tf_get_cell_ok |]. intros cb _. destruct (ccls ca =? ccls cb); [apply tf_ret; exact I | exact Hk].
    Qed.

    Lemma tf_rel_lt_norm v a b : sfrag a = true -> sfrag b = true -> tfu (rel_lt_norm v a b).
    Proof.
      intros Ha Hb. unfold rel_lt_norm.
      destruct (lcls_of a), (lcls_of b); try (apply tf_fail; discriminate); try (apply tf_ret; exact I);
        try (destruct (is_inv v); [apply tf_union_vars | apply tf_unless_unioned; apply tf_push_outlives]);
        try apply tf_union_vars; try (apply tf_unify_lifetime_var; assumption);
        try (destruct (tm_eqb a b); [apply tf_ret; exact I | apply tf_push_outlives]).
    Qed.

    Lemma tf_rel_lt v a b : sfrag a = true -> sfrag b = true -> tfu (rel_lt v a b).
    Proof.
      intros Ha Hb. unfold rel_lt. eapply tf_bind; [apply (tf_get_table tfrag); auto |]. intros tb Htb.
      apply tf_rel_lt_norm; apply shallow1_sfrag; assumption.
    Qed.

    Lemma const_ty_sfrag a : sfrag a = true -> sfrag (const_ty a) = true.
    Proof.
      destruct a as [| d i c | h cs]; cbn [const_ty]; try reflexivity; [intros H; exact H |].
      intros H. apply sfrag_node in H. destruct H as [_ H]. destruct cs as [| c r]; [reflexivity |].
      apply Forall_cons_iff in H. tauto.
    Qed.

    Lemma tf_unify_var_const var c : sfrag c = true -> tfu (unify_var_const f var c).
    Proof.
      intros Hc. unfold unify_var_const. eapply tf_bind; [apply tf_get_cell_ok |]. intros cl _.
      destruct (cval cl) as [ui | x]; [| apply tf_fail; discriminate].
      eapply tf_bind; [apply tf_occ; exact Hc |]. intros c1 H1. apply tf_bind_var. exact H1.
    Qed.

    Lemma tf_rel_const_norm v a b : sfrag a = true -> sfrag b = true -> tfu (rel_const_norm f rec v a b).
    Proof.
      intros Ha Hb. unfold rel_const_norm. eapply tf_bind; [apply Hrec; apply const_ty_sfrag; assumption |]. intros _ _.
      destruct (ccls_of a), (ccls_of b); try (apply tf_fail; discriminate); try apply tf_union_vars;
        try (apply tf_unify_var_const; assumption).
      - match goal with |- tf (if ?c then _ else _) _ => destruct c end; [apply tf_ret; exact I | apply tf_fail; discriminate].
      - destruct (n =? n0); [apply tf_ret; exact I | apply tf_fail; discriminate].
    Qed.

    Lemma tf_rel_const v a b : sfrag a = true -> sfrag b = true -> tfu (rel_const f rec v a b).
    Proof.
      intros Ha Hb. unfold rel_const. eapply tf_bind; [apply (tf_get_table tfrag); auto |]. intros tb Htb.
      apply tf_rel_const_norm; apply shallow1_sfrag; assumption.
    Qed.
  End Rec.

  (** [rel] keeps the table inside the fragment. *)
  Lemma tf_rel : forall f v a b, sfrag a = true -> sfrag b = true -> tfu (rel adt_var fn_var f v a b).
  Proof.
    induction f as [| f IH]; intros v a b Ha Hb; cbn [rel]; [apply tf_fail; discriminate |].
    destruct (kind_of a), (kind_of b); try (apply tf_fail; discriminate).
    - apply tf_rel_ty; assumption.
    - apply tf_rel_lt; assumption.
    - apply tf_rel_const; assumption.
  Qed.
End Preserve.

(** ** Mirror images *)

Definition mirror (m m' : M unit) : Prop :=
  forall t, tfrag t ->
    fst (fst (m t)) = fst (fst (m' t)) /\ snd (fst (m t)) = snd (fst (m' t)) /\ Permutation (snd (m t)) (snd (m' t)).

Lemma mirror_refl m : mirror m m.
Proof. intros t _. auto. Qed.

Lemma mirror_eq m m' : (forall t, m t = m' t) -> mirror m m'.
Proof. intros H t _. rewrite H. auto. Qed.

Lemma mirror_bind (m m' : M unit) (k k' : unit -> M unit) :
  mirror m m' -> tf m (fun _ => True) -> (forall u, mirror (k u) (k' u)) -> mirror (bind m k) (bind m' k').
Proof.
  intros Hm Htf Hk t Ht. specialize (Hm t Ht). rewrite !bind_eq.
  destruct (m t) as [[r t1] g1] eqn:E1. destruct (m' t) as [[r' t1'] g1'] eqn:E2. cbn [fst snd] in Hm.
  destruct Hm as (-> & -> & P).
  destruct r' as [[] | | | s |]; cbn [fst snd]; auto.
  assert (Ht1 : tfrag t1') by (eapply Htf; eassumption).
  specialize (Hk tt t1' Ht1).
  destruct (k tt t1') as [[r2 t2] g2]. destruct (k' tt t1') as [[r2' t2'] g2']. cbn [fst snd] in *.
  destruct Hk as (-> & -> & P2). repeat split. apply Permutation_app; assumption.
Qed.

Lemma bind_get_table' {B} (f : table -> M B) t : bind get_table f t = f t t.
Proof. unfold bind, get_table. destruct (f t t) as [[r t2] g2]. reflexivity. Qed.

Lemma tm_eqb_sym a b : tm_eqb a b = tm_eqb b a.
Proof.
  destruct (tm_eqb a b) eqn:E; symmetry.
  - apply tm_eqb_eq in E. subst. apply tm_eqb_eq. reflexivity.
  - destruct (tm_eqb b a) eqn:E'; [| reflexivity]. apply tm_eqb_eq in E'. subst.
    rewrite (proj2 (tm_eqb_eq a a) eq_refl) in E. discriminate E.
Qed.

Lemma head_eqb_sym a b : head_eqb a b = head_eqb b a.
Proof. unfold head_eqb. destruct (head_eq_dec a b), (head_eq_dec b a); congruence. Qed.

Lemma set_class_twice_comm ca cb c val cs :
  set_class cb c val (set_class ca c val cs) = set_class ca c val (set_class cb c val cs).
Proof.
  unfold set_class. rewrite !map_map. apply map_ext. intros x.
  destruct (ccls x =? ca) eqn:A, (ccls x =? cb) eqn:B; cbn [ccls]; rewrite ?A, ?B; try reflexivity.
  - destruct (c =? cb), (c =? ca); reflexivity.
  - destruct (c =? cb); reflexivity.
  - destruct (c =? ca); reflexivity.
Qed.

Lemma merge_comm ca cb val t : merge ca cb val t = merge cb ca val t.
Proof. unfold merge. rewrite N.min_comm. rewrite set_class_twice_comm. reflexivity. Qed.

Lemma bind_get_cell {B} v (f : cell -> M B) t :
  bind (get_cell v) f t = match get t v with Some c => f c t | None => (Pan IndexOutOfBounds, t, []) end.
Proof.
  unfold bind, get_cell. destruct (get t v) as [c |]; [| reflexivity].
  destruct (f c t) as [[r t2] g2]. reflexivity.
Qed.

Lemma union_vars_comm a b t : union_vars a b t = union_vars b a t.
Proof.
  unfold union_vars. rewrite !bind_get_cell.
  destruct (get t a) as [ca |] eqn:A, (get t b) as [cb |] eqn:B; rewrite ?bind_get_cell, ?A, ?B; try reflexivity.
  rewrite (N.eqb_sym (ccls cb) (ccls ca)).
  destruct (ccls ca =? ccls cb); [reflexivity |].
  destruct (cval ca) as [ua | xa], (cval cb) as [ub | xb];
    rewrite ?(merge_comm (ccls cb) (ccls ca)), ?(N.min_comm ub ua); reflexivity.
Qed.

Lemma push_outlives_mirror v a b : mirror (push_outlives v a b) (push_outlives (invert v) b a).
Proof. intros t _. destruct v; cbn; repeat split; auto. apply perm_swap. Qed.

Section MirrorRec.
  Variable adt_var : N -> list variance.
  Variable fn_var : N -> list variance.
  Variable f : nat.
  Variable rec : rel_fn.
  Hypothesis Hrec : forall v a b, sfrag a = true -> sfrag b = true -> mirror (rec v a b) (rec (invert v) b a).
  Hypothesis Hrec_tf : forall v a b, sfrag a = true -> sfrag b = true -> tf (rec v a b) (fun _ => True).

  Notation sf := (fun y : tm => sfrag y = true).

  Lemma kind_eqb_sym x y : kind_eqb x y = kind_eqb y x.
  Proof. destruct x, y; reflexivity. Qed.

  Lemma mirror_rel_garg v a b : sfrag a = true -> sfrag b = true -> mirror (rel_garg rec v a b) (rel_garg rec (invert v) b a).
  Proof.
    intros Ha Hb. unfold rel_garg. rewrite (kind_eqb_sym (kind_of b) (kind_of a)).
    destruct (kind_eqb (kind_of a) (kind_of b)); [apply Hrec; assumption | apply mirror_refl].
  Qed.

  Lemma mirror_zip vf vf' : (forall j, vf' j = invert (vf j)) -> forall l l' i,
    Forall sf l -> Forall sf l' -> mirror (zip_children rec vf i l l') (zip_children rec vf' i l' l).
  Proof.
    intros Hv. induction l as [| x r IH]; intros l' i Hl Hl'; destruct l' as [| y r']; cbn [zip_children]; try apply mirror_refl.
    apply Forall_cons_iff in Hl, Hl'. destruct Hl as [Hx Hr], Hl' as [Hy Hr'].
    apply mirror_bind.
    - rewrite Hv. apply mirror_rel_garg; assumption.
    - apply tf_rel_garg; assumption.
    - intros _. apply IH; assumption.
  Qed.

  Lemma child_variance_invert h v i :
    child_variance adt_var fn_var h (invert v) i = invert (child_variance adt_var fn_var h v i).
  Proof. destruct h; cbn [child_variance]; try apply xform_invert; try reflexivity. destruct i; apply xform_invert. Qed.

  Lemma mirror_rel_ty_norm v a b : sfrag a = true -> sfrag b = true ->
    mirror (rel_ty_norm adt_var fn_var f rec v a b) (rel_ty_norm adt_var fn_var f rec (invert v) b a).
  Proof.
    intros Ha Hb. unfold rel_ty_norm. rewrite (tm_eqb_sym b a). destruct (tm_eqb a b); [apply mirror_refl |].
    destruct (tcls_sfrag a Ha) as (A1 & A2 & A3). destruct (tcls_sfrag b Hb) as (B1 & B2 & B3).
    destruct (tcls_of a) as [v1 k1 | | | | | | |] eqn:Ta; try congruence;
      destruct (tcls_of b) as [v2 k2 | | | | | | |] eqn:Tb; try congruence; cbv iota;
      rewrite ?invert_involutive_lemma; try apply mirror_refl.
    - (* var / var *)
      destruct k1, k2; cbn [tvk_eqb andb]; try apply mirror_refl; try (apply mirror_eq; intros t; apply union_vars_comm).
      destruct v; cbn [invert]; try apply mirror_refl. apply mirror_eq. intros t. apply union_vars_comm.
    - (* structural *)
      destruct a as [| | ha ca]; try discriminate Ta. destruct b as [| | hb cb]; try discriminate Tb.
      rewrite (head_eqb_sym hb ha). unfold head_eqb. destruct (head_eq_dec ha hb) as [-> | N]; [| rewrite !andb_false_r; apply mirror_refl].
      destruct (structural_head hb); cbn [andb]; [| apply mirror_refl].
      apply sfrag_node in Ha, Hb. apply mirror_zip; try tauto. intros j. apply child_variance_invert.
  Qed.

  Lemma mirror_rel_ty v a b : sfrag a = true -> sfrag b = true ->
    mirror (rel_ty adt_var fn_var f rec v a b) (rel_ty adt_var fn_var f rec (invert v) b a).
  Proof.
    intros Ha Hb t Ht. unfold rel_ty. rewrite !bind_get_table'.
    apply mirror_rel_ty_norm; try apply shallow_ty_sfrag; assumption.
  Qed.

  Lemma is_inv_invert v : is_inv (invert v) = is_inv v.
  Proof. destruct v; reflexivity. Qed.

  Lemma mirror_unless_unioned x y (k k' : M unit) : mirror k k' -> mirror (unless_unioned x y k) (unless_unioned y x k').
  Proof.
    intros Hk t Ht. unfold unless_unioned. rewrite !bind_get_cell.
    destruct (get t x) as [cx |] eqn:X, (get t y) as [cy |] eqn:Y; rewrite ?bind_get_cell, ?X, ?Y; cbn [fst snd]; auto.
    rewrite (N.eqb_sym (ccls cy) (ccls cx)). destruct (ccls cx =? ccls cy); [cbn [fst snd]; auto | apply Hk; exact Ht].
  Qed.

  Lemma mirror_rel_lt_norm v a b : mirror (rel_lt_norm v a b) (rel_lt_norm (invert v) b a).
  Proof.
    unfold rel_lt_norm. rewrite (tm_eqb_sym b a).
    destruct (lcls_of a), (lcls_of b); cbv iota; rewrite ?invert_involutive_lemma, ?is_inv_invert; try apply mirror_refl;
      try (destruct (is_inv v); [apply mirror_eq; intros t; apply union_vars_comm | apply mirror_unless_unioned; apply push_outlives_mirror]);
      try (apply mirror_eq; intros t; apply union_vars_comm);
      try (destruct (tm_eqb a b); [apply mirror_refl | apply push_outlives_mirror]).
  Qed.

  Lemma mirror_rel_lt v a b : mirror (rel_lt v a b) (rel_lt (invert v) b a).
  Proof. intros t Ht. unfold rel_lt. rewrite !bind_get_table'. apply mirror_rel_lt_norm. exact Ht. Qed.

  Lemma mirror_rel_const_norm v a b : sfrag a = true -> sfrag b = true ->
    mirror (rel_const_norm f rec v a b) (rel_const_norm f rec (invert v) b a).
  Proof.
    intros Ha Hb. unfold rel_const_norm. apply mirror_bind.
    - apply Hrec; apply const_ty_sfrag; assumption.
    - apply Hrec_tf; apply const_ty_sfrag; assumption.
    - intros _. destruct (ccls_of a), (ccls_of b); cbv iota; try apply mirror_refl;
        try (apply mirror_eq; intros t; apply union_vars_comm).
      + match goal with |- mirror (if tm_eqb ?x ?y then _ else _) _ => rewrite (tm_eqb_sym y x) end. apply mirror_refl.
      + rewrite (N.eqb_sym n0 n). apply mirror_refl.
  Qed.

  Lemma mirror_rel_const v a b : sfrag a = true -> sfrag b = true ->
    mirror (rel_const f rec v a b) (rel_const f rec (invert v) b a).
  Proof.
    intros Ha Hb t Ht. unfold rel_const. rewrite !bind_get_table'.
    apply mirror_rel_const_norm; try apply shallow1_sfrag; assumption.
  Qed.
End MirrorRec.

Section Symmetric.
  Variable adt_var : N -> list variance.
  Variable fn_var : N -> list variance.

  Lemma rel_mirror : forall f v a b, sfrag a = true -> sfrag b = true ->
    mirror (rel adt_var fn_var f v a b) (rel adt_var fn_var f (invert v) b a).
  Proof.
    induction f as [| f IH]; intros v a b Ha Hb; cbn [rel]; [apply mirror_refl |].
    destruct (kind_of a), (kind_of b); try apply mirror_refl.
    - apply mirror_rel_ty; try assumption. intros; apply tf_rel; assumption.
    - apply mirror_rel_lt.
    - apply mirror_rel_const; try assumption. intros; apply tf_rel; assumption.
  Qed.

  Lemma filter_perm {A} (p : A -> bool) (l l' : list A) : Permutation l l' -> Permutation (filter p l) (filter p l').
  Proof.
    induction 1 as [| x l l' _ IH | x y l | l l' l'' _ IH1 _ IH2]; cbn [filter].
    - constructor.
    - destruct (p x); [constructor |]; exact IH.
    - destruct (p x), (p y); try apply Permutation_refl. apply perm_swap.
    - eapply Permutation_trans; eassumption.
  Qed.

  (** [relate a b] and [relate b a] (at mirrored variance) agree on the outcome kind, on the
      resulting table and, up to order, on the goals. *)
  Lemma relate_mirror f v a b t :
    sfrag a = true -> sfrag b = true -> tfrag t ->
    snd (relate adt_var fn_var f v a b t) = snd (relate adt_var fn_var f (invert v) b a t)
    /\ match fst (relate adt_var fn_var f v a b t), fst (relate adt_var fn_var f (invert v) b a t) with
       | Done g, Done g' => Permutation g g'
       | NoSol, NoSol | OutOfFuel, OutOfFuel | Unsup, Unsup => True
       | Pan s, Pan s' => s = s'
       | _, _ => False
       end.
  Proof.
    intros Ha Hb Ht. pose proof (rel_mirror f v a b Ha Hb t Ht) as H. unfold relate.
    destruct (rel adt_var fn_var f v a b t) as [[r t1] g1]. destruct (rel adt_var fn_var f (invert v) b a t) as [[r' t1'] g1'].
    cbn [fst snd] in H. destruct H as (-> & -> & P).
    destruct r' as [[] | | | s |]; cbn [fst snd]; auto.
    split; [reflexivity |]. unfold retain_goals. apply filter_perm. exact P.
  Qed.

  Lemma relate_symmetric_lemma f a b t :
    sfrag a = true -> sfrag b = true -> tfrag t ->
    (fst (relate adt_var fn_var f Invariant a b t) = NoSol <-> fst (relate adt_var fn_var f Invariant b a t) = NoSol).
  Proof.
    intros Ha Hb Ht. destruct (relate_mirror f Invariant a b t Ha Hb Ht) as [_ H]. cbn [invert] in H.
    destruct (fst (relate adt_var fn_var f Invariant a b t)), (fst (relate adt_var fn_var f Invariant b a t));
      try contradiction; split; intros Q; try discriminate Q; reflexivity.
  Qed.

  (** ... and the fragment is closed under successful relates, so the lemma applies along a
      whole history. *)
  Lemma relate_tfrag f v a b t gs t' :
    sfrag a = true -> sfrag b = true -> tfrag t ->
    relate adt_var fn_var f v a b t = (Done gs, t') -> tfrag t'.
  Proof.
    intros Ha Hb Ht. unfold relate. destruct (rel adt_var fn_var f v a b t) as [[r t1] g1] eqn:E.
    destruct r as [[] | | | s |]; intros Q; inversion Q; subst.
    unfold commit. exact (proj1 (tf_rel adt_var fn_var f v a b Ha Hb t tt _ g1 Ht E)).
  Qed.
End Symmetric.

Lemma tfrag_empty : tfrag empty_table.
Proof. intros v c x G _. unfold get, empty_table in G. cbn [unify] in G. destruct (N.to_nat v); discriminate G. Qed.

(** Non-vacuity: a pair in the fragment that fails only after bindings were made (occurs
    check through a variable bound earlier in the same relate), in both orders; and a pair that
    succeeds in both orders with the same table. *)
Example relate_symmetric_nonvacuous :
  let t := snd (new_variable 0 (snd (new_variable 0 empty_table))) in
  let a := Node (HTuple 2) [ty_var 0 General; ty_var 0 General] in
  let b := Node (HTuple 2) [ty_var 1 General; Node HSlice [ty_var 1 General]] in
  let c := Node (HTuple 2) [ty_var 1 General; Node (HRef Not) [Node (HLPlaceholder 0 0) []; Node (HScalar Bool) []]] in
  sfrag a = true /\ sfrag b = true /\ sfrag c = true /\ tfrag t
  /\ fst (relate (fun _ => []) (fun _ => []) 20 Invariant a b t) = NoSol
  /\ fst (relate (fun _ => []) (fun _ => []) 20 Invariant b a t) = NoSol
  /\ snd (relate (fun _ => []) (fun _ => []) 20 Invariant a c t) = snd (relate (fun _ => []) (fun _ => []) 20 Invariant c a t)
  /\ fst (relate (fun _ => []) (fun _ => []) 20 Invariant a c t) = Done []
  /\ snd (relate (fun _ => []) (fun _ => []) 20 Invariant a c t) <> t.
Proof.
  cbv zeta. repeat split; try reflexivity.
  - apply tfrag_new_variable, tfrag_new_variable, tfrag_empty.
  - vm_compute. intros Q. discriminate Q.
Qed.
