(** Property C11 — interrupted solving is a safe approximation.
    [should_continue] is the arbitrary boolean stream [sc cf]; [quiet cf s s'] says that no
    call of it between the two states answered [false]. *)
From Chalk Require Import Engine.RecTheorems.

(** A root solve that was cut short (any stream, any history before it) answers the full
    answer or the weaker [Amb]. *)
Theorem rec_interrupt_weaker : forall G cf fuel h fuel' g v s' v0,
  wf G -> ~ mixed_cycle G -> vr cf = repaired -> in_graph G h -> g < length G ->
  solve_root G cf fuel' g (after G cf fuel h) = Done v s' -> sem G g v0 -> weaker v v0.
Proof. intros G cf fuel h fuel' g v s' v0 Hwf Hnm. exact (rec_interrupt_weaker_lemma G Hwf Hnm cf fuel h fuel' g v s' v0). Qed.

(** Whatever was interrupted before, the state stays sound: every cache entry is the
    declarative value, and a later uninterrupted solve on the same context answers the
    declarative value -- i.e. what a fresh context answers (C10 [rec_history_independent]). *)
Theorem rec_interrupt_state_ok : forall G cf fuel h fuel' g v s',
  wf G -> ~ mixed_cycle G -> vr cf = repaired -> in_graph G h -> g < length G ->
  (forall x w, cache_get (cache (after G cf fuel h)) x = Some w -> sem G x w) /\
  (solve_root G cf fuel' g (after G cf fuel h) = Done v s' -> quiet cf (after G cf fuel h) s' -> sem G g v).
Proof.
  intros G cf fuel h fuel' g v s' Hwf Hnm Hvr Hin Hg. split.
  - exact (rec_cache_exact_lemma G Hwf Hnm cf fuel h Hvr Hin).
  - exact (rec_exact_after G Hwf Hnm cf fuel h fuel' g v s' Hvr Hin Hg).
Qed.

(** F3 on the faithful model of the UNCHANGED engine. *)
Theorem rec_interrupt_refuted :
  exists G g stop,
    answer G (RecWitness.cfg unchanged stop []) 100 [g; g] init_state = Some (OVal Amb) /\
    answer G (RecWitness.cfg unchanged [] []) 100 [g] init_state = Some (OVal Yes) /\
    (forall i, 1 <= i -> not_in stop i = true).
Proof. exact RecWitness.rec_interrupt_refuted. Qed.
