(** Property C11 — interrupted solving is a safe approximation. *)
From Chalk Require Import Engine.RecEngine Engine.RecWitness.

(** F3 on the faithful model of the UNCHANGED engine. *)
Theorem rec_interrupt_refuted :
  exists G g stop,
    answer G (cfg unchanged stop []) 100 [g; g] init_state = Some (OVal Amb) /\
    answer G (cfg unchanged [] []) 100 [g] init_state = Some (OVal Yes) /\
    (forall i, 1 <= i -> not_in stop i = true).
Proof. exact RecWitness.rec_interrupt_refuted. Qed.
