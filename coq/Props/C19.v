(* C19 -- Coherence checking is total and its accepted priorities are consistent.
   Models and proofs: Check/Priorities.v. *)
From Coq Require Import List Arith Bool.
Import ListNotations.
From Chalk Require Import Check.Priorities.

(* Never a panic, for all oracle matrices (cyclic specialization relations included). *)
Theorem priorities_total :
  forall (n : nat) (marker : bool) (positive : nat -> bool) (disjoint specializes : nat -> nat -> bool),
    is_panic (run n marker positive disjoint specializes) = false.
Proof. exact Priorities.priorities_total. Qed.

(* A recorded specialization less -> more gives `more` the strictly higher priority. *)
Theorem priorities_strict :
  forall (n : nat) (marker : bool) (positive : nat -> bool) (disjoint specializes : nat -> nat -> bool)
         (ps : list (nat * nat)) (less more : nat),
    marker = false ->
    run n marker positive disjoint specializes = Accepted ps ->
    spec_edge n positive disjoint specializes less more ->
    exists p q : nat, lookup ps less = Some p /\ lookup ps more = Some q /\ p < q.
Proof. exact Priorities.priorities_strict. Qed.

(* Impls of equal priority (not both negative) were proven disjoint. *)
Theorem equal_priority_disjoint :
  forall (n : nat) (marker : bool) (positive : nat -> bool) (disjoint specializes : nat -> nat -> bool)
         (ps : list (nat * nat)) (i j : nat),
    marker = false ->
    run n marker positive disjoint specializes = Accepted ps ->
    i < j -> j < n ->
    positive i = true \/ positive j = true ->
    prio_of ps i = prio_of ps j -> disjoint i j = true.
Proof. exact Priorities.equal_priority_disjoint. Qed.

(* The two semantic clauses, given soundness of the two solver queries. *)
Theorem equal_priority_no_common_ref :
  forall (R : Type) (n : nat) (marker : bool) (positive : nat -> bool)
         (disjoint specializes : nat -> nat -> bool) (applies : nat -> R -> Prop),
    (forall l r, disjoint l r = true -> forall x, applies l x -> applies r x -> False) ->
    forall (ps : list (nat * nat)) (i j : nat) (x : R),
      marker = false ->
      run n marker positive disjoint specializes = Accepted ps ->
      i < j -> j < n ->
      positive i = true \/ positive j = true ->
      prio_of ps i = prio_of ps j -> applies i x -> applies j x -> False.
Proof. exact Priorities.equal_priority_no_common_ref. Qed.

Theorem strict_subset_higher_priority :
  forall (R : Type) (n : nat) (marker : bool) (positive : nat -> bool)
         (disjoint specializes : nat -> nat -> bool) (applies : nat -> R -> Prop),
    (forall l r, disjoint l r = true -> forall x, applies l x -> applies r x -> False) ->
    (forall less more, specializes less more = true -> forall x, applies more x -> applies less x) ->
    forall (ps : list (nat * nat)) (i j : nat),
      marker = false ->
      run n marker positive disjoint specializes = Accepted ps ->
      i < n -> j < n -> i <> j ->
      positive i = true \/ positive j = true ->
      (exists x, applies i x) ->
      (forall x, applies i x -> applies j x) ->
      (exists x, applies j x /\ ~ applies i x) ->
      prio_of ps j < prio_of ps i.
Proof. exact Priorities.strict_subset_higher_priority. Qed.

(* Acceptance is exactly: no clashing pair and an acyclic recorded relation. *)
Theorem acyclic_accepted :
  forall (n : nat) (marker : bool) (positive : nat -> bool) (disjoint specializes : nat -> nat -> bool)
         (edges : list (nat * nat)),
    marker = false ->
    visit positive disjoint specializes (pairs n) = Some edges ->
    ranked edges ->
    exists ps : list (nat * nat), run n marker positive disjoint specializes = Accepted ps.
Proof. exact Priorities.acyclic_accepted. Qed.

(* F2: the assignment before the fix panics on a chain of three impls. *)
Theorem priorities_refuted : exists x : input, run_orig_data x = Panic InsertTwice.
Proof. exact Priorities.priorities_refuted. Qed.

Check priorities_total :
  forall (n : nat) (marker : bool) (positive : nat -> bool) (disjoint specializes : nat -> nat -> bool),
    is_panic (run n marker positive disjoint specializes) = false.
Check priorities_refuted : exists x : input, run_orig_data x = Panic InsertTwice.
