(** Property C01 — a definite answer from either solver matches the program's logical meaning.
    [eval_correct]: the oracle is the declarative truth (all programs, all goals, both
    directions, whenever it returns a verdict).  [check_answer_alarm_sound]: whenever the
    executable contract checker flags a solver answer, the answer contract of the property
    ([Unique] sound and complete, [NoSolution] only without solutions, [Definite] guidance never
    excluding a solution) is really violated.  [f14_refuted]: on the unchanged tree the
    contract IS violated inside the known class [f14_class] (DESIGN §5 F14). *)
From Chalk Require Import Logic.Contract.

Theorem eval_correct : forall (fuel : nat) (P : program) (env : list clause) (rho : list ty) (g : goal) (b : bool),
  rr (allc P env) -> eval_goal fuel P env rho g = Some b -> (b = true <-> sat P env rho g).
Proof. exact Ground.eval_correct. Qed.
Check eval_correct : forall (fuel : nat) (P : program) (env : list clause) (rho : list ty) (g : goal) (b : bool),
  rr (allc P env) -> eval_goal fuel P env rho g = Some b -> (b = true <-> sat P env rho g).

Theorem check_answer_alarm_sound : forall (fuel : nat) (P : program) (env : list clause) (q : query)
    (a : answer) (cands : list (list ty)) (c : N),
  rr (allc P env) -> check_answer fuel P env q a cands = VAlarm c -> ~ contract P env q a.
Proof. exact Contract.check_answer_alarm_sound. Qed.
Check check_answer_alarm_sound : forall (fuel : nat) (P : program) (env : list clause) (q : query)
    (a : answer) (cands : list (list ty)) (c : N),
  rr (allc P env) -> check_answer fuel P env q a cands = VAlarm c -> ~ contract P env q a.

Theorem f14_refuted :
  f14_class ContractExamples.P14 ContractExamples.q14 = true /\
  ~ contract ContractExamples.P14 [] ContractExamples.q14 ContractExamples.slg14.
Proof. exact ContractExamples.f14_refuted. Qed.
Check f14_refuted :
  f14_class ContractExamples.P14 ContractExamples.q14 = true /\
  ~ contract ContractExamples.P14 [] ContractExamples.q14 ContractExamples.slg14.
