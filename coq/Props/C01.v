(** Property C01 — a definite answer from either solver matches the program's logical meaning.
    [eval_correct]: the oracle is the declarative truth (all programs, all goals, both
    directions, whenever it returns a verdict).  [check_answer_alarm_sound]: whenever the
    executable contract checker flags a solver answer, the answer contract of the property
    ([Unique] sound and complete, [NoSolution] only without solutions, [Definite] guidance never
    excluding a solution) is really violated.  [f14_refuted]: on the unchanged tree the
    contract IS violated inside the known class [f14_class] (DESIGN §5 F14). *)
From Chalk Require Import Logic.Contract Logic.Meta Logic.Fuel Logic.Decide Logic.Classes Logic.Inv.

Theorem eval_correct : forall (fuel : nat) (P : program) (env : list clause) (rho : list ty) (g : goal) (b : bool),
  rr (allc P env) -> eval_goal fuel P env rho g = Some b -> (b = true <-> sat P env rho g).
Proof. exact Ground.eval_correct. Qed.
Check eval_correct : forall (fuel : nat) (P : program) (env : list clause) (rho : list ty) (g : goal) (b : bool),
  rr (allc P env) -> eval_goal fuel P env rho g = Some b -> (b = true <-> sat P env rho g).

Theorem check_answer_alarm_sound : forall (fuel : nat) (P : program) (env : list clause) (q : query)
    (a : answer) (cands : list (list ty)) (c : N),
  rr (allc P env) -> check_answer fuel P env q a cands = VAlarm c -> ~ contract P env q a.
Proof. exact Contract.check_answer_alarm_sound. Qed.
Check check_answer_alarm_sound : forall (fuel : nat) (P : program) (env : list clause) (q : query)
    (a : answer) (cands : list (list ty)) (c : N),
  rr (allc P env) -> check_answer fuel P env q a cands = VAlarm c -> ~ contract P env q a.

Theorem f14_refuted :
  f14_class ContractExamples.P14 ContractExamples.q14 = true /\
  ~ contract ContractExamples.P14 [] ContractExamples.q14 ContractExamples.slg14.
Proof. exact ContractExamples.f14_refuted. Qed.
Check f14_refuted :
  f14_class ContractExamples.P14 ContractExamples.q14 = true /\
  ~ contract ContractExamples.P14 [] ContractExamples.q14 ContractExamples.slg14.

Theorem f1_refuted :
  f1_class ContractExamples.P1 ContractExamples.q1 = true /\
  guidance_repeats ContractExamples.slg1 = true /\
  ~ contract ContractExamples.P1 [] ContractExamples.q1 ContractExamples.slg1.
Proof. exact ContractExamples.f1_refuted. Qed.
Check f1_refuted :
  f1_class ContractExamples.P1 ContractExamples.q1 = true /\
  guidance_repeats ContractExamples.slg1 = true /\
  ~ contract ContractExamples.P1 [] ContractExamples.q1 ContractExamples.slg1.

Theorem placeholder_generic : forall (P : program) (env : list clause) (rho : list ty) (g : goal) (k : N) (t : ty),
  (phb_clauses (pclauses P) <= k)%N -> (phb_clauses env <= k)%N -> (phb_goal g <= k)%N ->
  negfree g = true -> wf_goal g = true -> wf_cls (allc P env) -> ground t ->
  sat P env rho g -> sat P env (map (rp (one k t)) rho) g.
Proof. exact Meta.placeholder_generic. Qed.
Check placeholder_generic : forall (P : program) (env : list clause) (rho : list ty) (g : goal) (k : N) (t : ty),
  (phb_clauses (pclauses P) <= k)%N -> (phb_clauses env <= k)%N -> (phb_goal g <= k)%N ->
  negfree g = true -> wf_goal g = true -> wf_cls (allc P env) -> ground t ->
  sat P env rho g -> sat P env (map (rp (one k t)) rho) g.

Theorem unique_sound_exact : forall (fuel : nat) (P : program) (env : list clause) (q : query)
    (vubs : list N) (pat tau : list ty),
  rr (allc P env) -> wf_cls (allc P env) -> negfree (q_body q) = true -> wf_goal (q_body q) = true ->
  sound_half fuel P env q vubs pat = Some true ->
  length tau = length vubs -> Forall ground tau ->
  sat P env (rev (app_ans pat tau)) (q_body q).
Proof. exact Meta.unique_sound_exact. Qed.
Check unique_sound_exact : forall (fuel : nat) (P : program) (env : list clause) (q : query)
    (vubs : list N) (pat tau : list ty),
  rr (allc P env) -> wf_cls (allc P env) -> negfree (q_body q) = true -> wf_goal (q_body q) = true ->
  sound_half fuel P env q vubs pat = Some true ->
  length tau = length vubs -> Forall ground tau ->
  sat P env (rev (app_ans pat tau)) (q_body q).

Theorem f7q_refuted :
  f7q_class 50 ContractExamples.P7q (GAtom (ContractExamples.C (ContractExamples.K 0))) = true /\
  ~ contract ContractExamples.P7q [] (closed_query (GAtom (ContractExamples.C (ContractExamples.K 0)))) ANone.
Proof. exact ContractExamples.f7q_refuted. Qed.
Check f7q_refuted :
  f7q_class 50 ContractExamples.P7q (GAtom (ContractExamples.C (ContractExamples.K 0))) = true /\
  ~ contract ContractExamples.P7q [] (closed_query (GAtom (ContractExamples.C (ContractExamples.K 0)))) ANone.

Theorem f14b_refuted :
  f14b_class ContractExamples.P14b ContractExamples.q14b = true /\
  ~ contract ContractExamples.P14b [] ContractExamples.q14b (AUnique [] [ContractExamples.tB; ContractExamples.tB]) /\
  check_answer 50 ContractExamples.P14b [] ContractExamples.q14b (AUnique [0%N; 0%N] [TVar 0; TVar 1])
    [[ContractExamples.tA; ContractExamples.tA]; [ContractExamples.tB; ContractExamples.tA]] = VOk /\
  f14b_class ContractExamples.P14 ContractExamples.q14 = false.
Proof. exact ContractExamples.f14b_refuted. Qed.
Check f14b_refuted :
  f14b_class ContractExamples.P14b ContractExamples.q14b = true /\
  ~ contract ContractExamples.P14b [] ContractExamples.q14b (AUnique [] [ContractExamples.tB; ContractExamples.tB]) /\
  check_answer 50 ContractExamples.P14b [] ContractExamples.q14b (AUnique [0%N; 0%N] [TVar 0; TVar 1])
    [[ContractExamples.tA; ContractExamples.tA]; [ContractExamples.tB; ContractExamples.tA]] = VOk /\
  f14b_class ContractExamples.P14 ContractExamples.q14 = false.

Theorem eval_goal_fuel_sufficient : forall (g : goal) (fuel0 : nat) (P : program) (env : list clause) (rho : list ty) (n F : nat),
  goal_ready fuel0 P env rho g = Some n -> fuel0 <= F -> n < F ->
  exists b, eval_goal F P env rho g = Some b.
Proof. exact Fuel.eval_goal_fuel_sufficient. Qed.
Check eval_goal_fuel_sufficient : forall (g : goal) (fuel0 : nat) (P : program) (env : list clause) (rho : list ty) (n F : nat),
  goal_ready fuel0 P env rho g = Some n -> fuel0 <= F -> n < F ->
  exists b, eval_goal F P env rho g = Some b.

Theorem check_answer_ok_sound : forall (fuel : nat) (P : program) (env : list clause) (q : query) (a : answer) (cands : list (list ty)),
  rr (allc P env) -> wf_cls (allc P env) -> negfree (q_body q) = true -> wf_goal (q_body q) = true ->
  answer_scoped q a = true -> covers P env q cands ->
  check_answer fuel P env q a cands = VOk -> contract P env q a.
Proof. exact Decide.check_answer_ok_sound. Qed.
Check check_answer_ok_sound : forall (fuel : nat) (P : program) (env : list clause) (q : query) (a : answer) (cands : list (list ty)),
  rr (allc P env) -> wf_cls (allc P env) -> negfree (q_body q) = true -> wf_goal (q_body q) = true ->
  answer_scoped q a = true -> covers P env q cands ->
  check_answer fuel P env q a cands = VOk -> contract P env q a.

Theorem check_answer_closed_ok_sound : forall (fuel : nat) (P : program) (env : list clause) (g : goal) (a : answer),
  rr (allc P env) -> wf_cls (allc P env) -> negfree g = true -> wf_goal g = true ->
  answer_scoped (closed_query g) a = true ->
  check_answer fuel P env (closed_query g) a [[]] = VOk -> contract P env (closed_query g) a.
Proof. exact Decide.check_answer_closed_ok_sound. Qed.
Check check_answer_closed_ok_sound : forall (fuel : nat) (P : program) (env : list clause) (g : goal) (a : answer),
  rr (allc P env) -> wf_cls (allc P env) -> negfree g = true -> wf_goal g = true ->
  answer_scoped (closed_query g) a = true ->
  check_answer fuel P env (closed_query g) a [[]] = VOk -> contract P env (closed_query g) a.

Theorem known_classes_narrow :
  (forall P q, q_ubs q = [] -> f14_class P q = false /\ f14b_class P q = false /\ f1_class P q = false) /\
  (forall P q, pcoind P = [] -> f14_class P q = false /\ f14b_class P q = false) /\
  (forall fuel P g, pcoind P = [] -> f7q_class fuel P g = false /\ f7n_class fuel P g = false) /\
  (forall fuel P q cands, pcoind P = [] -> f7q_query fuel P q cands = false) /\
  (forall fuel P g, has_not g = false -> f7n_class fuel P g = false).
Proof. exact Classes.known_classes_narrow. Qed.
Check known_classes_narrow :
  (forall P q, q_ubs q = [] -> f14_class P q = false /\ f14b_class P q = false /\ f1_class P q = false) /\
  (forall P q, pcoind P = [] -> f14_class P q = false /\ f14b_class P q = false) /\
  (forall fuel P g, pcoind P = [] -> f7q_class fuel P g = false /\ f7n_class fuel P g = false) /\
  (forall fuel P q cands, pcoind P = [] -> f7q_query fuel P q cands = false) /\
  (forall fuel P g, has_not g = false -> f7n_class fuel P g = false).

Theorem eval_inv_false_sound : forall (g : goal) (fuel : nat) (univ : list ty) (P : program) (env : list clause) (rho : list ty),
  rr (allc P env) -> eval_inv fuel univ P env rho g = Some false -> ~ sat_inv P env rho g.
Proof. exact Inv.eval_inv_false_sound. Qed.
Check eval_inv_false_sound : forall (g : goal) (fuel : nat) (univ : list ty) (P : program) (env : list clause) (rho : list ty),
  rr (allc P env) -> eval_inv fuel univ P env rho g = Some false -> ~ sat_inv P env rho g.

Theorem sat_inv_clean : forall (g : goal) (P : program) (env : list clause) (rho : list ty),
  naf g = true -> phb_clauses env = 0%N -> phb_list rho = 0%N -> phb_goal g = 0%N ->
  (sat_inv P env rho g <-> sat P env rho g).
Proof. exact Inv.sat_inv_clean. Qed.
Check sat_inv_clean : forall (g : goal) (P : program) (env : list clause) (rho : list ty),
  naf g = true -> phb_clauses env = 0%N -> phb_list rho = 0%N -> phb_goal g = 0%N ->
  (sat_inv P env rho g <-> sat P env rho g).

Theorem sat_inv_le : forall (g : goal) (P : program) (env : list clause) (rho : list ty),
  nn1 g = true -> sat_inv P env rho g -> sat P env rho g.
Proof. exact Inv.sat_inv_le. Qed.
Check sat_inv_le : forall (g : goal) (P : program) (env : list clause) (rho : list ty),
  nn1 g = true -> sat_inv P env rho g -> sat P env rho g.

Theorem neg_inv_differ :
  neg_inv_shape false InvExamples.gn = true /\ sat InvExamples.Pn [] [] InvExamples.gn /\ ~ sat_inv InvExamples.Pn [] [] InvExamples.gn.
Proof. exact InvExamples.neg_inv_differ. Qed.
Check neg_inv_differ :
  neg_inv_shape false InvExamples.gn = true /\ sat InvExamples.Pn [] [] InvExamples.gn /\ ~ sat_inv InvExamples.Pn [] [] InvExamples.gn.
