(** C22 — printing a program and reparsing it gives back an equivalent program.
    Proved for the small core fragment (see Text/RoundTrip.v for what it contains and what is
    only tested end-to-end); hence the suffix [_partial]. *)
From Coq Require Import List.
From Chalk Require Import Text.Syntax22 Text.Print Text.Parse Text.RoundTripAst Text.RoundTripIr Text.RoundTrip.

Theorem parse_print_partial : forall p fuel,
  wf p -> need p <= fuel -> parse_fuel fuel (print p) = Some (norm p).
Proof. exact parse_print_small. Qed.
Check parse_print_partial : forall p fuel,
  wf p -> need p <= fuel -> parse_fuel fuel (print p) = Some (norm p).

Theorem print_idempotent_partial : forall p p' fuel,
  wf p -> need p <= fuel -> parse_fuel fuel (print p) = Some p' ->
  print p' = print p /\ parse_fuel fuel (print p') = Some p'.
Proof. exact print_idempotent_small. Qed.
Check print_idempotent_partial : forall p p' fuel,
  wf p -> need p <= fuel -> parse_fuel fuel (print p) = Some p' ->
  print p' = print p /\ parse_fuel fuel (print p') = Some p'.

(** the two halves: grammar (any surface program) and naming scheme (well-formed lowered programs) *)
Theorem parse_print_ast : forall a fuel,
  length a + need_ast a <= fuel -> parse_ast_fuel fuel (print_ast a) = Some a.
Proof. exact Chalk.Text.RoundTripAst.parse_print_ast. Qed.
Check parse_print_ast : forall a fuel,
  length a + need_ast a <= fuel -> parse_ast_fuel fuel (print_ast a) = Some a.

Theorem resolve_unresolve : forall p, wf p -> resolve (unresolve p) = Some p.
Proof. exact Chalk.Text.RoundTripIr.resolve_unresolve. Qed.
Check resolve_unresolve : forall p, wf p -> resolve (unresolve p) = Some p.
