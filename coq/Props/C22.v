(** C22 — printing a program and reparsing it gives back an equivalent program.
    Proved for the core fragment described in Text/RoundTrip.v; what lies outside it (variances,
    reprs, const/int/float parameters, arrays, associated types and equality bounds, fn pointers,
    dyn, opaque types, fn definitions, lang attributes) is only tested end-to-end: hence the
    suffix [_partial]. *)
From Coq Require Import List.
From Chalk Require Import Text.Syntax22 Text.Print Text.Parse Text.RoundTripAst Text.RoundTripIr Text.RoundTrip Text.Fuel.

(** executable parser, fuel = number of tokens *)
Theorem parse_print_partial : forall p, wf p -> parse (print p) = Some (norm p).
Proof. exact Chalk.Text.Fuel.parse_print. Qed.
Check parse_print_partial : forall p, wf p -> parse (print p) = Some (norm p).

Theorem print_idempotent_partial : forall p p',
  wf p -> parse (print p) = Some p' -> print p' = print p /\ parse (print p') = Some p'.
Proof. exact Chalk.Text.Fuel.print_idempotent. Qed.
Check print_idempotent_partial : forall p p',
  wf p -> parse (print p) = Some p' -> print p' = print p /\ parse (print p') = Some p'.

(** any sufficient fuel *)
Theorem parse_print_fuel_partial : forall p fuel,
  wf p -> need p <= fuel -> parse_fuel fuel (print p) = Some (norm p).
Proof. exact parse_print_small. Qed.
Check parse_print_fuel_partial : forall p fuel,
  wf p -> need p <= fuel -> parse_fuel fuel (print p) = Some (norm p).

(** the two halves: grammar (any surface program) and naming scheme (well-formed lowered programs) *)
Theorem parse_print_ast : forall a fuel,
  length a + need_ast a <= fuel -> parse_ast_fuel fuel (print_ast a) = Some a.
Proof. exact Chalk.Text.RoundTripAst.parse_print_ast. Qed.
Check parse_print_ast : forall a fuel,
  length a + need_ast a <= fuel -> parse_ast_fuel fuel (print_ast a) = Some a.

Theorem resolve_unresolve : forall p, wf p -> resolve (unresolve p) = Some p.
Proof. exact Chalk.Text.RoundTripIr.resolve_unresolve. Qed.
Check resolve_unresolve : forall p, wf p -> resolve (unresolve p) = Some p.
