(** Property C21 — well-formedness checking guarantees the bounds it lets code assume.
    PARTIAL BY DESIGN, and the full statement is refuted on the unchanged design.

    [wf_implied_bounds_sound] (the property as stated, for the goals wf.rs builds — kept in
    full) is FALSE: [wf_implied_bounds_sound_refuted] (witness [WfExamples.Dh]: the impl
    [impl<T> Foo for Vec<T> where Set<T>: Bar<T>] is accepted because the well-formedness of the
    where-clause's own type [Set<T>] is proved from that very where-clause; finding
    C21-wf-circular).

    [wf_implied_bounds_sound_partial]: in the fragment without associated types and
    lifetimes, with inductive traits, if every impl goal holds for every ground instantiation
    of the impl parameters AND the input types of the where-clauses are well-formed given the
    header's input types alone (strict), then every implemented trait reference whose input
    types are well-formed is [WellFormed] — all bounds of the trait hold, transitively
    (induction on the derivation of [T: Tr]; [cut]: a goal proved under FromEnv hypotheses
    whose closure is true holds without them).  [wf_fields_sound]: the input types of the
    fields of a deeply well-formed struct instance are well-formed.  [holds_full_core] links
    the core program of these statements with the full program (implied-bound rules included).

    Gaps: associated types / outlives bounds / coinductive and auto traits are outside the
    fragment; the premises are in instance form — that the generic goal the checker proves
    (placeholders) implies every ground instance is not proved here; trait declarations are
    not checked by chalk at all. *)
From Chalk Require Import Rules.Wf.

Theorem wf_implied_bounds_sound_refuted : ~ wf_implied_bounds_sound.
Proof. exact WfExamples.wf_implied_bounds_sound_refuted. Qed.
Check wf_implied_bounds_sound_refuted : ~ (forall d : decls, wf_sys_ok (lower d) = true -> wf_accepts d -> wf_conclusion d).

Theorem wf_implied_bounds_sound_partial : forall s : rsys,
  wf_sys_ok s = true ->
  (forall c : clause, In c (rs_R s) -> is_impl c = true -> impl_wf_inst s c /\ impl_wf_strict_inst s c) ->
  forall a : ty, isI a = true ->
  (forall u : ty, In u (insp a) -> hR (rs_R s) (rs_co s) (wfty u)) ->
  hR (rs_R s) (rs_co s) a -> hR (rs_R s) (rs_co s) (wf a).
Proof. exact Wf.wf_sound_traits. Qed.
Check wf_implied_bounds_sound_partial : forall s : rsys,
  wf_sys_ok s = true ->
  (forall c : clause, In c (rs_R s) -> is_impl c = true -> impl_wf_inst s c /\ impl_wf_strict_inst s c) ->
  forall a : ty, isI a = true ->
  (forall u : ty, In u (insp a) -> hR (rs_R s) (rs_co s) (wfty u)) ->
  hR (rs_R s) (rs_co s) a -> hR (rs_R s) (rs_co s) (wf a).

Theorem wf_fields_sound : forall (s : rsys), wf_sys_ok s = true ->
  forall (aty : ty) (wcs fields : list ty) (k : clause),
  k = mkClause (wfty aty) (map wf wcs) -> In k (rs_R s) -> rrb k = true ->
  (forall c, In c (rs_R s) -> hkey (chead c) = hkey (chead k) -> c = k) ->
  forallb isI wcs = true -> hsym aty <> None -> fo aty = true ->
  (forall f i, In f fields -> occurs i f = true -> occurs i aty = true) ->
  adt_wf_inst s wcs fields ->
  forall th, (forall i, ground (th i)) ->
  (forall u, In u (inputs (subst th aty)) -> hR (rs_R s) (rs_co s) (wfty u)) ->
  forall f u', In f fields -> In u' (inputs (subst th f)) -> hR (rs_R s) (rs_co s) (wfty u').
Proof. exact Wf.wf_sound_fields. Qed.
Check wf_fields_sound : forall (s : rsys), wf_sys_ok s = true ->
  forall (aty : ty) (wcs fields : list ty) (k : clause),
  k = mkClause (wfty aty) (map wf wcs) -> In k (rs_R s) -> rrb k = true ->
  (forall c, In c (rs_R s) -> hkey (chead c) = hkey (chead k) -> c = k) ->
  forallb isI wcs = true -> hsym aty <> None -> fo aty = true ->
  (forall f i, In f fields -> occurs i f = true -> occurs i aty = true) ->
  adt_wf_inst s wcs fields ->
  forall th, (forall i, ground (th i)) ->
  (forall u, In u (inputs (subst th aty)) -> hR (rs_R s) (rs_co s) (wfty u)) ->
  forall f u', In f fields -> In u' (inputs (subst th f)) -> hR (rs_R s) (rs_co s) (wfty u').

Theorem cut : forall (R : list clause) (co : list N),
  (forall c, In c R -> core_clause_ok c = true) -> (forall s, In s co -> isF s = false) ->
  forall C : ty -> Prop, (forall a, C a -> isFa a = true) ->
  (forall a, isI a = true -> C (fe a) -> hR R co a) ->
  forall a, isFa a = false -> holds (stepC C R) (isco co) a -> hR R co a.
Proof. exact Wf.cut. Qed.
Check cut : forall (R : list clause) (co : list N),
  (forall c, In c R -> core_clause_ok c = true) -> (forall s, In s co -> isF s = false) ->
  forall C : ty -> Prop, (forall a, C a -> isFa a = true) ->
  (forall a, isI a = true -> C (fe a) -> hR R co a) ->
  forall a, isFa a = false -> holds (stepC C R) (isco co) a -> hR R co a.

Theorem holds_full_core : forall (s : rsys) (a : ty), rsys_ok s = true ->
  (holdsP (full_program s) [] a <-> hR (rs_R s) (rs_co s) a).
Proof. exact Wf.holds_full_core. Qed.
Check holds_full_core : forall (s : rsys) (a : ty), rsys_ok s = true ->
  (holdsP (full_program s) [] a <-> hR (rs_R s) (rs_co s) a).

Theorem wfgoal_verdict_correct : forall (fuel : nat) (s : rsys) (w : wfgoal) (b : bool),
  wfgoal_verdict fuel s w = Some b -> (b = true <-> sat (full_program s) [] [] (goal_of w)).
Proof. exact Wf.wfgoal_verdict_correct. Qed.
Check wfgoal_verdict_correct : forall (fuel : nat) (s : rsys) (w : wfgoal) (b : bool),
  wfgoal_verdict fuel s w = Some b -> (b = true <-> sat (full_program s) [] [] (goal_of w)).

Theorem wf_hole_witness :
  wf_sys_ok (lower WfExamples.Dh) = true /\ wf_check_model 100 WfExamples.Dh = Some true /\
  strict_ok 100 WfExamples.Dh = Some false /\
  concl_trait 100 WfExamples.Dh WfExamples.tFoo [WfExamples.Vec WfExamples.NotHash] = 2%N.
Proof. exact WfExamples.wf_hole_witness. Qed.
Check wf_hole_witness :
  wf_sys_ok (lower WfExamples.Dh) = true /\ wf_check_model 100 WfExamples.Dh = Some true /\
  strict_ok 100 WfExamples.Dh = Some false /\
  concl_trait 100 WfExamples.Dh WfExamples.tFoo [WfExamples.Vec WfExamples.NotHash] = 2%N.
