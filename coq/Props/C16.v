(** Property C16 — canonical forms identify queries up to renaming.
    Only the property theorems; models and proofs are in Infer/Canon.v and Infer/UCanon.v.
    [canonicalize fuel T t] is the model of [InferenceTable::canonicalize] on the table
    abstraction [T]; [resolve fuel T 0 t] is [t] with every inference variable replaced by the
    value of its class, or by its class representative if the class is unbound.  Fuel bounds
    the chains of bindings followed; all statements are about runs that do not exhaust it. *)
From Chalk Require Import Ir.Syntax Ir.Fold Infer.Canon Infer.UCanon Infer.Invert.

(** Unknowns are numbered by first occurrence, with the kind of that occurrence and the
    universe of the class; every occurrence becomes the bound variable of that number. *)
Theorem canon_first_occurrence : forall fuel T t bs v fr,
  canonicalize fuel T t = Done ((bs, v), fr) ->
  exists r, resolve fuel T 0 t = Done r /\ nofree 0 r = true
            /\ fr = nodup_first [] (occs r) /\ NoDup (map snd fr)
            /\ bs = binders_of T fr /\ v = replace fr 0 r.
Proof. exact canon_first_occurrence_lemma. Qed.
Check canon_first_occurrence : forall fuel T t bs v fr,
  canonicalize fuel T t = Done ((bs, v), fr) ->
  exists r, resolve fuel T 0 t = Done r /\ nofree 0 r = true
            /\ fr = nodup_first [] (occs r) /\ NoDup (map snd fr)
            /\ bs = binders_of T fr /\ v = replace fr 0 r.

(** Two values have the same canonical form exactly when (after resolution) they differ by an
    injective renaming of their unbound classes that preserves kinds and universes. *)
Theorem canon_iff_renaming : forall f1 f2 T1 T2 t1 t2 c1 c2 fr1 fr2 r1 r2,
  canonicalize f1 T1 t1 = Done (c1, fr1) -> canonicalize f2 T2 t2 = Done (c2, fr2) ->
  resolve f1 T1 0 t1 = Done r1 -> resolve f2 T2 0 t2 = Done r2 ->
  well_kinded_infer r1 -> well_kinded_infer r2 ->
  (c1 = c2 <-> renaming T1 T2 r1 r2).
Proof. exact canon_iff_renaming_lemma. Qed.
Check canon_iff_renaming : forall f1 f2 T1 T2 t1 t2 c1 c2 fr1 fr2 r1 r2,
  canonicalize f1 T1 t1 = Done (c1, fr1) -> canonicalize f2 T2 t2 = Done (c2, fr2) ->
  resolve f1 T1 0 t1 = Done r1 -> resolve f2 T2 0 t2 = Done r2 ->
  well_kinded_infer r1 -> well_kinded_infer r2 ->
  (c1 = c2 <-> renaming T1 T2 r1 r2).

(** Instantiating a canonical form with fresh variables and canonicalizing again gives it back. *)
Theorem canon_instantiate_canon : forall fuel T t c fr r,
  canonicalize fuel T t = Done (c, fr) -> resolve fuel T 0 t = Done r ->
  shapes_ok r = true -> kinds_consistent (occs r) ->
  exists T' t2, instantiate_canonical T c = Ok (T', t2)
                /\ forall fuel2, exists fr2, canonicalize fuel2 T' t2 = Done (c, fr2).
Proof. exact canon_instantiate_canon_lemma. Qed.
Check canon_instantiate_canon : forall fuel T t c fr r,
  canonicalize fuel T t = Done (c, fr) -> resolve fuel T 0 t = Done r ->
  shapes_ok r = true -> kinds_consistent (occs r) ->
  exists T' t2, instantiate_canonical T c = Ok (T', t2)
                /\ forall fuel2, exists fr2, canonicalize fuel2 T' t2 = Done (c, fr2).

(** Universe compression keeps the relative order of universes (both directions of the map are
    strictly monotone) and compresses onto [0 .. n-1]. *)
Theorem ucanon_order_preserving : forall c n c' m,
  u_canonicalize c = Ok (n, c', m) ->
  ssorted m /\ n = N.of_nat (length m)
  /\ (forall a b ca cb, to_canonical m a = Some ca -> to_canonical m b = Some cb -> (a < b <-> ca < cb))
  /\ (forall c1 c2, c1 < c2 -> from_canonical m c1 < from_canonical m c2)
  /\ (forall u, In u (map snd (fst c) ++ phs (snd c)) -> exists cu, to_canonical m u = Some cu /\ cu < n).
Proof. exact ucanon_order_preserving_lemma. Qed.
Check ucanon_order_preserving : forall c n c' m,
  u_canonicalize c = Ok (n, c', m) ->
  ssorted m /\ n = N.of_nat (length m)
  /\ (forall a b ca cb, to_canonical m a = Some ca -> to_canonical m b = Some cb -> (a < b <-> ca < cb))
  /\ (forall c1 c2, c1 < c2 -> from_canonical m c1 < from_canonical m c2)
  /\ (forall u, In u (map snd (fst c) ++ phs (snd c)) -> exists cu, to_canonical m u = Some cu /\ cu < n).

(** ... and can be undone: mapping back gives the original value (repaired code, all kinds). *)
Theorem ucanon_roundtrip : forall c n c' m,
  u_canonicalize c = Ok (n, c', m) -> map_from_canonical m c' = Ok c.
Proof. exact ucanon_roundtrip_lemma. Qed.
Check ucanon_roundtrip : forall c n c' m,
  u_canonicalize c = Ok (n, c', m) -> map_from_canonical m c' = Ok c.

(** On the unchanged code ([UMapFromCanonical] without [fold_free_placeholder_const]) the round
    trip fails for constant placeholders (F5; repaired by a fix: commit in /repo). *)
Theorem ucanon_roundtrip_refuted :
  exists c n c' m, u_canonicalize c = Ok (n, c', m) /\ map_from_canonical_orig m c' <> Ok c.
Proof. exact ucanon_roundtrip_refuted_lemma. Qed.
Check ucanon_roundtrip_refuted :
  exists c n c' m, u_canonicalize c = Ok (n, c', m) /\ map_from_canonical_orig m c' <> Ok c.

(** [invert] refuses values with unbound unknowns and otherwise turns every type / lifetime
    placeholder into an existential (constant placeholders are left alone by the code). *)
Theorem invert_gives_up : forall fuel T t c fr, canonicalize fuel T t = Done (c, fr) -> fr <> [] ->
  invert_then_canonicalize fuel T t = Done None.
Proof. exact invert_gives_up_lemma. Qed.
Check invert_gives_up : forall fuel T t c fr, canonicalize fuel T t = Done (c, fr) -> fr <> [] ->
  invert_then_canonicalize fuel T t = Done None.

Theorem invert_no_placeholders : forall fuel T t v T', invert fuel T t = Done (Some (v, T')) -> no_tl_ph v = true.
Proof. exact invert_no_placeholders_lemma. Qed.
Check invert_no_placeholders : forall fuel T t v T', invert fuel T t = Done (Some (v, T')) -> no_tl_ph v = true.
