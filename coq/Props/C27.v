(** C27 — In-place folding is memory-safe at every failure point.

    Statements over the abstract machine of [Mem/InPlace.v] (cells [LiveT id | LiveU id |
    Moved | Freed], one allocation token, event log).  [f : N -> mres] is an arbitrary
    mapper (per element: ok with the id of the new [U] | error | panic), so the theorems
    cover every length, every failure position and both failure modes.

    Reading the conclusions: [no_bad t] — no read of a [Moved]/[Freed] cell, no write into
    freed memory or over a live value, no [drop_in_place] on a cell without a live value of
    that type, no double free; [drop_positions t] — the positions whose element was dropped
    (by the failing mapper it was handed to, or by clean-up), in order of the drops;
    [deallocs] / [handovers] — how often the buffer was released / returned as the result. *)
From Coq Require Import List NArith Permutation.
Import ListNotations.
From Chalk Require Import Mem.InPlace.

(** [fallible_map_vec], identical layout (the [unsafe] path with the [VecMappedInPlace] guard). *)
Theorem vec_map_safe :
  forall (f : N -> mres) (ids : list N) (extra : nat),
    let s := vec_inplace f ids extra in
    let t := trace s in
    no_bad t = true /\
    returned t = [first_outcome f ids] /\
    (first_outcome f ids = ROk ->
       drop_positions t = [] /\ deallocs t = 0 /\ handovers t = 1 /\
       buf s = map LiveU (outputs f ids) /\ length (outputs f ids) = length ids /\ own s = true) /\
    (first_outcome f ids <> ROk ->
       Permutation (drop_positions t) (seq 0 (length ids)) /\ deallocs t = 1 /\ handovers t = 0 /\
       buf s = repeat Freed (length ids) /\ own s = false).
Proof. exact vec_inplace_safe. Qed.
Check vec_map_safe :
  forall (f : N -> mres) (ids : list N) (extra : nat),
    let s := vec_inplace f ids extra in
    let t := trace s in
    no_bad t = true /\
    returned t = [first_outcome f ids] /\
    (first_outcome f ids = ROk ->
       drop_positions t = [] /\ deallocs t = 0 /\ handovers t = 1 /\
       buf s = map LiveU (outputs f ids) /\ length (outputs f ids) = length ids /\ own s = true) /\
    (first_outcome f ids <> ROk ->
       Permutation (drop_positions t) (seq 0 (length ids)) /\ deallocs t = 1 /\ handovers t = 0 /\
       buf s = repeat Freed (length ids) /\ own s = false).

(** [fallible_map_box], identical layout (the [unsafe] path through [Box<MaybeUninit<U>>]). *)
Theorem box_map_safe :
  forall (f : N -> mres) (id : N),
    let s := box_inplace f id in
    let t := trace s in
    no_bad t = true /\
    returned t = [first_outcome f [id]] /\
    (first_outcome f [id] = ROk ->
       drop_positions t = [] /\ deallocs t = 0 /\ handovers t = 1 /\
       buf s = map LiveU (outputs f [id]) /\ length (outputs f [id]) = 1 /\ own s = true) /\
    (first_outcome f [id] <> ROk ->
       drop_positions t = [0] /\ deallocs t = 1 /\ handovers t = 0 /\
       buf s = [Freed] /\ own s = false).
Proof. exact box_inplace_safe. Qed.
Check box_map_safe :
  forall (f : N -> mres) (id : N),
    let s := box_inplace f id in
    let t := trace s in
    no_bad t = true /\
    returned t = [first_outcome f [id]] /\
    (first_outcome f [id] = ROk ->
       drop_positions t = [] /\ deallocs t = 0 /\ handovers t = 1 /\
       buf s = map LiveU (outputs f [id]) /\ length (outputs f [id]) = 1 /\ own s = true) /\
    (first_outcome f [id] <> ROk ->
       drop_positions t = [0] /\ deallocs t = 1 /\ handovers t = 0 /\
       buf s = [Freed] /\ own s = false).

(** The safe-Rust fallback (non-identical layout, ZST), at the same level of description. *)
Theorem vec_fallback_map_safe :
  forall (f : N -> mres) (real : bool) (ids : list N),
    let s := fst (vec_fallback f real ids) in
    let out := snd (vec_fallback f real ids) in
    let t := trace s in
    no_bad t = true /\
    returned t = [first_outcome f ids] /\
    deallocs t = 1 /\ handovers t = 0 /\
    buf s = repeat Freed (length ids) /\ own s = false /\
    (first_outcome f ids = ROk ->
       drop_positions t = [] /\ out = outputs f ids /\ length out = length ids) /\
    (first_outcome f ids <> ROk ->
       Permutation (drop_positions t) (seq 0 (length ids)) /\ out = []).
Proof. exact vec_fallback_safe. Qed.
Check vec_fallback_map_safe :
  forall (f : N -> mres) (real : bool) (ids : list N),
    let s := fst (vec_fallback f real ids) in
    let out := snd (vec_fallback f real ids) in
    let t := trace s in
    no_bad t = true /\
    returned t = [first_outcome f ids] /\
    deallocs t = 1 /\ handovers t = 0 /\
    buf s = repeat Freed (length ids) /\ own s = false /\
    (first_outcome f ids = ROk ->
       drop_positions t = [] /\ out = outputs f ids /\ length out = length ids) /\
    (first_outcome f ids <> ROk ->
       Permutation (drop_positions t) (seq 0 (length ids)) /\ out = []).

Theorem box_fallback_map_safe :
  forall (f : N -> mres) (real : bool) (id : N),
    let s := fst (box_fallback f real id) in
    let out := snd (box_fallback f real id) in
    let t := trace s in
    no_bad t = true /\
    returned t = [first_outcome f [id]] /\
    deallocs t = 1 /\ handovers t = 0 /\ buf s = [Freed] /\ own s = false /\
    (first_outcome f [id] = ROk -> drop_positions t = [] /\ out = outputs f [id] /\ length out = 1) /\
    (first_outcome f [id] <> ROk -> drop_positions t = [0] /\ out = []).
Proof. exact box_fallback_safe. Qed.
Check box_fallback_map_safe :
  forall (f : N -> mres) (real : bool) (id : N),
    let s := fst (box_fallback f real id) in
    let out := snd (box_fallback f real id) in
    let t := trace s in
    no_bad t = true /\
    returned t = [first_outcome f [id]] /\
    deallocs t = 1 /\ handovers t = 0 /\ buf s = [Freed] /\ own s = false /\
    (first_outcome f [id] = ROk -> drop_positions t = [] /\ out = outputs f [id] /\ length out = 1) /\
    (first_outcome f [id] <> ROk -> drop_positions t = [0] /\ out = []).

(** Whole life cycle (the caller disposes of whatever it got back): in every outcome and on
    both paths every position's element is dropped exactly once, the buffer is released
    exactly once, nothing bad happens, and no allocation of the run stays live. *)
Theorem vec_lifecycle_map_safe :
  forall (f : N -> mres) (ids : list N) (extra : nat),
    let real := has_heap (length ids) extra in
    lifecycle_ok (length ids) (trace (caller_inplace real (length ids) (vec_inplace f ids extra))) /\
    forall real', lifecycle_ok (length ids) (trace (caller_fresh real' (vec_fallback f real' ids))).
Proof. exact vec_lifecycle_safe. Qed.
Check vec_lifecycle_map_safe :
  forall (f : N -> mres) (ids : list N) (extra : nat),
    let real := has_heap (length ids) extra in
    lifecycle_ok (length ids) (trace (caller_inplace real (length ids) (vec_inplace f ids extra))) /\
    forall real', lifecycle_ok (length ids) (trace (caller_fresh real' (vec_fallback f real' ids))).

Theorem box_lifecycle_map_safe :
  forall (f : N -> mres) (id : N),
    lifecycle_ok 1 (trace (caller_inplace true 1 (box_inplace f id))) /\
    forall real, lifecycle_ok 1 (trace (caller_fresh real (box_fallback f real id))).
Proof. exact box_lifecycle_safe. Qed.
Check box_lifecycle_map_safe :
  forall (f : N -> mres) (id : N),
    lifecycle_ok 1 (trace (caller_inplace true 1 (box_inplace f id))) /\
    forall real, lifecycle_ok 1 (trace (caller_fresh real (box_fallback f real id))).
