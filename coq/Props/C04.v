(** Property C04 — the two solvers never contradict each other.
    Two answers that both meet the answer contract — relative to ANY solution set — are
    [compatible]; [compatible] is the executable relation the check computes on the real
    answers of the SLG and the recursive solver. *)
From Chalk Require Import Logic.Contract.

Theorem contract_compat : forall (m : N) (Sol : list ty -> Prop) (a1 a2 : answer),
  contractG m Sol a1 -> contractG m Sol a2 -> compatible a1 a2 = true.
Proof. exact Contract.contract_compat. Qed.
Check contract_compat : forall (m : N) (Sol : list ty -> Prop) (a1 a2 : answer),
  contractG m Sol a1 -> contractG m Sol a2 -> compatible a1 a2 = true.

Theorem instance_of_spec : forall s g : list ty,
  instance_of s g = true <-> exists sigma : nat -> ty, s = map (subst sigma) g.
Proof. exact Program.instance_of_spec. Qed.
Check instance_of_spec : forall s g : list ty,
  instance_of s g = true <-> exists sigma : nat -> ty, s = map (subst sigma) g.
