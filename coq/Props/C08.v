(** Property C08 — built-in traits follow the language's structural rules.

    [holdsR D (atom tr T)]: the meaning of the clauses chalk generates for the declarations [D]
    (explicit impls + [add_builtin_program_clauses], modelled in Rules/Builtin.v) for the goal
    [T: tr].  [sized], [copy], [clone], [tuple], [fnptr] are the independently written
    inductive rule systems over types and the program's explicit impls; the [*_clauses_spec]
    theorems are the on-demand completeness statements (the clauses generated for the asked
    type are exactly the instances of the structural rules for that type). *)
From Chalk Require Import Rules.Builtin.

Theorem sized_spec : forall D, wfD D -> forall tr t, wk_of D tr = Some WSized -> is_co D tr = false -> ground t ->
  (holdsR D (atom tr t) <-> sized D tr t).
Proof. exact Builtin.sized_spec. Qed.
Check sized_spec : forall D, wfD D -> forall tr t, wk_of D tr = Some WSized -> is_co D tr = false -> ground t ->
  (holdsR D (atom tr t) <-> sized D tr t).

Theorem copy_spec : forall D, wfD D -> forall tr t, wk_of D tr = Some WCopy -> is_co D tr = false -> ground t ->
  (holdsR D (atom tr t) <-> copy D tr t).
Proof. exact Builtin.copy_spec. Qed.
Check copy_spec : forall D, wfD D -> forall tr t, wk_of D tr = Some WCopy -> is_co D tr = false -> ground t ->
  (holdsR D (atom tr t) <-> copy D tr t).

Theorem clone_spec : forall D, wfD D -> forall tr t, wk_of D tr = Some WClone -> is_co D tr = false -> ground t ->
  (holdsR D (atom tr t) <-> clone D tr t).
Proof. exact Builtin.clone_spec. Qed.
Check clone_spec : forall D, wfD D -> forall tr t, wk_of D tr = Some WClone -> is_co D tr = false -> ground t ->
  (holdsR D (atom tr t) <-> clone D tr t).

Theorem tuple_spec : forall D, wfD D -> forall tr t, wk_of D tr = Some WTuple -> is_co D tr = false -> ground t ->
  (holdsR D (atom tr t) <-> tuple D tr t).
Proof. exact Builtin.tuple_spec. Qed.
Check tuple_spec : forall D, wfD D -> forall tr t, wk_of D tr = Some WTuple -> is_co D tr = false -> ground t ->
  (holdsR D (atom tr t) <-> tuple D tr t).

Theorem fnptr_spec : forall D, wfD D -> forall tr t, wk_of D tr = Some WFnPtr -> is_co D tr = false -> ground t ->
  (holdsR D (atom tr t) <-> fnptr D tr t).
Proof. exact Builtin.fnptr_spec. Qed.
Check fnptr_spec : forall D, wfD D -> forall tr t, wk_of D tr = Some WFnPtr -> is_co D tr = false -> ground t ->
  (holdsR D (atom tr t) <-> fnptr D tr t).

Theorem sized_clauses_spec : forall D tr t, structs_ok D ->
  matches_sr (sized_clauses D tr t) (sized_sr D) tr t.
Proof. exact Builtin.sized_clauses_spec. Qed.
Check sized_clauses_spec : forall D tr t, structs_ok D ->
  matches_sr (sized_clauses D tr t) (sized_sr D) tr t.

Theorem copy_clauses_spec : forall tr t, matches_sr (copy_clauses tr t) copy_sr tr t.
Proof. exact Builtin.copy_clauses_spec. Qed.
Check copy_clauses_spec : forall tr t, matches_sr (copy_clauses tr t) copy_sr tr t.

Theorem tuple_clauses_spec : forall tr t, matches_sr (tuple_clauses tr t) tuple_sr tr t.
Proof. exact Builtin.tuple_clauses_spec. Qed.
Check tuple_clauses_spec : forall tr t, matches_sr (tuple_clauses tr t) tuple_sr tr t.

Theorem fnptr_clauses_spec : forall tr t, matches_sr (fnptr_clauses tr t) fnptr_sr tr t.
Proof. exact Builtin.fnptr_clauses_spec. Qed.
Check fnptr_clauses_spec : forall tr t, matches_sr (fnptr_clauses tr t) fnptr_sr tr t.

Theorem unsized_kinds : forall D, wfD D -> forall tr t, wk_of D tr = Some WSized -> is_co D tr = false -> ground t ->
  (exists e, t = tSlice e) \/ t = tStr \/ (exists d, t = tDyn d) \/ (exists f, t = tForeign f) ->
  holdsR D (atom tr t) -> impl_applies D (holdsR D) (atom tr t).
Proof. exact Builtin.unsized_kinds. Qed.
Check unsized_kinds : forall D, wfD D -> forall tr t, wk_of D tr = Some WSized -> is_co D tr = false -> ground t ->
  (exists e, t = tSlice e) \/ t = tStr \/ (exists d, t = tDyn d) \/ (exists f, t = tForeign f) ->
  holdsR D (atom tr t) -> impl_applies D (holdsR D) (atom tr t).

Theorem evalR_correct : forall D, wfD D -> forall fuel a b,
  evalR fuel D a = Some b -> (b = true <-> holdsR D a).
Proof. exact Builtin.evalR_correct. Qed.
Check evalR_correct : forall D, wfD D -> forall fuel a b,
  evalR fuel D a = Some b -> (b = true <-> holdsR D a).
