(** Property C29 — subtyping follows declared variance.
    Only the property theorems; models and proofs are in Infer/{Table,Unify,Variance,Closed}.v.

    [cfrag arity t]: [t] is a variable-free type of the property's fragment — references,
    mutable references, raw pointers, slices, tuples, ADTs (with [arity id] arguments; their
    declared variances are [adt_var id]), fn pointers without binders, scalars, placeholders;
    lifetimes ['static], placeholders, erased.  [erase] replaces every lifetime by ['static].
    [variance_constraints] is the independent structural definition of the requirements
    dictated by the variance of each position (Infer/Variance.v); a requirement [(x, y)] reads
    [x: y].  Sets of goals are compared with [seteq] (mutual inclusion).

    PROVED: [relate_cov_shape], [relate_cov_constraints] (variable-free types, syntactic set
    equality); [relate_cov_shape_unknowns], [relate_cov_constraints_unknowns] and, for every variance
    of the call, [relate_constraints_unknowns_any_variance] (types whose
    lifetimes may be UNKNOWNS, fragment [ufrag]: as [cfrag]; semantic
    equivalence in every preorder model of the lifetimes, because at invariant positions chalk
    binds / unions the unknowns instead of returning goals); [xform_assoc], [invert_involutive].
    NOT PROVED: types with TYPE unknowns (generalisation introduces fresh lifetime unknowns
    that would have to be eliminated); fn pointers WITH binders (fresh existential lifetimes). *)
From Chalk Require Import Ir.Syntax Infer.Table Infer.Unify Infer.Variance Infer.Closed Infer.ClosedU.

(** Covariant relate of closed types succeeds iff the lifetime-erased structures agree. *)
Theorem relate_cov_shape : forall adt_var fn_var arity fuel a b t,
  cfrag arity a = true -> cfrag arity b = true -> (depth a <= fuel)%nat ->
  ((exists gs t', relate adt_var fn_var fuel Covariant a b t = (Done gs, t')) <-> erase a = erase b).
Proof. exact relate_cov_shape_lemma. Qed.
Check relate_cov_shape : forall adt_var fn_var arity fuel a b t,
  cfrag arity a = true -> cfrag arity b = true -> (depth a <= fuel)%nat ->
  ((exists gs t', relate adt_var fn_var fuel Covariant a b t = (Done gs, t')) <-> erase a = erase b).

(** ... and then the table is unchanged and the returned goals are exactly the outlives
    requirements dictated by composing variance down each position. *)
Theorem relate_cov_constraints : forall adt_var fn_var arity fuel a b t gs t',
  cfrag arity a = true -> cfrag arity b = true -> (depth a <= fuel)%nat ->
  relate adt_var fn_var fuel Covariant a b t = (Done gs, t') ->
  t' = t /\ seteq gs (map goal_of_requirement (variance_constraints adt_var fn_var Covariant a b)).
Proof. exact relate_cov_constraints_lemma. Qed.
Check relate_cov_constraints : forall adt_var fn_var arity fuel a b t gs t',
  cfrag arity a = true -> cfrag arity b = true -> (depth a <= fuel)%nat ->
  relate adt_var fn_var fuel Covariant a b t = (Done gs, t') ->
  t' = t /\ seteq gs (map goal_of_requirement (variance_constraints adt_var fn_var Covariant a b)).

(** Types whose lifetimes may be unknowns ([ufrag]; [ltinv t]: cells of one class agree and bound
    lifetime unknowns are bound to closed lifetimes; [ucells t a]: the unknowns of [a] are
    variables of [t]).  Success iff the lifetime-erased structures agree. *)
Theorem relate_cov_shape_unknowns : forall adt_var fn_var arity fuel a b t,
  ufrag arity a = true -> ufrag arity b = true -> (depth a <= fuel)%nat -> ltinv t -> ucells t a -> ucells t b ->
  ((exists gs t', relate adt_var fn_var fuel Covariant a b t = (Done gs, t')) <-> erase a = erase b).
Proof. exact relate_cov_shape_unknowns_lemma. Qed.
Check relate_cov_shape_unknowns : forall adt_var fn_var arity fuel a b t,
  ufrag arity a = true -> ufrag arity b = true -> (depth a <= fuel)%nat -> ltinv t -> ucells t a -> ucells t b ->
  ((exists gs t', relate adt_var fn_var fuel Covariant a b t = (Done gs, t')) <-> erase a = erase b).

(** ... and then, in every preorder model [(D, le, ρ)] of the lifetimes that respects the table
    before the call ([respects]: bound unknowns are equivalent to their values, unioned unknowns
    are equivalent): the model respects the resulting table and satisfies the returned goals
    IFF it satisfies the requirements dictated by variance.  Every model of the resulting table
    is a model of the initial one; the resulting table is again well formed. *)
Theorem relate_cov_constraints_unknowns : forall adt_var fn_var arity fuel a b t gs t',
  ufrag arity a = true -> ufrag arity b = true -> (depth a <= fuel)%nat -> ltinv t -> ucells t a -> ucells t b ->
  relate adt_var fn_var fuel Covariant a b t = (Done gs, t') ->
  ltinv t' /\
  forall (D : Type) (le : D -> D -> Prop), (forall x, le x x) -> (forall x y z, le x y -> le y z -> le x z) ->
  forall ρ : tm -> D,
    (respects D le ρ t' -> respects D le ρ t)
    /\ (respects D le ρ t ->
         ((respects D le ρ t' /\ sat_goals D le ρ gs) <-> sat D le ρ (variance_constraints adt_var fn_var Covariant a b))).
Proof. exact relate_cov_constraints_unknowns_lemma. Qed.
Check relate_cov_constraints_unknowns : forall adt_var fn_var arity fuel a b t gs t',
  ufrag arity a = true -> ufrag arity b = true -> (depth a <= fuel)%nat -> ltinv t -> ucells t a -> ucells t b ->
  relate adt_var fn_var fuel Covariant a b t = (Done gs, t') ->
  ltinv t' /\
  forall (D : Type) (le : D -> D -> Prop), (forall x, le x x) -> (forall x y z, le x y -> le y z -> le x z) ->
  forall ρ : tm -> D,
    (respects D le ρ t' -> respects D le ρ t)
    /\ (respects D le ρ t ->
         ((respects D le ρ t' /\ sat_goals D le ρ gs) <-> sat D le ρ (variance_constraints adt_var fn_var Covariant a b))).

(** Both statements for EVERY variance [v] of the call (and: a failing call leaves the table alone). *)
Theorem relate_constraints_unknowns_any_variance : forall adt_var fn_var arity fuel v a b t,
  ufrag arity a = true -> ufrag arity b = true -> (depth a <= fuel)%nat -> ltinv t -> ucells t a -> ucells t b ->
  (erase a = erase b /\ exists gs t', relate adt_var fn_var fuel v a b t = (Done gs, t') /\ ltinv t' /\
     forall (D : Type) (le : D -> D -> Prop), (forall x, le x x) -> (forall x y z, le x y -> le y z -> le x z) ->
     forall ρ : tm -> D,
       (respects D le ρ t' -> respects D le ρ t)
       /\ (respects D le ρ t ->
            ((respects D le ρ t' /\ sat_goals D le ρ gs) <-> sat D le ρ (variance_constraints adt_var fn_var v a b))))
  \/ (erase a <> erase b /\ relate adt_var fn_var fuel v a b t = (NoSol, t)).
Proof. exact relate_constraints_unknowns_any_variance_lemma. Qed.
Check relate_constraints_unknowns_any_variance : forall adt_var fn_var arity fuel v a b t,
  ufrag arity a = true -> ufrag arity b = true -> (depth a <= fuel)%nat -> ltinv t -> ucells t a -> ucells t b ->
  (erase a = erase b /\ exists gs t', relate adt_var fn_var fuel v a b t = (Done gs, t') /\ ltinv t' /\
     forall (D : Type) (le : D -> D -> Prop), (forall x, le x x) -> (forall x y z, le x y -> le y z -> le x z) ->
     forall ρ : tm -> D,
       (respects D le ρ t' -> respects D le ρ t)
       /\ (respects D le ρ t ->
            ((respects D le ρ t' /\ sat_goals D le ρ gs) <-> sat D le ρ (variance_constraints adt_var fn_var v a b))))
  \/ (erase a <> erase b /\ relate adt_var fn_var fuel v a b t = (NoSol, t)).

(** Composition of variances is associative. *)
Theorem xform_assoc : forall a b c, xform (xform a b) c = xform a (xform b c).
Proof. exact xform_assoc_lemma. Qed.
Check xform_assoc : forall a b c, xform (xform a b) c = xform a (xform b c).

(** Inverting a variance twice gives it back. *)
Theorem invert_involutive : forall a, invert (invert a) = a.
Proof. exact invert_involutive_lemma. Qed.
Check invert_involutive : forall a, invert (invert a) = a.
