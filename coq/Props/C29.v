(** Property C29 — subtyping follows declared variance.
    Only the property theorems; models and proofs are in Infer/{Table,Unify,Variance,Closed}.v.

    [cfrag arity t]: [t] is a variable-free type of the property's fragment — references,
    mutable references, raw pointers, slices, tuples, ADTs (with [arity id] arguments; their
    declared variances are [adt_var id]), fn pointers without binders, scalars, placeholders;
    lifetimes ['static], placeholders, erased.  [erase] replaces every lifetime by ['static].
    [variance_constraints] is the independent structural definition of the requirements
    dictated by the variance of each position (Infer/Variance.v); a requirement [(x, y)] reads
    [x: y].  Sets of goals are compared with [seteq] (mutual inclusion). *)
From Chalk Require Import Ir.Syntax Infer.Table Infer.Unify Infer.Variance Infer.Closed.

(** Covariant relate of closed types succeeds iff the lifetime-erased structures agree. *)
Theorem relate_cov_shape : forall adt_var fn_var arity fuel a b t,
  cfrag arity a = true -> cfrag arity b = true -> (depth a <= fuel)%nat ->
  ((exists gs t', relate adt_var fn_var fuel Covariant a b t = (Done gs, t')) <-> erase a = erase b).
Proof. exact relate_cov_shape_lemma. Qed.
Check relate_cov_shape : forall adt_var fn_var arity fuel a b t,
  cfrag arity a = true -> cfrag arity b = true -> (depth a <= fuel)%nat ->
  ((exists gs t', relate adt_var fn_var fuel Covariant a b t = (Done gs, t')) <-> erase a = erase b).

(** ... and then the table is unchanged and the returned goals are exactly the outlives
    requirements dictated by composing variance down each position. *)
Theorem relate_cov_constraints : forall adt_var fn_var arity fuel a b t gs t',
  cfrag arity a = true -> cfrag arity b = true -> (depth a <= fuel)%nat ->
  relate adt_var fn_var fuel Covariant a b t = (Done gs, t') ->
  t' = t /\ seteq gs (map goal_of_requirement (variance_constraints adt_var fn_var Covariant a b)).
Proof. exact relate_cov_constraints_lemma. Qed.
Check relate_cov_constraints : forall adt_var fn_var arity fuel a b t gs t',
  cfrag arity a = true -> cfrag arity b = true -> (depth a <= fuel)%nat ->
  relate adt_var fn_var fuel Covariant a b t = (Done gs, t') ->
  t' = t /\ seteq gs (map goal_of_requirement (variance_constraints adt_var fn_var Covariant a b)).

(** Composition of variances is associative. *)
Theorem xform_assoc : forall a b c, xform (xform a b) c = xform a (xform b c).
Proof. exact xform_assoc_lemma. Qed.
Check xform_assoc : forall a b c, xform (xform a b) c = xform a (xform b c).

(** Inverting a variance twice gives it back. *)
Theorem invert_involutive : forall a, invert (invert a) = a.
Proof. exact invert_involutive_lemma. Qed.
Check invert_involutive : forall a, invert (invert a) = a.
