(** Property C29 — subtyping follows declared variance.
    Only the property theorems; models and proofs are in Infer/{Table,Unify,Variance}.v. *)
From Chalk Require Import Ir.Syntax Infer.Table Infer.Unify Infer.Variance.

(** Composition of variances is associative. *)
Theorem xform_assoc : forall a b c, xform (xform a b) c = xform a (xform b c).
Proof. exact xform_assoc_lemma. Qed.
Check xform_assoc : forall a b c, xform (xform a b) c = xform a (xform b c).

(** Inverting a variance twice gives it back. *)
Theorem invert_involutive : forall a, invert (invert a) = a.
Proof. exact invert_involutive_lemma. Qed.
Check invert_involutive : forall a, invert (invert a) = a.
