(** Property C12 — a panic in a database callback leaves the solver usable. *)
From Chalk Require Import Engine.RecEngine Engine.RecWitness.

(** F4 on the faithful model of the UNCHANGED engine. *)
Theorem rec_panic_refuted :
  exists G g pan,
    fst (run G (cfg unchanged [] pan) 100 [g; g] init_state) = [OPanic Injected; OPanic StackNotEmpty] /\
    answer G (cfg unchanged [] []) 100 [g] init_state = Some (OVal Yes).
Proof. exact RecWitness.rec_panic_refuted. Qed.
