(** Property C12 — a panic in a callback leaves the solver usable.
    Every callback of the engine is a numbered point of the model at which a panic can be
    injected ([pn cf]); a panic unwinds to the caller and leaves the context as it was. *)
From Chalk Require Import Engine.RecTheorems.

(** After a panic at ANY callback point of a root solve (from any state whose cache is exact,
    in particular after any history, see C10 [rec_cache_exact]): the only panics are injected
    ones and the overflow guard, the cache is still exact, and every later root solve on the
    same context either answers the declarative value (if uninterrupted), or panics for the
    same two reasons -- never because of what the unwound solve left behind. *)
Theorem rec_panic_restores : forall G cf fuel g s p s',
  wf G -> ~ mixed_cycle G -> vr cf = repaired -> g < length G ->
  cache_exact G s -> solve_root G cf fuel g s = Panic p s' ->
  (p = Injected \/ p = OverflowDepth) /\ cache_exact G s' /\
  forall fuel2 g2, g2 < length G ->
    match solve_root G cf fuel2 g2 s' with
    | Done v s'' => cache_exact G s'' /\ stack s'' = [] /\ sgraph s'' = [] /\ (quiet cf s' s'' -> sem G g2 v)
    | Panic p2 s'' => cache_exact G s'' /\ (p2 = Injected \/ p2 = OverflowDepth)
    | OutOfFuel => True
    end.
Proof. intros G cf fuel g s p s' Hwf Hnm. exact (rec_panic_restores_lemma G Hwf Hnm cf fuel g s p s'). Qed.

(** F4 on the faithful model of the UNCHANGED engine. *)
Theorem rec_panic_refuted :
  exists G g pan,
    fst (run G (RecWitness.cfg unchanged [] pan) 100 [g; g] init_state) = [OPanic Injected; OPanic StackNotEmpty] /\
    answer G (RecWitness.cfg unchanged [] []) 100 [g] init_state = Some (OVal Yes).
Proof. exact RecWitness.rec_panic_refuted. Qed.
