(** Property C02 — goals without unknown types are decided definitively, and the answer is
    the one the program's logical meaning dictates.
    Oracle side: for a closed goal, a verdict of the verified evaluator is the truth value of
    the goal (both directions) and singles out which of [Unique] / [NoSolution] meets the
    contract. *)
From Chalk Require Import Logic.Contract Logic.Fuel Logic.Inv.

Theorem eval_correct : forall (fuel : nat) (P : program) (env : list clause) (rho : list ty) (g : goal) (b : bool),
  rr (allc P env) -> eval_goal fuel P env rho g = Some b -> (b = true <-> sat P env rho g).
Proof. exact Ground.eval_correct. Qed.
Check eval_correct : forall (fuel : nat) (P : program) (env : list clause) (rho : list ty) (g : goal) (b : bool),
  rr (allc P env) -> eval_goal fuel P env rho g = Some b -> (b = true <-> sat P env rho g).

Theorem closed_answer_exact : forall (fuel : nat) (P : program) (env : list clause) (g : goal) (b : bool),
  rr (allc P env) -> eval_goal fuel P env [] g = Some b ->
  (contract P env (closed_query g) (AUnique [] []) <-> b = true) /\
  (contract P env (closed_query g) ANone <-> b = false).
Proof. exact Contract.closed_answer_exact. Qed.
Check closed_answer_exact : forall (fuel : nat) (P : program) (env : list clause) (g : goal) (b : bool),
  rr (allc P env) -> eval_goal fuel P env [] g = Some b ->
  (contract P env (closed_query g) (AUnique [] []) <-> b = true) /\
  (contract P env (closed_query g) ANone <-> b = false).

Theorem eval_goal_fuel_sufficient : forall (g : goal) (fuel0 : nat) (P : program) (env : list clause) (rho : list ty) (n F : nat),
  goal_ready fuel0 P env rho g = Some n -> fuel0 <= F -> n < F ->
  exists b, eval_goal F P env rho g = Some b.
Proof. exact Fuel.eval_goal_fuel_sufficient. Qed.
Check eval_goal_fuel_sufficient : forall (g : goal) (fuel0 : nat) (P : program) (env : list clause) (rho : list ty) (n F : nat),
  goal_ready fuel0 P env rho g = Some n -> fuel0 <= F -> n < F ->
  exists b, eval_goal F P env rho g = Some b.

Theorem eval_inv_false_sound : forall (g : goal) (fuel : nat) (univ : list ty) (P : program) (env : list clause) (rho : list ty),
  rr (allc P env) -> eval_inv fuel univ P env rho g = Some false -> ~ sat_inv P env rho g.
Proof. exact Inv.eval_inv_false_sound. Qed.
Check eval_inv_false_sound : forall (g : goal) (fuel : nat) (univ : list ty) (P : program) (env : list clause) (rho : list ty),
  rr (allc P env) -> eval_inv fuel univ P env rho g = Some false -> ~ sat_inv P env rho g.

Theorem sat_inv_clean : forall (g : goal) (P : program) (env : list clause) (rho : list ty),
  naf g = true -> phb_clauses env = 0%N -> phb_list rho = 0%N -> phb_goal g = 0%N ->
  (sat_inv P env rho g <-> sat P env rho g).
Proof. exact Inv.sat_inv_clean. Qed.
Check sat_inv_clean : forall (g : goal) (P : program) (env : list clause) (rho : list ty),
  naf g = true -> phb_clauses env = 0%N -> phb_list rho = 0%N -> phb_goal g = 0%N ->
  (sat_inv P env rho g <-> sat P env rho g).

Theorem sat_inv_le : forall (g : goal) (P : program) (env : list clause) (rho : list ty),
  nn1 g = true -> sat_inv P env rho g -> sat P env rho g.
Proof. exact Inv.sat_inv_le. Qed.
Check sat_inv_le : forall (g : goal) (P : program) (env : list clause) (rho : list ty),
  nn1 g = true -> sat_inv P env rho g -> sat P env rho g.

Theorem neg_inv_differ :
  neg_inv_shape false InvExamples.gn = true /\ sat InvExamples.Pn [] [] InvExamples.gn /\ ~ sat_inv InvExamples.Pn [] [] InvExamples.gn.
Proof. exact InvExamples.neg_inv_differ. Qed.
Check neg_inv_differ :
  neg_inv_shape false InvExamples.gn = true /\ sat InvExamples.Pn [] [] InvExamples.gn /\ ~ sat_inv InvExamples.Pn [] [] InvExamples.gn.
