(** Property C13 — declaration order does not change solutions.
    The declarative meaning of a program ([sat], the specification every solver answer is
    judged against: [Sols], [contract]) and the verdict of the verified evaluator are
    invariant under reordering the items of a program and the where-clauses inside them
    ([prog_perm]); all programs, all goals.  [f16_witness]: on the unchanged tree the SLG
    aggregation nevertheless answers [Unique] / [Ambiguous] depending on the impl order on
    inputs of the decidable class [f16_class] (DESIGN §5 F16) — both answers satisfy the answer
    contract, they are just not equal. *)
From Chalk Require Import Logic.Perm.
From Coq Require Import Permutation.

Theorem sat_perm : forall (P P' : program) (env : list clause) (rho : list ty) (g : goal),
  Permutation (pclauses P) (pclauses P') -> Permutation (pcoind P) (pcoind P') ->
  (sat P env rho g <-> sat P' env rho g).
Proof. exact Perm.sat_perm. Qed.
Check sat_perm : forall (P P' : program) (env : list clause) (rho : list ty) (g : goal),
  Permutation (pclauses P) (pclauses P') -> Permutation (pcoind P) (pcoind P') ->
  (sat P env rho g <-> sat P' env rho g).

Theorem sat_perm_wc : forall (P P' : program) (env : list clause) (rho : list ty) (g : goal),
  prog_perm P P' -> (sat P env rho g <-> sat P' env rho g).
Proof. exact Perm.sat_perm_wc. Qed.
Check sat_perm_wc : forall (P P' : program) (env : list clause) (rho : list ty) (g : goal),
  prog_perm P P' -> (sat P env rho g <-> sat P' env rho g).

Theorem contract_perm : forall (P P' : program) (env : list clause) (q : query) (a : answer),
  prog_perm P P' -> (contract P env q a <-> contract P' env q a).
Proof. exact Perm.contract_perm. Qed.
Check contract_perm : forall (P P' : program) (env : list clause) (q : query) (a : answer),
  prog_perm P P' -> (contract P env q a <-> contract P' env q a).

Theorem eval_perm : forall (f f' : nat) (P P' : program) (env : list clause) (rho : list ty) (g : goal) (b b' : bool),
  rr (allc P env) -> prog_perm P P' ->
  eval_goal f P env rho g = Some b -> eval_goal f' P' env rho g = Some b' -> b = b'.
Proof. exact Perm.eval_perm. Qed.
Check eval_perm : forall (f f' : nat) (P P' : program) (env : list clause) (rho : list ty) (g : goal) (b b' : bool),
  rr (allc P env) -> prog_perm P P' ->
  eval_goal f P env rho g = Some b -> eval_goal f' P' env rho g = Some b' -> b = b'.

Theorem f16_witness :
  f16_class PermExamples.P16 PermExamples.q16 = true /\ f16_class PermExamples.P16' PermExamples.q16 = true /\
  prog_perm PermExamples.P16 PermExamples.P16' /\
  (forall th, Sols PermExamples.P16 [] PermExamples.q16 th <-> Sols PermExamples.P16' [] PermExamples.q16 th) /\
  contract PermExamples.P16 [] PermExamples.q16 PermExamples.slg16 /\
  contract PermExamples.P16' [] PermExamples.q16 PermExamples.slg16' /\
  PermExamples.slg16 <> PermExamples.slg16'.
Proof. exact PermExamples.f16_witness. Qed.
Check f16_witness :
  f16_class PermExamples.P16 PermExamples.q16 = true /\ f16_class PermExamples.P16' PermExamples.q16 = true /\
  prog_perm PermExamples.P16 PermExamples.P16' /\
  (forall th, Sols PermExamples.P16 [] PermExamples.q16 th <-> Sols PermExamples.P16' [] PermExamples.q16 th) /\
  contract PermExamples.P16 [] PermExamples.q16 PermExamples.slg16 /\
  contract PermExamples.P16' [] PermExamples.q16 PermExamples.slg16' /\
  PermExamples.slg16 <> PermExamples.slg16'.
