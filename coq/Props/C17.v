(** Property C17 — combining candidate answers only generalizes.
    Only the property theorems; models and proofs are in Agg/{Instance,AntiUnify,MayInv,Solution}.v.

    Vocabulary: [instance_of s g] decides "[s] is [g] with its canonical variables
    instantiated" ([instance_of_spec], w.r.t. the model of chalk's own [Subst::apply] of
    property C25); [ctys_ok]: const types are [usize] (ChalkIr); [same_kinds]: two
    substitutions for the same goal; [top_vars0]: variables outside fn/dyn binders belong to
    the canonical binder; [repeats_var]: the known class of finding F1. *)
From Chalk Require Import Ir.Syntax Ir.Fold Agg.Instance Agg.AntiUnify Agg.MayInv Agg.Solution Agg.Loop.

(** Executable first-order matching is exactly "some instantiation of the pattern's
    canonical variables gives the term". *)
Theorem instance_of_spec : forall s g, instance_of s g = true <-> exists τ, subst τ 0 g = Ok s.
Proof. exact instance_of_spec_lemma. Qed.
Check instance_of_spec : forall s g, instance_of s g = true <-> exists τ, subst τ 0 g = Ok s.

Theorem instance_of_list_spec : forall ss gs, instance_of_list ss gs = true <-> exists τ, rmap (subst τ 0) gs = Ok ss.
Proof. exact instance_of_list_spec_lemma. Qed.
Check instance_of_list_spec : forall ss gs, instance_of_list ss gs = true <-> exists τ, rmap (subst τ 0) gs = Ok ss.

(** Both arguments of the anti-unifier are instances of its result. *)
Theorem aggregate_generalizes : forall u a b bs g,
  ctys_ok a -> ctys_ok b -> agg_pair u a b = Ok (bs, g) ->
  instance_of a g = true /\ instance_of b g = true.
Proof. exact aggregate_generalizes_lemma. Qed.
Check aggregate_generalizes : forall u a b bs g,
  ctys_ok a -> ctys_ok b -> agg_pair u a b = Ok (bs, g) ->
  instance_of a g = true /\ instance_of b g = true.

(** [merge_into_guidance]: the old guidance and the merged answer are instances of the new guidance. *)
Theorem merge_generalizes : forall root g ans g',
  same_kinds (snd g) (snd ans) -> Forall ctys_ok (snd g) -> Forall ctys_ok (snd ans) ->
  merge root g ans = Ok g' ->
  instance_of_list (snd g) (snd g') = true /\ instance_of_list (snd ans) (snd g') = true.
Proof. exact merge_generalizes_lemma. Qed.
Check merge_generalizes : forall root g ans g',
  same_kinds (snd g) (snd ans) -> Forall ctys_ok (snd g) -> Forall ctys_ok (snd ans) ->
  merge root g ans = Ok g' ->
  instance_of_list (snd g) (snd g') = true /\ instance_of_list (snd ans) (snd g') = true.

(** Sequences: the first answer and every answer merged after it are instances of the final guidance. *)
Theorem merge_all_generalizes : forall root r g s g',
  Forall ctys_ok (snd g) ->
  Forall (fun x => same_kinds (snd g) (snd x) /\ Forall ctys_ok (snd x)) (s :: r) ->
  merge_all root g (s :: r) = Ok g' ->
  instance_of_list (snd g) (snd g') = true /\
  Forall (fun x => instance_of_list (snd x) (snd g') = true) (s :: r) /\
  Forall flat (snd g').
Proof. exact merge_all_generalizes_lemma. Qed.
Check merge_all_generalizes : forall root r g s g',
  Forall ctys_ok (snd g) ->
  Forall (fun x => same_kinds (snd g) (snd x) /\ Forall ctys_ok (snd x)) (s :: r) ->
  merge_all root g (s :: r) = Ok g' ->
  instance_of_list (snd g) (snd g') = true /\
  Forall (fun x => instance_of_list (snd x) (snd g') = true) (s :: r) /\
  Forall flat (snd g').

(** The "no future answer can change the guidance" check of the code AS IT IS never wrongly
    says so — outside the known class F1 (guidance that repeats a variable): merging the
    answer leaves the guidance unchanged up to renaming, and the answer is an instance of it. *)
Theorem may_invalidate_conservative : forall root new (cur ans : csubst) g',
  repeats_var (snd cur) = false ->
  snd ans = new -> same_kinds (snd cur) new ->
  Forall top_vars0 (snd cur) -> Forall ctys_ok (snd cur) -> Forall ctys_ok new ->
  may_invalidate MOld new cur = Ok false -> merge root cur ans = Ok g' ->
  variant_list (snd g') (snd cur) = true /\ instance_of_list new (snd cur) = true.
Proof. exact may_invalidate_conservative_lemma. Qed.
Check may_invalidate_conservative : forall root new (cur ans : csubst) g',
  repeats_var (snd cur) = false ->
  snd ans = new -> same_kinds (snd cur) new ->
  Forall top_vars0 (snd cur) -> Forall ctys_ok (snd cur) -> Forall ctys_ok new ->
  may_invalidate MOld new cur = Ok false -> merge root cur ans = Ok g' ->
  variant_list (snd g') (snd cur) = true /\ instance_of_list new (snd cur) = true.

(** ... and inside the class it does (finding F1): guidance [[Vec<^0>, ^0]], answer [[Vec<I32>, U32]]. *)
Theorem may_invalidate_refuted :
  exists root new (cur ans : csubst) g',
    snd ans = new /\ same_kinds (snd cur) new /\ Forall top_vars0 (snd cur) /\ Forall ctys_ok (snd cur) /\ Forall ctys_ok new /\
    repeats_var (snd cur) = true /\
    may_invalidate MOld new cur = Ok false /\ merge root cur ans = Ok g' /\
    variant_list (snd g') (snd cur) = false /\ instance_of_list new (snd cur) = false /\
    may_invalidate MFix new cur = Ok true /\ f1_class new cur = true.
Proof. exact may_invalidate_refuted_lemma. Qed.
Check may_invalidate_refuted :
  exists root new (cur ans : csubst) g',
    snd ans = new /\ same_kinds (snd cur) new /\ Forall top_vars0 (snd cur) /\ Forall ctys_ok (snd cur) /\ Forall ctys_ok new /\
    repeats_var (snd cur) = true /\
    may_invalidate MOld new cur = Ok false /\ merge root cur ans = Ok g' /\
    variant_list (snd g') (snd cur) = false /\ instance_of_list new (snd cur) = false /\
    may_invalidate MFix new cur = Ok true /\ f1_class new cur = true.

(** The narrow form of the same theorem, for ALL guidance: outside [f1_class] (the inputs
    on which the model of the code as it is and the model of the repaired code disagree; a
    function of the input alone that implies [repeats_var]) "cannot change" implies that the
    answer — and with it every future answer, an instance of it — is an instance of the
    guidance, which is what makes [Definite] guidance sound. *)
Theorem may_invalidate_sound_outside_f1 : forall new (cur : csubst),
  f1_class new cur = false ->
  length new = length (snd cur) -> Forall top_vars0 (snd cur) -> Forall ctys_ok (snd cur) -> Forall ctys_ok new ->
  may_invalidate MOld new cur = Ok false -> instance_of_list new (snd cur) = true.
Proof. exact may_invalidate_sound_outside_f1_lemma. Qed.
Check may_invalidate_sound_outside_f1 : forall new (cur : csubst),
  f1_class new cur = false ->
  length new = length (snd cur) -> Forall top_vars0 (snd cur) -> Forall ctys_ok (snd cur) -> Forall ctys_ok new ->
  may_invalidate MOld new cur = Ok false -> instance_of_list new (snd cur) = true.

Theorem f1_class_repeats_var : forall new (cur : csubst),
  Forall ctys_ok (snd cur) -> Forall ctys_ok new -> f1_class new cur = true -> repeats_var (snd cur) = true.
Proof. exact f1_class_repeats. Qed.
Check f1_class_repeats_var : forall new (cur : csubst),
  Forall ctys_ok (snd cur) -> Forall ctys_ok new -> f1_class new cur = true -> repeats_var (snd cur) = true.

(** The REPAIRED check (proposed patch), all guidance: "cannot change" implies the answer is
    an instance of the guidance, and — where the anti-unifier can keep it at all, i.e. no
    repeated variable — merging leaves the guidance unchanged up to renaming. *)
Theorem may_invalidate_fixed_conservative : forall root new (cur ans : csubst) g',
  snd ans = new -> same_kinds (snd cur) new ->
  Forall top_vars0 (snd cur) -> Forall ctys_ok (snd cur) -> Forall ctys_ok new ->
  may_invalidate MFix new cur = Ok false -> merge root cur ans = Ok g' ->
  instance_of_list new (snd cur) = true /\
  (repeats_var (snd cur) = false -> variant_list (snd g') (snd cur) = true).
Proof. exact may_invalidate_fixed_conservative_lemma. Qed.
Check may_invalidate_fixed_conservative : forall root new (cur ans : csubst) g',
  snd ans = new -> same_kinds (snd cur) new ->
  Forall top_vars0 (snd cur) -> Forall ctys_ok (snd cur) -> Forall ctys_ok new ->
  may_invalidate MFix new cur = Ok false -> merge root cur ans = Ok g' ->
  instance_of_list new (snd cur) = true /\
  (repeats_var (snd cur) = false -> variant_list (snd g') (snd cur) = true).

(** Guidance produced by a merge never repeats a variable: only a FIRST answer can be in the class F1. *)
Theorem merge_never_repeats : forall root g ans g',
  Forall ctys_ok (snd g) -> merge root g ans = Ok g' -> repeats_var (snd g') = false.
Proof. exact merge_linear. Qed.
Check merge_never_repeats : forall root g ans g',
  Forall ctys_ok (snd g) -> merge root g ans = Ok g' -> repeats_var (snd g') = false.

(** [make_solution] (the loop that merges answers until the check says no future answer can
    change the guidance), for the repaired check and — when the first answer repeats no
    variable — for the check as it is: definite guidance covers every answer of the stream. *)
Theorem make_solution_covers : forall m root c ks amb rest strands bs s,
  trusted_check m c ->
  Forall top_vars0 (snd c) -> Forall ctys_ok (snd c) ->
  Forall (answer_ok c) (answers_of rest) -> same_kinds (snd c) (snd (identity_csubst root)) ->
  make_solution m root (EAnswer c ks amb :: rest) strands = Ok (Some (Ambig (Definite bs s))) ->
  Forall (fun x => instance_of_list x s = true) (answers_of rest).
Proof. exact make_solution_covers_lemma. Qed.
Check make_solution_covers : forall m root c ks amb rest strands bs s,
  trusted_check m c ->
  Forall top_vars0 (snd c) -> Forall ctys_ok (snd c) ->
  Forall (answer_ok c) (answers_of rest) -> same_kinds (snd c) (snd (identity_csubst root)) ->
  make_solution m root (EAnswer c ks amb :: rest) strands = Ok (Some (Ambig (Definite bs s))) ->
  Forall (fun x => instance_of_list x s = true) (answers_of rest).

(** ... and finding F1 at this level: first answer [[Vec<^0>, ^0]], second answer [[Vec<I32>, U32]]. *)
Theorem make_solution_refuted :
  exists root c rest bs s,
    Forall top_vars0 (snd c) /\ Forall ctys_ok (snd c) /\ Forall (answer_ok c) (answers_of rest) /\
    same_kinds (snd c) (snd (identity_csubst root)) /\
    repeats_var (snd c) = true /\
    make_solution MOld root (EAnswer c [] false :: rest) [] = Ok (Some (Ambig (Definite bs s))) /\
    ~ Forall (fun x => instance_of_list x s = true) (answers_of rest).
Proof. exact make_solution_refuted_lemma. Qed.
Check make_solution_refuted :
  exists root c rest bs s,
    Forall top_vars0 (snd c) /\ Forall ctys_ok (snd c) /\ Forall (answer_ok c) (answers_of rest) /\
    same_kinds (snd c) (snd (identity_csubst root)) /\
    repeats_var (snd c) = true /\
    make_solution MOld root (EAnswer c [] false :: rest) [] = Ok (Some (Ambig (Definite bs s))) /\
    ~ Forall (fun x => instance_of_list x s = true) (answers_of rest).

(** [Solution::combine] yields the same result in either order (for two solutions of one goal). *)
Theorem combine_comm : forall a b, compatible a b -> combine a b = combine b a.
Proof. exact combine_comm_lemma. Qed.
Check combine_comm : forall a b, compatible a b -> combine a b = combine b a.

(** ... and never claims more than either candidate. *)
Theorem combine_no_more : forall a b,
  combine a b = a \/ combine a b = b \/
  exists g, combine a b = Ambig g /\ guidance_le g (into_guidance a) /\ guidance_le g (into_guidance b).
Proof. exact combine_no_more_lemma. Qed.
Check combine_no_more : forall a b,
  combine a b = a \/ combine a b = b \/
  exists g, combine a b = Ambig g /\ guidance_le g (into_guidance a) /\ guidance_le g (into_guidance b).

Theorem with_priorities_comm : forall dg a pa b pb,
  compatible a b -> with_priorities dg a pa b pb = with_priorities dg b pb a pa.
Proof. exact with_priorities_comm_lemma. Qed.
Check with_priorities_comm : forall dg a pa b pb,
  compatible a b -> with_priorities dg a pa b pb = with_priorities dg b pb a pa.
