(** Property C25 — binder operations obey the substitution laws.
    Only the property theorems; models and proofs are in Ir/Fold.v.  The laws hold for every
    term of the shared syntax: types, lifetimes, consts, where clauses, domain goals, goals
    and program clauses, with variables at any binder depth. *)
From Chalk Require Import Ir.Syntax Ir.Fold.

(** Shifting a term into [n] binders and back out returns it unchanged (at any cut-off). *)
Theorem shift_out_in : forall t n k, shift_out n k (shift_in n k t) = Some t.
Proof. exact shift_out_in_lemma. Qed.
Check shift_out_in : forall t n k, shift_out n k (shift_in n k t) = Some t.

(** ... and whenever shifting out succeeds, shifting back in restores the term. *)
Theorem shift_in_out : forall t n k t', shift_out n k t = Some t' -> shift_in n k t' = t.
Proof. exact shift_in_out_lemma. Qed.
Check shift_in_out : forall t n k t', shift_out n k t = Some t' -> shift_in n k t' = t.

(** Substituting a binder's own variables for itself is the identity. *)
Theorem subst_identity : forall t ks k,
  well_kinded ks k t -> subst (identity_subst ks) k (shift_in 1 (k + 1) t) = Ok t.
Proof. exact subst_identity_lemma. Qed.
Check subst_identity : forall t ks k,
  well_kinded ks k t -> subst (identity_subst ks) k (shift_in 1 (k + 1) t) = Ok t.

(** Substitution commutes with shifting. *)
Theorem subst_shift_commute : forall t ps n c k,
  res_map (shift_in n (c + k)) (subst ps k t) = subst (map (shift_in n c) ps) k (shift_in n (c + k + 1) t).
Proof. exact subst_shift_commute_lemma. Qed.
Check subst_shift_commute : forall t ps n c k,
  res_map (shift_in n (c + k)) (subst ps k t) = subst (map (shift_in n c) ps) k (shift_in n (c + k + 1) t).

(** Folding with a folder that changes nothing returns an equal term. *)
Theorem fold_identity : forall t k, fold_id k t = t.
Proof. exact fold_id_lemma. Qed.
Check fold_identity : forall t k, fold_id k t = t.

(** A substitution that covers the binder with parameters of the right kinds never panics. *)
Theorem subst_wellkinded_no_panic : forall t ps k, params_cover ps k t -> exists t', subst ps k t = Ok t'.
Proof. exact subst_no_panic_lemma. Qed.
Check subst_wellkinded_no_panic : forall t ps k, params_cover ps k t -> exists t', subst ps k t = Ok t'.

(** Further laws of the same operations (beyond the property's wording). *)
Theorem shift_in_shift_in : forall t n m k, shift_in m k (shift_in n k t) = shift_in (n + m) k t.
Proof. exact shift_in_shift_in_lemma. Qed.
Check shift_in_shift_in : forall t n m k, shift_in m k (shift_in n k t) = shift_in (n + m) k t.

Theorem subst_shift_cancel : forall t ps k, subst ps k (shift_in 1 k t) = Ok t.
Proof. exact subst_shift_cancel_lemma. Qed.
Check subst_shift_cancel : forall t ps k, subst ps k (shift_in 1 k t) = Ok t.

(** [Substitution::apply] ([SubstFolder]) agrees with [Subst::apply] whenever it does not panic. *)
Theorem subst_apply_agrees : forall t ps k t', subst_apply ps k t = Ok t' -> subst ps k t = Ok t'.
Proof. exact subst_apply_agrees_lemma. Qed.
Check subst_apply_agrees : forall t ps k t', subst_apply ps k t = Ok t' -> subst ps k t = Ok t'.
