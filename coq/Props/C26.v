(** Property C26 — type flags summarize a type's contents accurately.
    Only the property theorems; models and proofs are in Ir/Flags.v. *)
From Chalk Require Import Ir.Syntax Ir.Flags.

(** For every term and every occurrence flag b (bits 0..14; STILL_FURTHER_SPECIALIZABLE is
    excluded by the property), the flag computed by the model of [compute_flags] is set iff a
    node of the kind the flag names ([node_is b]) occurs anywhere inside the term
    ([subterm]: substitutions, const types, dyn bounds, alias arguments, fn-pointer arguments). *)
Theorem flags_spec : forall t b, b < 15 -> (N.testbit (flags t) b = true <-> occurs b t).
Proof. exact flags_spec_lemma. Qed.
Check flags_spec : forall t b, b < 15 -> (N.testbit (flags t) b = true <-> occurs b t).

(** The value the correspondence compares with [TyData::flags] (masked to bits 0..14) carries
    exactly these fifteen facts. *)
Theorem flags_masked_spec : forall t b, N.testbit (flags_masked t) b = true <-> (b < 15 /\ occurs b t).
Proof. exact flags_masked_spec_lemma. Qed.
Check flags_masked_spec : forall t b, N.testbit (flags_masked t) b = true <-> (b < 15 /\ occurs b t).

(** Shifting a type across binders does not change its flags. *)
Theorem flags_shift_invariant : forall t n k, flags (Ir.Fold.shift_in n k t) = flags t.
Proof. exact flags_shift_in. Qed.
Check flags_shift_invariant : forall t n k, flags (Ir.Fold.shift_in n k t) = flags t.
