(** Property C15 — failed unification leaves inference state untouched; order irrelevant.
    Only the property theorems; models and proofs are in Infer/{Table,Unify}.v.
    The table is [{ unify; tvars; maxu }] — the three fields that [InferenceTable::rollback_to]
    restores; [relate] is [snapshot; unify; commit | rollback_to]. *)
From Chalk Require Import Ir.Syntax Infer.Table Infer.Unify Infer.Sym.

(** Rolling back to a snapshot restores the table exactly, whatever was done in between. *)
Theorem rollback_restores : forall t os, rollback_to (run_ops os t) (snapshot t) = t.
Proof. exact rollback_restores_lemma. Qed.
Check rollback_restores : forall t os, rollback_to (run_ops os t) (snapshot t) = t.

(** A [relate] that fails with [NoSolution] returns the table it was given. *)
Theorem relate_fail_unchanged : forall adt_var fn_var fuel v a b t t',
  relate adt_var fn_var fuel v a b t = (NoSol, t') -> t' = t.
Proof. exact relate_fail_unchanged_lemma. Qed.
Check relate_fail_unchanged : forall adt_var fn_var fuel v a b t t',
  relate adt_var fn_var fuel v a b t = (NoSol, t') -> t' = t.

(** Failure is symmetric in the two arguments, on the fragment [sfrag] without fn pointers,
    aliases and dyn (it contains the C14 fragment), for a table whose bound values are in the
    fragment ([tfrag], preserved by every successful relate: Infer.Sym.relate_tfrag).  The
    layer lemma [Infer.Sym.relate_mirror] is stronger: same resulting table, same goals up to
    order, for every variance (with the variance inverted). *)
Theorem relate_symmetric : forall adt_var fn_var fuel a b t,
  sfrag a = true -> sfrag b = true -> tfrag t ->
  (fst (relate adt_var fn_var fuel Invariant a b t) = NoSol <-> fst (relate adt_var fn_var fuel Invariant b a t) = NoSol).
Proof. exact relate_symmetric_lemma. Qed.
Check relate_symmetric : forall adt_var fn_var fuel a b t,
  sfrag a = true -> sfrag b = true -> tfrag t ->
  (fst (relate adt_var fn_var fuel Invariant a b t) = NoSol <-> fst (relate adt_var fn_var fuel Invariant b a t) = NoSol).
