(** Property C15 — failed unification leaves inference state untouched; order irrelevant.
    Only the property theorems; models and proofs are in Infer/{Table,Unify}.v.
    The table is [{ unify; tvars; maxu }] — the three fields that [InferenceTable::rollback_to]
    restores; [relate] is [snapshot; unify; commit | rollback_to]. *)
From Chalk Require Import Ir.Syntax Infer.Table Infer.Unify.

(** Rolling back to a snapshot restores the table exactly, whatever was done in between. *)
Theorem rollback_restores : forall t os, rollback_to (run_ops os t) (snapshot t) = t.
Proof. exact rollback_restores_lemma. Qed.
Check rollback_restores : forall t os, rollback_to (run_ops os t) (snapshot t) = t.

(** A [relate] that fails with [NoSolution] returns the table it was given. *)
Theorem relate_fail_unchanged : forall adt_var fn_var fuel v a b t t',
  relate adt_var fn_var fuel v a b t = (NoSol, t') -> t' = t.
Proof. exact relate_fail_unchanged_lemma. Qed.
Check relate_fail_unchanged : forall adt_var fn_var fuel v a b t t',
  relate adt_var fn_var fuel v a b t = (NoSol, t') -> t' = t.
