(** Property C18 — clause pre-filtering never discards an applicable clause.
    Only the property theorems; model and proofs are in Ir/CouldMatch.v. *)
From Chalk Require Import Ir.Syntax Ir.CouldMatch.

(** For all terms [a], [b] (types, generic arguments, trait references, where clauses, domain
    goals — i.e. clause conclusions and goals) and all kind-preserving instantiations of their
    bound variables, inference variables, lifetimes, consts and type-position aliases: if the
    instantiated terms are equal, the model of [could_match] answers [true]. *)
Theorem could_match_complete : forall a b sg tau,
  kind_preserving sg -> kind_preserving tau ->
  inst sg false a = inst tau false b -> could_match false a b = true.
Proof. exact could_match_complete_lemma. Qed.
Check could_match_complete : forall a b sg tau,
  kind_preserving sg -> kind_preserving tau ->
  inst sg false a = inst tau false b -> could_match false a b = true.

(** The same for argument lists: impl headers against trait-reference argument lists
    ([Program::impls_for_trait]). *)
Theorem could_match_slice_complete : forall l l' sg tau,
  kind_preserving sg -> kind_preserving tau ->
  map (inst sg false) l = map (inst tau false) l' -> could_match_slice l l' = true.
Proof. exact could_match_slice_complete_lemma. Qed.
Check could_match_slice_complete : forall l l' sg tau,
  kind_preserving sg -> kind_preserving tau ->
  map (inst sg false) l = map (inst tau false) l' -> could_match_slice l l' = true.
