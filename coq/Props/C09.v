(** Property C09 — every solve call terminates without hanging or panicking (recursive engine:
    within its overflow depth).  Engine part, on the faithful model Engine/RecEngine.v. *)
From Chalk Require Import Engine.RecFuelLoops.

(** The only panics of a root solve of the repaired engine are injected ones (C12) and the
    overflow guard the property allows: no stack / search-graph assertion, no index out of
    bounds, no failed [move_to_cache] assertion -- from any state with an exact cache (in
    particular after any history, interrupted or panicking), for every and-or graph without
    mixed cycles and every fuel. *)
Theorem rec_only_guard_panics : forall G cf fuel g s p s',
  wf G -> ~ mixed_cycle G -> vr cf = repaired -> g < length G -> cache_exact G s ->
  solve_root G cf fuel g s = Panic p s' -> p = Injected \/ p = OverflowDepth.
Proof.
  intros G cf fuel g s p s' Hwf Hnm Hvr Hg Hc Hrun.
  pose proof (root_spec G cf Hwf Hnm Hvr fuel g s Hc Hg) as H. rewrite Hrun in H. apply H.
Qed.

(** Fuel is only a cut-off: once a root solve has an outcome, every larger fuel gives the
    same outcome (for every graph and configuration, unchanged or repaired engine). *)
Theorem rec_fuel_mono : forall G cf f f' g s,
  f <= f' -> solve_root G cf f g s <> OutOfFuel -> solve_root G cf f' g s = solve_root G cf f g s.
Proof. exact rec_fuel_mono_lemma. Qed.

(** The explicit fuel bound [fuel_bound G cf = 4 * (min overflow |G| + 1) + 1], COMPLETE for
    acyclic and-or graphs (no goal reaches itself): a root solve of the repaired engine never
    runs out of this fuel, from any state with an exact cache (in particular after any history,
    with any interruption / panic schedule).  On such graphs no goal is ever found on the
    stack, so no cycle flag is raised and every fixed-point loop ends after one iteration; the
    stack is never deeper than the overflow depth or the number of goals (pigeonhole on the
    distinct goals of the stack). *)
Theorem rec_fuel_bound_acyclic : forall G cf g s,
  wf G -> acyclic G -> vr cf = repaired -> g < length G -> cache_exact G s ->
  solve_root G cf (fuel_bound G cf) g s <> OutOfFuel.
Proof. intros G cf g s Hwf Hac Hvr. exact (rec_fuel_bound_acyclic_lemma G cf Hwf Hac Hvr g s). Qed.

(** The same bound, COMPLETE for the larger class of graphs whose only cycles are self-loops
    (every strongly connected component is a single goal, e.g. directly recursive goals; it
    contains the acyclic graphs).  Here loops do iterate; the proof contains the NO-FLIP lemma
    for this class ([RecFuelLoops.no_flip]): the refutation a flipped second iteration would come
    with has no leaf among provisional nodes, hence is absolute, and contradicts the absolute
    truth established by the first iteration -- so a visit makes at most two iterations. *)
Theorem rec_fuel_bound_selfloops : forall G cf g s,
  wf G -> selfloops_only G -> vr cf = repaired -> g < length G -> cache_exact G s ->
  solve_root G cf (fuel_bound G cf) g s <> OutOfFuel.
Proof. intros G cf g s Hwf Hsl Hvr. exact (rec_fuel_bound_selfloops_lemma G cf Hwf Hsl Hvr g s). Qed.

(** PARTIAL for graphs with cycles through SEVERAL goals.  The full statement is [RecFuel.rec_fuel_bound_statement]: the explicit fuel
    [fuel_bound G cf = 4 * (min overflow |G| + 1) + 1] always suffices.  What is proved: the
    outcome at any sufficient fuel is the outcome at every larger fuel, and it is not an
    internal panic.  The gap, exactly: the NO-FLIP lemma -- if an iteration of the loop of an
    inductive node started from the provisional value [No] and returned [Yes], the next
    iteration (started from [Yes]) does not return [No] (dually for coinductive nodes); it
    gives at most two iterations per visit.  It is a monotonicity / completeness statement
    about two different runs of [solve_iteration]; the invariants of Engine/RecSolve.v are
    soundness statements and imply it only when the refutation of the second iteration has no
    leaf among OTHER provisional nodes of the same component ([rec_fuel_bound_selfloops]); with
    such leaves (provisionally-false nodes lower on the stack) a relative refutation is
    consistent with absolute truth.  The C09 check validates [fuel_bound] on
    every generated instance (the model run with exactly this fuel must equal the real
    engine's observations; an exhaustive-style search over 40 000 random graphs found no
    loop with more than two iterations). *)
Theorem rec_fuel_bound_partial : forall G cf f g s,
  wf G -> ~ mixed_cycle G -> vr cf = repaired -> g < length G -> cache_exact G s ->
  solve_root G cf f g s <> OutOfFuel ->
  (forall f', f <= f' -> solve_root G cf f' g s = solve_root G cf f g s) /\
  (forall p s', solve_root G cf f g s = Panic p s' -> p = Injected \/ p = OverflowDepth).
Proof.
  intros G cf f g s Hwf Hnm Hvr Hg Hc Hne. split.
  - intros f' Hle. apply rec_fuel_mono_lemma; auto.
  - intros p s' Hrun. pose proof (root_spec G cf Hwf Hnm Hvr f g s Hc Hg) as H. rewrite Hrun in H. apply H.
Qed.

(** The guard of the property is modelled: a search deeper than [overflow_depth] ends in the
    explicit outcome [Panic OverflowDepth] (never in a hang). *)
Theorem rec_overflow_guard :
  fst (run RecWitness.chain3 (mk_config repaired 2 true [] []) 100 [0] init_state) = [OPanic OverflowDepth].
Proof. vm_compute. reflexivity. Qed.
