(** Property C09 — every solve call terminates without hanging or panicking (recursive engine:
    within its overflow depth).  Engine part, on the faithful model Engine/RecEngine.v. *)
From Chalk Require Import Engine.RecFuel.

(** The only panics of a root solve of the repaired engine are injected ones (C12) and the
    overflow guard the property allows: no stack / search-graph assertion, no index out of
    bounds, no failed [move_to_cache] assertion -- from any state with an exact cache (in
    particular after any history, interrupted or panicking), for every and-or graph without
    mixed cycles and every fuel. *)
Theorem rec_only_guard_panics : forall G cf fuel g s p s',
  wf G -> ~ mixed_cycle G -> vr cf = repaired -> g < length G -> cache_exact G s ->
  solve_root G cf fuel g s = Panic p s' -> p = Injected \/ p = OverflowDepth.
Proof.
  intros G cf fuel g s p s' Hwf Hnm Hvr Hg Hc Hrun.
  pose proof (root_spec G cf Hwf Hnm Hvr fuel g s Hc Hg) as H. rewrite Hrun in H. apply H.
Qed.

(** Fuel is only a cut-off: once a root solve has an outcome, every larger fuel gives the
    same outcome (for every graph and configuration, unchanged or repaired engine). *)
Theorem rec_fuel_mono : forall G cf f f' g s,
  f <= f' -> solve_root G cf f g s <> OutOfFuel -> solve_root G cf f' g s = solve_root G cf f g s.
Proof. exact rec_fuel_mono_lemma. Qed.

(** PARTIAL.  The full statement is [RecFuel.rec_fuel_bound_statement]: the explicit fuel
    [fuel_bound G cf = 4 * (min overflow |G| + 1) + 1] always suffices.  What is proved: the
    outcome at any sufficient fuel is the outcome at every larger fuel, and it is not an
    internal panic.  The gap: that the fixed-point loop of a node makes at most three
    iterations per visit (monotonicity of the propositional [solve_iteration] in the
    provisional value); the C09 check validates [fuel_bound] on every generated instance
    (the model run with exactly this fuel must equal the real engine's observations). *)
Theorem rec_fuel_bound_partial : forall G cf f g s,
  wf G -> ~ mixed_cycle G -> vr cf = repaired -> g < length G -> cache_exact G s ->
  solve_root G cf f g s <> OutOfFuel ->
  (forall f', f <= f' -> solve_root G cf f' g s = solve_root G cf f g s) /\
  (forall p s', solve_root G cf f g s = Panic p s' -> p = Injected \/ p = OverflowDepth).
Proof.
  intros G cf f g s Hwf Hnm Hvr Hg Hc Hne. split.
  - intros f' Hle. apply rec_fuel_mono_lemma; auto.
  - intros p s' Hrun. pose proof (root_spec G cf Hwf Hnm Hvr f g s Hc Hg) as H. rewrite Hrun in H. apply H.
Qed.

(** The guard of the property is modelled: a search deeper than [overflow_depth] ends in the
    explicit outcome [Panic OverflowDepth] (never in a hang). *)
Theorem rec_overflow_guard :
  fst (run RecWitness.chain3 (mk_config repaired 2 true [] []) 100 [0] init_state) = [OPanic OverflowDepth].
Proof. vm_compute. reflexivity. Qed.
