(** Property C09 — every solve call terminates (recursive engine: within the overflow depth). *)
From Chalk Require Import Engine.RecEngine Engine.RecWitness.

(** The guard of the property is modelled: a search deeper than [overflow_depth] ends in the
    explicit outcome [Panic OverflowDepth] (never in a hang), here on a chain of length 3 with
    overflow depth 2. *)
Theorem rec_overflow_guard :
  fst (run chain3 (mk_config repaired 2 true [] []) 100 [0] init_state) = [OPanic OverflowDepth].
Proof. vm_compute. reflexivity. Qed.
