(** Property C23 — the logged program reproduces the solver's answers.
    The printed program is a restriction of the original one (items never served become stubs
    without clauses or disappear).  [eval_atom_restrict] / [eval_restrict]: a restriction that
    keeps every clause matching an atom of the goal's reach set gives exactly the same result
    of the verified evaluator (hence, by [eval_correct], the same declarative meaning) — all
    programs, goals with quantifiers / hypotheses / negation.  [covers_reach_sound]: the
    executable form the check evaluates on the printed program.  [recorded_superset]: the
    recorded-id model of the wrapper (each callback records what its result depends on) gives
    recorded ⊇ everything the computation depended on, for any callback sequence;
    [f10_refuted] / [f11_refuted]: the two callbacks that violated the obligation on the
    unchanged tree (repaired by fix: commits). *)
From Chalk Require Import Logic.Restrict.

Theorem eval_atom_restrict : forall (fuel : nat) (cls : list clause) (co : list N) (a : ty)
    (keep : clause -> bool) (R : list ty),
  reach (bodies cls) fuel [a] [] = Some R -> kept keep cls R ->
  eval_atom fuel (filter keep cls) co a = eval_atom fuel cls co a.
Proof. exact Restrict.eval_atom_restrict. Qed.
Check eval_atom_restrict : forall (fuel : nat) (cls : list clause) (co : list N) (a : ty)
    (keep : clause -> bool) (R : list ty),
  reach (bodies cls) fuel [a] [] = Some R -> kept keep cls R ->
  eval_atom fuel (filter keep cls) co a = eval_atom fuel cls co a.

Theorem eval_restrict : forall (g : goal) (fuel : nat) (keep : clause -> bool) (P : program)
    (env : list clause) (rho : list ty),
  phb_clauses (pclauses P) = 0%N ->
  (forall c, In c env -> keep c = true) ->
  goal_ok fuel keep P env rho g ->
  eval_goal fuel (restrictP keep P) env rho g = eval_goal fuel P env rho g.
Proof. exact Restrict.eval_restrict. Qed.
Check eval_restrict : forall (g : goal) (fuel : nat) (keep : clause -> bool) (P : program)
    (env : list clause) (rho : list ty),
  phb_clauses (pclauses P) = 0%N ->
  (forall c, In c env -> keep c = true) ->
  goal_ok fuel keep P env rho g ->
  eval_goal fuel (restrictP keep P) env rho g = eval_goal fuel P env rho g.

Theorem covers_reach_sound : forall (fuel : nat) (cls cls2 : list clause) (co : list N) (a : ty),
  covers_reach fuel cls cls2 a = Some true ->
  eval_atom fuel (filter (fun c => memC c cls2) cls) co a = eval_atom fuel cls co a.
Proof. exact Restrict.covers_reach_sound. Qed.
Check covers_reach_sound : forall (fuel : nat) (cls cls2 : list clause) (co : list N) (a : ty),
  covers_reach fuel cls cls2 a = Some true ->
  eval_atom fuel (filter (fun c => memC c cls2) cls) co a = eval_atom fuel cls co a.

Theorem recorded_superset : forall cbs : list callback, incl (flat_map deps cbs) (recorded true true cbs).
Proof. exact Restrict.recorded_superset. Qed.
Check recorded_superset : forall cbs : list callback, incl (flat_map deps cbs) (recorded true true cbs).

Theorem f10_refuted : exists cbs : list callback, ~ incl (flat_map deps cbs) (recorded false true cbs).
Proof. exact Restrict.f10_refuted. Qed.
Check f10_refuted : exists cbs : list callback, ~ incl (flat_map deps cbs) (recorded false true cbs).

Theorem f11_refuted : exists cbs : list callback, ~ incl (flat_map deps cbs) (recorded true false cbs).
Proof. exact Restrict.f11_refuted. Qed.
Check f11_refuted : exists cbs : list callback, ~ incl (flat_map deps cbs) (recorded true false cbs).
