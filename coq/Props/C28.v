(** Property C28 — every returned solution is a well-formed answer for its query.
    Only the property theorems; models and proofs are in Infer/Answer.v and Infer/Canon.v. *)
From Chalk Require Import Ir.Syntax Ir.Fold Infer.Canon Infer.Answer Agg.Instance Agg.AntiUnify Infer.AnswerWf.

(** An answer that passes the executable check [wf_answer] (one entry per query binder of the
    binder's kind, bound variables within the answer's own binders, universes below the query's
    universe count) applies to the query without panicking. *)
Theorem wf_answer_applies : forall q a, wf_query q = true -> wf_answer q a = true ->
  exists r, apply_answer a q = Ok r.
Proof. exact wf_answer_applies_lemma. Qed.
Check wf_answer_applies : forall q a, wf_query q = true -> wf_answer q a = true ->
  exists r, apply_answer a q = Ok r.

(** The output of canonicalization is closed under its binders, well-kinded, and has exactly one
    binder per unbound class of the value. *)
Theorem canon_closed : forall fuel T t bs v fr r,
  canonicalize fuel T t = Done ((bs, v), fr) -> resolve fuel T 0 t = Done r -> kinds_consistent (occs r) ->
  closed_o (map fst bs) 0 v = true
  /\ length bs = length fr /\ NoDup (map snd fr)
  /\ (forall x, In x (map snd fr) <-> In x (map snd (occs r))).
Proof. exact canon_closed_lemma. Qed.
Check canon_closed : forall fuel T t bs v fr r,
  canonicalize fuel T t = Done ((bs, v), fr) -> resolve fuel T 0 t = Done r -> kinds_consistent (occs r) ->
  closed_o (map fst bs) 0 v = true
  /\ length bs = length fr /\ NoDup (map snd fr)
  /\ (forall x, In x (map snd fr) <-> In x (map snd (occs r))).

(** ... hence (const types being usize) every canonicalized value is a closed query in the sense
    of [wf_answer_applies]. *)
Theorem canon_query_wf : forall fuel T t bs v fr r n,
  canonicalize fuel T t = Done ((bs, v), fr) -> resolve fuel T 0 t = Done r -> kinds_consistent (occs r) ->
  consts_usize v = true -> wf_query (n, (bs, v)) = true.
Proof. exact canon_query_wf_lemma. Qed.
Check canon_query_wf : forall fuel T t bs v fr r n,
  canonicalize fuel T t = Done ((bs, v), fr) -> resolve fuel T 0 t = Done r -> kinds_consistent (occs r) ->
  consts_usize v = true -> wf_query (n, (bs, v)) = true.

(** Per unknown: a well-formed answer gives the i-th query unknown a value that mentions only answer
    variables and placeholders of universes not above that unknown's own universe. *)
Theorem wf_answer_universes : forall q a i p vk u, wf_answer q a = true ->
  nth_error (a_subst a) i = Some p -> nth_error (q_binders q) i = Some (vk, u) ->
  univ_le (map snd (a_binders a)) u 0 p = true.
Proof. exact wf_answer_universes_lemma. Qed.
Check wf_answer_universes : forall q a i p vk u, wf_answer q a = true ->
  nth_error (a_subst a) i = Some p -> nth_error (q_binders q) i = Some (vk, u) ->
  univ_le (map snd (a_binders a)) u 0 p = true.

(** The recursive solver's answer ([Fulfill::solve]: the query substitution canonicalized through the
    final inference table) is well-formed, for every table that satisfies the universe invariant of
    unification ([relate_sound_universes]: the resolved binding of each query variable mentions only
    variables and placeholders of universes it can see — C14's [relate_sound] universe clause),
    has usize const types and uses every class at one kind. *)
Theorem rec_answer_wf : forall fuel T q a,
  (forall b, In b (q_binders q) -> snd b < q_universes q) ->
  table_consts_usize T ->
  relate_sound_universes fuel T (q_binders q) ->
  (forall R, resolve fuel T 0 (Node HList (subst0 (q_binders q))) = Done R -> kinds_consistent (occs R)) ->
  rec_answer fuel T q = Done a -> wf_answer q a = true.
Proof. exact rec_answer_wf_lemma. Qed.
Check rec_answer_wf : forall fuel T q a,
  (forall b, In b (q_binders q) -> snd b < q_universes q) ->
  table_consts_usize T ->
  relate_sound_universes fuel T (q_binders q) ->
  (forall R, resolve fuel T 0 (Node HList (subst0 (q_binders q))) = Done R -> kinds_consistent (occs R)) ->
  rec_answer fuel T q = Done a -> wf_answer q a = true.

(** [merge_into_guidance] maps well-formed guidance and a further answer of the query to well-formed
    guidance: aggregate variables are fresh, bound by the aggregate and created in the universe of the
    query unknown whose entry they occur in ... *)
Theorem slg_merge_wf : forall q g ans g',
  (forall b, In b (q_binders q) -> snd b < q_universes q) ->
  wf_answer q g = true -> kinds_match (a_subst ans) (q_binders q) = true -> Forall ctys_ok (a_subst g) ->
  merge (q_binders q) g ans = Ok g' -> wf_answer q g' = true.
Proof. exact slg_merge_wf_lemma. Qed.
Check slg_merge_wf : forall q g ans g',
  (forall b, In b (q_binders q) -> snd b < q_universes q) ->
  wf_answer q g = true -> kinds_match (a_subst ans) (q_binders q) = true -> Forall ctys_ok (a_subst g) ->
  merge (q_binders q) g ans = Ok g' -> wf_answer q g' = true.

(** ... so the whole aggregation loop of [make_solution] preserves well-formedness ... *)
Theorem slg_answer_wf : forall q rest g g',
  (forall b, In b (q_binders q) -> snd b < q_universes q) ->
  wf_answer q g = true -> Forall ctys_ok (a_subst g) ->
  Forall (fun x => kinds_match (a_subst x) (q_binders q) = true) rest ->
  merge_all (q_binders q) g rest = Ok g' -> wf_answer q g' = true.
Proof. exact slg_answer_wf_lemma. Qed.
Check slg_answer_wf : forall q rest g g',
  (forall b, In b (q_binders q) -> snd b < q_universes q) ->
  wf_answer q g = true -> Forall ctys_ok (a_subst g) ->
  Forall (fun x => kinds_match (a_subst x) (q_binders q) = true) rest ->
  merge_all (q_binders q) g rest = Ok g' -> wf_answer q g' = true.

(** ... and the SLG solution (first root answer = canonicalized query substitution, then merges) is well-formed. *)
Theorem slg_solution_wf : forall fuel T q g rest g',
  (forall b, In b (q_binders q) -> snd b < q_universes q) ->
  table_consts_usize T -> relate_sound_universes fuel T (q_binders q) ->
  (forall R, resolve fuel T 0 (Node HList (subst0 (q_binders q))) = Done R -> kinds_consistent (occs R)) ->
  rec_answer fuel T q = Done g -> Forall ctys_ok (a_subst g) ->
  Forall (fun x => kinds_match (a_subst x) (q_binders q) = true) rest ->
  merge_all (q_binders q) g rest = Ok g' -> wf_answer q g' = true.
Proof. exact slg_solution_wf_lemma. Qed.
Check slg_solution_wf : forall fuel T q g rest g',
  (forall b, In b (q_binders q) -> snd b < q_universes q) ->
  table_consts_usize T -> relate_sound_universes fuel T (q_binders q) ->
  (forall R, resolve fuel T 0 (Node HList (subst0 (q_binders q))) = Done R -> kinds_consistent (occs R)) ->
  rec_answer fuel T q = Done g -> Forall ctys_ok (a_subst g) ->
  Forall (fun x => kinds_match (a_subst x) (q_binders q) = true) rest ->
  merge_all (q_binders q) g rest = Ok g' -> wf_answer q g' = true.
