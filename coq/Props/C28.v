(** Property C28 — every returned solution is a well-formed answer for its query.
    Only the property theorems; models and proofs are in Infer/Answer.v and Infer/Canon.v. *)
From Chalk Require Import Ir.Syntax Ir.Fold Infer.Canon Infer.Answer.

(** An answer that passes the executable check [wf_answer] (one entry per query binder of the
    binder's kind, bound variables within the answer's own binders, universes below the query's
    universe count) applies to the query without panicking. *)
Theorem wf_answer_applies : forall q a, wf_query q = true -> wf_answer q a = true ->
  exists r, apply_answer a q = Ok r.
Proof. exact wf_answer_applies_lemma. Qed.
Check wf_answer_applies : forall q a, wf_query q = true -> wf_answer q a = true ->
  exists r, apply_answer a q = Ok r.

(** The output of canonicalization is closed under its binders, well-kinded, and has exactly one
    binder per unbound class of the value. *)
Theorem canon_closed : forall fuel T t bs v fr r,
  canonicalize fuel T t = Done ((bs, v), fr) -> resolve fuel T 0 t = Done r -> kinds_consistent (occs r) ->
  closed_o (map fst bs) 0 v = true
  /\ length bs = length fr /\ NoDup (map snd fr)
  /\ (forall x, In x (map snd fr) <-> In x (map snd (occs r))).
Proof. exact canon_closed_lemma. Qed.
Check canon_closed : forall fuel T t bs v fr r,
  canonicalize fuel T t = Done ((bs, v), fr) -> resolve fuel T 0 t = Done r -> kinds_consistent (occs r) ->
  closed_o (map fst bs) 0 v = true
  /\ length bs = length fr /\ NoDup (map snd fr)
  /\ (forall x, In x (map snd fr) <-> In x (map snd (occs r))).

(** ... hence (const types being usize) every canonicalized value is a closed query in the sense
    of [wf_answer_applies]. *)
Theorem canon_query_wf : forall fuel T t bs v fr r n,
  canonicalize fuel T t = Done ((bs, v), fr) -> resolve fuel T 0 t = Done r -> kinds_consistent (occs r) ->
  consts_usize v = true -> wf_query (n, (bs, v)) = true.
Proof. exact canon_query_wf_lemma. Qed.
Check canon_query_wf : forall fuel T t bs v fr r n,
  canonicalize fuel T t = Done ((bs, v), fr) -> resolve fuel T 0 t = Done r -> kinds_consistent (occs r) ->
  consts_usize v = true -> wf_query (n, (bs, v)) = true.

(** Per unknown: a well-formed answer gives the i-th query unknown a value that mentions only answer
    variables and placeholders of universes not above that unknown's own universe. *)
Theorem wf_answer_universes : forall q a i p vk u, wf_answer q a = true ->
  nth_error (a_subst a) i = Some p -> nth_error (q_binders q) i = Some (vk, u) ->
  univ_le (map snd (a_binders a)) u 0 p = true.
Proof. exact wf_answer_universes_lemma. Qed.
Check wf_answer_universes : forall q a i p vk u, wf_answer q a = true ->
  nth_error (a_subst a) i = Some p -> nth_error (q_binders q) i = Some (vk, u) ->
  univ_le (map snd (a_binders a)) u 0 p = true.
