(** Property C05 — auto traits and coinductive traits follow coinductive semantics.

    [holdsR D a]: the meaning (greatest fixed point on [#[auto]]/[#[coinductive]] traits, least
    on the others) of the clauses chalk generates for the declarations [D] — explicit impls,
    the auto-trait clauses of [push_auto_trait_impls] (modelled in Rules/Auto.v) and the
    built-in clauses (Rules/Builtin.v).  [auto_spec] is the independently written rule system:
    the greatest set of atoms [T: A] each justified by an applicable explicit positive impl
    whose where-clauses hold, or — no explicit impl, positive or negative, for the type
    constructor of [T] — by all constituent types of [T].  [evalR] is the executable oracle
    the check compares both real solvers with. *)
From Chalk Require Import Rules.Builtin.

Theorem auto_clauses_spec : forall D, wfD D -> forall A t, is_auto D A = true -> ground t ->
  (holdsR D (atom A t) <-> auto_spec D (builtin_gen D) A t).
Proof. exact Builtin.auto_spec_full. Qed.
Check auto_clauses_spec : forall D, wfD D -> forall A t, is_auto D A = true -> ground t ->
  (holdsR D (atom A t) <-> auto_spec D (builtin_gen D) A t).

Theorem auto_fixed_point : forall D, wfD D -> forall A t, is_auto D A = true -> ground t ->
  (holdsR D (atom A t) <-> auto_rule D (holdsR D) (atom A t)).
Proof. exact Builtin.auto_unfold_full. Qed.
Check auto_fixed_point : forall D, wfD D -> forall A t, is_auto D A = true -> ground t ->
  (holdsR D (atom A t) <-> auto_rule D (holdsR D) (atom A t)).

Theorem auto_clause_set : forall D A t c,
  In c (push_auto_trait_impls D A t) <->
  exists cs, auto_sr D A t cs /\ c = mkClause (atom A t) (map (atom A) cs).
Proof. exact Auto.push_auto_spec. Qed.
Check auto_clause_set : forall D A t c,
  In c (push_auto_trait_impls D A t) <->
  exists cs, auto_sr D A t cs /\ c = mkClause (atom A t) (map (atom A) cs).

Theorem impl_provided_for_spec : forall D A t, impl_provided_for D A t = true <-> ctor_has_impl D A t.
Proof. exact Auto.impl_provided_for_spec. Qed.
Check impl_provided_for_spec : forall D A t, impl_provided_for D A t = true <-> ctor_has_impl D A t.

Theorem coinductive_spec : forall D a, isco (coD D) a = true ->
  (holdsR D a <-> exists X : ty -> Prop,
      (forall x, X x -> isco (coD D) x = true /\ one_step D (full_gen D) (fun b => X b \/ holdsR D b) x) /\ X a).
Proof. exact Builtin.coinductive_spec. Qed.
Check coinductive_spec : forall D a, isco (coD D) a = true ->
  (holdsR D a <-> exists X : ty -> Prop,
      (forall x, X x -> isco (coD D) x = true /\ one_step D (full_gen D) (fun b => X b \/ holdsR D b) x) /\ X a).

Theorem evalR_correct : forall D, wfD D -> forall fuel a b,
  evalR fuel D a = Some b -> (b = true <-> holdsR D a).
Proof. exact Builtin.evalR_correct. Qed.
Check evalR_correct : forall D, wfD D -> forall fuel a b,
  evalR fuel D a = Some b -> (b = true <-> holdsR D a).

Theorem evalRg_correct : forall D, wfD D -> forall fuel g b,
  evalRg fuel D g = Some b -> (b = true <-> satR D g).
Proof. exact Builtin.evalRg_correct. Qed.
Check evalRg_correct : forall D, wfD D -> forall fuel g b,
  evalRg fuel D g = Some b -> (b = true <-> satR D g).
