(** Property C06 — hypotheses and implied bounds yield exactly their consequences.
    [elab_*]: the worklist of [program_clauses_for_env] computes the least set closed under
    "a FromEnv atom names a trait/struct => its clauses belong to the set", within
    #datums + 2 rounds, whatever the iteration order of the hash sets.
    [sat_if_exact]: [if (H) { G }] is true in the declarative semantics of the program WITH
    all implied-bound rules exactly when the verified evaluator proves [G] from the core
    program plus the closure of the hypotheses ([eval_if]: [Some b] => [b] is the truth value).
    [env_scoped]: only the elaborated closure of the hypotheses matters; [if_scoped]: they do
    not reach goals outside their [if]. *)
From Chalk Require Import Rules.EnvElab.
From Coq Require Import Permutation.

Theorem elab_is_least_closed : forall (ds : list datum) (ord : list clause -> list clause),
  (forall l, Permutation (ord l) l) ->
  forall (fuel : nat) (H S : list clause), elab ds ord fuel H = Some S -> forall c, In c S <-> lc ds H c.
Proof. exact EnvElab.elab_is_least_closed. Qed.
Check elab_is_least_closed : forall (ds : list datum) (ord : list clause -> list clause),
  (forall l, Permutation (ord l) l) ->
  forall (fuel : nat) (H S : list clause), elab ds ord fuel H = Some S -> forall c, In c S <-> lc ds H c.

Theorem elab_terminates : forall (ds : list datum) (ord : list clause -> list clause) (H : list clause),
  exists S, elab ds ord (length ds + 2) H = Some S.
Proof. exact EnvElab.elab_terminates. Qed.
Check elab_terminates : forall (ds : list datum) (ord : list clause -> list clause) (H : list clause),
  exists S, elab ds ord (length ds + 2) H = Some S.

Theorem elab_order_irrelevant : forall (ds ds' : list datum) (ord ord' : list clause -> list clause)
    (fuel fuel' : nat) (H H' S S' : list clause),
  (forall l, Permutation (ord l) l) -> (forall l, Permutation (ord' l) l) ->
  Permutation ds ds' -> Permutation H H' ->
  elab ds ord fuel H = Some S -> elab ds' ord' fuel' H' = Some S' -> forall c, In c S <-> In c S'.
Proof. exact EnvElab.elab_order_irrelevant. Qed.
Check elab_order_irrelevant : forall (ds ds' : list datum) (ord ord' : list clause -> list clause)
    (fuel fuel' : nat) (H H' S S' : list clause),
  (forall l, Permutation (ord l) l) -> (forall l, Permutation (ord' l) l) ->
  Permutation ds ds' -> Permutation H H' ->
  elab ds ord fuel H = Some S -> elab ds' ord' fuel' H' = Some S' -> forall c, In c S <-> In c S'.

Theorem sat_if_exact : forall (fuel : nat) (s : rsys) (rho : list ty) (hs : list hyp) (g : goal) (b : bool),
  eval_if fuel s rho hs g = Some b -> (b = true <-> sat (full_program s) [] rho (GIf hs g)).
Proof. exact EnvElab.sat_if_exact. Qed.
Check sat_if_exact : forall (fuel : nat) (s : rsys) (rho : list ty) (hs : list hyp) (g : goal) (b : bool),
  eval_if fuel s rho hs g = Some b -> (b = true <-> sat (full_program s) [] rho (GIf hs g)).

Theorem env_scoped : forall (fuel fuel' : nat) (s : rsys) (rho : list ty) (hs hs' : list hyp) (g : goal)
    (CL : list ty) (E : list clause) (CL' : list ty) (E' : list clause),
  rsys_ok s = true -> nofe g = true ->
  elab_hyps fuel s (map (inst_hyp rho) hs) = Some (CL, E) ->
  elab_hyps fuel' s (map (inst_hyp rho) hs') = Some (CL', E') ->
  (forall a, In a CL <-> In a CL') -> peq E E' ->
  (sat (full_program s) [] rho (GIf hs g) <-> sat (full_program s) [] rho (GIf hs' g)).
Proof. exact EnvElab.env_scoped. Qed.
Check env_scoped : forall (fuel fuel' : nat) (s : rsys) (rho : list ty) (hs hs' : list hyp) (g : goal)
    (CL : list ty) (E : list clause) (CL' : list ty) (E' : list clause),
  rsys_ok s = true -> nofe g = true ->
  elab_hyps fuel s (map (inst_hyp rho) hs) = Some (CL, E) ->
  elab_hyps fuel' s (map (inst_hyp rho) hs') = Some (CL', E') ->
  (forall a, In a CL <-> In a CL') -> peq E E' ->
  (sat (full_program s) [] rho (GIf hs g) <-> sat (full_program s) [] rho (GIf hs' g)).

Theorem if_scoped : forall (P : program) (env : list clause) (rho : list ty) (hs : list hyp) (g1 g2 : goal),
  sat P env rho (GAnd (GIf hs g1) g2) <-> (sat P (map (inst_hyp rho) hs ++ env) rho g1 /\ sat P env rho g2).
Proof. exact EnvElab.if_scoped. Qed.
Check if_scoped : forall (P : program) (env : list clause) (rho : list ty) (hs : list hyp) (g1 g2 : goal),
  sat P env rho (GAnd (GIf hs g1) g2) <-> (sat P (map (inst_hyp rho) hs ++ env) rho g1 /\ sat P env rho g2).

Theorem sat_if_and_exact : forall (fuel : nat) (s : rsys) (rho : list ty) (hs : list hyp) (g1 g2 : goal) (b : bool),
  eval_if_and fuel s rho hs g1 g2 = Some b ->
  (b = true <-> sat (full_program s) [] rho (GAnd (GIf hs g1) g2)) /\
  (b = true <-> sat (full_program s) [] rho (GAnd g2 (GIf hs g1))).
Proof. exact EnvElab.sat_if_and_exact. Qed.
Check sat_if_and_exact : forall (fuel : nat) (s : rsys) (rho : list ty) (hs : list hyp) (g1 g2 : goal) (b : bool),
  eval_if_and fuel s rho hs g1 g2 = Some b ->
  (b = true <-> sat (full_program s) [] rho (GAnd (GIf hs g1) g2)) /\
  (b = true <-> sat (full_program s) [] rho (GAnd g2 (GIf hs g1))).
