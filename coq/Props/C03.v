(** Property C03 — SLG answer enumeration is sound, duplicate-free and complete; the
    'more answers follow' flag is accurate.
    Mechanism side (model of table.rs / forest.rs / logic.rs root_answer / solve.rs
    solve_multiple over an arbitrary stream of strand events): [push_answer_nodup],
    [yields_nodup], [flag_accurate] (+ [solve_multiple_prefix], [peek_answer_total]: the
    fuel of the model's inner loop is never exhausted).
    Contract side (relative to the declarative semantics): [enum_alarm_sound] — an alarm of
    the executable checker the check runs on the real enumerations means that the property's
    contract (each Definite item sound, no item twice up to renaming, a drained enumeration
    covers every solution) is really violated.  [enum_f14_refuted]: on the unchanged tree it
    IS violated inside the known class [f14_class] (DESIGN §5 F14). *)
From Chalk Require Import Engine.SlgTable.

Theorem push_answer_nodup : forall ops : list op, NoDup (map ta_key (t_answers (run_ops ops))).
Proof. exact SlgTable.push_answer_nodup. Qed.
Check push_answer_nodup : forall ops : list op, NoDup (map ta_key (t_answers (run_ops ops))).

Theorem yields_nodup : forall (k : nat) (evs : list event),
  NoDup (flat_map (fun y : yitem => item_csubs (item_of (fst y))) (fst (solve_multiple k evs))).
Proof. exact SlgTable.yields_nodup. Qed.
Check yields_nodup : forall (k : nat) (evs : list event),
  NoDup (flat_map (fun y : yitem => item_csubs (item_of (fst y))) (fst (solve_multiple k evs))).

Theorem flag_accurate : forall (k : nat) (evs : list event) (ys : list yitem) (f : fin),
  solve_multiple k evs = (ys, f) -> no_panic f ->
  forall i : nat, S i < k -> i < length ys -> (snd (nth i ys (None, false)) = true <-> S i < length ys).
Proof. exact SlgTable.flag_accurate. Qed.
Check flag_accurate : forall (k : nat) (evs : list event) (ys : list yitem) (f : fin),
  solve_multiple k evs = (ys, f) -> no_panic f ->
  forall i : nat, S i < k -> i < length ys -> (snd (nth i ys (None, false)) = true <-> S i < length ys).

Theorem flag_accurate_used : forall (k : nat) (t : table) (evs : list event) (ys : list yitem) (f : fin),
  tbl_ok t -> sm k (resume t evs) = (ys, f) -> no_panic f ->
  forall i : nat, S i < k -> i < length ys -> (snd (nth i ys (None, false)) = true <-> S i < length ys).
Proof. exact SlgTable.flag_accurate_used. Qed.
Check flag_accurate_used : forall (k : nat) (t : table) (evs : list event) (ys : list yitem) (f : fin),
  tbl_ok t -> sm k (resume t evs) = (ys, f) -> no_panic f ->
  forall i : nat, S i < k -> i < length ys -> (snd (nth i ys (None, false)) = true <-> S i < length ys).

Theorem yields_nodup_used : forall (k : nat) (t : table) (evs : list event),
  tbl_ok t ->
  NoDup (flat_map (fun y : yitem => item_csubs (item_of (fst y))) (fst (sm k (resume t evs)))).
Proof. exact SlgTable.yields_nodup_used. Qed.
Check yields_nodup_used : forall (k : nat) (t : table) (evs : list event),
  tbl_ok t ->
  NoDup (flat_map (fun y : yitem => item_csubs (item_of (fst y))) (fst (sm k (resume t evs)))).

Theorem solve_multiple_prefix : forall (k j : nat) (evs : list event),
  fst (solve_multiple k evs) = firstn k (fst (solve_multiple (k + j) evs)).
Proof. exact SlgTable.solve_multiple_prefix. Qed.
Check solve_multiple_prefix : forall (k j : nat) (evs : list event),
  fst (solve_multiple k evs) = firstn k (fst (solve_multiple (k + j) evs)).

Theorem peek_answer_total : forall (s : sstate) (r : pkres) (s' : sstate),
  inv s -> peek_answer s = (r, s') -> r <> POutOfFuel.
Proof. exact SlgTable.peek_answer_total. Qed.
Check peek_answer_total : forall (s : sstate) (r : pkres) (s' : sstate),
  inv s -> peek_answer s = (r, s') -> r <> POutOfFuel.

Theorem enum_alarm_sound : forall (fuel : nat) (P : program) (env : list clause) (q : query)
    (items : list eitem) (complete : bool) (cands : list (list ty)) (c : N),
  rr (allc P env) -> check_enum fuel P env q items complete cands = VAlarm c ->
  ~ enum_contract P env q items complete.
Proof. exact SlgTable.enum_alarm_sound. Qed.
Check enum_alarm_sound : forall (fuel : nat) (P : program) (env : list clause) (q : query)
    (items : list eitem) (complete : bool) (cands : list (list ty)) (c : N),
  rr (allc P env) -> check_enum fuel P env q items complete cands = VAlarm c ->
  ~ enum_contract P env q items complete.

Theorem enum_f14_refuted :
  f14_class ContractExamples.P14 ContractExamples.q14 = true /\
  ~ enum_contract ContractExamples.P14 [] ContractExamples.q14
      [EDefinite [0%N] [ContractExamples.S2 (TVar 0)]] true.
Proof. exact EnumExamples.enum_f14_refuted. Qed.
Check enum_f14_refuted :
  f14_class ContractExamples.P14 ContractExamples.q14 = true /\
  ~ enum_contract ContractExamples.P14 [] ContractExamples.q14
      [EDefinite [0%N] [ContractExamples.S2 (TVar 0)]] true.
