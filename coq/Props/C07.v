(** Property C07 — associated types normalize to the value of the applicable impl.
    Rule model [Rules/Assoc.v] of the clauses chalk generates for impls with associated type
    values and for associated type declarations (Normalize-From-Impl, AliasEq-Normalize,
    AliasEq-Placeholder), read by the declarative semantics of [Logic.Sem].
    [normalize_spec]: a Normalize atom holds iff the rule system (impl lookup, substitution,
    where clauses, nested projections related by AliasEq) derives it — all programs.
    [normalize_functional]: under coherence the value is unique (values without nested
    projections; with a nested projection its placeholder form is a second solution of the
    clauses: [nested_two_solutions], which is why SLG may answer Ambiguous there).
    [aliaseq_spec]: an alias equality accepts exactly the normalized value and the placeholder
    form.  [norm_value_sound] / [norm_value_none]: the executable normalizer the check
    compares the solvers with returns a solution / returns "no impl applies" only when there
    is no solution.  [with_priorities_prefers_high]: the recursive solver's combination
    prefers the high-priority (normalized) answer over the low-priority fallback for equal
    inputs, in both argument orders. *)
From Chalk Require Import Rules.Assoc.

Theorem normalize_spec : forall (P : aprog) (a : N) (X U : ty), H P (aNorm a X U) <-> normalizes P a X U.
Proof. exact Assoc.normalize_spec. Qed.
Check normalize_spec : forall (P : aprog) (a : N) (X U : ty), H P (aNorm a X U) <-> normalizes P a X U.

Theorem normalize_functional : forall (P : aprog) (tr_of : N -> N) (a : N) (X U1 U2 : ty),
  coherent P -> assoc_trait_ok P tr_of -> flat P ->
  normalizes P a X U1 -> normalizes P a X U2 -> U1 = U2.
Proof. exact Assoc.normalize_functional. Qed.
Check normalize_functional : forall (P : aprog) (tr_of : N -> N) (a : N) (X U1 U2 : ty),
  coherent P -> assoc_trait_ok P tr_of -> flat P ->
  normalizes P a X U1 -> normalizes P a X U2 -> U1 = U2.

Theorem aliaseq_spec : forall (P : aprog) (a : N) (X Y : ty),
  In a (ap_assocs P) -> ground X -> (H P (aAlias a X Y) <-> H P (aNorm a X Y) \/ Y = tPh a X).
Proof. exact Assoc.aliaseq_spec. Qed.
Check aliaseq_spec : forall (P : aprog) (a : N) (X Y : ty),
  In a (ap_assocs P) -> ground X -> (H P (aAlias a X Y) <-> H P (aNorm a X Y) \/ Y = tPh a X).

Theorem norm_value_sound : forall (P : aprog) (fe : nat), rr (assoc_clauses P) ->
  forall (fuel : nat) (a : N) (X v : ty), norm_value fuel fe P a X = Some (Some v) -> H P (aNorm a X v).
Proof. exact Assoc.norm_value_sound. Qed.
Check norm_value_sound : forall (P : aprog) (fe : nat), rr (assoc_clauses P) ->
  forall (fuel : nat) (a : N) (X v : ty), norm_value fuel fe P a X = Some (Some v) -> H P (aNorm a X v).

Theorem norm_value_none : forall (P : aprog) (fe : nat), rr (assoc_clauses P) ->
  forall (fuel : nat) (a : N) (X : ty), norm_value fuel fe P a X = Some None -> forall U : ty, ~ H P (aNorm a X U).
Proof. exact Assoc.norm_value_none. Qed.
Check norm_value_none : forall (P : aprog) (fe : nat), rr (assoc_clauses P) ->
  forall (fuel : nat) (a : N) (X : ty), norm_value fuel fe P a X = Some None -> forall U : ty, ~ H P (aNorm a X U).

Theorem with_priorities_prefers_high : forall dg hi lo ins,
  Agg.Solution.calculate_inputs dg hi = Ir.Syntax.Ok ins ->
  Agg.Solution.calculate_inputs dg lo = Ir.Syntax.Ok ins ->
  Agg.Solution.with_priorities dg hi Ir.Syntax.High lo Ir.Syntax.Low = Ir.Syntax.Ok (hi, Ir.Syntax.High) /\
  Agg.Solution.with_priorities dg lo Ir.Syntax.Low hi Ir.Syntax.High = Ir.Syntax.Ok (hi, Ir.Syntax.High).
Proof. exact Assoc.with_priorities_prefers_high. Qed.
Check with_priorities_prefers_high : forall dg hi lo ins,
  Agg.Solution.calculate_inputs dg hi = Ir.Syntax.Ok ins ->
  Agg.Solution.calculate_inputs dg lo = Ir.Syntax.Ok ins ->
  Agg.Solution.with_priorities dg hi Ir.Syntax.High lo Ir.Syntax.Low = Ir.Syntax.Ok (hi, Ir.Syntax.High) /\
  Agg.Solution.with_priorities dg lo Ir.Syntax.Low hi Ir.Syntax.High = Ir.Syntax.Ok (hi, Ir.Syntax.High).

Theorem nested_two_solutions :
  H AssocExamples.P (aNorm 1 AssocExamples.Bar AssocExamples.Foo) /\
  H AssocExamples.P (aNorm 1 AssocExamples.Bar (tPh 0 (AssocExamples.Vec AssocExamples.Foo))) /\
  ~ H AssocExamples.P (aNorm 1 AssocExamples.Bar AssocExamples.Baz).
Proof. exact AssocExamples.nested_two_solutions. Qed.
Check nested_two_solutions :
  H AssocExamples.P (aNorm 1 AssocExamples.Bar AssocExamples.Foo) /\
  H AssocExamples.P (aNorm 1 AssocExamples.Bar (tPh 0 (AssocExamples.Vec AssocExamples.Foo))) /\
  ~ H AssocExamples.P (aNorm 1 AssocExamples.Bar AssocExamples.Baz).
