(** C24 — parsing and lowering never crash (lowering half; the parser is exercised, not modelled). *)
From Coq Require Import List NArith Bool.
From Chalk Require Import Text.LowerFail Text.LowerFailFacts.

Theorem lower_no_panic : forall p s, lower fixed p <> Panic s.
Proof. exact Chalk.Text.LowerFailFacts.lower_no_panic. Qed.
Check lower_no_panic : forall p s, lower fixed p <> Panic s.

Theorem lower_goal_no_panic : forall p l gl s, lower fixed p = Ok l -> lower_goal_top fixed l gl <> Panic s.
Proof. exact Chalk.Text.LowerFailFacts.lower_goal_no_panic. Qed.
Check lower_goal_no_panic : forall p l gl s, lower fixed p = Ok l -> lower_goal_top fixed l gl <> Panic s.

Theorem lower_panics_F9_refuted : exists p, lower orig p = Panic S_assoc_lookup_impl.
Proof. exact Chalk.Text.LowerFailFacts.lower_panics_F9_refuted. Qed.
Check lower_panics_F9_refuted : exists p, lower orig p = Panic S_assoc_lookup_impl.

Theorem lower_panics_apply_refuted : exists p, lower orig p = Panic S_apply_foreign_or_trait.
Proof. exact Chalk.Text.LowerFailFacts.lower_panics_apply_refuted. Qed.
Check lower_panics_apply_refuted : exists p, lower orig p = Panic S_apply_foreign_or_trait.

Theorem introduce_class : forall pm bs,
  (introduce pm bs = Err DuplicateOrShadowedParameters <->
     ~ NoDup (map snd bs) \/ exists x, In x (map snd bs) /\ In x (map fst pm)) /\
  (forall e, introduce pm bs = Err e -> e = DuplicateOrShadowedParameters) /\
  (forall s, introduce pm bs <> Panic s).
Proof. exact Chalk.Text.LowerFailFacts.introduce_class. Qed.
Check introduce_class : forall pm bs,
  (introduce pm bs = Err DuplicateOrShadowedParameters <->
     ~ NoDup (map snd bs) \/ exists x, In x (map snd bs) /\ In x (map fst pm)) /\
  (forall e, introduce pm bs = Err e -> e = DuplicateOrShadowedParameters) /\
  (forall s, introduce pm bs <> Panic s).

Theorem lookup_trait_class : forall g pm n,
  (forall i, lookup_trait g pm n = Ok i <-> get N.eqb n g.(trait_ids) = Some i) /\
  (lookup_trait g pm n = Err NotTrait <->
     get N.eqb n g.(trait_ids) = None /\ (has N.eqb n pm = true \/ has N.eqb n g.(adt_ids) = true)) /\
  (lookup_trait g pm n = Err InvalidTraitName <->
     get N.eqb n g.(trait_ids) = None /\ has N.eqb n pm = false /\ has N.eqb n g.(adt_ids) = false).
Proof. exact Chalk.Text.LowerFailFacts.lookup_trait_class. Qed.
Check lookup_trait_class : forall g pm n,
  (forall i, lookup_trait g pm n = Ok i <-> get N.eqb n g.(trait_ids) = Some i) /\
  (lookup_trait g pm n = Err NotTrait <->
     get N.eqb n g.(trait_ids) = None /\ (has N.eqb n pm = true \/ has N.eqb n g.(adt_ids) = true)) /\
  (lookup_trait g pm n = Err InvalidTraitName <->
     get N.eqb n g.(trait_ids) = None /\ has N.eqb n pm = false /\ has N.eqb n g.(adt_ids) = false).

Theorem lookup_generic_arg_unknown : forall g pm n,
  genv_ok g ->
  (lookup_generic_arg g pm n = Err InvalidParameterName <-> lookup_type g pm n = None) /\
  (lookup_generic_arg g pm n = Err NotStruct <-> exists i, lookup_type g pm n = Some (LTrait i)).
Proof. exact Chalk.Text.LowerFailFacts.lookup_generic_arg_unknown. Qed.
Check lookup_generic_arg_unknown : forall g pm n,
  genv_ok g ->
  (lookup_generic_arg g pm n = Err InvalidParameterName <-> lookup_type g pm n = None) /\
  (lookup_generic_arg g pm n = Err NotStruct <-> exists i, lookup_type g pm n = Some (LTrait i)).

Theorem lower_auto_assoc : forall c p,
  (exists name vks wcs assocs, In (ITrait name vks true wcs assocs) p /\ assocs <> nil) ->
  cls_of (lower c p) = CErr AutoTraitAssociatedTypes.
Proof. exact Chalk.Text.LowerFailFacts.lower_auto_assoc. Qed.
Check lower_auto_assoc : forall c p,
  (exists name vks wcs assocs, In (ITrait name vks true wcs assocs) p /\ assocs <> nil) ->
  cls_of (lower c p) = CErr AutoTraitAssociatedTypes.
