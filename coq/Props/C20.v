(* C20 -- The orphan check implements the orphan rules.
   Model and proofs: Rules/Orphan.v.  In `holds fv_fix up_fix flags trait_upstream goal` the code
   as it is after the fix: commit is fv_fix = true, up_fix = false. *)
From Coq Require Import List NArith Bool.
Import ListNotations.
From Chalk Require Import Rules.Orphan.

(* Derivability of LocalImplAllowed from the generated clauses = the structural rule:
   the trait is local, or some argument is local (through fundamental constructors) and every
   argument before it mentions no impl type parameter. *)
Theorem orphan_spec :
  forall (up_fix : bool) (flags : N -> adt_decl) (trait_upstream : bool) (args : list ty),
    holds true up_fix flags trait_upstream (LocalImplAllowed args) <-> orphan_rule flags trait_upstream args.
Proof. exact (fun b f u a => Orphan.orphan_spec true b f u eq_refl a). Qed.

(* the executable evaluator the correspondence run compares with the real orphan check *)
Theorem orphan_check_spec :
  forall (up_fix : bool) (flags : N -> adt_decl) (trait_upstream : bool) (args : list ty),
    orphan_check true up_fix flags trait_upstream args = true <-> orphan_rule flags trait_upstream args.
Proof. exact (fun b f u a => Orphan.orphan_check_spec true b f u eq_refl a). Qed.

(* the orphan check as the solvers run it (they give up on a type with more than max_size nodes,
   and giving up counts as passing): exactly the rule outside the recorded size class ... *)
Theorem orphan_partial :
  forall (up_fix : bool) (flags : N -> adt_decl) (trait_upstream : bool) (max_size : nat) (args : list ty),
    size_known_class max_size args = false ->
    (orphan_check_sized true up_fix flags trait_upstream max_size args = true <-> orphan_rule flags trait_upstream args).
Proof. exact (fun b f u m a => Orphan.orphan_partial true b f u eq_refl m a). Qed.

(* ... and inside it an impl the rule rejects passes (all-upstream self type of 11 nodes, SLG) *)
Theorem orphan_size_refuted :
  exists x : oinput, size_class_slg_data x = true /\ orphan_check_slg_data x = true /\ orphan_rule_data x = false.
Proof. exact Orphan.orphan_size_refuted. Qed.

(* builtin types and tuples of fully visible types are fully visible *)
Theorem fully_visible_spec :
  forall (up_fix : bool) (flags : N -> adt_decl) (trait_upstream : bool) (t : ty),
    holds true up_fix flags trait_upstream (IsFullyVisible t) <-> no_params t = true.
Proof. exact (fun b f u t => Orphan.fully_visible_spec true b f u eq_refl t). Qed.

Theorem local_spec :
  forall (fv_fix up_fix : bool) (flags : N -> adt_decl) (trait_upstream : bool) (t : ty),
    holds fv_fix up_fix flags trait_upstream (IsLocal t) <-> local_ty flags t = true.
Proof. exact Orphan.local_spec. Qed.

(* builtin types count as upstream: for the code as it is, outside the recorded class *)
Theorem upstream_partial :
  forall (fv_fix : bool) (flags : N -> adt_decl) (trait_upstream : bool) (t : ty),
    up_known_class flags t = false ->
    (holds fv_fix false flags trait_upstream (IsUpstream t) <-> upstream_ty flags t = true).
Proof. exact (fun v f u t => Orphan.upstream_partial v false f u t). Qed.

(* ... and inside the class it fails (IsUpstream(u32) is not derivable) *)
Theorem upstream_refuted :
  exists x : ginput, known_class_data x = true /\ solve_data x = false /\ expect_data x = true.
Proof. exact Orphan.upstream_refuted. Qed.

(* F6: before the fix `impl Remote<Local> for u32` is rejected although the rule allows it *)
Theorem orphan_refuted :
  exists x : oinput, orphan_check_orig_data x = false /\ orphan_rule_data x = true.
Proof. exact Orphan.orphan_refuted. Qed.

Check orphan_spec :
  forall (up_fix : bool) (flags : N -> adt_decl) (trait_upstream : bool) (args : list ty),
    holds true up_fix flags trait_upstream (LocalImplAllowed args) <-> orphan_rule flags trait_upstream args.
