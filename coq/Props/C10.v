(** Property C10 — answers do not depend on what the same solver solved before; the recursive
    solver gives the same answers with its cache enabled or disabled.
    Only the property theorems.  Model: Engine/RecEngine.v (faithful mechanism model of
    chalk-recursive's [RecursiveContext<K,V>], compared with the real generic engine on every
    run).  Proofs: Engine/RecInv.v, RecEval.v, RecSolve.v, RecTheorems.v; witnesses:
    Engine/RecWitness.v.  [repaired] is the engine with the three repairs (F3, F4, F15). *)
From Chalk Require Import Engine.SlgForest.
From Chalk Require Import Engine.RecTheorems Engine.AndOrEval.

(** Every cache entry is the declarative (three-valued) value of its goal, after ANY history of
    root solves -- interrupted, panicking or complete -- for every and-or graph without mixed
    cycles, every configuration, every schedule. *)
Theorem rec_cache_exact : forall G cf fuel h,
  wf G -> ~ mixed_cycle G -> vr cf = repaired -> in_graph G h ->
  forall g v, cache_get (cache (snd (run G cf fuel h init_state))) g = Some v -> sem G g v.
Proof. intros G cf fuel h Hwf Hnm. exact (rec_cache_exact_lemma G Hwf Hnm cf fuel h). Qed.

(** An uninterrupted root solve after any history answers the declarative value of the goal;
    on two-valued graphs it is never ambiguous. *)
Theorem rec_ground_exact : forall G cf fuel h fuel' g v s',
  wf G -> ~ mixed_cycle G -> two_valued G -> vr cf = repaired -> in_graph G h -> g < length G ->
  solve_root G cf fuel' g (after G cf fuel h) = Done v s' -> quiet cf (after G cf fuel h) s' ->
  sem G g v /\ v <> Amb.
Proof. intros G cf fuel h fuel' g v s' Hwf Hnm H2. exact (rec_ground_exact_lemma G Hwf Hnm cf fuel h fuel' g v s' H2). Qed.

(** Two uninterrupted root solves of the same goal agree, whatever histories the two contexts
    have seen (in particular: any history versus a fresh context), for any two configurations
    of the repaired engine. *)
Theorem rec_history_independent : forall G cf1 cf2 fuel1 h1 fuel2 h2 f1 f2 g v1 v2 s1 s2,
  wf G -> ~ mixed_cycle G -> vr cf1 = repaired -> vr cf2 = repaired ->
  in_graph G h1 -> in_graph G h2 -> g < length G ->
  solve_root G cf1 f1 g (after G cf1 fuel1 h1) = Done v1 s1 -> quiet cf1 (after G cf1 fuel1 h1) s1 ->
  solve_root G cf2 f2 g (after G cf2 fuel2 h2) = Done v2 s2 -> quiet cf2 (after G cf2 fuel2 h2) s2 ->
  v1 = v2.
Proof.
  intros G cf1 cf2 fuel1 h1 fuel2 h2 f1 f2 g v1 v2 s1 s2 Hwf Hnm.
  exact (rec_history_independent_lemma G Hwf Hnm cf1 cf2 fuel1 h1 fuel2 h2 f1 f2 g v1 v2 s1 s2).
Qed.

(** Cache enabled versus disabled, on fresh contexts. *)
Theorem rec_cache_off_same : forall G cf1 cf2 f1 f2 g v1 v2 s1 s2,
  wf G -> ~ mixed_cycle G -> vr cf1 = repaired -> vr cf2 = repaired ->
  caching cf1 = true -> caching cf2 = false -> g < length G ->
  solve_root G cf1 f1 g init_state = Done v1 s1 -> quiet cf1 init_state s1 ->
  solve_root G cf2 f2 g init_state = Done v2 s2 -> quiet cf2 init_state s2 ->
  v1 = v2.
Proof.
  intros G cf1 cf2 f1 f2 g v1 v2 s1 s2 Hwf Hnm V1 V2 _ _ Hg R1 Q1 R2 Q2.
  exact (rec_history_independent_lemma G Hwf Hnm cf1 cf2 0 [] 0 [] f1 f2 g v1 v2 s1 s2 V1 V2
           (fun _ H => match H with end) (fun _ H => match H with end) Hg R1 Q1 R2 Q2).
Qed.

(** The executable evaluator the checks use as the oracle on and-or graphs (the real engine's
    cache contents and answers are compared with it on every run) computes exactly the
    declarative value the theorems above talk about. *)
Theorem andor_eval_correct : forall G n, sem G n (eval G n).
Proof. exact AndOrEval.eval_correct. Qed.

(** F15 on the faithful model of the UNCHANGED engine: a history changes the answer. *)
Theorem rec_history_refuted :
  exists G h g,
    answer G (RecWitness.cfg unchanged [] []) 100 (h ++ [g]) init_state = Some (OVal No) /\
    answer G (RecWitness.cfg unchanged [] []) 100 [g] init_state = Some (OVal Amb) /\
    eval G g = Amb /\ mixed_cycleb G = false.
Proof. exact RecWitness.rec_history_refuted. Qed.

(** Known class F27 (mixed inductive/coinductive cycles, the hypothesis the theorems exclude),
    on the REPAIRED engine. *)
Theorem rec_history_mixed_refuted :
  exists G h g,
    mixed_cycleb G = true /\
    answer G (RecWitness.cfg repaired [] []) 100 (h ++ [g]) init_state = Some (OVal No) /\
    answer G (RecWitness.cfg repaired [] []) 100 [g] init_state = Some (OVal Yes).
Proof. exact RecWitness.rec_history_mixed_refuted. Qed.

(** SLG, table layer (Engine/SlgForest.v on top of Engine/SlgTable.v): across ANY history of
    root calls on one solver -- each abstracted into the list of table operations its strands
    perform (new table / [push_answer] / [mark_floundered]), cut short by a panic anywhere --
    the forest only grows, every table keeps its index, a floundered table stays floundered,
    the answers of a table that is not floundered afterwards extend what was stored before
    (same answer indices), duplicate-detection keys are never forgotten, and every table keeps
    its invariant.  (Which answers the strands find is not modelled: F7 lives there.) *)
Theorem slg_tables_monotone : forall h F,
  forest_ok F -> fmono F (run_history F h) /\ forest_ok (run_history F h).
Proof. exact slg_tables_monotone_lemma. Qed.

Theorem slg_answer_persists : forall F h i t j a,
  forest_ok F -> nth_error F i = Some t -> nth_error (t_answers t) j = Some a ->
  exists t', nth_error (run_history F h) i = Some t' /\
             (t_floundered t' = false -> nth_error (t_answers t') j = Some a).
Proof. exact slg_answer_persists_lemma. Qed.
