(** Property C10 — answers do not depend on what the same solver solved before.
    Only the property theorems; model: Engine/RecEngine.v, proofs: Engine/RecWitness.v (and
    Engine/RecProof.v). *)
From Chalk Require Import Engine.RecEngine Engine.RecWitness.

(** F15 on the faithful model of the UNCHANGED engine: a history changes the answer. *)
Theorem rec_history_refuted :
  exists G h g,
    answer G (cfg unchanged [] []) 100 (h ++ [g]) init_state = Some (OVal No) /\
    answer G (cfg unchanged [] []) 100 [g] init_state = Some (OVal Amb) /\
    eval G g = Amb /\ mixed_cycleb G = false.
Proof. exact RecWitness.rec_history_refuted. Qed.

(** Known class F27 (mixed inductive/coinductive cycles), on the REPAIRED engine. *)
Theorem rec_history_mixed_refuted :
  exists G h g,
    mixed_cycleb G = true /\
    answer G (cfg repaired [] []) 100 (h ++ [g]) init_state = Some (OVal No) /\
    answer G (cfg repaired [] []) 100 [g] init_state = Some (OVal Yes).
Proof. exact RecWitness.rec_history_mixed_refuted. Qed.
