(** Property C14 — unification is sound and computes most general unifiers.
    Only the property theorems; models and proofs are in
    Infer/{Table,Unify,Sound,Complete,Complete2,Complete3,Complete4,Complete5,Exact}.v.

    Soundness, on the property's fragment ([pfrag]: ADTs with their arities, tuples, slices,
    references, raw pointers, scalars, integer / float / general unknowns, placeholders;
    lifetimes: unknowns, placeholders, 'static, erased), invariant relation, after any history
    ([inv K U t] are the invariants every successful relate re-establishes; [K] / [U] are ghost
    kinds and universes: [U v] is the universe of an unbound [v], and for a bound [v] a universe
    from which every placeholder and every (non int/float) unknown of its value is visible).
    On success:
      - [step]: the new table extends the old one (bindings and class equalities are kept, no
        variable disappears) and universes only drop ([U' v <= U v]) — with [inv K' U' t'] this is
        "respects universes";
      - [teq t' gs a b]: the two types are equal under the new bindings up to the lifetime pairs
        related in both directions by the returned goals.
    [relate_sound_any_variance] is the same for EVERY variance (in particular the covariant
    relation of lifetime-free types) with the weaker [teqm true]: lifetimes related in at least
    one direction by a returned outlives goal, unknowns related by a returned subtype goal.
    Completeness / MGU: the full statement is [Infer.Complete.relate_complete_mgu_statement]
    (NOT proved).  Proved steps towards it, all for ground unifiers [θ] that respect universes
    ([solves θ t]: θ is a solution of the table), lifetime-free types, general unknowns:
      - [relate_complete_partial]: pattern vs ground type, table without unions;
      - [relate_complete_matching]: pattern vs ground type, table with prior bindings and unions;
      - [relate_complete_two_sided]: unknowns on both sides (var/var unions, occurs check with
        promotion), raw pointers excluded.
    In each, [relate] succeeds without goals and [θ] solves the resulting table (every such
    unifier factors through the result).  Conversely ([relate_unifiers_exact], from soundness read
    in the term model): every ground solution of the resulting table solves the initial table and
    unifies the two types — so the result represents EXACTLY the set of ground unifiers (the
    semantic content of "most general"), and ([relate_nosol_no_unifier]) a failing [relate] means
    that no ground unifier exists.  [relate_sound_unifier] is soundness read on ground solutions
    (raw pointers allowed).
    Integer / float kinds: [relate_complete_matching_numeric] (one-sided matching with integer /
    float unknowns anywhere in the pattern), [relate_complete_two_sided_numeric] (unknowns on both
    sides, all of them integer / float) and the three var leaf cases
    ([relate_complete_numeric_scalar], [_numeric_var_var], [_general_numeric], each in isolation).
    OPEN: general and integer / float unknowns MEETING in one two-sided problem (the state
    "general unknown bound to an integer unknown"); lifetimes (goals) in the completeness
    theorems; raw pointers on two-sided problems (generalisation creates a fresh unknown);
    non-ground unifiers (only the set of ground unifiers is characterised). *)
From Chalk Require Import Ir.Syntax Infer.Table Infer.Unify Infer.Sound Infer.Complete Infer.Complete2 Infer.Complete3 Infer.Complete4 Infer.Complete5 Infer.Exact.

Theorem relate_sound : forall ar adt_var fn_var fuel a b t gs t' K U,
  inv ar K U t -> okt ar K t a -> okt ar K t b ->
  relate adt_var fn_var fuel Invariant a b t = (Done gs, t') ->
  exists K' U', inv ar K' U' t' /\ step K U t K' U' t' /\ teq t' gs a b.
Proof. exact relate_sound_lemma. Qed.
Check relate_sound : forall ar adt_var fn_var fuel a b t gs t' K U,
  inv ar K U t -> okt ar K t a -> okt ar K t b ->
  relate adt_var fn_var fuel Invariant a b t = (Done gs, t') ->
  exists K' U', inv ar K' U' t' /\ step K U t K' U' t' /\ teq t' gs a b.

(** The meaning of [teq]: in every model of the table and of the returned goals (unknowns valued
    so that a bound unknown denotes its value, unknowns of one class denote the same thing, two
    lifetimes related in both directions by the goals denote the same thing) the two related
    terms have the same denotation. *)
Theorem teq_sound_in_models : forall (D : Type) (app : head -> list D -> D) (bvar : sort -> N -> N -> D) (cvar : N -> N -> D -> D)
    (val : N -> D) (t : table) (gs : list tm),
  (forall v x, bound_to t v x -> val v = den D app bvar cvar val x) ->
  (forall v w, same_class t v w -> val v = val w) ->
  (forall a b, kind_of a = KLt -> kind_of b = KLt -> In (outlives_goal a b) gs -> In (outlives_goal b a) gs ->
               den D app bvar cvar val a = den D app bvar cvar val b) ->
  forall a b, teq t gs a b -> den D app bvar cvar val a = den D app bvar cvar val b.
Proof. exact teq_model. Qed.
Check teq_sound_in_models : forall (D : Type) (app : head -> list D -> D) (bvar : sort -> N -> N -> D) (cvar : N -> N -> D -> D)
    (val : N -> D) (t : table) (gs : list tm),
  (forall v x, bound_to t v x -> val v = den D app bvar cvar val x) ->
  (forall v w, same_class t v w -> val v = val w) ->
  (forall a b, kind_of a = KLt -> kind_of b = KLt -> In (outlives_goal a b) gs -> In (outlives_goal b a) gs ->
               den D app bvar cvar val a = den D app bvar cvar val b) ->
  forall a b, teq t gs a b -> den D app bvar cvar val a = den D app bvar cvar val b.

Theorem relate_sound_any_variance : forall ar adt_var fn_var fuel v a b t gs t' K U,
  inv ar K U t -> okt ar K t a -> okt ar K t b ->
  relate adt_var fn_var fuel v a b t = (Done gs, t') ->
  exists K' U', inv ar K' U' t' /\ step K U t K' U' t' /\ teqm true t' gs a b.
Proof. exact relate_sound_any_variance_lemma. Qed.
Check relate_sound_any_variance : forall ar adt_var fn_var fuel v a b t gs t' K U,
  inv ar K U t -> okt ar K t a -> okt ar K t b ->
  relate adt_var fn_var fuel v a b t = (Done gs, t') ->
  exists K' U', inv ar K' U' t' /\ step K U t K' U' t' /\ teqm true t' gs a b.

(** The meaning of [teqm m] (both modes): equal denotation in every model in which bound unknowns
    denote their values, unknowns of one class coincide, lifetimes related by the goals (in both
    directions if [m = false], in one if [m = true]) coincide and, if [m = true], the two sides of
    every returned subtype goal coincide. *)
Theorem teqm_sound_in_models : forall (D : Type) (app : head -> list D -> D) (bvar : sort -> N -> N -> D) (cvar : N -> N -> D -> D)
    (val : N -> D) (t : table) (gs : list tm),
  (forall v x, bound_to t v x -> val v = den D app bvar cvar val x) ->
  (forall v w, same_class t v w -> val v = val w) ->
  forall m : bool,
  (forall a b, kind_of a = KLt -> kind_of b = KLt -> In (outlives_goal a b) gs -> (m = false -> In (outlives_goal b a) gs) ->
               den D app bvar cvar val a = den D app bvar cvar val b) ->
  (m = true -> forall a b, In (subtype_goal a b) gs -> den D app bvar cvar val a = den D app bvar cvar val b) ->
  forall a b, teqm m t gs a b -> den D app bvar cvar val a = den D app bvar cvar val b.
Proof. exact teqm_model. Qed.
Check teqm_sound_in_models : forall (D : Type) (app : head -> list D -> D) (bvar : sort -> N -> N -> D) (cvar : N -> N -> D -> D)
    (val : N -> D) (t : table) (gs : list tm),
  (forall v x, bound_to t v x -> val v = den D app bvar cvar val x) ->
  (forall v w, same_class t v w -> val v = val w) ->
  forall m : bool,
  (forall a b, kind_of a = KLt -> kind_of b = KLt -> In (outlives_goal a b) gs -> (m = false -> In (outlives_goal b a) gs) ->
               den D app bvar cvar val a = den D app bvar cvar val b) ->
  (m = true -> forall a b, In (subtype_goal a b) gs -> den D app bvar cvar val a = den D app bvar cvar val b) ->
  forall a b, teqm m t gs a b -> den D app bvar cvar val a = den D app bvar cvar val b.

Theorem relate_complete_partial : forall adt_var fn_var θ fuel a t,
  pattern a = true -> (Closed.depth (app_subst θ a) < fuel)%nat -> mstate θ t -> (forall v, In v (pvars a) -> v < nvars t) ->
  exists t', relate adt_var fn_var fuel Invariant a (app_subst θ a) t = (Done [], t')
             /\ nvars t' = nvars t /\ pext t t' /\ mstate θ t' /\ (forall v, In v (pvars a) -> bound_to t' v (θ v)).
Proof. exact relate_complete_partial_lemma. Qed.
Check relate_complete_partial : forall adt_var fn_var θ fuel a t,
  pattern a = true -> (Closed.depth (app_subst θ a) < fuel)%nat -> mstate θ t -> (forall v, In v (pvars a) -> v < nvars t) ->
  exists t', relate adt_var fn_var fuel Invariant a (app_subst θ a) t = (Done [], t')
             /\ nvars t' = nvars t /\ pext t t' /\ mstate θ t' /\ (forall v, In v (pvars a) -> bound_to t' v (θ v)).

Theorem relate_complete_matching : forall adt_var fn_var θ fuel a t,
  pattern a = true -> (Closed.depth (app_subst θ a) < fuel)%nat -> solves θ t -> (forall v, In v (pvars a) -> v < nvars t) ->
  exists t', relate adt_var fn_var fuel Invariant a (app_subst θ a) t = (Done [], t')
             /\ solves θ t' /\ nvars t' = nvars t /\ pext t t'.
Proof. exact relate_complete_matching_lemma. Qed.
Check relate_complete_matching : forall adt_var fn_var θ fuel a t,
  pattern a = true -> (Closed.depth (app_subst θ a) < fuel)%nat -> solves θ t -> (forall v, In v (pvars a) -> v < nvars t) ->
  exists t', relate adt_var fn_var fuel Invariant a (app_subst θ a) t = (Done [], t')
             /\ solves θ t' /\ nvars t' = nvars t /\ pext t t'.

Theorem relate_complete_two_sided : forall adt_var fn_var θ fuel a b t,
  pattern a = true -> pattern b = true -> noraw a = true -> noraw b = true ->
  (forall v, In v (pvars a) -> v < nvars t) -> (forall v, In v (pvars b) -> v < nvars t) ->
  app_subst θ a = app_subst θ b -> (2 * Closed.depth (app_subst θ a) < fuel)%nat -> solves θ t -> traw t ->
  exists t', relate adt_var fn_var fuel Invariant a b t = (Done [], t')
             /\ solves θ t' /\ traw t' /\ nvars t' = nvars t /\ pext t t'.
Proof. exact relate_complete_two_sided_lemma. Qed.
Check relate_complete_two_sided : forall adt_var fn_var θ fuel a b t,
  pattern a = true -> pattern b = true -> noraw a = true -> noraw b = true ->
  (forall v, In v (pvars a) -> v < nvars t) -> (forall v, In v (pvars b) -> v < nvars t) ->
  app_subst θ a = app_subst θ b -> (2 * Closed.depth (app_subst θ a) < fuel)%nat -> solves θ t -> traw t ->
  exists t', relate adt_var fn_var fuel Invariant a b t = (Done [], t')
             /\ solves θ t' /\ traw t' /\ nvars t' = nvars t /\ pext t t'.

(** Soundness read on ground solutions (lifetime-free patterns with general unknowns, raw
    pointers allowed): every ground universe-respecting solution of the resulting table is a
    solution of the initial table and makes the two types equal. *)
Theorem relate_sound_unifier : forall ar θ adt_var fn_var fuel a b t t' K U,
  inv ar K U t -> okt ar K t a -> okt ar K t b -> pattern a = true -> pattern b = true ->
  relate adt_var fn_var fuel Invariant a b t = (Done [], t') ->
  solves θ t' -> solves θ t /\ app_subst θ a = app_subst θ b.
Proof. exact relate_sound_unifier_lemma. Qed.
Check relate_sound_unifier : forall ar θ adt_var fn_var fuel a b t t' K U,
  inv ar K U t -> okt ar K t a -> okt ar K t b -> pattern a = true -> pattern b = true ->
  relate adt_var fn_var fuel Invariant a b t = (Done [], t') ->
  solves θ t' -> solves θ t /\ app_subst θ a = app_subst θ b.

(** Exactness (lifetime-free types, general unknowns, no raw pointers): after a successful
    [relate] without residual goals, the ground universe-respecting solutions of the resulting
    table are exactly the solutions of the initial table that unify [a] and [b]. *)
Theorem relate_unifiers_exact : forall ar adt_var fn_var fuel a b t t' K U,
  inv ar K U t -> okt ar K t a -> okt ar K t b ->
  pattern a = true -> pattern b = true -> noraw a = true -> noraw b = true -> traw t ->
  relate adt_var fn_var fuel Invariant a b t = (Done [], t') ->
  forall θ, (solves θ t' -> solves θ t /\ app_subst θ a = app_subst θ b)
         /\ (solves θ t -> app_subst θ a = app_subst θ b -> (2 * Closed.depth (app_subst θ a) < fuel)%nat -> solves θ t').
Proof. exact relate_unifiers_exact_lemma. Qed.
Check relate_unifiers_exact : forall ar adt_var fn_var fuel a b t t' K U,
  inv ar K U t -> okt ar K t a -> okt ar K t b ->
  pattern a = true -> pattern b = true -> noraw a = true -> noraw b = true -> traw t ->
  relate adt_var fn_var fuel Invariant a b t = (Done [], t') ->
  forall θ, (solves θ t' -> solves θ t /\ app_subst θ a = app_subst θ b)
         /\ (solves θ t -> app_subst θ a = app_subst θ b -> (2 * Closed.depth (app_subst θ a) < fuel)%nat -> solves θ t').

(** If [relate] answers [NoSolution], no ground solution of the table unifies the two types. *)
Theorem relate_nosol_no_unifier : forall adt_var fn_var fuel a b t t' θ,
  pattern a = true -> pattern b = true -> noraw a = true -> noraw b = true ->
  (forall v, In v (pvars a) -> v < nvars t) -> (forall v, In v (pvars b) -> v < nvars t) -> traw t ->
  relate adt_var fn_var fuel Invariant a b t = (NoSol, t') ->
  solves θ t -> (2 * Closed.depth (app_subst θ a) < fuel)%nat -> app_subst θ a <> app_subst θ b.
Proof. exact relate_nosol_no_unifier_lemma. Qed.
Check relate_nosol_no_unifier : forall adt_var fn_var fuel a b t t' θ,
  pattern a = true -> pattern b = true -> noraw a = true -> noraw b = true ->
  (forall v, In v (pvars a) -> v < nvars t) -> (forall v, In v (pvars b) -> v < nvars t) -> traw t ->
  relate adt_var fn_var fuel Invariant a b t = (NoSol, t') ->
  solves θ t -> (2 * Closed.depth (app_subst θ a) < fuel)%nat -> app_subst θ a <> app_subst θ b.

(** Matching with unknowns of ANY kind in the pattern ([npattern]; [kinds_ok]: [θ] maps integer /
    float unknowns to integer / float scalar types): as [relate_complete_matching]. *)
Theorem relate_complete_matching_numeric : forall adt_var fn_var θ fuel a t,
  npattern a = true -> kinds_ok θ a = true -> (Closed.depth (napp θ a) < fuel)%nat -> solves θ t ->
  (forall v, In v (nvars_of a) -> v < nvars t) ->
  exists t', relate adt_var fn_var fuel Invariant a (napp θ a) t = (Done [], t')
             /\ solves θ t' /\ nvars t' = nvars t /\ pext t t'.
Proof. exact relate_complete_matching_numeric_lemma. Qed.
Check relate_complete_matching_numeric : forall adt_var fn_var θ fuel a t,
  npattern a = true -> kinds_ok θ a = true -> (Closed.depth (napp θ a) < fuel)%nat -> solves θ t ->
  (forall v, In v (nvars_of a) -> v < nvars t) ->
  exists t', relate adt_var fn_var fuel Invariant a (napp θ a) t = (Done [], t')
             /\ solves θ t' /\ nvars t' = nvars t /\ pext t t'.

(** Unknowns on BOTH sides, all integer / float ([numpat]; no general unknown; [tnum]: bound
    values of the table are ground): unions of numeric unknowns and bindings to scalars. *)
Theorem relate_complete_two_sided_numeric : forall adt_var fn_var θ fuel a b t,
  numpat a = true -> numpat b = true -> kinds_ok θ a = true -> kinds_ok θ b = true ->
  (forall v, In v (nvars_of a) -> v < nvars t) -> (forall v, In v (nvars_of b) -> v < nvars t) ->
  napp θ a = napp θ b -> (Closed.depth (napp θ a) < fuel)%nat -> solves θ t -> tnum t ->
  exists t', relate adt_var fn_var fuel Invariant a b t = (Done [], t')
             /\ solves θ t' /\ tnum t' /\ nvars t' = nvars t /\ pext t t'.
Proof. exact relate_complete_two_sided_numeric_lemma. Qed.
Check relate_complete_two_sided_numeric : forall adt_var fn_var θ fuel a b t,
  numpat a = true -> numpat b = true -> kinds_ok θ a = true -> kinds_ok θ b = true ->
  (forall v, In v (nvars_of a) -> v < nvars t) -> (forall v, In v (nvars_of b) -> v < nvars t) ->
  napp θ a = napp θ b -> (Closed.depth (napp θ a) < fuel)%nat -> solves θ t -> tnum t ->
  exists t', relate adt_var fn_var fuel Invariant a b t = (Done [], t')
             /\ solves θ t' /\ tnum t' /\ nvars t' = nvars t /\ pext t t'.

(** An unbound integer (float) unknown related with an integer (float) scalar is bound to it. *)
Theorem relate_complete_numeric_scalar : forall adt_var fn_var f v k s t c u vr,
  numeric_kind k = true -> scalar_of_kind k s = true -> get t v = Some c -> cval c = Unbound u ->
  relate adt_var fn_var (S (S (S f))) vr (Node (HInfer v k) []) (Node (HScalar s) []) t
  = (Done [], set_value (ccls c) (Bound (Node (HScalar s) [])) t).
Proof. exact relate_complete_numeric_scalar_lemma. Qed.
Check relate_complete_numeric_scalar : forall adt_var fn_var f v k s t c u vr,
  numeric_kind k = true -> scalar_of_kind k s = true -> get t v = Some c -> cval c = Unbound u ->
  relate adt_var fn_var (S (S (S f))) vr (Node (HInfer v k) []) (Node (HScalar s) []) t
  = (Done [], set_value (ccls c) (Bound (Node (HScalar s) [])) t).

(** Two unbound unknowns of the same numeric kind are unioned, keeping the smaller universe. *)
Theorem relate_complete_numeric_var_var : forall adt_var fn_var f v1 v2 k t c1 c2 u1 u2 vr,
  numeric_kind k = true -> get t v1 = Some c1 -> cval c1 = Unbound u1 -> get t v2 = Some c2 -> cval c2 = Unbound u2 ->
  ccls c1 <> ccls c2 ->
  relate adt_var fn_var (S f) vr (Node (HInfer v1 k) []) (Node (HInfer v2 k) []) t
  = (Done [], merge (ccls c1) (ccls c2) (Unbound (N.min u1 u2)) t).
Proof. exact relate_complete_numeric_var_var_lemma. Qed.
Check relate_complete_numeric_var_var : forall adt_var fn_var f v1 v2 k t c1 c2 u1 u2 vr,
  numeric_kind k = true -> get t v1 = Some c1 -> cval c1 = Unbound u1 -> get t v2 = Some c2 -> cval c2 = Unbound u2 ->
  ccls c1 <> ccls c2 ->
  relate adt_var fn_var (S f) vr (Node (HInfer v1 k) []) (Node (HInfer v2 k) []) t
  = (Done [], merge (ccls c1) (ccls c2) (Unbound (N.min u1 u2)) t).

(** An unbound general unknown related with an unbound integer / float unknown (either order) is bound to it. *)
Theorem relate_complete_general_numeric : forall adt_var fn_var f v1 v2 k t c1 u1 vr,
  numeric_kind k = true -> get t v1 = Some c1 -> cval c1 = Unbound u1 -> probe_tm t (Node (HInfer v2 k) []) = None ->
  relate adt_var fn_var (S f) vr (Node (HInfer v1 General) []) (Node (HInfer v2 k) []) t
  = (Done [], set_value (ccls c1) (Bound (Node (HInfer v2 k) [])) t)
  /\ relate adt_var fn_var (S f) vr (Node (HInfer v2 k) []) (Node (HInfer v1 General) []) t
     = (Done [], set_value (ccls c1) (Bound (Node (HInfer v2 k) [])) t).
Proof. exact relate_complete_general_numeric_lemma. Qed.
Check relate_complete_general_numeric : forall adt_var fn_var f v1 v2 k t c1 u1 vr,
  numeric_kind k = true -> get t v1 = Some c1 -> cval c1 = Unbound u1 -> probe_tm t (Node (HInfer v2 k) []) = None ->
  relate adt_var fn_var (S f) vr (Node (HInfer v1 General) []) (Node (HInfer v2 k) []) t
  = (Done [], set_value (ccls c1) (Bound (Node (HInfer v2 k) [])) t)
  /\ relate adt_var fn_var (S f) vr (Node (HInfer v2 k) []) (Node (HInfer v1 General) []) t
     = (Done [], set_value (ccls c1) (Bound (Node (HInfer v2 k) [])) t).
