(** Property C14 — unification is sound and computes most general unifiers.
    Only the property theorems; models and proofs are in Infer/{Table,Unify,Sound,Complete}.v.

    Soundness, on the property's fragment ([pfrag]: ADTs with their arities, tuples, slices,
    references, raw pointers, scalars, integer / float / general unknowns, placeholders;
    lifetimes: unknowns, placeholders, 'static, erased), invariant relation, after any history
    ([inv K U t] are the invariants every successful relate re-establishes; [K] / [U] are ghost
    kinds and universes: [U v] is the universe of an unbound [v], and for a bound [v] a universe
    from which every placeholder and every (non int/float) unknown of its value is visible).
    On success:
      - [step]: the new table extends the old one (bindings and class equalities are kept, no
        variable disappears) and universes only drop ([U' v <= U v]) — with [inv K' U' t'] this is
        "respects universes";
      - [teq t' gs a b]: the two types are equal under the new bindings up to the lifetime pairs
        related in both directions by the returned goals.
    Completeness / MGU: the full statement is [Infer.Complete.relate_complete_mgu_statement]
    (not proved); [relate_complete_partial] proves it for one-sided matching of a pattern with
    general unknowns against a ground lifetime-free type on a table without unions. *)
From Chalk Require Import Ir.Syntax Infer.Table Infer.Unify Infer.Sound Infer.Complete.

Theorem relate_sound : forall ar adt_var fn_var fuel a b t gs t' K U,
  inv ar K U t -> okt ar K t a -> okt ar K t b ->
  relate adt_var fn_var fuel Invariant a b t = (Done gs, t') ->
  exists K' U', inv ar K' U' t' /\ step K U t K' U' t' /\ teq t' gs a b.
Proof. exact relate_sound_lemma. Qed.
Check relate_sound : forall ar adt_var fn_var fuel a b t gs t' K U,
  inv ar K U t -> okt ar K t a -> okt ar K t b ->
  relate adt_var fn_var fuel Invariant a b t = (Done gs, t') ->
  exists K' U', inv ar K' U' t' /\ step K U t K' U' t' /\ teq t' gs a b.

(** The meaning of [teq]: in every model of the table and of the returned goals (unknowns valued
    so that a bound unknown denotes its value, unknowns of one class denote the same thing, two
    lifetimes related in both directions by the goals denote the same thing) the two related
    terms have the same denotation. *)
Theorem teq_sound_in_models : forall (D : Type) (app : head -> list D -> D) (bvar : sort -> N -> N -> D) (cvar : N -> N -> D -> D)
    (val : N -> D) (t : table) (gs : list tm),
  (forall v x, bound_to t v x -> val v = den D app bvar cvar val x) ->
  (forall v w, same_class t v w -> val v = val w) ->
  (forall a b, kind_of a = KLt -> kind_of b = KLt -> In (outlives_goal a b) gs -> In (outlives_goal b a) gs ->
               den D app bvar cvar val a = den D app bvar cvar val b) ->
  forall a b, teq t gs a b -> den D app bvar cvar val a = den D app bvar cvar val b.
Proof. exact teq_model. Qed.
Check teq_sound_in_models : forall (D : Type) (app : head -> list D -> D) (bvar : sort -> N -> N -> D) (cvar : N -> N -> D -> D)
    (val : N -> D) (t : table) (gs : list tm),
  (forall v x, bound_to t v x -> val v = den D app bvar cvar val x) ->
  (forall v w, same_class t v w -> val v = val w) ->
  (forall a b, kind_of a = KLt -> kind_of b = KLt -> In (outlives_goal a b) gs -> In (outlives_goal b a) gs ->
               den D app bvar cvar val a = den D app bvar cvar val b) ->
  forall a b, teq t gs a b -> den D app bvar cvar val a = den D app bvar cvar val b.

Theorem relate_complete_partial : forall adt_var fn_var θ fuel a t,
  pattern a = true -> (Closed.depth (app_subst θ a) < fuel)%nat -> mstate θ t -> (forall v, In v (pvars a) -> v < nvars t) ->
  exists t', relate adt_var fn_var fuel Invariant a (app_subst θ a) t = (Done [], t')
             /\ nvars t' = nvars t /\ pext t t' /\ mstate θ t' /\ (forall v, In v (pvars a) -> bound_to t' v (θ v)).
Proof. exact relate_complete_partial_lemma. Qed.
Check relate_complete_partial : forall adt_var fn_var θ fuel a t,
  pattern a = true -> (Closed.depth (app_subst θ a) < fuel)%nat -> mstate θ t -> (forall v, In v (pvars a) -> v < nvars t) ->
  exists t', relate adt_var fn_var fuel Invariant a (app_subst θ a) t = (Done [], t')
             /\ nvars t' = nvars t /\ pext t t' /\ mstate θ t' /\ (forall v, In v (pvars a) -> bound_to t' v (θ v)).
