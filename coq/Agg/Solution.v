(** * Agg.Solution — model of [Solution], [Guidance], [Solution::combine]
    (chalk-solve/src/solve.rs) and [with_priorities] / [calculate_inputs]
    (chalk-recursive/src/combine.rs). *)

From Chalk Require Import Ir.Syntax Ir.Fold Agg.Instance Agg.AntiUnify.

(** [Canonical<Substitution>]: canonical binders (kind, universe) and the value. *)
Inductive guidance :=
| Definite (bs : binders) (s : list tm)
| Suggested (bs : binders) (s : list tm)
| Unknown.

(** [Unique(Canonical<ConstrainedSubst>)]: binders, substitution, region constraints (each an
    [HConstraint] node, opaque to the model). *)
Inductive solution :=
| Unique (bs : binders) (s : list tm) (cs : list tm)
| Ambig (g : guidance).

Definition tvk_eqb (a b : tvk) : bool := if tvk_eq_dec a b then true else false.
Definition vkind_eqb (a b : vkind) : bool := if vkind_eq_dec a b then true else false.
Definition binder_eqb (a b : vkind * N) : bool := vkind_eqb (fst a) (fst b) && (snd a =? snd b).
Definition binders_eqb : binders -> binders -> bool := list_eqb binder_eqb.
Definition tms_eqb : list tm -> list tm -> bool := list_eqb tm_eqb.

Definition guidance_eqb (a b : guidance) : bool :=
  match a, b with
  | Definite b1 s1, Definite b2 s2 | Suggested b1 s1, Suggested b2 s2 => binders_eqb b1 b2 && tms_eqb s1 s2
  | Unknown, Unknown => true
  | _, _ => false
  end.

Definition solution_eqb (a b : solution) : bool :=
  match a, b with
  | Unique b1 s1 c1, Unique b2 s2 c2 => binders_eqb b1 b2 && tms_eqb s1 s2 && tms_eqb c1 c2
  | Ambig g1, Ambig g2 => guidance_eqb g1 g2
  | _, _ => false
  end.

Lemma list_eqb_eq {A} (e : A -> A -> bool) (H : forall x y, e x y = true <-> x = y) :
  forall l l', list_eqb e l l' = true <-> l = l'.
Proof.
  induction l as [| x r IH]; intros [| y r']; cbn [list_eqb]; try (split; [discriminate | congruence]); [split; reflexivity |].
  rewrite andb_true_iff, H, IH. split; [intros [-> ->]; reflexivity | intros E; inversion E; auto].
Qed.

Lemma binder_eqb_eq a b : binder_eqb a b = true <-> a = b.
Proof.
  destruct a as [k u], b as [k' u']. unfold binder_eqb, vkind_eqb. cbn [fst snd].
  destruct (vkind_eq_dec k k') as [-> | NE]; cbn [andb]; [rewrite N.eqb_eq; split; congruence | split; [discriminate | congruence]].
Qed.

Lemma binders_eqb_eq a b : binders_eqb a b = true <-> a = b.
Proof. apply list_eqb_eq, binder_eqb_eq. Qed.

Lemma tms_eqb_eq a b : tms_eqb a b = true <-> a = b.
Proof. apply list_eqb_eq, tm_eqb_eq. Qed.

Lemma guidance_eqb_eq a b : guidance_eqb a b = true <-> a = b.
Proof.
  destruct a, b; cbn [guidance_eqb]; try (split; [discriminate | congruence]); try (split; reflexivity);
    rewrite andb_true_iff, binders_eqb_eq, tms_eqb_eq; (split; [intros [-> ->]; reflexivity | intros E; inversion E; auto]).
Qed.

Lemma solution_eqb_eq a b : solution_eqb a b = true <-> a = b.
Proof.
  destruct a, b; cbn [solution_eqb]; try (split; [discriminate | congruence]).
  - rewrite !andb_true_iff, binders_eqb_eq, !tms_eqb_eq. split; [intros [[-> ->] ->]; reflexivity | intros E; inversion E; auto].
  - rewrite guidance_eqb_eq. split; congruence.
Qed.

Lemma solution_eqb_sym a b : solution_eqb a b = solution_eqb b a.
Proof.
  destruct (solution_eqb a b) eqn:E.
  - apply solution_eqb_eq in E. subst. symmetry. apply solution_eqb_eq. reflexivity.
  - destruct (solution_eqb b a) eqn:E'; [| reflexivity]. apply solution_eqb_eq in E'. subst.
    rewrite (proj2 (solution_eqb_eq a a) eq_refl) in E. discriminate.
Qed.

(** [Substitution::is_identity_subst]: parameter [i] is the bound variable [^0.i] of its kind. *)
Fixpoint is_identity_from (idx : N) (s : list tm) : bool :=
  match s with
  | [] => true
  | p :: r =>
      (match p with
       | Var _ d i => (d =? 0) && (i =? idx)
       | CVar d i _ => (d =? 0) && (i =? idx)
       | _ => false
       end) && is_identity_from (N.succ idx) r
  end.

Definition is_identity_subst (s : list tm) : bool := is_identity_from 0 s.

Definition is_trivial_and_always_true (a : solution) : bool :=
  match a with
  | Unique _ s cs => is_identity_subst s && match cs with [] => true | _ => false end
  | Ambig _ => false
  end.

Definition into_guidance (a : solution) : guidance :=
  match a with
  | Unique bs s _ => Definite bs s
  | Ambig g => g
  end.

(** [Solution::combine]. *)
Definition combine (a b : solution) : solution :=
  if solution_eqb a b then a
  else if is_trivial_and_always_true a then a
  else if is_trivial_and_always_true b then b
  else Ambig (match into_guidance a, into_guidance b with
              | Definite b1 s1, Definite b2 s2 => if binders_eqb b1 b2 && tms_eqb s1 s2 then Definite b1 s1 else Unknown
              | Suggested b1 s1, Suggested b2 s2 => if binders_eqb b1 b2 && tms_eqb s1 s2 then Suggested b1 s1 else Unknown
              | _, _ => Unknown
              end).

Definition is_ambig (a : solution) : bool := match a with Ambig _ => true | _ => false end.

(** [g] claims no more than [h]: it is no guidance at all, or the same guidance. *)
Definition guidance_le (g h : guidance) : Prop := g = Unknown \/ g = h.

(** Two solutions of the same goal: if both are the trivial "true" solution they are the same
    (their binders are the goal's variables).  Without this [combine] returns its first
    argument and is not commutative, cf. [combine_comm_needs_compatible]. *)
Definition compatible (a b : solution) : Prop :=
  is_trivial_and_always_true a = true -> is_trivial_and_always_true b = true -> a = b.

Lemma combine_comm_lemma a b : compatible a b -> combine a b = combine b a.
Proof.
  intros C. unfold combine. rewrite (solution_eqb_sym b a).
  destruct (solution_eqb a b) eqn:E; [apply solution_eqb_eq in E; congruence |].
  destruct (is_trivial_and_always_true a) eqn:Ta, (is_trivial_and_always_true b) eqn:Tb; try reflexivity.
  - specialize (C Ta Tb). subst. rewrite (proj2 (solution_eqb_eq b b) eq_refl) in E. discriminate.
  - f_equal. destruct (into_guidance a) as [b1 s1 | b1 s1 |], (into_guidance b) as [b2 s2 | b2 s2 |]; try reflexivity.
    + destruct (binders_eqb b1 b2 && tms_eqb s1 s2) eqn:E1.
      * apply andb_true_iff in E1. destruct E1 as [E1 E2]. apply binders_eqb_eq in E1. apply tms_eqb_eq in E2. subst.
        rewrite (proj2 (binders_eqb_eq b2 b2) eq_refl), (proj2 (tms_eqb_eq s2 s2) eq_refl). reflexivity.
      * destruct (binders_eqb b2 b1 && tms_eqb s2 s1) eqn:E2; [| reflexivity].
        apply andb_true_iff in E2. destruct E2 as [E2 E3]. apply binders_eqb_eq in E2. apply tms_eqb_eq in E3. subst.
        rewrite (proj2 (binders_eqb_eq b1 b1) eq_refl), (proj2 (tms_eqb_eq s1 s1) eq_refl) in E1. discriminate.
    + destruct (binders_eqb b1 b2 && tms_eqb s1 s2) eqn:E1.
      * apply andb_true_iff in E1. destruct E1 as [E1 E2]. apply binders_eqb_eq in E1. apply tms_eqb_eq in E2. subst.
        rewrite (proj2 (binders_eqb_eq b2 b2) eq_refl), (proj2 (tms_eqb_eq s2 s2) eq_refl). reflexivity.
      * destruct (binders_eqb b2 b1 && tms_eqb s2 s1) eqn:E2; [| reflexivity].
        apply andb_true_iff in E2. destruct E2 as [E2 E3]. apply binders_eqb_eq in E2. apply tms_eqb_eq in E3. subst.
        rewrite (proj2 (binders_eqb_eq b1 b1) eq_refl), (proj2 (tms_eqb_eq s1 s1) eq_refl) in E1. discriminate.
Qed.

(** The combination never claims more than either candidate: it is one of them, or it is
    ambiguous with guidance that is [Unknown] or the guidance of BOTH candidates. *)
Lemma combine_no_more_lemma a b :
  combine a b = a \/ combine a b = b \/
  exists g, combine a b = Ambig g /\ guidance_le g (into_guidance a) /\ guidance_le g (into_guidance b).
Proof.
  unfold combine. destruct (solution_eqb a b); [left; reflexivity |].
  destruct (is_trivial_and_always_true a); [left; reflexivity |].
  destruct (is_trivial_and_always_true b); [right; left; reflexivity |].
  right. right. eexists. split; [reflexivity |]. unfold guidance_le.
  destruct (into_guidance a) as [b1 s1 | b1 s1 |], (into_guidance b) as [b2 s2 | b2 s2 |]; auto;
    (destruct (binders_eqb b1 b2 && tms_eqb s1 s2) eqn:E1; [| auto];
     apply andb_true_iff in E1; destruct E1 as [E1 E2]; apply binders_eqb_eq in E1; apply tms_eqb_eq in E2; subst; auto).
Qed.

Example combine_comm_needs_compatible :
  let a := Unique [(VTy General, 0)] [Var STy 0 0] [] in
  let b := Unique [(VTy General, 1)] [Var STy 0 0] [] in
  combine a b = a /\ combine b a = b /\ a <> b.
Proof. cbv zeta. repeat split; try reflexivity. intros H; discriminate H. Qed.

Example combine_nonvacuous :
  let u1 := Unique [] [ex_i32] [] in
  let u2 := Unique [] [ex_u32] [] in
  let d1 := Ambig (Definite [] [ex_i32]) in
  let triv := Unique [(VTy General, 0)] [Var STy 0 0] [] in
  compatible u1 u2 /\ combine u1 u2 = Ambig Unknown /\ combine u1 d1 = d1 /\ combine d1 u1 = d1
  /\ combine (Ambig (Suggested [] [ex_i32])) d1 = Ambig Unknown
  /\ combine triv u1 = triv /\ combine u1 triv = triv
  /\ combine (Unique [] [ex_i32] [Node HConstraint [Node HList []; Node HLtOutlives [Node HLStatic []; Node HLErased []]]]) u1 = d1.
Proof. cbv zeta. repeat split; try reflexivity. intros H; discriminate H. Qed.

(** ** [with_priorities] *)

(** [Solution::constrained_subst] — only the substitution is used by [calculate_inputs]. *)
Definition constrained_subst (a : solution) : option (list tm) :=
  match a with
  | Unique _ s _ => Some s
  | Ambig (Definite _ s) | Ambig (Suggested _ s) => Some s
  | Ambig Unknown => None
  end.

(** [DomainGoal::inputs]: the alias of an [AliasEq] goal, nothing otherwise. *)
Definition inputs (dg : tm) : list tm :=
  match dg with
  | Node HHolds [Node HAliasEq [alias; _]] => [alias]
  | _ => []
  end.

(** No variable of [t] points beyond the outermost binder. *)
Fixpoint scoped_b (k : N) (t : tm) : bool :=
  match t with
  | Var _ d _ => d <=? k
  | CVar d _ _ => d <=? k
  | Node h cs => forallb (scoped_b (under h k)) cs
  end.

(** [Substitution::apply] ([Substitute] / [SubstFolder]): like [Subst::apply] but asserts
    that every free variable belongs to the innermost binder. *)
Definition substitute (s : list tm) (t : tm) : res tm :=
  if scoped_b 0 t then subst s 0 t else Panic AssertFailed.

Definition calculate_inputs (dg : tm) (a : solution) : res (list tm) :=
  match constrained_subst a with
  | Some s => res_map inputs (substitute s dg)
  | None => Ok (inputs dg)
  end.

Definition prefer (dg : tm) (higher lower : solution) : res (solution * priority) :=
  rbind (calculate_inputs dg higher) (fun ih =>
  rbind (calculate_inputs dg lower) (fun il =>
  if tms_eqb ih il then Ok (higher, High) else Ok (combine higher lower, High))).

Definition with_priorities (dg : tm) (a : solution) (pa : priority) (b : solution) (pb : priority) : res (solution * priority) :=
  match pa, pb with
  | High, Low => prefer dg a b
  | Low, High => prefer dg b a
  | _, _ => Ok (combine a b, pa)
  end.

Lemma with_priorities_comm_lemma dg a pa b pb :
  compatible a b -> with_priorities dg a pa b pb = with_priorities dg b pb a pa.
Proof.
  intros C. unfold with_priorities. destruct pa, pb; try reflexivity; rewrite (combine_comm_lemma _ _ C); reflexivity.
Qed.

Definition priority_eqb (a b : priority) : bool := match a, b with High, High | Low, Low => true | _, _ => false end.

Example with_priorities_nonvacuous :
  let dg := Node HHolds [Node HAliasEq [Node (HProjection 0) [Var STy 0 0]; Var STy 0 1]] in
  let hi := Unique [] [ex_i32; ex_u32] [] in
  let lo := Unique [] [ex_i32; ex_i32] [] in
  let lo2 := Unique [] [ex_u32; ex_i32] [] in
  compatible hi lo /\
  with_priorities dg hi High lo Low = Ok (hi, High) /\ with_priorities dg lo Low hi High = Ok (hi, High) /\
  with_priorities dg hi High lo2 Low = Ok (Ambig Unknown, High) /\
  with_priorities dg hi Low lo Low = Ok (Ambig Unknown, Low) /\
  calculate_inputs dg hi = Ok [Node (HProjection 0) [ex_i32]].
Proof. cbv zeta. repeat split; try reflexivity. intros H; discriminate H. Qed.
