(** * Agg.Instance — executable first-order matching over the shared term syntax [tm].

    [s] is an *instance* of the pattern [g] iff some list of parameters [τ] substituted for
    the variables of [g]'s outermost binder gives [s]:  [subst τ 0 g = Ok s], with [subst] the
    model of chalk's own [Subst::apply] from [Ir/Fold.v] (property C25).  A canonical
    substitution [Canonical<Substitution>] is such a pattern: its bound variables [^0.i]
    refer to the canonical binders.  [instance_of] decides the relation by one pass of
    matching and [instance_of_spec] proves it correct for ALL patterns, including variables
    below fn-pointer / dyn binders (the matched subterm is shifted out of the binders it sits
    under) and outer free variables (which [subst] moves one level down). *)

From Chalk Require Import Ir.Syntax Ir.Fold.

Definition bindings := list (N * tm).

Fixpoint lookup (i : N) (σ : bindings) : option tm :=
  match σ with
  | [] => None
  | (j, p) :: r => if j =? i then Some p else lookup i r
  end.

(** Bind pattern variable [i] to [p]; a variable that is already bound must be bound to an
    equal term. *)
Definition bind (i : N) (p : tm) (σ : bindings) : option bindings :=
  match lookup i σ with
  | Some q => if tm_eqb p q then Some σ else None
  | None => Some ((i, p) :: σ)
  end.

Definition match_list (f : tm -> tm -> bindings -> option bindings) : list tm -> list tm -> bindings -> option bindings :=
  fix go (l l' : list tm) (σ : bindings) : option bindings :=
    match l, l' with
    | [], [] => Some σ
    | x :: r, y :: r' => match f x y σ with Some σ' => go r r' σ' | None => None end
    | _, _ => None
    end.

(** [match_tm k g s σ]: match [s] against the pattern [g], [k] binder levels below the
    pattern's own binder, extending the bindings [σ]. *)
Fixpoint match_tm (k : N) (g s : tm) (σ : bindings) {struct g} : option bindings :=
  match g with
  | Var srt d i =>
      if d <? k then (if tm_eqb s g then Some σ else None)
      else if d =? k then
        (if kind_eqb (kind_of s) (sort_kind srt) then
           match shift_out k 0 s with Some p => bind i p σ | None => None end
         else None)
      else (if tm_eqb s (Var srt (d - 1) i) then Some σ else None)
  | CVar d i c =>
      if d <? k then (if tm_eqb s g then Some σ else None)
      else if d =? k then
        (if kind_eqb (kind_of s) KConst then
           match shift_out k 0 s with Some p => bind i p σ | None => None end
         else None)
      else (if tm_eqb s (CVar (d - 1) i c) then Some σ else None)
  | Node h cs =>
      match s with
      | Node h' cs' => if head_eqb h h' then match_list (match_tm (under h k)) cs cs' σ else None
      | _ => None
      end
  end.

Definition instance_of (s g : tm) : bool :=
  match match_tm 0 g s [] with Some _ => true | None => false end.

(** Substitutions (lists of generic arguments) are compared as one [HList] node. *)
Definition instance_of_list (ss gs : list tm) : bool := instance_of (Node HList ss) (Node HList gs).

(** Equal up to renaming of the pattern variables: instances of each other. *)
Definition variant_list (a b : list tm) : bool := instance_of_list a b && instance_of_list b a.

(** ** Correctness *)

Definition agrees (τ : list tm) (σ : bindings) : Prop :=
  forall i q, lookup i σ = Some q -> nth_error τ (N.to_nat i) = Some q.

Definition extends (σ σ' : bindings) : Prop :=
  forall i q, lookup i σ = Some q -> lookup i σ' = Some q.

Lemma extends_refl σ : extends σ σ.
Proof. intros i q H; exact H. Qed.

Lemma extends_trans a b c : extends a b -> extends b c -> extends a c.
Proof. intros H1 H2 i q H. apply H2, H1, H. Qed.

Lemma agrees_extends τ σ σ' : extends σ σ' -> agrees τ σ' -> agrees τ σ.
Proof. intros E A i q H. apply A, E, H. Qed.

Lemma bind_sound i p σ σ' :
  bind i p σ = Some σ' -> extends σ σ' /\ lookup i σ' = Some p.
Proof.
  unfold bind. destruct (lookup i σ) as [q |] eqn:L.
  - destruct (tm_eqb p q) eqn:E; [| discriminate]. intros H; inversion H; subst.
    apply tm_eqb_eq in E. subst. split; [apply extends_refl | assumption].
  - intros H; inversion H; subst. split.
    + intros j q H'. cbn [lookup]. destruct (N.eqb_spec i j) as [-> |]; [congruence | assumption].
    + cbn [lookup]. rewrite N.eqb_refl. reflexivity.
Qed.

Lemma bind_complete τ i p σ :
  agrees τ σ -> nth_error τ (N.to_nat i) = Some p ->
  exists σ', bind i p σ = Some σ' /\ agrees τ σ'.
Proof.
  intros A Hn. unfold bind. destruct (lookup i σ) as [q |] eqn:L.
  - apply A in L. rewrite L in Hn. inversion Hn; subst.
    assert (E : tm_eqb p p = true) by (apply tm_eqb_eq; reflexivity). rewrite E. eauto.
  - eexists; split; [reflexivity |]. intros j q. cbn [lookup].
    destruct (N.eqb_spec i j) as [-> |]; [intros H; inversion H; subst; assumption | apply A].
Qed.

Lemma tm_eqb_refl t : tm_eqb t t = true.
Proof. apply tm_eqb_eq. reflexivity. Qed.

Lemma rmap_ok_inv {A B} (f : A -> res B) (l : list A) (l' : list B) :
  rmap f l = Ok l' -> Forall2 (fun x y => f x = Ok y) l l'.
Proof.
  revert l'. induction l as [| x r IH]; cbn [rmap]; intros l' H.
  - inversion H. constructor.
  - destruct (f x) as [y | s] eqn:Ex; cbn [rbind] in H; [| discriminate].
    destruct (rmap f r) as [ys | s] eqn:Er; cbn [rbind] in H; [| discriminate].
    inversion H; subst. constructor; [assumption | apply IH; reflexivity].
Qed.

Lemma subst_node_inv ps k h cs s :
  subst ps k (Node h cs) = Ok s -> exists cs', s = Node h cs' /\ Forall2 (fun x y => subst ps (under h k) x = Ok y) cs cs'.
Proof.
  cbn [subst]. destruct (rmap (subst ps (under h k)) cs) as [cs' | e] eqn:E; cbn [rbind]; [| discriminate].
  intros H; inversion H; subst. exists cs'. split; [reflexivity | apply rmap_ok_inv; assumption].
Qed.

Lemma subst_node_ok ps k h cs cs' :
  Forall2 (fun x y => subst ps (under h k) x = Ok y) cs cs' -> subst ps k (Node h cs) = Ok (Node h cs').
Proof. intros H. cbn [subst]. rewrite (rmap_ok _ _ _ H). reflexivity. Qed.

(** Soundness: a successful match extends the bindings, and every parameter list that agrees
    with the final bindings instantiates the pattern to the matched term. *)
Lemma match_sound : forall g k s σ σ',
  match_tm k g s σ = Some σ' ->
  extends σ σ' /\ forall τ, agrees τ σ' -> subst τ k g = Ok s.
Proof.
  induction g as [srt d i | d i c _ | h cs IH] using tm_ind'; intros k s σ σ'; cbn [match_tm].
  - destruct (N.ltb_spec d k) as [Hlt | Hge].
    + destruct (tm_eqb s (Var srt d i)) eqn:E; [| discriminate]. apply tm_eqb_eq in E. subst s.
      intros H; inversion H; subst. split; [apply extends_refl |]. intros τ _. cbn [subst].
      destruct (N.leb_spec k d); [lia | reflexivity].
    + destruct (N.eqb_spec d k) as [-> | Hne].
      * destruct (kind_eqb (kind_of s) (sort_kind srt)) eqn:Ek; [| discriminate].
        destruct (shift_out k 0 s) as [p |] eqn:Es; [| discriminate]. intros Hb.
        apply bind_sound in Hb. destruct Hb as [Hext Hl]. split; [assumption |].
        intros τ A. cbn [subst]. destruct (N.leb_spec k k); [| lia]. rewrite N.eqb_refl.
        rewrite (A _ _ Hl). apply shift_in_out_lemma in Es.
        assert (Kp : kind_of p = kind_of s) by (rewrite <- Es; symmetry; apply kind_of_shift_in).
        rewrite Kp, Ek. rewrite Es. reflexivity.
      * destruct (tm_eqb s (Var srt (d - 1) i)) eqn:E; [| discriminate]. apply tm_eqb_eq in E. subst s.
        intros H; inversion H; subst. split; [apply extends_refl |]. intros τ _. cbn [subst].
        destruct (N.leb_spec k d); [| lia]. destruct (N.eqb_spec d k); [lia | reflexivity].
  - destruct (N.ltb_spec d k) as [Hlt | Hge].
    + destruct (tm_eqb s (CVar d i c)) eqn:E; [| discriminate]. apply tm_eqb_eq in E. subst s.
      intros H; inversion H; subst. split; [apply extends_refl |]. intros τ _. cbn [subst].
      destruct (N.leb_spec k d); [lia | reflexivity].
    + destruct (N.eqb_spec d k) as [-> | Hne].
      * destruct (kind_eqb (kind_of s) KConst) eqn:Ek; [| discriminate].
        destruct (shift_out k 0 s) as [p |] eqn:Es; [| discriminate]. intros Hb.
        apply bind_sound in Hb. destruct Hb as [Hext Hl]. split; [assumption |].
        intros τ A. cbn [subst]. destruct (N.leb_spec k k); [| lia]. rewrite N.eqb_refl.
        rewrite (A _ _ Hl). apply shift_in_out_lemma in Es.
        assert (Kp : kind_of p = kind_of s) by (rewrite <- Es; symmetry; apply kind_of_shift_in).
        rewrite Kp, Ek. rewrite Es. reflexivity.
      * destruct (tm_eqb s (CVar (d - 1) i c)) eqn:E; [| discriminate]. apply tm_eqb_eq in E. subst s.
        intros H; inversion H; subst. split; [apply extends_refl |]. intros τ _. cbn [subst].
        destruct (N.leb_spec k d); [| lia]. destruct (N.eqb_spec d k); [lia | reflexivity].
  - destruct s as [| | h' cs']; try discriminate.
    destruct (head_eqb h h') eqn:Eh; [| discriminate]. apply head_eqb_eq in Eh. subst h'.
    intros HM.
    assert (L : extends σ σ' /\ forall τ, agrees τ σ' -> Forall2 (fun x y => subst τ (under h k) x = Ok y) cs cs').
    { clear - IH HM. revert cs' σ σ' HM. induction IH as [| x r Hx _ IHr]; intros cs' σ σ' HM.
      - destruct cs'; cbn [match_list] in HM; [| discriminate]. inversion HM; subst.
        split; [apply extends_refl | intros; constructor].
      - destruct cs' as [| y r']; cbn [match_list] in HM; [discriminate |].
        destruct (match_tm (under h k) x y σ) as [σ1 |] eqn:E1; [| discriminate].
        destruct (Hx _ _ _ _ E1) as [X1 X2]. destruct (IHr _ _ _ HM) as [R1 R2].
        split; [eapply extends_trans; eassumption |].
        intros τ A. constructor; [| apply R2; assumption].
        apply X2. eapply agrees_extends; eassumption. }
    destruct L as [L1 L2]. split; [assumption |]. intros τ A. apply subst_node_ok. apply L2. assumption.
Qed.

(** Completeness: if some parameter list agreeing with the bindings so far instantiates the
    pattern to [s], matching succeeds and the list still agrees with the result. *)
Lemma match_complete : forall g k s τ σ,
  subst τ k g = Ok s -> agrees τ σ ->
  exists σ', match_tm k g s σ = Some σ' /\ agrees τ σ'.
Proof.
  induction g as [srt d i | d i c _ | h cs IH] using tm_ind'; intros k s τ σ; cbn [match_tm subst].
  - destruct (N.leb_spec k d) as [Hle | Hgt].
    + destruct (N.eqb_spec d k) as [-> | Hne].
      * destruct (N.ltb_spec k k) as [Hkk | Hkk]; [lia |].
        destruct (nth_error τ (N.to_nat i)) as [p |] eqn:En; [| discriminate].
        destruct (kind_eqb (kind_of p) (sort_kind srt)) eqn:Ek; [| discriminate].
        intros HS HA; inversion HS; subst. rewrite kind_of_shift_in, Ek.
        rewrite shift_out_in_lemma. apply bind_complete; assumption.
      * destruct (N.ltb_spec d k) as [Hdk | Hdk]; [lia |]. intros HS HA; inversion HS; subst.
        rewrite tm_eqb_refl. eauto.
    + destruct (N.ltb_spec d k) as [Hdk | Hdk]; [| lia]. intros HS HA; inversion HS; subst. rewrite tm_eqb_refl. eauto.
  - destruct (N.leb_spec k d) as [Hle | Hgt].
    + destruct (N.eqb_spec d k) as [-> | Hne].
      * destruct (N.ltb_spec k k) as [Hkk | Hkk]; [lia |].
        destruct (nth_error τ (N.to_nat i)) as [p |] eqn:En; [| discriminate].
        destruct (kind_eqb (kind_of p) KConst) eqn:Ek; [| discriminate].
        intros HS HA; inversion HS; subst. rewrite kind_of_shift_in, Ek.
        rewrite shift_out_in_lemma. apply bind_complete; assumption.
      * destruct (N.ltb_spec d k) as [Hdk | Hdk]; [lia |]. intros HS HA; inversion HS; subst.
        rewrite tm_eqb_refl. eauto.
    + destruct (N.ltb_spec d k) as [Hdk | Hdk]; [| lia]. intros HS HA; inversion HS; subst. rewrite tm_eqb_refl. eauto.
  - intros HS A. change (rbind (rmap (subst τ (under h k)) cs) (fun cs' => Ok (Node h cs')) = Ok s) with (subst τ k (Node h cs) = Ok s) in HS.
    apply subst_node_inv in HS. destruct HS as (cs' & -> & F2).
    assert (Eh : head_eqb h h = true) by (apply head_eqb_eq; reflexivity). rewrite Eh.
    clear Eh. revert σ A. induction F2 as [| x y r r' Hxy _ IHr]; intros σ A.
    + cbn [match_list]. eauto.
    + inversion IH; subst. cbn [match_list].
      destruct (H1 _ _ _ _ Hxy A) as (σ1 & -> & A1). apply IHr; assumption.
Qed.

(** A parameter list read off the bindings. *)
Definition dummy : tm := Node HError [].

Fixpoint key_bound (σ : bindings) : nat :=
  match σ with [] => 0%nat | (j, _) :: r => Nat.max (S (N.to_nat j)) (key_bound r) end.

Definition tau_of (σ : bindings) : list tm :=
  map (fun j => match lookup (N.of_nat j) σ with Some q => q | None => dummy end) (seq 0 (key_bound σ)).

Lemma lookup_bound i q σ : lookup i σ = Some q -> (N.to_nat i < key_bound σ)%nat.
Proof.
  induction σ as [| [j p] r IH]; cbn [lookup key_bound]; [discriminate |].
  destruct (N.eqb_spec j i) as [-> |]; intros H; [lia |]. specialize (IH H). lia.
Qed.

Lemma agrees_tau_of σ : agrees (tau_of σ) σ.
Proof.
  intros i q H. unfold tau_of. pose proof (lookup_bound _ _ _ H) as B.
  rewrite nth_error_map. rewrite nth_error_nth' with (d := 0%nat) by (rewrite seq_length; assumption).
  rewrite seq_nth by assumption. cbn [option_map]. cbn [plus]. rewrite N2Nat.id, H. reflexivity.
Qed.

Lemma agrees_nil τ : agrees τ [].
Proof. intros i q H. discriminate H. Qed.

Lemma instance_of_spec_lemma s g : instance_of s g = true <-> exists τ, subst τ 0 g = Ok s.
Proof.
  unfold instance_of. split.
  - destruct (match_tm 0 g s []) as [σ' |] eqn:E; [| discriminate]. intros _.
    exists (tau_of σ'). apply (match_sound _ _ _ _ _ E). apply agrees_tau_of.
  - intros (τ & H). destruct (match_complete _ _ _ _ [] H (agrees_nil τ)) as (σ' & -> & _). reflexivity.
Qed.

Lemma subst_list_iff τ k gs ss :
  subst τ k (Node HList gs) = Ok (Node HList ss) <-> rmap (subst τ k) gs = Ok ss.
Proof.
  cbn [subst]. change (under HList k) with k. destruct (rmap (subst τ k) gs) as [cs | e]; cbn [rbind]; split; intros H; inversion H; reflexivity.
Qed.

Lemma instance_of_list_spec_lemma ss gs : instance_of_list ss gs = true <-> exists τ, rmap (subst τ 0) gs = Ok ss.
Proof.
  unfold instance_of_list. rewrite instance_of_spec_lemma. split; intros (τ & H); exists τ; apply subst_list_iff; assumption.
Qed.

(** Non-vacuity: a non-linear pattern with a variable under a fn-pointer binder and an outer
    free variable; one instance and two non-instances. *)
Example instance_of_nonvacuous :
  let g := Node (HTuple 3) [Node (HAdt 0) [Var STy 0 0]; Var STy 0 0;
                            Node (HFnPtr 1 AbiRust Safe false) [Var STy 1 1; Var STy 0 0; Var STy 2 5]] in
  let p := Node (HRef Not) [Var SLt 0 3; Node HStr []] in
  let s := Node (HTuple 3) [Node (HAdt 0) [p]; p;
                            Node (HFnPtr 1 AbiRust Safe false) [Node HNever []; Var STy 0 0; Var STy 1 5]] in
  instance_of s g = true
  /\ (exists τ, subst τ 0 g = Ok s)
  /\ instance_of (Node (HTuple 3) [Node (HAdt 0) [p]; Node HStr []; Node (HFnPtr 1 AbiRust Safe false) [Node HNever []; Var STy 0 0; Var STy 1 5]]) g = false
  /\ instance_of (Node (HTuple 3) [Node (HAdt 0) [p]; p; Node (HFnPtr 1 AbiRust Safe false) [Var STy 0 1; Var STy 0 0; Var STy 1 5]]) g = false.
Proof.
  cbv zeta. split; [vm_compute; reflexivity |]. split.
  - apply instance_of_spec_lemma. vm_compute. reflexivity.
  - split; vm_compute; reflexivity.
Qed.
