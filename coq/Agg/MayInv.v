(** * Agg.MayInv — model of [MayInvalidate] (chalk-engine/src/slg.rs): the check
    [may_invalidate new current] by which [make_solution] decides that no future answer (an
    instance of the strand substitution [new]) can change the current guidance.

    Three variants of ONE function, differing only in what happens at a bound variable of
    the current guidance:
      - [MOld]  the code as it is: "the aggregate cannot get more generalized than a
                variable" — answers [false] whatever the answer has there;
      - [MFix]  the repaired code (/verif/corpus/C17/f1_proposed_fix.patch): the value seen at
                the first occurrence is recorded, a later occurrence must see an equal value;
      - [MLin]  an auxiliary that refuses any repeated variable; a successful [MLin] run is
                exactly a run in which no guidance variable is met twice.
    Results: [Ok None] = [true] (may invalidate), [Ok (Some σ)] = [false] with the recorded
    bindings, [Panic] for the two panics (free inference variable, mismatched kinds /
    substitution lengths).

    Finding F1 (known class [repeats_var]): [MOld] answers [false] for current guidance
    [[Vec<^0>, ^0]] and new answer [[Vec<I32>, U32]]; see [may_invalidate_refuted_lemma]. *)

From Coq Require Import PeanoNat.
From Chalk Require Import Ir.Syntax Ir.Fold Agg.Instance Agg.AntiUnify.

Inductive mi_mode := MOld | MFix | MLin.

Definition mi_var (m : mi_mode) (i : N) (y : tm) (σ : bindings) : option bindings :=
  match lookup i σ with
  | None => Some ((i, y) :: σ)
  | Some q =>
      match m with
      | MOld => Some σ
      | MFix => if tm_eqb y q then Some σ else None
      | MLin => None
      end
  end.

Definition is_hinfer (h : head) : bool := match h with HInfer _ _ => true | _ => false end.

(** The value comparison of [aggregate_consts]; [Ok true] = may invalidate. *)
Definition const_cmp (hn hc : head) : res bool :=
  match hn, hc with
  | HCInfer _, _ | _, HCInfer _ => Panic OtherPanic
  | HCPlaceholder u1 i1, HCPlaceholder u2 i2 => Ok (negb ((u1 =? u2) && (i1 =? i2)))
  | HCConcrete v1, HCConcrete v2 => Ok (negb (v1 =? v2))
  | _, _ => Ok true
  end.

(** [aggregate_generic_args] with [aggregate_tys] / [aggregate_lifetimes] / [aggregate_consts]
    inlined; recursion on the current guidance.  The order of the match arms of the code is
    kept: a bound variable in the guidance first, then a bound variable in the answer
    ([true]), then the inference-variable panic. *)
Fixpoint mi (m : mi_mode) (new cur : tm) (σ : bindings) {struct cur} : res (option bindings) :=
  match kind_of new, kind_of cur with
  | KTy, KTy =>
      match cur with
      | Var _ _ i => Ok (mi_var m i new σ)
      | Node hc cc =>
          match new with
          | Var _ _ _ => Ok None
          | Node hn cn =>
              if is_hinfer hn || is_hinfer hc then Panic OtherPanic
              else if head_eqb hn hc then
                match hclass_of hc with
                | HcStruct =>
                    if Nat.eqb (length cn) (length cc) then
                      (fix go (lc ln : list tm) (σ : bindings) {struct lc} : res (option bindings) :=
                         match lc, ln with
                         | c :: rc, n :: rn =>
                             match mi m n c σ with
                             | Ok (Some σ1) => go rc rn σ1
                             | r => r
                             end
                         | _, _ => Ok (Some σ)
                         end) cc cn σ
                    else Panic AssertFailed
                | HcLeaf => match cc, cn with [], [] => Ok (Some σ) | _, _ => Ok None end
                | HcFresh => Ok None
                end
              else Ok None
          | CVar _ _ _ => Ok None
          end
      | CVar _ _ _ => Ok None
      end
  | KLt, KLt => Ok None
  | KConst, KConst =>
      match cur with
      | CVar _ i c =>
          match mi m (const_ty new) c σ with
          | Ok (Some σ1) => Ok (mi_var m i new σ1)
          | r => r
          end
      | Node hc (c :: _) =>
          match mi m (const_ty new) c σ with
          | Ok (Some σ1) =>
              match new with
              | CVar _ _ _ => Ok None
              | Node hn _ =>
                  match const_cmp hn hc with
                  | Ok false => Ok (Some σ1)
                  | Ok true => Ok None
                  | Panic e => Panic e
                  end
              | Var _ _ _ => Ok None
              end
          | r => r
          end
      | _ => Ok None
      end
  | _, _ => Panic OtherPanic
  end.

Fixpoint mi_list (m : mi_mode) (lc ln : list tm) (σ : bindings) {struct lc} : res (option bindings) :=
  match lc, ln with
  | c :: rc, n :: rn =>
      match mi m n c σ with
      | Ok (Some σ1) => mi_list m rc rn σ1
      | r => r
      end
  | _, _ => Ok (Some σ)
  end.

(** [Substitution::may_invalidate(new, current)]: [zip(...).any(...)]. *)
Definition may_invalidate (m : mi_mode) (new : list tm) (cur : csubst) : res bool :=
  match mi_list m (snd cur) new [] with
  | Ok (Some _) => Ok false
  | Ok None => Ok true
  | Panic s => Panic s
  end.

Lemma mi_ty_node m hn cn hc cc σ :
  head_kind hn = KTy -> head_kind hc = KTy ->
  mi m (Node hn cn) (Node hc cc) σ =
  if is_hinfer hn || is_hinfer hc then Panic OtherPanic
  else if head_eqb hn hc then
    match hclass_of hc with
    | HcStruct => if Nat.eqb (length cn) (length cc) then mi_list m cc cn σ else Panic AssertFailed
    | HcLeaf => match cc, cn with [], [] => Ok (Some σ) | _, _ => Ok None end
    | HcFresh => Ok None
    end
  else Ok None.
Proof.
  intros Kn Kc. cbn [mi kind_of]. rewrite Kn, Kc.
  assert (L : forall σ,
    (fix go (lc ln : list tm) (σ : bindings) {struct lc} : res (option bindings) :=
       match lc, ln with
       | c :: rc, n :: rn => match mi m n c σ with Ok (Some σ1) => go rc rn σ1 | r => r end
       | _, _ => Ok (Some σ)
       end) cc cn σ = mi_list m cc cn σ).
  { generalize cn. induction cc as [| c rc IH]; intros [| n rn] σ0; cbn [mi_list]; try reflexivity.
    destruct (mi m n c σ0) as [[σ1 |] | e]; try reflexivity. apply IH. }
  rewrite L. reflexivity.
Qed.

Lemma const_cmp_false hn hc :
  head_kind hn = KConst -> head_kind hc = KConst -> const_cmp hn hc = Ok false -> hn = hc.
Proof.
  intros Kn Kc. destruct hn; try discriminate Kn; destruct hc; try discriminate Kc; cbn [const_cmp]; try discriminate.
  - destruct (N.eqb_spec ui ui0) as [-> |]; [| discriminate]. destruct (N.eqb_spec idx idx0) as [-> |]; [| discriminate]. reflexivity.
  - destruct (N.eqb_spec value value0) as [-> |]; [| discriminate]. reflexivity.
Qed.

(** ** Variables of a guidance term, linearity (the complement of the known class F1) *)

Fixpoint pvars (t : tm) : list N :=
  match t with
  | Var _ _ i => [i]
  | CVar _ i c => pvars c ++ [i]
  | Node _ cs => flat_map pvars cs
  end.

Fixpoint nodup_b (l : list N) : bool :=
  match l with
  | [] => true
  | x :: r => negb (existsb (N.eqb x) r) && nodup_b r
  end.

(** The known class of finding F1, decided on the input alone: the current guidance
    mentions some bound variable more than once. *)
Definition repeats_var (cur : list tm) : bool := negb (nodup_b (flat_map pvars cur)).

Lemma existsb_In x l : existsb (N.eqb x) l = true <-> In x l.
Proof.
  rewrite existsb_exists. split.
  - intros (y & Hy & E). apply N.eqb_eq in E. subst. assumption.
  - intros H. exists x. split; [assumption | apply N.eqb_refl].
Qed.

Lemma nodup_b_NoDup l : nodup_b l = true <-> NoDup l.
Proof.
  induction l as [| x r IH]; cbn [nodup_b]; [split; [constructor | reflexivity] |].
  rewrite andb_true_iff, negb_true_iff, IH. split.
  - intros [H1 H2]. constructor; [| assumption]. intros HI. apply existsb_In in HI. congruence.
  - intros H. inversion H; subst. split; [| assumption].
    destruct (existsb (N.eqb x) r) eqn:E; [| reflexivity]. apply existsb_In in E. contradiction.
Qed.

(** Variables outside fn-pointer / dyn binders belong to the canonical binder (depth 0) —
    true of every well-scoped [Canonical<Substitution>]. *)
Fixpoint top_vars0 (t : tm) : Prop :=
  match t with
  | Var _ d _ => d = 0
  | CVar d _ _ => d = 0
  | Node h cs => binds h = false ->
                 (fix go (l : list tm) : Prop := match l with [] => True | x :: r => top_vars0 x /\ go r end) cs
  end.

Lemma top_vars0_node h cs : binds h = false -> top_vars0 (Node h cs) -> Forall top_vars0 cs.
Proof.
  intros NB H. cbn [top_vars0] in H. specialize (H NB). induction cs as [| x r IH]; constructor; [apply H | apply IH, H].
Qed.

(** ** The repaired check is sound: [false] means the new answer is an instance of the guidance *)

Lemma shift_out_0 t k : shift_out 0 k t = Some t.
Proof. rewrite <- (shift_in_0 t k) at 1. apply shift_out_in_lemma. Qed.

Lemma mi_usize m σ : mi m usize_ty usize_ty σ = Ok (Some σ).
Proof. reflexivity. Qed.

Lemma match_usize σ : match_tm 0 usize_ty usize_ty σ = Some σ.
Proof. reflexivity. Qed.

Lemma ctys_ok_const_ty t : kind_of t = KConst -> ctys_ok t -> const_ty t = usize_ty.
Proof.
  destruct t as [srt d i | d i c | h cs]; [destruct srt; discriminate | intros _ H; exact H |].
  intros K W. apply ctys_ok_node in W. destruct W as [W _]. rewrite (W K). reflexivity.
Qed.

Lemma hclass_struct_nobind h : hclass_of h = HcStruct -> binds h = false.
Proof. destruct h; try discriminate; reflexivity. Qed.

Lemma mi_fix_match : forall cur new σ σ',
  top_vars0 cur -> ctys_ok cur -> ctys_ok new ->
  mi MFix new cur σ = Ok (Some σ') -> match_tm 0 cur new σ = Some σ'.
Proof.
  induction cur as [srt d i | d i c _ | hc cc IH] using tm_ind'; intros new σ σ' TV Wc Wn HM.
  - (* type or lifetime variable of the guidance *)
    cbn [top_vars0] in TV. subst d. cbn [mi] in HM. destruct (kind_of new) eqn:Kn; try discriminate;
      destruct srt; cbn [kind_of] in HM; try discriminate.
    assert (HV : mi_var MFix i new σ = Some σ') by congruence. clear HM. cbn [match_tm]. change (0 <? 0) with false. change (0 =? 0) with true. cbv iota.
    rewrite Kn. cbn [sort_kind kind_eqb]. rewrite shift_out_0. unfold bind. unfold mi_var in HV. exact HV.
  - (* const variable *)
    cbn [top_vars0] in TV. subst d. cbn [ctys_ok] in Wc. subst c. cbn [mi] in HM.
    destruct (kind_of new) eqn:Kn; cbn [kind_of] in HM; try discriminate.
    rewrite (ctys_ok_const_ty _ Kn Wn), mi_usize in HM. assert (HV : mi_var MFix i new σ = Some σ') by congruence. clear HM.
    cbn [match_tm]. change (0 <? 0) with false. change (0 =? 0) with true. cbv iota.
    rewrite Kn. cbn [kind_eqb]. rewrite shift_out_0. unfold bind. unfold mi_var in HV. exact HV.
  - destruct (head_kind hc) eqn:Kc.
    + (* type *)
      destruct new as [srt d i | d i c | hn cn].
      * cbn [mi kind_of] in HM. rewrite Kc in HM. destruct srt; discriminate.
      * cbn [mi kind_of] in HM. rewrite Kc in HM. discriminate.
      * destruct (head_kind hn) eqn:Kn; try (cbn [mi kind_of] in HM; rewrite Kn in HM; try rewrite Kc in HM; discriminate).
        rewrite (mi_ty_node _ _ _ _ _ _ Kn Kc) in HM.
        destruct (is_hinfer hn || is_hinfer hc); [discriminate |]. rename HM into HM'. destruct (head_eqb hn hc) eqn:Eh; [| discriminate]. apply head_eqb_eq in Eh. subst hn.
        cbn [match_tm]. rewrite (proj2 (head_eqb_eq hc hc) eq_refl).
        destruct (hclass_of hc) eqn:Ec; [| | discriminate].
        -- destruct (Nat.eqb (length cn) (length cc)) eqn:El; [| discriminate]. apply Nat.eqb_eq in El.
           pose proof (hclass_struct_nobind _ Ec) as NB. unfold under. rewrite NB.
           apply top_vars0_node in TV; [| assumption].
           apply ctys_ok_node in Wc. destruct Wc as [_ Wc]. apply ctys_ok_node in Wn. destruct Wn as [_ Wn].
           clear Ec NB Kc Kn. revert cn σ El Wn HM'. induction IH as [| c rc Hc _ IHr]; intros cn σ El Wn HM'.
           ++ destruct cn; [| discriminate]. cbn [mi_list] in HM'. inversion HM'; subst. reflexivity.
           ++ destruct cn as [| n rn]; [discriminate |]. cbn [mi_list] in HM'. cbn [match_list].
              destruct (mi MFix n c σ) as [[σ1 |] | e] eqn:E1; try discriminate.
              rewrite (Hc _ _ _ (Forall_inv TV) (Forall_inv Wc) (Forall_inv Wn) E1).
              apply IHr; [exact (Forall_inv_tail TV) | exact (Forall_inv_tail Wc) | cbn [length] in El; lia | exact (Forall_inv_tail Wn) | assumption].
        -- destruct cc; [| discriminate]. destruct cn; [| discriminate]. inversion HM'; subst. reflexivity.
    + (* lifetime: always [true] *)
      cbn [mi kind_of] in HM. rewrite Kc in HM. destruct (kind_of new); discriminate.
    + (* const *)
      pose proof Wc as Wc'. apply ctys_ok_node in Wc'. destruct Wc' as [Wk _]. rewrite (Wk Kc) in *.
      cbn [mi kind_of] in HM. rewrite Kc in HM. destruct (kind_of new) eqn:Kn; try discriminate.
      rewrite (ctys_ok_const_ty _ Kn Wn), mi_usize in HM.
      destruct new as [srt d i | d i c | hn cn]; try discriminate.
      pose proof Wn as Wn'. apply ctys_ok_node in Wn'. destruct Wn' as [Wkn _]. cbn [kind_of] in Kn. rewrite (Wkn Kn) in *.
      cbn [match_tm].
      destruct (const_cmp hn hc) as [[|] | e] eqn:EC; try discriminate. inversion HM; subst.
      rewrite (const_cmp_false _ _ Kn Kc EC). rewrite (proj2 (head_eqb_eq _ _) eq_refl). reflexivity.
    + cbn [mi kind_of] in HM. rewrite Kc in HM. destruct (kind_of new); discriminate.
Qed.

Lemma mi_list_fix_match : forall cur new σ σ',
  length new = length cur -> Forall top_vars0 cur -> Forall ctys_ok cur -> Forall ctys_ok new ->
  mi_list MFix cur new σ = Ok (Some σ') -> match_list (match_tm 0) cur new σ = Some σ'.
Proof.
  induction cur as [| c rc IH]; intros new σ σ' El TV Wc Wn HM.
  - destruct new; [| discriminate]. cbn [mi_list] in HM. inversion HM; subst. reflexivity.
  - destruct new as [| n rn]; [discriminate |]. cbn [mi_list] in HM. cbn [match_list].
    destruct (mi MFix n c σ) as [[σ1 |] | e] eqn:E1; try discriminate.
    rewrite (mi_fix_match _ _ _ _ (Forall_inv TV) (Forall_inv Wc) (Forall_inv Wn) E1).
    apply IH; [cbn [length] in El; lia | exact (Forall_inv_tail TV) | exact (Forall_inv_tail Wc) | exact (Forall_inv_tail Wn) | assumption].
Qed.

(** Repaired code, all guidance: if the check says "cannot change", the new answer — hence
    every future answer, which is an instance of it — is an instance of the guidance. *)
Lemma may_invalidate_fixed_sound_lemma new (cur : csubst) :
  length new = length (snd cur) -> Forall top_vars0 (snd cur) -> Forall ctys_ok (snd cur) -> Forall ctys_ok new ->
  may_invalidate MFix new cur = Ok false -> instance_of_list new (snd cur) = true.
Proof.
  intros El TV Wc Wn H. unfold may_invalidate in H.
  destruct (mi_list MFix (snd cur) new []) as [[σ' |] | e] eqn:E; try discriminate.
  unfold instance_of_list, instance_of. cbn [match_tm]. rewrite (proj2 (head_eqb_eq _ _) eq_refl).
  change (under HList 0) with 0. rewrite (mi_list_fix_match _ _ _ _ El TV Wc Wn E). reflexivity.
Qed.

(** ** A run that meets no variable twice: merging leaves the guidance unchanged *)

Definition keys (σ : bindings) : list N := map fst σ.

Lemma lookup_none_keys i σ : lookup i σ = None <-> ~ In i (keys σ).
Proof.
  induction σ as [| [j p] r IH]; cbn [lookup keys map fst In]; [tauto |].
  destruct (N.eqb_spec j i) as [-> |]; split; intros H; try discriminate.
  - exfalso. apply H. left. reflexivity.
  - intros [E | HI]; [contradiction | apply IH in H; contradiction].
  - apply IH. intros HI. apply H. right. assumption.
Qed.

Lemma lookup_same_keys i σ ρ : keys ρ = keys σ -> lookup i σ = None -> lookup i ρ = None.
Proof. intros K H. apply lookup_none_keys. rewrite K. apply lookup_none_keys. assumption. Qed.

Lemma match_self_leaf h ρ : match_tm 0 (Node h []) (Node h []) ρ = Some ρ.
Proof. cbn [match_tm]. rewrite (proj2 (head_eqb_eq _ _) eq_refl). reflexivity. Qed.

Lemma match_self_const h ρ : match_tm 0 (Node h [usize_ty]) (Node h [usize_ty]) ρ = Some ρ.
Proof. cbn [match_tm]. rewrite (proj2 (head_eqb_eq _ _) eq_refl). reflexivity. Qed.

Lemma mi_lin_merge : forall cur new u st g st' σ σ' ρ,
  top_vars0 cur -> ctys_ok cur -> ctys_ok new ->
  mi MLin new cur σ = Ok (Some σ') -> au_garg u cur new st = Ok (g, st') -> keys ρ = keys σ ->
  exists ρ', match_tm 0 cur g ρ = Some ρ' /\ keys ρ' = keys σ'.
Proof.
  induction cur as [srt d i | d i c _ | hc cc IH] using tm_ind'; intros new u st g st' σ σ' ρ TV Wc Wn HM HA HK.
  - cbn [top_vars0] in TV. subst d. cbn [mi] in HM. destruct (kind_of new) eqn:Kn; try discriminate;
      destruct srt; cbn [kind_of] in HM; try discriminate.
    unfold au_garg in HA. cbn [kind_of] in HA. rewrite Kn in HA. cbn [au_ty] in HA. inversion HA; subst.
    unfold mi_var in HM. destruct (lookup i σ) eqn:L; [discriminate |]. inversion HM; subst.
    cbn [match_tm]. change (0 <? 0) with false. change (0 =? 0) with true. cbv iota. cbn [kind_of sort_kind kind_eqb].
    rewrite shift_out_0. unfold bind. rewrite (lookup_same_keys _ _ _ HK L).
    eexists; split; [reflexivity |]. cbn [keys map fst]. f_equal. exact HK.
  - cbn [top_vars0] in TV. subst d. cbn [ctys_ok] in Wc. subst c. cbn [mi] in HM.
    destruct (kind_of new) eqn:Kn; cbn [kind_of] in HM; try discriminate.
    rewrite (ctys_ok_const_ty _ Kn Wn), mi_usize in HM.
    unfold au_garg in HA. cbn [kind_of] in HA. rewrite Kn in HA. cbn [au_const const_ty] in HA. inversion HA; subst.
    unfold mi_var in HM. destruct (lookup i σ) eqn:L; [discriminate |]. inversion HM; subst.
    cbn [match_tm]. change (0 <? 0) with false. change (0 =? 0) with true. cbv iota. cbn [kind_of kind_eqb].
    rewrite shift_out_0. unfold bind. rewrite (lookup_same_keys _ _ _ HK L).
    eexists; split; [reflexivity |]. cbn [keys map fst]. f_equal. exact HK.
  - destruct (head_kind hc) eqn:Kc.
    + destruct new as [srt d i | d i c | hn cn].
      * cbn [mi kind_of] in HM. rewrite Kc in HM. destruct srt; discriminate.
      * cbn [mi kind_of] in HM. rewrite Kc in HM. discriminate.
      * destruct (head_kind hn) eqn:Kn; try (cbn [mi kind_of] in HM; rewrite Kn in HM; try rewrite Kc in HM; discriminate).
        rewrite (mi_ty_node _ _ _ _ _ _ Kn Kc) in HM.
        destruct (is_hinfer hn || is_hinfer hc); [discriminate |]. rename HM into HM'. destruct (head_eqb hn hc) eqn:Eh; [| discriminate]. apply head_eqb_eq in Eh. subst hn.
        unfold au_garg in HA. cbn [kind_of] in HA. rewrite Kc in HA. rewrite au_ty_node in HA.
        rewrite (proj2 (head_eqb_eq hc hc) eq_refl) in HA.
        destruct (hclass_of hc) eqn:Ec; [| | discriminate].
        -- destruct (Nat.eqb (length cn) (length cc)) eqn:El; [| discriminate].
           rewrite Nat.eqb_sym, El in HA.
           destruct (au_list u cc cn st) as [[gs st2] | e] eqn:EL; cbn [rbind fst snd] in HA; [| discriminate].
           inversion HA; subst. cbn [match_tm]. rewrite (proj2 (head_eqb_eq hc hc) eq_refl).
           pose proof (hclass_struct_nobind _ Ec) as NB. unfold under. rewrite NB.
           apply top_vars0_node in TV; [| assumption].
           apply ctys_ok_node in Wc. destruct Wc as [_ Wc]. apply ctys_ok_node in Wn. destruct Wn as [_ Wn].
           apply Nat.eqb_eq in El. clear Ec NB Kc Kn HA. revert cn st gs st' σ ρ El Wn HM' EL HK.
           induction IH as [| c rc Hc _ IHr]; intros cn st gs st' σ ρ El Wn HM' EL HK.
           ++ cbn [au_list] in EL. inversion EL; subst. cbn [mi_list] in HM'. inversion HM'; subst.
              cbn [match_list]. eauto.
           ++ destruct cn as [| n rn]; [discriminate El |].
              cbn [mi_list] in HM'. cbn [au_list] in EL.
              destruct (mi MLin n c σ) as [[σ1 |] | e] eqn:E1; try discriminate.
              destruct (au_garg u c n st) as [[g1 st1] | e] eqn:A1; cbn [rbind fst snd] in EL; [| discriminate].
              destruct (au_list u rc rn st1) as [[g2 st2] | e] eqn:A2; cbn [rbind fst snd] in EL; [| discriminate].
              inversion EL; subst. cbn [match_list].
              destruct (Hc _ _ _ _ _ _ _ _ (Forall_inv TV) (Forall_inv Wc) (Forall_inv Wn) E1 A1 HK) as (ρ1 & -> & K1).
              apply (IHr (Forall_inv_tail TV) (Forall_inv_tail Wc) rn st1 g2 st' σ1 ρ1 (f_equal pred El) (Forall_inv_tail Wn) HM' A2 K1).
        -- destruct cc; [| discriminate]. destruct cn; [| discriminate]. inversion HM'; subst. inversion HA; subst.
           rewrite match_self_leaf. eauto.
    + cbn [mi kind_of] in HM. rewrite Kc in HM. destruct (kind_of new); discriminate.
    + pose proof Wc as Wc'. apply ctys_ok_node in Wc'. destruct Wc' as [Wk _]. rewrite (Wk Kc) in *.
      cbn [mi kind_of] in HM. rewrite Kc in HM. destruct (kind_of new) eqn:Kn; try discriminate.
      rewrite (ctys_ok_const_ty _ Kn Wn), mi_usize in HM.
      destruct new as [srt d i | d i c | hn cn]; try discriminate.
      pose proof Wn as Wn'. apply ctys_ok_node in Wn'. destruct Wn' as [Wkn _]. cbn [kind_of] in Kn. rewrite (Wkn Kn) in *.
      unfold au_garg in HA. cbn [kind_of] in HA. rewrite Kc, Kn in HA.
      destruct (const_cmp hn hc) as [[|] | e] eqn:EC; try discriminate. inversion HM; subst.
      assert (Ehh : hn = hc) by exact (const_cmp_false _ _ Kn Kc EC). subst hn.
      assert (G : au_const u (Node hc [usize_ty]) (Node hc [usize_ty]) st = (Node hc [usize_ty], st)).
      { destruct hc; try discriminate Kc; cbn [au_const]; [discriminate EC | rewrite tm_eqb_refl; reflexivity | rewrite N.eqb_refl; reflexivity]. }
      rewrite G in HA. inversion HA; subst. rewrite match_self_const. eauto.
    + cbn [mi kind_of] in HM. rewrite Kc in HM. destruct (kind_of new); discriminate.
Qed.

Lemma mi_lin_merge_args : forall cur new us st gs st' σ σ' ρ,
  Forall top_vars0 cur -> Forall ctys_ok cur -> Forall ctys_ok new ->
  mi_list MLin cur new σ = Ok (Some σ') -> merge_args us cur new st = Ok (gs, st') -> keys ρ = keys σ ->
  length new = length cur ->
  exists ρ', match_list (match_tm 0) cur gs ρ = Some ρ' /\ keys ρ' = keys σ'.
Proof.
  induction cur as [| c rc IH]; intros new us st gs st' σ σ' ρ TV Wc Wn HM HA HK El.
  - cbn [merge_args] in HA. inversion HA; subst. cbn [mi_list] in HM. inversion HM; subst. cbn [match_list]. eauto.
  - destruct new as [| n rn]; [discriminate |]. cbn [mi_list] in HM. cbn [merge_args] in HA.
    destruct us as [| u ur]; [discriminate |].
    destruct (mi MLin n c σ) as [[σ1 |] | e] eqn:E1; try discriminate.
    assert (NL : kind_of c <> KLt).
    { intros K. destruct c as [srt d i | d i c0 | hc cc]; cbn [mi] in E1; cbn [kind_of] in K, E1.
      - destruct srt; try discriminate. destruct (kind_of n); discriminate.
      - discriminate.
      - rewrite K in E1. destruct (kind_of n); discriminate. }
    assert (A1 : exists g1 st1, au_garg u c n st = Ok (g1, st1) /\ exists g2, merge_args ur rc rn st1 = Ok (g2, st') /\ gs = g1 :: g2).
    { destruct (kind_of c) eqn:K; try contradiction;
        (destruct (au_garg u c n st) as [[g1 st1] | e] eqn:A; cbn [rbind fst snd] in HA; [| discriminate];
         destruct (merge_args ur rc rn st1) as [[g2 st2] | e] eqn:A2; cbn [rbind fst snd] in HA; [| discriminate];
         inversion HA; subst; eauto 8). }
    destruct A1 as (g1 & st1 & A1 & g2 & A2 & ->). cbn [match_list].
    destruct (mi_lin_merge _ _ _ _ _ _ _ _ _ (Forall_inv TV) (Forall_inv Wc) (Forall_inv Wn) E1 A1 HK) as (ρ1 & -> & K1).
    exact (IH rn ur st1 g2 st' σ1 σ' ρ1 (Forall_inv_tail TV) (Forall_inv_tail Wc) (Forall_inv_tail Wn) HM A2 K1 (f_equal pred El)).
Qed.

Lemma same_kinds_length a b : same_kinds a b -> length a = length b.
Proof. induction 1; cbn [length]; congruence. Qed.

(** Whenever the check, run so that it meets no guidance variable twice, says "cannot
    change", really merging the answer gives guidance that is equal to the current one up to
    renaming of variables (each is an instance of the other). *)
Lemma may_invalidate_lin_unchanged root new (cur ans : csubst) g' :
  snd ans = new -> same_kinds (snd cur) new ->
  Forall top_vars0 (snd cur) -> Forall ctys_ok (snd cur) -> Forall ctys_ok new ->
  may_invalidate MLin new cur = Ok false -> merge root cur ans = Ok g' ->
  variant_list (snd g') (snd cur) = true.
Proof.
  intros <- SK TV Wc Wn HM HG. unfold variant_list.
  destruct (merge_generalizes_lemma _ _ _ _ SK Wc Wn HG) as [I1 _]. rewrite I1, andb_true_r.
  unfold may_invalidate in HM. destruct (mi_list MLin (snd cur) (snd ans) []) as [[σ' |] | e] eqn:E; try discriminate.
  unfold merge in HG. destruct (merge_args (map snd root) (snd cur) (snd ans) []) as [[gs st'] | e] eqn:EM; cbn [rbind fst snd] in HG; [| discriminate].
  inversion HG; subst. cbn [snd].
  assert (El : length (snd ans) = length (snd cur)) by (symmetry; apply same_kinds_length; exact SK).
  destruct (mi_lin_merge_args _ _ _ _ _ _ _ _ [] TV Wc Wn E EM eq_refl El) as (ρ' & HR & _).
  unfold instance_of_list, instance_of. cbn [match_tm]. rewrite (proj2 (head_eqb_eq _ _) eq_refl).
  change (under HList 0) with 0. rewrite HR. reflexivity.
Qed.

(** ** On linear guidance the three variants coincide *)

Definition fresh_for (l : list N) (σ : bindings) : Prop := forall i, In i l -> lookup i σ = None.

Definition keys_within (σ σ' : bindings) (l : list N) : Prop :=
  forall j, lookup j σ' <> None -> lookup j σ <> None \/ In j l.

Lemma mi_var_fresh m i y σ : lookup i σ = None -> mi_var m i y σ = Some ((i, y) :: σ).
Proof. intros L. unfold mi_var. rewrite L. reflexivity. Qed.

Lemma keys_within_refl σ l : keys_within σ σ l.
Proof. intros j H. left. assumption. Qed.

Lemma keys_within_cons i y σ l : In i l -> keys_within σ ((i, y) :: σ) l.
Proof.
  intros HI j H. cbn [lookup] in H. destruct (N.eqb_spec i j) as [E |]; [subst j; right; assumption | left; assumption].
Qed.

Lemma NoDup_app_inv {A} (a b : list A) :
  NoDup (a ++ b) -> NoDup a /\ NoDup b /\ forall x, In x a -> In x b -> False.
Proof.
  induction a as [| x r IH]; cbn [app]; intros H.
  - repeat split; [constructor | assumption | intros x []].
  - inversion H; subst. destruct (IH H3) as (N1 & N2 & D). repeat split.
    + constructor; [| assumption]. intros HI. apply H2. apply in_or_app. left. assumption.
    + assumption.
    + intros y [-> | Hy] Hb; [apply H2; apply in_or_app; right; assumption | exact (D y Hy Hb)].
Qed.

Lemma mi_any_lin : forall cur m m' new σ σ',
  NoDup (pvars cur) -> fresh_for (pvars cur) σ -> ctys_ok cur -> ctys_ok new ->
  mi m new cur σ = Ok (Some σ') ->
  mi m' new cur σ = Ok (Some σ') /\ keys_within σ σ' (pvars cur).
Proof.
  induction cur as [srt d i | d i c _ | hc cc IH] using tm_ind'; intros m m' new σ σ' ND FF Wc Wn HM.
  - cbn [mi] in *. destruct (kind_of new); try discriminate; destruct (kind_of (Var srt d i)); try discriminate.
    assert (L : lookup i σ = None) by (apply FF; left; reflexivity).
    rewrite mi_var_fresh in * by assumption. inversion HM; subst. split; [reflexivity | apply keys_within_cons; left; reflexivity].
  - cbn [ctys_ok] in Wc. subst c. cbn [mi] in *. destruct (kind_of new) eqn:Kn; cbn [kind_of] in *; try discriminate.
    rewrite (ctys_ok_const_ty _ Kn Wn), mi_usize in *.
    assert (L : lookup i σ = None) by (apply FF; cbn [pvars]; apply in_or_app; right; left; reflexivity).
    rewrite mi_var_fresh in * by assumption. inversion HM; subst. split; [reflexivity |].
    apply keys_within_cons. cbn [pvars]. apply in_or_app. right. left. reflexivity.
  - destruct (head_kind hc) eqn:Kc.
    + destruct new as [srt d i | d i c | hn cn].
      * cbn [mi kind_of] in *. rewrite Kc in *. destruct srt; try discriminate.
      * cbn [mi kind_of] in *. rewrite Kc in *. discriminate.
      * destruct (head_kind hn) eqn:Kn; try (cbn [mi kind_of] in HM; rewrite Kn in HM; try rewrite Kc in HM; discriminate).
        rewrite (mi_ty_node m _ _ _ _ _ Kn Kc) in HM. rewrite (mi_ty_node m' _ _ _ _ _ Kn Kc).
        assert (X : forall m0, (if is_hinfer hn || is_hinfer hc then Panic OtherPanic
                      else if head_eqb hn hc then
                                  match hclass_of hc with
                                  | HcStruct => if Nat.eqb (length cn) (length cc) then mi_list m0 cc cn σ else Panic AssertFailed
                                  | HcLeaf => match cc, cn with [], [] => Ok (Some σ) | _, _ => Ok None end
                                  | HcFresh => Ok None
                                  end
                                else Ok None) = Ok (Some σ') ->
                   is_hinfer hn || is_hinfer hc = false /\ head_eqb hn hc = true /\
                   ((hclass_of hc = HcStruct /\ Nat.eqb (length cn) (length cc) = true /\ mi_list m0 cc cn σ = Ok (Some σ'))
                    \/ (hclass_of hc = HcLeaf /\ cc = [] /\ cn = [] /\ σ' = σ))).
        { intros m0 H'. destruct (is_hinfer hn || is_hinfer hc); [discriminate |]. split; [reflexivity |].
          destruct (head_eqb hn hc); [| discriminate]. split; [reflexivity |].
          destruct (hclass_of hc); [left | right | discriminate].
          - destruct (Nat.eqb (length cn) (length cc)); [auto | discriminate].
          - destruct cc; [| discriminate]. destruct cn; [| discriminate]. inversion H'. auto. }
        destruct (X _ HM) as [Ei [Eh [(Ec & El & HL) | (Ec & -> & -> & ->)]]].
        -- assert (G : mi_list m' cc cn σ = Ok (Some σ') /\ keys_within σ σ' (flat_map pvars cc)).
           { apply ctys_ok_node in Wc. destruct Wc as [_ Wc]. apply ctys_ok_node in Wn. destruct Wn as [_ Wn].
             cbn [pvars] in ND, FF. clear X HM Eh Ec El Kc Kn.
             revert cn σ Wn HL FF. induction IH as [| c rc Hc _ IHr]; intros cn σ Wn HL FF.
             - cbn [mi_list] in *. inversion HL; subst. split; [reflexivity | apply keys_within_refl].
             - destruct cn as [| n rn]; cbn [mi_list] in *; [inversion HL; subst; split; [reflexivity | apply keys_within_refl] |].
               destruct (mi m n c σ) as [[σ1 |] | e] eqn:E1; try discriminate.
               cbn [flat_map] in ND, FF. apply NoDup_app_inv in ND. destruct ND as (ND1 & ND2 & DJ).
               destruct (Hc m m' n σ σ1 ND1 (fun i HI => FF i (in_or_app _ _ _ (or_introl HI))) (Forall_inv Wc) (Forall_inv Wn) E1) as [L1 KW1].
               rewrite L1.
               assert (FF2 : fresh_for (flat_map pvars rc) σ1).
               { intros i HI. destruct (lookup i σ1) eqn:L; [| reflexivity]. exfalso.
                 destruct (KW1 i) as [K | K]; [rewrite L; discriminate | | ].
                 - apply K. apply FF. apply in_or_app. right. assumption.
                 - exact (DJ i K HI). }
               destruct (IHr ND2 (Forall_inv_tail Wc) rn σ1 (Forall_inv_tail Wn) HL FF2) as [L2 KW2].
               split; [assumption |]. intros j Hj. destruct (KW2 j Hj) as [K | K].
               + destruct (KW1 j K) as [K' | K']; [left; assumption | right; apply in_or_app; left; assumption].
               + right. apply in_or_app. right. assumption. }
           destruct G as [G1 G2]. split; [| exact G2].
           rewrite Ei, Eh, Ec, El. exact G1.
        -- split; [| apply keys_within_refl]. rewrite Ei, Eh, Ec. reflexivity.
    + cbn [mi kind_of] in HM. rewrite Kc in HM. destruct (kind_of new); discriminate.
    + pose proof Wc as Wc'. apply ctys_ok_node in Wc'. destruct Wc' as [Wk _]. rewrite (Wk Kc) in *.
      cbn [mi kind_of] in *. rewrite Kc in *. destruct (kind_of new) eqn:Kn; try discriminate.
      rewrite (ctys_ok_const_ty _ Kn Wn), mi_usize in *.
      destruct new as [srt d i | d i c | hn cn]; try discriminate.
      assert (E : σ' = σ) by (destruct (const_cmp hn hc) as [[|] | e]; try discriminate; inversion HM; reflexivity).
      subst σ'. split; [exact HM | apply keys_within_refl].
    + cbn [mi kind_of] in HM. rewrite Kc in HM. destruct (kind_of new); discriminate.
Qed.

Lemma mi_list_any_lin : forall cur m m' new σ σ',
  NoDup (flat_map pvars cur) -> fresh_for (flat_map pvars cur) σ -> Forall ctys_ok cur -> Forall ctys_ok new ->
  mi_list m cur new σ = Ok (Some σ') ->
  mi_list m' cur new σ = Ok (Some σ').
Proof.
  induction cur as [| c rc IH]; intros m m' new σ σ' ND FF Wc Wn HL.
  - cbn [mi_list] in *. assumption.
  - destruct new as [| n rn]; cbn [mi_list] in *; [assumption |].
    destruct (mi m n c σ) as [[σ1 |] | e] eqn:E1; try discriminate.
    cbn [flat_map] in ND, FF. apply NoDup_app_inv in ND. destruct ND as (ND1 & ND2 & DJ).
    destruct (mi_any_lin c m m' n σ σ1 ND1 (fun i HI => FF i (in_or_app _ _ _ (or_introl HI))) (Forall_inv Wc) (Forall_inv Wn) E1) as [L1 KW1].
    rewrite L1. apply (IH m); try assumption; [| exact (Forall_inv_tail Wc) | exact (Forall_inv_tail Wn)].
    intros i HI. destruct (lookup i σ1) eqn:L; [| reflexivity]. exfalso.
    destruct (KW1 i) as [K | K]; [rewrite L; discriminate | |].
    + apply K. apply FF. apply in_or_app. right. assumption.
    + exact (DJ i K HI).
Qed.

Lemma may_invalidate_linear_modes m m' new (cur : csubst) :
  repeats_var (snd cur) = false -> Forall ctys_ok (snd cur) -> Forall ctys_ok new ->
  may_invalidate m new cur = Ok false -> may_invalidate m' new cur = Ok false.
Proof.
  intros L Wc Wn H. unfold repeats_var in L. apply negb_false_iff, nodup_b_NoDup in L.
  unfold may_invalidate in *. destruct (mi_list m (snd cur) new []) as [[σ' |] | e] eqn:E; try discriminate.
  assert (FF : fresh_for (flat_map pvars (snd cur)) []) by (intros i _; reflexivity).
  rewrite (mi_list_any_lin _ m m' _ _ _ L FF Wc Wn E). reflexivity.
Qed.

(** The code as it is, OUTSIDE the known class F1 (guidance in which no variable is
    repeated): if the check says "cannot change", merging the answer leaves the guidance
    unchanged up to renaming, and the answer is an instance of the guidance. *)
Lemma may_invalidate_conservative_lemma root new (cur ans : csubst) g' :
  repeats_var (snd cur) = false ->
  snd ans = new -> same_kinds (snd cur) new ->
  Forall top_vars0 (snd cur) -> Forall ctys_ok (snd cur) -> Forall ctys_ok new ->
  may_invalidate MOld new cur = Ok false -> merge root cur ans = Ok g' ->
  variant_list (snd g') (snd cur) = true /\ instance_of_list new (snd cur) = true.
Proof.
  intros L EA SK TV Wc Wn HM HG. split.
  - eapply may_invalidate_lin_unchanged; try eassumption. eapply may_invalidate_linear_modes; eassumption.
  - apply may_invalidate_fixed_sound_lemma; try assumption.
    + symmetry. apply same_kinds_length. assumption.
    + eapply may_invalidate_linear_modes; eassumption.
Qed.

(** The repaired code, ALL guidance: "cannot change" implies the answer is an instance of
    the guidance; if moreover no variable is repeated, merging leaves it unchanged up to
    renaming.  (For guidance that repeats a variable the anti-unifier itself over-generalises
    — merging [[^0, ^0]] even with itself gives [[^0, ^1]] — so "unchanged" cannot be asked
    there; the answer being an instance is what makes [Definite] guidance sound.) *)
Lemma may_invalidate_fixed_conservative_lemma root new (cur ans : csubst) g' :
  snd ans = new -> same_kinds (snd cur) new ->
  Forall top_vars0 (snd cur) -> Forall ctys_ok (snd cur) -> Forall ctys_ok new ->
  may_invalidate MFix new cur = Ok false -> merge root cur ans = Ok g' ->
  instance_of_list new (snd cur) = true /\
  (repeats_var (snd cur) = false -> variant_list (snd g') (snd cur) = true).
Proof.
  intros EA SK TV Wc Wn HM HG. split.
  - apply may_invalidate_fixed_sound_lemma; try assumption. symmetry. apply same_kinds_length. assumption.
  - intros L. eapply may_invalidate_lin_unchanged; try eassumption. eapply may_invalidate_linear_modes; eassumption.
Qed.

(** ** The known class of finding F1, as narrow as it gets

    [f1_class new cur]: the model of the code as it is says "cannot change" where the model
    of the repaired code says "may change".  It is a function of the input alone and implies
    [repeats_var cur].  Outside it the unchanged check is sound for ALL guidance. *)

Definition f1_class (new : list tm) (cur : csubst) : bool :=
  match may_invalidate MOld new cur, may_invalidate MFix new cur with
  | Ok false, Ok true => true
  | _, _ => false
  end.

(** The repaired run follows the unchanged one step by step until it stops with "may change". *)
Lemma mi_old_fix : forall cur new σ σ',
  mi MOld new cur σ = Ok (Some σ') -> mi MFix new cur σ = Ok (Some σ') \/ mi MFix new cur σ = Ok None.
Proof.
  assert (V : forall i y σ σ', mi_var MOld i y σ = Some σ' -> mi_var MFix i y σ = Some σ' \/ mi_var MFix i y σ = None).
  { intros i y σ σ'. unfold mi_var. destruct (lookup i σ); [| auto]. destruct (tm_eqb y t); auto. }
  induction cur as [srt d i | d i c IHc | hc cc IH] using tm_ind'; intros new σ σ' HM.
  - cbn [mi] in *. destruct (kind_of new); try discriminate; destruct (kind_of (Var srt d i)); try discriminate.
    inversion HM as [HV]. destruct (V _ _ _ _ HV) as [-> | ->]; auto.
  - cbn [mi] in *. destruct (kind_of new); cbn [kind_of] in *; try discriminate.
    destruct (mi MOld (const_ty new) c σ) as [[σ1 |] | e] eqn:E1; try discriminate.
    destruct (IHc _ _ _ E1) as [-> | ->]; [| auto]. inversion HM as [HV]. destruct (V _ _ _ _ HV) as [-> | ->]; auto.
  - destruct (head_kind hc) eqn:Kc.
    + destruct new as [srt d i | d i c | hn cn].
      * cbn [mi kind_of] in *. rewrite Kc in *. destruct srt; discriminate.
      * cbn [mi kind_of] in *. rewrite Kc in *. discriminate.
      * destruct (head_kind hn) eqn:Kn; try (cbn [mi kind_of] in HM; rewrite Kn in HM; try rewrite Kc in HM; discriminate).
        rewrite (mi_ty_node MOld _ _ _ _ _ Kn Kc) in HM. rewrite (mi_ty_node MFix _ _ _ _ _ Kn Kc).
        destruct (is_hinfer hn || is_hinfer hc); [discriminate |]. destruct (head_eqb hn hc); [| discriminate].
        destruct (hclass_of hc); [| auto | discriminate].
        destruct (Nat.eqb (length cn) (length cc)); [| discriminate].
        clear Kc Kn. revert cn σ HM. induction IH as [| c rc Hc _ IHr]; intros cn σ HM.
        -- cbn [mi_list] in *. auto.
        -- destruct cn as [| n rn]; cbn [mi_list] in *; [auto |].
           destruct (mi MOld n c σ) as [[σ1 |] | e] eqn:E1; try discriminate.
           destruct (Hc _ _ _ E1) as [-> | ->]; [| auto]. apply IHr. assumption.
    + cbn [mi kind_of] in HM. rewrite Kc in HM. destruct (kind_of new); discriminate.
    + cbn [mi kind_of] in *. rewrite Kc in *. destruct (kind_of new) eqn:Kn; try discriminate.
      destruct cc as [| c rc]; [discriminate |].
      destruct (mi MOld (const_ty new) c σ) as [[σ1 |] | e] eqn:E1; try discriminate.
      destruct (Forall_inv IH _ _ _ E1) as [-> | ->]; auto.
    + cbn [mi kind_of] in HM. rewrite Kc in HM. destruct (kind_of new); discriminate.
Qed.

Lemma mi_list_old_fix : forall cur new σ σ',
  mi_list MOld cur new σ = Ok (Some σ') -> mi_list MFix cur new σ = Ok (Some σ') \/ mi_list MFix cur new σ = Ok None.
Proof.
  induction cur as [| c rc IH]; intros new σ σ' HM; cbn [mi_list] in *; [auto |].
  destruct new as [| n rn]; [auto |].
  destruct (mi MOld n c σ) as [[σ1 |] | e] eqn:E1; try discriminate.
  destruct (mi_old_fix _ _ _ _ E1) as [-> | ->]; [| auto]. apply IH. assumption.
Qed.

(** The code as it is, outside the (narrow) known class, all guidance: "cannot change"
    implies that the answer is an instance of the guidance. *)
Lemma may_invalidate_sound_outside_f1_lemma new (cur : csubst) :
  f1_class new cur = false ->
  length new = length (snd cur) -> Forall top_vars0 (snd cur) -> Forall ctys_ok (snd cur) -> Forall ctys_ok new ->
  may_invalidate MOld new cur = Ok false -> instance_of_list new (snd cur) = true.
Proof.
  intros NC El TV Wc Wn HM. apply may_invalidate_fixed_sound_lemma; try assumption.
  unfold f1_class in NC. rewrite HM in NC. unfold may_invalidate in *.
  destruct (mi_list MOld (snd cur) new []) as [[σ' |] | e] eqn:E; try discriminate.
  destruct (mi_list_old_fix _ _ _ _ E) as [H | H]; rewrite H in *; [reflexivity | discriminate].
Qed.

Lemma f1_class_repeats new (cur : csubst) :
  Forall ctys_ok (snd cur) -> Forall ctys_ok new -> f1_class new cur = true -> repeats_var (snd cur) = true.
Proof.
  intros Wc Wn H. destruct (repeats_var (snd cur)) eqn:R; [reflexivity |]. exfalso.
  unfold f1_class in H. destruct (may_invalidate MOld new cur) as [[|] | e] eqn:E1; try discriminate.
  rewrite (may_invalidate_linear_modes MOld MFix _ _ R Wc Wn E1) in H. discriminate.
Qed.

(** ** Finding F1: the unchanged check is wrong when the guidance repeats a variable *)

Definition f1_cur : csubst := ([(VTy General, 0)], [ex_vec (Var STy 0 0); Var STy 0 0]).
Definition f1_new : list tm := [ex_vec ex_i32; ex_u32].
Definition f1_root : binders := [(VTy General, 0); (VTy General, 0)].

Lemma may_invalidate_refuted_lemma :
  exists root new (cur ans : csubst) g',
    snd ans = new /\ same_kinds (snd cur) new /\ Forall top_vars0 (snd cur) /\ Forall ctys_ok (snd cur) /\ Forall ctys_ok new /\
    repeats_var (snd cur) = true /\
    may_invalidate MOld new cur = Ok false /\ merge root cur ans = Ok g' /\
    variant_list (snd g') (snd cur) = false /\ instance_of_list new (snd cur) = false /\
    may_invalidate MFix new cur = Ok true /\ f1_class new cur = true.
Proof.
  exists f1_root, f1_new, f1_cur, ([], f1_new), ([(VTy General, 0); (VTy General, 0)], [ex_vec (Var STy 0 0); Var STy 0 1]).
  repeat split; try reflexivity; cbn; repeat constructor; intros; discriminate.
Qed.

Example may_invalidate_conservative_nonvacuous :
  let cur : csubst := ([(VTy General, 0); (VTy General, 1)], [ex_vec (Var STy 0 0); Node (HTuple 2) [Var STy 0 1; ex_u32]]) in
  let new := [ex_vec (ex_vec ex_i32); Node (HTuple 2) [Var STy 0 0; ex_u32]] in
  repeats_var (snd cur) = false /\ same_kinds (snd cur) new /\ Forall top_vars0 (snd cur) /\
  Forall ctys_ok (snd cur) /\ Forall ctys_ok new /\
  may_invalidate MOld new cur = Ok false /\ may_invalidate MFix new cur = Ok false /\
  merge [(VTy General, 0); (VTy General, 0)] cur ([(VTy General, 0)], new) = Ok ([(VTy General, 0); (VTy General, 0)], snd cur) /\
  may_invalidate MOld [ex_vec ex_i32; Node (HTuple 2) [ex_u32; ex_i32]] cur = Ok true.
Proof. cbv zeta. repeat split; try reflexivity; cbn; repeat constructor; intros; discriminate. Qed.

Example may_invalidate_fixed_nonvacuous :
  may_invalidate MFix [ex_vec ex_i32; ex_i32] f1_cur = Ok false /\
  instance_of_list [ex_vec ex_i32; ex_i32] (snd f1_cur) = true /\
  may_invalidate MFix f1_new f1_cur = Ok true.
Proof. repeat split; reflexivity. Qed.
