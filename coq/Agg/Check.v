(** * Agg.Check — glue for the correspondence stage of property C17 (checks/c17.py):
    tuple-argument wrappers of the models and boolean equalities of their result types.
    Nothing here is used by the theorems. *)

From Chalk Require Import Ir.Syntax Ir.Fold Agg.Instance Agg.AntiUnify Agg.MayInv Agg.Solution.

(** Panic messages are never compared: any panic equals any panic. *)
Definition rs_eqb {A} (e : A -> A -> bool) (a b : res A) : bool :=
  match a, b with Ok x, Ok y => e x y | Panic _, Panic _ => true | _, _ => false end.

Definition csubst_eqb (a b : csubst) : bool := binders_eqb (fst a) (fst b) && tms_eqb (snd a) (snd b).
Definition aggout_eqb (a b : binders * tm) : bool := binders_eqb (fst a) (fst b) && tm_eqb (snd a) (snd b).
Definition solprio_eqb (a b : solution * priority) : bool := solution_eqb (fst a) (fst b) && priority_eqb (snd a) (snd b).

Definition chk_agg (p : N * (tm * tm)) : res (binders * tm) := agg_pair (fst p) (fst (snd p)) (snd (snd p)).
Definition chk_merge (p : binders * (csubst * csubst)) : res csubst := merge (fst p) (fst (snd p)) (snd (snd p)).
Definition chk_merge_seq (p : binders * list csubst) : res (list csubst) :=
  match snd p with [] => Panic OtherPanic | g :: r => merge_seq (fst p) g r end.
Definition chk_mayinv (m : mi_mode) (p : list tm * csubst) : res bool := may_invalidate m (fst p) (snd p).
Definition chk_f1_class (p : list tm * csubst) : bool := f1_class (fst p) (snd p).
Definition chk_combine (p : solution * solution) : solution := combine (fst p) (snd p).
Definition chk_with_prio (p : tm * ((solution * priority) * (solution * priority))) : res (solution * priority) :=
  with_priorities (fst p) (fst (fst (snd p))) (snd (fst (snd p))) (fst (snd (snd p))) (snd (snd (snd p))).
Definition chk_inputs (p : tm * solution) : res (list tm) := calculate_inputs (fst p) (snd p).

(** The property evaluated on outputs of the implementation. *)
Definition chk_inst2 (p : (tm * tm) * tm) : bool := instance_of (fst (fst p)) (snd p) && instance_of (snd (fst p)) (snd p).
Definition chk_inst_all (p : list (list tm) * list tm) : bool := forallb (fun s => instance_of_list s (snd p)) (fst p).
(** (variant g' cur, instance new cur, repeats_var cur) *)
Definition chk_mayinv_prop (p : (list tm * list tm) * list tm) : bool * (bool * bool) :=
  let '((new, cur), g') := p in (variant_list g' cur, (instance_of_list new cur, repeats_var cur)).
Definition b3_eqb (a b : bool * (bool * bool)) : bool :=
  Bool.eqb (fst a) (fst b) && Bool.eqb (fst (snd a)) (fst (snd b)) && Bool.eqb (snd (snd a)) (snd (snd b)).

Definition chk_variant (p : list tm * list tm) : bool := variant_list (fst p) (snd p).
Definition chk_inst_list (p : list tm * list tm) : bool := instance_of_list (fst p) (snd p).
Definition chk_repeats (cur : list tm) : bool := repeats_var cur.

(** Verdict of the may-invalidate property on real outputs, for a case where the real check
    said "cannot change": 0 = the property holds (the answer is an instance of the guidance
    and, unless the guidance repeats a variable, the really merged guidance is a variant of
    it); 1 = it fails and the input is in the known class F1; 2 = it fails otherwise. *)
Definition chk_mi_verdict (p : (list tm * list tm) * list tm) : N :=
  let '((new, cur), g') := p in
  if instance_of_list new cur && (repeats_var cur || variant_list g' cur) then 0
  else if f1_class new ([], cur) then 1 else 2.

(** End to end: 0 = the known solution is an instance of the definite guidance; 1 = it is
    not and the guidance repeats a variable (class F1); 2 = it is not, otherwise. *)
Definition chk_e2e_verdict (p : list tm * list tm) : N :=
  if instance_of_list (fst p) (snd p) then 0 else if repeats_var (snd p) then 1 else 2.
